(* C13 — finite computations on the terms regenerated from mesh_tri_1.py / mesh_line_1.py / mesh_tet_1.py
   (Gen.C13Gen) that discharge the hypotheses of Proofs.C13_AdaptiveProofs. *)
From Coq Require Import List Arith Bool ZArith QArith Lia.
Import ListNotations.
Require Import Base.C11_Unique Model.C11_Topo.
Require Import Model.C12_Refine Model.C12_Geom Model.C13_Adaptive Model.C12_Global Proofs.C12_GlobalProofs.
Require Import Proofs.C12_RefineProofs Proofs.C12_GeomProofs Proofs.C13_AdaptiveProofs Gen.C13Gen.
Local Open Scope nat_scope.

Definition pats := map fst gen_split_blocks.
Definition flat := flat_blocks gen_split_blocks.
Definition triW := map (nref_weights 3 [] gen13_tri_rfacets).
Definition tetW := map (nref_weights 4 gen13_tet_redges gen13_tet_rfacets).

(* _adaptive_sort_mesh only permutes the local vertices, and moves the selected edge to the slots (0, 2) *)
Lemma sort_perms_ok : forallb is_perm3 gen_sort_perms = true.
Proof. vm_compute. reflexivity. Qed.
Lemma sort_moves_edge :
  forallb (fun pe => let '(perm, (a, b)) := pe in
                     let x := nth 0 perm 0 in let y := nth 2 perm 0 in
                     (Nat.eqb x a && Nat.eqb y b) || (Nat.eqb x b && Nat.eqb y a))
          (combine (tl gen_sort_perms) gen_sort_edges) = true
  /\ length (tl gen_sort_perms) = length gen_sort_edges.
Proof. split; vm_compute; reflexivity. Qed.

Lemma rule_in_range : Forall (fun i => i < 3) gen_rule_srcs /\ gen_rule_dst < 3.
Proof.
  split; [|unfold gen_rule_dst; lia]. apply Forall_forall. intros i Hi.
  assert (H : forallb (fun i => i <? 3) gen_rule_srcs = true) by reflexivity.
  rewrite forallb_forall in H. apply Nat.ltb_lt. now apply H.
Qed.

(* the class masks cover every pattern that survives the closure *)
Lemma patterns_cover : patterns_ok gen_rule_srcs gen_rule_dst pats = true.
Proof. vm_compute. reflexivity. Qed.

(* a cell with all three facets marked gets at least two children; an untouched cell is copied unchanged *)
Lemma fully_marked_is_split : 2 <= class_size gen_split_blocks (class_of pats [true; true; true]).
Proof. vm_compute. lia. Qed.
Lemma untouched_is_copied :
  snd (nth (class_of pats [false; false; false]) gen_split_blocks ([], [])) = [[NV 0; NV 1; NV 2]].
Proof. vm_compute. reflexivity. Qed.

(* local conformity of every class *)
Lemma traces_ok : forallb (fun b => trace_ok gen13_tri_rfacets (fst b) (snd b)) gen_split_blocks = true.
Proof. vm_compute. reflexivity. Qed.

(* the children of every class tile the parent *)
Lemma tiles_ok : forallb (fun b => tri_tiles_ok triW (snd b)) gen_split_blocks = true.
Proof. vm_compute. reflexivity. Qed.

Lemma tet_bisect_ok : tet_tiles_ok tetW gen_tet_bisect = true.
Proof. vm_compute. reflexivity. Qed.

(* the subdomain index map of _adaptive_split_elements is the position of the children in the stacked
   connectivity: row j of class c, for a cell of rank r in its class *)
Lemma split_submap_ok cls k j :
  let c := nth k cls 0 in
  c < length gen_split_blocks -> j < class_size gen_split_blocks c ->
  gen_split_submap (count_cls cls) c j (rank_in_cls cls k)
  = grouped_index flat cls (class_start gen_split_blocks c + j) k
  /\ fst (nth (class_start gen_split_blocks c + j) flat (0, [])) = c
  /\ class_start gen_split_blocks c + j < length flat.
Proof.
  intros c Hc Hj. unfold grouped_index. subst c.
  destruct (nth k cls 0) as [|[|[|[|[|c]]]]]; try (simpl in Hc; lia);
    (destruct j as [|[|[|[|j]]]]; try (vm_compute in Hj; lia));
    (split; [cbn; lia | split; [reflexivity | vm_compute; lia]]).
Qed.

(* no cell lost or duplicated: the refined mesh has one cell per untouched cell, 4 per red, 3 per blue, 2 per green *)
Lemma split_cell_count res cls cs :
  length cls = length cs ->
  length (grouped res flat cls cs)
  = list_sum (map (fun c => class_size gen_split_blocks c * count_cls cls c) (seq 0 (length gen_split_blocks))).
Proof. intros H. rewrite (grouped_length res flat cls cs H). cbn. lia. Qed.

(* MeshLine1._adaptive: the subdomain map in force gives the cells that replace cell k *)
Definition line_map_ok : Prop := forall nt marked k, gen_line_adapt_children nt marked k = line_children nt marked k.

Lemma tri13_rf2_ok : rf2_ok 3 gen13_tri_rfacets.
Proof.
  intros a Ha. destruct a as [|[|[|a]]]; simpl in Ha; try lia; eexists _, _; (split; [reflexivity|]); repeat split; lia.
Qed.

Lemma tri13_slots_ok : slots_ok 3 gen13_tri_rfacets = true.
Proof. vm_compute. reflexivity. Qed.
Lemma split_blocks_ok : adapt_okb gen_split_blocks = true.
Proof. vm_compute. reflexivity. Qed.
