(* C12 — what was read from the source (Gen.C12Gen) satisfies the hypotheses of the theorems of
   Proofs.C12_RefineProofs / C12_GeomProofs: finite computations on the generated templates and the
   comparison of the generated index maps with the model's. *)
From Coq Require Import List Arith Bool ZArith QArith Lia.
Import ListNotations.
Require Import Model.C12_Refine Model.C12_Geom Model.C13_Adaptive Proofs.C12_RefineProofs Proofs.C12_GeomProofs Proofs.C12_BoundaryProofs Proofs.C12_GlobalProofs Gen.C12Gen.
Local Open Scope nat_scope.

(* ------------------------------------------------------------------ counts: 2^d children *)
Lemma line_ntemplates : length gen_line_templates = 2. Proof. reflexivity. Qed.
Lemma tri_ntemplates : length gen_tri_templates = 4. Proof. reflexivity. Qed.
Lemma quad_ntemplates : length gen_quad_templates = 4. Proof. reflexivity. Qed.
Lemma tet_ntemplates : length gen_tet_templates = 16. Proof. reflexivity. Qed.
Lemma hex_ntemplates : length gen_hex_templates = 8. Proof. reflexivity. Qed.

(* ------------------------------------------------------------------ subdomain index maps *)
(* the index map the library applies to class X sends (j, k) to the position of child j of cell k *)
Lemma tri_submap_ok nt j k : gen_tri_submap nt j k = fallback_index nt j k. Proof. reflexivity. Qed.
Lemma quad_submap_ok nt j k : gen_quad_submap nt j k = fallback_index nt j k. Proof. reflexivity. Qed.
Lemma hex_submap_ok nt j k : gen_hex_submap nt j k = fallback_index nt j k. Proof. reflexivity. Qed.

Lemma tet_submap_ok cls j k :
  nth k cls 0 < 3 -> gen_tet_submap cls j k = tet_child_index cls j k.
Proof.
  intros H. unfold gen_tet_submap, tet_child_index. destruct (j <? 4); [reflexivity|].
  destruct (nth k cls 0) as [|[|[|c]]]; simpl; lia.
Qed.

(* ------------------------------------------------------------------ geometry of the templates *)
Definition tri_W := map (nref_weights 3 gen_tri_redges gen_tri_rfacets).
Definition tet_W := map (nref_weights 4 gen_tet_redges gen_tet_rfacets).

Lemma tri_geom_ok : tri_templates_ok tri_W gen_tri_templates = true.
Proof. vm_compute. reflexivity. Qed.
Lemma tet_geom_ok : tet_templates_ok tet_W gen_tet_templates = true.
Proof. vm_compute. reflexivity. Qed.

Lemma quad_geom_ok : tensor_templates_ok 2 gen_quad_rp gen_quad_redges gen_quad_rfacets gen_quad_templates = true.
Proof. vm_compute. reflexivity. Qed.
Lemma hex_geom_ok : tensor_templates_ok 3 gen_hex_rp gen_hex_redges gen_hex_rfacets gen_hex_templates = true.
Proof. vm_compute. reflexivity. Qed.

(* pairwise disjoint interiors of the children of one parent (separating functional per pair) *)
Lemma tri_disjoint_ok : all_pairs_ok (fun a b => separable 3 (tri_W a) (tri_W b)) gen_tri_templates = true.
Proof. vm_compute. reflexivity. Qed.

(* tetrahedron: the four corner children and the four inner children of each diagonal choice *)
Definition tet_family (c : nat) : list (list nref) :=
  firstn 4 gen_tet_templates ++ map (fun j => tet_tpl gen_tet_templates j c) [4; 5; 6; 7].
Lemma tet_disjoint_ok :
  forallb (fun c => all_pairs_ok (fun a b => separable 4 (tet_W a) (tet_W b)) (tet_family c)) [0; 1; 2] = true.
Proof. vm_compute. reflexivity. Qed.

(* ------------------------------------------------------------------ diagonal choice: exactly one class *)
Lemma tet_choice_partition (d1 d2 d3 : Q) :
  let I := map (fun ab => Qltb (nth (fst ab) [d1; d2; d3] 0%Q) (nth (snd ab) [d1; d2; d3] 0%Q)) gen_tet_comps in
  first_true (map (eval_class I) gen_tet_classes) < 3 /\
  length (filter (fun b => b) (map (eval_class I) gen_tet_classes)) = 1.
Proof.
  cbv [gen_tet_comps gen_tet_classes map nth fst snd eval_class forallb Bool.eqb first_true filter length].
  unfold Qltb.
  destruct (Qnum d1 * QDen d2 <? Qnum d2 * QDen d1)%Z eqn:E12;
  destruct (Qnum d1 * QDen d3 <? Qnum d3 * QDen d1)%Z eqn:E13;
  destruct (Qnum d2 * QDen d3 <? Qnum d3 * QDen d2)%Z eqn:E23; simpl; try (split; lia);
  exfalso;
  repeat match goal with
         | H : (_ <? _)%Z = true |- _ => apply Z.ltb_lt in H
         | H : (_ <? _)%Z = false |- _ => apply Z.ltb_ge in H
         end.
  - (* d1 < d2, d1 >= d3, d2 < d3 *)
    assert (d1 < d2)%Q by exact E12. assert (d3 <= d1)%Q by exact E13. assert (d2 < d3)%Q by exact E23.
    apply (Qlt_irrefl d1). eapply Qlt_le_trans; [|eassumption]. eapply Qlt_trans; eassumption.
  - (* d1 >= d2, d1 < d3, d2 >= d3 *)
    assert (d2 <= d1)%Q by exact E12. assert (d1 < d3)%Q by exact E13. assert (d3 <= d2)%Q by exact E23.
    apply (Qlt_irrefl d1). eapply Qlt_le_trans; [eassumption|]. eapply Qle_trans; eassumption.
Qed.

(* ------------------------------------------------------------------ new vertex indices vs coordinate blocks *)
Definition dense (tb : tables) : Prop :=
  tab_max (tb_t2e tb) + 1 = length (tb_edges tb) /\ tab_max (tb_t2f tb) + 1 = length (tb_facets tb).

Lemma tri_offsets p tb : tab_max (tb_t2f tb) + 1 = length (tb_facets tb) ->
  offF (offs_of tri_spec p tb) = length p.
Proof. reflexivity. Qed.

Lemma quad_offsets p tb : tab_max (tb_t2f tb) + 1 = length (tb_facets tb) ->
  offF (offs_of quad_spec p tb) = length p /\ offC (offs_of quad_spec p tb) = length p + length (tb_facets tb).
Proof. intros H. unfold offs_of, quad_spec, mk_spec. simpl. unfold gen_quad_offF, gen_quad_offC. lia. Qed.

Lemma hex_offsets p tb : dense tb ->
  offE (offs_of hex_spec p tb) = length p /\
  offF (offs_of hex_spec p tb) = length p + length (tb_edges tb) /\
  offC (offs_of hex_spec p tb) = length p + length (tb_edges tb) + length (tb_facets tb).
Proof. intros [H1 H2]. unfold offs_of, hex_spec, mk_spec. simpl. unfold gen_hex_offE, gen_hex_offF, gen_hex_offC. lia. Qed.

Lemma tet_offsets p tb : offE (offs_of tet_spec p tb) = length p.
Proof. reflexivity. Qed.

Lemma line_offsets p tb : offC (offs_of line_spec p tb) = length p.
Proof. reflexivity. Qed.

(* the new vertex with index off + id has the coordinates computed from entity id of the old mesh *)
Ltac entity_at E target :=
  match type of E with nth ?a _ _ = _ => replace a with target in E by (simpl; lia) end; exact E.

Theorem tri_new_nodes p tb f : f < length (tb_facets tb) ->
  nth (offF (offs_of tri_spec p tb) + f) (fst (uniform_block tri_spec 2 p tb)) []
  = ent_mean 2 p (nth f (tb_facets tb) []).
Proof.
  intros H. pose proof (refine_p_entity 2 gen_tri_pblocks p tb 0 f ltac:(simpl; lia) H) as E.
  entity_at E (length p + f).
Qed.

Theorem quad_new_nodes p tb : tab_max (tb_t2f tb) + 1 = length (tb_facets tb) ->
  (forall f, f < length (tb_facets tb) ->
     nth (offF (offs_of quad_spec p tb) + f) (fst (uniform_block quad_spec 2 p tb)) []
     = ent_mean 2 p (nth f (tb_facets tb) [])) /\
  (forall k, k < length (tb_t tb) ->
     nth (offC (offs_of quad_spec p tb) + k) (fst (uniform_block quad_spec 2 p tb)) []
     = ent_mean 2 p (nth k (tb_t tb) [])).
Proof.
  intros Hd. destruct (quad_offsets p tb Hd) as [EF EC]. rewrite EF, EC. split.
  - intros f H. pose proof (refine_p_entity 2 gen_quad_pblocks p tb 0 f ltac:(simpl; lia) H) as E.
    entity_at E (length p + f).
  - intros k H. pose proof (refine_p_entity 2 gen_quad_pblocks p tb 1 k ltac:(simpl; lia) H) as E.
    entity_at E (length p + length (tb_facets tb) + k).
Qed.

Theorem tet_new_nodes p tb e : e < length (tb_edges tb) ->
  nth (offE (offs_of tet_spec p tb) + e) (fst (fst (uniform_tet tet_spec gen_tet_diags gen_tet_comps gen_tet_classes p tb))) []
  = ent_mean 3 p (nth e (tb_edges tb) []).
Proof.
  intros H. pose proof (refine_p_entity 3 gen_tet_pblocks p tb 0 e ltac:(simpl; lia) H) as E.
  entity_at E (length p + e).
Qed.

Theorem line_new_nodes p tb k : k < length (tb_t tb) ->
  nth (offC (offs_of line_spec p tb) + k) (fst (uniform_line line_spec p tb)) []
  = ent_mean 1 p (nth k (tb_t tb) []).
Proof.
  intros H. pose proof (refine_p_entity 1 gen_line_pblocks p tb 0 k ltac:(simpl; lia) H) as E.
  entity_at E (length p + k).
Qed.

Theorem hex_new_nodes p tb : dense tb ->
  (forall e, e < length (tb_edges tb) ->
     nth (offE (offs_of hex_spec p tb) + e) (fst (uniform_block hex_spec 3 p tb)) []
     = ent_scaled (1 # 2) 3 p (nth e (tb_edges tb) [])) /\
  (forall f, f < length (tb_facets tb) ->
     nth (offF (offs_of hex_spec p tb) + f) (fst (uniform_block hex_spec 3 p tb)) []
     = ent_scaled (1 # 4) 3 p (nth f (tb_facets tb) [])) /\
  (forall k, k < length (tb_t tb) ->
     nth (offC (offs_of hex_spec p tb) + k) (fst (uniform_block hex_spec 3 p tb)) []
     = ent_scaled (1 # 8) 3 p (nth k (tb_t tb) [])).
Proof.
  intros Hd. destruct (hex_offsets p tb Hd) as [EE [EF EC]]. rewrite EE, EF, EC. repeat split.
  - intros e H. pose proof (refine_p_entity 3 gen_hex_pblocks p tb 0 e ltac:(simpl; lia) H) as E.
    entity_at E (length p + e).
  - intros f H. pose proof (refine_p_entity 3 gen_hex_pblocks p tb 1 f ltac:(simpl; lia) H) as E.
    entity_at E (length p + length (tb_edges tb) + f).
  - intros k H. pose proof (refine_p_entity 3 gen_hex_pblocks p tb 2 k ltac:(simpl; lia) H) as E.
    entity_at E (length p + length (tb_edges tb) + length (tb_facets tb) + k).
Qed.

(* ------------------------------------------------------------------ tensor cells: child map = parent map on a sub-cube *)
(* for every parent geometry X (one coordinate axis; 4 resp. 8 vertex values), every corner o and every
   reference point xi: interpolating the parent's map at the child's vertices o + rp_i/2 gives the parent's
   map at o + xi/2 *)
Lemma quad_child_map (X0 X1 X2 X3 o1 o2 x1 x2 : Q) :
  let X := [X0; X1; X2; X3] in
  let cvals := map (fun rpi => mlmap gen_quad_rp X (padd [o1; o2] (pscale (1 # 2) rpi))) gen_quad_rp in
  (mlmap gen_quad_rp cvals [x1; x2] == mlmap gen_quad_rp X [o1 + (1 # 2) * x1; o2 + (1 # 2) * x2])%Q.
Proof.
  cbv [gen_quad_rp mlmap shapes shape map dot padd pscale Qeq_bool Zeq_bool Qnum Qden Z.mul Z.compare
       Pos.mul Pos.compare Pos.compare_cont Z.of_nat].
  ring.
Qed.

Lemma hex_child_map (X0 X1 X2 X3 X4 X5 X6 X7 o1 o2 o3 x1 x2 x3 : Q) :
  let X := [X0; X1; X2; X3; X4; X5; X6; X7] in
  let cvals := map (fun rpi => mlmap gen_hex_rp X (padd [o1; o2; o3] (pscale (1 # 2) rpi))) gen_hex_rp in
  (mlmap gen_hex_rp cvals [x1; x2; x3]
   == mlmap gen_hex_rp X [o1 + (1 # 2) * x1; o2 + (1 # 2) * x2; o3 + (1 # 2) * x3])%Q.
Proof.
  cbv [gen_hex_rp mlmap shapes shape map dot padd pscale Qeq_bool Zeq_bool Qnum Qden Z.mul Z.compare
       Pos.mul Pos.compare Pos.compare_cont Z.of_nat].
  ring.
Qed.

(* the diagonal choice computed by the model always names one of the three classes *)
Lemma uniform_tet_cls_lt3 p tb :
  Forall (fun c => c < 3) (snd (uniform_tet tet_spec gen_tet_diags gen_tet_comps gen_tet_classes p tb)).
Proof.
  unfold uniform_tet. cbn [snd]. apply Forall_forall. intros c Hc. apply in_map_iff in Hc.
  destruct Hc as [x [<- _]]. unfold tet_choice.
  set (newp := refine_p 3 (sp_pblocks tet_spec) p tb). set (oE := offE (offs_of tet_spec p tb)).
  change (map (diag_len2 newp oE x) gen_tet_diags)
    with [diag_len2 newp oE x (nth 0 gen_tet_diags ([], 0, 0)); diag_len2 newp oE x (nth 1 gen_tet_diags ([], 0, 0));
          diag_len2 newp oE x (nth 2 gen_tet_diags ([], 0, 0))].
  apply tet_choice_partition.
Qed.

(* the generic fallback of Mesh.refined is NOT the position of the children of a tetrahedron *)
Lemma tet_fallback_differs :
  exists cls j k, Forall (fun c => c < 3) cls /\ j < 8 /\ k < length cls /\
                  gen_fallback_index (length cls) j k <> gen_tet_submap cls j k.
Proof. exists [1; 0], 4, 0. repeat split; [repeat constructor; lia | lia | simpl; lia | vm_compute; discriminate]. Qed.

(* ------------------------------------------------------------------ boundary maps of MeshTri1 / MeshQuad1 *)
Lemma tri_bassign_ok : bassign_ok gen_tri_rfacets gen_tri_templates gen_tri_bassign = true.
Proof. vm_compute. reflexivity. Qed.
Lemma quad_bassign_ok : bassign_ok gen_quad_rfacets gen_quad_templates gen_quad_bassign = true.
Proof. vm_compute. reflexivity. Qed.

(* sort_t: with increasing cells and lexicographic facet numbering (f0 < f2 < f1) the children read by the boundary
   map are increasing already, so re-sorting the cells of the refined mesh leaves them as they are *)
Lemma tri_bassign_children : forallb (fun s => asg_c s <? 3) gen_tri_bassign = true.
Proof. vm_compute. reflexivity. Qed.

Lemma tri_children_sorted o c v0 v1 v2 f0 f1 f2 j :
  cv c = [v0; v1; v2] -> cf c = [f0; f1; f2] -> v0 < v1 -> v1 < v2 -> v2 < offF o -> f0 < f2 -> f2 < f1 -> j < 3 ->
  sort_nat (child o c (nth j gen_tri_templates [])) = child o c (nth j gen_tri_templates []).
Proof.
  intros Hv Hf H01 H12 H2o Hf02 Hf21 Hj.
  destruct j as [|[|[|j]]]; try lia; unfold child; cbn [gen_tri_templates nth map resolve]; rewrite Hv, Hf; cbn [nth];
    apply sort_nat_sorted3; lia.
Qed.

(* ------------------------------------------------------------------ local conformity of the 2-D templates *)
(* the child edges are: the two halves of every parent facet (each once, cut at the facet's own node) and interior
   edges shared by exactly two children *)
Lemma tri_trace_ok : trace_ok gen_tri_rfacets [true; true; true] gen_tri_templates = true.
Proof. vm_compute. reflexivity. Qed.
Lemma quad_trace_ok : trace_ok gen_quad_rfacets [true; true; true; true] gen_quad_templates = true.
Proof. vm_compute. reflexivity. Qed.

(* ------------------------------------------------------------------ refined(k) for tetrahedra *)
Definition tet_step (p : list point) (tb : tables) : list point * list (list nat) :=
  fst (uniform_tet tet_spec gen_tet_diags gen_tet_comps gen_tet_classes p tb).

Lemma tet_step_cells p tb : length (snd (tet_step p tb)) = 8 * length (tb_t tb).
Proof.
  pose proof (uniform_tet_cls_lt3 p tb) as Hc. unfold tet_step, uniform_tet in *. cbn [fst snd] in *.
  rewrite refine_t_tet_length; [now rewrite mk_ctxs_length | reflexivity | now rewrite map_length | exact Hc].
Qed.

Lemma tet_step_prefix p tb : firstn (length p) (fst (tet_step p tb)) = p.
Proof. unfold tet_step, uniform_tet. cbn [fst]. apply refine_p_prefix. Qed.

(* ------------------------------------------------------------------ 2-D slot tables: pairs of different local vertices *)
Lemma tri_rf2_ok : rf2_ok 3 gen_tri_rfacets.
Proof.
  intros a Ha. destruct a as [|[|[|a]]]; simpl in Ha; try lia; eexists _, _; (split; [reflexivity|]); repeat split; lia.
Qed.
Lemma quad_rf2_ok : rf2_ok 4 gen_quad_rfacets.
Proof.
  intros a Ha. destruct a as [|[|[|[|a]]]]; simpl in Ha; try lia; eexists _, _; (split; [reflexivity|]); repeat split; lia.
Qed.

(* ------------------------------------------------------------------ a uniform step keeps "cells with pairwise distinct, existing vertices" *)
Require Import Base.C11_Unique Model.C11_Topo Proofs.C11_TopoProofs Model.C12_Global Proofs.C12_InvProofs.

Definition tri_tabs (t : list (list nat)) := c11_tables t gen_tri_rfacets.
Definition quad_tabs (t : list (list nat)) := c11_tables t gen_quad_rfacets.
Definition tet_tabs (t : list (list nat)) := c11_tables3 t gen_tet_rfacets gen_tet_redges.
Definition hex_tabs (t : list (list nat)) := c11_tables3 t gen_hex_rfacets gen_hex_redges.

Lemma tri_step_ok p t : cells_ok 3 (length p) t ->
  cells_ok 3 (length (fst (uniform_block tri_spec 2 p (tri_tabs t)))) (snd (uniform_block tri_spec 2 p (tri_tabs t))).
Proof.
  intros H. apply (block_step_ok tri_spec 2 p t gen_tri_rfacets [] 3 (tri_tabs t) 0 (length (entities true t gen_tri_rfacets)) 0);
    try reflexivity; try exact H; try apply tables_of_c11.
  - intros U. vm_compute in U. discriminate.
  - intros _. split; [unfold offs_of; simpl; unfold gen_tri_offF; lia | reflexivity].
  - intros U. vm_compute in U. discriminate.
  - unfold uniform_block. cbn [fst]. rewrite refine_p_length. cbn. lia.
Qed.

Lemma quad_step_ok p t : cells_ok 4 (length p) t ->
  cells_ok 4 (length (fst (uniform_block quad_spec 2 p (quad_tabs t)))) (snd (uniform_block quad_spec 2 p (quad_tabs t))).
Proof.
  intros H. destruct t as [|c0 t']; [unfold uniform_block; cbn [snd]; simpl; rewrite refine_t_nil; constructor|].
  set (t := c0 :: t') in *.
  pose proof (c11_tab_max t gen_quad_rfacets ltac:(simpl; lia) ltac:(simpl; lia)) as Hmax.
  apply (block_step_ok quad_spec 2 p t gen_quad_rfacets [] 4 (quad_tabs t) 0 (length (entities true t gen_quad_rfacets)) (length t));
    try reflexivity; try exact H; try apply tables_of_c11.
  - intros U. vm_compute in U. discriminate.
  - intros _. split; [unfold offs_of; simpl; unfold gen_quad_offF; lia | reflexivity].
  - intros _. split; [|reflexivity]. unfold offs_of, quad_spec, mk_spec. cbn [sp_off offC]. unfold gen_quad_offC.
    change (tb_t2f (quad_tabs t)) with (map (fun k => map (fun a => nth k (nth a (mapping t gen_quad_rfacets) []) 0) (seq 0 (length gen_quad_rfacets))) (seq 0 (length t))).
    lia.
  - unfold uniform_block. cbn [fst]. rewrite refine_p_length. cbn. lia.
Qed.

Lemma tet_step_ok p t : cells_ok 4 (length p) t ->
  cells_ok 4 (length (fst (tet_step p (tet_tabs t)))) (snd (tet_step p (tet_tabs t))).
Proof.
  intros H. unfold tet_step.
  apply (tet_layout_step_ok tet_spec gen_tet_diags gen_tet_comps gen_tet_classes p t gen_tet_rfacets gen_tet_redges 4 (tet_tabs t)
                            (length (entities true t gen_tet_redges))); try reflexivity; try exact H; try apply tables_of_c11_3.
  unfold uniform_tet. cbn [fst]. rewrite refine_p_length. cbn. lia.
Qed.

Lemma hex_step_ok p t : cells_ok 8 (length p) t ->
  cells_ok 8 (length (fst (uniform_block hex_spec 3 p (hex_tabs t)))) (snd (uniform_block hex_spec 3 p (hex_tabs t))).
Proof.
  intros H. destruct t as [|c0 t']; [unfold uniform_block; cbn [snd]; simpl; rewrite refine_t_nil; constructor|].
  set (t := c0 :: t') in *.
  pose proof (c11_tab_max t gen_hex_rfacets ltac:(simpl; lia) ltac:(simpl; lia)) as HmaxF.
  pose proof (c11_tab_max t gen_hex_redges ltac:(simpl; lia) ltac:(simpl; lia)) as HmaxE.
  apply (block_step_ok hex_spec 3 p t gen_hex_rfacets gen_hex_redges 8 (hex_tabs t)
                       (length (entities true t gen_hex_redges)) (length (entities true t gen_hex_rfacets)) (length t));
    try reflexivity; try exact H; try apply tables_of_c11_3.
  - intros _. split; [unfold offs_of; simpl; unfold gen_hex_offE; lia | reflexivity].
  - intros _. split; [|reflexivity]. unfold offs_of, hex_spec, mk_spec. cbn [sp_off offF]. unfold gen_hex_offF.
    change (tb_t2e (hex_tabs t)) with (map (fun k => map (fun a => nth k (nth a (mapping t gen_hex_redges) []) 0) (seq 0 (length gen_hex_redges))) (seq 0 (length t))).
    lia.
  - intros _. split; [|reflexivity]. unfold offs_of, hex_spec, mk_spec. cbn [sp_off offC]. unfold gen_hex_offC.
    change (tb_t2e (hex_tabs t)) with (map (fun k => map (fun a => nth k (nth a (mapping t gen_hex_redges) []) 0) (seq 0 (length gen_hex_redges))) (seq 0 (length t))).
    change (tb_t2f (hex_tabs t)) with (map (fun k => map (fun a => nth k (nth a (mapping t gen_hex_rfacets) []) 0) (seq 0 (length gen_hex_rfacets))) (seq 0 (length t))).
    lia.
  - unfold uniform_block. cbn [fst]. rewrite refine_p_length. cbn. lia.
Qed.

(* ------------------------------------------------------------------ tiling checks in the form used by the explicit principle *)
Lemma tri_uniform_tiles : tri_tiles_ok tri_W gen_tri_templates = true.
Proof. vm_compute. reflexivity. Qed.
Lemma tet_uniform_tiles : forallb (fun c => tet_tiles_ok tet_W (tet_family c)) [0; 1; 2] = true.
Proof. vm_compute. reflexivity. Qed.

(* ------------------------------------------------------------------ tetrahedra: faces *)
Require Import Proofs.C12_Face3Proofs.
Lemma tet_face_edges_ok : face_edges_okb 4 gen_tet_rfacets gen_tet_redges = true.
Proof. vm_compute. reflexivity. Qed.
(* for each diagonal choice: the faces of the eight children are the four expected triangles of every parent face (once each)
   plus interior faces shared by two children *)
Lemma tet_trace3_ok : forallb (fun c => trace3_ok gen_tet_rfacets gen_tet_redges (tet_family c)) [0; 1; 2] = true.
Proof. vm_compute. reflexivity. Qed.

(* ------------------------------------------------------------------ hexahedra: faces *)
Lemma hex_qface_edges_ok : qface_edges_okb 8 gen_hex_rfacets gen_hex_redges = true.
Proof. vm_compute. reflexivity. Qed.
Lemma hex_trace4_ok : trace4_ok gen_hex_rfacets gen_hex_redges gen_hex_templates = true.
Proof. vm_compute. reflexivity. Qed.

(* ------------------------------------------------------------------ hexahedra: the cyclic-order conformity is preserved *)
Require Import Proofs.C11_EquivProofs Proofs.C12_HexCycleProofs.
Lemma hex_same_parent : hex_same_parent_ok gen_hex_rfacets gen_hex_templates = true.
Proof. vm_compute. reflexivity. Qed.
Lemma hex_boundary : hex_boundary_ok gen_hex_rfacets gen_hex_redges gen_hex_templates = true.
Proof. vm_compute. reflexivity. Qed.
Lemma hex_slots_f : slots_ok 8 gen_hex_rfacets = true. Proof. vm_compute. reflexivity. Qed.
Lemma hex_slots_e : slots_ok 8 gen_hex_redges = true. Proof. vm_compute. reflexivity. Qed.
Lemma hex_tpls_okb : tpls_okb 8 (length gen_hex_redges) (length gen_hex_rfacets) gen_hex_templates = true.
Proof. vm_compute. reflexivity. Qed.

Lemma hex_step_conf p t : cells_ok 8 (length p) t -> conf t gen_hex_rfacets ->
  cells_ok 8 (length (fst (uniform_block hex_spec 3 p (hex_tabs t)))) (snd (uniform_block hex_spec 3 p (hex_tabs t))) /\
  conf (snd (uniform_block hex_spec 3 p (hex_tabs t))) gen_hex_rfacets.
Proof.
  intros H Hc. split; [now apply hex_step_ok|].
  destruct t as [|c0 t']; [unfold uniform_block; cbn [snd]; simpl; rewrite refine_t_nil; intros s e s' e' _ He; simpl in He; lia|].
  set (t := c0 :: t') in *.
  pose proof (c11_tab_max t gen_hex_rfacets ltac:(simpl; lia) ltac:(simpl; lia)) as HmaxF.
  pose proof (c11_tab_max t gen_hex_redges ltac:(simpl; lia) ltac:(simpl; lia)) as HmaxE.
  set (nE := length (entities true t gen_hex_redges)) in *. set (nF := length (entities true t gen_hex_rfacets)) in *.
  assert (Hchild : forall c, In c (snd (uniform_block hex_spec 3 p (hex_tabs t))) ->
            exists k tpl, k < length t /\ In tpl gen_hex_templates /\
                          c = child (canon_offs (length p) nE nF) (cell_ctx (hex_tabs t) k) tpl).
  { intros c Hin. unfold uniform_block in Hin. cbn [snd] in Hin. apply in_refine_t in Hin. destruct Hin as [tpl [x [Ht [Hx ->]]]].
    apply in_mk_ctxs in Hx. destruct Hx as [k [Hk ->]]. exists k, tpl. split; [exact Hk|]. split; [exact Ht|].
    apply (child_canon gen_hex_templates); try exact Ht; intros _.
    - reflexivity.
    - unfold offs_of, hex_spec, mk_spec. cbn [sp_off offF]. unfold gen_hex_offF.
      change (tb_t2e (hex_tabs t)) with (map (fun k => map (fun a => nth k (nth a (mapping t gen_hex_redges) []) 0) (seq 0 (length gen_hex_redges))) (seq 0 (length t))).
      unfold nE. lia.
    - unfold offs_of, hex_spec, mk_spec. cbn [sp_off offC]. unfold gen_hex_offC.
      change (tb_t2e (hex_tabs t)) with (map (fun k => map (fun a => nth k (nth a (mapping t gen_hex_redges) []) 0) (seq 0 (length gen_hex_redges))) (seq 0 (length t))).
      change (tb_t2f (hex_tabs t)) with (map (fun k => map (fun a => nth k (nth a (mapping t gen_hex_rfacets) []) 0) (seq 0 (length gen_hex_rfacets))) (seq 0 (length t))).
      unfold nE, nF. lia. }
  intros s e s' e' Hs He Hs' He' Hkey.
  destruct (Hchild _ (nth_In _ [] He)) as [k1 [tpl1 [Hk1 [Ht1 E1]]]].
  destruct (Hchild _ (nth_In _ [] He')) as [k2 [tpl2 [Hk2 [Ht2 E2]]]].
  rewrite E1, E2 in *.
  exact (children_conf t gen_hex_rfacets gen_hex_redges 8 (length p) gen_hex_templates hex_slots_f hex_slots_e hex_qface_edges_ok H
                       hex_tpls_okb hex_same_parent hex_boundary Hc k1 tpl1 s k2 tpl2 s' Hk1 Ht1 Hs Hk2 Ht2 Hs' Hkey).
Qed.
Lemma hex_rf_len4 s : s < length gen_hex_rfacets -> length (nth s gen_hex_rfacets []) = 4.
Proof. intros H. do 6 (destruct s as [|s]; [reflexivity|]). simpl in H. lia. Qed.
