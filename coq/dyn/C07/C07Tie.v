(* C07 tie: the name-index functions regenerated from Dofs._dofnames_to_rows are "row number + offset", i.e. the shape the
   model's names_to_rows assumes, for whatever offsets the source uses *)
From Coq Require Import List Arith Lia.
Require Import Model.C04_Dofs Model.C07_Query Gen.C07Gen.

Lemma gen_name_index_shape : forall a b c d i,
  gen_name_index_nodal a b c d i = i + 0 /\
  gen_name_index_facet a b c d i = i + fst (fst (gen_offsets a b c)) /\
  gen_name_index_edge a b c d i = i + snd (fst (gen_offsets a b c)) /\
  gen_name_index_interior a b c d i = i + snd (gen_offsets a b c).
Proof.
  intros. unfold gen_offsets, gen_name_index_nodal, gen_name_index_facet, gen_name_index_edge, gen_name_index_interior.
  simpl. lia.
Qed.
