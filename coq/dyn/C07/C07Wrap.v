(* C07 wrappers: the pure-plumbing wrappers regenerated from the source (Gen.C07Gen: gen_facets_satisfying, gen_nodes_satisfying,
   gen_elements_satisfying, gen_with_boundaries, gen_with_subdomains, gen_view_or, gen_view_add) forward to the modelled core
   functions, for all argument values *)
From Coq Require Import List Arith Bool Lia.
Import ListNotations.
Require Import Model.C04_Dofs Model.C07_Query Proofs.C07_QueryProofs Gen.C07Gen.

(* Mesh.facets_satisfying(test, boundaries_only, normal): the facet set is the predicate set, cut with boundary_facets() exactly
   when boundaries_only; it does not depend on `normal` (which only adds the orientation) nor on boundary_nodes() *)
Theorem wrap_facets_satisfying pred bfacets bnodes bo ng :
  gen_facets_satisfying pred bfacets bnodes bo ng = if bo then inter pred bfacets else pred.
Proof. unfold gen_facets_satisfying. destruct bo, ng; reflexivity. Qed.

Theorem wrap_facets_satisfying_in pred bfacets bnodes bo ng x :
  In x (gen_facets_satisfying pred bfacets bnodes bo ng) <-> In x pred /\ (bo = true -> In x bfacets).
Proof.
  rewrite wrap_facets_satisfying. destruct bo.
  - rewrite inter_in. intuition.
  - intuition discriminate.
Qed.

(* Mesh.nodes_satisfying(test, boundaries_only): cut with boundary_nodes() (not boundary_facets()) exactly when boundaries_only *)
Theorem wrap_nodes_satisfying pred bfacets bnodes bo :
  gen_nodes_satisfying pred bfacets bnodes bo = if bo then inter pred bnodes else pred.
Proof. unfold gen_nodes_satisfying. destruct bo; reflexivity. Qed.

Theorem wrap_nodes_satisfying_in pred bfacets bnodes bo x :
  In x (gen_nodes_satisfying pred bfacets bnodes bo) <-> In x pred /\ (bo = true -> In x bnodes).
Proof.
  rewrite wrap_nodes_satisfying. destruct bo.
  - rewrite inter_in. intuition.
  - intuition discriminate.
Qed.

Theorem wrap_elements_satisfying pred : gen_elements_satisfying pred = pred.
Proof. reflexivity. Qed.

(* Mesh.with_boundaries / with_subdomains: {**old, **new} — the new definitions are read first *)
Theorem wrap_with_boundaries old new : gen_with_boundaries old new = with_tags old new.
Proof. reflexivity. Qed.
Theorem wrap_with_subdomains old new : gen_with_subdomains old new = with_tags old new.
Proof. reflexivity. Qed.

Theorem wrap_with_boundaries_lookup old new k :
  tag_lookup (gen_with_boundaries old new) k = match tag_lookup new k with Some v => Some v | None => tag_lookup old k end /\
  tag_lookup (gen_with_subdomains old new) k = match tag_lookup new k with Some v => Some v | None => tag_lookup old k end.
Proof. split; [exact (with_tags_lookup old new k) | exact (with_tags_lookup old new k)]. Qed.

Theorem wrap_history_boundaries hist : fold_left gen_with_boundaries hist [] = tag_history hist.
Proof. reflexivity. Qed.
Theorem wrap_history_subdomains hist : fold_left gen_with_subdomains hist [] = tag_history hist.
Proof. reflexivity. Qed.

(* DofsView.__or__ / __add__: per kind the union of the index sets, the row selection of the left operand *)
Theorem wrap_view_or a b : gen_view_or a b = view_or a b /\ gen_view_add a b = view_or a b.
Proof. split; reflexivity. Qed.

Theorem wrap_view_or_spec a b kd :
  rows_of (gen_view_add a b) kd = rows_of a kd /\
  forall x, In x (ix_of (gen_view_add a b) kd) <-> In x (ix_of a kd) \/ In x (ix_of b kd).
Proof. exact (view_or_spec a b kd). Qed.
