(* C20 — the 3x3 branch of skfem.autodiff.helpers.det (regenerated as Gen.C20Gen_jx.jx_det_3).
   Kept in its own file: on a tree with defect F5 (double minus in the second cofactor) [ring]
   fails here and nowhere else. *)
From Coq Require Import List Arith Ring.
Import ListNotations.
Require Import Base.C20_Ring Model.C20_Tensor Gen.C20Gen_np Gen.C20Gen_jx.

Section JaxDet.
  Context {R : Type} {ops : FOps R}.
  Hypothesis Rth : ring_theory f0 f1 fadd fmul fsub fopp (@eq R).
  Add Ring Rring20j : Rth.
  Open Scope F_scope.

  Lemma jx_det_3_leibniz (A : mat R) : jx_det_3 A = leibniz 3 A.
  Proof. cbv [jx_det_3 leibniz perms seq flat_map insert_all map app fold_right sgn inversions filter length
              Nat.ltb Nat.leb Nat.even Nat.add prod_diag]. ring. Qed.

  Lemma det3_variants_agree (A : mat R) : np_det_3 A = jx_det_3 A.
  Proof. cbv [np_det_3 jx_det_3]. ring. Qed.
End JaxDet.
