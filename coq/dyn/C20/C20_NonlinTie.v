(* C20 — tie: the index expressions re-read from NonlinearForm._assemble ARE the ones the theorems of
   Proofs.C20_NonlinProofs are proved for. *)
From Coq Require Import List Arith.
Require Import Base.C20_Ring Model.C20_Nonlin Gen.C20Gen_nl.

Lemma gen_pieces_is_std : gen_pieces = std_pieces.
Proof. reflexivity. Qed.
Lemma gen_lengths : forall Nb nt, gen_jac_len Nb nt = jac_len Nb nt /\ gen_rhs_len Nb nt = rhs_len Nb nt.
Proof. intros. split; reflexivity. Qed.
