(* C20 — theorems about the helper terms REGENERATED from skfem/helpers.py and
   skfem/autodiff/helpers.py (Gen.C20Gen_np, Gen.C20Gen_jx), for all inputs over any commutative
   ring (identities without division) or field.  The JAX 3x3 determinant is in C20_JaxDet.v. *)
From Coq Require Import List Arith Lia Ring Field.
Import ListNotations.
Require Import Base.C20_Ring Model.C20_Tensor Gen.C20Gen_np Gen.C20Gen_jx.
Require Import Proofs.C20_NonlinProofs Proofs.C20_SumProofs.

Ltac idx2 i := destruct i as [|[|i]]; [| |exfalso; lia].
Ltac idx3 i := destruct i as [|[|[|i]]]; [| | |exfalso; lia].

Section RingPart.
  Context {R : Type} {ops : FOps R}.
  Hypothesis Rth : ring_theory f0 f1 fadd fmul fsub fopp (@eq R).
  Add Ring Rring20 : Rth.
  Open Scope F_scope.
  Notation vec := (vec R). Notation mat := (mat R). Notation ten3 := (ten3 R).

  (* ---- determinant: both NumPy branches, JAX 2x2 *)
  Lemma np_det_2_leibniz (A : mat) : np_det_2 A = leibniz 2 A.
  Proof. cbv [np_det_2 leibniz perms seq flat_map insert_all map app fold_right sgn inversions filter length
              Nat.ltb Nat.leb Nat.even Nat.add prod_diag]. ring. Qed.
  Lemma np_det_3_leibniz (A : mat) : np_det_3 A = leibniz 3 A.
  Proof. cbv [np_det_3 leibniz perms seq flat_map insert_all map app fold_right sgn inversions filter length
              Nat.ltb Nat.leb Nat.even Nat.add prod_diag]. ring. Qed.
  Lemma jx_det_2_leibniz (A : mat) : jx_det_2 A = leibniz 2 A.
  Proof. cbv [jx_det_2 leibniz perms seq flat_map insert_all map app fold_right sgn inversions filter length
              Nat.ltb Nat.leb Nat.even Nat.add prod_diag]. ring. Qed.
  (* for other extents both variants return zeros_like(A[0,0]) *)
  Lemma det_other_zero (A : mat) : np_det_other A = 0 /\ jx_det_other A = 0.
  Proof. split; reflexivity. Qed.

  (* the explicit Leibniz expansions (so that the reference definition is readable) *)
  Lemma leibniz2_explicit (A : mat) : leibniz 2 A = A 0%nat 0%nat * A 1%nat 1%nat - A 0%nat 1%nat * A 1%nat 0%nat.
  Proof. cbv [leibniz perms seq flat_map insert_all map app fold_right sgn inversions filter length
              Nat.ltb Nat.leb Nat.even Nat.add prod_diag]. ring. Qed.
  Lemma leibniz3_explicit (A : mat) :
    leibniz 3 A = A 0%nat 0%nat * A 1%nat 1%nat * A 2%nat 2%nat + A 0%nat 1%nat * A 1%nat 2%nat * A 2%nat 0%nat + A 0%nat 2%nat * A 1%nat 0%nat * A 2%nat 1%nat
                  - A 0%nat 2%nat * A 1%nat 1%nat * A 2%nat 0%nat - A 0%nat 1%nat * A 1%nat 0%nat * A 2%nat 2%nat - A 0%nat 0%nat * A 1%nat 2%nat * A 2%nat 1%nat.
  Proof. cbv [leibniz perms seq flat_map insert_all map app fold_right sgn inversions filter length
              Nat.ltb Nat.leb Nat.even Nat.add prod_diag]. ring. Qed.

  (* ---- cross product *)
  Lemma cross3_orthogonal (a b : vec) :
    np_dot 3 (np_cross_3 a b) a = 0 /\ np_dot 3 (np_cross_3 a b) b = 0.
  Proof. split; cbv [np_dot np_cross_3 es_i_i fsum]; ring. Qed.
  Lemma cross3_lagrange (a b : vec) :
    np_dot 3 (np_cross_3 a b) (np_cross_3 a b) = np_dot 3 a a * np_dot 3 b b - np_dot 3 a b * np_dot 3 a b.
  Proof. cbv [np_dot np_cross_3 es_i_i fsum]. ring. Qed.
  Lemma cross3_levi_civita (a b : vec) i : i < 3 ->
    np_cross_3 a b i = fsum 3 (fun j => fsum 3 (fun k => eps3 i j k * a j * b k)).
  Proof. intros Hi. idx3 i; cbv [np_cross_3 fsum eps3]; ring. Qed.
  Lemma cross3_antisym (a b : vec) i : i < 3 -> np_cross_3 a b i = - np_cross_3 b a i.
  Proof. intros Hi. idx3 i; cbv [np_cross_3]; ring. Qed.
  Lemma cross2_is_det (a b : vec) : np_cross_2 a b = leibniz 2 (fun i j => if Nat.eqb j 0 then a i else b i).
  Proof. rewrite leibniz2_explicit. cbv [np_cross_2 Nat.eqb]. ring. Qed.
  Lemma cross2_antisym (a b : vec) : np_cross_2 a b = - np_cross_2 b a.
  Proof. cbv [np_cross_2]. ring. Qed.

  (* ---- curl (u_grad i j = d u_i / d x_j) *)
  Lemma curl_v3_levi_civita (u : vec) (G : mat) i : i < 3 ->
    np_curl_v3 u G i = fsum 3 (fun j => fsum 3 (fun k => eps3 i j k * G k j)).
  Proof. intros Hi. idx3 i; cbv [np_curl_v3 fsum eps3]; ring. Qed.
  Lemma curl_v3_of_symmetric (u : vec) (G : mat) :
    (forall i j, G i j = G j i) -> forall i, i < 3 -> np_curl_v3 u G i = 0.
  Proof. intros HG i Hi. idx3 i; cbv [np_curl_v3];
    [rewrite (HG 2%nat 1%nat) | rewrite (HG 0%nat 2%nat) | rewrite (HG 1%nat 0%nat)]; ring. Qed.
  Lemma curl_v2_def (u : vec) (G : mat) : np_curl_v2 u G = G 1%nat 0%nat - G 0%nat 1%nat.
  Proof. reflexivity. Qed.
  Lemma curl_s2_def (u : R) (g : vec) : np_curl_s2 u g 0%nat = g 1%nat /\ np_curl_s2 u g 1%nat = - g 0%nat.
  Proof. split; reflexivity. Qed.
  (* the rotated gradient is divergence free when the Hessian H (H i j = d_j g_i) is symmetric *)
  Lemma curl_passthrough (u c : vec) : np_curl_hcurl u c = c /\ np_d_curl u c = c.
  Proof. split; reflexivity. Qed.

  (* ---- grad / div / d / dd: attribute selection *)
  Lemma grad_div_d_select n (us : R) (g : vec) (uv : vec) (G : mat) (dv : R) :
    np_grad_s n us g = g /\ np_grad_v n uv G = G /\ np_d_grad n us g = g /\
    np_div_hdiv n uv dv = dv /\ np_d_div n uv dv = dv /\
    np_div_v n uv G = fsum n (fun i => G i i) /\ np_div_v n uv G = np_trace n G /\
    np_div_1d n us g = g 0%nat.
  Proof. repeat split; reflexivity. Qed.
  Lemma hessians_select n (u : R) (g : vec) (H : mat) (T3 : ten3) (T4 : ten4 R) :
    np_dd n u g H T3 T4 = H /\ np_ddd n u g H T3 T4 = T3 /\ np_dddd n u g H T3 T4 = T4 /\
    jx_dd n u g H T3 T4 = H.
  Proof. repeat split; reflexivity. Qed.

  (* ---- index definitions of the einsum helpers, every extent n *)
  Lemma dot_def n (u v : vec) : np_dot n u v = fsum n (fun i => u i * v i).
  Proof. reflexivity. Qed.
  Lemma ddot_def n (A B : mat) : np_ddot n A B = fsum n (fun i => fsum n (fun j => A i j * B i j)).
  Proof. reflexivity. Qed.
  Lemma dddot_def n (A B : ten3) :
    np_dddot n A B = fsum n (fun i => fsum n (fun j => fsum n (fun k => A i j k * B i j k))).
  Proof. reflexivity. Qed.
  Lemma prod_def n (u v w : vec) i j k :
    np_prod2 n u v i j = u i * v j /\ np_prod3 n u v w i j k = u i * v j * w k.
  Proof. split; reflexivity. Qed.
  Lemma mul_def n (A : mat) (x : vec) i : np_mul n A x i = fsum n (fun j => A i j * x j).
  Proof. reflexivity. Qed.
  Lemma mul_mm_def n (A B : mat) i k : jx_mul_mm n A B i k = fsum n (fun j => A i j * B j k).
  Proof. reflexivity. Qed.
  Lemma trace_def n (T : mat) : np_trace n T = fsum n (fun i => T i i).
  Proof. reflexivity. Qed.
  Lemma transpose_def n (T : mat) i j : np_transpose n T i j = T j i.
  Proof. reflexivity. Qed.
  Lemma transpose_involutive n (T : mat) i j : np_transpose n (np_transpose n T) i j = T i j.
  Proof. reflexivity. Qed.
  Lemma trace_transpose n (T : mat) : np_trace n (np_transpose n T) = np_trace n T.
  Proof. reflexivity. Qed.
  Lemma inner_def n (a b : R) (u v : vec) (A B : mat) :
    np_inner_s n a b = a * b /\ np_inner_v n u v = np_dot n u v /\ np_inner_m n A B = np_ddot n A B /\
    np_inner_t n u a v b = np_dot n u v + a * b.
  Proof. repeat split; try reflexivity. cbv [np_inner_t np_dot]. ring. Qed.
  Lemma eye_def n (w : R) i j : np_eye n w i j = if Nat.eqb i j then w else 0.
  Proof. cbv [np_eye]. rewrite (Nat.eqb_sym j i). destruct (Nat.eqb i j); [reflexivity | ring]. Qed.
  Lemma identity_def n (W : mat) (w : R) i j :
    np_identity_w n W i j = delta i j /\ np_identity_N n w i j = delta i j.
  Proof. cbv [np_identity_w np_identity_N delta]. rewrite (Nat.eqb_sym j i).
         destruct (Nat.eqb i j); split; try reflexivity; ring. Qed.

  (* ---- algebraic laws tying the helpers to each other (extent 2 and 3) *)
  Lemma ddot_is_trace_of_product (A B : mat) :
    np_ddot 2 A B = np_trace 2 (jx_mul_mm 2 (np_transpose 2 A) B) /\
    np_ddot 3 A B = np_trace 3 (jx_mul_mm 3 (np_transpose 3 A) B).
  Proof. split; cbv [np_ddot np_trace jx_mul_mm np_transpose es_ij_ij es_ii es_ij_jk__ik es_ij__ji fsum]; ring. Qed.
  Lemma ddot_of_prods (u v x y : vec) :
    np_ddot 2 (np_prod2 2 u v) (np_prod2 2 x y) = np_dot 2 u x * np_dot 2 v y /\
    np_ddot 3 (np_prod2 3 u v) (np_prod2 3 x y) = np_dot 3 u x * np_dot 3 v y.
  Proof. split; cbv [np_ddot np_prod2 np_dot es_ij_ij es_i_j__ij es_i_i fsum]; ring. Qed.
  Lemma mul_identity (W : mat) (x : vec) i : i < 3 ->
    np_mul 3 (np_identity_w 3 W) x i = x i /\ (i < 2 -> np_mul 2 (np_identity_w 2 W) x i = x i).
  Proof. intros Hi. idx3 i; (split; [|intros H2; try (exfalso; lia)]);
    cbv [np_mul np_identity_w es_ij_j__i fsum Nat.eqb]; ring. Qed.
  Lemma det_multiplicative (A B : mat) :
    np_det_2 (jx_mul_mm 2 A B) = np_det_2 A * np_det_2 B /\
    np_det_3 (jx_mul_mm 3 A B) = np_det_3 A * np_det_3 B.
  Proof. split; cbv [np_det_2 np_det_3 jx_mul_mm es_ij_jk__ik fsum]; ring. Qed.
  Lemma det_transpose (A : mat) :
    np_det_2 (np_transpose 2 A) = np_det_2 A /\ np_det_3 (np_transpose 3 A) = np_det_3 A.
  Proof. split; cbv [np_det_2 np_det_3 np_transpose es_ij__ji]; ring. Qed.
  Lemma triple_product_is_det (a b c : vec) :
    np_dot 3 a (np_cross_3 b c) = np_det_3 (fun i j => match i with 0%nat => a j | 1%nat => b j | _ => c j end).
  Proof. cbv [np_dot np_cross_3 np_det_3 es_i_i fsum]. ring. Qed.

  (* ---- jump(w, u, v): argument i is multiplied by (-1)^(w.idx[i]); without w.idx the arguments are returned *)
  Lemma jump_def (u v : R) :
    (np_jump_none_0 u v = u /\ np_jump_none_1 u v = v) /\ (np_jump_01_0 u v = u /\ np_jump_01_1 u v = - v) /\
    (np_jump_10_0 u v = - u /\ np_jump_10_1 u v = v) /\ np_jump_0_0 u v = u /\ np_jump_1_0 u v = - u.
  Proof. cbv [np_jump_none_0 np_jump_none_1 np_jump_01_0 np_jump_01_1 np_jump_10_0 np_jump_10_1 np_jump_0_0 np_jump_1_0].
         repeat split; ring. Qed.

  (* ---- NumPy and JAX variants: the 2x2 determinant as terms (3x3 is in C20_JaxDet.v) *)
  Lemma det2_variants_agree (A : mat) : np_det_2 A = jx_det_2 A.
  Proof. reflexivity. Qed.
End RingPart.

(* ---- laws that hold for EVERY extent n (finite-sum algebra, Proofs.C20_SumProofs) *)
Section AllExtents.
  Context {R : Type} {ops : FOps R}.
  Hypothesis Rth : ring_theory f0 f1 fadd fmul fsub fopp (@eq R).
  Add Ring Rring20n : Rth.
  Open Scope F_scope.

  Lemma mul_eye_all_n n (w : R) (x : vec R) i : i < n -> np_mul n (np_eye n w) x i = w * x i.
  Proof.
    intros Hi. cbv [np_mul es_ij_j__i].
    rewrite (fsum_ext n _ (fun c => (if Nat.eqb i c then w else 0) * x c)).
    - apply (fsum_delta Rth n i w x Hi).
    - intros c _. rewrite (eye_def Rth). reflexivity.
  Qed.

  Lemma helper_laws_all_n n (u v x : vec R) (A B : mat R) (w : R) :
    np_dot n u v = np_dot n v u /\
    np_ddot n A B = np_trace n (jx_mul_mm n (np_transpose n A) B) /\
    np_ddot n A B = np_ddot n B A /\
    (forall i, np_mul n (jx_mul_mm n A B) x i = np_mul n A (np_mul n B x) i) /\
    (forall i k, np_transpose n (jx_mul_mm n A B) i k = jx_mul_mm n (np_transpose n B) (np_transpose n A) i k) /\
    (forall i, i < n -> np_mul n (np_eye n w) x i = w * x i) /\
    np_trace n (np_prod2 n u v) = np_dot n u v /\
    (forall i, np_mul n (np_prod2 n u v) x i = u i * np_dot n v x).
  Proof.
    split; [exact (es_i_i_comm Rth n u v)|]. split; [exact (ddot_is_trace Rth n A B)|].
    split; [exact (ddot_comm Rth n A B)|]. split; [intros i; exact (matvec_assoc Rth n A B x i)|].
    split; [intros i k; exact (transpose_product Rth n A B i k)|]. split; [intros i Hi; exact (mul_eye_all_n n w x i Hi)|].
    split; [reflexivity | intros i; exact (outer_matvec Rth n u v x i)].
  Qed.
End AllExtents.

(* ---- trailing axes are pointwise: a helper term instantiated at arrays (functions of a trailing index t, pointwise
        operations, Base.C20_Ring.FunOps) evaluated at t is the scalar helper term applied to the slices at t *)
Section Pointwise.
  Context {T R : Type} {ops : FOps R}.
  Notation slice2 A t := (fun i j => A i j t).
  Notation slice1 u t := (fun i => u i t).

  Lemma det_pointwise (A : mat (T -> R)) (t : T) :
    np_det_2 A t = np_det_2 (slice2 A t) /\ np_det_3 A t = np_det_3 (slice2 A t) /\
    jx_det_2 A t = jx_det_2 (slice2 A t) /\ jx_det_3 A t = jx_det_3 (slice2 A t).
  Proof. repeat split; reflexivity. Qed.
  Lemma inv_pointwise (A : mat (T -> R)) (t : T) i j :
    np_inv_2 A i j t = np_inv_2 (slice2 A t) i j /\ np_inv_3 A i j t = np_inv_3 (slice2 A t) i j.
  Proof. split; destruct i as [|[|[|i]]]; destruct j as [|[|[|j]]]; reflexivity. Qed.
  Lemma cross_pointwise (a b : vec (T -> R)) (t : T) i :
    np_cross_2 a b t = np_cross_2 (slice1 a t) (slice1 b t) /\ np_cross_3 a b i t = np_cross_3 (slice1 a t) (slice1 b t) i.
  Proof. split; [reflexivity | destruct i as [|[|[|i]]]; reflexivity]. Qed.
  Lemma dot_mul_pointwise n (u v : vec (T -> R)) (A : mat (T -> R)) (t : T) i :
    np_dot n u v t = np_dot n (slice1 u t) (slice1 v t) /\ np_mul n A u i t = np_mul n (slice2 A t) (slice1 u t) i /\
    np_trace n A t = np_trace n (slice2 A t).
  Proof. repeat split; cbv [np_dot np_mul np_trace es_i_i es_ij_j__i es_ii]; apply fsum_pointwise. Qed.
  Lemma ddot_pointwise n (A B : mat (T -> R)) (t : T) : np_ddot n A B t = np_ddot n (slice2 A t) (slice2 B t).
  Proof. cbv [np_ddot es_ij_ij]. rewrite fsum_pointwise. apply (fsum_ext n). intros i _. apply fsum_pointwise. Qed.
  Lemma sym_grad_pointwise n (u : vec (T -> R)) (G : mat (T -> R)) (t : T) i j :
    np_sym_grad n u G i j t = np_sym_grad n (slice1 u t) (slice2 G t) i j.
  Proof. reflexivity. Qed.
End Pointwise.

Section FieldPart.
  Context {R : Type} {ops : FOps R}.
  Hypothesis Fth : field_theory f0 f1 fadd fmul fsub fopp fdiv finv (@eq R).
  Add Field Ffield20 : Fth.
  Open Scope F_scope.
  Notation vec := (vec R). Notation mat := (mat R).

  (* ---- symmetric gradient (needs 2 <> 0, i.e. characteristic <> 2) *)
  Hypothesis two_nz : (1 + 1 : R) <> 0.
  Lemma sym_grad_def n (u : vec) (G : mat) i j : np_sym_grad n u G i j = (G i j + G j i) / (1 + 1).
  Proof. cbv [np_sym_grad es_ij__ji]. field. exact two_nz. Qed.
  Lemma sym_grad_symmetric n (u : vec) (G : mat) i j : np_sym_grad n u G i j = np_sym_grad n u G j i.
  Proof. rewrite !sym_grad_def. field. exact two_nz. Qed.
  Lemma sym_grad_of_symmetric n (u : vec) (G : mat) :
    (forall i j, G i j = G j i) -> forall i j, np_sym_grad n u G i j = G i j.
  Proof. intros HG i j. rewrite sym_grad_def, (HG j i). field. exact two_nz. Qed.
  Lemma sym_grad_trace (u : vec) (G : mat) :
    np_trace 2 (np_sym_grad 2 u G) = np_div_v 2 u G /\ np_trace 3 (np_sym_grad 3 u G) = np_div_v 3 u G.
  Proof. split; cbv [np_trace np_sym_grad np_div_v es_ii es_ij__ji fsum]; field; exact two_nz. Qed.

  (* ---- inverse: A * inv A = I = inv A * A whenever det A <> 0 *)
  Lemma inv2_right (A : mat) : np_det_2 A <> 0 -> meq 2 (jx_mul_mm 2 A (np_inv_2 A)) delta.
  Proof. intros Hd i j Hi Hj. cbv [np_det_2] in Hd. idx2 i; idx2 j;
    cbv [jx_mul_mm np_inv_2 es_ij_jk__ik fsum delta Nat.eqb]; field; exact Hd. Qed.
  Lemma inv2_left (A : mat) : np_det_2 A <> 0 -> meq 2 (jx_mul_mm 2 (np_inv_2 A) A) delta.
  Proof. intros Hd i j Hi Hj. cbv [np_det_2] in Hd. idx2 i; idx2 j;
    cbv [jx_mul_mm np_inv_2 es_ij_jk__ik fsum delta Nat.eqb]; field; exact Hd. Qed.
  Lemma inv3_right (A : mat) : np_det_3 A <> 0 -> meq 3 (jx_mul_mm 3 A (np_inv_3 A)) delta.
  Proof. intros Hd i j Hi Hj. cbv [np_det_3] in Hd. idx3 i; idx3 j;
    cbv [jx_mul_mm np_inv_3 es_ij_jk__ik fsum delta Nat.eqb]; field; exact Hd. Qed.
  Lemma inv3_left (A : mat) : np_det_3 A <> 0 -> meq 3 (jx_mul_mm 3 (np_inv_3 A) A) delta.
  Proof. intros Hd i j Hi Hj. cbv [np_det_3] in Hd. idx3 i; idx3 j;
    cbv [jx_mul_mm np_inv_3 es_ij_jk__ik fsum delta Nat.eqb]; field; exact Hd. Qed.
  (* with the NumPy matrix-vector product: inv A (A x) = x and A (inv A x) = x *)
  Lemma inv_solves (A : mat) (x : vec) :
    (np_det_2 A <> 0 -> veq 2 (np_mul 2 (np_inv_2 A) (np_mul 2 A x)) x /\ veq 2 (np_mul 2 A (np_mul 2 (np_inv_2 A) x)) x) /\
    (np_det_3 A <> 0 -> veq 3 (np_mul 3 (np_inv_3 A) (np_mul 3 A x)) x /\ veq 3 (np_mul 3 A (np_mul 3 (np_inv_3 A) x)) x).
  Proof. split; intros Hd; [cbv [np_det_2] in Hd | cbv [np_det_3] in Hd]; split; intros i Hi.
    - idx2 i; cbv [np_mul np_inv_2 es_ij_j__i fsum]; field; exact Hd.
    - idx2 i; cbv [np_mul np_inv_2 es_ij_j__i fsum]; field; exact Hd.
    - idx3 i; cbv [np_mul np_inv_3 es_ij_j__i fsum]; field; exact Hd.
    - idx3 i; cbv [np_mul np_inv_3 es_ij_j__i fsum]; field; exact Hd.
  Qed.
  Lemma det_of_inverse (A : mat) :
    (np_det_2 A <> 0 -> np_det_2 (np_inv_2 A) = 1 / np_det_2 A) /\
    (np_det_3 A <> 0 -> np_det_3 (np_inv_3 A) = 1 / np_det_3 A).
  Proof. split; intros Hd; [cbv [np_det_2] in *| cbv [np_det_3] in *]; cbv [np_inv_2 np_inv_3]; field; exact Hd. Qed.
End FieldPart.
