(* C04 tie: what the translator read in dofs.py / element.py IS the hand model the theorems speak about *)
From Coq Require Import List Arith Bool Lia.
Import ListNotations.
Require Import Model.C04_Dofs Proofs.C04_DofsProofs Gen.C04Gen.

Lemma gen_dofs_init_is_model : forall dim nd ed fd id off nv ne nf nt t t2e t2f,
  gen_dofs_init dim nd ed fd id off nv ne nf nt t t2e t2f = dofs_init dim nd ed fd id off nv ne nf nt t t2e t2f.
Proof. intros. reflexivity. Qed.

(* Element._bfun_counts lists the group sizes in the order the rows are stacked: nodal, edge, facet, interior *)
Lemma gen_bfun_counts_is_model : forall nd ed fd id nnodes nedges nfacets,
  gen_bfun_counts nd ed fd id nnodes nedges nfacets = [nd * nnodes; ed * nedges; fd * nfacets; id].
Proof. intros. reflexivity. Qed.
