(* Tie lemmas: what the translator read in bilinear_form.py IS the hand-written model
   that the theorems of Proofs.ThreadsProofs speak about. *)
From Coq Require Import List Arith.
Require Import Model.Threads Gen.C16Gen.

Lemma gen_pairs_is_model : forall Nu Nv, gen_pairs Nu Nv = pairs Nu Nv.
Proof. reflexivity. Qed.
Lemma gen_split_is_model : forall A k (l : list A), gen_split k l = array_split k l.
Proof. reflexivity. Qed.
Lemma gen_step_is_model : forall V (K : nat -> nat -> V) ij, gen_step K ij = step K ij.
Proof. reflexivity. Qed.
Lemma gen_serial_is_model : forall V (K : nat -> nat -> V) Nu Nv, gen_serial_steps K Nu Nv = serial_steps K Nu Nv.
Proof. reflexivity. Qed.
Lemma gen_data_shape_is_model : forall Nu Nv, gen_data_shape Nu Nv = (Nu, Nv).
Proof. reflexivity. Qed.
Lemma gen_errors_reraised : gen_errors_reraised_after_join = true.
Proof. reflexivity. Qed.
