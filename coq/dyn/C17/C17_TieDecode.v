(* C17 tie of the decoding of one boundary: the statement sequence read in Mesh._decode_cell_data
   (gather in C order, argsort of the facets applied to BOTH facets and cells, orientation test)
   is the model decode_boundary, which sorts the (facet, cell) pairs together.
   On a tree that sorts the facets on their own (finding F7) this lemma is false and does not compile. *)
From Coq Require Import List Arith Bool ZArith NArith.
Import ListNotations.
Require Import Model.C17_TagCodec Proofs.C17_TagCodecProofs Gen.C17Gen.

Lemma gen_decode_boundary_is_model : forall nslots nt t2f f2t data,
  gen_decode_boundary nslots nt t2f f2t data = decode_boundary nslots nt t2f f2t data.
Proof. intros. exact (decode_via_argsort nslots nt t2f f2t data). Qed.
