(* C17 tie for the second-order classes: the regenerated __post_init__ reordering is the model, and the local DOFs of
   the elements sit, in the order in which to_meshio writes them, at the reference nodes of the VTK / meshio cell types. *)
From Coq Require Import List Arith Bool ZArith.
Import ListNotations.
Require Import Base.Corr Model.C18_Surgery Model.C17_HighOrder Proofs.C17_HighOrderProofs Gen.C17GenHO.

Lemma gen_hi_is_model : forall P (zero : P) M ncols p t edofs_hi,
  gen_hi_t M t = hi_t M t /\ gen_hi_doflocs zero M ncols p t edofs_hi = hi_doflocs zero M ncols p t edofs_hi.
Proof. intros; split; reflexivity. Qed.

(* triangle6 / quad9 / tetra10: the element's local DOF order IS the node order of the cell type; hexahedron27: after
   HEX_MAPPING it is the node order of the cell type up to the cube symmetry x -> 1 - x (finite, enumerated) *)
Lemma second_order_node_tables :
  gen_doflocs2_triangle6 = vtk_triangle6 /\ gen_doflocs2_quad9 = vtk_quad9 /\ gen_doflocs2_tetra10 = vtk_tetra10 /\
  gather [] gen_doflocs2_hexahedron27 gen_hex_mapping = map reflect2 vtk_hexahedron27 /\
  gather [] gen_doflocs2_hexahedron27 (firstn 8 gen_hex_mapping) = map reflect2 (firstn 8 vtk_hexahedron27).
Proof. vm_compute. repeat split. Qed.
