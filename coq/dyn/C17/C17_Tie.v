(* C17 tie lemmas: what the translator read in mesh.py / io/meshio.py IS the hand-written model that
   Proofs.C17_TagCodecProofs speaks about; finite facts about the regenerated tables. *)
From Coq Require Import List Arith Bool ZArith NArith.
From Coq Require String.
Import ListNotations.
Require Import Base.Corr Model.C17_TagCodec Proofs.C17_TagCodecProofs Gen.C17Gen.

Lemma gen_encode_boundary_is_model : forall nslots nt t2f f2t ori b,
  gen_encode_boundary nslots nt t2f f2t ori b = encode_boundary nslots nt t2f f2t ori b.
Proof. reflexivity. Qed.

Lemma gen_encode_subdomain_is_model : forall nt s, gen_encode_subdomain nt s = encode_subdomain nt s.
Proof. reflexivity. Qed.

Lemma gen_decode_subdomain_is_model : forall data, gen_decode_subdomain data = decode_subdomain data.
Proof. reflexivity. Qed.

Lemma gen_dict_is_model : forall b bs os,
  gen_dict_boundaries b = dict_boundaries b /\ gen_dict_orientations b = dict_orientations b /\
  gen_dict_load bs os = dict_load bs os.
Proof. intros; repeat split. Qed.

(* ---- hexahedron node permutations *)
Lemma inv_hex_is_index : INV_HEX_MAPPING = inverse_by_index HEX_MAPPING.
Proof. vm_compute. reflexivity. Qed.

Lemma hex_mapping_is_permutation :
  length HEX_MAPPING = 27 /\ is_perm_of_range HEX_MAPPING = true /\
  is_perm_of_range (firstn 8 HEX_MAPPING) = true /\ is_perm_of_range INV_HEX_MAPPING = true.
Proof. vm_compute. repeat split. Qed.

Lemma hex2_save_load : forall (A : Type) (d : A) (t : list A), length t = 27 ->
  permute_rows d gen_hex2_in (permute_rows d gen_hex2_out t) = t.
Proof. intros A d t Ht. apply (permute_roundtrip d gen_hex2_out gen_hex2_in 27); [vm_compute; reflexivity | vm_compute; reflexivity | exact Ht]. Qed.

Lemma hex2_load_save : forall (A : Type) (d : A) (t : list A), length t = 27 ->
  permute_rows d gen_hex2_out (permute_rows d gen_hex2_in t) = t.
Proof. intros A d t Ht. apply (permute_roundtrip d gen_hex2_in gen_hex2_out 27); [vm_compute; reflexivity | vm_compute; reflexivity | exact Ht]. Qed.

Lemma hex1_save_load : forall (A : Type) (d : A) (t : list A), length t = 8 ->
  permute_rows d gen_hex1_in (permute_rows d gen_hex1_out t) = t.
Proof. intros A d t Ht. apply (permute_roundtrip d gen_hex1_out gen_hex1_in 8); [vm_compute; reflexivity | vm_compute; reflexivity | exact Ht]. Qed.

Lemma hex1_load_save : forall (A : Type) (d : A) (t : list A), length t = 8 ->
  permute_rows d gen_hex1_out (permute_rows d gen_hex1_in t) = t.
Proof. intros A d t Ht. apply (permute_roundtrip d gen_hex1_in gen_hex1_out 8); [vm_compute; reflexivity | vm_compute; reflexivity | exact Ht]. Qed.

Import String Ascii.

(* cell-data key scheme: the two prefixes differ and both start with the marker the decoder tests *)
Lemma gen_keys_distinct :
  String.eqb gen_key_subdomain gen_key_boundary = false /\
  gen_key_subdomain = "skfem:s:"%string /\ gen_key_boundary = "skfem:b:"%string.
Proof. repeat split. Qed.

(* the decoder splits a key at the first two ':' only *)
Lemma gen_parse_key_is_model : gen_parse_key = parse_key2.
Proof. reflexivity. Qed.

(* ---- npz key scheme: every boundary / subdomain name comes back, nothing else does, and a boundary is read back
   as oriented exactly when its orientation flags were written *)
Lemma npz_keys_roundtrip : forall (bn sn on : list string) (unsorted : bool),
  let keys := gen_npz_fixed_keys ++ map (key_with_prefix gen_npz_save_b) bn
                                 ++ map (key_with_prefix gen_npz_save_s) sn
                                 ++ map (key_with_prefix gen_npz_save_o) on
                                 ++ (if unsorted then [gen_npz_sort_t_key] else []) in
  decode_keys gen_npz_load_b keys = bn /\ decode_keys gen_npz_load_s keys = sn /\
  (forall n, In (key_with_prefix gen_npz_load_o n) keys <-> In n on) /\
  (In gen_npz_sort_t_key keys <-> unsorted = true).
Proof.
  intros bn sn on unsorted keys. unfold keys.
  change gen_npz_save_b with (pre2 "b"%char "_"%char). change gen_npz_save_s with (pre2 "s"%char "_"%char).
  change gen_npz_save_o with (pre2 "o"%char "_"%char).
  change gen_npz_load_b with (pre2 "b"%char "_"%char). change gen_npz_load_s with (pre2 "s"%char "_"%char).
  change gen_npz_load_o with (pre2 "o"%char "_"%char).
  assert (Hb0 : decode_keys (pre2 "b"%char "_"%char) (if unsorted then [gen_npz_sort_t_key] else []) = [])
    by (destruct unsorted; reflexivity).
  assert (Hs0 : decode_keys (pre2 "s"%char "_"%char) (if unsorted then [gen_npz_sort_t_key] else []) = [])
    by (destruct unsorted; reflexivity).
  split; [|split; [|split]].
  - rewrite !decode_keys_app, decode_keys_hit.
    rewrite (decode_keys_miss "b"%char "_"%char "s"%char "_"%char) by reflexivity.
    rewrite (decode_keys_miss "b"%char "_"%char "o"%char "_"%char) by reflexivity.
    change (decode_keys (pre2 "b"%char "_"%char) gen_npz_fixed_keys) with (@nil string).
    rewrite Hb0. simpl. rewrite !app_nil_r. reflexivity.
  - rewrite !decode_keys_app, decode_keys_hit.
    rewrite (decode_keys_miss "s"%char "_"%char "b"%char "_"%char) by reflexivity.
    rewrite (decode_keys_miss "s"%char "_"%char "o"%char "_"%char) by reflexivity.
    change (decode_keys (pre2 "s"%char "_"%char) gen_npz_fixed_keys) with (@nil string).
    rewrite Hs0. simpl. rewrite !app_nil_r. reflexivity.
  - intros n. rewrite !in_app_iff, !in_prefixed_keys. split.
    + intros [Hf|[[Hp _]|[[Hp _]|[[_ Hn]|Hs]]]]; [|discriminate Hp|discriminate Hp|exact Hn|].
      * exfalso. unfold gen_npz_fixed_keys in Hf. simpl in Hf.
        destruct Hf as [Hf|[Hf|[]]]; apply (f_equal (String.substring 0 2)) in Hf; discriminate Hf.
      * exfalso. destruct unsorted; [|contradiction]. destruct Hs as [Hs|[]].
        apply (f_equal (String.substring 0 2)) in Hs. discriminate Hs.
    + intros Hn. right. right. right. left. split; [reflexivity | exact Hn].
  - rewrite !in_app_iff. split.
    + intros [Hf|[Hb|[Hs|[Ho|Hu]]]].
      * exfalso. unfold gen_npz_fixed_keys in Hf. simpl in Hf. destruct Hf as [Hf|[Hf|[]]]; discriminate Hf.
      * exfalso. apply in_map_iff in Hb. destruct Hb as [x [Hx _]]. apply (f_equal (String.substring 0 2)) in Hx.
        unfold key_with_prefix in Hx. rewrite substring_prefix2 in Hx. discriminate Hx.
      * exfalso. apply in_map_iff in Hs. destruct Hs as [x [Hx _]]. apply (f_equal (String.substring 0 2)) in Hx.
        unfold key_with_prefix in Hx. rewrite substring_prefix2 in Hx. discriminate Hx.
      * exfalso. apply in_map_iff in Ho. destruct Ho as [x [Hx _]]. apply (f_equal (String.substring 0 2)) in Hx.
        unfold key_with_prefix in Hx. rewrite substring_prefix2 in Hx. discriminate Hx.
      * destruct unsorted; [reflexivity | contradiction].
    + intros ->. right. right. right. right. left. reflexivity.
Qed.

Lemma gen_sort_t_roundtrip : forall default v, gen_sort_t_load default (gen_sort_t_save default v) = v.
Proof. exact opt_flag_roundtrip. Qed.

(* ---- class <-> meshio cell type: what a supported class is written as is read back as that class (finite) *)
Lemma class_type_roundtrip :
  forallb (fun c => match lookup c gen_type_of_class with
                    | Some ty => match lookup ty gen_class_of_type with Some c' => String.eqb c c' | None => false end
                    | None => false
                    end) supported_classes = true /\ List.length supported_classes = 8.
Proof. vm_compute. split; reflexivity. Qed.

(* ---- Mesh.save -> to_file -> to_meshio: every argument reaches the parameter of the same name, the defaults agree, and the
   data dictionaries are {**caller's, **encoded} under their own flags *)
Lemma save_forwarding :
  gen_to_file_passes = gen_to_meshio_params /\
  gen_save_passes = ["self"; "filename"; "point_data"; "cell_data"]%string /\
  gen_to_file_params = ["mesh"; "filename"; "point_data"; "cell_data"; "encode_cell_data"; "encode_point_data"]%string /\
  gen_to_meshio_defaults = [("point_data", "None"); ("cell_data", "None"); ("encode_cell_data", "True"); ("encode_point_data", "False")]%string /\
  gen_to_file_defaults = gen_to_meshio_defaults /\ gen_save_defaults = [("point_data", "None"); ("cell_data", "None")]%string.
Proof. repeat split; reflexivity. Qed.

Lemma gen_data_is_model : forall V ecd epd (user : option (list (string * V))) enc,
  gen_cell_data_of_to_meshio ecd epd user enc = data_option ecd user enc /\
  gen_point_data_of_to_meshio ecd epd user enc = data_option epd user enc.
Proof. intros; split; reflexivity. Qed.
