(* C11 wrappers: the option plumbing of Mesh.nodes_satisfying / facets_satisfying / elements_satisfying, regenerated from the source
   (Gen.C11Wrap), composed with the modelled boundary sets *)
From Coq Require Import List Arith ZArith Bool Lia.
Import ListNotations.
Require Import Base.C11_Unique Model.C11_Topo Proofs.C11_TopoProofs Model.C07_Query Proofs.C07_QueryProofs Gen.C11Wrap.

Theorem wrap11_facets pred bfacets bnodes bo ng :
  gen_facets_satisfying pred bfacets bnodes bo ng = if bo then inter pred bfacets else pred.
Proof. unfold gen_facets_satisfying. destruct bo, ng; reflexivity. Qed.

Theorem wrap11_nodes pred bfacets bnodes bo :
  gen_nodes_satisfying pred bfacets bnodes bo = if bo then inter pred bnodes else pred.
Proof. unfold gen_nodes_satisfying. destruct bo; reflexivity. Qed.

(* with the boundary sets derived from the cell list (f2t, facets): a facet is returned iff the predicate holds and, under
   boundaries_only, it has a single neighbour; a node iff the predicate holds and, under boundaries_only, it is a vertex of a
   facet with a single neighbour.  `normal` does not change the facet set. *)
Theorem wrap11_facets_exact (f2t : list (list Z)) (facets : list (list nat)) pred bo ng f :
  let bf := boundary_facets f2t in
  In f (gen_facets_satisfying pred bf (boundary_nodes facets bf) bo ng) <->
  In f pred /\ (bo = true -> f < length (nth 1 f2t []) /\ row1 f2t f = (-1)%Z).
Proof.
  intros bf. rewrite wrap11_facets. destruct bo.
  - rewrite inter_in. unfold bf. rewrite boundary_facets_spec. intuition.
  - intuition discriminate.
Qed.

Theorem wrap11_nodes_exact (f2t : list (list Z)) (facets : list (list nat)) pred bo v :
  let bf := boundary_facets f2t in
  In v (gen_nodes_satisfying pred bf (boundary_nodes facets bf) bo) <->
  In v pred /\ (bo = true -> exists f, (f < length (nth 1 f2t []) /\ row1 f2t f = (-1)%Z) /\ In v (nth f facets [])).
Proof.
  intros bf. rewrite wrap11_nodes. destruct bo.
  - rewrite inter_in, boundary_nodes_spec. split.
    + intros [Hp [f [Hf Hv]]]. split; [exact Hp|]. intros _. exists f. split; [|exact Hv]. now apply boundary_facets_spec.
    + intros [Hp H]. split; [exact Hp|]. destruct (H eq_refl) as [f [Hf Hv]]. exists f. split; [|exact Hv].
      now apply boundary_facets_spec.
  - intuition discriminate.
Qed.

Theorem wrap11_elements pred : gen_elements_satisfying pred = pred.
Proof. reflexivity. Qed.
