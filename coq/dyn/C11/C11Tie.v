(* C11 tie: side conditions of the theorems, checked on the slot tables REGENERATED from skfem/refdom.py *)
From Coq Require Import List Arith Bool Lia.
Import ListNotations.
Require Import Base.C11_Unique Model.C11_Topo Proofs.C11_TopoProofs Proofs.C11_EquivProofs Gen.C11Refdom.

Inductive kind := Kline | Ktri | Kquad | Ktet | Khex | Kwedge.
Definition k_nnodes k := match k with Kline => line_nnodes | Ktri => tri_nnodes | Kquad => quad_nnodes
                                    | Ktet => tet_nnodes | Khex => hex_nnodes | Kwedge => wedge_nnodes end.
Definition k_facets k := match k with Kline => line_facets | Ktri => tri_facets | Kquad => quad_facets
                                    | Ktet => tet_facets | Khex => hex_facets | Kwedge => wedge_facets end.
Definition k_edges k := match k with Kline => line_edges | Ktri => tri_edges | Kquad => quad_edges
                                   | Ktet => tet_edges | Khex => hex_edges | Kwedge => wedge_edges end.
Definition k_sortf k := match k with Kline => line_sortf | Ktri => tri_sortf | Kquad => quad_sortf
                                   | Ktet => tet_sortf | Khex => hex_sortf | Kwedge => wedge_sortf end.
Definition k_bnd k := match k with Kline => line_bnd | Ktri => tri_bnd | Kquad => quad_bnd
                                 | Ktet => tet_bnd | Khex => hex_bnd | Kwedge => wedge_bnd end.

(* every facet / edge slot names local vertices of the cell, and no two slots have the same vertex set *)
Lemma facets_slots_ok : forall k, slots_ok (k_nnodes k) (k_facets k) = true.
Proof. intros []; vm_compute; reflexivity. Qed.

Lemma edges_slots_ok : forall k, slots_ok (k_nnodes k) (k_edges k) = true.
Proof. intros []; vm_compute; reflexivity. Qed.

(* build_inverse tiles arange(nt) t.shape[0] = nnodes times but indexes it with positions < nfacets*nt *)
Lemma nfacets_le_nnodes : forall k, length (k_facets k) <=? k_nnodes k = true.
Proof. intros []; vm_compute; reflexivity. Qed.

Lemma facets_nonempty : forall k, 0 <? length (k_facets k) = true.
Proof. intros []; vm_compute; reflexivity. Qed.

(* the instance of H1 for every cell type of the library *)
Lemma slots_injective_every_cell_type k cells :
  Forall (fun c => NoDup c /\ length c = k_nnodes k) cells -> slots_injective cells (k_facets k).
Proof. intros H. exact (slots_injective_of_distinct cells (k_facets k) (k_nnodes k) (facets_slots_ok k) H). Qed.

Lemma edge_slots_injective_every_cell_type k cells :
  Forall (fun c => NoDup c /\ length c = k_nnodes k) cells -> slots_injective cells (k_edges k).
Proof. intros H. exact (slots_injective_of_distinct cells (k_edges k) (k_nnodes k) (edges_slots_ok k) H). Qed.

(* tetrahedra: the boundary refdom lists the three vertex pairs of a triangle, facet slots have three vertices, facets are
   row-sorted, and (facet slot, side) compositions are exactly the edge slots  ==>  f2e numbers mesh.edges *)
Lemma tet_bnd_all_pairs : tet_bnd = [[0; 1]; [1; 2]; [0; 2]].
Proof. reflexivity. Qed.
Lemma tet_facets_have_three_vertices :
  Forall (fun fs => length fs = 3 /\ NoDup fs /\ forall i, In i fs -> i < tet_nnodes) tet_facets.
Proof.
  unfold tet_facets, tet_nnodes. repeat (apply Forall_cons || apply Forall_nil);
    (split; [reflexivity | split; [repeat constructor; simpl; intuition discriminate | intros i Hi; simpl in Hi; intuition lia]]).
Qed.
Lemma tet_edges_distinct_vertices : Forall (fun es => NoDup es /\ forall i, In i es -> i < tet_nnodes) tet_edges.
Proof.
  unfold tet_edges, tet_nnodes. repeat (apply Forall_cons || apply Forall_nil);
    (split; [repeat constructor; simpl; intuition discriminate | intros i Hi; simpl in Hi; intuition lia]).
Qed.
Lemma tet_sorted_facets : tet_sortf = true.
Proof. reflexivity. Qed.
Lemma tet_compose_ok : compose_ok tet_facets tet_bnd tet_edges = true.
Proof. vm_compute. reflexivity. Qed.

(* the two triangular facet slots of the wedge are a triple of distinct local vertices padded with one of them *)
Lemma wedge_triangular_slots_are_padded :
  nth 3 wedge_facets [] = [0; 1; 2] ++ [0] /\ nth 4 wedge_facets [] = [3; 4; 5] ++ [3].
Proof. split; reflexivity. Qed.

(* every facet / edge slot of every cell type is a tuple of distinct local vertices, possibly padded with one of them, with entries
   below the number of cell vertices: the hypotheses of the renumbering theorems hold for all cells with distinct vertices *)
Lemma slot_shapes_ok : forall k,
  forallb slot_shape_ok (k_facets k) && forallb slot_shape_ok (k_edges k) &&
  forallb (forallb (fun i => i <? k_nnodes k)) (k_facets k) && forallb (forallb (fun i => i <? k_nnodes k)) (k_edges k) = true.
Proof. intros []; vm_compute; reflexivity. Qed.

Lemma shape_every_cell_type k idx : idx = k_facets k \/ idx = k_edges k ->
  Forall (fun ix => forall i, In i ix -> i < k_nnodes k) idx /\
  forall ix c, In ix idx -> NoDup c -> length c = k_nnodes k -> shape (slotv ix c).
Proof.
  intros Hidx. pose proof (slot_shapes_ok k) as H. apply andb_true_iff in H. destruct H as [H H4].
  apply andb_true_iff in H. destruct H as [H H3]. apply andb_true_iff in H. destruct H as [H1 H2].
  rewrite forallb_forall in H1, H2, H3, H4.
  assert (B : forall ix, In ix idx -> forall i, In i ix -> i < k_nnodes k).
  { intros ix Hix i Hi. apply Nat.ltb_lt. destruct Hidx as [-> | ->];
      [specialize (H3 ix Hix) | specialize (H4 ix Hix)]; [rewrite forallb_forall in H3; now apply H3 | rewrite forallb_forall in H4; now apply H4]. }
  split; [rewrite Forall_forall; exact B|]. intros ix c Hix Nc Lc. apply slot_shape_sound; [|exact Nc|].
  - destruct Hidx as [-> | ->]; [now apply H1 | now apply H2].
  - intros i Hi. rewrite Lc. now apply (B ix).
Qed.

(* hexahedra: the boundary refdom lists the four sides of a quadrilateral in cyclic order, facets are kept unsorted, and
   (facet slot, side) compositions are exactly the edge slots *)
Lemma hex_bnd_cyclic : hex_bnd = [[0; 1]; [1; 2]; [2; 3]; [0; 3]].
Proof. reflexivity. Qed.
Lemma hex_unsorted_facets : hex_sortf = false.
Proof. reflexivity. Qed.
Lemma hex_compose_ok : compose_ok hex_facets hex_bnd hex_edges = true.
Proof. vm_compute. reflexivity. Qed.
