(* C10 — the cofactor formulas of MappingIsoparametric.detDF / invDF / detDG (regenerated from
   mapping_isoparametric.py over an abstract Jacobian J) and their agreement with the affine closed forms. *)
Require Import Dyn.C10_Tac.

Section R.
  Context {R : Type} {ops : FOps R}.
  Hypothesis Rth : ring_theory f0 f1 fadd fmul fsub fopp (@eq R).
  Add Ring Rring10i : Rth.
  Open Scope F_scope.

  Lemma iso_det_leibniz (J : mat R) :
    iso_detDF_1 J = leibniz 1 J /\ iso_detDF_2 J = leibniz 2 J /\ iso_detDF_3 J = leibniz 3 J.
  Proof. repeat split; lz; unf; ring. Qed.
  (* the surface factor is the Gram determinant of the columns of the boundary Jacobian *)
  Lemma iso_detDG_gram (J : mat R) :
    let c0 := fun i => J i 0%nat in let c1 := fun i => J i 1%nat in
    iso_detDGsq_2 J = vdot 2 c0 c0 /\ iso_detDGsq_3 J = vdot 3 c0 c0 * vdot 3 c1 c1 - vdot 3 c0 c1 * vdot 3 c0 c1.
  Proof. intros c0 c1. subst c0 c1. split; unf; ring. Qed.
  (* on a straight simplex J = A: the isoparametric and the affine determinant / surface factor are the same term *)
  Lemma iso_affine_det (P Q : mat R) :
    iso_detDF_1 (aff_A_1 P) = aff_detA_1 P /\ iso_detDF_2 (aff_A_2 P) = aff_detA_2 P /\ iso_detDF_3 (aff_A_3 P) = aff_detA_3 P /\
    iso_detDGsq_2 (aff_B_2 Q) = aff_detBsq_2 Q /\ iso_detDGsq_3 (aff_B_3 Q) = aff_detBsq_3 Q.
  Proof. repeat split; unf; ring. Qed.
  (* the isoparametric map built from the P1 element of a straight simplicial mesh IS the affine map, and its
     Jacobian IS A, at every reference point; the P1 basis is nodal at the reference vertices of refdom.py *)
  Lemma p1_iso_is_affine (P : mat R) (X : vec R) :
    veq 1 (isoF 2 p1_phi_1 P X) (mapF 1 (aff_A_1 P) (aff_b_1 P) X) /\ meq 1 (isoJ 2 p1_dphi_1 P X) (aff_A_1 P) /\
    veq 2 (isoF 3 p1_phi_2 P X) (mapF 2 (aff_A_2 P) (aff_b_2 P) X) /\ meq 2 (isoJ 3 p1_dphi_2 P X) (aff_A_2 P) /\
    veq 3 (isoF 4 p1_phi_3 P X) (mapF 3 (aff_A_3 P) (aff_b_3 P) X) /\ meq 3 (isoJ 4 p1_dphi_3 P X) (aff_A_3 P).
  Proof.
    split; [intros i Hi; idx1 i; unf; ring|]. split; [intros i j Hi Hj; idx1 i; idx1 j; unf; ring|].
    split; [intros i Hi; idx2 i; unf; ring|]. split; [intros i j Hi Hj; idx2 i; idx2 j; unf; ring|].
    split; [intros i Hi; idx3 i; unf; ring|]. intros i j Hi Hj; idx3 i; idx3 j; unf; ring.
  Qed.
  Lemma p1_nodal k k' :
    (k < 2 -> k' < 2 -> p1_phi_1 (ref_p_line k) k' = delta k k') /\
    (k < 3 -> k' < 3 -> p1_phi_2 (ref_p_tri k) k' = delta k k') /\
    (k < 4 -> k' < 4 -> p1_phi_3 (ref_p_tet k) k' = delta k k').
  Proof.
    split; [|split]; intros Hk Hk'.
    - idx2 k; idx2 k'; unf; ring.
    - idx3 k; idx3 k'; unf; ring.
    - idx4 k; idx4 k'; unf; ring.
  Qed.
End R.

Section F.
  Context {R : Type} {ops : FOps R}.
  Hypothesis Fth : field_theory f0 f1 fadd fmul fsub fopp fdiv finv (@eq R).
  Add Field Ffield10i : Fth.
  Open Scope F_scope.

  Lemma iso_inverse_1 (J : mat R) : iso_detDF_1 J <> 0 ->
    meq 1 (matmul 1 (iso_invDF_1 J) J) delta /\ meq 1 (matmul 1 J (iso_invDF_1 J)) delta.
  Proof. intros Hd. cbv [iso_detDF_1] in Hd. split; intros i j Hi Hj; idx1 i; idx1 j; unf; field; exact Hd. Qed.
  Lemma iso_inverse_2 (J : mat R) : iso_detDF_2 J <> 0 ->
    meq 2 (matmul 2 (iso_invDF_2 J) J) delta /\ meq 2 (matmul 2 J (iso_invDF_2 J)) delta.
  Proof. intros Hd. cbv [iso_detDF_2] in Hd. split; intros i j Hi Hj; idx2 i; idx2 j; unf; field; exact Hd. Qed.
  Lemma iso_inverse_3 (J : mat R) : iso_detDF_3 J <> 0 ->
    meq 3 (matmul 3 (iso_invDF_3 J) J) delta /\ meq 3 (matmul 3 J (iso_invDF_3 J)) delta.
  Proof. intros Hd. cbv [iso_detDF_3] in Hd. split; intros i j Hi Hj; idx3 i; idx3 j; unf; field; exact Hd. Qed.
  (* on a straight simplex the two implementations compute the same inverse Jacobian *)
  Lemma iso_affine_inverse (P : mat R) :
    (aff_detA_1 P <> 0 -> meq 1 (iso_invDF_1 (aff_A_1 P)) (aff_invA_1 P)) /\
    (aff_detA_2 P <> 0 -> meq 2 (iso_invDF_2 (aff_A_2 P)) (aff_invA_2 P)) /\
    (aff_detA_3 P <> 0 -> meq 3 (iso_invDF_3 (aff_A_3 P)) (aff_invA_3 P)).
  Proof.
    split; [|split]; intros Hd i j Hi Hj.
    - cbv [aff_detA_1] in Hd. idx1 i; idx1 j; unf; field; exact Hd.
    - cbv [aff_detA_2] in Hd. idx2 i; idx2 j; unf; field; exact Hd.
    - cbv [aff_detA_3] in Hd. idx3 i; idx3 j; unf; field; exact Hd.
  Qed.
End F.
