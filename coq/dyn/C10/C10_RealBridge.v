(* C10 — real-number corollaries of the polynomial identities (compiled on every run, not part of coq/props/C10.v because
   they depend on the axioms of Coq's real numbers through Coquelicot). *)
From Coq Require Import List Arith Reals.
From Coquelicot Require Import Coquelicot.
Import ListNotations.
Require Import Base.C09_Poly Base.C09_PolyQ Base.C09_PolyReal Base.C20_Ring Model.C20_Tensor Model.C10_Map Model.C10_IsoPoly.
Require Import Proofs.C10_IsoPolyProofs Proofs.C10_IsoPolyReal Gen.C10Gen Gen.C10GenPoly Gen.C10GenPolyH Dyn.C10_Iso.
Local Close Scope R_scope.
Local Close Scope Q_scope.

(* the same over the reals as a TRUE derivative (is_derive of Coquelicot): d F_i / d X_j = J_ij *)
Theorem iso_J_is_true_derivative_R :
  J_true_derivative_R 2 quad1_phi quad1_dphi /\ J_true_derivative_R 3 hex1_phi hex1_dphi /\
  J_true_derivative_R 3 wedge1_phi wedge1_dphi /\ J_true_derivative_R 2 tri2_phi tri2_dphi /\
  J_true_derivative_R 2 quad2_phi quad2_dphi /\ J_true_derivative_R 3 tet2_phi tet2_dphi /\
  J_true_derivative_R 3 hex2_phi hex2_dphi.
Proof.
  exact (conj (derivative_sound_R _ _ _ quad1_J_is_derivative_of_F) (conj (derivative_sound_R _ _ _ hex1_J_is_derivative_of_F) (conj (derivative_sound_R _ _ _ wedge1_J_is_derivative_of_F) (conj (derivative_sound_R _ _ _ tri2_J_is_derivative_of_F) (conj (derivative_sound_R _ _ _ quad2_J_is_derivative_of_F) (conj (derivative_sound_R _ _ _ tet2_J_is_derivative_of_F) (derivative_sound_R _ _ _ hex2_J_is_derivative_of_F))))))).
Qed.
Print Assumptions iso_J_is_true_derivative_R.

(* invDF DF = I = DF invDF and detDF = Leibniz ON the delivered polynomial Jacobian evaluated at any real point where the
   determinant does not vanish (the cofactor formulas of C10_iso_cofactors instantiated at J := the polynomial J) *)
Theorem iso_inverse_of_delivered_J_R : forall (dphis : list (list poly)) (pt : nat -> R),
  (let J := fun i j => reval (isoJ_poly 2 dphis i j) pt in
   @iso_detDF_2 R ROps J <> 0%R ->
   meq 2 (@matmul R ROps 2 (@iso_invDF_2 R ROps J) J) (@delta R ROps) /\ meq 2 (@matmul R ROps 2 J (@iso_invDF_2 R ROps J)) (@delta R ROps)) /\
  (let J := fun i j => reval (isoJ_poly 3 dphis i j) pt in
   @iso_detDF_3 R ROps J <> 0%R ->
   meq 3 (@matmul R ROps 3 (@iso_invDF_3 R ROps J) J) (@delta R ROps) /\ meq 3 (@matmul R ROps 3 J (@iso_invDF_3 R ROps J)) (@delta R ROps)).
Proof.
  intros dphis pt. split; intros J Hd; [exact (iso_inverse_2 R_field J Hd) | exact (iso_inverse_3 R_field J Hd)].
Qed.
Print Assumptions iso_inverse_of_delivered_J_R.


(* normals of a hexahedron: adj(J)^T N_s is orthogonal to both tangents of the (bilinear) facet map, every local facet *)
Theorem iso_normal_orthogonal_hex1 : normal_orthogonal_Q 3 (@iso_adj_3 poly PolyOps) hex1_dphi hex1_psi hex1_facets_n.
Proof. exact (normal_sound_Q _ _ _ _ _ hex1_normal_orthogonal_to_dG). Qed.
Print Assumptions iso_normal_orthogonal_hex1.

(* second-order tetrahedra (MeshTet2, boundary element ElementTriP2): the facet map incl. the mid-edge nodes is the restriction of F
   to the matching reference face, for all 6 orderings of the vertices of all 4 faces, and adj(J)^T N_s is orthogonal to both
   tangents of the CURVED face.  Assumes that bndmap's stacked rows (facets, then edge_dofs[0, f2e]) list the face's nodes in the dof
   order of the boundary element, i.e. f2e[m, f] is the edge joining facets[brefdom.edges[m], f] (C11). *)
Theorem iso_facet_map_tet2 : facet_map_restricts_F_Q 3 tet2_phi tet2_psi tet2_facets.
Proof. exact (facet_sound_Q _ _ _ _ tet2_facet_map_is_restriction_of_F). Qed.
Print Assumptions iso_facet_map_tet2.
Theorem iso_normal_orthogonal_tet2 : normal_orthogonal_Q 3 (@iso_adj_3 poly PolyOps) tet2_dphi tet2_psi tet2_facets_n.
Proof. exact (normal_sound_Q _ _ _ _ _ tet2_normal_orthogonal_to_dG). Qed.
Print Assumptions iso_normal_orthogonal_tet2.
