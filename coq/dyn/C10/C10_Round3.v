(* C10 — field identities, dim 3: F/invF round trips, invA is the inverse of A *)
Require Import Dyn.C10_Tac.

Section S.
  Context {R : Type} {ops : FOps R}.
  Hypothesis Fth : field_theory f0 f1 fadd fmul fsub fopp fdiv finv (@eq R).
  Add Field Ffield10d : Fth.
  Open Scope F_scope.

  Lemma round_trip_3 (P : mat R) (x : vec R) : aff_detA_3 P <> 0 ->
    veq 3 (mapF 3 (aff_A_3 P) (aff_b_3 P) (mapInvF 3 (aff_invA_3 P) (aff_b_3 P) x)) x /\
    veq 3 (mapInvF 3 (aff_invA_3 P) (aff_b_3 P) (mapF 3 (aff_A_3 P) (aff_b_3 P) x)) x /\
    meq 3 (matmul 3 (aff_invA_3 P) (aff_A_3 P)) delta /\ meq 3 (matmul 3 (aff_A_3 P) (aff_invA_3 P)) delta.
  Proof.
    intros Hd. cbv [aff_detA_3] in Hd. repeat split.
    - intros i Hi; idx3 i; unf; field; exact Hd.
    - intros i Hi; idx3 i; unf; field; exact Hd.
    - intros i j Hi Hj; idx3 i; idx3 j; unf; field; exact Hd.
    - intros i j Hi Hj; idx3 i; idx3 j; unf; field; exact Hd.
  Qed.
End S.
