(* C10 — field identities, dims 1 and 2: round trips, inverse, normals *)
Require Import Dyn.C10_Tac.

Section S.
  Context {R : Type} {ops : FOps R}.
  Hypothesis Fth : field_theory f0 f1 fadd fmul fsub fopp fdiv finv (@eq R).
  Add Field Ffield10c : Fth.
  Open Scope F_scope.

  (* ---- F and invF are mutually inverse; invA is the inverse of A *)
  Lemma round_trip_1 (P : mat R) (x : vec R) : aff_detA_1 P <> 0 ->
    veq 1 (mapF 1 (aff_A_1 P) (aff_b_1 P) (mapInvF 1 (aff_invA_1 P) (aff_b_1 P) x)) x /\
    veq 1 (mapInvF 1 (aff_invA_1 P) (aff_b_1 P) (mapF 1 (aff_A_1 P) (aff_b_1 P) x)) x /\
    meq 1 (matmul 1 (aff_invA_1 P) (aff_A_1 P)) delta /\ meq 1 (matmul 1 (aff_A_1 P) (aff_invA_1 P)) delta.
  Proof.
    intros Hd. cbv [aff_detA_1] in Hd. repeat split.
    - intros i Hi; idx1 i; unf; field; exact Hd.
    - intros i Hi; idx1 i; unf; field; exact Hd.
    - intros i j Hi Hj; idx1 i; idx1 j; unf; field; exact Hd.
    - intros i j Hi Hj; idx1 i; idx1 j; unf; field; exact Hd.
  Qed.

  Lemma round_trip_2 (P : mat R) (x : vec R) : aff_detA_2 P <> 0 ->
    veq 2 (mapF 2 (aff_A_2 P) (aff_b_2 P) (mapInvF 2 (aff_invA_2 P) (aff_b_2 P) x)) x /\
    veq 2 (mapInvF 2 (aff_invA_2 P) (aff_b_2 P) (mapF 2 (aff_A_2 P) (aff_b_2 P) x)) x /\
    meq 2 (matmul 2 (aff_invA_2 P) (aff_A_2 P)) delta /\ meq 2 (matmul 2 (aff_A_2 P) (aff_invA_2 P)) delta.
  Proof.
    intros Hd. cbv [aff_detA_2] in Hd. repeat split.
    - intros i Hi; idx2 i; unf; field; exact Hd.
    - intros i Hi; idx2 i; unf; field; exact Hd.
    - intros i j Hi Hj; idx2 i; idx2 j; unf; field; exact Hd.
    - intros i j Hi Hj; idx2 i; idx2 j; unf; field; exact Hd.
  Qed.

  (* ---- normals: n_s = A^{-T} N_s (before normalisation) is orthogonal to every edge of facet s and
          n_s . (v_opposite - v_on) = -1 (outward); sum_s x_s . n_s = 1 (divergence identity, x_s any vertex of
          facet s); detB_s^2 = detA^2 |n_s|^2 (surface factor vs. normal length: |facet_s| = detB_s/(d-1)!, |K| = |detA|/d!) *)
  Lemma normals_2 (P : mat R) s : aff_detA_2 P <> 0 -> s < 3 ->
    let q := nth s ref_facets_tri [] in
    let n := normal_raw 2 (aff_invA_2 P) (aff_Nref_2 s) in
    vdot 2 n (vsub (P (nth 1 q 0%nat)) (P (nth 0 q 0%nat))) = 0 /\
    vdot 2 n (vsub (P (opposite 2 q)) (P (nth 0 q 0%nat))) = - (1) /\
    aff_detBsq_2 (sel P q) = aff_detA_2 P * aff_detA_2 P * vdot 2 n n.
  Proof.
    intros Hd Hs q n. subst q n. cbv [aff_detA_2] in Hd. idx3 s; cbv [ref_facets_tri]; repeat split; unf; field; exact Hd.
  Qed.

  Lemma normals_1 (P : mat R) s : aff_detA_1 P <> 0 -> s < 2 ->
    let q := nth s ref_facets_line [] in
    let n := normal_raw 1 (aff_invA_1 P) (aff_Nref_1 s) in
    vdot 1 n (vsub (P (opposite 1 q)) (P (nth 0 q 0%nat))) = - (1) /\
    aff_detBsq_1 (sel P q) = aff_detA_1 P * aff_detA_1 P * vdot 1 n n.
  Proof.
    intros Hd Hs q n. subst q n. cbv [aff_detA_1] in Hd. idx2 s; cbv [ref_facets_line]; repeat split; unf; field; exact Hd.
  Qed.
End S.
