(* C10 — field identities: 3-D normals, per-cell divergence identity (dims 1-3) *)
Require Import Dyn.C10_Tac.

Section S.
  Context {R : Type} {ops : FOps R}.
  Hypothesis Fth : field_theory f0 f1 fadd fmul fsub fopp fdiv finv (@eq R).
  Add Field Ffield10e : Fth.
  Open Scope F_scope.

  Lemma normals_3 (P : mat R) s : aff_detA_3 P <> 0 -> s < 4 ->
    let q := nth s ref_facets_tet [] in
    let n := normal_raw 3 (aff_invA_3 P) (aff_Nref_3 s) in
    vdot 3 n (vsub (P (nth 1 q 0%nat)) (P (nth 0 q 0%nat))) = 0 /\
    vdot 3 n (vsub (P (nth 2 q 0%nat)) (P (nth 0 q 0%nat))) = 0 /\
    vdot 3 n (vsub (P (opposite 3 q)) (P (nth 0 q 0%nat))) = - (1) /\
    aff_detBsq_3 (sel P q) = aff_detA_3 P * aff_detA_3 P * vdot 3 n n.
  Proof.
    intros Hd Hs q n. subst q n. cbv [aff_detA_3] in Hd. idx4 s; cbv [ref_facets_tet]; repeat split; unf; field; exact Hd.
  Qed.

  Lemma divergence_identity (P : mat R) :
    (aff_detA_1 P <> 0 ->
       fsum 2 (fun s => vdot 1 (P (nth 0 (nth s ref_facets_line []) 0%nat)) (normal_raw 1 (aff_invA_1 P) (aff_Nref_1 s))) = 1) /\
    (aff_detA_2 P <> 0 ->
       fsum 3 (fun s => vdot 2 (P (nth 0 (nth s ref_facets_tri []) 0%nat)) (normal_raw 2 (aff_invA_2 P) (aff_Nref_2 s))) = 1) /\
    (aff_detA_3 P <> 0 ->
       fsum 4 (fun s => vdot 3 (P (nth 0 (nth s ref_facets_tet []) 0%nat)) (normal_raw 3 (aff_invA_3 P) (aff_Nref_3 s))) = 1).
  Proof.
    split; [|split]; intros Hd; [cbv [aff_detA_1] in Hd | cbv [aff_detA_2] in Hd | cbv [aff_detA_3] in Hd];
      cbv [ref_facets_line ref_facets_tri ref_facets_tet]; unf; field; exact Hd.
  Qed.
End S.
