(* C10 — the 3-D facet map lands on the matching face, all 24 orderings of all 4 local facets *)
Require Import Dyn.C10_Tac.

Section S.
  Context {R : Type} {ops : FOps R}.
  Hypothesis Rth : ring_theory f0 f1 fadd fmul fsub fopp (@eq R).
  Add Ring Rring10b : Rth.
  Open Scope F_scope.

  Lemma facet_map_3 (P : mat R) (X : vec R) q : In q (orderings ref_facets_tet) ->
    let Y := mapG 3 (aff_B_3 (sel ref_p_tet q)) (aff_c_3 (sel ref_p_tet q)) X in
    veq 3 (mapG 3 (aff_B_3 (sel P q)) (aff_c_3 (sel P q)) X) (mapF 3 (aff_A_3 P) (aff_b_3 P) Y) /\
    bary 3 Y (opposite 3 q) = 0 /\ bary 3 Y (nth 0 q 0%nat) = 1 - (X 0%nat + X 1%nat) /\
    bary 3 Y (nth 1 q 0%nat) = X 0%nat /\ bary 3 Y (nth 2 q 0%nat) = X 1%nat.
  Proof.
    intros Hq Y. subst Y. cbv [orderings ref_facets_tet flat_map perms insert_all map app] in Hq.
    each_in Hq; (split; [intros i Hi; idx3 i; unf; ring | repeat split; unf; ring]).
  Qed.
End S.
