(* C10 — ring identities of the affine closed forms regenerated from mapping_affine.py (dims 1-3 except the 3-D facet map) *)
Require Import Dyn.C10_Tac.

Section S.
  Context {R : Type} {ops : FOps R}.
  Hypothesis Rth : ring_theory f0 f1 fadd fmul fsub fopp (@eq R).
  Add Ring Rring10a : Rth.
  Open Scope F_scope.

  (* ---- detA is the Leibniz determinant of A *)
  Lemma detA_leibniz (P : mat R) :
    aff_detA_1 P = leibniz 1 (aff_A_1 P) /\ aff_detA_2 P = leibniz 2 (aff_A_2 P) /\ aff_detA_3 P = leibniz 3 (aff_A_3 P).
  Proof. repeat split; lz; unf; ring. Qed.

  (* ---- F maps the reference vertices (refdom.py) to the cell's vertices; A is the derivative of F *)
  Lemma F_vertices_1 (P : mat R) k : k < 2 -> veq 1 (mapF 1 (aff_A_1 P) (aff_b_1 P) (ref_p_line k)) (P k).
  Proof. intros Hk i Hi. idx2 k; idx1 i; unf; ring. Qed.

  Lemma F_vertices_2 (P : mat R) k : k < 3 -> veq 2 (mapF 2 (aff_A_2 P) (aff_b_2 P) (ref_p_tri k)) (P k).
  Proof. intros Hk i Hi. idx3 k; idx2 i; unf; ring. Qed.

  Lemma F_vertices_3 (P : mat R) k : k < 4 -> veq 3 (mapF 3 (aff_A_3 P) (aff_b_3 P) (ref_p_tet k)) (P k).
  Proof. intros Hk i Hi. idx4 k; idx3 i; unf; ring. Qed.

  Lemma F_derivative (d : nat) (A : mat R) (b X H : vec R) i :
    d <= 3 -> mapF d A b (fun j => X j + H j) i - mapF d A b X i = fsum d (fun j => A i j * H j).
  Proof. intros Hd. destruct d as [|[|[|[|d]]]]; try lia; cbv [mapF fsum]; ring. Qed.

  (* ---- the facet map lands on the matching face: for EVERY ordering q of the vertices of EVERY local facet,
          G built from the facet's vertex table (sel P q) equals F at the reference point Y = G built from the
          reference vertices, the barycentric coordinate of Y w.r.t. the opposite vertex is 0 and the others are
          (1 - sum X, X_0, X_1, ...): Y is in the reference facet iff X is in the reference simplex *)
  Lemma facet_map_2 (P : mat R) (X : vec R) q : In q (orderings ref_facets_tri) ->
    let Y := mapG 2 (aff_B_2 (sel ref_p_tri q)) (aff_c_2 (sel ref_p_tri q)) X in
    veq 2 (mapG 2 (aff_B_2 (sel P q)) (aff_c_2 (sel P q)) X) (mapF 2 (aff_A_2 P) (aff_b_2 P) Y) /\
    bary 2 Y (opposite 2 q) = 0 /\ bary 2 Y (nth 0 q 0%nat) = 1 - X 0%nat /\ bary 2 Y (nth 1 q 0%nat) = X 0%nat.
  Proof.
    intros Hq Y. subst Y. cbv [orderings ref_facets_tri flat_map perms insert_all map app] in Hq.
    each_in Hq; (split; [intros i Hi; idx2 i; unf; ring | repeat split; unf; ring]).
  Qed.

  Lemma facet_map_1 (P : mat R) (X : vec R) q : In q (orderings ref_facets_line) ->
    let Y := mapG 1 (aff_B_1 (sel ref_p_line q)) (aff_c_1 (sel ref_p_line q)) X in
    veq 1 (mapG 1 (aff_B_1 (sel P q)) (aff_c_1 (sel P q)) X) (mapF 1 (aff_A_1 P) (aff_b_1 P) Y) /\
    bary 1 Y (opposite 1 q) = 0 /\ bary 1 Y (nth 0 q 0%nat) = 1.
  Proof.
    intros Hq Y. subst Y. cbv [orderings ref_facets_line flat_map perms insert_all map app] in Hq.
    each_in Hq; (split; [intros i Hi; idx1 i; unf; ring | repeat split; unf; ring]).
  Qed.

  (* ---- detB^2 is the Gram determinant of the facet's edge vectors *)
  Lemma detB_gram (Q : mat R) :
    let e1 := vsub (Q 1%nat) (Q 0%nat) in let e2 := vsub (Q 2%nat) (Q 0%nat) in
    aff_detBsq_1 Q = 1 /\ aff_detBsq_2 Q = vdot 2 e1 e1 /\
    aff_detBsq_3 Q = vdot 3 e1 e1 * vdot 3 e2 e2 - vdot 3 e1 e2 * vdot 3 e1 e2.
  Proof. intros e1 e2. subst e1 e2. repeat split; unf; ring. Qed.

  (* ---- the tables of MappingAffine.normals are those of refdom.py *)
  Lemma nref_is_refdom s j :
    aff_Nref_1 s j = ref_normals_line s j /\ aff_Nref_2 s j = ref_normals_tri s j /\ aff_Nref_3 s j = ref_normals_tet s j.
  Proof. repeat split; reflexivity. Qed.
End S.
