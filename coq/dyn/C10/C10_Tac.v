(* C10 — tactics shared by the Dyn.C10_* proof files (they mention the generated names, hence live in Dyn). *)
From Coq Require Export List Arith Lia Ring Field.
Export ListNotations.
Require Export Base.C20_Ring Model.C20_Tensor Model.C10_Map Gen.C10Gen.

Ltac idx1 i := destruct i as [|i]; [|exfalso; lia].
Ltac idx2 i := destruct i as [|[|i]]; [| |exfalso; lia].
Ltac idx3 i := destruct i as [|[|[|i]]]; [| | |exfalso; lia].
Ltac idx4 i := destruct i as [|[|[|[|i]]]]; [| | | |exfalso; lia].
Ltac lz := cbv [leibniz perms seq flat_map insert_all map app fold_right sgn inversions filter length
                Nat.ltb Nat.leb Nat.even Nat.add prod_diag].
Ltac unf := cbv [isoF isoJ p1_phi_1 p1_phi_2 p1_phi_3 p1_dphi_1 p1_dphi_2 p1_dphi_3
                 iso_detDF_1 iso_detDF_2 iso_detDF_3 iso_invDF_1 iso_invDF_2 iso_invDF_3 iso_detDGsq_2 iso_detDGsq_3
                 mapF mapInvF mapG normal_raw vdot vsub matmul sel bary fsum delta Nat.eqb Nat.sub nth
                 aff_A_1 aff_b_1 aff_detA_1 aff_invA_1 aff_B_1 aff_c_1 aff_detBsq_1
                 aff_A_2 aff_b_2 aff_detA_2 aff_invA_2 aff_B_2 aff_c_2 aff_detBsq_2
                 aff_A_3 aff_b_3 aff_detA_3 aff_invA_3 aff_B_3 aff_c_3 aff_detBsq_3
                 aff_Nref_1 aff_Nref_2 aff_Nref_3 ref_p_line ref_p_tri ref_p_tet
                 ref_normals_line ref_normals_tri ref_normals_tet opposite hd existsb negb orb filter seq].
(* all members of an explicit list *)
Ltac each_in H := repeat (destruct H as [H|H]; [subst|]); [..|contradiction].

