(* C02 — consequences of the generated reference elements (Gen.C02Elems: exact polynomials of the real lbasis,
   rational mass / stiffness literals checked by vm_compute) and of the regenerated default order. *)
From Coq Require Import List Arith ZArith QArith Qabs Bool Lia.
Require Import Base.Corr Base.C09_Poly Model.C08_Rules Model.C02_PolyInt Proofs.C02_PolyIntProofs.
Require Import Base.C02_Ops Model.C02_Integration Proofs.C02_IntegrationProofs Gen.C02Gen Gen.C02Elems Dyn.C02Tie.
Import ListNotations.

Lemma ref_mass_exact :
  Forall (fun e => qmat_eqb (mass_ref (re_shape e) (re_vals e)) (re_mass e) = true) ref_elements.
Proof.
  eapply Forall_impl; [|exact ref_elements_ok]. intros e H. exact (proj1 (refelem_mass_close _ e H)).
Qed.

Lemma assembled_ref_mass_close : forall e, In e ref_elements ->
  forall R tol, rule_okQ (re_shape e) R (gen_intorder None (re_maxdeg e)) tol ->
  forall a b, In a (re_vals e) -> In b (re_vals e) ->
    Qabs (qrule_int R (dim (re_shape e)) (pmul a b) - pint (re_shape e) (pmul a b)) <= l1 (pmul a b) * tol.
Proof.
  intros e He. pose proof (proj1 (Forall_forall _ _) ref_elements_ok e He) as H.
  exact (proj2 (refelem_mass_close _ e H)).
Qed.

Lemma default_order_covers_products a b m :
  (pdeg a <= m)%nat -> (pdeg b <= m)%nat -> (pdeg (pmul a b) <= gen_intorder None m)%nat.
Proof. intros Ha Hb. rewrite default_order_value. exact (product_degree a b m Ha Hb). Qed.

(* polynomial data of degree k given in physical coordinates, pulled back by an affine map F, times two shape
   functions of degree <= m: degree <= k + 2m on the reference cell *)
Lemma pullback_times_shape_functions F f a b k m :
  (forall j, (pdeg (F j) <= 1)%nat) -> (pdeg f <= k)%nat -> (pdeg a <= m)%nat -> (pdeg b <= m)%nat ->
  (pdeg (pmul (psubst F f) (pmul a b)) <= k + gen_intorder None m)%nat.
Proof.
  intros HF Hf Ha Hb. pose proof (pullback_degree F f HF). pose proof (default_order_covers_products a b m Ha Hb).
  pose proof (pdeg_pmul (psubst F f) (pmul a b)). lia.
Qed.

(* ---------- deepening round 3: load vectors, stiffness on general affine cells *)
Lemma assembled_ref_load_close : forall s n vals ms lits, In (s, n, vals, ms, lits) load_elements ->
  loads_eqb (map (load_ref s vals) ms) lits = true /\
  forall R tol, rule_okQ s R n tol -> forall m a, In m ms -> In a vals ->
    Qabs (qrule_int R (dim s) (pmul [(1, m)] a) - pint s (pmul [(1, m)] a)) <= l1 (pmul [(1, m)] a) * tol.
Proof.
  intros s n vals ms lits He. pose proof (proj1 (Forall_forall _ _) load_elements_ok _ He) as H.
  unfold load_elem_ok in H. apply andb_true_iff in H. destruct H as [H1 H2]. split; [exact H1|].
  intros R tol HR. exact (load_close s R n tol vals ms HR H2).
Qed.

Section AffineStiffness.
  Variable R : Type.
  Variable O : ops R.
  Hypothesis Rth : ring_theory (o0 O) (o1 O) (oadd O) (omul O) (osub O) (oopp O) (@eq R).
  (* one affine cell e, dx as written in CellBasis: the quadrature stiffness entry is |detA_e| times the contraction of
     the reference tensor sums with G = B B^T, B = inverse Jacobian (the generated invA, C02_invA_is_inverse) *)
  Theorem affine_stiffness_contraction (d : nat) (B gi gj : nat -> nat -> R) absf (detA : nat -> R) (W : nat -> R) (e nq : nat) :
    (d = 1 \/ d = 2 \/ d = 3)%nat ->
    rsum O (seq 0 nq) (fun q => omul O (gdot O d B gi gj q) (gen_cell_dx O absf (gen_detDF detA) W e q))
    = omul O (absf (detA e)) (rsum O (seq 0 d) (fun k => rsum O (seq 0 d) (fun l =>
        omul O (gramB O d B k l) (rsum O (seq 0 nq) (fun q => omul O (omul O (gi k q) (gj l q)) (W q)))))).
  Proof. intros Hd. exact (stiffness_contraction R O Rth d B gi gj (absf (detA e)) W nq Hd). Qed.
End AffineStiffness.
