(* C02 — consequences of the generated reference elements (Gen.C02Elems: exact polynomials of the real lbasis,
   rational mass / stiffness literals checked by vm_compute) and of the regenerated default order. *)
From Coq Require Import List Arith ZArith QArith Qabs Bool Lia.
Require Import Base.Corr Base.C09_Poly Model.C08_Rules Model.C02_PolyInt Proofs.C02_PolyIntProofs.
Require Import Gen.C02Gen Gen.C02Elems Dyn.C02Tie.
Import ListNotations.

Lemma ref_mass_exact :
  Forall (fun e => qmat_eqb (mass_ref (re_shape e) (re_vals e)) (re_mass e) = true) ref_elements.
Proof.
  eapply Forall_impl; [|exact ref_elements_ok]. intros e H. exact (proj1 (refelem_mass_close _ e H)).
Qed.

Lemma assembled_ref_mass_close : forall e, In e ref_elements ->
  forall R tol, rule_okQ (re_shape e) R (gen_intorder None (re_maxdeg e)) tol ->
  forall a b, In a (re_vals e) -> In b (re_vals e) ->
    Qabs (qrule_int R (dim (re_shape e)) (pmul a b) - pint (re_shape e) (pmul a b)) <= l1 (pmul a b) * tol.
Proof.
  intros e He. pose proof (proj1 (Forall_forall _ _) ref_elements_ok e He) as H.
  exact (proj2 (refelem_mass_close _ e H)).
Qed.

Lemma default_order_covers_products a b m :
  (pdeg a <= m)%nat -> (pdeg b <= m)%nat -> (pdeg (pmul a b) <= gen_intorder None m)%nat.
Proof. intros Ha Hb. rewrite default_order_value. exact (product_degree a b m Ha Hb). Qed.

(* polynomial data of degree k given in physical coordinates, pulled back by an affine map F, times two shape
   functions of degree <= m: degree <= k + 2m on the reference cell *)
Lemma pullback_times_shape_functions F f a b k m :
  (forall j, (pdeg (F j) <= 1)%nat) -> (pdeg f <= k)%nat -> (pdeg a <= m)%nat -> (pdeg b <= m)%nat ->
  (pdeg (pmul (psubst F f) (pmul a b)) <= k + gen_intorder None m)%nat.
Proof.
  intros HF Hf Ha Hb. pose proof (pullback_degree F f HF). pose proof (default_order_covers_products a b m Ha Hb).
  pose proof (pdeg_pmul (psubst F f) (pmul a b)). lia.
Qed.
