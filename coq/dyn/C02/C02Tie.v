(* C02 — facts about the terms REGENERATED from mapping_affine.py / cell_basis.py / facet_basis.py /
   abstract_basis.py (Gen.C02Gen), for every commutative ring (field for the inverse). *)
From Coq Require Import Arith List ZArith Ring Field Lia Bool.
Require Import Base.C02_Ops Model.C02_Integration Proofs.C02_IntegrationProofs Gen.C02Gen.
Import ListNotations.

Section RingFacts.
  Variable R : Type.
  Variable O : ops R.
  Hypothesis Rth : ring_theory (o0 O) (o1 O) (oadd O) (omul O) (osub O) (oopp O) (@eq R).
  Add Ring Rring2 : Rth.
  Local Notation "a + b" := (oadd O a b).
  Local Notation "a * b" := (omul O a b).
  Local Notation "a - b" := (osub O a b).
  Local Notation "- a" := (oopp O a).

  (* ---------- the generated determinants are the Leibniz determinants *)
  Definition signed (s : list nat) (x : R) : R := if is_even_perm s then x else - x.
  Fixpoint diag_prod (a : nat -> nat -> R) (i : nat) (s : list nat) : R :=
    match s with [] => o1 O | k :: s' => a i k * diag_prod a (S i) s' end.
  (* sum over all permutations s of 0..n-1 of sign(s) * prod_i a_{i, s(i)} *)
  Definition leibniz (n : nat) (a : nat -> nat -> R) : R :=
    rsum O (perms (seq 0 n)) (fun s => signed s (diag_prod a 0 s)).

  Lemma detA1_leibniz a : detA1 O (a 0 0) = leibniz 1 a.
  Proof. unfold detA1, leibniz, signed. cbn. ring. Qed.
  Lemma detA2_leibniz a : detA2 O (a 0 0) (a 0 1) (a 1 0) (a 1 1) = leibniz 2 a.
  Proof. unfold detA2, leibniz, signed. cbn. ring. Qed.
  Lemma detA3_leibniz a :
    detA3 O (a 0 0) (a 0 1) (a 0 2) (a 1 0) (a 1 1) (a 1 2) (a 2 0) (a 2 1) (a 2 2) = leibniz 3 a.
  Proof. unfold detA3, leibniz, signed. cbn. ring. Qed.

  (* the isoparametric mapping (quadrilaterals, hexahedra, prisms, curved cells) uses the same determinants
     of its point-wise Jacobian J *)
  Lemma iso_detDF_leibniz a :
    iso_detDF1 O (a 0 0) = leibniz 1 a /\
    iso_detDF2 O (a 0 0) (a 0 1) (a 1 0) (a 1 1) = leibniz 2 a /\
    iso_detDF3 O (a 0 0) (a 0 1) (a 0 2) (a 1 0) (a 1 1) (a 1 2) (a 2 0) (a 2 1) (a 2 2) = leibniz 3 a.
  Proof. unfold iso_detDF1, iso_detDF2, iso_detDF3, leibniz, signed. cbn. repeat split; ring. Qed.

  (* ---------- determinant of a simplex from its vertices: v i k = coordinate i of local vertex k *)
  Definition simplex_det1 (v : nat -> nat -> R) : R := detA1 O (gen_A O v 0 0).
  Definition simplex_det2 (v : nat -> nat -> R) : R :=
    detA2 O (gen_A O v 0 0) (gen_A O v 0 1) (gen_A O v 1 0) (gen_A O v 1 1).
  Definition simplex_det3 (v : nat -> nat -> R) : R :=
    detA3 O (gen_A O v 0 0) (gen_A O v 0 1) (gen_A O v 0 2) (gen_A O v 1 0) (gen_A O v 1 1) (gen_A O v 1 2)
            (gen_A O v 2 0) (gen_A O v 2 1) (gen_A O v 2 2).
  (* renumbering of the local vertices *)
  Definition vperm (s : list nat) (v : nat -> nat -> R) : nat -> nat -> R := fun i k => v i (nth k s 0).

  Ltac perm_cases :=
    cbn [perms flat_map inserts map app seq]; repeat (apply Forall_cons; [cbv [simplex_det1 simplex_det2 simplex_det3 vperm signed gen_A detA1 detA2 detA3 is_even_perm inv_count filter length Nat.ltb Nat.leb Nat.even Nat.add nth]; ring|]); apply Forall_nil.

  (* every one of the (d+1)! renumberings of the vertices changes the determinant by its sign only *)
  Theorem simplex_det1_perm v :
    Forall (fun s => simplex_det1 (vperm s v) = signed s (simplex_det1 v)) (perms (seq 0 2)).
  Proof. perm_cases. Qed.
  Theorem simplex_det2_perm v :
    Forall (fun s => simplex_det2 (vperm s v) = signed s (simplex_det2 v)) (perms (seq 0 3)).
  Proof. perm_cases. Qed.
  Theorem simplex_det3_perm v :
    Forall (fun s => simplex_det3 (vperm s v) = signed s (simplex_det3 v)) (perms (seq 0 4)).
  Proof. perm_cases. Qed.

  (* translation of the mesh *)
  Theorem simplex_det_translation v (c : nat -> R) :
    simplex_det1 (fun i k => v i k + c i) = simplex_det1 v /\
    simplex_det2 (fun i k => v i k + c i) = simplex_det2 v /\
    simplex_det3 (fun i k => v i k + c i) = simplex_det3 v.
  Proof. unfold simplex_det1, simplex_det2, simplex_det3, gen_A, detA1, detA2, detA3. repeat split; ring. Qed.

  (* a linear map Q multiplies the determinant by det Q (the generated determinant of Q): rigid motions keep |det| *)
  Theorem simplex_det2_linear v (q : nat -> nat -> R) :
    simplex_det2 (fun i k => q i 0 * v 0 k + q i 1 * v 1 k)
    = detA2 O (q 0 0) (q 0 1) (q 1 0) (q 1 1) * simplex_det2 v.
  Proof. unfold simplex_det2, gen_A, detA2. ring. Qed.
  Theorem simplex_det3_linear v (q : nat -> nat -> R) :
    simplex_det3 (fun i k => q i 0 * v 0 k + q i 1 * v 1 k + q i 2 * v 2 k)
    = detA3 O (q 0 0) (q 0 1) (q 0 2) (q 1 0) (q 1 1) (q 1 2) (q 2 0) (q 2 1) (q 2 2) * simplex_det3 v.
  Proof. unfold simplex_det3, gen_A, detA3. ring. Qed.

  (* ---------- facets: detB^2 is the Gram determinant of the edge vectors (Lagrange identity) *)
  Definition dot3 (x0 x1 x2 y0 y1 y2 : R) : R := x0 * y0 + x1 * y1 + x2 * y2.
  Theorem detB2_gram b00 b10 : detB2_sq O b00 b10 = b00 * b00 + b10 * b10.
  Proof. unfold detB2_sq. ring. Qed.
  Theorem detB3_gram b00 b01 b10 b11 b20 b21 :
    detB3_sq O b00 b01 b10 b11 b20 b21
    = dot3 b00 b10 b20 b00 b10 b20 * dot3 b01 b11 b21 b01 b11 b21
      - dot3 b00 b10 b20 b01 b11 b21 * dot3 b00 b10 b20 b01 b11 b21.
  Proof. unfold detB3_sq, dot3. ring. Qed.

  Theorem iso_detDG_gram b00 b01 b10 b11 b20 b21 :
    iso_detDG2_sq O b00 b10 = b00 * b00 + b10 * b10 /\
    iso_detDG3_sq O b00 b01 b10 b11 b20 b21
    = dot3 b00 b10 b20 b00 b10 b20 * dot3 b01 b11 b21 b01 b11 b21
      - dot3 b00 b10 b20 b01 b11 b21 * dot3 b00 b10 b20 b01 b11 b21.
  Proof. unfold iso_detDG2_sq, iso_detDG3_sq, dot3. split; ring. Qed.

  Definition facet_sq2 (v : nat -> nat -> R) : R := detB2_sq O (gen_B O v 0 0) (gen_B O v 1 0).
  Definition facet_sq3 (v : nat -> nat -> R) : R :=
    detB3_sq O (gen_B O v 0 0) (gen_B O v 0 1) (gen_B O v 1 0) (gen_B O v 1 1) (gen_B O v 2 0) (gen_B O v 2 1).

  Ltac fperm_cases :=
    cbn [perms flat_map inserts map app seq]; repeat (apply Forall_cons; [cbv [facet_sq2 facet_sq3 vperm gen_B detB2_sq detB3_sq Nat.add nth]; ring|]); apply Forall_nil.
  (* the facet measure does not depend on the numbering of the facet's vertices, nor on translation *)
  Theorem facet_sq2_perm v : Forall (fun s => facet_sq2 (vperm s v) = facet_sq2 v) (perms (seq 0 2)).
  Proof. fperm_cases. Qed.
  Theorem facet_sq3_perm v : Forall (fun s => facet_sq3 (vperm s v) = facet_sq3 v) (perms (seq 0 3)).
  Proof. fperm_cases. Qed.
  Theorem facet_sq_translation v (c : nat -> R) :
    facet_sq2 (fun i k => v i k + c i) = facet_sq2 v /\ facet_sq3 (fun i k => v i k + c i) = facet_sq3 v.
  Proof. unfold facet_sq2, facet_sq3, gen_B, detB2_sq, detB3_sq. split; ring. Qed.

  (* ---------- dx = |det| * W with the same determinant at every quadrature point *)
  Theorem cell_dx_is_affine absf (detA : nat -> R) W e q :
    gen_cell_dx O absf (gen_detDF detA) W e q = affine_dx O (fun e => absf (detA e)) W e q.
  Proof. reflexivity. Qed.
  Theorem facet_dx_is_affine absf (detB : nat -> R) W e q :
    gen_facet_dx O absf (gen_detDG detB) W e q = affine_dx O (fun e => absf (detB e)) W e q.
  Proof. reflexivity. Qed.

  (* hence: total dx of the cells = sum_e |detA_e| * sum_q W_q, and with a partition of unity the mass
     matrix entries add up to exactly that *)
  Theorem cell_measure absf (detA : nat -> R) W ne nq :
    measure O ne nq (gen_cell_dx O absf (gen_detDF detA) W)
    = rsum O (seq 0 ne) (fun e => absf (detA e) * rsum O (seq 0 nq) W).
  Proof. exact (affine_dx_total R O Rth (fun e => absf (detA e)) W ne nq). Qed.

  Theorem mass_sum_partition_of_unity nb ne nq phi absf (detA : nat -> R) W :
    (forall e q, e < ne -> q < nq -> rsum O (seq 0 nb) (fun i => phi i e q) = o1 O) ->
    mass_total O nb ne nq phi (gen_cell_dx O absf (gen_detDF detA) W)
    = rsum O (seq 0 ne) (fun e => absf (detA e) * rsum O (seq 0 nq) W).
  Proof. intros PU. exact (mass_sum_affine R O Rth nb ne nq phi (fun e => absf (detA e)) W PU). Qed.
End RingFacts.

Section FieldFacts.
  Variable R : Type.
  Variable O : ops R.
  Hypothesis Fth : field_theory (o0 O) (o1 O) (oadd O) (omul O) (osub O) (oopp O) (odiv O) (oinv O) (@eq R).
  Add Field Rfield : Fth.
  Local Notation "a + b" := (oadd O a b).
  Local Notation "a * b" := (omul O a b).

  Ltac fld H := field; let E := fresh "E" in intro E; apply H; rewrite <- E; ring.

  Theorem invA1_inverse a00 : detA1 O a00 <> o0 O ->
    invA1_00 O a00 (detA1 O a00) * a00 = o1 O.
  Proof. intros H. unfold invA1_00, detA1 in *. field. exact H. Qed.

  (* inv * A = I and A * inv = I, dimension 2 *)
  Theorem invA2_inverse a00 a01 a10 a11 : let d := detA2 O a00 a01 a10 a11 in d <> o0 O ->
    let i00 := invA2_00 O a00 a01 a10 a11 d in let i01 := invA2_01 O a00 a01 a10 a11 d in
    let i10 := invA2_10 O a00 a01 a10 a11 d in let i11 := invA2_11 O a00 a01 a10 a11 d in
    (i00 * a00 + i01 * a10 = o1 O /\ i00 * a01 + i01 * a11 = o0 O /\
     i10 * a00 + i11 * a10 = o0 O /\ i10 * a01 + i11 * a11 = o1 O) /\
    (a00 * i00 + a01 * i10 = o1 O /\ a00 * i01 + a01 * i11 = o0 O /\
     a10 * i00 + a11 * i10 = o0 O /\ a10 * i01 + a11 * i11 = o1 O).
  Proof.
    intros d H. unfold d in *. cbv zeta.
    unfold invA2_00, invA2_01, invA2_10, invA2_11, detA2 in *.
    repeat split; fld H.
  Qed.

  Definition inv3 (a : nat -> nat -> R) (d : R) (i j : nat) : R :=
    let f g := g O (a 0 0) (a 0 1) (a 0 2) (a 1 0) (a 1 1) (a 1 2) (a 2 0) (a 2 1) (a 2 2) d in
    match i, j with
    | 0, 0 => f (@invA3_00 R) | 0, 1 => f (@invA3_01 R) | 0, 2 => f (@invA3_02 R)
    | 1, 0 => f (@invA3_10 R) | 1, 1 => f (@invA3_11 R) | 1, 2 => f (@invA3_12 R)
    | 2, 0 => f (@invA3_20 R) | 2, 1 => f (@invA3_21 R) | _, _ => f (@invA3_22 R)
    end.
  Definition det3 (a : nat -> nat -> R) : R :=
    detA3 O (a 0 0) (a 0 1) (a 0 2) (a 1 0) (a 1 1) (a 1 2) (a 2 0) (a 2 1) (a 2 2).
  Definition delta (i k : nat) : R := if Nat.eqb i k then o1 O else o0 O.

  Theorem invA3_inverse a : det3 a <> o0 O -> forall i k, i < 3 -> k < 3 ->
    inv3 a (det3 a) i 0 * a 0 k + inv3 a (det3 a) i 1 * a 1 k + inv3 a (det3 a) i 2 * a 2 k = delta i k /\
    a i 0 * inv3 a (det3 a) 0 k + a i 1 * inv3 a (det3 a) 1 k + a i 2 * inv3 a (det3 a) 2 k = delta i k.
  Proof.
    intros H i k Hi Hk.
    destruct i as [|[|[|i]]]; try lia; destruct k as [|[|[|k]]]; try lia;
      unfold inv3, det3, delta, invA3_00, invA3_01, invA3_02, invA3_10, invA3_11, invA3_12,
             invA3_20, invA3_21, invA3_22, detA3 in *; cbn [Nat.eqb]; split; fld H.
  Qed.
End FieldFacts.

(* ---------- over Z: |det| itself is invariant (orientation and numbering do not matter) *)
Lemma Zth_ops : ring_theory (o0 Zops) (o1 Zops) (oadd Zops) (omul Zops) (osub Zops) (oopp Zops) (@eq Z).
Proof. exact Zth. Qed.

Theorem absdet_vertex_order_Z (v : nat -> nat -> Z) :
  Forall (fun s => Z.abs (simplex_det1 Z Zops (vperm Z s v)) = Z.abs (simplex_det1 Z Zops v)) (perms (seq 0 2)) /\
  Forall (fun s => Z.abs (simplex_det2 Z Zops (vperm Z s v)) = Z.abs (simplex_det2 Z Zops v)) (perms (seq 0 3)) /\
  Forall (fun s => Z.abs (simplex_det3 Z Zops (vperm Z s v)) = Z.abs (simplex_det3 Z Zops v)) (perms (seq 0 4)).
Proof.
  pose proof (simplex_det1_perm Z Zops Zth_ops v) as H1.
  pose proof (simplex_det2_perm Z Zops Zth_ops v) as H2.
  pose proof (simplex_det3_perm Z Zops Zth_ops v) as H3.
  repeat split.
  - eapply Forall_impl; [|exact H1]. intros s E. cbv beta in E. rewrite E. unfold signed.
    destruct (is_even_perm s); [reflexivity|apply Z.abs_opp].
  - eapply Forall_impl; [|exact H2]. intros s E. cbv beta in E. rewrite E. unfold signed.
    destruct (is_even_perm s); [reflexivity|apply Z.abs_opp].
  - eapply Forall_impl; [|exact H3]. intros s E. cbv beta in E. rewrite E. unfold signed.
    destruct (is_even_perm s); [reflexivity|apply Z.abs_opp].
Qed.

(* ---------- default integration order: covers the product of two shape functions of degree <= maxdeg *)
Theorem default_order_value maxdeg : gen_intorder None maxdeg = 2 * maxdeg.
Proof. reflexivity. Qed.
Theorem explicit_order_respected k maxdeg : gen_intorder (Some k) maxdeg = k.
Proof. reflexivity. Qed.
(* an explicitly given rule is the rule of the basis whatever intorder says (docstrings: intorder is "not used if
   quadrature is specified"); without one the table is asked for the order above *)
Theorem explicit_quadrature_wins (A : Type) (r : A) io maxdeg (table : nat -> A) :
  gen_rule_choice (Some r) io maxdeg table = r.
Proof. destruct io; reflexivity. Qed.
Theorem no_quadrature_uses_order (A : Type) io maxdeg (table : nat -> A) :
  gen_rule_choice None io maxdeg table = table (gen_intorder io maxdeg).
Proof. destruct io; reflexivity. Qed.

Theorem default_order_covers_mass (maxdeg : nat) (a b : list nat) :
  length a = length b -> list_sum a <= maxdeg -> list_sum b <= maxdeg ->
  list_sum (exp_add a b) <= gen_intorder None maxdeg.
Proof. intros Hl Ha Hb. rewrite exp_add_sum by exact Hl. rewrite default_order_value. lia. Qed.
