(* C03Tie — the definitions regenerated from the source (Gen.C03_Gen) satisfy the hypotheses of the
   orientation theorems of Proofs.C03_OrientProofs / the Piola identity of Proofs.C03_TraceProofs. *)
From Coq Require Import List Arith ZArith QArith Bool Lia Sorted Permutation.
Import ListNotations.
Require Import Model.C03_Orient Proofs.C03_OrientProofs Proofs.C03_TraceProofs Gen.C03_Gen.

Lemma tie_hcurl_ori : hcurl_ori_ok gen_hcurl_ori.
Proof. apply hcurl_ori_ok_intro. intros a b. unfold gen_hcurl_ori. ring. Qed.

Lemma tie_hdiv_ori : hdiv_ori_ok gen_hdiv_ori.
Proof. apply hdiv_ori_ok_intro. intros a b. unfold gen_hdiv_ori. ring. Qed.

Lemma tie_sorted_ori_plus (a b : Z) : (a < b)%Z -> gen_hcurl_ori a b = 1%Z.
Proof. intros H. unfold gen_hcurl_ori, b2z. destruct (Z.gtb_spec a b); lia. Qed.

(* MeshTri1 sorts every cell; the local facets of RefTri list their local vertices ascending *)
Lemma tie_tri_sorted : gen_sort_t_MeshTri1 = true.
Proof. reflexivity. Qed.

Lemma tie_tri_facets_ascending : table_ascending gen_RefTri_nnodes gen_RefTri_facets = true.
Proof. vm_compute. reflexivity. Qed.

Lemma tie_post_init_sorts : forall col, gen_post_init_column gen_sort_t_MeshTri1 col = sort_col col.
Proof. intros col. reflexivity. Qed.

(* Piola: the generated contravariant value, contracted with the covariantly mapped normal A^-T n *)
Lemma tie_piola_flux2 (A B : nat -> nat -> Q) (p n : nat -> Q) (s : Q) :
  B 0%nat 0%nat * A 0%nat 0%nat + B 0%nat 1%nat * A 1%nat 0%nat == 1 -> B 0%nat 0%nat * A 0%nat 1%nat + B 0%nat 1%nat * A 1%nat 1%nat == 0 ->
  B 1%nat 0%nat * A 0%nat 0%nat + B 1%nat 1%nat * A 1%nat 0%nat == 0 -> B 1%nat 0%nat * A 0%nat 1%nat + B 1%nat 1%nat * A 1%nat 1%nat == 1 ->
  gen_hdiv_value2 A p s 0%nat * (B 0%nat 0%nat * n 0%nat + B 1%nat 0%nat * n 1%nat) + gen_hdiv_value2 A p s 1%nat * (B 0%nat 1%nat * n 0%nat + B 1%nat 1%nat * n 1%nat)
  == s * (p 0%nat * n 0%nat + p 1%nat * n 1%nat).
Proof.
  intros H11 H12 H21 H22. unfold gen_hdiv_value2.
  rewrite <- (piola_flux_2d (A 0%nat 0%nat) (A 0%nat 1%nat) (A 1%nat 0%nat) (A 1%nat 1%nat) (B 0%nat 0%nat) (B 0%nat 1%nat) (B 1%nat 0%nat) (B 1%nat 1%nat) (p 0%nat) (p 1%nat) (n 0%nat) (n 1%nat) s H11 H12 H21 H22).
  ring.
Qed.

Lemma tie_piola_flux3 (A B : nat -> nat -> Q) (p n : nat -> Q) (s : Q) :
  B 0%nat 0%nat * A 0%nat 0%nat + B 0%nat 1%nat * A 1%nat 0%nat + B 0%nat 2%nat * A 2%nat 0%nat == 1 -> B 0%nat 0%nat * A 0%nat 1%nat + B 0%nat 1%nat * A 1%nat 1%nat + B 0%nat 2%nat * A 2%nat 1%nat == 0 -> B 0%nat 0%nat * A 0%nat 2%nat + B 0%nat 1%nat * A 1%nat 2%nat + B 0%nat 2%nat * A 2%nat 2%nat == 0 ->
  B 1%nat 0%nat * A 0%nat 0%nat + B 1%nat 1%nat * A 1%nat 0%nat + B 1%nat 2%nat * A 2%nat 0%nat == 0 -> B 1%nat 0%nat * A 0%nat 1%nat + B 1%nat 1%nat * A 1%nat 1%nat + B 1%nat 2%nat * A 2%nat 1%nat == 1 -> B 1%nat 0%nat * A 0%nat 2%nat + B 1%nat 1%nat * A 1%nat 2%nat + B 1%nat 2%nat * A 2%nat 2%nat == 0 ->
  B 2%nat 0%nat * A 0%nat 0%nat + B 2%nat 1%nat * A 1%nat 0%nat + B 2%nat 2%nat * A 2%nat 0%nat == 0 -> B 2%nat 0%nat * A 0%nat 1%nat + B 2%nat 1%nat * A 1%nat 1%nat + B 2%nat 2%nat * A 2%nat 1%nat == 0 -> B 2%nat 0%nat * A 0%nat 2%nat + B 2%nat 1%nat * A 1%nat 2%nat + B 2%nat 2%nat * A 2%nat 2%nat == 1 ->
  gen_hdiv_value3 A p s 0%nat * (B 0%nat 0%nat * n 0%nat + B 1%nat 0%nat * n 1%nat + B 2%nat 0%nat * n 2%nat)
  + gen_hdiv_value3 A p s 1%nat * (B 0%nat 1%nat * n 0%nat + B 1%nat 1%nat * n 1%nat + B 2%nat 1%nat * n 2%nat)
  + gen_hdiv_value3 A p s 2%nat * (B 0%nat 2%nat * n 0%nat + B 1%nat 2%nat * n 1%nat + B 2%nat 2%nat * n 2%nat)
  == s * (p 0%nat * n 0%nat + p 1%nat * n 1%nat + p 2%nat * n 2%nat).
Proof.
  intros H11 H12 H13 H21 H22 H23 H31 H32 H33. unfold gen_hdiv_value3.
  rewrite <- (piola_flux_3d (A 0%nat 0%nat) (A 0%nat 1%nat) (A 0%nat 2%nat) (A 1%nat 0%nat) (A 1%nat 1%nat) (A 1%nat 2%nat) (A 2%nat 0%nat) (A 2%nat 1%nat) (A 2%nat 2%nat)
                           (B 0%nat 0%nat) (B 0%nat 1%nat) (B 0%nat 2%nat) (B 1%nat 0%nat) (B 1%nat 1%nat) (B 1%nat 2%nat) (B 2%nat 0%nat) (B 2%nat 1%nat) (B 2%nat 2%nat)
                           (p 0%nat) (p 1%nat) (p 2%nat) (n 0%nat) (n 1%nat) (n 2%nat) s H11 H12 H13 H21 H22 H23 H31 H32 H33).
  ring.
Qed.
