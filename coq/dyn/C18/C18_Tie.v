(* C18 tie lemmas: the definitions regenerated from the source are the hand-written model; determinant identities
   and finite facts about the regenerated child templates and reference-cell coordinates. *)
From Coq Require Import List Arith Bool ZArith Lia.
Import ListNotations.
Require Import Model.C18_Surgery Proofs.C18_SurgeryProofs Proofs.C18_TilingProofs Gen.C18Gen.

Lemma gen_reix_uniq_is_model : forall ix, gen_reix_uniq ix = reix_uniq ix.
Proof. reflexivity. Qed.
Lemma gen_reix_table_is_model : forall ix, gen_reix_table ix = reix_table ix.
Proof. intros ix. unfold gen_reix_table, reix_table, gen_reix_uniq, reix_uniq. rewrite Nat.add_1_r. reflexivity. Qed.
Lemma gen_reix_t_is_model : forall ix, gen_reix_t ix = reix_t ix.
Proof. intros ix. unfold gen_reix_t, reix_t. rewrite gen_reix_table_is_model. reflexivity. Qed.
Lemma gen_reix_p_is_model : forall P (d : P) p ix, gen_reix_p d p ix = reix_p d p ix.
Proof. reflexivity. Qed.
Lemma gen_restrict_subdomain_is_model : forall nt elements sub,
  gen_restrict_subdomain nt elements sub = restrict_subdomain nt elements sub.
Proof. reflexivity. Qed.
Lemma gen_restrict_boundary_is_model : forall nf t2f elements b,
  gen_restrict_boundary nf t2f elements b = restrict_boundary nf t2f elements b.
Proof. reflexivity. Qed.

Lemma gen_dedupe_is_model : forall p t, gen_dedupe_p p = dedupe_p p /\ gen_dedupe_t p t = dedupe_t p t.
Proof. intros; split; reflexivity. Qed.
Lemma gen_join_is_model : forall p1 p2 t1 t2, gen_join_p p1 p2 = join_p p1 p2 /\ gen_join_t p1 p2 t1 t2 = join_t p1 p2 t1 t2.
Proof. intros; split; reflexivity. Qed.
Lemma gen_carry_boundary_is_model : forall nv OF NF b, gen_carry_boundary nv OF NF b = lookup_boundary nv OF NF b.
Proof. reflexivity. Qed.

Lemma gen_remap_is_model : forall canon nslots newp F F' t2f' f2t0 f npts t t',
  gen_remap_newf canon nslots newp F F' t2f' f2t0 f = newf canon nslots newp F F' t2f' f2t0 f /\
  gen_remap_newp npts t t' = remap_newp npts t t'.
Proof. intros; split; reflexivity. Qed.
(* the coordinate functions of morphed see the ORIGINAL point array *)
Lemma gen_morphed_is_model : forall R (p : list R) args, gen_morphed_rows p args = morphed_rows p args.
Proof. reflexivity. Qed.
Lemma gen_oriented_trace_is_model : forall flip t F facets,
  gen_oriented_t flip t = swap_rows01 flip t /\ gen_trace_ix F facets = take_cols 0 F facets.
Proof. intros; split; reflexivity. Qed.

(* every mesh of m0 @ [m1, m2, ...] is shifted by the number of points of ALL meshes before it *)
Lemma gen_matmul_offset_is_model : forall lens j, gen_matmul_offset lens j = matmul_offset lens j.
Proof. reflexivity. Qed.
(* the centre nodes of to_meshtri(style='x') are numbered from the number of points *)
Lemma gen_quad_x_base_is_npts : forall npts maxt1, gen_quad_x_base npts maxt1 = npts.
Proof. reflexivity. Qed.

Lemma gen_extrude_is_model : forall nv iscell t pz t0 t1,
  gen_extrude_t nv iscell t = extrude_cells_t nv (cell_levels iscell) t /\
  gen_line_levels pz t0 t1 = line_levels pz t0 t1 /\ gen_line_iscell pz t0 t1 = line_iscell pz t0 t1.
Proof. intros; repeat split. Qed.

(* the lookup keys of to_meshtri are computed in 64-bit integers *)
Lemma gen_key_bits_is_64 : gen_key_bits = 64.
Proof. reflexivity. Qed.

(* each option of restrict guards its own kind of tags *)
Lemma gen_restrict_guards : forall sb ss,
  gen_restrict_keeps_subdomains sb ss = negb ss /\ gen_restrict_keeps_boundaries sb ss = negb sb.
Proof. intros; split; reflexivity. Qed.

(* ---- quadrilateral -> 2 triangles: the children's signed areas add up to the parent's, for EVERY quadrilateral *)
Lemma quad_split_area : forall v0 v1 v2 v3 : pt2,
  let P := [v0; v1; v2; v3] in
  zsum (map (tri_det P) gen_quad_split) = shoelace4 P.
Proof.
  intros [x0 y0] [x1 y1] [x2 y2] [x3 y3] P. unfold P, gen_quad_split.
  cbv [zsum map fold_right tri_det shoelace4 det2 sub2 nth fst snd]. ring.
Qed.

(* ---- quadrilateral -> 4 triangles around the centre node (style 'x'): with the points scaled by 4 so that the
   centre 4c = v0+v1+v2+v3 is integral; child j has the fixed orientation sign it has in the unit square *)
Definition unit_square4 : list pt2 := [(0, 0); (4, 0); (4, 4); (0, 4); (2, 2)]%Z.
Lemma quad_split_x_area : forall v0 v1 v2 v3 : pt2,
  let s (v : pt2) := (4 * fst v, 4 * snd v)%Z in
  let c := (fst v0 + fst v1 + fst v2 + fst v3, snd v0 + snd v1 + snd v2 + snd v3)%Z in
  let P := [s v0; s v1; s v2; s v3; c] in
  zsum (map (fun T => Z.mul (Z.sgn (tri_det unit_square4 (T ++ [4]))) (tri_det P (T ++ [4]))) gen_quad_split_x)
  = shoelace4 P.
Proof.
  intros [x0 y0] [x1 y1] [x2 y2] [x3 y3] s c P. unfold P, c, s, gen_quad_split_x.
  cbv [zsum map fold_right app].
  repeat match goal with
         | |- context [Z.sgn (tri_det unit_square4 ?T)] =>
           let v := eval vm_compute in (Z.sgn (tri_det unit_square4 T)) in
           change (Z.sgn (tri_det unit_square4 T)) with v
         end.
  cbv [tri_det shoelace4 det2 sub2 nth fst snd]. ring.
Qed.
Lemma quad_split_x_signs : forallb (fun T => negb (Z.eqb (tri_det unit_square4 (T ++ [4])) 0)) gen_quad_split_x = true
                           /\ length gen_quad_split_x = 4 /\ length gen_quad_split = 2.
Proof. vm_compute. repeat split. Qed.

(* the subdomain offsets v, v + nt, v + 2 nt, ... enumerate exactly the children *)
Lemma quad_sub_offsets_are_children :
  gen_quad_sub_offsets = seq 0 (length gen_quad_split) /\ gen_quad_sub_offsets_x = seq 0 (length gen_quad_split_x).
Proof. split; reflexivity. Qed.

(* ---- hexahedron -> 6 tetrahedra, prism -> 3 tetrahedra: template shape and reference determinants (finite) *)
Lemma hex_split_wellformed :
  forallb (fun T => (length T =? 4) && forallb (fun r => r <? length gen_refhex_p) T) gen_hex_split = true /\
  forallb (fun T => Z.eqb (Z.abs (tet_det gen_refhex_p T)) 1) gen_hex_split = true /\
  length gen_hex_split = 6 /\ length gen_refhex_p = 8.
Proof. vm_compute. repeat split. Qed.

Lemma wedge_split_wellformed :
  forallb (fun T => (length T =? 4) && forallb (fun r => r <? length gen_refwedge_p) T) gen_wedge_split = true /\
  forallb (fun T => Z.eqb (Z.abs (tet_det gen_refwedge_p T)) 1) gen_wedge_split = true /\
  length gen_wedge_split = 3 /\ length gen_refwedge_p = 6.
Proof. vm_compute. repeat split. Qed.

(* the regenerated templates and reference coordinates ARE the literals of Proofs.C18_TilingProofs *)
Lemma tet_split_literals :
  gen_hex_split = hex_split_lit /\ gen_refhex_p = refhex_lit /\ gen_wedge_split = wedge_split_lit /\ gen_refwedge_p = refwedge_lit /\
  gen_quad_split = [[0; 1; 3]; [1; 2; 3]].
Proof. repeat split; reflexivity. Qed.
