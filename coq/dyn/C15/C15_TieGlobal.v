(* Tie: the guard of ElementGlobal.gbasis distinguishes the meshes for which the inverse Vandermonde matrix is computed. *)
From Coq Require Import List Bool Arith ZArith.
Import ListNotations.
Require Import Base.Corr Base.C15_Memo Model.C15_Caches Gen.C15GenGlobal.

Lemma global_key_determines_mesh : forall m m' : nat, gen_global_key m = gen_global_key m' -> m = m'.
Proof.
  intros m m' H. unfold gen_global_key in H. inversion H; subst. reflexivity.
Qed.
