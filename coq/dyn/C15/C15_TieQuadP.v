(* Tie: what the guard of ElementQuadP.lbasis compares determines what the Legendre tables are computed from. *)
From Coq Require Import List Bool Arith ZArith.
Import ListNotations.
Require Import Base.Corr Base.C15_Memo Model.C15_Caches Gen.C15GenQuadP.

Lemma quadp_key_determines_tables : forall X Y : farr, gen_quadp_key X = gen_quadp_key Y -> gen_quadp_dep X = gen_quadp_dep Y.
Proof.
  intros [s v] [s' v'] H. unfold gen_quadp_key in H. simpl in H. inversion H; subst. reflexivity.
Qed.
