(* Tie: the closures returned by the solver factories never write the dictionary they captured, hence (Proofs)
   every call of every history behaves like the first call of a fresh closure; and what reaches the backend is
   "factory kwargs overridden by the call's kwargs" (+ the literal callback entry / the default preconditioner). *)
From Coq Require Import List Bool Arith ZArith.
Import ListNotations.
Require Import Base.Corr Base.C15_Memo Model.C15_Caches Proofs.C15_CachesProofs.
Require Import Gen.C15GenSolver_eigen_scipy Gen.C15GenSolver_eigen_scipy_sym Gen.C15GenSolver_direct_scipy
               Gen.C15GenSolver_iter_krylov Gen.C15GenSolver_iter_cg.
Require Import Gen.C15GenSolverPure_eigen_scipy Gen.C15GenSolverPure_eigen_scipy_sym Gen.C15GenSolverPure_direct_scipy
               Gen.C15GenSolverPure_iter_krylov Gen.C15GenSolverPure_iter_cg.

Definition fresh (dflt : nat -> Z) (p : prog) (cap : dict) (c : dict * nat) : dict := snd (exec dflt (fst c) (snd c) p cap).

Lemma solver_history_independent : forall p, prog_pure p = true ->
  forall dflt cap h, run_closure dflt p cap h = map (fresh dflt p cap) h.
Proof.
  intros p Hp dflt cap h. apply closure_history_independent. intros. now apply pure_preserves_captured.
Qed.

Lemma eigen_scipy_hi : forall dflt cap h, run_closure dflt gen_prog_eigen_scipy cap h = map (fresh dflt gen_prog_eigen_scipy cap) h.
Proof. apply solver_history_independent. exact gen_prog_eigen_scipy_never_writes_captured. Qed.
Lemma eigen_scipy_sym_hi : forall dflt cap h, run_closure dflt gen_prog_eigen_scipy_sym cap h = map (fresh dflt gen_prog_eigen_scipy_sym cap) h.
Proof. apply solver_history_independent. exact gen_prog_eigen_scipy_sym_never_writes_captured. Qed.
Lemma direct_scipy_hi : forall dflt cap h, run_closure dflt gen_prog_direct_scipy cap h = map (fresh dflt gen_prog_direct_scipy cap) h.
Proof. apply solver_history_independent. exact gen_prog_direct_scipy_never_writes_captured. Qed.
Lemma iter_krylov_hi : forall dflt cap h, run_closure dflt gen_prog_iter_krylov cap h = map (fresh dflt gen_prog_iter_krylov cap) h.
Proof. apply solver_history_independent. exact gen_prog_iter_krylov_never_writes_captured. Qed.
Lemma iter_cg_hi : forall dflt cap h, run_closure dflt gen_prog_iter_cg cap h = map (fresh dflt gen_prog_iter_cg cap) h.
Proof. apply solver_history_independent. exact gen_prog_iter_cg_never_writes_captured. Qed.

(* the options the backend receives on a call with solve-time kwargs stk *)
Lemma eigen_scipy_options : forall dflt stk A cap, snd (exec dflt stk A gen_prog_eigen_scipy cap) = dmerge cap stk.
Proof. reflexivity. Qed.
Lemma eigen_scipy_sym_options : forall dflt stk A cap, snd (exec dflt stk A gen_prog_eigen_scipy_sym cap) = dmerge cap stk.
Proof. reflexivity. Qed.
Lemma direct_scipy_options : forall dflt stk A cap, snd (exec dflt stk A gen_prog_direct_scipy cap) = dmerge cap stk.
Proof. reflexivity. Qed.
Lemma iter_cg_options : forall dflt stk A cap, snd (exec dflt stk A gen_prog_iter_cg cap) = dmerge cap stk.
Proof. reflexivity. Qed.
Lemma iter_krylov_options : forall dflt stk A cap,
    snd (exec dflt stk A gen_prog_iter_krylov cap) = dmerge [(0, (-1)%Z)] (with_default dflt A 1 (dmerge cap stk)).
Proof. reflexivity. Qed.
