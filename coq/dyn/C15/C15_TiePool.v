(* The pool theorem instantiated with the keys and dependencies regenerated from the source. *)
From Coq Require Import List Bool Arith ZArith.
Import ListNotations.
Require Import Base.Corr Base.C15_Memo Model.C15_Caches Proofs.C15_CachesProofs.
Require Import Gen.C15GenHash Gen.C15GenJ Gen.C15GenLinePp Gen.C15GenQuadP Gen.C15GenGlobal.
Require Import Dyn.C15_TieHash Dyn.C15_TieJ Dyn.C15_TieLinePp Dyn.C15_TieQuadP Dyn.C15_TieGlobal.

Definition gen_pool_key := pool_key gen_linepp_key gen_quadp_key gen_global_key gen_J_key.
Definition gen_pool_dep := pool_dep gen_linepp_dep gen_quadp_dep gen_J_dep.
Definition gen_pool_evict {V : Type} := @pool_evict gen_linepp_key gen_quadp_key gen_global_key gen_J_key V.

Lemma gen_pool_history_independent : forall (V : Type) (F : deps -> V) (h : list op),
    results keys_eqb gen_pool_key (fun o => F (gen_pool_dep o)) gen_pool_evict h = map (fun o => F (gen_pool_dep o)) h.
Proof.
  intros V F h.
  exact (pool_history_independent gen_linepp_dep gen_quadp_dep gen_linepp_key gen_quadp_key gen_global_key gen_J_key gen_J_dep
           linepp_key_determines_tables quadp_key_determines_tables global_key_determines_mesh
           (J_key_determines_compute_args hash_key_determines_array) V F h).
Qed.

(* the J cache as the code has it — keys hashed part by part — is transparent on every history on which
   Python's hash does not collide *)
Lemma gen_J_cache_transparent_modulo_hash : forall (V : Type) (hash : key -> Z) (F : list jarg -> V) (h : list jargs),
    (forall a b p q, In a h -> In b h -> In p (gen_J_key a) -> In q (gen_J_key b) -> hash p = hash q -> p = q) ->
    results zs_eqb (hkey jargs hash gen_J_key) (fun a => F (gen_J_dep a)) keep_all h = map (fun a => F (gen_J_dep a)) h.
Proof.
  intros V hash F h Hcol. apply hashed_transparent_on; [intros; apply keep_all_incl | exact Hcol |].
  intros a b Hab. f_equal. exact (J_key_determines_compute_args hash_key_determines_array a b Hab).
Qed.
