(* Tie: what the guard of ElementLinePp.lbasis compares determines what the Legendre tables are computed from. *)
From Coq Require Import List Bool Arith ZArith.
Import ListNotations.
Require Import Base.Corr Base.C15_Memo Model.C15_Caches Gen.C15GenLinePp.

Lemma linepp_key_determines_tables : forall X Y : farr, gen_linepp_key X = gen_linepp_key Y -> gen_linepp_dep X = gen_linepp_dep Y.
Proof.
  intros [s v] [s' v'] H. unfold gen_linepp_key in H. simpl in H. inversion H; subst. reflexivity.
Qed.
