(* Tie: the part of an ndarray that generic_utils.hash_args hashes determines the array (shape, dtype, bytes). *)
From Coq Require Import List Bool Arith ZArith.
Import ListNotations.
Require Import Base.Corr Base.C15_Memo Model.C15_Caches Gen.C15GenHash.

Lemma hash_key_determines_array : forall a b : arr, gen_hash_pre a = gen_hash_pre b -> a = b.
Proof.
  intros [s d y] [s' d' y'] H. unfold gen_hash_pre in H. simpl in H. inversion H; subst. reflexivity.
Qed.
