(* Tie (finite, exhaustive over the generated table): every lazily initialised attribute is written only by its
   guarded initialiser, which sets both the tested and the returned attribute, takes no argument besides self and
   reads nothing of self that is reassigned after construction. *)
From Coq Require Import List Bool Arith ZArith.
Import ListNotations.
Require Import Base.Corr Base.C15_Memo Model.C15_Caches Proofs.C15_CachesProofs Gen.C15GenLazy.

Lemma lazy_table_ok : forallb lazy_ok gen_lazy = true.
Proof. vm_compute. reflexivity. Qed.

Lemma lazy_attributes_wellformed : forall l, In l gen_lazy ->
    In (l_guard l) (l_stored l) /\ In (l_ret l) (l_stored l) /\ l_other_writers l = 0
    /\ l_uses_args l = false /\ l_reads_mutable l = false.
Proof.
  intros l Hl. apply lazy_ok_spec. pose proof lazy_table_ok as H. rewrite forallb_forall in H. now apply H.
Qed.
