(* Tie: the key of the Jacobian cache of MappingIsoparametric.J covers every argument handed to _J
   (given that the hashed part of an array determines the array — Dyn.C15_TieHash). *)
From Coq Require Import List Bool Arith ZArith.
Import ListNotations.
Require Import Base.Corr Base.C15_Memo Model.C15_Caches Proofs.C15_CachesProofs Gen.C15GenHash Gen.C15GenJ.

Lemma hash_arg_inj : (forall a b : arr, gen_hash_pre a = gen_hash_pre b -> a = b) ->
  forall x y : jarg, gen_hash_arg x = gen_hash_arg y -> x = y.
Proof.
  intros Hp [n|a|] [m|b|] H; simpl in H; try reflexivity;
    try (f_equal; apply Hp; exact H);
    try (destruct a as [s d y]; unfold gen_hash_pre in H; simpl in H; discriminate);
    try (destruct b as [s d y]; unfold gen_hash_pre in H; simpl in H; discriminate);
    try discriminate.
  inversion H. reflexivity.
Qed.

Lemma J_key_determines_compute_args : (forall a b : arr, gen_hash_pre a = gen_hash_pre b -> a = b) ->
  forall a b : jargs, gen_J_key a = gen_J_key b -> gen_J_dep a = gen_J_dep b.
Proof.
  intros Hp a b H. unfold gen_J_key, gen_J_dep in *.
  apply (J_tie_generic gen_hash_arg gen_J_key_pos gen_J_dep_pos (hash_arg_inj Hp)); [reflexivity | exact H].
Qed.
