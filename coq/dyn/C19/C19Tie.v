(* C19 tie lemmas: what vlib/c19_translate.py read in coo_data.py / element_vector.py / utils.py / assembly/__init__.py
   IS the model of Model.C19_Blocks, and the theorems of Proofs.C19_BlocksProofs transported to the regenerated
   definitions (together with the regenerated assembler of C01). *)
From Coq Require Import List Arith Bool Lia Ring_theory.
Import ListNotations.
Require Import Base.C01_Sums Model.C01_Assembly Proofs.C01_AssemblyProofs Model.C19_Blocks Proofs.C19_BlocksProofs.
Require Import Gen.C01Gen Dyn.C01Tie Gen.C19Gen.

(* ---------- ElementVector ---------- *)
Lemma gen_vector_decode_is_model dim i : 0 < dim -> gen_vector_decode dim i = vector_decode dim i.
Proof.
  intros Hd. first [ reflexivity
                   | unfold gen_vector_decode, vector_decode; cbv zeta; f_equal; rewrite ?Nat.mod_eq by lia; lia ].
Qed.

Theorem gen_vector_decode_spec dim i : 0 < dim ->
  let '(ind, n) := gen_vector_decode dim i in ind = i / dim /\ n = i mod dim /\ n < dim /\ vector_encode dim (ind, n) = i.
Proof. intros Hd. rewrite gen_vector_decode_is_model by assumption. now apply vector_decode_spec. Qed.

Theorem gen_vector_encode_decode dim ind n : n < dim -> gen_vector_decode dim (vector_encode dim (ind, n)) = (ind, n).
Proof. intros Hn. rewrite gen_vector_decode_is_model by lia. now apply vector_encode_decode. Qed.

Theorem gen_vector_decode_range dim Nb i : 0 < dim -> (i < Nb * dim <-> fst (gen_vector_decode dim i) < Nb).
Proof. intros Hd. rewrite gen_vector_decode_is_model by assumption. now apply vector_decode_range. Qed.

Section Transport.
  Variable R : Type.
  Variables (rO rI : R) (radd rmul rsub : R -> R -> R) (ropp : R -> R).
  Variable Rth : ring_theory rO rI radd rmul rsub ropp (@eq R).
  Variable V W : Type.
  Notation basis := (basis R V).

  (* ---------- COOData.__add__, asm over lists ---------- *)
  Lemma gen_coo_add_is_model (a b : coo R) : gen_coo_add R a b = coo_add R a b.
  Proof. reflexivity. Qed.

  Theorem gen_coo_add_dense (a b : coo R) nr nc A B :
    c_shape a = [nr; nc] -> c_shape b = [nr; nc] -> length (c_indices a) = 2 -> length (c_indices b) = 2 ->
    gen_to_dense2 R rO radd a = Some A -> gen_to_dense2 R rO radd b = Some B ->
    exists C, gen_to_dense2 R rO radd (gen_coo_add R a b) = Some C /\
      forall r c, r < nr -> c < nc -> nth c (nth r C []) rO = radd (nth c (nth r A []) rO) (nth c (nth r B []) rO).
  Proof.
    intros Sa Sb La Lb EA EB. rewrite gen_to_dense2_is_model in *. rewrite gen_coo_add_is_model.
    destruct (coo_add_dense R rO rI radd rmul rsub ropp Rth a b nr nc A B Sa Sb La Lb EA EB) as [C [EC [_ [_ HC]]]].
    exists C. split; assumption.
  Qed.

  Theorem gen_coo_sum_dense nr nc (l : list (coo R)) (c0 : coo R) :
    good R rO radd nr nc c0 -> Forall (good R rO radd nr nc) l ->
    exists s, gen_coo_sum R (c0 :: l) = Some s /\ good R rO radd nr nc s /\
      forall r c, r < nr -> c < nc ->
        dentry R rO radd s r c = radd (dentry R rO radd c0 r c) (sum_over rO radd l (fun x => dentry R rO radd x r c)).
  Proof.
    intros G0 Gl. eexists. split; [reflexivity|].
    assert (E : fold_left (gen_coo_add R) l c0 = fold_left (coo_add R) l c0) by reflexivity.
    rewrite E. exact (coo_sum_dense R rO rI radd rmul rsub ropp Rth nr nc l c0 G0 Gl).
  Qed.

  (* ---------- local matrices: tolocal c [e][i][j] = K j i e (row = test function), fromlocal (tolocal c) = c ---------- *)
  Theorem gen_tolocal_spec form w (ub : basis) (vb0 : option basis) :
    let vb := match vb0 with None => ub | Some b => b end in
    let Nu := bNbfun ub in let Nv := bNbfun vb in let nt := bnelems ub in
    wf_basis ub -> wf_basis vb -> bnelems vb = bnelems ub -> bnq vb = bnq ub -> 0 < Nu * Nv ->
    exists c L,
      gen_bilinear_assemble R rO radd rmul V W form w ub vb0 = Some c /\
      gen_tolocal R rO (c_data c) (c_local c) = Some L /\ length L = nt /\
      forall e i j, e < nt -> i < Nv -> j < Nu -> loc3 R rO L e i j = Kjie R rO radd rmul V W form w ub vb j i e.
  Proof.
    intros vb Nu Nv nt Hu Hv Hnt Hnq Hm.
    destruct (bilinear_assemble_entries R rO radd rmul V W form w ub vb0 Hu Hv Hnt Hnq)
      as [rows [cols [data [E [_ [_ [Ld Hent]]]]]]].
    rewrite <- gen_bilinear_is_model in E.
    destruct (tolocal_F_entries R rO data (bNbfun ub) (bNbfun vb) (bnelems ub)
                (fun j i e => Kjie R rO radd rmul V W form w ub vb j i e) Ld Hm) as [L [EL [LL HL]]].
    { intros j i e Hj Hi He. now destruct (Hent j i e Hj Hi He) as [_ [_ H]]. }
    eexists. exists L. split; [exact E|]. cbn [c_data c_local]. split; [exact EL|]. split; [exact LL | exact HL].
  Qed.

  Theorem gen_fromlocal_tolocal (data : list R) n0 n1 L : 0 < n0 * n1 ->
    gen_tolocal R rO data [n0; n1] = Some L -> gen_fromlocal R rO L (length data / (n0 * n1)) n0 n1 = data.
  Proof.
    first [ exact (fromlocal_tolocal_F R rO data n0 n1 L) | exact (fromlocal_tolocal_Cmove R rO data n0 n1 L) ].
  Qed.

  (* ---------- dot ---------- *)
  (* rectangular statement: data of shape (nr, nc), x of length nc; the number of entries of the result is what the source
     allocates (gen_dot_rows: len(x) with zeros_like(x) - then nr = nc is forced - or shape[0]) *)
  Theorem gen_coo_dot_spec (c : coo R) (x : list R) nr nc A z :
    c_shape c = [nr; nc] -> length x = nc -> gen_dot_rows R c x = nr ->
    gen_to_dense2 R rO radd c = Some A -> gen_coo_dot R rO radd rmul c x [] = Some z ->
    z = matvec R rO radd rmul A x.
  Proof.
    intros Sc Lx Hr EA Ez. rewrite gen_to_dense2_is_model in EA. unfold gen_coo_dot in Ez. rewrite Hr in Ez.
    exact (coo_dot_n_spec R rO rI radd rmul rsub ropp Rth c x nr nc A z Sc Lx EA Ez).
  Qed.
End Transport.
