(* C19: skfem.utils.bmat block offsets = prefix sums of the block-column widths, on bmat_domain (all inputs unless
   known_findings.txt lists the defect, then up to 3 block columns).  Separate file so that a failure names it. *)
From Coq Require Import List Arith Lia.
Import ListNotations.
Require Import Model.C19_Blocks Proofs.C19_BlocksProofs Gen.C19Gen.

(* ---------- bmat ---------- *)
Theorem gen_bmat_blocks_spec : forall widths, bmat_domain widths -> gen_bmat_blocks widths = prefix_sums widths.
Proof.
  first [ intros widths _; exact (bmat_blocks_fixed_spec widths)
        | intros widths H; exact (bmat_blocks_accum_small widths H) ].
Qed.

