(* C19 tie lemmas, part 2: ElementComposite._deduce_bfun, split_indices, Dofs tables as regenerated from the source are
   the models of Model.C19_Blocks / Model.C19_Composite; theorems of Proofs.C19_CompositeProofs transported. *)
From Coq Require Import List Arith Bool Lia Ring_theory.
Import ListNotations.
Require Import Base.C01_Sums Model.C01_Assembly Model.C19_Blocks Model.C19_Composite.
Require Import Proofs.C19_BlocksProofs Proofs.C19_CompositeProofs.
Require Import Gen.C19Gen Gen.C19Comp Dyn.C19Tie.

Lemma gen_deduce_bfun_is_model ref ls i : gen_deduce_bfun ref ls i = deduce_bfun ref ls i.
Proof. reflexivity. Qed.
Lemma gen_composite_split_is_model tp ls n : gen_composite_split tp ls n = composite_split tp ls n.
Proof. reflexivity. Qed.
Lemma gen_vector_split_is_model tp d dim n : gen_vector_split tp d dim n = vector_split tp d dim n.
Proof. reflexivity. Qed.
Lemma gen_element_dofs_is_model tp d : gen_element_dofs tp d = element_dofs_of tp d.
Proof. reflexivity. Qed.

(* ElementVector.__init__: every entity kind gets dim times the DOFs of the scalar element — dim = number of COMPONENTS,
   whatever the spatial dimension edim is *)
Theorem gen_vector_layout_spec (d : nat -> nat) dim edim K : K < 4 -> gen_vector_layout d dim edim K = dim * d K.
Proof.
  intros HK. destruct K as [|[|[|[|K]]]]; try lia; unfold gen_vector_layout; first [reflexivity | ring | nia].
Qed.

(* _deduce_bfun: the local basis function (kind K, local entity itr, slot o_{n,K} + r) of the composite element is
   basis function (K, itr, r) of component n — for every list of component layouts and every reference cell *)
Theorem gen_deduce_bfun_spec ref ls n K itr r :
  n < length ls -> K < 4 -> itr < kcount ref K -> r < lay ls n K ->
  gen_deduce_bfun ref ls (whole_index ref ls n K itr r) = (n, comp_index ref ls n K itr r).
Proof. intros. rewrite gen_deduce_bfun_is_model. now apply deduce_bfun_spec. Qed.

Theorem gen_split_compat_composite tp ls n K itr r e :
  n < length ls -> K < 4 -> itr < length (conn tp K) -> r < lay ls n K ->
  e < length (nth itr (conn tp K) []) -> nth e (nth itr (conn tp K) []) 0 < G tp K ->
  nth (nth e (nth (row_index tp (lay ls n) K itr r) (gen_element_dofs tp (lay ls n)) []) 0) (gen_composite_split tp ls n) 0
  = nth e (nth (row_index tp (D_of ls) K itr (o_of ls n K + r)) (gen_element_dofs tp (D_of ls)) []) 0.
Proof.
  intros Hn HK Hi Hr He Hg. rewrite !gen_element_dofs_is_model, gen_composite_split_is_model.
  exact (split_compat tp (D_of ls) (lay ls n) (composite_slot ls n) K itr r e HK Hi Hr (slot_bound ls n K r Hn Hr) He Hg).
Qed.

Theorem gen_split_compat_vector tp d dim n K itr r e :
  n < dim -> K < 4 -> itr < length (conn tp K) -> r < d K ->
  e < length (nth itr (conn tp K) []) -> nth e (nth itr (conn tp K) []) 0 < G tp K ->
  nth (nth e (nth (row_index tp d K itr r) (gen_element_dofs tp d) []) 0) (gen_vector_split tp d dim n) 0
  = nth e (nth (row_index tp (fun K' => dim * d K') K itr (n + r * dim)) (gen_element_dofs tp (fun K' => dim * d K')) []) 0.
Proof.
  intros Hn HK Hi Hr He Hg. rewrite !gen_element_dofs_is_model, gen_vector_split_is_model.
  assert (Hs : vector_slot dim n K r < dim * d K) by (unfold vector_slot; nia).
  exact (split_compat tp (fun K' => dim * d K') d (vector_slot dim n) K itr r e HK Hi Hr Hs He Hg).
Qed.

Section Transport2.
  Variable R : Type.
  Variables (rO rI : R) (radd rmul rsub : R -> R -> R) (ropp : R -> R).
  Variable Rth : ring_theory rO rI radd rmul rsub ropp (@eq R).
  Variables V VC : Type.
  Variables (vadd : V -> V -> V) (vscale : R -> V -> V) (vaddC : VC -> VC -> VC) (vscaleC : R -> VC -> VC).
  Variable inj : nat -> V -> VC.

  Theorem gen_composite_interp_split (tp : topo) (ref : layout) (ls : list layout) (C : basis R VC) (b : nat -> basis R V)
      (n : nat) (g : VC -> R) (h : V -> R) (w : nat -> R) e q :
    (forall K, K < 4 -> kcount ref K = length (conn tp K)) ->
    (forall K itr e, K < 4 -> itr < length (conn tp K) -> e < ncells tp ->
       e < length (nth itr (conn tp K) []) /\ nth e (nth itr (conn tp K) []) 0 < G tp K) ->
    bedofs C = gen_element_dofs tp (D_of ls) /\ bNbfun C = base_of ref (D_of ls) 4 ->
    (forall n, n < length ls -> bedofs (b n) = gen_element_dofs tp (lay ls n) /\ bNbfun (b n) = base_of ref (lay ls n) 4) ->
    (forall i e q, i < bNbfun C ->
       bB C i e q = inj (fst (gen_deduce_bfun ref ls i)) (bB (b (fst (gen_deduce_bfun ref ls i))) (snd (gen_deduce_bfun ref ls i)) e q)) ->
    n < length ls -> e < ncells tp ->
    (forall x y, g (vaddC x y) = radd (g x) (g y)) -> (forall s x, g (vscaleC s x) = rmul s (g x)) ->
    (forall x y, h (vadd x y) = radd (h x) (h y)) -> (forall s x, h (vscale s x) = rmul s (h x)) ->
    (forall n' x, g (inj n' x) = if Nat.eqb n n' then h x else rO) ->
    g (interp R rO VC vaddC vscaleC C w e q)
    = h (interp R rO V vadd vscale (b n) (fun k => w (nth k (gen_composite_split tp ls n) 0)) e q).
  Proof.
    intros Href Hconn HC Hb HB. rewrite gen_composite_split_is_model.
    exact (composite_interp_split R rO rI radd rmul rsub ropp Rth V VC vadd vscale vaddC vscaleC inj tp ref ls Href Hconn C b
             HC Hb HB n g h w e q).
  Qed.

  Theorem gen_vector_interp_split (tp : topo) (ref : layout) (d : nat -> nat) (dim : nat) (Vb : basis R VC) (sb : basis R V)
      (n : nat) (g : VC -> R) (h : V -> R) (w : nat -> R) e q :
    0 < dim ->
    (forall K, K < 4 -> kcount ref K = length (conn tp K)) ->
    (forall K itr e, K < 4 -> itr < length (conn tp K) -> e < ncells tp ->
       e < length (nth itr (conn tp K) []) /\ nth e (nth itr (conn tp K) []) 0 < G tp K) ->
    bedofs Vb = gen_element_dofs tp (fun K => dim * d K) /\ bNbfun Vb = base_of ref d 4 * dim ->
    bedofs sb = gen_element_dofs tp d /\ bNbfun sb = base_of ref d 4 ->
    (forall i e q, i < bNbfun Vb ->
       bB Vb i e q = inj (snd (gen_vector_decode dim i)) (bB sb (fst (gen_vector_decode dim i)) e q)) ->
    n < dim -> e < ncells tp ->
    (forall x y, g (vaddC x y) = radd (g x) (g y)) -> (forall s x, g (vscaleC s x) = rmul s (g x)) ->
    (forall x y, h (vadd x y) = radd (h x) (h y)) -> (forall s x, h (vscale s x) = rmul s (h x)) ->
    (forall n' x, g (inj n' x) = if Nat.eqb n n' then h x else rO) ->
    g (interp R rO VC vaddC vscaleC Vb w e q)
    = h (interp R rO V vadd vscale sb (fun k => w (nth k (gen_vector_split tp d dim n) 0)) e q).
  Proof.
    intros Hdim Href Hconn HV Hs HB. rewrite gen_vector_split_is_model.
    assert (HB' : forall i e q, i < bNbfun Vb ->
              bB Vb i e q = inj (snd (vector_decode dim i)) (bB sb (fst (vector_decode dim i)) e q)).
    { intros i e' q' Hi. rewrite <- (gen_vector_decode_is_model dim i Hdim). now apply HB. }
    exact (vector_interp_split R rO rI radd rmul rsub ropp Rth V VC vadd vscale vaddC vscaleC inj tp ref d dim Hdim Href Hconn
             Vb sb HV Hs HB' n g h w e q).
  Qed.
End Transport2.

(* ---------- the whole interpolant is the sum of its components; block assembly (uses the regenerated assembler of C01) ---------- *)
Require Import Proofs.C01_AssemblyProofs Gen.C01Gen Dyn.C01Tie.

Section Transport3.
  Variable R : Type.
  Variables (rO rI : R) (radd rmul rsub : R -> R -> R) (ropp : R -> R).
  Variable Rth : ring_theory rO rI radd rmul rsub ropp (@eq R).
  Variables V VC W : Type.
  Variables (vadd : V -> V -> V) (vscale : R -> V -> V) (vaddC : VC -> VC -> VC) (vscaleC : R -> VC -> VC).
  Variable inj : nat -> V -> VC.
  Variable tp : topo.
  Variable ref : layout.
  Variable ls : list layout.
  Variable C : basis R VC.
  Variable b : nat -> basis R V.

  (* the tables of the composite basis and of its component bases are the regenerated Dofs tables, and the composite
     basis functions are the component basis functions placed by the regenerated _deduce_bfun *)
  Definition composite_setting : Prop :=
    (forall K, K < 4 -> kcount ref K = length (conn tp K)) /\
    (forall K itr e, K < 4 -> itr < length (conn tp K) -> e < ncells tp ->
       e < length (nth itr (conn tp K) []) /\ nth e (nth itr (conn tp K) []) 0 < G tp K) /\
    (bedofs C = gen_element_dofs tp (D_of ls) /\ bNbfun C = base_of ref (D_of ls) 4) /\
    (forall n, n < length ls -> bedofs (b n) = gen_element_dofs tp (lay ls n) /\ bNbfun (b n) = base_of ref (lay ls n) 4) /\
    (forall i e q, i < bNbfun C ->
       bB C i e q = inj (fst (gen_deduce_bfun ref ls i)) (bB (b (fst (gen_deduce_bfun ref ls i))) (snd (gen_deduce_bfun ref ls i)) e q)).

  Definition gen_supported_on (x : nat -> R) (bn : nat) (xb : nat -> R) : Prop :=
    forall n k, n < length ls -> k < length (gen_composite_split tp ls n) ->
      x (nth k (gen_composite_split tp ls n) 0) = if Nat.eqb bn n then xb k else rO.

  Theorem gen_block_assembly (form : VC -> VC -> W -> R) (a bt : nat) (w : nat -> nat -> W) (uC vC ub va : nat -> R) :
    composite_setting ->
    (forall x y v w, form (vaddC x y) v w = radd (form x v w) (form y v w)) ->
    (forall s x v w, form (vscaleC s x) v w = rmul s (form x v w)) ->
    (forall u x y w, form u (vaddC x y) w = radd (form u x w) (form u y w)) ->
    (forall s u x w, form u (vscaleC s x) w = rmul s (form u x w)) ->
    (forall n x y, inj n (vadd x y) = vaddC (inj n x) (inj n y)) ->
    (forall n s x, inj n (vscale s x) = vscaleC s (inj n x)) ->
    a < length ls -> bt < length ls ->
    wf_basis C -> wf_basis (b a) -> wf_basis (b bt) ->
    bnelems C = ncells tp -> bnelems (b a) = ncells tp -> bnelems (b bt) = ncells tp ->
    bnq (b a) = bnq C -> bnq (b bt) = bnq C ->
    (forall e q, e < ncells tp -> q < bnq C -> bdx (b bt) e q = bdx C e q) ->
    gen_supported_on uC bt ub -> gen_supported_on vC a va ->
    exists cC AC cab Aab,
      gen_bilinear_assemble R rO radd rmul VC W form w C None = Some cC /\ gen_to_dense2 R rO radd cC = Some AC /\
      gen_bilinear_assemble R rO radd rmul V W (fun x y w => form (inj bt x) (inj a y) w) w (b bt) (Some (b a)) = Some cab /\
      gen_to_dense2 R rO radd cab = Some Aab /\
      vAu R rO radd rmul vC AC uC (bN C) (bN C) = vAu R rO radd rmul va Aab ub (bN (b a)) (bN (b bt)).
  Proof.
    intros [Href [Hconn [HC [Hb HB]]]] F1 F2 F3 F4 I1 I2 Ha Hbt WC Wa Wbt NC Na Nbt Qa Qbt Hdx Hsu Hsv.
    rewrite !gen_bilinear_is_model. 
    assert (Su : supported_on R rO tp ls uC bt ub).
    { intros n k Hn Hk. apply Hsu; [exact Hn|]. rewrite gen_composite_split_is_model. unfold composite_split.
      now rewrite split_list_length. }
    assert (Sv : supported_on R rO tp ls vC a va).
    { intros n k Hn Hk. apply Hsv; [exact Hn|]. rewrite gen_composite_split_is_model. unfold composite_split.
      now rewrite split_list_length. }
    destruct (block_assembly R rO rI radd rmul rsub ropp Rth V VC vadd vscale vaddC vscaleC inj tp ref ls Href Hconn C b HC Hb HB
                W form F1 F2 F3 F4 I1 I2 a bt w uC vC ub va Ha Hbt WC Wa Wbt NC Na Nbt Qa Qbt Hdx Su Sv)
      as [cC [AC [cab [Aab [E1 [E2 [E3 [E4 E5]]]]]]]].
    exists cC, AC, cab, Aab. rewrite !gen_to_dense2_is_model. auto.
  Qed.

  Theorem gen_composite_interp_sum (g : VC -> R) (w : nat -> R) e q :
    composite_setting -> e < ncells tp ->
    (forall x y, g (vaddC x y) = radd (g x) (g y)) -> (forall s x, g (vscaleC s x) = rmul s (g x)) ->
    g (interp R rO VC vaddC vscaleC C w e q)
    = sumn rO radd (length ls) (fun n =>
        sumn rO radd (bNbfun (b n)) (fun ind => rmul (w (nth (nth e (element_dofs (b n) ind) 0) (gen_composite_split tp ls n) 0))
                                                     (g (inj n (bB (b n) ind e q))))).
  Proof.
    intros [Href [Hconn [HC [Hb HB]]]] He Hga Hgs.
    exact (composite_interp_sum R rO rI radd rmul rsub ropp Rth V VC vaddC vscaleC inj tp ref ls Href Hconn C b HC Hb HB g w e q He Hga Hgs).
  Qed.
End Transport3.

(* ---------- CompositeBasis and COOData.inverse ---------- *)
Require Import Model.C19_CompBasis Proofs.C19_CompBasisProofs Proofs.C19_InverseProofs.

Lemma gen_composite_basis_is_model R V VC inj b0 rest eq :
  gen_composite_basis R V VC inj b0 rest eq = composite_basis R V VC inj b0 rest eq.
Proof. reflexivity. Qed.

Section Transport4.
  Variable R : Type.
  Variables (rO rI : R) (radd rmul rsub : R -> R -> R) (ropp : R -> R).
  Variable Rth : ring_theory rO rI radd rmul rsub ropp (@eq R).
  Variables V VC W : Type.
  Variables (vadd : V -> V -> V) (vscale : R -> V -> V) (vaddC : VC -> VC -> VC) (vscaleC : R -> VC -> VC).
  Variable inj : nat -> V -> VC.

  Theorem gen_compositebasis_block_assembly (b0 : basis R V) (rest : list (basis R V)) (form : VC -> VC -> W -> R)
      (a bt : nat) (w : nat -> nat -> W) (uC vC ub va : nat -> R) :
    let bs := b0 :: rest in
    (forall n, n < length bs -> wf_basis (nth n bs b0) /\ bnelems (nth n bs b0) = bnelems b0 /\ bnq (nth n bs b0) = bnq b0) ->
    (forall x y v w, form (vaddC x y) v w = radd (form x v w) (form y v w)) ->
    (forall s x v w, form (vscaleC s x) v w = rmul s (form x v w)) ->
    (forall u x y w, form u (vaddC x y) w = radd (form u x w) (form u y w)) ->
    (forall s u x w, form u (vscaleC s x) w = rmul s (form u x w)) ->
    (forall n x y, inj n (vadd x y) = vaddC (inj n x) (inj n y)) ->
    (forall n s x, inj n (vscale s x) = vscaleC s (inj n x)) ->
    a < length bs -> bt < length bs ->
    (forall e q, e < bnelems b0 -> q < bnq b0 -> bdx (nth bt bs b0) e q = bdx b0 e q) ->
    cb_supported R rO V b0 rest uC bt ub -> cb_supported R rO V b0 rest vC a va ->
    exists C cC AC cab Aab,
      gen_composite_basis R V VC inj b0 rest false = Some C /\
      bN C = psum (fun n => bN (nth n bs b0)) (length bs) /\
      gen_bilinear_assemble R rO radd rmul VC W form w C None = Some cC /\ gen_to_dense2 R rO radd cC = Some AC /\
      gen_bilinear_assemble R rO radd rmul V W (fun x y w => form (inj bt x) (inj a y) w) w (nth bt bs b0) (Some (nth a bs b0)) = Some cab /\
      gen_to_dense2 R rO radd cab = Some Aab /\
      vAu R rO radd rmul vC AC uC (bN C) (bN C) = vAu R rO radd rmul va Aab ub (bN (nth a bs b0)) (bN (nth bt bs b0)).
  Proof.
    intros bs Hwf F1 F2 F3 F4 I1 I2 Ha Hbt Hdx Hsu Hsv.
    destruct (compositebasis_block_assembly R rO rI radd rmul rsub ropp Rth V VC W vadd vscale vaddC vscaleC inj b0 rest Hwf
                form F1 F2 F3 F4 I1 I2 a bt w uC vC ub va Ha Hbt Hdx Hsu Hsv) as [C [cC [AC [cab [Aab H]]]]].
    exists C, cC, AC, cab, Aab. rewrite gen_composite_basis_is_model, !gen_bilinear_is_model, !gen_to_dense2_is_model. exact H.
  Qed.

  (* the constructor rejects bases with a different number of cells or quadrature points (N19) *)
  Theorem gen_composite_basis_rejects (b0 b1 : basis R V) (rest : list (basis R V)) eq :
    bnelems b1 <> bnelems b0 \/ bnq b1 <> bnq b0 -> gen_composite_basis R V VC inj b0 (b1 :: rest) eq = None.
  Proof.
    intros H. unfold gen_composite_basis. cbv zeta. cbn [forallb]. rewrite !Nat.eqb_refl. cbn [andb].
    destruct H as [H|H]; apply Nat.eqb_neq in H; rewrite H; [rewrite andb_false_r|]; reflexivity.
  Qed.

  (* COOData.inverse: local matrices of inverse(c) = inv of the local matrices of c, for any shape-preserving per-cell inv *)
  Theorem gen_inverse_spec (inv : list (list R) -> list (list R)) (data : list R) n0 n1 L :
    0 < n0 * n1 -> gen_tolocal R rO data [n0; n1] = Some L ->
    (forall M, In M L -> length (inv M) = n0 /\ forall i, i < n0 -> length (nth i (inv M) []) = n1) ->
    exists d', gen_inverse_with R rO inv data [n0; n1] = Some d' /\ gen_tolocal R rO d' [n0; n1] = Some (map inv L).
  Proof.
    intros Hm E Hinv. unfold gen_inverse_with. rewrite E. eexists. split; [reflexivity|].
    exact (inverse_tolocal R rO inv data n0 n1 L Hm E Hinv).
  Qed.
End Transport4.

(* ---------- Form.block ---------- *)
Require Import Model.C19_FormBlock Proofs.C19_FormBlockProofs.

Lemma gen_form_block_is_model {V W R} (vzero : V -> V) (form : list V -> list V -> W -> R) M i j u v w :
  gen_form_block vzero form M [i; j] u v w = form_block V W R vzero form M i j u v w.
Proof.
  unfold gen_form_block, form_block, block_pad. cbn [flat_map seq nth].
  destruct (flat_args_split (fun j0 => if i =? j0 then u else vzero u) (fun j0 => if j =? j0 then v else vzero v) M) as [E1 E2].
  now rewrite E1, E2.
Qed.

Section Transport5.
  Variable R : Type.
  Variables (rO rI : R) (radd rmul rsub : R -> R -> R) (ropp : R -> R).
  Variable Rth : ring_theory rO rI radd rmul rsub ropp (@eq R).
  Variables V W : Type.
  Variables (vadd : V -> V -> V) (vscale : R -> V -> V) (vaddC : list V -> list V -> list V) (vscaleC : R -> list V -> list V).
  Variable vzero : V -> V.
  Variable M : nat.
  Notation inj := (block_pad V vzero M).

  (* assembling the wrapper form.block(bt, a) on the component bases (b_bt, b_a) gives the (a, bt) block of the coupling
     matrix assembled on the CompositeBasis (tuples of M fields; slot n of the tuple = block_pad M n) *)
  Theorem gen_form_block_assembly (b0 : basis R V) (rest : list (basis R V)) (form : list V -> list V -> W -> R)
      (a bt : nat) (w : nat -> nat -> W) (uC vC ub va : nat -> R) :
    let bs := b0 :: rest in
    (forall n, n < length bs -> wf_basis (nth n bs b0) /\ bnelems (nth n bs b0) = bnelems b0 /\ bnq (nth n bs b0) = bnq b0) ->
    (forall x y v w, form (vaddC x y) v w = radd (form x v w) (form y v w)) ->
    (forall s x v w, form (vscaleC s x) v w = rmul s (form x v w)) ->
    (forall u x y w, form u (vaddC x y) w = radd (form u x w) (form u y w)) ->
    (forall s u x w, form u (vscaleC s x) w = rmul s (form u x w)) ->
    (forall n x y, inj n (vadd x y) = vaddC (inj n x) (inj n y)) ->
    (forall n s x, inj n (vscale s x) = vscaleC s (inj n x)) ->
    a < length bs -> bt < length bs ->
    (forall e q, e < bnelems b0 -> q < bnq b0 -> bdx (nth bt bs b0) e q = bdx b0 e q) ->
    cb_supported R rO V b0 rest uC bt ub -> cb_supported R rO V b0 rest vC a va ->
    exists C cC AC cab Aab,
      gen_composite_basis R V (list V) inj b0 rest false = Some C /\
      gen_bilinear_assemble R rO radd rmul (list V) W form w C None = Some cC /\ gen_to_dense2 R rO radd cC = Some AC /\
      gen_bilinear_assemble R rO radd rmul V W (gen_form_block vzero form M [bt; a]) w (nth bt bs b0) (Some (nth a bs b0)) = Some cab /\
      gen_to_dense2 R rO radd cab = Some Aab /\
      vAu R rO radd rmul vC AC uC (bN C) (bN C) = vAu R rO radd rmul va Aab ub (bN (nth a bs b0)) (bN (nth bt bs b0)).
  Proof.
    intros bs Hwf F1 F2 F3 F4 I1 I2 Ha Hbt Hdx Hsu Hsv.
    destruct (gen_compositebasis_block_assembly R rO rI radd rmul rsub ropp Rth V (list V) W vadd vscale vaddC vscaleC inj b0 rest form
                a bt w uC vC ub va Hwf F1 F2 F3 F4 I1 I2 Ha Hbt Hdx Hsu Hsv) as [C [cC [AC [cab [Aab [E0 [_ [E1 [E2 [E3 [E4 E5]]]]]]]]]]].
    exists C, cC, AC, cab, Aab. repeat (split; [assumption|]). split; [|split; assumption].
    rewrite <- E3. rewrite !gen_bilinear_is_model. apply bilinear_assemble_form_ext.
    intros x y p. apply gen_form_block_is_model.
  Qed.
End Transport5.

(* ---------- shared DOFs, permutation to the ElementComposite numbering, facet scatter ---------- *)
Require Import Proofs.C19_PermProofs Model.C19_Scatter Proofs.C19_ScatterProofs.

Section Transport6.
  Variable R : Type.
  Variables (rO rI : R) (radd rmul rsub : R -> R -> R) (ropp : R -> R).
  Variable Rth : ring_theory rO rI radd rmul rsub ropp (@eq R).
  Variables V VC W : Type.
  Variables (vadd : V -> V -> V) (vscale : R -> V -> V) (vaddC : VC -> VC -> VC) (vscaleC : R -> VC -> VC).
  Variable inj : nat -> V -> VC.
  Variable form : VC -> VC -> W -> R.
  Hypothesis F1 : forall x y v w, form (vaddC x y) v w = radd (form x v w) (form y v w).
  Hypothesis F2 : forall s x v w, form (vscaleC s x) v w = rmul s (form x v w).
  Hypothesis F3 : forall u x y w, form u (vaddC x y) w = radd (form u x w) (form u y w).
  Hypothesis F4 : forall s u x w, form u (vscaleC s x) w = rmul s (form u x w).
  Hypothesis I1 : forall n x y, inj n (vadd x y) = vaddC (inj n x) (inj n y).
  Hypothesis I2 : forall n s x, inj n (vscale s x) = vscaleC s (inj n x).

  Theorem gen_shared_dofs_matrix_is_sum (b0 : basis R V) (rest : list (basis R V)) (w : nat -> nat -> W) (u v : nat -> R) :
    let bs := b0 :: rest in
    (forall n, n < length bs -> wf_basis (nth n bs b0) /\ bnelems (nth n bs b0) = bnelems b0 /\ bnq (nth n bs b0) = bnq b0) ->
    (forall n, n < length bs -> bN (nth n bs b0) = bN b0) ->
    exists C cC AC,
      gen_composite_basis R V VC inj b0 rest true = Some C /\ bN C = bN b0 /\
      gen_bilinear_assemble R rO radd rmul VC W form w C None = Some cC /\ gen_to_dense2 R rO radd cC = Some AC /\
      vAu R rO radd rmul v AC u (bN C) (bN C)
      = sumn rO radd (length bs) (fun a => sumn rO radd (length bs) (fun b =>
          integrate R rO radd rmul (bnelems b0) (bnq b0)
            (fun e q => form (inj b (interp R rO V vadd vscale (nth b bs b0) u e q)) (inj a (interp R rO V vadd vscale (nth a bs b0) v e q)) (w e q))
            (bdx b0))).
  Proof.
    intros bs Hwf HN.
    destruct (shared_dofs_matrix_is_sum R rO rI radd rmul rsub ropp Rth V VC W vadd vscale vaddC vscaleC inj b0 rest Hwf form F1 F2 F3 F4 I1 I2 w u v HN)
      as [C [cC [AC H]]].
    exists C, cC, AC. rewrite gen_composite_basis_is_model, gen_bilinear_is_model, gen_to_dense2_is_model. exact H.
  Qed.

  Theorem gen_compositebasis_is_permuted_elementcomposite tp ref ls (CE : basis R VC) (b : nat -> basis R V) (b0 : basis R V) (rest : list (basis R V))
      (w : nat -> nat -> W) (uE vE uB vB : nat -> R) :
    let bs := b0 :: rest in
    composite_setting R V VC inj tp ref ls CE b ->
    (length bs = length ls /\ forall n, n < length bs -> nth n bs b0 = b n) ->
    (forall n, n < length bs -> wf_basis (nth n bs b0) /\ bnelems (nth n bs b0) = bnelems b0 /\ bnq (nth n bs b0) = bnq b0) ->
    (wf_basis CE /\ bnelems CE = bnelems b0 /\ bnq CE = bnq b0 /\ ncells tp = bnelems b0 /\
     (forall e q, e < bnelems b0 -> q < bnq b0 -> bdx CE e q = bdx b0 e q)) ->
    (forall n k, n < length bs -> k < bN (nth n bs b0) -> uE (nth k (gen_composite_split tp ls n) 0) = uB (psum (fun m => bN (nth m bs b0)) n + k)) ->
    (forall n k, n < length bs -> k < bN (nth n bs b0) -> vE (nth k (gen_composite_split tp ls n) 0) = vB (psum (fun m => bN (nth m bs b0)) n + k)) ->
    exists CB cE AE cB AB,
      gen_composite_basis R V VC inj b0 rest false = Some CB /\
      gen_bilinear_assemble R rO radd rmul VC W form w CE None = Some cE /\ gen_to_dense2 R rO radd cE = Some AE /\
      gen_bilinear_assemble R rO radd rmul VC W form w CB None = Some cB /\ gen_to_dense2 R rO radd cB = Some AB /\
      vAu R rO radd rmul vE AE uE (bN CE) (bN CE) = vAu R rO radd rmul vB AB uB (bN CB) (bN CB).
  Proof.
    intros bs [Href [Hconn [HC [Hb HB]]]] Hlist Hwf HCE Hpu Hpv.
    destruct (compositebasis_is_permuted_elementcomposite R rO rI radd rmul rsub ropp Rth V VC W vaddC vscaleC inj tp ref ls
                Href Hconn CE b HC Hb HB b0 rest Hlist Hwf HCE form F1 F2 F3 F4 w uE vE uB vB Hpu Hpv) as [CB [cE [AE [cB [AB H]]]]].
    exists CB, cE, AE, cB, AB. rewrite gen_composite_basis_is_model, !gen_bilinear_is_model, !gen_to_dense2_is_model. exact H.
  Qed.
End Transport6.

(* tolocal(basis=facet basis): listed facets carry their local matrix (distinct facets), the last assignment stays for a repeated
   facet, unlisted facets contribute zero, and cell e sums the entries of its facets t2f[.][e] *)
Theorem gen_facet_scatter_spec (R : Type) (zero : list (list R)) (add : list (list R) -> list (list R) -> list (list R)) :
  (forall idx vals out k d, NoDup idx -> length vals = length idx -> (forall i, In i idx -> i < length out) -> k < length idx ->
     nth (nth k idx 0) (gen_scatter_set R idx vals out) d = nth k vals d) /\
  (forall idx vals i v out d, length vals = length idx -> i < length out ->
     nth i (gen_scatter_set R (idx ++ [i]) (vals ++ [v]) out) d = v) /\
  (forall idx vals f d out, ~ In f idx -> nth f (gen_scatter_set R idx vals out) d = nth f out d) /\
  (forall nfacets ncells find local t2f e d, e < ncells ->
     nth e (gen_facet_sum R zero add nfacets ncells find local t2f) d
     = fold_right add zero (map (fun row => nth (nth e row 0) (gen_scatter_set R find local (repeat zero nfacets)) zero) t2f)).
Proof.
  repeat split; intros.
  - now apply scatter_nth.
  - now apply scatter_last_wins.
  - now apply scatter_other.
  - now apply facet_sum_spec.
Qed.
