(* C19 tie lemmas, part 2: ElementComposite._deduce_bfun, split_indices, Dofs tables as regenerated from the source are
   the models of Model.C19_Blocks / Model.C19_Composite; theorems of Proofs.C19_CompositeProofs transported. *)
From Coq Require Import List Arith Bool Lia Ring_theory.
Import ListNotations.
Require Import Base.C01_Sums Model.C01_Assembly Model.C19_Blocks Model.C19_Composite.
Require Import Proofs.C19_BlocksProofs Proofs.C19_CompositeProofs.
Require Import Gen.C19Gen Gen.C19Comp Dyn.C19Tie.

Lemma gen_deduce_bfun_is_model ref ls i : gen_deduce_bfun ref ls i = deduce_bfun ref ls i.
Proof. reflexivity. Qed.
Lemma gen_composite_split_is_model tp ls n : gen_composite_split tp ls n = composite_split tp ls n.
Proof. reflexivity. Qed.
Lemma gen_vector_split_is_model tp d dim n : gen_vector_split tp d dim n = vector_split tp d dim n.
Proof. reflexivity. Qed.
Lemma gen_element_dofs_is_model tp d : gen_element_dofs tp d = element_dofs_of tp d.
Proof. reflexivity. Qed.

(* _deduce_bfun: the local basis function (kind K, local entity itr, slot o_{n,K} + r) of the composite element is
   basis function (K, itr, r) of component n — for every list of component layouts and every reference cell *)
Theorem gen_deduce_bfun_spec ref ls n K itr r :
  n < length ls -> K < 4 -> itr < kcount ref K -> r < lay ls n K ->
  gen_deduce_bfun ref ls (whole_index ref ls n K itr r) = (n, comp_index ref ls n K itr r).
Proof. intros. rewrite gen_deduce_bfun_is_model. now apply deduce_bfun_spec. Qed.

Theorem gen_split_compat_composite tp ls n K itr r e :
  n < length ls -> K < 4 -> itr < length (conn tp K) -> r < lay ls n K ->
  e < length (nth itr (conn tp K) []) -> nth e (nth itr (conn tp K) []) 0 < G tp K ->
  nth (nth e (nth (row_index tp (lay ls n) K itr r) (gen_element_dofs tp (lay ls n)) []) 0) (gen_composite_split tp ls n) 0
  = nth e (nth (row_index tp (D_of ls) K itr (o_of ls n K + r)) (gen_element_dofs tp (D_of ls)) []) 0.
Proof.
  intros Hn HK Hi Hr He Hg. rewrite !gen_element_dofs_is_model, gen_composite_split_is_model.
  exact (split_compat tp (D_of ls) (lay ls n) (composite_slot ls n) K itr r e HK Hi Hr (slot_bound ls n K r Hn Hr) He Hg).
Qed.

Theorem gen_split_compat_vector tp d dim n K itr r e :
  n < dim -> K < 4 -> itr < length (conn tp K) -> r < d K ->
  e < length (nth itr (conn tp K) []) -> nth e (nth itr (conn tp K) []) 0 < G tp K ->
  nth (nth e (nth (row_index tp d K itr r) (gen_element_dofs tp d) []) 0) (gen_vector_split tp d dim n) 0
  = nth e (nth (row_index tp (fun K' => dim * d K') K itr (n + r * dim)) (gen_element_dofs tp (fun K' => dim * d K')) []) 0.
Proof.
  intros Hn HK Hi Hr He Hg. rewrite !gen_element_dofs_is_model, gen_vector_split_is_model.
  assert (Hs : vector_slot dim n K r < dim * d K) by (unfold vector_slot; nia).
  exact (split_compat tp (fun K' => dim * d K') d (vector_slot dim n) K itr r e HK Hi Hr Hs He Hg).
Qed.

Section Transport2.
  Variable R : Type.
  Variables (rO rI : R) (radd rmul rsub : R -> R -> R) (ropp : R -> R).
  Variable Rth : ring_theory rO rI radd rmul rsub ropp (@eq R).
  Variables V VC : Type.
  Variables (vadd : V -> V -> V) (vscale : R -> V -> V) (vaddC : VC -> VC -> VC) (vscaleC : R -> VC -> VC).
  Variable inj : nat -> V -> VC.

  Theorem gen_composite_interp_split (tp : topo) (ref : layout) (ls : list layout) (C : basis R VC) (b : nat -> basis R V)
      (n : nat) (g : VC -> R) (h : V -> R) (w : nat -> R) e q :
    (forall K, K < 4 -> kcount ref K = length (conn tp K)) ->
    (forall K itr e, K < 4 -> itr < length (conn tp K) -> e < ncells tp ->
       e < length (nth itr (conn tp K) []) /\ nth e (nth itr (conn tp K) []) 0 < G tp K) ->
    bedofs C = gen_element_dofs tp (D_of ls) /\ bNbfun C = base_of ref (D_of ls) 4 ->
    (forall n, n < length ls -> bedofs (b n) = gen_element_dofs tp (lay ls n) /\ bNbfun (b n) = base_of ref (lay ls n) 4) ->
    (forall i e q, i < bNbfun C ->
       bB C i e q = inj (fst (gen_deduce_bfun ref ls i)) (bB (b (fst (gen_deduce_bfun ref ls i))) (snd (gen_deduce_bfun ref ls i)) e q)) ->
    n < length ls -> e < ncells tp ->
    (forall x y, g (vaddC x y) = radd (g x) (g y)) -> (forall s x, g (vscaleC s x) = rmul s (g x)) ->
    (forall x y, h (vadd x y) = radd (h x) (h y)) -> (forall s x, h (vscale s x) = rmul s (h x)) ->
    (forall n' x, g (inj n' x) = if Nat.eqb n n' then h x else rO) ->
    g (interp R rO VC vaddC vscaleC C w e q)
    = h (interp R rO V vadd vscale (b n) (fun k => w (nth k (gen_composite_split tp ls n) 0)) e q).
  Proof.
    intros Href Hconn HC Hb HB. rewrite gen_composite_split_is_model.
    exact (composite_interp_split R rO rI radd rmul rsub ropp Rth V VC vadd vscale vaddC vscaleC inj tp ref ls Href Hconn C b
             HC Hb HB n g h w e q).
  Qed.

  Theorem gen_vector_interp_split (tp : topo) (ref : layout) (d : nat -> nat) (dim : nat) (Vb : basis R VC) (sb : basis R V)
      (n : nat) (g : VC -> R) (h : V -> R) (w : nat -> R) e q :
    0 < dim ->
    (forall K, K < 4 -> kcount ref K = length (conn tp K)) ->
    (forall K itr e, K < 4 -> itr < length (conn tp K) -> e < ncells tp ->
       e < length (nth itr (conn tp K) []) /\ nth e (nth itr (conn tp K) []) 0 < G tp K) ->
    bedofs Vb = gen_element_dofs tp (fun K => dim * d K) /\ bNbfun Vb = base_of ref d 4 * dim ->
    bedofs sb = gen_element_dofs tp d /\ bNbfun sb = base_of ref d 4 ->
    (forall i e q, i < bNbfun Vb ->
       bB Vb i e q = inj (snd (gen_vector_decode dim i)) (bB sb (fst (gen_vector_decode dim i)) e q)) ->
    n < dim -> e < ncells tp ->
    (forall x y, g (vaddC x y) = radd (g x) (g y)) -> (forall s x, g (vscaleC s x) = rmul s (g x)) ->
    (forall x y, h (vadd x y) = radd (h x) (h y)) -> (forall s x, h (vscale s x) = rmul s (h x)) ->
    (forall n' x, g (inj n' x) = if Nat.eqb n n' then h x else rO) ->
    g (interp R rO VC vaddC vscaleC Vb w e q)
    = h (interp R rO V vadd vscale sb (fun k => w (nth k (gen_vector_split tp d dim n) 0)) e q).
  Proof.
    intros Hdim Href Hconn HV Hs HB. rewrite gen_vector_split_is_model.
    assert (HB' : forall i e q, i < bNbfun Vb ->
              bB Vb i e q = inj (snd (vector_decode dim i)) (bB sb (fst (vector_decode dim i)) e q)).
    { intros i e' q' Hi. rewrite <- (gen_vector_decode_is_model dim i Hdim). now apply HB. }
    exact (vector_interp_split R rO rI radd rmul rsub ropp Rth V VC vadd vscale vaddC vscaleC inj tp ref d dim Hdim Href Hconn
             Vb sb HV Hs HB' n g h w e q).
  Qed.
End Transport2.
