(* C01 tie, trilinear part: the regenerated TrilinearForm._assemble / _kernel and the N-tensor branch of COOData.toarray are the
   model of Model.C01_Trilinear; theorems of Proofs.C01_TrilinearProofs transported. *)
From Coq Require Import List Arith Bool Lia Ring_theory.
Import ListNotations.
Require Import Base.C01_Sums Model.C01_Assembly Model.C01_Trilinear Proofs.C01_AssemblyProofs Proofs.C01_TrilinearProofs Gen.C01Gen.

Lemma gen_trilinear_is_model : forall R rO radd rmul V W form p ub vb0 wb0,
  gen_trilinear_assemble R rO radd rmul V W form p ub vb0 wb0 = trilinear_assemble R rO radd rmul V W form p ub vb0 wb0.
Proof. reflexivity. Qed.
Lemma gen_to_dense3_is_model : forall R rO radd c, gen_to_dense3 R rO radd c = to_dense3 R rO radd c.
Proof. reflexivity. Qed.

Section TransportTri.
  Variable R : Type.
  Variables (rO rI : R) (radd rmul rsub : R -> R -> R) (ropp : R -> R).
  Variable Rth : ring_theory rO rI radd rmul rsub ropp (@eq R).
  Variable V W : Type.
  Variables (vadd : V -> V -> V) (vscale : R -> V -> V).
  Notation basis := (basis R V).
  Notation interp := (interp R rO V vadd vscale).

  Theorem gen_trilinear_entries form p (ub : basis) (vb0 wb0 : option basis) :
    let vb := match vb0 with None => ub | Some b => b end in
    let wb := match wb0 with None => ub | Some b => b end in
    let Nu := bNbfun ub in let Nv := bNbfun vb in let Nw := bNbfun wb in let nt := bnelems ub in
    wf_basis ub -> wf_basis vb -> wf_basis wb -> bnelems vb = nt -> bnelems wb = nt ->
    exists mats rows cols data,
      gen_trilinear_assemble R rO radd rmul V W form p ub vb0 wb0
        = Some (mkCoo [mats; rows; cols] data [bN wb; bN vb; bN ub] [Nw; Nv; Nu]) /\
      length mats = Nu * Nv * Nw * nt /\ length rows = Nu * Nv * Nw * nt /\ length cols = Nu * Nv * Nw * nt /\
      length data = Nu * Nv * Nw * nt /\
      forall k j i e, k < Nu -> j < Nv -> i < Nw -> e < nt ->
        let pos := ((k * Nv + j) * Nw + i) * nt + e in
        nth pos mats 0 = nth e (element_dofs wb i) 0 /\
        nth pos rows 0 = nth e (element_dofs vb j) 0 /\
        nth pos cols 0 = nth e (element_dofs ub k) 0 /\
        nth pos data rO = Kkjie R rO radd rmul V W form p ub vb wb k j i e.
  Proof. intros. rewrite gen_trilinear_is_model. now apply trilinear_assemble_entries. Qed.

  Theorem gen_trilinear_weak_form (form : V -> V -> V -> W -> R) :
    (forall a b v w p, form (vadd a b) v w p = radd (form a v w p) (form b v w p)) ->
    (forall s a v w p, form (vscale s a) v w p = rmul s (form a v w p)) ->
    (forall u a b w p, form u (vadd a b) w p = radd (form u a w p) (form u b w p)) ->
    (forall s u a w p, form u (vscale s a) w p = rmul s (form u a w p)) ->
    (forall u v a b p, form u v (vadd a b) p = radd (form u v a p) (form u v b p)) ->
    (forall s u v a p, form u v (vscale s a) p = rmul s (form u v a p)) ->
    forall p (ub : basis) (vb0 wb0 : option basis) (u v w : nat -> R),
      let vb := match vb0 with None => ub | Some b => b end in
      let wb := match wb0 with None => ub | Some b => b end in
      wf_basis ub -> wf_basis vb -> wf_basis wb -> bnelems vb = bnelems ub -> bnelems wb = bnelems ub ->
      exists c T,
        gen_trilinear_assemble R rO radd rmul V W form p ub vb0 wb0 = Some c /\
        gen_to_dense3 R rO radd c = Some T /\
        contract3 R rO radd rmul T w v u (bN wb) (bN vb) (bN ub)
        = integrate R rO radd rmul (bnelems ub) (bnq ub)
            (fun e q => form (interp ub u e q) (interp vb v e q) (interp wb w e q) (p e q)) (bdx ub).
  Proof.
    intros A1 A2 A3 A4 A5 A6 p ub vb0 wb0 u v w vb wb Hu Hv Hw H1 H2.
    destruct (trilinear_weak_form R rO rI radd rmul rsub ropp Rth V W vadd vscale form A1 A2 A3 A4 A5 A6 p ub vb0 wb0 u v w Hu Hv Hw H1 H2)
      as [c [T [E [ET H]]]].
    exists c, T. rewrite gen_trilinear_is_model, gen_to_dense3_is_model. auto.
  Qed.
End TransportTri.

(* ---------- FacetBasis: which cell "side s" of an oriented facet is ---------- *)
Require Import ZArith.
Theorem gen_oriented_side_spec (ori : Z) : (ori = 0 \/ ori = 1)%Z ->
  ((gen_oriented_row0 ori) mod 2 = ori /\ (gen_oriented_row1 ori) mod 2 = 1 - ori /\
   (gen_oriented_normal_row ori) mod 2 = ori /\ gen_plain_row 0 = 0 /\ gen_plain_row 1 = 1 /\ gen_plain_normal_row = 0)%Z.
Proof. intros [->| ->]; vm_compute; repeat split; reflexivity. Qed.

(* ---------- Form._normalize_asm_kwargs and the parameter dictionary of the three form types ---------- *)
Require Import Model.C01_Params.
Section ParamsTie.
  Variable R : Type.
  Variable rO : R.
  Variable V : Type.
  Variables (vadd : V -> V -> V) (vscale : R -> V -> V).
  Notation basis := (basis R V).

  Lemma gen_normalize_is_model (b : basis) p : gen_normalize_one R rO V vadd vscale b p = normalize_one R rO V vadd vscale b p.
  Proof. destruct p; reflexivity. Qed.

  (* the three form types build the same dictionary from (defaults of the basis, keyword arguments): same normalisation on the
     same (trial) basis, same precedence *)
  Theorem gen_params_identical dflt kw (ub vb : basis) :
    gen_params_bilinear R rO V vadd vscale dflt kw ub vb = gen_params_functional R rO V vadd vscale dflt kw ub /\
    gen_params_linear R rO V vadd vscale dflt kw ub = gen_params_functional R rO V vadd vscale dflt kw ub.
  Proof. split; reflexivity. Qed.

  (* what each kind becomes *)
  Theorem gen_normalize_kinds (b : basis) :
    (forall u, gen_normalize_one R rO V vadd vscale b (RVector u (bN b))
               = gen_normalize_one R rO V vadd vscale b (RField (interp R rO V vadd vscale b u) (bnq b))) /\
    (forall u, gen_normalize_one R rO V vadd vscale b (RVector u (bN b)) = Some (NField (interp R rO V vadd vscale b u))) /\
    (forall a, gen_normalize_one R rO V vadd vscale b (RArray a) = Some (NField a)) /\
    (forall s, gen_normalize_one R rO V vadd vscale b (RNumber s) = Some (NNumber s)) /\
    (forall f nq, gen_normalize_one R rO V vadd vscale b (RField f nq) = if nq =? bnq b then Some (NField f) else None) /\
    (forall u len, len <> bN b -> gen_normalize_one R rO V vadd vscale b (RVector u len) = None) /\
    gen_normalize_one R rO V vadd vscale b ROther = None.
  Proof.
    assert (E : forall p, gen_normalize_one R rO V vadd vscale b p = normalize_one R rO V vadd vscale b p)
      by (intros p; apply gen_normalize_is_model).
    repeat split; intros; rewrite !E; cbn [normalize_one]; rewrite ?Nat.eqb_refl; try reflexivity.
    all: try (match goal with |- (if ?l =? ?n then _ else _) = None => destruct (Nat.eqb_spec l n); [contradiction | reflexivity] end).
    all: repeat (rewrite E; cbn [normalize_one]); rewrite ?Nat.eqb_refl; reflexivity.
  Qed.

  (* a keyword of the caller overrides a default of the same name; other defaults stay visible *)
  Theorem gen_params_precedence dflt kw (ub : basis) env k :
    gen_params_functional R rO V vadd vscale dflt kw ub = Some env ->
    exists u, normalize_all R V (gen_normalize_one R rO V vadd vscale ub) kw = Some u /\
      env k = match lookup k u with Some x => Some x | None => lookup k (dflt ub) end.
  Proof.
    unfold gen_params_functional. destruct (normalize_all R V _ kw) as [u|]; [|discriminate].
    intros E. inversion E; subst env. exists u. split; reflexivity.
  Qed.
End ParamsTie.

(* ---------- the form-copying wrappers and the wrapper dispatch of asm ---------- *)
Require Import Model.C01_FormWrap.
Theorem gen_form_wrappers_spec {F D P : Type} (d0 : D) (p0 : P) :
  (forall bind (r : formrec F D P), let r' := gen_form_partial d0 p0 bind r in
     fr_form r' = omap bind (fr_form r) /\ fr_dtype r' = fr_dtype r /\ fr_nthreads r' = fr_nthreads r /\ fr_params r' = fr_params r) /\
  (forall bind (r : formrec F D P), let r' := gen_form_copy_block d0 p0 bind r in
     fr_form r' = omap bind (fr_form r) /\ fr_dtype r' = fr_dtype r /\ fr_nthreads r' = fr_nthreads r /\ fr_params r' = fr_params r) /\
  (forall (r : formrec F D P) f, let r' := gen_form_decorate d0 p0 r f in
     fr_form r' = Some f /\ fr_dtype r' = fr_dtype r /\ fr_nthreads r' = fr_nthreads r /\ fr_params r' = fr_params r) /\
  (forall (f : F) d n p, gen_form_init d0 p0 f d n p = mkFr (Some f) d n p) /\
  (forall (fo : formrec F D P) d n p, gen_form_init_from d0 p0 fo d n p = mkFr (fr_form fo) d n p).
Proof. repeat split; reflexivity. Qed.

Theorem gen_asm_wrapper_spec :
  gen_asm_wrapper 1 = WFunctional /\ gen_asm_wrapper 2 = WLinearForm /\ gen_asm_wrapper 3 = WBilinearForm /\ gen_asm_wrapper 4 = WTrilinearForm.
Proof. repeat split; reflexivity. Qed.
