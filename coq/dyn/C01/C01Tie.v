(* Tie lemmas: the assemblers regenerated from bilinear_form.py / linear_form.py / functional.py /
   coo_data.py ARE the hand-written model about which Proofs.C01_AssemblyProofs speaks.
   First try conversion; if the source was rewritten in an arithmetically equivalent way (e.g. the slice
   bounds), fall back to an extensional proof over the loop bodies. *)
From Coq Require Import List Arith Bool Lia.
Import ListNotations.
Require Import Base.C01_Sums Model.C01_Assembly Proofs.C01_AssemblyProofs Gen.C01Gen.

Lemma bind_ext {A B} (a a' : option A) (k k' : A -> option B) :
  a = a' -> (forall x, k x = k' x) -> bind a k = bind a' k'.
Proof. intros -> H. destruct a' as [x|]; simpl; [apply H | reflexivity]. Qed.

Lemma for_range_ext2 {S} (b1 b2 : nat -> S -> option S) n s1 s2 :
  s1 = s2 -> (forall i s, i < n -> b1 i s = b2 i s) -> for_range n b1 s1 = for_range n b2 s2.
Proof. intros -> H. now apply for_range_ext. Qed.

Ltac destruct_pairs :=
  repeat match goal with
         | s : ?T |- _ => let T' := eval hnf in T in
                          match T' with (_ * _)%type => destruct s end
         end.

Ltac tie_ext :=
  repeat first
    [ reflexivity
    | progress (cbv beta zeta)
    | match goal with
      | |- (if ?c then _ else _) = (if ?c then _ else _) => destruct c
      | |- bind _ _ = bind _ _ => apply bind_ext; [| intros ?; destruct_pairs]
      | |- for_range ?n _ _ = for_range ?n _ _ => apply for_range_ext2; [| intros ? ? ?; destruct_pairs]
      | |- slice_set _ _ _ _ = slice_set _ _ _ _ => f_equal
      | |- nd3_set_row _ _ _ _ = nd3_set_row _ _ _ _ => f_equal
      | |- nd3_zeros _ _ _ _ = nd3_zeros _ _ _ _ => f_equal
      | |- pair _ _ = pair _ _ => f_equal
      | |- Some _ = Some _ => f_equal
      | |- mkCoo _ _ _ _ = mkCoo _ _ _ _ => f_equal
      | |- repeat _ _ = repeat _ _ => f_equal
      | |- cons _ _ = cons _ _ => f_equal
      | |- @eq nat _ _ => nia
      end ].

Lemma gen_bilinear_kernel_is_model : forall R rO radd rmul V W form u v w dx nt nq,
  gen_bilinear_kernel R rO radd rmul V W form u v w dx nt nq = bilinear_kernel R rO radd rmul V W form u v w dx nt nq.
Proof. reflexivity. Qed.

Lemma gen_bilinear_is_model : forall R rO radd rmul V W form w ub vb0,
  gen_bilinear_assemble R rO radd rmul V W form w ub vb0 = bilinear_assemble R rO radd rmul V W form w ub vb0.
Proof. intros. first [ reflexivity | unfold gen_bilinear_assemble, bilinear_assemble; tie_ext ]. Qed.

Lemma gen_linear_kernel_is_model : forall R rO radd rmul V W form v w dx nt nq,
  gen_linear_kernel R rO radd rmul V W form v w dx nt nq = linear_kernel R rO radd rmul V W form v w dx nt nq.
Proof. reflexivity. Qed.

Lemma gen_linear_is_model : forall R rO radd rmul V W form w vb,
  gen_linear_assemble R rO radd rmul V W form w vb = linear_assemble R rO radd rmul V W form w vb.
Proof. intros. first [ reflexivity | unfold gen_linear_assemble, linear_assemble; tie_ext ]. Qed.

Lemma gen_functional_is_model : forall R rO radd rmul V W form w b,
  gen_functional_assemble R rO radd rmul V W form w b = functional_assemble R rO radd rmul V W form w b.
Proof. reflexivity. Qed.

Lemma gen_to_dense2_is_model : forall R rO radd c, gen_to_dense2 R rO radd c = to_dense2 R rO radd c.
Proof. reflexivity. Qed.
Lemma gen_to_dense1_is_model : forall R rO radd c, gen_to_dense1 R rO radd c = to_dense1 R rO radd c.
Proof. reflexivity. Qed.
Lemma gen_to_scalar_is_model : forall R rO radd c, gen_to_scalar R rO radd c = to_scalar R rO radd c.
Proof. reflexivity. Qed.

(* ---------- the theorems of Proofs.C01_AssemblyProofs transported to the regenerated definitions ---------- *)
Section Transport.
  Variable R : Type.
  Variables (rO rI : R) (radd rmul rsub : R -> R -> R) (ropp : R -> R).
  Variable Rth : ring_theory rO rI radd rmul rsub ropp (@eq R).
  Variable V W : Type.
  Variables (vadd : V -> V -> V) (vscale : R -> V -> V).
  Notation basis := (basis R V).
  Notation interp := (interp R rO V vadd vscale).

  Theorem gen_bilinear_entries form w (ub : basis) (vb0 : option basis) :
    let vb := match vb0 with None => ub | Some b => b end in
    let Nu := bNbfun ub in let Nv := bNbfun vb in let nt := bnelems ub in
    wf_basis ub -> wf_basis vb -> bnelems vb = bnelems ub -> bnq vb = bnq ub ->
    exists rows cols data lshape,
      gen_bilinear_assemble R rO radd rmul V W form w ub vb0 = Some (mkCoo [rows; cols] data [bN vb; bN ub] lshape) /\
      length rows = Nu * Nv * nt /\ length cols = Nu * Nv * nt /\ length data = Nu * Nv * nt /\
      forall j i e, j < Nu -> i < Nv -> e < nt ->
        nth ((j * Nv + i) * nt + e) rows 0 = nth e (element_dofs vb i) 0 /\
        nth ((j * Nv + i) * nt + e) cols 0 = nth e (element_dofs ub j) 0 /\
        nth ((j * Nv + i) * nt + e) data rO = Kjie R rO radd rmul V W form w ub vb j i e.
  Proof.
    intros vb Nu Nv nt Hu Hv Hnt Hnq.
    destruct (bilinear_assemble_entries R rO radd rmul V W form w ub vb0 Hu Hv Hnt Hnq)
      as [rows [cols [data [E H]]]].
    exists rows, cols, data, [Nv; Nu]. rewrite gen_bilinear_is_model. split; [exact E | exact H].
  Qed.

  Theorem gen_linear_entries form w (vb : basis) :
    let Nv := bNbfun vb in let nt := bnelems vb in
    wf_basis vb ->
    exists rows data lshape,
      gen_linear_assemble R rO radd rmul V W form w vb = Some (mkCoo [rows] data [bN vb] lshape) /\
      length rows = Nv * nt /\ length data = Nv * nt /\
      forall i e, i < Nv -> e < nt ->
        nth (i * nt + e) rows 0 = nth e (element_dofs vb i) 0 /\
        nth (i * nt + e) data rO = Kie R rO radd rmul V W form w vb i e.
  Proof.
    intros Nv nt Hv. destruct (linear_assemble_entries R rO radd rmul V W form w vb Hv) as [rows [data [E H]]].
    exists rows, data, [Nv]. rewrite gen_linear_is_model. split; [exact E | exact H].
  Qed.

  Section Bil.
    Variable form : V -> V -> W -> R.
    Hypothesis form_add_u : forall a b v w, form (vadd a b) v w = radd (form a v w) (form b v w).
    Hypothesis form_scale_u : forall s a v w, form (vscale s a) v w = rmul s (form a v w).
    Hypothesis form_add_v : forall u a b w, form u (vadd a b) w = radd (form u a w) (form u b w).
    Hypothesis form_scale_v : forall s u a w, form u (vscale s a) w = rmul s (form u a w).

    Theorem gen_bilinear_weak_form w (ub : basis) (vb0 : option basis) (u v : nat -> R) :
      let vb := match vb0 with None => ub | Some b => b end in
      wf_basis ub -> wf_basis vb -> bnelems vb = bnelems ub -> bnq vb = bnq ub ->
      exists c A,
        gen_bilinear_assemble R rO radd rmul V W form w ub vb0 = Some c /\
        gen_to_dense2 R rO radd c = Some A /\
        vAu R rO radd rmul v A u (bN vb) (bN ub)
        = integrate R rO radd rmul (bnelems ub) (bnq ub)
            (fun e q => form (interp ub u e q) (interp vb v e q) (w e q)) (bdx ub).
    Proof.
      intros vb Hu Hv Hnt Hnq.
      destruct (bilinear_weak_form R rO rI radd rmul rsub ropp Rth V W vadd vscale form
                  form_add_u form_scale_u form_add_v form_scale_v w ub vb0 u v Hu Hv Hnt Hnq) as [c [A [E [EA H]]]].
      exists c, A. rewrite gen_bilinear_is_model, gen_to_dense2_is_model. auto.
    Qed.

    Theorem gen_forms_consistent w (ub vb : basis) (u v : nat -> R) :
      wf_basis ub -> wf_basis vb -> bnelems vb = bnelems ub -> bnq vb = bnq ub ->
      (forall e q, e < bnelems ub -> q < bnq ub -> bdx vb e q = bdx ub e q) ->
      exists c A cl b,
        gen_bilinear_assemble R rO radd rmul V W form w ub (Some vb) = Some c /\ gen_to_dense2 R rO radd c = Some A /\
        gen_linear_assemble R rO radd rmul V (V * W) (fun a p => form (fst p) a (snd p))
                        (fun e q => (interp ub u e q, w e q)) vb = Some cl /\ gen_to_dense1 R rO radd cl = Some b /\
        vAu R rO radd rmul v A u (bN vb) (bN ub) = bv R rO radd rmul b v (bN vb) /\
        vAu R rO radd rmul v A u (bN vb) (bN ub)
        = gen_to_scalar R rO radd (gen_functional_assemble R rO radd rmul V (V * V * W)
              (fun p => form (fst (fst p)) (snd (fst p)) (snd p))
              (fun e q => (interp ub u e q, interp vb v e q, w e q)) ub).
    Proof.
      intros Hu Hv Hnt Hnq Hdx.
      destruct (forms_consistent R rO rI radd rmul rsub ropp Rth V W vadd vscale form
                  form_add_u form_scale_u form_add_v form_scale_v w ub vb u v Hu Hv Hnt Hnq Hdx)
        as [c [A [cl [b [E [EA [El [Eb [H1 H2]]]]]]]]].
      exists c, A, cl, b.
      rewrite gen_bilinear_is_model, gen_to_dense2_is_model, gen_linear_is_model, gen_to_dense1_is_model,
        gen_to_scalar_is_model, gen_functional_is_model. auto 10.
    Qed.

    Theorem gen_bilinear_weak_form_subset w (ub vb : basis) (tu tv : list nat) (u v : nat -> R) :
      wf_basis ub -> wf_basis vb -> bnq vb = bnq ub -> length tv = length tu ->
      (forall t, In t tu -> t < bnelems ub) -> (forall t, In t tv -> t < bnelems vb) ->
      exists c A,
        gen_bilinear_assemble R rO radd rmul V W form w (subset_basis ub tu) (Some (subset_basis vb tv)) = Some c /\
        gen_to_dense2 R rO radd c = Some A /\
        vAu R rO radd rmul v A u (bN vb) (bN ub)
        = integrate R rO radd rmul (length tu) (bnq ub)
            (fun k q => form (interp ub u (nth k tu 0) q) (interp vb v (nth k tv 0) q) (w k q))
            (fun k q => bdx ub (nth k tu 0) q).
    Proof.
      intros Hu Hv Hnq Hlen Htu Htv.
      destruct (bilinear_weak_form_subset R rO rI radd rmul rsub ropp Rth V W vadd vscale form
                  form_add_u form_scale_u form_add_v form_scale_v w ub vb tu tv u v Hu Hv Hnq Hlen Htu Htv)
        as [c [A [E [EA H]]]].
      exists c, A. rewrite gen_bilinear_is_model, gen_to_dense2_is_model. auto.
    Qed.
  End Bil.

  Section Lin.
    Variable form : V -> W -> R.
    Hypothesis form_add : forall a b w, form (vadd a b) w = radd (form a w) (form b w).
    Hypothesis form_scale : forall s a w, form (vscale s a) w = rmul s (form a w).

    Theorem gen_linear_weak_form w (vb : basis) (v : nat -> R) :
      wf_basis vb ->
      exists c b,
        gen_linear_assemble R rO radd rmul V W form w vb = Some c /\
        gen_to_dense1 R rO radd c = Some b /\
        bv R rO radd rmul b v (bN vb)
        = integrate R rO radd rmul (bnelems vb) (bnq vb) (fun e q => form (interp vb v e q) (w e q)) (bdx vb).
    Proof.
      intros Hv.
      destruct (linear_weak_form R rO rI radd rmul rsub ropp Rth V W vadd vscale form form_add form_scale w vb v Hv)
        as [c [b [E [Eb H]]]].
      exists c, b. rewrite gen_linear_is_model, gen_to_dense1_is_model. auto.
    Qed.
  End Lin.

  Theorem gen_functional_value (W' : Type) (form : W' -> R) (w : nat -> nat -> W') (b : basis) :
    gen_to_scalar R rO radd (gen_functional_assemble R rO radd rmul V W' form w b)
    = integrate R rO radd rmul (bnelems b) (bnq b) (fun e q => form (w e q)) (bdx b).
  Proof.
    rewrite gen_to_scalar_is_model, gen_functional_is_model.
    apply (functional_value R rO rI radd rmul rsub ropp Rth V).
  Qed.
End Transport.
