(* C09Pull — mapped derivatives: the formulas REGENERATED from the gbasis methods (Gen.C09_T2: einsum subscripts of
   element_h1.py / element_hdiv.py / element_hcurl.py and the div / curl scalings) applied to the delivered local
   fields give the true derivatives of the mapped function, for every polynomial, every affine cell map
   x = A X + c with inverse X = G(x) = B x + c' (B A = I), every rational point. *)
From Coq Require Import List Arith ZArith QArith Qfield Bool Lia Ring Field Setoid.
Import ListNotations.
Require Import Base.C09_Poly Base.C09_PolyQ Proofs.C09_ChainProofs Gen.C09_T2.

Definition q_chain := chain_rule_affine Q 0%Q 1%Q Qplus Qmult Qminus Qopp Qeq (fun x => x) Q_Setoid Qreqe Qsrt Qidmorph.
Definition qimage (B : nat -> nat -> Q) (c : nat -> Q) (d : nat) (x : nat -> Q) : nat -> Q :=
  image Q 0%Q 1%Q Qplus Qmult (fun q => q) B c d x.
Definition q_dv_padd := peval_pderiv_padd Q 0%Q 1%Q Qplus Qmult Qminus Qopp Qeq (fun x => x) Q_Setoid Qreqe Qsrt.
Definition q_dv_pscale := peval_pderiv_pscale Q 0%Q 1%Q Qplus Qmult Qminus Qopp Qeq (fun x => x) Q_Setoid Qreqe Qsrt Qidmorph.
Definition q_ev_padd := peval_padd Q 0%Q 1%Q Qplus Qmult Qminus Qopp Qeq (fun x => x) Q_Setoid Qreqe Qsrt.
Definition q_ev_pscale := peval_pscale Q 0%Q 1%Q Qplus Qmult Qminus Qopp Qeq (fun x => x) Q_Setoid Qreqe Qsrt Qidmorph.
Definition q_ev_psubst := peval_psubst Q 0%Q 1%Q Qplus Qmult Qminus Qopp Qeq (fun x => x) Q_Setoid Qreqe Qsrt Qidmorph.

(* tie of ElementHdiv.gbasis: the Piola scale is taken per cell AND per point (1/|det DF| at the same point as DF and phi),
   and the value / div expressions are the ones translated into gen_hdiv_value, gen_hdiv_scale, gen_hdiv_div *)
Lemma tie_hdiv_sites : gen_hdiv_scale_pointwise = true /\ gen_hdiv_sites_as_expected = true.
Proof. split; reflexivity. Qed.

(* the reference point G(x) is the affine image *)
Lemma qimage_affine B c d x j :
  qimage B c d x j == c j + sumn Q 0%Q Qplus (fun k => B j k * x k) d.
Proof. apply (image_is_affine Q 0%Q 1%Q Qplus Qmult Qminus Qopp Qeq (fun q => q) Q_Setoid Qreqe Qsrt Qidmorph). Qed.

(* ---- H1: einsum('ijkl,il->jkl', invDF, dphi) is the gradient of phi o G ---- *)
Theorem h1_pullback1 (p : poly) (B : nat -> nat -> Q) (c : nat -> Q) (x : nat -> Q) :
  mono_len_le 1 p ->
  qeval (pderiv 0 (psubst (aff_map B c 1) p)) x == gen_h1_grad1 B (fun i => qeval (pderiv i p) (qimage B c 1 x)) 0%nat.
Proof.
  intros Hl. unfold qeval. rewrite (q_chain B c 1%nat p 1%nat 0%nat x) by (lia || assumption).
  unfold gen_h1_grad1, qimage. simpl. ring.
Qed.

Theorem h1_pullback2 (p : poly) (B : nat -> nat -> Q) (c : nat -> Q) (x : nat -> Q) (j : nat) :
  mono_len_le 2 p -> (j < 2)%nat ->
  qeval (pderiv j (psubst (aff_map B c 2) p)) x == gen_h1_grad2 B (fun i => qeval (pderiv i p) (qimage B c 2 x)) j.
Proof.
  intros Hl Hj. unfold qeval. rewrite (q_chain B c 2%nat p 2%nat j x) by assumption.
  unfold gen_h1_grad2, qimage. simpl. ring.
Qed.

Theorem h1_pullback3 (p : poly) (B : nat -> nat -> Q) (c : nat -> Q) (x : nat -> Q) (j : nat) :
  mono_len_le 3 p -> (j < 3)%nat ->
  qeval (pderiv j (psubst (aff_map B c 3) p)) x == gen_h1_grad3 B (fun i => qeval (pderiv i p) (qimage B c 3 x)) j.
Proof.
  intros Hl Hj. unfold qeval. rewrite (q_chain B c 3%nat p 3%nat j x) by assumption.
  unfold gen_h1_grad3, qimage. simpl. ring.
Qed.

(* ---- H(div), 2-D: contravariant Piola value and its divergence ---- *)
Definition piola_value2 (A : nat -> nat -> Q) (s : Q) (G : nat -> poly) (f0 f1 : poly) (i : nat) : poly :=
  padd (pscale (A i 0%nat * s) (psubst G f0)) (pscale (A i 1%nat * s) (psubst G f1)).

Lemma piola_value2_is_generated A s B c f0 f1 i x :
  qeval (piola_value2 A s (aff_map B c 2) f0 f1 i) x
  == gen_hdiv_value2 A (fun j => qeval (nth j [f0; f1] []) (qimage B c 2 x)) s i.
Proof.
  unfold piola_value2, qeval, gen_hdiv_value2, qimage. rewrite q_ev_padd, !q_ev_pscale, !q_ev_psubst. simpl nth.
  unfold image. ring.
Qed.

Theorem hdiv_piola_div2 (A B : nat -> nat -> Q) (c : nat -> Q) (s : Q) (f0 f1 : poly) (x : nat -> Q) :
  mono_len_le 2 f0 -> mono_len_le 2 f1 ->
  B 0%nat 0%nat * A 0%nat 0%nat + B 0%nat 1%nat * A 1%nat 0%nat == 1 -> B 0%nat 0%nat * A 0%nat 1%nat + B 0%nat 1%nat * A 1%nat 1%nat == 0 ->
  B 1%nat 0%nat * A 0%nat 0%nat + B 1%nat 1%nat * A 1%nat 0%nat == 0 -> B 1%nat 0%nat * A 0%nat 1%nat + B 1%nat 1%nat * A 1%nat 1%nat == 1 ->
  qeval (pderiv 0 (piola_value2 A s (aff_map B c 2) f0 f1 0)) x + qeval (pderiv 1 (piola_value2 A s (aff_map B c 2) f0 f1 1)) x
  == s * (qeval (pderiv 0 f0) (qimage B c 2 x) + qeval (pderiv 1 f1) (qimage B c 2 x)).
Proof.
  intros L0 L1 H11 H12 H21 H22. unfold piola_value2, qeval.
  rewrite !q_dv_padd, !q_dv_pscale.
  rewrite (q_chain B c 2%nat f0 2%nat 0%nat x), (q_chain B c 2%nat f1 2%nat 0%nat x),
          (q_chain B c 2%nat f0 2%nat 1%nat x), (q_chain B c 2%nat f1 2%nat 1%nat x) by (lia || assumption).
  unfold qimage. simpl sumn.
  set (D00 := peval Q 0 1 Qplus Qmult (fun q => q) (pderiv 0 f0) _).
  set (D10 := peval Q 0 1 Qplus Qmult (fun q => q) (pderiv 1 f0) _).
  set (D01 := peval Q 0 1 Qplus Qmult (fun q => q) (pderiv 0 f1) _).
  set (D11 := peval Q 0 1 Qplus Qmult (fun q => q) (pderiv 1 f1) _).
  transitivity (s * (D00 * (B 0%nat 0%nat * A 0%nat 0%nat + B 0%nat 1%nat * A 1%nat 0%nat)
                     + D10 * (B 1%nat 0%nat * A 0%nat 0%nat + B 1%nat 1%nat * A 1%nat 0%nat)
                     + D01 * (B 0%nat 0%nat * A 0%nat 1%nat + B 0%nat 1%nat * A 1%nat 1%nat)
                     + D11 * (B 1%nat 0%nat * A 0%nat 1%nat + B 1%nat 1%nat * A 1%nat 1%nat))); [ring|].
  rewrite H11, H12, H21, H22. ring.
Qed.

(* the delivered div = dphi / (|det| * orient) is (reference div) * the scale (1/|det|) * orient used for the value,
   because orient = +-1 *)
Theorem hdiv_div_scale (dphi absdet orient : Q) :
  orient * orient == 1 -> ~ absdet == 0 -> gen_hdiv_div dphi absdet orient == dphi * gen_hdiv_scale absdet orient.
Proof.
  intros Ho Ha. unfold gen_hdiv_div, gen_hdiv_scale.
  assert (Hne : ~ orient == 0). { intros E. rewrite E in Ho. discriminate Ho. }
  assert (E : dphi * (1 / absdet * orient) == dphi * (orient * orient) / (absdet * orient)) by (field; split; assumption).
  rewrite E, Ho. field. split; assumption.
Qed.

(* ---- H(curl), 2-D: covariant value and its scalar curl ---- *)
Definition cov_value2 (B : nat -> nat -> Q) (o : Q) (G : nat -> poly) (f0 f1 : poly) (j : nat) : poly :=
  padd (pscale (B 0%nat j * o) (psubst G f0)) (pscale (B 1%nat j * o) (psubst G f1)).

Lemma cov_value2_is_generated B o c f0 f1 j x :
  qeval (cov_value2 B o (aff_map B c 2) f0 f1 j) x
  == gen_hcurl_value2 B (fun i => qeval (nth i [f0; f1] []) (qimage B c 2 x)) o j.
Proof.
  unfold cov_value2, qeval, gen_hcurl_value2, qimage. rewrite q_ev_padd, !q_ev_pscale, !q_ev_psubst. simpl nth.
  unfold image. ring.
Qed.

Theorem hcurl_cov_curl2 (B : nat -> nat -> Q) (c : nat -> Q) (o : Q) (f0 f1 : poly) (x : nat -> Q) :
  mono_len_le 2 f0 -> mono_len_le 2 f1 ->
  qeval (pderiv 0 (cov_value2 B o (aff_map B c 2) f0 f1 1)) x - qeval (pderiv 1 (cov_value2 B o (aff_map B c 2) f0 f1 0)) x
  == o * (B 0%nat 0%nat * B 1%nat 1%nat - B 0%nat 1%nat * B 1%nat 0%nat)
       * (qeval (pderiv 0 f1) (qimage B c 2 x) - qeval (pderiv 1 f0) (qimage B c 2 x)).
Proof.
  intros L0 L1. unfold cov_value2, qeval.
  rewrite !q_dv_padd, !q_dv_pscale.
  rewrite (q_chain B c 2%nat f0 2%nat 0%nat x), (q_chain B c 2%nat f1 2%nat 0%nat x),
          (q_chain B c 2%nat f0 2%nat 1%nat x), (q_chain B c 2%nat f1 2%nat 1%nat x) by (lia || assumption).
  unfold qimage. simpl sumn. ring.
Qed.

(* delivered curl = dphi / detDF * orient with detDF = det A = 1 / det B *)
Theorem hcurl_curl2_scale (dphi detDF orient detB : Q) :
  detDF * detB == 1 -> gen_hcurl_curl2 dphi detDF orient == orient * detB * dphi.
Proof.
  intros H. unfold gen_hcurl_curl2.
  assert (Hne : ~ detDF == 0). { intros E. rewrite E in H. ring_simplify in H. discriminate H. }
  assert (E : orient * detB * dphi == orient * (detDF * detB) * dphi / detDF) by (field; assumption).
  rewrite E, H. field. assumption.
Qed.

(* ---- H(div), 3-D ---- *)
Definition piola_value3 (A : nat -> nat -> Q) (s : Q) (G : nat -> poly) (f0 f1 f2 : poly) (i : nat) : poly :=
  padd (pscale (A i 0%nat * s) (psubst G f0)) (padd (pscale (A i 1%nat * s) (psubst G f1)) (pscale (A i 2%nat * s) (psubst G f2))).

Lemma piola_value3_is_generated A s B c f0 f1 f2 i x :
  qeval (piola_value3 A s (aff_map B c 3) f0 f1 f2 i) x
  == gen_hdiv_value3 A (fun j => qeval (nth j [f0; f1; f2] []) (qimage B c 3 x)) s i.
Proof.
  unfold piola_value3, qeval, gen_hdiv_value3, qimage. rewrite !q_ev_padd, !q_ev_pscale, !q_ev_psubst. simpl nth.
  unfold image. ring.
Qed.

Theorem hdiv_piola_div3 (A B : nat -> nat -> Q) (c : nat -> Q) (s : Q) (f0 f1 f2 : poly) (x : nat -> Q) :
  mono_len_le 3 f0 -> mono_len_le 3 f1 -> mono_len_le 3 f2 ->
  B 0%nat 0%nat * A 0%nat 0%nat + B 0%nat 1%nat * A 1%nat 0%nat + B 0%nat 2%nat * A 2%nat 0%nat == 1 ->
  B 0%nat 0%nat * A 0%nat 1%nat + B 0%nat 1%nat * A 1%nat 1%nat + B 0%nat 2%nat * A 2%nat 1%nat == 0 ->
  B 0%nat 0%nat * A 0%nat 2%nat + B 0%nat 1%nat * A 1%nat 2%nat + B 0%nat 2%nat * A 2%nat 2%nat == 0 ->
  B 1%nat 0%nat * A 0%nat 0%nat + B 1%nat 1%nat * A 1%nat 0%nat + B 1%nat 2%nat * A 2%nat 0%nat == 0 ->
  B 1%nat 0%nat * A 0%nat 1%nat + B 1%nat 1%nat * A 1%nat 1%nat + B 1%nat 2%nat * A 2%nat 1%nat == 1 ->
  B 1%nat 0%nat * A 0%nat 2%nat + B 1%nat 1%nat * A 1%nat 2%nat + B 1%nat 2%nat * A 2%nat 2%nat == 0 ->
  B 2%nat 0%nat * A 0%nat 0%nat + B 2%nat 1%nat * A 1%nat 0%nat + B 2%nat 2%nat * A 2%nat 0%nat == 0 ->
  B 2%nat 0%nat * A 0%nat 1%nat + B 2%nat 1%nat * A 1%nat 1%nat + B 2%nat 2%nat * A 2%nat 1%nat == 0 ->
  B 2%nat 0%nat * A 0%nat 2%nat + B 2%nat 1%nat * A 1%nat 2%nat + B 2%nat 2%nat * A 2%nat 2%nat == 1 ->
  qeval (pderiv 0 (piola_value3 A s (aff_map B c 3) f0 f1 f2 0)) x
  + qeval (pderiv 1 (piola_value3 A s (aff_map B c 3) f0 f1 f2 1)) x
  + qeval (pderiv 2 (piola_value3 A s (aff_map B c 3) f0 f1 f2 2)) x
  == s * (qeval (pderiv 0 f0) (qimage B c 3 x) + qeval (pderiv 1 f1) (qimage B c 3 x) + qeval (pderiv 2 f2) (qimage B c 3 x)).
Proof.
  intros L0 L1 L2 H11 H12 H13 H21 H22 H23 H31 H32 H33. unfold piola_value3, qeval.
  rewrite !q_dv_padd, !q_dv_pscale.
  rewrite (q_chain B c 3%nat f0 3%nat 0%nat x), (q_chain B c 3%nat f1 3%nat 0%nat x), (q_chain B c 3%nat f2 3%nat 0%nat x),
          (q_chain B c 3%nat f0 3%nat 1%nat x), (q_chain B c 3%nat f1 3%nat 1%nat x), (q_chain B c 3%nat f2 3%nat 1%nat x),
          (q_chain B c 3%nat f0 3%nat 2%nat x), (q_chain B c 3%nat f1 3%nat 2%nat x), (q_chain B c 3%nat f2 3%nat 2%nat x)
    by (lia || assumption).
  unfold qimage. simpl sumn.
  set (D00 := peval Q 0 1 Qplus Qmult (fun q => q) (pderiv 0 f0) _). set (D10 := peval Q 0 1 Qplus Qmult (fun q => q) (pderiv 1 f0) _).
  set (D20 := peval Q 0 1 Qplus Qmult (fun q => q) (pderiv 2 f0) _). set (D01 := peval Q 0 1 Qplus Qmult (fun q => q) (pderiv 0 f1) _).
  set (D11 := peval Q 0 1 Qplus Qmult (fun q => q) (pderiv 1 f1) _). set (D21 := peval Q 0 1 Qplus Qmult (fun q => q) (pderiv 2 f1) _).
  set (D02 := peval Q 0 1 Qplus Qmult (fun q => q) (pderiv 0 f2) _). set (D12 := peval Q 0 1 Qplus Qmult (fun q => q) (pderiv 1 f2) _).
  set (D22 := peval Q 0 1 Qplus Qmult (fun q => q) (pderiv 2 f2) _).
  transitivity (s * (
      D00 * (B 0%nat 0%nat * A 0%nat 0%nat + B 0%nat 1%nat * A 1%nat 0%nat + B 0%nat 2%nat * A 2%nat 0%nat)
    + D10 * (B 1%nat 0%nat * A 0%nat 0%nat + B 1%nat 1%nat * A 1%nat 0%nat + B 1%nat 2%nat * A 2%nat 0%nat)
    + D20 * (B 2%nat 0%nat * A 0%nat 0%nat + B 2%nat 1%nat * A 1%nat 0%nat + B 2%nat 2%nat * A 2%nat 0%nat)
    + D01 * (B 0%nat 0%nat * A 0%nat 1%nat + B 0%nat 1%nat * A 1%nat 1%nat + B 0%nat 2%nat * A 2%nat 1%nat)
    + D11 * (B 1%nat 0%nat * A 0%nat 1%nat + B 1%nat 1%nat * A 1%nat 1%nat + B 1%nat 2%nat * A 2%nat 1%nat)
    + D21 * (B 2%nat 0%nat * A 0%nat 1%nat + B 2%nat 1%nat * A 1%nat 1%nat + B 2%nat 2%nat * A 2%nat 1%nat)
    + D02 * (B 0%nat 0%nat * A 0%nat 2%nat + B 0%nat 1%nat * A 1%nat 2%nat + B 0%nat 2%nat * A 2%nat 2%nat)
    + D12 * (B 1%nat 0%nat * A 0%nat 2%nat + B 1%nat 1%nat * A 1%nat 2%nat + B 1%nat 2%nat * A 2%nat 2%nat)
    + D22 * (B 2%nat 0%nat * A 0%nat 2%nat + B 2%nat 1%nat * A 1%nat 2%nat + B 2%nat 2%nat * A 2%nat 2%nat))); [ring|].
  rewrite H11, H12, H13, H21, H22, H23, H31, H32, H33. ring.
Qed.

(* ---- H(curl), 3-D: covariant value v = B^T (f o G) o and its curl = o det(B) A (curl f) o G, where A is the inverse
   of B given through the cofactor relations (row_m(B) x row_i(B))_a = det(B) A_(a,l) for (m,i,l) cyclic, i.e.
   A det(B) = adj(B).  The delivered curl is einsum('ijkl,jl,kl->ikl', DF, dphi, 1/detDF*orient) with DF = A and
   detDF det(B) = 1. ---- *)
Definition cov_value3 (B : nat -> nat -> Q) (o : Q) (G : nat -> poly) (f0 f1 f2 : poly) (j : nat) : poly :=
  padd (pscale (B 0%nat j * o) (psubst G f0)) (padd (pscale (B 1%nat j * o) (psubst G f1)) (pscale (B 2%nat j * o) (psubst G f2))).

Lemma cov_value3_is_generated B o c f0 f1 f2 j x :
  qeval (cov_value3 B o (aff_map B c 3) f0 f1 f2 j) x
  == gen_hcurl_value3 B (fun i => qeval (nth i [f0; f1; f2] []) (qimage B c 3 x)) o j.
Proof.
  unfold cov_value3, qeval, gen_hcurl_value3, qimage. rewrite !q_ev_padd, !q_ev_pscale, !q_ev_psubst. simpl nth.
  unfold image. ring.
Qed.

Definition curl_comp (f0 f1 f2 : poly) (l : nat) (y : nat -> Q) : Q :=
  match l with
  | 0%nat => qeval (pderiv 1 f2) y - qeval (pderiv 2 f1) y
  | 1%nat => qeval (pderiv 2 f0) y - qeval (pderiv 0 f2) y
  | _ => qeval (pderiv 0 f1) y - qeval (pderiv 1 f0) y
  end.

Theorem hcurl_cov_curl3_0 (A B : nat -> nat -> Q) (c : nat -> Q) (o detB : Q) (f0 f1 f2 : poly) (x : nat -> Q) :
  mono_len_le 3 f0 -> mono_len_le 3 f1 -> mono_len_le 3 f2 ->
  B 1%nat 1%nat * B 2%nat 2%nat - B 1%nat 2%nat * B 2%nat 1%nat == detB * A 0%nat 0%nat ->
  B 2%nat 1%nat * B 0%nat 2%nat - B 2%nat 2%nat * B 0%nat 1%nat == detB * A 0%nat 1%nat ->
  B 0%nat 1%nat * B 1%nat 2%nat - B 0%nat 2%nat * B 1%nat 1%nat == detB * A 0%nat 2%nat ->
  qeval (pderiv 1 (cov_value3 B o (aff_map B c 3) f0 f1 f2 2)) x - qeval (pderiv 2 (cov_value3 B o (aff_map B c 3) f0 f1 f2 1)) x
  == o * detB * (A 0%nat 0%nat * curl_comp f0 f1 f2 0 (qimage B c 3 x) + A 0%nat 1%nat * curl_comp f0 f1 f2 1 (qimage B c 3 x)
                 + A 0%nat 2%nat * curl_comp f0 f1 f2 2 (qimage B c 3 x)).
Proof.
  intros L0 L1 L2 H0 H1 H2. unfold cov_value3, curl_comp, qeval.
  rewrite !q_dv_padd, !q_dv_pscale.
  rewrite (q_chain B c 3%nat f0 3%nat 1%nat x), (q_chain B c 3%nat f1 3%nat 1%nat x), (q_chain B c 3%nat f2 3%nat 1%nat x),
          (q_chain B c 3%nat f0 3%nat 2%nat x), (q_chain B c 3%nat f1 3%nat 2%nat x), (q_chain B c 3%nat f2 3%nat 2%nat x)
    by (lia || assumption).
  unfold qimage. simpl sumn.
  set (D00 := peval Q 0 1 Qplus Qmult (fun q => q) (pderiv 0 f0) _). set (D10 := peval Q 0 1 Qplus Qmult (fun q => q) (pderiv 1 f0) _).
  set (D20 := peval Q 0 1 Qplus Qmult (fun q => q) (pderiv 2 f0) _). set (D01 := peval Q 0 1 Qplus Qmult (fun q => q) (pderiv 0 f1) _).
  set (D11 := peval Q 0 1 Qplus Qmult (fun q => q) (pderiv 1 f1) _). set (D21 := peval Q 0 1 Qplus Qmult (fun q => q) (pderiv 2 f1) _).
  set (D02 := peval Q 0 1 Qplus Qmult (fun q => q) (pderiv 0 f2) _). set (D12 := peval Q 0 1 Qplus Qmult (fun q => q) (pderiv 1 f2) _).
  set (D22 := peval Q 0 1 Qplus Qmult (fun q => q) (pderiv 2 f2) _).
  transitivity (o * ((D12 - D21) * (B 1%nat 1%nat * B 2%nat 2%nat - B 1%nat 2%nat * B 2%nat 1%nat)
                     + (D20 - D02) * (B 2%nat 1%nat * B 0%nat 2%nat - B 2%nat 2%nat * B 0%nat 1%nat)
                     + (D01 - D10) * (B 0%nat 1%nat * B 1%nat 2%nat - B 0%nat 2%nat * B 1%nat 1%nat))); [ring|].
  rewrite H0, H1, H2. ring.
Qed.

Theorem hcurl_cov_curl3_1 (A B : nat -> nat -> Q) (c : nat -> Q) (o detB : Q) (f0 f1 f2 : poly) (x : nat -> Q) :
  mono_len_le 3 f0 -> mono_len_le 3 f1 -> mono_len_le 3 f2 ->
  B 1%nat 2%nat * B 2%nat 0%nat - B 1%nat 0%nat * B 2%nat 2%nat == detB * A 1%nat 0%nat ->
  B 2%nat 2%nat * B 0%nat 0%nat - B 2%nat 0%nat * B 0%nat 2%nat == detB * A 1%nat 1%nat ->
  B 0%nat 2%nat * B 1%nat 0%nat - B 0%nat 0%nat * B 1%nat 2%nat == detB * A 1%nat 2%nat ->
  qeval (pderiv 2 (cov_value3 B o (aff_map B c 3) f0 f1 f2 0)) x - qeval (pderiv 0 (cov_value3 B o (aff_map B c 3) f0 f1 f2 2)) x
  == o * detB * (A 1%nat 0%nat * curl_comp f0 f1 f2 0 (qimage B c 3 x) + A 1%nat 1%nat * curl_comp f0 f1 f2 1 (qimage B c 3 x)
                 + A 1%nat 2%nat * curl_comp f0 f1 f2 2 (qimage B c 3 x)).
Proof.
  intros L0 L1 L2 H0 H1 H2. unfold cov_value3, curl_comp, qeval.
  rewrite !q_dv_padd, !q_dv_pscale.
  rewrite (q_chain B c 3%nat f0 3%nat 2%nat x), (q_chain B c 3%nat f1 3%nat 2%nat x), (q_chain B c 3%nat f2 3%nat 2%nat x),
          (q_chain B c 3%nat f0 3%nat 0%nat x), (q_chain B c 3%nat f1 3%nat 0%nat x), (q_chain B c 3%nat f2 3%nat 0%nat x)
    by (lia || assumption).
  unfold qimage. simpl sumn.
  set (D00 := peval Q 0 1 Qplus Qmult (fun q => q) (pderiv 0 f0) _). set (D10 := peval Q 0 1 Qplus Qmult (fun q => q) (pderiv 1 f0) _).
  set (D20 := peval Q 0 1 Qplus Qmult (fun q => q) (pderiv 2 f0) _). set (D01 := peval Q 0 1 Qplus Qmult (fun q => q) (pderiv 0 f1) _).
  set (D11 := peval Q 0 1 Qplus Qmult (fun q => q) (pderiv 1 f1) _). set (D21 := peval Q 0 1 Qplus Qmult (fun q => q) (pderiv 2 f1) _).
  set (D02 := peval Q 0 1 Qplus Qmult (fun q => q) (pderiv 0 f2) _). set (D12 := peval Q 0 1 Qplus Qmult (fun q => q) (pderiv 1 f2) _).
  set (D22 := peval Q 0 1 Qplus Qmult (fun q => q) (pderiv 2 f2) _).
  transitivity (o * ((D12 - D21) * (B 1%nat 2%nat * B 2%nat 0%nat - B 1%nat 0%nat * B 2%nat 2%nat)
                     + (D20 - D02) * (B 2%nat 2%nat * B 0%nat 0%nat - B 2%nat 0%nat * B 0%nat 2%nat)
                     + (D01 - D10) * (B 0%nat 2%nat * B 1%nat 0%nat - B 0%nat 0%nat * B 1%nat 2%nat))); [ring|].
  rewrite H0, H1, H2. ring.
Qed.

Theorem hcurl_cov_curl3_2 (A B : nat -> nat -> Q) (c : nat -> Q) (o detB : Q) (f0 f1 f2 : poly) (x : nat -> Q) :
  mono_len_le 3 f0 -> mono_len_le 3 f1 -> mono_len_le 3 f2 ->
  B 1%nat 0%nat * B 2%nat 1%nat - B 1%nat 1%nat * B 2%nat 0%nat == detB * A 2%nat 0%nat ->
  B 2%nat 0%nat * B 0%nat 1%nat - B 2%nat 1%nat * B 0%nat 0%nat == detB * A 2%nat 1%nat ->
  B 0%nat 0%nat * B 1%nat 1%nat - B 0%nat 1%nat * B 1%nat 0%nat == detB * A 2%nat 2%nat ->
  qeval (pderiv 0 (cov_value3 B o (aff_map B c 3) f0 f1 f2 1)) x - qeval (pderiv 1 (cov_value3 B o (aff_map B c 3) f0 f1 f2 0)) x
  == o * detB * (A 2%nat 0%nat * curl_comp f0 f1 f2 0 (qimage B c 3 x) + A 2%nat 1%nat * curl_comp f0 f1 f2 1 (qimage B c 3 x)
                 + A 2%nat 2%nat * curl_comp f0 f1 f2 2 (qimage B c 3 x)).
Proof.
  intros L0 L1 L2 H0 H1 H2. unfold cov_value3, curl_comp, qeval.
  rewrite !q_dv_padd, !q_dv_pscale.
  rewrite (q_chain B c 3%nat f0 3%nat 0%nat x), (q_chain B c 3%nat f1 3%nat 0%nat x), (q_chain B c 3%nat f2 3%nat 0%nat x),
          (q_chain B c 3%nat f0 3%nat 1%nat x), (q_chain B c 3%nat f1 3%nat 1%nat x), (q_chain B c 3%nat f2 3%nat 1%nat x)
    by (lia || assumption).
  unfold qimage. simpl sumn.
  set (D00 := peval Q 0 1 Qplus Qmult (fun q => q) (pderiv 0 f0) _). set (D10 := peval Q 0 1 Qplus Qmult (fun q => q) (pderiv 1 f0) _).
  set (D20 := peval Q 0 1 Qplus Qmult (fun q => q) (pderiv 2 f0) _). set (D01 := peval Q 0 1 Qplus Qmult (fun q => q) (pderiv 0 f1) _).
  set (D11 := peval Q 0 1 Qplus Qmult (fun q => q) (pderiv 1 f1) _). set (D21 := peval Q 0 1 Qplus Qmult (fun q => q) (pderiv 2 f1) _).
  set (D02 := peval Q 0 1 Qplus Qmult (fun q => q) (pderiv 0 f2) _). set (D12 := peval Q 0 1 Qplus Qmult (fun q => q) (pderiv 1 f2) _).
  set (D22 := peval Q 0 1 Qplus Qmult (fun q => q) (pderiv 2 f2) _).
  transitivity (o * ((D12 - D21) * (B 1%nat 0%nat * B 2%nat 1%nat - B 1%nat 1%nat * B 2%nat 0%nat)
                     + (D20 - D02) * (B 2%nat 0%nat * B 0%nat 1%nat - B 2%nat 1%nat * B 0%nat 0%nat)
                     + (D01 - D10) * (B 0%nat 0%nat * B 1%nat 1%nat - B 0%nat 1%nat * B 1%nat 0%nat))); [ring|].
  rewrite H0, H1, H2. ring.
Qed.

(* delivered 3-D curl: the regenerated einsum with c = 1/detDF * orient, DF = A, detDF det(B) = 1 *)
Theorem hcurl_curl3_scale (A : nat -> nat -> Q) (dphi : nat -> Q) (detDF orient detB : Q) (i : nat) :
  detDF * detB == 1 ->
  gen_hcurl_curl3 A dphi (gen_hcurl_scale detDF orient) i
  == orient * detB * (A i 0%nat * dphi 0%nat + A i 1%nat * dphi 1%nat + A i 2%nat * dphi 2%nat).
Proof.
  intros H. unfold gen_hcurl_curl3, gen_hcurl_scale.
  assert (Hne : ~ detDF == 0). { intros E. rewrite E in H. ring_simplify in H. discriminate H. }
  assert (E2 : 1 / detDF * orient == orient * detB).
  { assert (E3 : orient * detB == orient * (detDF * detB) / detDF) by (field; assumption). rewrite E3, H. field. assumption. }
  rewrite E2. ring.
Qed.

(* ---- matrix Piola map (ElementMatrix: Hellan-Herrmann-Johnson), affine cells: the delivered value is
   einsum('ijkl,jal,bakl,kl->ibkl', DF, phi, DF, 1/|det|^2) = J S J^T / det^2 (regenerated); contracted twice with the
   covariantly mapped normal n = B^T N (B J = I) it returns c * N^T S N: the normal-normal component is the reference
   normal-normal component times the scalar factor — what the normal-normal continuity of the element rests on ---- *)
Theorem matrix_piola_normal_normal2 (J B S : nat -> nat -> Q) (N : nat -> Q) (c : Q) :
  B 0%nat 0%nat * J 0%nat 0%nat + B 0%nat 1%nat * J 1%nat 0%nat == 1 ->
  B 0%nat 0%nat * J 0%nat 1%nat + B 0%nat 1%nat * J 1%nat 1%nat == 0 ->
  B 1%nat 0%nat * J 0%nat 0%nat + B 1%nat 1%nat * J 1%nat 0%nat == 0 ->
  B 1%nat 0%nat * J 0%nat 1%nat + B 1%nat 1%nat * J 1%nat 1%nat == 1 ->
  (B 0%nat 0%nat * N 0%nat + B 1%nat 0%nat * N 1%nat) * gen_matrix_value2 J S J c 0%nat 0%nat * (B 0%nat 0%nat * N 0%nat + B 1%nat 0%nat * N 1%nat) + (B 0%nat 0%nat * N 0%nat + B 1%nat 0%nat * N 1%nat) * gen_matrix_value2 J S J c 0%nat 1%nat * (B 0%nat 1%nat * N 0%nat + B 1%nat 1%nat * N 1%nat) + (B 0%nat 1%nat * N 0%nat + B 1%nat 1%nat * N 1%nat) * gen_matrix_value2 J S J c 1%nat 0%nat * (B 0%nat 0%nat * N 0%nat + B 1%nat 0%nat * N 1%nat) + (B 0%nat 1%nat * N 0%nat + B 1%nat 1%nat * N 1%nat) * gen_matrix_value2 J S J c 1%nat 1%nat * (B 0%nat 1%nat * N 0%nat + B 1%nat 1%nat * N 1%nat)
  == c * (N 0%nat * S 0%nat 0%nat * N 0%nat + N 0%nat * S 0%nat 1%nat * N 1%nat + N 1%nat * S 1%nat 0%nat * N 0%nat + N 1%nat * S 1%nat 1%nat * N 1%nat).
Proof.
  intros H00 H01 H10 H11. unfold gen_matrix_value2.
  transitivity (c * ((N 0%nat * (B 0%nat 0%nat * J 0%nat 0%nat + B 0%nat 1%nat * J 1%nat 0%nat) + N 1%nat * (B 1%nat 0%nat * J 0%nat 0%nat + B 1%nat 1%nat * J 1%nat 0%nat)) * S 0%nat 0%nat * (N 0%nat * (B 0%nat 0%nat * J 0%nat 0%nat + B 0%nat 1%nat * J 1%nat 0%nat) + N 1%nat * (B 1%nat 0%nat * J 0%nat 0%nat + B 1%nat 1%nat * J 1%nat 0%nat)) + (N 0%nat * (B 0%nat 0%nat * J 0%nat 0%nat + B 0%nat 1%nat * J 1%nat 0%nat) + N 1%nat * (B 1%nat 0%nat * J 0%nat 0%nat + B 1%nat 1%nat * J 1%nat 0%nat)) * S 0%nat 1%nat * (N 0%nat * (B 0%nat 0%nat * J 0%nat 1%nat + B 0%nat 1%nat * J 1%nat 1%nat) + N 1%nat * (B 1%nat 0%nat * J 0%nat 1%nat + B 1%nat 1%nat * J 1%nat 1%nat)) + (N 0%nat * (B 0%nat 0%nat * J 0%nat 1%nat + B 0%nat 1%nat * J 1%nat 1%nat) + N 1%nat * (B 1%nat 0%nat * J 0%nat 1%nat + B 1%nat 1%nat * J 1%nat 1%nat)) * S 1%nat 0%nat * (N 0%nat * (B 0%nat 0%nat * J 0%nat 0%nat + B 0%nat 1%nat * J 1%nat 0%nat) + N 1%nat * (B 1%nat 0%nat * J 0%nat 0%nat + B 1%nat 1%nat * J 1%nat 0%nat)) + (N 0%nat * (B 0%nat 0%nat * J 0%nat 1%nat + B 0%nat 1%nat * J 1%nat 1%nat) + N 1%nat * (B 1%nat 0%nat * J 0%nat 1%nat + B 1%nat 1%nat * J 1%nat 1%nat)) * S 1%nat 1%nat * (N 0%nat * (B 0%nat 0%nat * J 0%nat 1%nat + B 0%nat 1%nat * J 1%nat 1%nat) + N 1%nat * (B 1%nat 0%nat * J 0%nat 1%nat + B 1%nat 1%nat * J 1%nat 1%nat)))); [ring|].
  rewrite H00, H01, H10, H11. ring.
Qed.

Theorem matrix_value_is_J_S_Jt (J S : nat -> nat -> Q) (c : Q) (i b : nat) :
  gen_matrix_value2 J S J c i b
  == c * (J i 0%nat * S 0%nat 0%nat * J b 0%nat + J i 0%nat * S 0%nat 1%nat * J b 1%nat
          + J i 1%nat * S 1%nat 0%nat * J b 0%nat + J i 1%nat * S 1%nat 1%nat * J b 1%nat).
Proof. unfold gen_matrix_value2. ring. Qed.
