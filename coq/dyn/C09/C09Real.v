(* C09Real — the per-element identities at REAL points and the derivative of analysis (Coquelicot is_derive). *)
From Coq Require Import Reals QArith Qreals List Arith Lia Ring_theory Setoid.
From Coquelicot Require Import Coquelicot.
Import ListNotations.
Require Import Base.C09_Poly Base.C09_PolyReal Model.C09_Elem Proofs.C09_ElemProofs Gen.C09_Elements.
Open Scope R_scope.

Definition r_deriv_ok_sound := deriv_ok_sound R 0 1 Rplus Rmult Rminus Ropp (@eq R) Q2R eq_equivalence Rreqe Rrth Q2Rmorph.

(* H1 family: each delivered gradient component IS the partial derivative of the delivered value,
   at every real point *)
Theorem h1_grad_is_derive e : In e all_elements -> forall p grad, In (BH1 p grad) (e_basis e) ->
  forall k, (k < e_dim e)%nat -> forall pt : nat -> R,
    is_derive (fun t => reval p (upd pt k t)) (pt k) (reval (nthp grad k) pt).
Proof.
  intros He p grad Hb k Hk pt.
  destruct (r_deriv_ok_sound e (proj1 (Forall_forall _ _) all_deriv_ok e He) _ Hb) as [_ Hg].
  unfold reval. rewrite (Hg k Hk pt). apply pderiv_is_derive.
Qed.

(* H(div) family: the delivered div is the sum of the partial derivatives (Derive) of the delivered components *)
Theorem hdiv_div_is_divergence e : In e all_elements -> forall v dv, In (BHdiv v dv) (e_basis e) ->
  forall pt : nat -> R,
    reval dv pt = rsum R 0 Rplus (fun k => Derive (fun t => reval (nthp v k) (upd pt k t)) (pt k)) (seq 0 (e_dim e)).
Proof.
  intros He v dv Hb pt.
  destruct (r_deriv_ok_sound e (proj1 (Forall_forall _ _) all_deriv_ok e He) _ Hb) as [_ Hd].
  unfold reval. rewrite (Hd pt). clear Hd. unfold rsum.
  generalize (seq 0 (e_dim e)). intros l.
  induction l as [|k l IH]; simpl; [reflexivity|].
  rewrite IH, Derive_reval. reflexivity.
Qed.

(* H(curl) 2-D: delivered curl = d_0 phi_1 - d_1 phi_0 with derivatives of analysis *)
Theorem hcurl2_curl_is_curl e : In e all_elements -> forall v cl, In (BHcurl2 v cl) (e_basis e) ->
  forall pt : nat -> R,
    reval cl pt = Derive (fun t => reval (nthp v 1) (upd pt 0 t)) (pt 0%nat)
                  - Derive (fun t => reval (nthp v 0) (upd pt 1 t)) (pt 1%nat).
Proof.
  intros He v cl Hb pt.
  destruct (r_deriv_ok_sound e (proj1 (Forall_forall _ _) all_deriv_ok e He) _ Hb) as [_ [_ Hc]].
  unfold reval. rewrite (Hc pt), !Derive_reval. unfold reval. ring.
Qed.
