(* C09Mapped — the mapped-derivative theorems of C09Pull instantiated at the element polynomials regenerated from
   the source: what gbasis delivers on an affine cell is the true derivative of what it delivers as value. *)
From Coq Require Import List Arith ZArith QArith Bool Lia Setoid.
Import ListNotations.
Require Import Base.C09_Poly Base.C09_PolyQ Model.C09_Elem Proofs.C09_ElemProofs Proofs.C09_ChainProofs.
Require Import Gen.C09_T2 Gen.C09_Elements Dyn.C09Pull Proofs.C09_PiolaProofs.

Lemma elem_poly_len e : In e all_elements -> forall b, In b (e_basis e) -> forall p, In p (bfun_polys b) -> mono_len_le (e_dim e) p.
Proof. intros He b Hb p Hp. exact (vars_ok_sound e (proj1 (Forall_forall _ _) all_vars_ok e He) b Hb p Hp). Qed.

Lemma elem_h1_grad e : In e all_elements -> forall p grad, In (BH1 p grad) (e_basis e) ->
  forall k, (k < e_dim e)%nat -> forall pt, qeval (nthp grad k) pt == qeval (pderiv k p) pt.
Proof.
  intros He p grad Hb. exact (proj2 (q_deriv_ok_sound e (proj1 (Forall_forall _ _) all_deriv_ok e He) _ Hb)).
Qed.

(* H1 family: grad delivered by gbasis = einsum(invDF, delivered local grad at the reference point) is the
   gradient of the delivered value phi o G, on every affine cell, at every rational point *)
Theorem h1_mapped_gradient2 e : In e all_elements -> e_dim e = 2%nat ->
  forall p grad, In (BH1 p grad) (e_basis e) ->
  forall (B : nat -> nat -> Q) (c x : nat -> Q) (j : nat), (j < 2)%nat ->
    qeval (pderiv j (psubst (aff_map B c 2) p)) x
    == gen_h1_grad2 B (fun i => qeval (nthp grad i) (qimage B c 2 x)) j.
Proof.
  intros He Hd p grad Hb B c x j Hj.
  assert (Hl : mono_len_le 2 p). { rewrite <- Hd. apply (elem_poly_len e He _ Hb). simpl. now left. }
  rewrite (h1_pullback2 p B c x j Hl Hj). unfold gen_h1_grad2.
  rewrite (elem_h1_grad e He p grad Hb 0%nat), (elem_h1_grad e He p grad Hb 1%nat) by lia. reflexivity.
Qed.

Theorem h1_mapped_gradient3 e : In e all_elements -> e_dim e = 3%nat ->
  forall p grad, In (BH1 p grad) (e_basis e) ->
  forall (B : nat -> nat -> Q) (c x : nat -> Q) (j : nat), (j < 3)%nat ->
    qeval (pderiv j (psubst (aff_map B c 3) p)) x
    == gen_h1_grad3 B (fun i => qeval (nthp grad i) (qimage B c 3 x)) j.
Proof.
  intros He Hd p grad Hb B c x j Hj.
  assert (Hl : mono_len_le 3 p). { rewrite <- Hd. apply (elem_poly_len e He _ Hb). simpl. now left. }
  rewrite (h1_pullback3 p B c x j Hl Hj). unfold gen_h1_grad3.
  rewrite (elem_h1_grad e He p grad Hb 0%nat), (elem_h1_grad e He p grad Hb 1%nat), (elem_h1_grad e He p grad Hb 2%nat) by lia.
  reflexivity.
Qed.

Theorem h1_mapped_gradient1 e : In e all_elements -> e_dim e = 1%nat ->
  forall p grad, In (BH1 p grad) (e_basis e) ->
  forall (B : nat -> nat -> Q) (c x : nat -> Q),
    qeval (pderiv 0 (psubst (aff_map B c 1) p)) x
    == gen_h1_grad1 B (fun i => qeval (nthp grad i) (qimage B c 1 x)) 0%nat.
Proof.
  intros He Hd p grad Hb B c x.
  assert (Hl : mono_len_le 1 p). { rewrite <- Hd. apply (elem_poly_len e He _ Hb). simpl. now left. }
  rewrite (h1_pullback1 p B c x Hl). unfold gen_h1_grad1.
  rewrite (elem_h1_grad e He p grad Hb 0%nat) by lia. reflexivity.
Qed.

(* H(div), 2-D: the divergence of the contravariantly mapped value equals the delivered div
   (reference div delivered by lbasis, divided by |det| * orient), for orient = +-1, |det| <> 0, B A = I *)
Theorem hdiv_mapped_divergence2 e : In e all_elements -> e_dim e = 2%nat ->
  forall v dv, In (BHdiv v dv) (e_basis e) ->
  forall (A B : nat -> nat -> Q) (c x : nat -> Q) (absdet orient : Q),
    orient * orient == 1 -> ~ absdet == 0 ->
    B 0%nat 0%nat * A 0%nat 0%nat + B 0%nat 1%nat * A 1%nat 0%nat == 1 -> B 0%nat 0%nat * A 0%nat 1%nat + B 0%nat 1%nat * A 1%nat 1%nat == 0 ->
    B 1%nat 0%nat * A 0%nat 0%nat + B 1%nat 1%nat * A 1%nat 0%nat == 0 -> B 1%nat 0%nat * A 0%nat 1%nat + B 1%nat 1%nat * A 1%nat 1%nat == 1 ->
    let s := gen_hdiv_scale absdet orient in
    let val := piola_value2 A s (aff_map B c 2) (nthp v 0) (nthp v 1) in
    qeval (pderiv 0 (val 0%nat)) x + qeval (pderiv 1 (val 1%nat)) x == gen_hdiv_div (qeval dv (qimage B c 2 x)) absdet orient.
Proof.
  intros He Hd v dv Hb A B c x absdet orient Ho Ha H11 H12 H21 H22 s val. unfold val.
  pose proof (q_deriv_ok_sound e (proj1 (Forall_forall _ _) all_deriv_ok e He) _ Hb) as [Hlen Hdiv].
  rewrite Hd in Hlen, Hdiv.
  assert (L : forall k, (k < 2)%nat -> mono_len_le 2 (nthp v k)).
  { intros k Hk. rewrite <- Hd. apply (elem_poly_len e He _ Hb). simpl. right. unfold nthp. apply nth_In. lia. }
  rewrite (hdiv_piola_div2 A B c s (nthp v 0) (nthp v 1) x (L 0%nat ltac:(lia)) (L 1%nat ltac:(lia)) H11 H12 H21 H22).
  rewrite (hdiv_div_scale _ absdet orient Ho Ha). fold s.
  rewrite (Hdiv (qimage B c 2 x)). simpl. unfold qeval. ring.
Qed.

(* H(div), 3-D elements (ElementTetRT1, ElementHexRT1 on affine cells) *)
Theorem hdiv_mapped_divergence3 e : In e all_elements -> e_dim e = 3%nat ->
  forall v dv, In (BHdiv v dv) (e_basis e) ->
  forall (A B : nat -> nat -> Q) (c x : nat -> Q) (absdet orient : Q),
    orient * orient == 1 -> ~ absdet == 0 ->
    B 0%nat 0%nat * A 0%nat 0%nat + B 0%nat 1%nat * A 1%nat 0%nat + B 0%nat 2%nat * A 2%nat 0%nat == 1 ->
    B 0%nat 0%nat * A 0%nat 1%nat + B 0%nat 1%nat * A 1%nat 1%nat + B 0%nat 2%nat * A 2%nat 1%nat == 0 ->
    B 0%nat 0%nat * A 0%nat 2%nat + B 0%nat 1%nat * A 1%nat 2%nat + B 0%nat 2%nat * A 2%nat 2%nat == 0 ->
    B 1%nat 0%nat * A 0%nat 0%nat + B 1%nat 1%nat * A 1%nat 0%nat + B 1%nat 2%nat * A 2%nat 0%nat == 0 ->
    B 1%nat 0%nat * A 0%nat 1%nat + B 1%nat 1%nat * A 1%nat 1%nat + B 1%nat 2%nat * A 2%nat 1%nat == 1 ->
    B 1%nat 0%nat * A 0%nat 2%nat + B 1%nat 1%nat * A 1%nat 2%nat + B 1%nat 2%nat * A 2%nat 2%nat == 0 ->
    B 2%nat 0%nat * A 0%nat 0%nat + B 2%nat 1%nat * A 1%nat 0%nat + B 2%nat 2%nat * A 2%nat 0%nat == 0 ->
    B 2%nat 0%nat * A 0%nat 1%nat + B 2%nat 1%nat * A 1%nat 1%nat + B 2%nat 2%nat * A 2%nat 1%nat == 0 ->
    B 2%nat 0%nat * A 0%nat 2%nat + B 2%nat 1%nat * A 1%nat 2%nat + B 2%nat 2%nat * A 2%nat 2%nat == 1 ->
    let s := gen_hdiv_scale absdet orient in
    let val := piola_value3 A s (aff_map B c 3) (nthp v 0) (nthp v 1) (nthp v 2) in
    qeval (pderiv 0 (val 0%nat)) x + qeval (pderiv 1 (val 1%nat)) x + qeval (pderiv 2 (val 2%nat)) x
    == gen_hdiv_div (qeval dv (qimage B c 3 x)) absdet orient.
Proof.
  intros He Hd v dv Hb A B c x absdet orient Ho Ha H11 H12 H13 H21 H22 H23 H31 H32 H33 s val. unfold val.
  pose proof (q_deriv_ok_sound e (proj1 (Forall_forall _ _) all_deriv_ok e He) _ Hb) as [Hlen Hdiv].
  rewrite Hd in Hlen, Hdiv.
  assert (L : forall k, (k < 3)%nat -> mono_len_le 3 (nthp v k)).
  { intros k Hk. rewrite <- Hd. apply (elem_poly_len e He _ Hb). simpl. right. unfold nthp. apply nth_In. lia. }
  rewrite (hdiv_piola_div3 A B c s (nthp v 0) (nthp v 1) (nthp v 2) x (L 0%nat ltac:(lia)) (L 1%nat ltac:(lia)) (L 2%nat ltac:(lia))
             H11 H12 H13 H21 H22 H23 H31 H32 H33).
  rewrite (hdiv_div_scale _ absdet orient Ho Ha). fold s.
  rewrite (Hdiv (qimage B c 3 x)). simpl. unfold qeval. ring.
Qed.

(* general (multilinear / curved) cells: no inverse map needed.  With J the Jacobian of the cell map at the reference point
   X (the delivered J is the derivative of F: C10_iso_J_is_derivative_of_F) and B = invDF with B J = I there (C10_iso_inverse_
   of_delivered_J where det <> 0), the gradient gbasis delivers, g = einsum('ijkl,il->jkl', invDF, dphi), satisfies
   J^T g = grad_ref phi — the chain rule for phi = u o F — with grad_ref phi the TRUE reference gradient of the value *)
Theorem h1_general_cell_gradient2 e : In e all_elements -> e_dim e = 2%nat ->
  forall p grad, In (BH1 p grad) (e_basis e) ->
  forall (J B : nat -> nat -> Q) (X : nat -> Q),
    B 0%nat 0%nat * J 0%nat 0%nat + B 0%nat 1%nat * J 1%nat 0%nat == 1 ->
    B 0%nat 0%nat * J 0%nat 1%nat + B 0%nat 1%nat * J 1%nat 1%nat == 0 ->
    B 1%nat 0%nat * J 0%nat 0%nat + B 1%nat 1%nat * J 1%nat 0%nat == 0 ->
    B 1%nat 0%nat * J 0%nat 1%nat + B 1%nat 1%nat * J 1%nat 1%nat == 1 ->
    forall k, (k < 2)%nat ->
      J 0%nat k * gen_h1_grad2 B (fun i => qeval (nthp grad i) X) 0%nat + J 1%nat k * gen_h1_grad2 B (fun i => qeval (nthp grad i) X) 1%nat
      == qeval (pderiv k p) X.
Proof.
  intros He Hd p grad Hb J B X H00 H01 H10 H11 k Hk. unfold gen_h1_grad2.
  
  assert (E : forall i, (i < 2)%nat -> qeval (nthp grad i) X == qeval (pderiv i p) X) by (intros i Hi; apply (elem_h1_grad e He p grad Hb i); lia).
  set (g0 := qeval (nthp grad 0) X) in *. set (g1 := qeval (nthp grad 1) X) in *.
  destruct k as [|[|k]]; [| |lia].
  - rewrite <- (E 0%nat ltac:(lia)). fold g0. transitivity (g0 * (B 0%nat 0%nat * J 0%nat 0%nat + B 0%nat 1%nat * J 1%nat 0%nat) + g1 * (B 1%nat 0%nat * J 0%nat 0%nat + B 1%nat 1%nat * J 1%nat 0%nat)); [ring|]. rewrite H00, H10. ring.
  - rewrite <- (E 1%nat ltac:(lia)). fold g1. transitivity (g0 * (B 0%nat 0%nat * J 0%nat 1%nat + B 0%nat 1%nat * J 1%nat 1%nat) + g1 * (B 1%nat 0%nat * J 0%nat 1%nat + B 1%nat 1%nat * J 1%nat 1%nat)); [ring|]. rewrite H01, H11. ring.
Qed.

(* general (multilinear / curved) cells: no inverse map needed.  With J the Jacobian of the cell map at the reference point
   X (the delivered J is the derivative of F: C10_iso_J_is_derivative_of_F) and B = invDF with B J = I there (C10_iso_inverse_
   of_delivered_J where det <> 0), the gradient gbasis delivers, g = einsum('ijkl,il->jkl', invDF, dphi), satisfies
   J^T g = grad_ref phi — the chain rule for phi = u o F — with grad_ref phi the TRUE reference gradient of the value *)
Theorem h1_general_cell_gradient3 e : In e all_elements -> e_dim e = 3%nat ->
  forall p grad, In (BH1 p grad) (e_basis e) ->
  forall (J B : nat -> nat -> Q) (X : nat -> Q),
    B 0%nat 0%nat * J 0%nat 0%nat + B 0%nat 1%nat * J 1%nat 0%nat + B 0%nat 2%nat * J 2%nat 0%nat == 1 ->
    B 0%nat 0%nat * J 0%nat 1%nat + B 0%nat 1%nat * J 1%nat 1%nat + B 0%nat 2%nat * J 2%nat 1%nat == 0 ->
    B 0%nat 0%nat * J 0%nat 2%nat + B 0%nat 1%nat * J 1%nat 2%nat + B 0%nat 2%nat * J 2%nat 2%nat == 0 ->
    B 1%nat 0%nat * J 0%nat 0%nat + B 1%nat 1%nat * J 1%nat 0%nat + B 1%nat 2%nat * J 2%nat 0%nat == 0 ->
    B 1%nat 0%nat * J 0%nat 1%nat + B 1%nat 1%nat * J 1%nat 1%nat + B 1%nat 2%nat * J 2%nat 1%nat == 1 ->
    B 1%nat 0%nat * J 0%nat 2%nat + B 1%nat 1%nat * J 1%nat 2%nat + B 1%nat 2%nat * J 2%nat 2%nat == 0 ->
    B 2%nat 0%nat * J 0%nat 0%nat + B 2%nat 1%nat * J 1%nat 0%nat + B 2%nat 2%nat * J 2%nat 0%nat == 0 ->
    B 2%nat 0%nat * J 0%nat 1%nat + B 2%nat 1%nat * J 1%nat 1%nat + B 2%nat 2%nat * J 2%nat 1%nat == 0 ->
    B 2%nat 0%nat * J 0%nat 2%nat + B 2%nat 1%nat * J 1%nat 2%nat + B 2%nat 2%nat * J 2%nat 2%nat == 1 ->
    forall k, (k < 3)%nat ->
      J 0%nat k * gen_h1_grad3 B (fun i => qeval (nthp grad i) X) 0%nat + J 1%nat k * gen_h1_grad3 B (fun i => qeval (nthp grad i) X) 1%nat + J 2%nat k * gen_h1_grad3 B (fun i => qeval (nthp grad i) X) 2%nat
      == qeval (pderiv k p) X.
Proof.
  intros He Hd p grad Hb J B X H00 H01 H02 H10 H11 H12 H20 H21 H22 k Hk. unfold gen_h1_grad3.
  
  assert (E : forall i, (i < 3)%nat -> qeval (nthp grad i) X == qeval (pderiv i p) X) by (intros i Hi; apply (elem_h1_grad e He p grad Hb i); lia).
  set (g0 := qeval (nthp grad 0) X) in *. set (g1 := qeval (nthp grad 1) X) in *. set (g2 := qeval (nthp grad 2) X) in *.
  destruct k as [|[|[|k]]]; [| | |lia].
  - rewrite <- (E 0%nat ltac:(lia)). fold g0. transitivity (g0 * (B 0%nat 0%nat * J 0%nat 0%nat + B 0%nat 1%nat * J 1%nat 0%nat + B 0%nat 2%nat * J 2%nat 0%nat) + g1 * (B 1%nat 0%nat * J 0%nat 0%nat + B 1%nat 1%nat * J 1%nat 0%nat + B 1%nat 2%nat * J 2%nat 0%nat) + g2 * (B 2%nat 0%nat * J 0%nat 0%nat + B 2%nat 1%nat * J 1%nat 0%nat + B 2%nat 2%nat * J 2%nat 0%nat)); [ring|]. rewrite H00, H10, H20. ring.
  - rewrite <- (E 1%nat ltac:(lia)). fold g1. transitivity (g0 * (B 0%nat 0%nat * J 0%nat 1%nat + B 0%nat 1%nat * J 1%nat 1%nat + B 0%nat 2%nat * J 2%nat 1%nat) + g1 * (B 1%nat 0%nat * J 0%nat 1%nat + B 1%nat 1%nat * J 1%nat 1%nat + B 1%nat 2%nat * J 2%nat 1%nat) + g2 * (B 2%nat 0%nat * J 0%nat 1%nat + B 2%nat 1%nat * J 1%nat 1%nat + B 2%nat 2%nat * J 2%nat 1%nat)); [ring|]. rewrite H01, H11, H21. ring.
  - rewrite <- (E 2%nat ltac:(lia)). fold g2. transitivity (g0 * (B 0%nat 0%nat * J 0%nat 2%nat + B 0%nat 1%nat * J 1%nat 2%nat + B 0%nat 2%nat * J 2%nat 2%nat) + g1 * (B 1%nat 0%nat * J 0%nat 2%nat + B 1%nat 1%nat * J 1%nat 2%nat + B 1%nat 2%nat * J 2%nat 2%nat) + g2 * (B 2%nat 0%nat * J 0%nat 2%nat + B 2%nat 1%nat * J 1%nat 2%nat + B 2%nat 2%nat * J 2%nat 2%nat)); [ring|]. rewrite H02, H12, H22. ring.
Qed.

(* ---- Piola maps on GENERAL cells, per class, at every rational reference point X, for every Jacobian J and symmetric
   second derivatives H of the cell map (C10: the delivered J is the derivative of F; H = d J is symmetric because it is the
   second derivative of the polynomial map — Piola identity of the generated Q1 maps: cell_maps_piola_ok).
   W = J phi(X) = det * (delivered value / (orient/|det| * det... sign)), and
   det^3 * div_global = piola_div_lhs = det^2 * (delivered reference div at X):  div_global(J phi / det) = div_ref(phi) / det ---- *)
Theorem hdiv_general_cell_divergence2 e : In e all_elements -> e_dim e = 2%nat ->
  forall v dv, In (BHdiv v dv) (e_basis e) ->
  forall (J : nat -> nat -> Q) (H : nat -> nat -> nat -> Q) (X : nat -> Q),
    piola_div_lhs2 J H (fun j => qeval (nthp v j) X) (fun j k => qeval (pderiv k (nthp v j)) X)
    == det2 J * det2 J * qeval dv X.
Proof.
  intros He Hd v dv Hb J H X. rewrite piola_div_general_2d.
  pose proof (q_deriv_ok_sound e (proj1 (Forall_forall _ _) all_deriv_ok e He) _ Hb) as [_ Hdiv].
  rewrite Hd in Hdiv. rewrite (Hdiv X). simpl. unfold qeval. ring.
Qed.

Theorem hdiv_general_cell_divergence3 e : In e all_elements -> e_dim e = 3%nat ->
  forall v dv, In (BHdiv v dv) (e_basis e) ->
  forall (J : nat -> nat -> Q) (H : nat -> nat -> nat -> Q) (X : nat -> Q),
    piola_div_lhs3 J H (fun j => qeval (nthp v j) X) (fun j k => qeval (pderiv k (nthp v j)) X)
    == det3 J * det3 J * qeval dv X.
Proof.
  intros He Hd v dv Hb J H X. rewrite piola_div_general_3d.
  pose proof (q_deriv_ok_sound e (proj1 (Forall_forall _ _) all_deriv_ok e He) _ Hb) as [_ Hdiv].
  rewrite Hd in Hdiv. rewrite (Hdiv X). simpl. unfold qeval. ring.
Qed.

(* covariant map, 2-D classes (ElementTriN1/N2/N3, ElementQuadN1): U = adj(J)^T phi = det * J^-T phi;
   det^3 * curl_global = piola_curl_lhs2 = det^2 * (delivered reference curl at X) *)
Theorem hcurl_general_cell_curl2 e : In e all_elements ->
  forall v cl, In (BHcurl2 v cl) (e_basis e) ->
  forall (J : nat -> nat -> Q) (H : nat -> nat -> nat -> Q) (X : nat -> Q),
    piola_curl_lhs2 J H (fun j => qeval (nthp v j) X) (fun j k => qeval (pderiv k (nthp v j)) X)
    == det2 J * det2 J * qeval cl X.
Proof.
  intros He v cl Hb J H X. rewrite piola_curl_general_2d.
  pose proof (q_deriv_ok_sound e (proj1 (Forall_forall _ _) all_deriv_ok e He) _ Hb) as [_ [_ Hc]].
  rewrite (Hc X). unfold qeval. ring.
Qed.
