(* C06 tie lemmas: the integrands Basis._projection hands to the two forms are, on scalar fields, the product;
   the condensed call of project is the model's. *)
From Coq Require Import List ZArith Ring.
Require Import Base.C05_Np Model.C05_BC Model.C06_Galerkin Proofs.C05_CondenseProofs Proofs.C06_GalerkinProofs Gen.C06Gen.

Section Tie.
  Context {R : Type} (o : ring_ops R).
  Hypothesis Rth : ring_theory (r0 o) (r1 o) (radd o) (rmul o) (rsub o) (ropp o) (@eq R).
  Add Ring RringT : Rth.
  Lemma gen_mass_kernel_is_mul : forall u v, gen_mass_kernel o u v = rmul o u v.
  Proof. intros. unfold gen_mass_kernel, gen_inner_tuple1, gen_inner_scalar. ring. Qed.
  Lemma gen_load_kernel_is_mul : forall w v, gen_load_kernel o w v = rmul o w v.
  Proof. intros. unfold gen_load_kernel, gen_inner_tuple1, gen_inner_scalar. ring. Qed.
End Tie.
Lemma gen_projection_is_model : forall R (o : ring_ops R) N B x,
  gen_projection o N B x = (mass_matrix o (gen_mass_kernel o) N B, load_vector o (gen_load_kernel o) N B x).
Proof. reflexivity. Qed.
Lemma gen_project_system_is_model : forall R (o : ring_ops R) M f I,
  gen_project_system o M f I = condense_call o M (Some f) None (Some I) None.
Proof. reflexivity. Qed.
