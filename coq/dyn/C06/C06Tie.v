(* C06 tie lemmas: the integrand Basis._projection hands to the two forms — helpers.inner on a tuple of scalar- or
   vector-valued fields — is the sum over ALL components of the products; the condensed call of project is the model's. *)
From Coq Require Import List ZArith Arith Lia Ring.
Import ListNotations.
Require Import Base.C05_Np Model.C05_BC Model.C06_Galerkin Proofs.C05_CondenseProofs Proofs.C06_GalerkinProofs Gen.C06Gen.

Section Tie.
  Context {R : Type} (o : ring_ops R).
  Hypothesis Rth : ring_theory (r0 o) (r1 o) (radd o) (rmul o) (rsub o) (ropp o) (@eq R).
  Add Ring RringT : Rth.
  Local Notation lsum := (C06_Galerkin.lsum o).

  Lemma gen_dot_maps (f g : nat -> R) s :
    gen_dot o (map f s) (map g s) = lsum (fun c => rmul o (f c) (g c)) s.
  Proof. unfold gen_dot. induction s as [|a s IH]; simpl; [reflexivity|]. now rewrite <- IH. Qed.

  Lemma gen_inner_field_maps (f g : nat -> R) s :
    gen_inner_field o (map f s) (map g s) = lsum (fun c => rmul o (f c) (g c)) s.
  Proof.
    destruct s as [|a [|a' s]].
    - reflexivity.
    - simpl. ring.
    - change (gen_inner_field o (map f (a :: a' :: s)) (map g (a :: a' :: s))) with (gen_dot o (map f (a :: a' :: s)) (map g (a :: a' :: s))).
      apply gen_dot_maps.
  Qed.

  Lemma gen_inner_tuple_from (f g : nat -> R) sh : forall off acc,
    fold_left (fun a p => radd o a (gen_inner_field o (fst p) (snd p)))
              (combine (unflatten_from off sh f) (unflatten_from off sh g)) acc
    = radd o acc (lsum (fun c => rmul o (f c) (g c)) (seq off (ncomp sh))).
  Proof.
    induction sh as [|k sh IH]; intros off acc; simpl; [ring|].
    rewrite IH, gen_inner_field_maps. rewrite seq_app, (lsum_app o Rth). ring.
  Qed.

  Lemma gen_mass_kernel_is_dot : kernel_is_dot o (gen_mass_kernel o).
  Proof.
    intros sh f g. unfold gen_mass_kernel, gen_inner_tuple, unflatten. rewrite gen_inner_tuple_from. ring.
  Qed.
  Lemma gen_load_kernel_is_dot : kernel_is_dot o (gen_load_kernel o).
  Proof. exact gen_mass_kernel_is_dot. Qed.
End Tie.
Lemma gen_projection_is_model : forall R (o : ring_ops R) N B x,
  gen_projection o N B x = (mass_matrix o (gen_mass_kernel o) N B, load_vector o (gen_load_kernel o) N B x).
Proof. reflexivity. Qed.
Lemma gen_project_system_is_model : forall R (o : ring_ops R) M f I,
  gen_project_system o M f I = condense_call o M (Some f) None (Some I) None.
Proof. reflexivity. Qed.

(* the subset ARGUMENT of project (elements= / facets=) is the restricted assembly that C06_projection_on_subset describes
   (fails on a tree where the system assembled over the whole basis is merely condensed to the subset's DOFs) *)
Lemma gen_subset_argument_is_restricted_assembly : gen_subset_argument_restricts = true.
Proof. reflexivity. Qed.
