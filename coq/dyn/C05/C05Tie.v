(* C05 tie lemmas: what the translator read in skfem/utils.py IS the hand-written model that the theorems
   of Proofs.C05_* speak about.  gen_enforce_idx_correct is the substantive one: the row-zeroing index
   arithmetic of the CURRENT source returns the union of the constrained rows' storage ranges for every
   valid row pointer and every D — in particular when constrained rows store no entry (finding F6 on the
   pinned tree: there this lemma does not compile). *)
From Coq Require Import List ZArith.
Require Import Base.C05_Np Model.C05_BC Model.C05_MPC Model.C05_Ext Model.C05_Solve Proofs.C05_IdxProofs Proofs.C05_CondenseProofs Proofs.C05_EnforceProofs
               Proofs.C05_ChainProofs Proofs.C05_PenalizeProofs Proofs.C05_ExtProofs Gen.C05Gen.

Lemma gen_flatten_dict_is_model : forall views, gen_flatten_dict views = flatten_dofs views.
Proof. reflexivity. Qed.
(* an index array with repeated entries denotes a set: the array branch of _flatten_dofs returns a duplicate-free list
   with the same elements (fails to compile on a tree where repeated indices are passed through) *)
Lemma gen_flatten_array_correct : flat_correct gen_flatten_array.
Proof.
  intros n S HB. destruct S as [|a S'].
  - split; [split; [constructor | intros c []] | intros c; split; intros []].
  - exact (dedup_first_set n (a :: S') HB).
Qed.
Lemma gen_init_bc_is_model : forall n I D, gen_init_bc n I D = init_bc n I D.
Proof. reflexivity. Qed.
Lemma gen_condense_A_is_model : forall R (A : list (list (nat * R))) I, gen_condense_A A I = condense_A A I.
Proof. reflexivity. Qed.
Lemma gen_condense_b_is_model : forall R (o : ring_ops R) A b x I D, gen_condense_b o A b x I D = condense_b o A b x I D.
Proof. reflexivity. Qed.
Lemma gen_condense_B_is_model : forall R (B : list (list (nat * R))) I, gen_condense_B B I = condense_A B I.
Proof. reflexivity. Qed.
Lemma gen_expand_is_model : forall R (x : list R) I z, gen_expand x I z = expand x I z.
Proof. reflexivity. Qed.
Lemma gen_expand_eig_is_model : forall R (x : list R) I X, gen_expand_eig x I X = expand_eig x I X.
Proof. reflexivity. Qed.
Lemma gen_enforce_diag_is_model : forall R (o : ring_ops R) M D diag, gen_enforce_diag o M D diag = enforce_diag o M D diag.
Proof. reflexivity. Qed.
Lemma gen_enforce_rhs_is_model : forall R (o : ring_ops R) b x D, gen_enforce_rhs o b x D = enforce_rhs o b x D.
Proof. reflexivity. Qed.
Lemma gen_enforce_zero_is_model : forall R (o : ring_ops R), gen_enforce_zero_value o = r0 o /\ gen_enforce_mass_diag o = r0 o.
Proof. split; reflexivity. Qed.
Lemma gen_penalize_matrix_is_model : forall R (o : ring_ops R) M D w, gen_penalize_matrix o M D w = penalize_matrix o M D w.
Proof. reflexivity. Qed.
Lemma gen_penalize_rhs_is_model : forall R (o : ring_ops R) b x D w, gen_penalize_rhs o b x D w = penalize_rhs o b x D w.
Proof. reflexivity. Qed.

(* mpc *)
Lemma gen_mpc_U_is_model : forall n M S, gen_mpc_U n M S = mpc_U n M S.
Proof. reflexivity. Qed.
Lemma gen_mpc_B_is_model : forall R (o : ring_ops R) A T U M S, gen_mpc_B o A T U M S = mpc_B o A T U M S.
Proof. reflexivity. Qed.
Lemma gen_mpc_y_is_model : forall R (o : ring_ops R) A b g U M S, gen_mpc_y o A b g U M S = mpc_y o A b g U M S.
Proof. reflexivity. Qed.
Lemma gen_mpc_perm_is_model : forall U M S, gen_mpc_perm U M S = mpc_perm U M S.
Proof. reflexivity. Qed.
Lemma gen_mpc_expand_is_model : forall R (o : ring_ops R) T g U x, gen_mpc_expand o T g U x = mpc_expand o T g (length U) x.
Proof. reflexivity. Qed.
Lemma gen_expand_tuple_is_model : forall R (o : ring_ops R) x perm f z, gen_expand_tuple o x perm f z = expand_tuple o x perm f z.
Proof. reflexivity. Qed.

(* the dispatch wrappers solve / solve_linear / solve_eigen *)
Lemma gen_solve_is_model : forall R (o : ring_ops R) lin eig A b x Ia, gen_solve o lin eig A b x Ia = solve_model o lin eig A b x Ia.
Proof. intros R o lin eig A b x Ia. destruct b; reflexivity. Qed.

(* the index arithmetic *)
Lemma gen_enforce_idx_is_chain : forall ip D, gen_enforce_idx ip D = chain_offsets ip D.
Proof. reflexivity. Qed.
Lemma gen_enforce_idx_correct : posf_correct gen_enforce_idx.
Proof. intros n ip D Hv HD. rewrite gen_enforce_idx_is_chain. now apply (chain_offsets_correct n). Qed.
