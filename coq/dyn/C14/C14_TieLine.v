(* The 1-D finder theorem on the definition named by the translator for MeshLine1.element_finder. *)
From Coq Require Import List Bool Arith QArith Lia.
Import ListNotations.
Require Import Model.C14_Finder Proofs.C14_FinderProofs Gen.C14GenLine.
Local Open Scope Q_scope.

Lemma gen_line_finder_spec : forall (ps : list Q) (ixs pos : list nat),
    incr ps -> length ixs = length ps -> NoDup ixs -> (2 <= length ps)%nat ->
    (forall j, In j pos -> (S j < length ps)%nat) -> (forall j, (S j < length ps)%nat -> In j pos) -> NoDup pos ->
    forall xs,
      ((forall x, In x xs -> nth 0 ps 0 <= x <= nth (length ps - 1) ps 0) ->
         exists r, gen_line_finder ps ixs (maxt_of ixs pos) xs = Some r /\
                   Forall2 (fun x c => nth (nth c pos 0%nat) ps 0 <= x <= nth (S (nth c pos 0%nat)) ps 0) xs r) /\
      ((exists x, In x xs /\ (x < nth 0 ps 0 \/ nth (length ps - 1) ps 0 < x)) -> gen_line_finder ps ixs (maxt_of ixs pos) xs = None).
Proof.
  intros ps ixs pos H1 H2 H3 H4 H5 H6 H7 xs. unfold gen_line_finder.
  exact (line_finder_spec ps ixs pos H1 H2 H3 H4 H5 H6 H7 xs).
Qed.
