(* The 1-D finder theorem on the definition named by the translator for MeshLine1.element_finder. *)
From Coq Require Import List Bool Arith QArith Lia.
Import ListNotations.
Require Import Model.C14_Finder Proofs.C14_FinderProofs Gen.C14GenLine.
Local Open Scope Q_scope.

Lemma gen_line_finder_spec : forall (lefts rights : list Q) (ixs : list nat),
    incr lefts -> length rights = length lefts -> length ixs = length lefts ->
    (forall k, (k < length lefts)%nat -> nth k lefts 0 <= nth k rights 0) ->
    (forall k, (S k < length lefts)%nat -> nth k rights 0 <= nth (S k) lefts 0) ->
    forall xs,
      ((forall x, In x xs -> exists j, (j < length lefts)%nat /\ nth j lefts 0 <= x <= nth j rights 0) ->
         exists r, gen_line_finder lefts rights ixs xs = Some r /\
                   Forall2 (fun x c => exists k, (k < length lefts)%nat /\ nth_error ixs k = Some c /\ nth k lefts 0 <= x <= nth k rights 0) xs r) /\
      ((exists x, In x xs /\ forall j, (j < length lefts)%nat -> ~ (nth j lefts 0 <= x <= nth j rights 0)) ->
         gen_line_finder lefts rights ixs xs = None).
Proof.
  intros lefts rights ixs H1 H2 H3 H4 H5 xs. unfold gen_line_finder.
  exact (line_finder_spec lefts rights ixs H1 H2 H3 H4 H5 xs).
Qed.
