(* The quadrilateral finder is sound AND complete on meshes of strictly convex quadrilaterals: the two triangles of the
   regenerated to_meshtri split tile every cell (Proofs.C14_QuadProofs), the split mesh is simplex k = triangle
   (k / nt) of cell (k mod nt) (split_index_map), and the triangle finder is sound / complete (Dyn.C14_TieFinder). *)
From Coq Require Import List Bool Arith QArith Lia.
Import ListNotations.
Require Import Model.C14_Finder Proofs.C14_FinderProofs Proofs.C14_QuadProofs.
Require Import Gen.C14GenAffine Gen.C14GenTri Gen.C14GenSplits Dyn.C14_TieGeom Dyn.C14_TieFinder.
Local Open Scope Q_scope.

(* quad c i v : coordinate i of local vertex v (cyclic order 0 1 2 3) of cell c.  The split mesh (hstack of the blocks
   t[sel]): simplex k has the local vertices sel_(k / nt) of cell k mod nt *)
Section Defs.
Variable s : nat -> Q.
Variable quad : nat -> nat -> nat -> Q.
Definition split_quad (nt k i j : nat) : Q :=
  quad (k mod nt)%nat i (nth j (nth (k / nt)%nat gen_quad_sels []) 0%nat).

Definition in_quad_cell (c : nat) (x : nat -> Q) : Prop :=
  in_quad (quad c 0 0) (quad c 1 0) (quad c 0 1) (quad c 1 1) (quad c 0 2) (quad c 1 2) (quad c 0 3) (quad c 1 3) (s c)
          (x 0%nat) (x 1%nat).

(* strict convexity with orientation sign s c = +-1 per cell *)
Definition convex_quads (nt : nat) : Prop :=
  forall c, (c < nt)%nat -> s c * s c == 1 /\
    0 < s c * orient (quad c 0 0) (quad c 1 0) (quad c 0 1) (quad c 1 1) (quad c 0 2) (quad c 1 2) /\
    0 < s c * orient (quad c 0 0) (quad c 1 0) (quad c 0 1) (quad c 1 1) (quad c 0 3) (quad c 1 3) /\
    0 < s c * orient (quad c 0 0) (quad c 1 0) (quad c 0 2) (quad c 1 2) (quad c 0 3) (quad c 1 3) /\
    0 < s c * orient (quad c 0 1) (quad c 1 1) (quad c 0 2) (quad c 1 2) (quad c 0 3) (quad c 1 3).
End Defs.

Section TriOrient.
  Variable P : nat -> nat -> Q.
  Variable x : nat -> Q.
  Lemma gen_det_is_orient : gen_detA2 (gen_A P) == orient (P 0 0) (P 1 0) (P 0 1) (P 1 1) (P 0 2) (P 1 2).
  Proof. unfold gen_detA2, gen_A, orient. simpl. ring. Qed.

  (* a triangle P of orientation s: the regenerated inside test (slack 0) <=> the three edge functionals are >= 0 *)
  Lemma tri_inside_iff_orient : forall (s : Q), s * s == 1 ->
      0 < s * orient (P 0 0) (P 1 0) (P 0 1) (P 1 1) (P 0 2) (P 1 2) ->
      (gen_tri_inside 0 (triX P x) = true <->
       0 <= s * orient (P 0 0) (P 1 0) (P 0 1) (P 1 1) (x 0) (x 1) /\
       0 <= s * orient (P 0 1) (P 1 1) (P 0 2) (P 1 2) (x 0) (x 1) /\
       0 <= s * orient (P 0 2) (P 1 2) (P 0 0) (P 1 0) (x 0) (x 1)).
  Proof.
    intros s Hs HD.
    assert (Hdet : ~ gen_detA2 (gen_A P) == 0).
    { rewrite gen_det_is_orient. intros E. rewrite E in HD. setoid_replace (s * 0) with 0 in HD by ring. discriminate HD. }
    rewrite (tri_inside_iff_in_triangle P Hdet x). split.
    - intros [l0 [l1 [l2 [G0 [G1 [G2 [Gs [E0 E1]]]]]]]].
      exact (tri_comb_to_orient _ _ _ _ _ _ s HD l0 l1 l2 (x 0%nat) (x 1%nat) G0 G1 G2 Gs E0 E1).
    - intros [A [B C]]. exact (tri_orient_to_comb _ _ _ _ _ _ s Hs HD (x 0%nat) (x 1%nat) A B C).
  Qed.
End TriOrient.

Section QuadMesh.
  Variable s : nat -> Q.
  Variable quad : nat -> nat -> nat -> Q.
  Variable nt : nat.
  Hypothesis Hconv : convex_quads s quad nt.

  Lemma sels_are : gen_quad_sels = [[0; 1; 3]; [1; 2; 3]]%nat.
  Proof. reflexivity. Qed.

  (* simplex c (block 0) is the triangle [0,1,3] of cell c; simplex c + nt (block 1) the triangle [1,2,3] *)
  Lemma inside_block0 : forall c x, (c < nt)%nat ->
      (tri_inside_cell 0 (split_quad quad nt) c x = true <->
       in_T013 (quad c 0 0) (quad c 1 0) (quad c 0 1) (quad c 1 1) (quad c 0 3) (quad c 1 3) (s c) (x 0%nat) (x 1%nat)).
  Proof.
    intros c x Hc. destruct (Hconv c Hc) as [Hs [_ [H013 _]]]. unfold tri_inside_cell.
    rewrite (tri_inside_iff_orient (split_quad quad nt c) x (s c) Hs).
    - unfold split_quad. rewrite Nat.mod_small, Nat.div_small by lia. rewrite sels_are. simpl nth. unfold in_T013. tauto.
    - unfold split_quad. rewrite Nat.mod_small, Nat.div_small by lia. rewrite sels_are. simpl nth. exact H013.
  Qed.

  Lemma inside_block1 : forall c x, (c < nt)%nat ->
      (tri_inside_cell 0 (split_quad quad nt) (c + nt) x = true <->
       in_T123 (quad c 0 1) (quad c 1 1) (quad c 0 2) (quad c 1 2) (quad c 0 3) (quad c 1 3) (s c) (x 0%nat) (x 1%nat)).
  Proof.
    intros c x Hc. destruct (Hconv c Hc) as [Hs [_ [_ [_ H123]]]]. unfold tri_inside_cell.
    assert (Em : ((c + nt) mod nt = c)%nat).
    { replace (c + nt)%nat with (c + 1 * nt)%nat by lia. rewrite Nat.mod_add by lia. apply Nat.mod_small. lia. }
    assert (Ed : ((c + nt) / nt = 1)%nat).
    { replace (c + nt)%nat with (c + 1 * nt)%nat by lia. rewrite Nat.div_add by lia. rewrite Nat.div_small by lia. reflexivity. }
    rewrite (tri_inside_iff_orient (split_quad quad nt (c + nt)) x (s c) Hs).
    - unfold split_quad. rewrite Em, Ed, sels_are. simpl nth. unfold in_T123.
      tauto.
    - unfold split_quad. rewrite Em, Ed, sels_are. simpl nth. exact H123.
  Qed.

  Lemma quad_iff_blocks : forall c x, (c < nt)%nat ->
      (in_quad_cell s quad c x <->
       tri_inside_cell 0 (split_quad quad nt) c x = true \/ tri_inside_cell 0 (split_quad quad nt) (c + nt) x = true).
  Proof.
    intros c x Hc. destruct (Hconv c Hc) as [Hs [H012 [H013 [H023 H123]]]].
    rewrite (inside_block0 c x Hc), (inside_block1 c x Hc). unfold in_quad_cell.
    exact (quad_split_covers _ _ _ _ _ _ _ _ (s c) Hs H012 H013 H023 H123 (x 0%nat) (x 1%nat)).
  Qed.

  Lemma simplex_decompose : forall k, (k < 2 * nt)%nat -> (0 < nt)%nat ->
      (k = k mod nt \/ k = k mod nt + nt)%nat /\ (k mod nt < nt)%nat.
  Proof.
    intros k Hk Hnt. split; [|apply Nat.mod_upper_bound; lia].
    pose proof (Nat.div_mod k nt ltac:(lia)) as E.
    assert (Hq : (k / nt < 2)%nat) by (apply Nat.div_lt_upper_bound; lia).
    destruct (k / nt)%nat as [|[|q]] eqn:Eq; [left; lia | right; lia | lia].
  Qed.

  (* slack-monotonicity of the test *)
  Lemma inside_eps_mono : forall eps mesh c x, 0 <= eps ->
      tri_inside_cell 0 mesh c x = true -> tri_inside_cell eps mesh c x = true.
  Proof.
    intros eps mesh c x He H. unfold tri_inside_cell, gen_tri_inside in *. apply inside_of_spec. intros l Hl.
    apply (proj1 (inside_of_spec 0 _) H) in Hl. eapply Qle_trans; [|exact Hl]. apply Qopp_le_compat. exact He.
  Qed.

  (* quad_finder_complete: every batch of points each lying in some cell is located, for every candidate list and slack >= 0 *)
  Theorem quad_finder_complete : forall eps cand xs, 0 <= eps -> (0 < nt)%nat ->
      (forall x, In x xs -> exists c, (c < nt)%nat /\ in_quad_cell s quad c x) ->
      exists r, gen_quad_finder (tri_inside_cell eps (split_quad quad nt)) nt cand xs = Some r /\ Forall (fun c => c < nt)%nat r.
  Proof.
    intros eps cand xs He Hnt H. unfold gen_quad_finder, split_finder.
    destruct (finder_complete _ (tri_inside_cell eps (split_quad quad nt)) (2 * nt) cand xs) as [ks Hks].
    - intros x Hx. destruct (H x Hx) as [c [Hc Hq]]. apply (quad_iff_blocks c x Hc) in Hq. destruct Hq as [Hq|Hq].
      + exists c. split; [lia | now apply inside_eps_mono].
      + exists (c + nt)%nat. split; [lia | now apply inside_eps_mono].
    - rewrite Hks. eexists. split; [reflexivity|]. apply Forall_forall. intros c Hc. apply in_map_iff in Hc.
      destruct Hc as [k [<- _]]. apply Nat.mod_upper_bound. lia.
  Qed.

  (* quad_finder_sound (slack 0): every returned cell contains its point *)
  Theorem quad_finder_sound : forall cand xs r, (0 < nt)%nat -> (forall k, In k cand -> (k < 2 * nt)%nat) ->
      gen_quad_finder (tri_inside_cell 0 (split_quad quad nt)) nt cand xs = Some r ->
      Forall2 (fun x c => (c < nt)%nat /\ in_quad_cell s quad c x) xs r.
  Proof.
    intros cand xs r Hnt Hcand H. unfold gen_quad_finder, split_finder in H.
    destruct (finder (tri_inside_cell 0 (split_quad quad nt)) (2 * nt) cand xs) as [ks|] eqn:E; [|discriminate].
    inversion H; subst. apply finder_sound in E. clear H.
    induction E as [|x k xs ks [Hin Hk] E IH]; simpl; constructor; [|exact IH].
    assert (Hk2 : (k < 2 * nt)%nat) by (destruct Hk as [Hk|Hk]; [now apply Hcand | exact Hk]).
    destruct (simplex_decompose k Hk2 Hnt) as [Hd Hm]. split; [exact Hm|].
    apply (quad_iff_blocks _ x Hm). destruct Hd as [Hd|Hd]; [left | right]; rewrite <- Hd; exact Hin.
  Qed.
End QuadMesh.
