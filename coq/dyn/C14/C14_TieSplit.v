(* Ties for the quadrilateral / hexahedron / prism finders: the index map of the hstack-ed split (k mod nt), and
   the finite certificates on the reference cell (vertices of the cell only, non-degenerate, volumes add up,
   pairwise separated), all on the tables regenerated from the source. *)
From Coq Require Import List Bool Arith QArith Lia.
Import ListNotations.
Require Import Model.C14_Finder Proofs.C14_FinderProofs Gen.C14GenSplits.

Lemma quad_split_certificate : split_ok gen_quad_refp gen_quad_sels 4 2 = true /\
                               all_pairs_separated gen_quad_refp gen_quad_sels gen_quad_certs = true.
Proof. vm_compute. split; reflexivity. Qed.
Lemma hex_split_certificate : split_ok gen_hex_refp gen_hex_sels 8 6 = true /\
                              all_pairs_separated gen_hex_refp gen_hex_sels gen_hex_certs = true.
Proof. vm_compute. split; reflexivity. Qed.
Lemma wedge_split_certificate : split_ok gen_wedge_refp gen_wedge_sels 6 3 = true /\
                                all_pairs_separated gen_wedge_refp gen_wedge_sels gen_wedge_certs = true.
Proof. vm_compute. split; reflexivity. Qed.

(* simplex k of the split mesh is made of vertices of cell k mod nt — for every connectivity table t *)
Lemma split_simplex_in_cell : forall (sels : list (list nat)) (nverts : nat),
    forallb (fun sel => forallb (fun k => k <? nverts) sel) sels = true ->
    forall (t : list (list nat)) (nt : nat), length t = nverts -> (0 < nt)%nat -> (forall row, In row t -> length row = nt) ->
    forall (r k : nat), (forall sel, In sel sels -> r < length sel)%nat -> (k < length sels * nt)%nat ->
      nth k (hstack_cols (map (fun sel => nth (nth r sel 0%nat) t []) sels)) 0%nat
      = nth (k mod nt) (nth (nth r (nth (k / nt) sels []) 0%nat) t []) 0%nat.
Proof.
  intros sels nverts Hs t nt Ht Hnt Hrows r k Hr Hk. apply split_index_map; try assumption.
  intros sel Hsel. rewrite forallb_forall in Hs. specialize (Hs sel Hsel). rewrite forallb_forall in Hs.
  rewrite Ht. apply Nat.ltb_lt. apply Hs. apply nth_In. now apply Hr.
Qed.

(* the finder of the split mesh, modulo nt: result cells are < nt and come from a sound simplex location *)
Lemma split_finder_sound : forall (P : Type) (inside : nat -> P -> bool) (s nt : nat) cand xs r, (0 < nt)%nat ->
    split_finder inside (s * nt) nt cand xs = Some r ->
    exists ks, r = map (fun k => k mod nt) ks /\ Forall2 (fun x k => inside k x = true /\ (In k cand \/ k < s * nt)%nat) xs ks
               /\ Forall (fun c => c < nt)%nat r.
Proof.
  intros P inside s nt cand xs r Hnt H. unfold split_finder in H.
  destruct (finder inside (s * nt) cand xs) as [ks|] eqn:E; [|discriminate]. inversion H; subst.
  exists ks. split; [reflexivity|]. split; [now apply finder_sound|].
  apply Forall_forall. intros c Hc. apply in_map_iff in Hc. destruct Hc as [k [<- _]]. apply Nat.mod_upper_bound. lia.
Qed.

Lemma sel_lengths : forall (sels : list (list nat)) (n : nat),
    forallb (fun sel => Nat.eqb (length sel) n) sels = true -> forall r, (r < n)%nat -> forall sel, In sel sels -> (r < length sel)%nat.
Proof.
  intros sels n H r Hr sel Hs. rewrite forallb_forall in H. specialize (H sel Hs). apply Nat.eqb_eq in H. lia.
Qed.

Lemma gen_split_index_map : forall (t : list (list nat)) (nt : nat) (r k : nat),
    (0 < nt)%nat -> (forall row, In row t -> length row = nt) ->
    (length t = 4%nat -> (r < 3)%nat -> (k < 2 * nt)%nat ->
       nth k (hstack_cols (map (fun sel => nth (nth r sel 0%nat) t []) gen_quad_sels)) 0%nat
       = nth (k mod nt) (nth (nth r (nth (k / nt) gen_quad_sels []) 0%nat) t []) 0%nat) /\
    (length t = 8%nat -> (r < 4)%nat -> (k < 6 * nt)%nat ->
       nth k (hstack_cols (map (fun sel => nth (nth r sel 0%nat) t []) gen_hex_sels)) 0%nat
       = nth (k mod nt) (nth (nth r (nth (k / nt) gen_hex_sels []) 0%nat) t []) 0%nat) /\
    (length t = 6%nat -> (r < 4)%nat -> (k < 3 * nt)%nat ->
       nth k (hstack_cols (map (fun sel => nth (nth r sel 0%nat) t []) gen_wedge_sels)) 0%nat
       = nth (k mod nt) (nth (nth r (nth (k / nt) gen_wedge_sels []) 0%nat) t []) 0%nat).
Proof.
  intros t nt r k Hnt Hrows. split; [|split]; intros Ht Hr Hk.
  - apply (split_simplex_in_cell gen_quad_sels 4); try assumption; [reflexivity|].
    apply (sel_lengths gen_quad_sels 3); [reflexivity | exact Hr].
  - apply (split_simplex_in_cell gen_hex_sels 8); try assumption; [reflexivity|].
    apply (sel_lengths gen_hex_sels 4); [reflexivity | exact Hr].
  - apply (split_simplex_in_cell gen_wedge_sels 6); try assumption; [reflexivity|].
    apply (sel_lengths gen_wedge_sels 4); [reflexivity | exact Hr].
Qed.

(* ------------------------------------------------------------------ two cooperating sites: the layout of the split connectivity
   produced by to_meshtri / to_meshtet and the decoding of a simplex number in element_finder, both regenerated.
   They agree for ALL cell counts nt and ALL simplex numbers: the decoded number is the cell the simplex was cut from,
   and the block number is in range. *)
Ltac layout_decode s :=
  intros nt k Hnt Hk; cbv [gen_quad_layout gen_quad_decode gen_hex_layout gen_hex_decode gen_wedge_layout gen_wedge_decode fst snd];
  split; [reflexivity | first [apply Nat.div_lt_upper_bound; lia | apply Nat.mod_upper_bound; lia]].

Lemma quad_layout_decode_agree : forall nt k, (0 < nt)%nat -> (k < 2 * nt)%nat ->
    snd (gen_quad_layout nt k) = gen_quad_decode nt k /\ (fst (gen_quad_layout nt k) < 2)%nat.
Proof. layout_decode 2%nat. Qed.
Lemma hex_layout_decode_agree : forall nt k, (0 < nt)%nat -> (k < 6 * nt)%nat ->
    snd (gen_hex_layout nt k) = gen_hex_decode nt k /\ (fst (gen_hex_layout nt k) < 6)%nat.
Proof. layout_decode 6%nat. Qed.
Lemma wedge_layout_decode_agree : forall nt k, (0 < nt)%nat -> (k < 3 * nt)%nat ->
    snd (gen_wedge_layout nt k) = gen_wedge_decode nt k /\ (fst (gen_wedge_layout nt k) < 3)%nat.
Proof. layout_decode 3%nat. Qed.

(* and the layout is the block layout (block k / nt, cell k mod nt) that split_index_map, split_quad and split3 — hence the
   soundness / completeness theorems of the quadrilateral, hexahedron and prism finders — are stated for *)
Lemma split_layouts_are_block_layouts : forall nt k,
    gen_quad_layout nt k = ((k / nt)%nat, (k mod nt)%nat) /\ gen_hex_layout nt k = ((k / nt)%nat, (k mod nt)%nat) /\
    gen_wedge_layout nt k = ((k / nt)%nat, (k mod nt)%nat).
Proof. intros nt k. repeat split; reflexivity. Qed.
