(* The finder theorems on the definitions regenerated from mesh_tri_1.py / mesh_tet_1.py / mapping_affine.py. *)
From Coq Require Import List Bool Arith QArith Lia.
Import ListNotations.
Require Import Model.C14_Finder Proofs.C14_FinderProofs Gen.C14GenAffine Gen.C14GenTri Gen.C14GenTet Dyn.C14_TieGeom.
Local Open Scope Q_scope.

(* a mesh: cell -> coordinate -> local vertex -> value; points: coordinate -> value *)
Definition tri_inside_cell (eps : Q) (mesh : nat -> nat -> nat -> Q) (c : nat) (x : nat -> Q) : bool :=
  gen_tri_inside eps (triX (mesh c) x).
Definition tet_inside_cell (eps : Q) (mesh : nat -> nat -> nat -> Q) (c : nat) (x : nat -> Q) : bool :=
  gen_tet_inside eps (tetX (mesh c) x).

Lemma tri_finder_sound : forall eps mesh nt cand xs r,
    gen_tri_finder (tri_inside_cell eps mesh) nt cand xs = Some r ->
    Forall2 (fun x c => (forall l, In l (gen_tri_coords (triX (mesh c) x)) -> - eps <= l) /\ (In c cand \/ (c < nt)%nat)) xs r.
Proof.
  intros eps mesh nt cand xs r H. apply finder_sound in H. eapply Forall2_weaken; [|exact H].
  intros x c [H1 H2]. split; [|exact H2]. unfold tri_inside_cell, gen_tri_inside in H1. now apply inside_of_spec.
Qed.

Lemma tet_finder_sound : forall eps mesh nt cand xs r,
    gen_tet_finder (tet_inside_cell eps mesh) nt cand xs = Some r ->
    Forall2 (fun x c => (forall l, In l (gen_tet_coords (tetX (mesh c) x)) -> - eps <= l) /\ (In c cand \/ (c < nt)%nat)) xs r.
Proof.
  intros eps mesh nt cand xs r H. apply finder_sound in H. eapply Forall2_weaken; [|exact H].
  intros x c [H1 H2]. split; [|exact H2]. unfold tet_inside_cell, gen_tet_inside in H1. now apply inside_of_spec.
Qed.

(* slack 0, non-degenerate cells: a returned cell contains its point (convex combination of its vertices) *)
Lemma tri_finder_exact : forall mesh nt cand xs r,
    (forall c, ~ gen_detA2 (gen_A (mesh c)) == 0) ->
    gen_tri_finder (tri_inside_cell 0 mesh) nt cand xs = Some r ->
    Forall2 (fun x c => exists l0 l1 l2, 0 <= l0 /\ 0 <= l1 /\ 0 <= l2 /\ l0 + l1 + l2 == 1 /\
        x 0%nat == l0 * mesh c 0%nat 0%nat + l1 * mesh c 0%nat 1%nat + l2 * mesh c 0%nat 2%nat /\
        x 1%nat == l0 * mesh c 1%nat 0%nat + l1 * mesh c 1%nat 1%nat + l2 * mesh c 1%nat 2%nat) xs r.
Proof.
  intros mesh nt cand xs r Hd H. apply finder_sound in H. eapply Forall2_weaken; [|exact H].
  intros x c [H1 _]. now apply (tri_inside_iff_in_triangle (mesh c) (Hd c)).
Qed.

(* completeness: if every point of the batch lies in some (non-degenerate) cell, cells are returned,
   for EVERY candidate list the KD-tree may produce and every slack eps >= 0 *)
Lemma tri_finder_complete : forall eps mesh nt cand xs, 0 <= eps ->
    (forall c, ~ gen_detA2 (gen_A (mesh c)) == 0) ->
    (forall x, In x xs -> exists c l0 l1 l2, (c < nt)%nat /\ 0 <= l0 /\ 0 <= l1 /\ 0 <= l2 /\ l0 + l1 + l2 == 1 /\
        x 0%nat == l0 * mesh c 0%nat 0%nat + l1 * mesh c 0%nat 1%nat + l2 * mesh c 0%nat 2%nat /\
        x 1%nat == l0 * mesh c 1%nat 0%nat + l1 * mesh c 1%nat 1%nat + l2 * mesh c 1%nat 2%nat) ->
    exists r, gen_tri_finder (tri_inside_cell eps mesh) nt cand xs = Some r.
Proof.
  intros eps mesh nt cand xs He Hd H. apply finder_complete. intros x Hx.
  destruct (H x Hx) as [c [l0 [l1 [l2 [Hc Hrest]]]]]. exists c. split; [exact Hc|].
  assert (H0 : gen_tri_inside 0 (triX (mesh c) x) = true).
  { apply (tri_inside_iff_in_triangle (mesh c) (Hd c)). now exists l0, l1, l2. }
  unfold tri_inside_cell, gen_tri_inside in *. apply inside_of_spec. intros l Hl.
  apply (proj1 (inside_of_spec 0 _) H0) in Hl. eapply Qle_trans; [|exact Hl].
  apply Qopp_le_compat. exact He.
Qed.

Lemma tet_finder_complete : forall eps mesh nt cand xs, 0 <= eps ->
    (forall c, ~ gen_detA3 (gen_A (mesh c)) == 0) ->
    (forall x, In x xs -> exists c l0 l1 l2 l3, (c < nt)%nat /\ 0 <= l0 /\ 0 <= l1 /\ 0 <= l2 /\ 0 <= l3 /\ l0 + l1 + l2 + l3 == 1 /\
        forall i, (i < 3)%nat -> x i == l0 * mesh c i 0%nat + l1 * mesh c i 1%nat + l2 * mesh c i 2%nat + l3 * mesh c i 3%nat) ->
    exists r, gen_tet_finder (tet_inside_cell eps mesh) nt cand xs = Some r.
Proof.
  intros eps mesh nt cand xs He Hd H. apply finder_complete. intros x Hx.
  destruct (H x Hx) as [c [l0 [l1 [l2 [l3 [Hc Hrest]]]]]]. exists c. split; [exact Hc|].
  assert (H0 : gen_tet_inside 0 (tetX (mesh c) x) = true).
  { apply (tet_inside_iff_in_tetrahedron (mesh c) (Hd c)). now exists l0, l1, l2, l3. }
  unfold tet_inside_cell, gen_tet_inside in *. apply inside_of_spec. intros l Hl.
  apply (proj1 (inside_of_spec 0 _) H0) in Hl. eapply Qle_trans; [|exact Hl].
  apply Qopp_le_compat. exact He.
Qed.

(* raising: the error is returned exactly when some point of the batch fails the test in every cell *)
Lemma tri_finder_raises_iff : forall eps mesh nt cand xs, (forall c, In c cand -> (c < nt)%nat) ->
    (gen_tri_finder (tri_inside_cell eps mesh) nt cand xs = None <->
     exists x, In x xs /\ forall c, (c < nt)%nat -> tri_inside_cell eps mesh c x = false).
Proof. intros. now apply finder_raises_iff. Qed.

Lemma tet_finder_raises_iff : forall eps mesh nt cand xs, (forall c, In c cand -> (c < nt)%nat) ->
    (gen_tet_finder (tet_inside_cell eps mesh) nt cand xs = None <->
     exists x, In x xs /\ forall c, (c < nt)%nat -> tet_inside_cell eps mesh c x = false).
Proof. intros. now apply finder_raises_iff. Qed.
