(* Tie: the inside tests of the simplex finders, applied to the inverse affine map regenerated from
   mapping_affine.py, are the barycentric coordinates of the point: with slack 0 the test passes exactly for the
   points of the closed simplex (field identities, every non-degenerate simplex, every point). *)
From Coq Require Import List Bool Arith QArith Field Lia.
Import ListNotations.
Require Import Model.C14_Finder Proofs.C14_FinderProofs Gen.C14GenAffine Gen.C14GenTri Gen.C14GenTet.
Local Open Scope Q_scope.

Ltac unfold_gen := cbv [gen_invF gen_F gen_invA1 gen_invA2 gen_invA3 gen_detA1 gen_detA2 gen_detA3 gen_A gen_b qsum map seq Nat.add].

Lemma neg0_le : forall l : Q, - 0 <= l -> 0 <= l.
Proof. intros l H. eapply Qle_trans; [|exact H]. unfold Qle. simpl. lia. Qed.
Lemma le_neg0 : forall l : Q, 0 <= l -> - 0 <= l.
Proof. intros l H. eapply Qle_trans; [|exact H]. unfold Qle. simpl. lia. Qed.

Section Tri.
  Variable P : nat -> nat -> Q.        (* P i k: coordinate i of local vertex k *)
  Definition triX (x : nat -> Q) (i : nat) : Q := gen_invF 2 (gen_invA2 (gen_A P)) (gen_b P) x i.
  Hypothesis Hdet : ~ gen_detA2 (gen_A P) == 0.

  Lemma tri_point_from_bary : forall x,
      x 0%nat == (1 - triX x 0 - triX x 1) * P 0 0 + triX x 0 * P 0 1 + triX x 1 * P 0 2 /\
      x 1%nat == (1 - triX x 0 - triX x 1) * P 1 0 + triX x 0 * P 1 1 + triX x 1 * P 1 2.
  Proof.
    intros x. unfold triX. revert Hdet. unfold_gen. intros Hd. split; field; exact Hd.
  Qed.

  Lemma tri_bary_of_combination : forall (l1 l2 : Q) (x : nat -> Q),
      x 0%nat == (1 - l1 - l2) * P 0 0 + l1 * P 0 1 + l2 * P 0 2 ->
      x 1%nat == (1 - l1 - l2) * P 1 0 + l1 * P 1 1 + l2 * P 1 2 ->
      triX x 0 == l1 /\ triX x 1 == l2.
  Proof.
    intros l1 l2 x H0 H1. unfold triX. revert Hdet. unfold_gen. intros Hd. rewrite H0, H1. split; field; exact Hd.
  Qed.

  (* slack 0: the test passes iff the point is a convex combination of the three vertices *)
  Theorem tri_inside_iff_in_triangle : forall x,
      gen_tri_inside 0 (triX x) = true <->
      exists l0 l1 l2, 0 <= l0 /\ 0 <= l1 /\ 0 <= l2 /\ l0 + l1 + l2 == 1 /\
        x 0%nat == l0 * P 0 0 + l1 * P 0 1 + l2 * P 0 2 /\ x 1%nat == l0 * P 1 0 + l1 * P 1 1 + l2 * P 1 2.
  Proof.
    intros x. unfold gen_tri_inside. rewrite inside_of_spec. unfold gen_tri_coords. split.
    - intros H. exists (1 - triX x 0 - triX x 1), (triX x 0), (triX x 1).
      assert (H0 := neg0_le _ (H _ (or_introl eq_refl))).
      assert (H1 := neg0_le _ (H _ (or_intror (or_introl eq_refl)))).
      assert (H2 := neg0_le _ (H _ (or_intror (or_intror (or_introl eq_refl))))).
      split; [exact H2|]. split; [exact H0|]. split; [exact H1|]. split; [ring|]. exact (tri_point_from_bary x).
    - intros [l0 [l1 [l2 [G0 [G1 [G2 [Gs [E0 E1]]]]]]]].
      assert (El0 : l0 == 1 - l1 - l2) by (rewrite <- Gs; ring).
      destruct (tri_bary_of_combination l1 l2 x) as [X0 X1].
      { rewrite E0, El0. reflexivity. } { rewrite E1, El0. reflexivity. }
      intros l [<-|[<-|[<-|[]]]]; apply le_neg0.
      + now rewrite X0. + now rewrite X1. + rewrite X0, X1, <- El0. exact G0.
  Qed.
End Tri.

Section Tet.
  Variable P : nat -> nat -> Q.
  Definition tetX (x : nat -> Q) (i : nat) : Q := gen_invF 3 (gen_invA3 (gen_A P)) (gen_b P) x i.
  Hypothesis Hdet : ~ gen_detA3 (gen_A P) == 0.

  Lemma tet_point_from_bary : forall x (i : nat), (i < 3)%nat ->
      x i == (1 - tetX x 0 - tetX x 1 - tetX x 2) * P i 0 + tetX x 0 * P i 1 + tetX x 1 * P i 2 + tetX x 2 * P i 3.
  Proof.
    intros x i Hi. unfold tetX. revert Hdet. unfold_gen. intros Hd.
    destruct i as [|[|[|i]]]; [field; exact Hd | field; exact Hd | field; exact Hd | lia].
  Qed.

  Lemma tet_bary_of_combination : forall (l1 l2 l3 : Q) (x : nat -> Q),
      (forall i, (i < 3)%nat -> x i == (1 - l1 - l2 - l3) * P i 0 + l1 * P i 1 + l2 * P i 2 + l3 * P i 3) ->
      tetX x 0 == l1 /\ tetX x 1 == l2 /\ tetX x 2 == l3.
  Proof.
    intros l1 l2 l3 x H. unfold tetX. revert Hdet. unfold_gen. intros Hd.
    rewrite (H 0%nat), (H 1%nat), (H 2%nat) by lia. repeat split; field; exact Hd.
  Qed.

  Theorem tet_inside_iff_in_tetrahedron : forall x,
      gen_tet_inside 0 (tetX x) = true <->
      exists l0 l1 l2 l3, 0 <= l0 /\ 0 <= l1 /\ 0 <= l2 /\ 0 <= l3 /\ l0 + l1 + l2 + l3 == 1 /\
        forall i, (i < 3)%nat -> x i == l0 * P i 0 + l1 * P i 1 + l2 * P i 2 + l3 * P i 3.
  Proof.
    intros x. unfold gen_tet_inside. rewrite inside_of_spec. unfold gen_tet_coords. split.
    - intros H. exists (1 - tetX x 0 - tetX x 1 - tetX x 2), (tetX x 0), (tetX x 1), (tetX x 2).
      assert (H0 := neg0_le _ (H _ (or_introl eq_refl))).
      assert (H1 := neg0_le _ (H _ (or_intror (or_introl eq_refl)))).
      assert (H2 := neg0_le _ (H _ (or_intror (or_intror (or_introl eq_refl))))).
      assert (H3 := neg0_le _ (H _ (or_intror (or_intror (or_intror (or_introl eq_refl)))))).
      split; [exact H3|]. split; [exact H0|]. split; [exact H1|]. split; [exact H2|]. split; [ring|].
      intros i Hi. now apply tet_point_from_bary.
    - intros [l0 [l1 [l2 [l3 [G0 [G1 [G2 [G3 [Gs E]]]]]]]]].
      assert (El0 : l0 == 1 - l1 - l2 - l3) by (rewrite <- Gs; ring).
      destruct (tet_bary_of_combination l1 l2 l3 x) as [X0 [X1 X2]].
      { intros i Hi. rewrite (E i Hi), El0. reflexivity. }
      intros l [<-|[<-|[<-|[<-|[]]]]]; apply le_neg0.
      + now rewrite X0. + now rewrite X1. + now rewrite X2. + rewrite X0, X1, X2, <- El0. exact G0.
  Qed.
End Tet.
