(* probes_spec on the index expressions regenerated from cell_basis.py *)
From Coq Require Import List Bool Arith QArith Lia.
Import ListNotations.
Require Import Model.C14_Finder Proofs.C14_FinderProofs Gen.C14GenProbes.
Local Open Scope Q_scope.

Lemma gen_probes_spec : forall (cells : list nat) (comp : nat) (phi : nat -> nat -> nat -> Q) (y : nat -> Q)
    (edofs : list (list nat)) (r : nat),
    (0 < length cells)%nat -> (r < comp * length cells)%nat ->
    coo_apply (gen_probe_rows (length edofs) comp (length cells)) (gen_probe_cols edofs cells comp)
              (gen_probe_vals (length edofs) comp (length cells) phi) y r
    == qsum (map (fun k => phi k (r / length cells)%nat (r mod length cells)%nat
                           * y (nth (nth (r mod length cells) cells 0%nat) (nth k edofs []) 0%nat)) (seq 0 (length edofs))).
Proof.
  intros cells comp phi y edofs r Hn Hr. unfold gen_probe_rows, gen_probe_cols, gen_probe_vals.
  exact (probes_spec cells comp phi y Hn edofs r Hr).
Qed.

(* the matrix has comp * npts rows and N columns; every row index produced is in range *)
Lemma gen_probe_rows_in_range : forall Nbfun comp npts r, In r (gen_probe_rows Nbfun comp npts) -> (r < fst (gen_probe_shape comp npts 0))%nat.
Proof.
  intros Nbfun comp npts r. unfold gen_probe_rows, gen_probe_shape, arange. simpl fst.
  induction Nbfun as [|n IH]; simpl; [intros []|]. intros H. apply in_app_or in H. destruct H as [H|H]; [|now apply IH].
  apply in_seq in H. lia.
Qed.

(* restricted basis (tind given): the regenerated column map sends every located global cell to a position of tind that
   holds it, fails when a located cell is not in tind, and probes_spec holds with the dofs of the located global cell *)
Lemma gen_probe_restrict_spec : forall nelems ti cells cells',
    gen_probe_restrict nelems (Some ti) cells = Some cells' ->
    Forall2 (fun c c' => (c' < length ti)%nat /\ nth c' ti 0%nat = c) cells cells'.
Proof. intros. now apply restrict_cells_spec with (nelems := nelems). Qed.

Lemma gen_probe_restrict_outside : forall nelems ti cells c,
    In c cells -> ~ In c ti -> gen_probe_restrict nelems (Some ti) cells = None.
Proof. intros. now apply restrict_cells_outside with (c := c). Qed.

Lemma gen_probe_unrestricted : forall nelems cells, gen_probe_restrict nelems None cells = Some cells.
Proof. reflexivity. Qed.

Lemma gen_probes_spec_restricted : forall (edofs : list (list nat)) (nelems : nat) (ti cells cells' : list nat)
    (comp : nat) (phi : nat -> nat -> nat -> Q) (y : nat -> Q) (r : nat),
    gen_probe_restrict nelems (Some ti) cells = Some cells' -> (0 < length cells)%nat -> (r < comp * length cells)%nat ->
    coo_apply (gen_probe_rows (length edofs) comp (length cells)) (gen_probe_cols (restrict_edofs edofs ti) cells' comp)
              (gen_probe_vals (length edofs) comp (length cells) phi) y r
    == qsum (map (fun k => phi k (r / length cells)%nat (r mod length cells)%nat
                           * y (nth (nth (r mod length cells) cells 0%nat) (nth k edofs []) 0%nat)) (seq 0 (length edofs))).
Proof.
  intros edofs nelems ti cells cells' comp phi y r Hr Hn Hlt. unfold gen_probe_rows, gen_probe_cols, gen_probe_vals.
  exact (probes_spec_restricted edofs nelems ti cells cells' comp phi y r Hr Hn Hlt).
Qed.
