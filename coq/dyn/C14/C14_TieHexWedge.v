(* Hexahedral and prismatic meshes with AFFINE cells (parallelepipeds, affine prisms): the finder over the regenerated
   tetrahedral split is sound and complete.  Reference level: the split tetrahedra cover the reference cell and stay inside
   it (linear arithmetic over Q on the barycentric forms of Dyn.C14_SplitBary, which are regenerated per run from the
   split tables); lift: barycentric coordinates are affine invariants (convex combinations are mapped to convex
   combinations), via the inside-test characterisation of Dyn.C14_TieGeom. *)
From Coq Require Import List Bool Arith QArith Lia Lqa.
Import ListNotations.
Require Import Model.C14_Finder Proofs.C14_FinderProofs Proofs.C18_TilingProofs.
Require Import Gen.C14GenAffine Gen.C14GenTet Gen.C14GenSplits Dyn.C14_TieGeom Dyn.C14_TieFinder Dyn.C14_SplitBary.
Local Open Scope Q_scope.

(* the regenerated split tables are the literals of the tiling theorems of C18 (Proofs.C18_TilingProofs) *)
Lemma split_tables_are_C18_literals : gen_hex_sels = hex_split_lit /\ gen_wedge_sels = wedge_split_lit.
Proof. split; reflexivity. Qed.

Lemma Qeq_by_diff : forall a b : Q, a - b == 0 -> a == b.
Proof. intros a b H. setoid_replace a with ((a - b) + b) by ring. rewrite H. ring. Qed.

Section Affine3.
  Variable refp : list (list Q).
  Variable sels : list (list nat).
  Variable nverts : nat.
  Variable region : Q -> Q -> Q -> Prop.          (* the reference cell *)
  Let nb := length sels.
  Let rt := ref_tet refp sels.
  Hypothesis sels_range : forall b j, (b < nb)%nat -> (j < 4)%nat -> (nth j (nth b sels []) 0 < nverts)%nat.
  Hypothesis ref_cover : forall xi : nat -> Q, region (xi 0%nat) (xi 1%nat) (xi 2%nat) ->
      exists b, (b < nb)%nat /\ gen_tet_inside 0 (tetX (rt b) xi) = true.
  Hypothesis ref_inside : forall b (xi : nat -> Q), (b < nb)%nat -> gen_tet_inside 0 (tetX (rt b) xi) = true ->
      region (xi 0%nat) (xi 1%nat) (xi 2%nat).
  Hypothesis ref_nondeg : forall b, (b < nb)%nat -> ~ gen_detA3 (gen_A (rt b)) == 0.

  (* the mesh: cell c i v = coordinate i of local vertex v of cell c; affine cells: vertex v = o + A refvertex v *)
  Variable cell : nat -> nat -> nat -> Q.
  Variable o : nat -> nat -> Q.
  Variable A : nat -> nat -> nat -> Q.
  Variable nt : nat.
  Definition affine_cells : Prop := forall c i v, (c < nt)%nat -> (i < 3)%nat -> (v < nverts)%nat ->
      cell c i v == o c i + A c i 0%nat * vcoord refp 0 v + A c i 1%nat * vcoord refp 1 v + A c i 2%nat * vcoord refp 2 v.
  Definition in_affine_cell (c : nat) (x : nat -> Q) : Prop :=
    exists xi : nat -> Q, region (xi 0%nat) (xi 1%nat) (xi 2%nat) /\
      forall i, (i < 3)%nat -> x i == o c i + A c i 0%nat * xi 0%nat + A c i 1%nat * xi 1%nat + A c i 2%nat * xi 2%nat.
  (* simplex k of the hstack-ed split: tetrahedron k / nt of cell k mod nt *)
  Definition split3 (k i j : nat) : Q := cell (k mod nt)%nat i (nth j (nth (k / nt)%nat sels []) 0%nat).
  Definition nondegenerate : Prop := forall k, (k < nb * nt)%nat -> ~ gen_detA3 (gen_A (split3 k)) == 0.

  Hypothesis Haff : affine_cells.
  Hypothesis Hnd : nondegenerate.
  Hypothesis Hnt : (0 < nt)%nat.

  Lemma km : forall c b, (c < nt)%nat -> ((c + b * nt) mod nt = c /\ (c + b * nt) / nt = b)%nat.
  Proof.
    intros c b Hc. split; [rewrite Nat.mod_add by lia; apply Nat.mod_small; lia|].
    rewrite Nat.div_add by lia. rewrite Nat.div_small by lia. reflexivity.
  Qed.

  (* a convex combination in the reference tetrahedron b is mapped to the same combination of the physical vertices *)
  Lemma lift_comb : forall c b (xi x : nat -> Q) l0 l1 l2 l3, (c < nt)%nat -> (b < nb)%nat ->
      l0 + l1 + l2 + l3 == 1 ->
      (forall m, (m < 3)%nat -> xi m == l0 * rt b m 0%nat + l1 * rt b m 1%nat + l2 * rt b m 2%nat + l3 * rt b m 3%nat) ->
      (forall i, (i < 3)%nat -> x i == o c i + A c i 0%nat * xi 0%nat + A c i 1%nat * xi 1%nat + A c i 2%nat * xi 2%nat) ->
      forall i, (i < 3)%nat ->
        x i == l0 * split3 (c + b * nt) i 0 + l1 * split3 (c + b * nt) i 1 + l2 * split3 (c + b * nt) i 2 + l3 * split3 (c + b * nt) i 3.
  Proof.
    intros c b xi x l0 l1 l2 l3 Hc Hb Hs Hxi Hx i Hi. unfold split3. destruct (km c b Hc) as [E1 E2]. rewrite E1, E2.
    rewrite (Haff c i _ Hc Hi (sels_range b 0 Hb ltac:(lia))), (Haff c i _ Hc Hi (sels_range b 1 Hb ltac:(lia))),
            (Haff c i _ Hc Hi (sels_range b 2 Hb ltac:(lia))), (Haff c i _ Hc Hi (sels_range b 3 Hb ltac:(lia))).
    rewrite (Hx i Hi), (Hxi 0%nat ltac:(lia)), (Hxi 1%nat ltac:(lia)), (Hxi 2%nat ltac:(lia)). unfold rt, ref_tet.
    apply Qeq_by_diff.
    match goal with |- ?L - ?R == 0 => setoid_replace (L - R) with ((1 - (l0 + l1 + l2 + l3)) * o c i) by ring end.
    rewrite Hs. ring.
  Qed.

  Lemma inside_eps_mono3 : forall eps mesh k x, 0 <= eps ->
      tet_inside_cell 0 mesh k x = true -> tet_inside_cell eps mesh k x = true.
  Proof.
    intros eps mesh k x He H. unfold tet_inside_cell, gen_tet_inside in *. apply inside_of_spec. intros l Hl.
    apply (proj1 (inside_of_spec 0 _) H) in Hl. eapply Qle_trans; [|exact Hl]. apply Qopp_le_compat. exact He.
  Qed.

  (* completeness: every batch of points each lying in some (affine) cell is located *)
  Theorem affine_finder_complete : forall eps cand xs, 0 <= eps ->
      (forall x, In x xs -> exists c, (c < nt)%nat /\ in_affine_cell c x) ->
      exists r, split_finder (tet_inside_cell eps split3) (nb * nt) nt cand xs = Some r /\ Forall (fun c => c < nt)%nat r.
  Proof.
    intros eps cand xs He H. unfold split_finder.
    destruct (finder_complete _ (tet_inside_cell eps split3) (nb * nt) cand xs) as [ks Hks].
    - intros x Hx. destruct (H x Hx) as [c [Hc [xi [Hreg Hxe]]]].
      destruct (ref_cover xi Hreg) as [b [Hb Hin]].
      apply (tet_inside_iff_in_tetrahedron (rt b) (ref_nondeg b Hb) xi) in Hin.
      destruct Hin as [l0 [l1 [l2 [l3 [G0 [G1 [G2 [G3 [Gs E]]]]]]]]].
      assert (Hk : (c + b * nt < nb * nt)%nat).
      { apply Nat.lt_le_trans with ((b + 1) * nt)%nat; [lia | apply Nat.mul_le_mono_r; lia]. }
      exists (c + b * nt)%nat. split; [exact Hk|]. apply inside_eps_mono3; [exact He|]. unfold tet_inside_cell.
      apply (tet_inside_iff_in_tetrahedron (split3 (c + b * nt)) (Hnd _ Hk) x).
      exists l0, l1, l2, l3. repeat split; try assumption.
      intros i Hi. exact (lift_comb c b xi x l0 l1 l2 l3 Hc Hb Gs E Hxe i Hi).
    - rewrite Hks. eexists. split; [reflexivity|]. apply Forall_forall. intros c Hc. apply in_map_iff in Hc.
      destruct Hc as [k [<- _]]. apply Nat.mod_upper_bound. lia.
  Qed.

  (* soundness (slack 0): every returned cell contains its point *)
  Theorem affine_finder_sound : forall cand xs r, (forall k, In k cand -> (k < nb * nt)%nat) ->
      split_finder (tet_inside_cell 0 split3) (nb * nt) nt cand xs = Some r ->
      Forall2 (fun x c => (c < nt)%nat /\ in_affine_cell c x) xs r.
  Proof.
    intros cand xs r Hcand H. unfold split_finder in H.
    destruct (finder (tet_inside_cell 0 split3) (nb * nt) cand xs) as [ks|] eqn:E; [|discriminate].
    inversion H; subst. apply finder_sound in E. clear H.
    induction E as [|x k xs ks [Hin Hk] E IH]; simpl; constructor; [|exact IH].
    assert (Hk2 : (k < nb * nt)%nat) by (destruct Hk as [Hk|Hk]; [now apply Hcand | exact Hk]).
    set (c := (k mod nt)%nat). set (b := (k / nt)%nat).
    assert (Hc : (c < nt)%nat) by (apply Nat.mod_upper_bound; lia).
    assert (Hb : (b < nb)%nat) by (apply Nat.div_lt_upper_bound; lia).
    assert (Ek : k = (c + b * nt)%nat) by (unfold c, b; pose proof (Nat.div_mod k nt ltac:(lia)); lia).
    split; [exact Hc|]. unfold tet_inside_cell in Hin.
    apply (tet_inside_iff_in_tetrahedron (split3 k) (Hnd k Hk2) x) in Hin.
    destruct Hin as [l0 [l1 [l2 [l3 [G0 [G1 [G2 [G3 [Gs E']]]]]]]]].
    set (xi := fun m : nat => l0 * rt b m 0%nat + l1 * rt b m 1%nat + l2 * rt b m 2%nat + l3 * rt b m 3%nat).
    exists xi. split.
    - apply (ref_inside b xi Hb). apply (tet_inside_iff_in_tetrahedron (rt b) (ref_nondeg b Hb) xi).
      exists l0, l1, l2, l3. repeat split; try assumption; try (intros; reflexivity).
    - intros i Hi. rewrite (E' i Hi). unfold split3. fold c. fold b.
      rewrite (Haff c i _ Hc Hi (sels_range b 0 Hb ltac:(lia))), (Haff c i _ Hc Hi (sels_range b 1 Hb ltac:(lia))),
              (Haff c i _ Hc Hi (sels_range b 2 Hb ltac:(lia))), (Haff c i _ Hc Hi (sels_range b 3 Hb ltac:(lia))).
      unfold xi, rt, ref_tet.
      apply Qeq_by_diff.
      match goal with |- ?L - ?R == 0 => setoid_replace (L - R) with (((l0 + l1 + l2 + l3) - 1) * o c i) by ring end.
      rewrite Gs. ring.
  Qed.
End Affine3.

(* ------------------------------------------------------------------ the two reference cells *)
Definition in_cube (x y z : Q) : Prop := 0 <= x <= 1 /\ 0 <= y <= 1 /\ 0 <= z <= 1.
Definition in_prism (x y z : Q) : Prop := 0 <= x /\ 0 <= y /\ x + y <= 1 /\ 0 <= z <= 1.

Ltac coords_of H X0 X1 X2 X3 :=
  let H' := fresh "Hc" in
  pose proof (proj1 (inside_of_spec 0 _) H) as H'; unfold gen_tet_inside, gen_tet_coords in H';
  pose proof (H' _ (or_introl eq_refl)) as X0; pose proof (H' _ (or_intror (or_introl eq_refl))) as X1;
  pose proof (H' _ (or_intror (or_intror (or_introl eq_refl)))) as X2;
  pose proof (H' _ (or_intror (or_intror (or_intror (or_introl eq_refl))))) as X3; clear H'.

Ltac block b L0 L1 L2 :=
  exists b; split; [simpl; lia|]; apply inside_of_spec; unfold gen_tet_coords; intros l Hl; simpl in Hl;
  repeat (destruct Hl as [<-|Hl]; [rewrite ?L0, ?L1, ?L2; lra|]); contradiction.

Lemma hex_ref_cover : forall xi : nat -> Q, in_cube (xi 0%nat) (xi 1%nat) (xi 2%nat) ->
    exists b, (b < length gen_hex_sels)%nat /\ gen_tet_inside 0 (tetX (ref_tet gen_hex_refp gen_hex_sels b) xi) = true.
Proof.
  intros xi [Hx [Hy Hz]].
  destruct (Qlt_le_dec (xi 1%nat) (1 - xi 0%nat)), (Qlt_le_dec (xi 2%nat) (1 - xi 0%nat)), (Qlt_le_dec (xi 2%nat) (xi 1%nat));
    first [ block 0%nat hex_bary_0_0 hex_bary_0_1 hex_bary_0_2 | block 1%nat hex_bary_1_0 hex_bary_1_1 hex_bary_1_2
          | block 2%nat hex_bary_2_0 hex_bary_2_1 hex_bary_2_2 | block 3%nat hex_bary_3_0 hex_bary_3_1 hex_bary_3_2
          | block 4%nat hex_bary_4_0 hex_bary_4_1 hex_bary_4_2 | block 5%nat hex_bary_5_0 hex_bary_5_1 hex_bary_5_2 ].
Qed.

Lemma hex_ref_inside : forall b (xi : nat -> Q), (b < length gen_hex_sels)%nat ->
    gen_tet_inside 0 (tetX (ref_tet gen_hex_refp gen_hex_sels b) xi) = true -> in_cube (xi 0%nat) (xi 1%nat) (xi 2%nat).
Proof.
  intros b xi Hb H. coords_of H X0 X1 X2 X3. unfold in_cube. simpl in Hb.
  destruct b as [|[|[|[|[|[|b]]]]]]; [| | | | | | lia].
  - rewrite ?hex_bary_0_0, ?hex_bary_0_1, ?hex_bary_0_2 in *. lra.
  - rewrite ?hex_bary_1_0, ?hex_bary_1_1, ?hex_bary_1_2 in *. lra.
  - rewrite ?hex_bary_2_0, ?hex_bary_2_1, ?hex_bary_2_2 in *. lra.
  - rewrite ?hex_bary_3_0, ?hex_bary_3_1, ?hex_bary_3_2 in *. lra.
  - rewrite ?hex_bary_4_0, ?hex_bary_4_1, ?hex_bary_4_2 in *. lra.
  - rewrite ?hex_bary_5_0, ?hex_bary_5_1, ?hex_bary_5_2 in *. lra.
Qed.

Lemma hex_ref_nondeg : forall b, (b < length gen_hex_sels)%nat -> ~ gen_detA3 (gen_A (ref_tet gen_hex_refp gen_hex_sels b)) == 0.
Proof. intros b Hb. simpl in Hb. destruct b as [|[|[|[|[|[|b]]]]]]; try lia; vm_compute; intros H; discriminate H. Qed.

Lemma hex_sels_range : forall b j, (b < length gen_hex_sels)%nat -> (j < 4)%nat -> (nth j (nth b gen_hex_sels []) 0 < 8)%nat.
Proof.
  intros b j Hb Hj. simpl in Hb. destruct b as [|[|[|[|[|[|b]]]]]]; try lia;
    destruct j as [|[|[|[|j]]]]; try lia; vm_compute; lia.
Qed.

Lemma wedge_ref_cover : forall xi : nat -> Q, in_prism (xi 0%nat) (xi 1%nat) (xi 2%nat) ->
    exists b, (b < length gen_wedge_sels)%nat /\ gen_tet_inside 0 (tetX (ref_tet gen_wedge_refp gen_wedge_sels b) xi) = true.
Proof.
  intros xi [Hx [Hy [Hxy Hz]]].
  destruct (Qlt_le_dec 1 (xi 0%nat + xi 1%nat + xi 2%nat)), (Qlt_le_dec 1 (xi 1%nat + xi 2%nat));
    first [ block 0%nat wedge_bary_0_0 wedge_bary_0_1 wedge_bary_0_2 | block 1%nat wedge_bary_1_0 wedge_bary_1_1 wedge_bary_1_2
          | block 2%nat wedge_bary_2_0 wedge_bary_2_1 wedge_bary_2_2 ].
Qed.

Lemma wedge_ref_inside : forall b (xi : nat -> Q), (b < length gen_wedge_sels)%nat ->
    gen_tet_inside 0 (tetX (ref_tet gen_wedge_refp gen_wedge_sels b) xi) = true -> in_prism (xi 0%nat) (xi 1%nat) (xi 2%nat).
Proof.
  intros b xi Hb H. coords_of H X0 X1 X2 X3. unfold in_prism. simpl in Hb.
  destruct b as [|[|[|b]]]; [| | | lia].
  - rewrite ?wedge_bary_0_0, ?wedge_bary_0_1, ?wedge_bary_0_2 in *. lra.
  - rewrite ?wedge_bary_1_0, ?wedge_bary_1_1, ?wedge_bary_1_2 in *. lra.
  - rewrite ?wedge_bary_2_0, ?wedge_bary_2_1, ?wedge_bary_2_2 in *. lra.
Qed.

Lemma wedge_ref_nondeg : forall b, (b < length gen_wedge_sels)%nat -> ~ gen_detA3 (gen_A (ref_tet gen_wedge_refp gen_wedge_sels b)) == 0.
Proof. intros b Hb. simpl in Hb. destruct b as [|[|[|b]]]; try lia; vm_compute; intros H; discriminate H. Qed.

Lemma wedge_sels_range : forall b j, (b < length gen_wedge_sels)%nat -> (j < 4)%nat -> (nth j (nth b gen_wedge_sels []) 0 < 6)%nat.
Proof.
  intros b j Hb Hj. simpl in Hb. destruct b as [|[|[|b]]]; try lia; destruct j as [|[|[|[|j]]]]; try lia; vm_compute; lia.
Qed.

(* ------------------------------------------------------------------ the finders of MeshHex1 / MeshWedge1 on affine cells *)
Definition hex_split := split3 gen_hex_sels.
Definition wedge_split := split3 gen_wedge_sels.

Theorem hex_finder_complete : forall cell o A nt eps cand xs,
    affine_cells gen_hex_refp 8 cell o A nt -> nondegenerate gen_hex_sels cell nt -> (0 < nt)%nat -> 0 <= eps ->
    (forall x, In x xs -> exists c, (c < nt)%nat /\ in_affine_cell in_cube o A c x) ->
    exists r, gen_hex_finder (tet_inside_cell eps (hex_split cell nt)) nt cand xs = Some r /\ Forall (fun c => c < nt)%nat r.
Proof.
  intros cell o A nt eps cand xs Ha Hn Hnt He H. unfold gen_hex_finder, hex_split.
  exact (affine_finder_complete gen_hex_refp gen_hex_sels 8 in_cube hex_sels_range hex_ref_cover hex_ref_nondeg
           cell o A nt Ha Hn Hnt eps cand xs He H).
Qed.

Theorem hex_finder_sound : forall cell o A nt cand xs r,
    affine_cells gen_hex_refp 8 cell o A nt -> nondegenerate gen_hex_sels cell nt -> (0 < nt)%nat ->
    (forall k, In k cand -> (k < 6 * nt)%nat) ->
    gen_hex_finder (tet_inside_cell 0 (hex_split cell nt)) nt cand xs = Some r ->
    Forall2 (fun x c => (c < nt)%nat /\ in_affine_cell in_cube o A c x) xs r.
Proof.
  intros cell o A nt cand xs r Ha Hn Hnt Hc H. unfold gen_hex_finder, hex_split in H.
  exact (affine_finder_sound gen_hex_refp gen_hex_sels 8 in_cube hex_sels_range hex_ref_inside hex_ref_nondeg
           cell o A nt Ha Hn Hnt cand xs r Hc H).
Qed.

Theorem wedge_finder_complete : forall cell o A nt eps cand xs,
    affine_cells gen_wedge_refp 6 cell o A nt -> nondegenerate gen_wedge_sels cell nt -> (0 < nt)%nat -> 0 <= eps ->
    (forall x, In x xs -> exists c, (c < nt)%nat /\ in_affine_cell in_prism o A c x) ->
    exists r, gen_wedge_finder (tet_inside_cell eps (wedge_split cell nt)) nt cand xs = Some r /\ Forall (fun c => c < nt)%nat r.
Proof.
  intros cell o A nt eps cand xs Ha Hn Hnt He H. unfold gen_wedge_finder, wedge_split.
  exact (affine_finder_complete gen_wedge_refp gen_wedge_sels 6 in_prism wedge_sels_range wedge_ref_cover wedge_ref_nondeg
           cell o A nt Ha Hn Hnt eps cand xs He H).
Qed.

Theorem wedge_finder_sound : forall cell o A nt cand xs r,
    affine_cells gen_wedge_refp 6 cell o A nt -> nondegenerate gen_wedge_sels cell nt -> (0 < nt)%nat ->
    (forall k, In k cand -> (k < 3 * nt)%nat) ->
    gen_wedge_finder (tet_inside_cell 0 (wedge_split cell nt)) nt cand xs = Some r ->
    Forall2 (fun x c => (c < nt)%nat /\ in_affine_cell in_prism o A c x) xs r.
Proof.
  intros cell o A nt cand xs r Ha Hn Hnt Hc H. unfold gen_wedge_finder, wedge_split in H.
  exact (affine_finder_sound gen_wedge_refp gen_wedge_sels 6 in_prism wedge_sels_range wedge_ref_inside wedge_ref_nondeg
           cell o A nt Ha Hn Hnt cand xs r Hc H).
Qed.
