(* C05 — the NumPy integer-array operations that occur in the index arithmetic of
   skfem.utils.enforce, on lists of Z, with NumPy's failure modes made explicit
   (None = the operation raises: IndexError / ValueError).  The T2 translator of
   vlib/props/c05.py emits terms over exactly these operations. *)
From Coq Require Import List ZArith Bool Lia.
Import ListNotations.
Local Open Scope Z_scope.

Definition bind {A B} (o : option A) (f : A -> option B) : option B :=
  match o with Some x => f x | None => None end.

(* a[i] with NumPy's wrap-around of negative indices; None = IndexError *)
Definition norm_index (len : nat) (i : Z) : option nat :=
  if (0 <=? i) && (i <? Z.of_nat len) then Some (Z.to_nat i)
  else if (i <? 0) && (- Z.of_nat len <=? i) then Some (Z.to_nat (i + Z.of_nat len))
  else None.

Fixpoint mapM {A B} (f : A -> option B) (l : list A) : option (list B) :=
  match l with
  | [] => Some []
  | x :: t => bind (f x) (fun y => bind (mapM f t) (fun ys => Some (y :: ys)))
  end.

Fixpoint map2 {A B C} (f : A -> B -> C) (a : list A) (b : list B) : list C :=
  match a, b with
  | x :: a', y :: b' => f x y :: map2 f a' b'
  | _, _ => []
  end.

Fixpoint upd {A} (l : list A) (k : nat) (v : A) : list A :=
  match l, k with
  | [], _ => []
  | _ :: t, O => v :: t
  | x :: t, S k' => x :: upd t k' v
  end.

Section Gather.
  Context {A : Type}.
  (* a[idx] for an index array *)
  Definition np_gather (a : list A) (idx : list Z) : option (list A) :=
    mapM (fun i => bind (norm_index (length a) i) (fun k => nth_error a k)) idx.

  (* a[idx] = c   (IndexError when an index is out of bounds; duplicates are harmless) *)
  Definition np_scatter_const (a : list A) (idx : list Z) (c : A) : option (list A) :=
    bind (mapM (norm_index (length a)) idx) (fun ks => Some (fold_left (fun acc k => upd acc k c) ks a)).
End Gather.

(* a[idx] -= v : NumPy evaluates  a[idx] = a[idx] - v  : the right-hand side is computed from the OLD
   array, then assigned in order, so with duplicate indices the last write wins *)
Definition np_scatter_sub (a idx v : list Z) : option (list Z) :=
  if negb (Nat.eqb (length idx) (length v)) then None else
  bind (mapM (norm_index (length a)) idx) (fun ks =>
  Some (fold_left (fun acc kv => upd acc (fst kv) (nth (fst kv) a 0 - snd kv)) (combine ks v) a)).

(* elementwise binary operation with the broadcasting of a length-1 operand; None = ValueError *)
Definition np_zip (f : Z -> Z -> Z) (a b : list Z) : option (list Z) :=
  if Nat.eqb (length a) (length b) then Some (map2 f a b)
  else if Nat.eqb (length b) 1 then Some (map (fun x => f x (hd 0 b)) a)
  else if Nat.eqb (length a) 1 then Some (map (fun y => f (hd 0 a) y) b)
  else None.
Definition np_add := np_zip Z.add.
Definition np_sub := np_zip Z.sub.
Definition np_adds (a : list Z) (c : Z) : option (list Z) := Some (map (fun x => x + c) a).
Definition np_subs (a : list Z) (c : Z) : option (list Z) := Some (map (fun x => x - c) a).

Definition zsum (a : list Z) : Z := fold_right Z.add 0 a.
Definition np_sum (a : list Z) : option Z := Some (zsum a).

Fixpoint cumsum_from (acc : Z) (a : list Z) : list Z :=
  match a with [] => [] | x :: t => (acc + x) :: cumsum_from (acc + x) t end.
Definition np_cumsum (a : list Z) : option (list Z) := Some (cumsum_from 0 a).

(* a[:-1] *)
Definition np_init (a : list Z) : option (list Z) := Some (removelast a).

Fixpoint seqZ (start : Z) (n : nat) : list Z :=
  match n with O => [] | S n' => start :: seqZ (start + 1) n' end.
Definition np_arange (n : Z) : option (list Z) := Some (seqZ 0 (Z.to_nat n)).
Definition np_ones (n : Z) : option (list Z) := if n <? 0 then None else Some (repeat 1 (Z.to_nat n)).

Definition repeat_each (a c : list Z) : list Z :=
  concat (map2 (fun x n => repeat x (Z.to_nat n)) a c).
(* np.repeat(a, counts): counts must have the length of a and be non-negative *)
Definition np_repeat (a c : list Z) : option (list Z) :=
  if Nat.eqb (length a) (length c) && forallb (fun n => 0 <=? n) c then Some (repeat_each a c) else None.

(* ------------------------------------------------------------------ lemmas *)

Lemma bind_some {A B} (x : A) (f : A -> option B) : bind (Some x) f = f x.
Proof. reflexivity. Qed.

Lemma map2_length {A B C} (f : A -> B -> C) a b : length a = length b -> length (map2 f a b) = length a.
Proof. revert b; induction a as [|x a IH]; intros [|y b] H; simpl in *; try congruence. f_equal. apply IH. congruence. Qed.

Lemma upd_length {A} (l : list A) k v : length (upd l k v) = length l.
Proof. revert k; induction l as [|x l IH]; intros [|k]; simpl; auto. Qed.

Lemma nth_upd {A} (l : list A) k v j d :
  nth j (upd l k v) d = if Nat.eqb j k then (if Nat.ltb k (length l) then v else nth j l d) else nth j l d.
Proof.
  revert k j; induction l as [|x l IH]; intros k j; simpl.
  - destruct (Nat.eqb j k); destruct j, k; reflexivity.
  - destruct k as [|k]; destruct j as [|j]; simpl; try reflexivity.
    rewrite IH. destruct (Nat.eqb j k); [|reflexivity].
    change (Nat.ltb (S k) (S (length l))) with (Nat.ltb k (length l)). reflexivity.
Qed.

Lemma norm_index_ok len i : 0 <= i < Z.of_nat len -> norm_index len i = Some (Z.to_nat i).
Proof.
  intros H. unfold norm_index.
  destruct (0 <=? i) eqn:E1; [|lia]. destruct (i <? Z.of_nat len) eqn:E2; [|lia]. reflexivity.
Qed.

Lemma mapM_ok {A B} (f : A -> option B) (g : A -> B) l :
  (forall x, In x l -> f x = Some (g x)) -> mapM f l = Some (map g l).
Proof.
  induction l as [|x l IH]; intros H; simpl; [reflexivity|].
  rewrite (H x (or_introl eq_refl)). simpl. rewrite IH; [reflexivity|]. intros y Hy. apply H. now right.
Qed.

Lemma np_gather_ok {A} (a : list A) idx d :
  (forall i, In i idx -> 0 <= i < Z.of_nat (length a)) ->
  np_gather a idx = Some (map (fun i => nth (Z.to_nat i) a d) idx).
Proof.
  intros H. unfold np_gather. apply mapM_ok. intros i Hi. rewrite norm_index_ok by auto. simpl.
  apply nth_error_nth'. specialize (H i Hi). lia.
Qed.

Lemma np_zip_same f a b : length a = length b -> np_zip f a b = Some (map2 f a b).
Proof. intros H. unfold np_zip. rewrite H, Nat.eqb_refl. reflexivity. Qed.

Lemma seqZ_length s n : length (seqZ s n) = n.
Proof. revert s; induction n; intros; simpl; auto. Qed.

Lemma seqZ_app s n m : seqZ s (n + m) = seqZ s n ++ seqZ (s + Z.of_nat n) m.
Proof.
  revert s; induction n as [|n IH]; intros s.
  - simpl. f_equal. lia.
  - change (S n + m)%nat with (S (n + m)). simpl seqZ at 1 2. simpl app. rewrite IH. do 3 f_equal. lia.
Qed.

Lemma in_seqZ s n k : In k (seqZ s n) <-> s <= k < s + Z.of_nat n.
Proof.
  revert s; induction n as [|n IH]; intros s.
  - simpl. lia.
  - simpl seqZ. simpl In. rewrite IH. lia.
Qed.

Lemma cumsum_from_length acc a : length (cumsum_from acc a) = length a.
Proof. revert acc; induction a; intros; simpl; auto. Qed.

Lemma repeat_each_length_ok a c :
  length a = length c -> Forall (fun n => 0 <= n) c -> np_repeat a c = Some (repeat_each a c).
Proof.
  intros Hl Hc. unfold np_repeat. rewrite Hl, Nat.eqb_refl. simpl.
  replace (forallb (fun n => 0 <=? n) c) with true; [reflexivity|].
  symmetry. apply forallb_forall. rewrite Forall_forall in Hc. intros x Hx. apply Z.leb_le. auto.
Qed.

Lemma map2_app {A B C} (f : A -> B -> C) a1 a2 b1 b2 :
  length a1 = length b1 -> map2 f (a1 ++ a2) (b1 ++ b2) = map2 f a1 b1 ++ map2 f a2 b2.
Proof.
  revert b1; induction a1 as [|x a1 IH]; intros [|y b1] H; simpl in *; try congruence.
  f_equal. apply IH. congruence.
Qed.

Lemma map2_map_l {A A' B C} (f : A' -> B -> C) (g : A -> A') a b :
  map2 f (map g a) b = map2 (fun x y => f (g x) y) a b.
Proof. revert b; induction a as [|x a IH]; intros [|y b]; simpl; auto. now rewrite IH. Qed.

Lemma map2_map_r {A B B' C} (f : A -> B' -> C) (g : B -> B') a b :
  map2 f a (map g b) = map2 (fun x y => f x (g y)) a b.
Proof. revert b; induction a as [|x a IH]; intros [|y b]; simpl; auto. now rewrite IH. Qed.

Lemma map2_same {A C} (f : A -> A -> C) a : map2 f a a = map (fun x => f x x) a.
Proof. induction a; simpl; congruence. Qed.

Lemma map2_maps {A B C D} (f : B -> C -> D) (g : A -> B) (h : A -> C) a :
  map2 f (map g a) (map h a) = map (fun x => f (g x) (h x)) a.
Proof. induction a; simpl; congruence. Qed.

