(* C09_Poly — sparse multivariate polynomials with rational coefficients.

   Syntax (computed with by vm_compute):  poly = list of (coefficient, exponent list).
   Semantics: evaluation in ANY commutative ring R that receives Q by a ring morphism phi
   (Section Eval; instantiated at Q itself below and at the real numbers in C09_PolyReal.v).
   Main facts: peval is compatible with padd/pmul/pscale/pnorm, the boolean test peqb is sound
   (peqb p q = true -> the two polynomials agree at EVERY point), pderiv is the formal partial
   derivative: additive, Leibniz, d x_i / d x_k = delta_ik, constants to 0. *)
From Coq Require Import List Arith ZArith QArith Bool Lia Ring Ring_theory Setoid Morphisms.
Import ListNotations.

Definition mono := list nat.
Definition term := (Q * mono)%type.
Definition poly := list term.

Fixpoint mono_mul (a b : mono) : mono :=
  match a, b with
  | [], _ => b
  | _, [] => a
  | x :: a', y :: b' => (x + y)%nat :: mono_mul a' b'
  end.

Fixpoint mono_cmp (a b : mono) : comparison :=
  match a, b with
  | [], [] => Eq
  | [], _ :: _ => Lt
  | _ :: _, [] => Gt
  | x :: a', y :: b' => match Nat.compare x y with Eq => mono_cmp a' b' | c => c end
  end.

Definition pconst (c : Q) : poly := [(c, [])].
Definition mono_var (i : nat) : mono := repeat 0%nat i ++ [1%nat].
Definition pvar (i : nat) : poly := [(1%Q, mono_var i)].
Definition padd (p q : poly) : poly := p ++ q.
Definition pscale (c : Q) (p : poly) : poly := map (fun t => (c * fst t, snd t)%Q) p.
Definition popp (p : poly) : poly := pscale (Qopp 1) p.
Definition psub (p q : poly) : poly := padd p (popp q).
Definition tmul (t : term) (q : poly) : poly :=
  map (fun u => (fst t * fst u, mono_mul (snd t) (snd u))%Q) q.
Definition pmul (p q : poly) : poly := flat_map (fun t => tmul t q) p.
Fixpoint ppow (p : poly) (n : nat) : poly :=
  match n with O => pconst 1 | S n' => pmul p (ppow p n') end.
Definition psum (l : list poly) : poly := concat l.

Fixpoint insert_term (c : Q) (m : mono) (p : poly) : poly :=
  match p with
  | [] => [(c, m)]
  | (d, m') :: p' =>
      match mono_cmp m m' with
      | Eq => (Qred (c + d), m') :: p'
      | Lt => (c, m) :: p
      | Gt => (d, m') :: insert_term c m p'
      end
  end.

(* canonical exponent list: no trailing zeros *)
Fixpoint mono_trim (m : mono) : mono :=
  match m with
  | [] => []
  | e :: m' => match e, mono_trim m' with O, [] => [] | _, t => e :: t end
  end.

Definition nonzero_term (t : term) : bool := negb (Qeq_bool (fst t) 0).
Definition pnorm (p : poly) : poly :=
  filter nonzero_term (fold_right (fun t acc => insert_term (fst t) (mono_trim (snd t)) acc) [] p).

Definition pis_zero (p : poly) : bool := match pnorm p with [] => true | _ => false end.
Definition peqb (p q : poly) : bool := pis_zero (psub p q).

(* formal partial derivative with respect to variable k *)
Fixpoint mono_dec (k : nat) (m : mono) {struct m} : option (nat * mono) :=
  match m with
  | [] => None
  | e :: m' =>
      match k with
      | O => match e with O => None | S e' => Some (e, e' :: m') end
      | S k' => match mono_dec k' m' with None => None | Some (n, m'') => Some (n, e :: m'') end
      end
  end.

Definition qnat (n : nat) : Q := inject_Z (Z.of_nat n).

Definition tderiv (k : nat) (t : term) : poly :=
  match mono_dec k (snd t) with
  | None => []
  | Some (n, m') => [((qnat n * fst t)%Q, m')]
  end.
Definition pderiv (k : nat) (p : poly) : poly := flat_map (tderiv k) p.

(* polynomial expressions (used for the chain rule: structural induction) *)
Inductive pexp :=
| PC (c : Q) | PV (i : nat) | PAdd (a b : pexp) | PMul (a b : pexp) | PNeg (a : pexp) | PPow (a : pexp) (n : nat).

Fixpoint pnf (e : pexp) : poly :=
  match e with
  | PC c => pconst c
  | PV i => pvar i
  | PAdd a b => padd (pnf a) (pnf b)
  | PMul a b => pmul (pnf a) (pnf b)
  | PNeg a => popp (pnf a)
  | PPow a n => ppow (pnf a) n
  end.

(* composition of a polynomial with a tuple of polynomials F (variable i := F i) *)
Fixpoint mono_subst (F : nat -> poly) (m : mono) (i : nat) : poly :=
  match m with
  | [] => pconst 1
  | e :: m' => pmul (ppow (F i) e) (mono_subst F m' (S i))
  end.
Definition psubst (F : nat -> poly) (p : poly) : poly :=
  flat_map (fun t => pscale (fst t) (mono_subst F (snd t) 0)) p.

(* the same with intermediate normalisation (much smaller intermediate results) *)
Definition pmuln (p q : poly) : poly := pnorm (pmul p q).
Fixpoint ppown (p : poly) (n : nat) : poly :=
  match n with O => pconst 1 | S n' => pmuln p (ppown p n') end.
Fixpoint mono_substn (F : nat -> poly) (m : mono) (i : nat) : poly :=
  match m with
  | [] => pconst 1
  | e :: m' => match e with O => mono_substn F m' (S i) | _ => pmuln (ppown (F i) e) (mono_substn F m' (S i)) end
  end.
Definition psubstn (F : nat -> poly) (p : poly) : poly :=
  pnorm (flat_map (fun t => pscale (fst t) (mono_substn F (snd t) 0)) p).

Lemma mono_cmp_eq : forall a b, mono_cmp a b = Eq -> a = b.
Proof.
  induction a as [|x a IH]; intros [|y b] H; simpl in H; try discriminate; try reflexivity.
  destruct (Nat.compare x y) eqn:E; try discriminate.
  apply Nat.compare_eq in E. subst. f_equal. now apply IH.
Qed.

Lemma pderiv_app k p q : pderiv k (p ++ q) = pderiv k p ++ pderiv k q.
Proof. unfold pderiv. apply flat_map_app. Qed.

Section Eval.
  Variable R : Type.
  Variables (rO rI : R) (radd rmul rsub : R -> R -> R) (ropp : R -> R) (req : R -> R -> Prop).
  Variable phi : Q -> R.
  Hypothesis Rsth : Equivalence req.
  Hypothesis Reqe : ring_eq_ext radd rmul ropp req.
  Hypothesis Rth : ring_theory rO rI radd rmul rsub ropp req.
  Hypothesis Rphi : ring_morph rO rI radd rmul rsub ropp req 0%Q 1%Q Qplus Qmult Qminus Qopp Qeq_bool phi.

  Add Ring Rring : Rth (setoid Rsth Reqe).

  Notation "a == b" := (req a b) (at level 70, no associativity).
  Notation "a + b" := (radd a b).
  Notation "a * b" := (rmul a b).
  Notation "- a" := (ropp a).

  Local Instance req_equiv : Equivalence req := Rsth.
  Local Instance radd_proper : Proper (req ==> req ==> req) radd := Radd_ext Reqe.
  Local Instance rmul_proper : Proper (req ==> req ==> req) rmul := Rmul_ext Reqe.
  Local Instance ropp_proper : Proper (req ==> req) ropp := Ropp_ext Reqe.

  Lemma phi_ext : forall a b, Qeq a b -> phi a == phi b.
  Proof. intros a b H. apply (morph_eq Rphi). now apply Qeq_bool_iff. Qed.

  Local Instance phi_proper : Proper (Qeq ==> req) phi.
  Proof. intros a b H. now apply phi_ext. Qed.

  Fixpoint rpow (x : R) (n : nat) : R := match n with O => rI | S n' => x * rpow x n' end.

  Lemma rpow_add x a b : rpow x (a + b)%nat == rpow x a * rpow x b.
  Proof. induction a as [|a IH]; simpl; [ring | rewrite IH; ring]. Qed.

  Local Instance rpow_proper : Proper (req ==> eq ==> req) rpow.
  Proof. intros x y H n m <-. induction n as [|n IH]; simpl; [reflexivity | apply (Rmul_ext Reqe); assumption]. Qed.

  Fixpoint meval (m : mono) (pt : nat -> R) (i : nat) : R :=
    match m with [] => rI | e :: m' => rpow (pt i) e * meval m' pt (S i) end.
  Definition teval (t : term) (pt : nat -> R) : R := phi (fst t) * meval (snd t) pt 0.
  Fixpoint peval (p : poly) (pt : nat -> R) : R :=
    match p with [] => rO | t :: p' => teval t pt + peval p' pt end.

  Lemma meval_ext m : forall pt pt' i, (forall j, pt j == pt' j) -> meval m pt i == meval m pt' i.
  Proof.
    induction m as [|e m IH]; intros pt pt' i H; simpl; [reflexivity|].
    rewrite (H i), (IH pt pt' (S i) H). reflexivity.
  Qed.

  Lemma peval_ext p : forall pt pt', (forall j, pt j == pt' j) -> peval p pt == peval p pt'.
  Proof.
    induction p as [|t p IH]; intros pt pt' H; simpl; [reflexivity|].
    unfold teval. rewrite (meval_ext _ pt pt' 0%nat H), (IH pt pt' H). reflexivity.
  Qed.

  Lemma meval_mono_mul : forall a b pt i, meval (mono_mul a b) pt i == meval a pt i * meval b pt i.
  Proof.
    induction a as [|x a IH]; intros [|y b] pt i; simpl; try ring.
    rewrite rpow_add, IH. ring.
  Qed.

  Lemma peval_app p q pt : peval (p ++ q) pt == peval p pt + peval q pt.
  Proof. induction p as [|t p IH]; simpl; [ring | rewrite IH; ring]. Qed.

  Lemma peval_padd p q pt : peval (padd p q) pt == peval p pt + peval q pt.
  Proof. apply peval_app. Qed.

  Lemma peval_pscale c p pt : peval (pscale c p) pt == phi c * peval p pt.
  Proof.
    induction p as [|t p IH]; simpl; [ring|]. unfold teval at 1; simpl.
    rewrite IH, (morph_mul Rphi). unfold teval. ring.
  Qed.

  Lemma phi_m1 : phi (Qopp 1%Q) == - rI.
  Proof.
    rewrite (morph_opp Rphi), (morph1 Rphi). reflexivity.
  Qed.

  Lemma peval_popp p pt : peval (popp p) pt == - peval p pt.
  Proof. unfold popp. rewrite peval_pscale, phi_m1. ring. Qed.

  Lemma peval_psub p q pt : peval (psub p q) pt == peval p pt + - peval q pt.
  Proof. unfold psub. rewrite peval_padd, peval_popp. reflexivity. Qed.

  Lemma peval_tmul t q pt : peval (tmul t q) pt == teval t pt * peval q pt.
  Proof.
    induction q as [|u q IH]; simpl; [ring|]. rewrite IH. unfold teval; simpl.
    rewrite (morph_mul Rphi), meval_mono_mul. ring.
  Qed.

  Lemma peval_pmul p q pt : peval (pmul p q) pt == peval p pt * peval q pt.
  Proof.
    induction p as [|t p IH]; [simpl; ring|].
    change (pmul (t :: p) q) with (tmul t q ++ pmul p q).
    rewrite peval_app, peval_tmul, IH. simpl peval. ring.
  Qed.

  Lemma peval_pconst c pt : peval (pconst c) pt == phi c.
  Proof. simpl. unfold teval; simpl. ring. Qed.

  Lemma peval_ppow p n pt : peval (ppow p n) pt == rpow (peval p pt) n.
  Proof.
    induction n as [|n IH]; simpl ppow.
    - rewrite peval_pconst, (morph1 Rphi). reflexivity.
    - rewrite peval_pmul, IH. reflexivity.
  Qed.

  Lemma meval_repeat0 : forall n m pt i, meval (repeat 0%nat n ++ m) pt i == meval m pt (n + i)%nat.
  Proof.
    induction n as [|n IH]; intros m pt i; simpl; [reflexivity|].
    rewrite IH. replace (n + S i)%nat with (S (n + i)) by lia. ring.
  Qed.

  Lemma peval_pvar i pt : peval (pvar i) pt == pt i.
  Proof.
    unfold pvar; simpl. unfold teval; simpl. unfold mono_var. rewrite meval_repeat0; simpl.
    rewrite (morph1 Rphi). replace (i + 0)%nat with i by lia. ring.
  Qed.

  Lemma peval_psum l pt : peval (psum l) pt == fold_right (fun p acc => peval p pt + acc) rO l.
  Proof.
    induction l as [|p l IH]; simpl; [reflexivity|]. unfold psum in *; simpl.
    rewrite peval_app, IH. reflexivity.
  Qed.

  Lemma peval_insert c m p pt : peval (insert_term c m p) pt == teval (c, m) pt + peval p pt.
  Proof.
    induction p as [|[d m'] p IH]; simpl; [reflexivity|].
    destruct (mono_cmp m m') eqn:E; simpl.
    - apply mono_cmp_eq in E. subst m'. unfold teval; simpl.
      rewrite (phi_ext _ _ (Qred_correct (c + d))), (morph_add Rphi). ring.
    - reflexivity.
    - rewrite IH. ring.
  Qed.

  Lemma peval_filter_nonzero p pt : peval (filter nonzero_term p) pt == peval p pt.
  Proof.
    induction p as [|t p IH]; simpl; [reflexivity|].
    unfold nonzero_term at 1. destruct (Qeq_bool (fst t) 0) eqn:E; simpl.
    - rewrite IH. unfold teval. rewrite (morph_eq Rphi _ _ E), (morph0 Rphi). ring.
    - rewrite IH. reflexivity.
  Qed.

  Lemma meval_trim m : forall pt i, meval (mono_trim m) pt i == meval m pt i.
  Proof.
    induction m as [|e m IH]; intros pt i; simpl; [reflexivity|].
    destruct e as [|e].
    - destruct (mono_trim m) as [|f t] eqn:E.
      + rewrite <- IH. simpl. ring.
      + simpl. rewrite <- IH. simpl. reflexivity.
    - simpl. rewrite <- IH. reflexivity.
  Qed.

  Lemma peval_pnorm p pt : peval (pnorm p) pt == peval p pt.
  Proof.
    unfold pnorm. rewrite peval_filter_nonzero.
    induction p as [|t p IH]; simpl; [reflexivity|].
    rewrite peval_insert, IH. unfold teval; simpl. rewrite meval_trim. reflexivity.
  Qed.

  Theorem pis_zero_sound p : pis_zero p = true -> forall pt, peval p pt == rO.
  Proof.
    unfold pis_zero. intros H pt. rewrite <- peval_pnorm.
    destruct (pnorm p); [reflexivity | discriminate].
  Qed.

  Theorem peqb_sound p q : peqb p q = true -> forall pt, peval p pt == peval q pt.
  Proof.
    unfold peqb. intros H pt. pose proof (pis_zero_sound _ H pt) as H0.
    rewrite peval_psub in H0.
    setoid_replace (peval p pt) with ((peval p pt + - peval q pt) + peval q pt) by ring.
    rewrite H0. ring.
  Qed.

  (* ---- the formal derivative, semantically ---- *)
  Definition rnat (n : nat) : R := phi (qnat n).

  Lemma rnat_S n : rnat (S n) == rI + rnat n.
  Proof.
    unfold rnat, qnat.
    assert (H : Qeq (inject_Z (Z.of_nat (S n))) (1 + inject_Z (Z.of_nat n))).
    { rewrite Nat2Z.inj_succ. unfold Z.succ. rewrite inject_Z_plus. ring. }
    rewrite (phi_ext _ _ H), (morph_add Rphi), (morph1 Rphi). reflexivity.
  Qed.

  Lemma rnat_0 : rnat 0 == rO.
  Proof. unfold rnat, qnat; simpl. apply (morph0 Rphi). Qed.

  (* d/dx x^e *)
  Definition dpow (x : R) (e : nat) : R := match e with O => rO | S e' => rnat e * rpow x e' end.

  Lemma rnat_add a b : rnat (a + b) == rnat a + rnat b.
  Proof.
    induction a as [|a IHa]; simpl plus.
    - rewrite rnat_0. ring.
    - rewrite !rnat_S, IHa. ring.
  Qed.

  Lemma dpow_add x a b : dpow x (a + b)%nat == dpow x a * rpow x b + rpow x a * dpow x b.
  Proof.
    destruct a as [|a]; [simpl; ring|].
    destruct b as [|b].
    - replace (S a + 0)%nat with (S a) by lia. simpl. ring.
    - replace (S a + S b)%nat with (S (a + S b)) by lia. unfold dpow.
      rewrite !rnat_S, rnat_add, rnat_S, rpow_add. simpl rpow. ring.
  Qed.

  (* value at pt of the k-th partial derivative of the monomial m whose variables start at index i *)
  Fixpoint mdval (k : nat) (m : mono) (pt : nat -> R) (i : nat) {struct m} : R :=
    match m with
    | [] => rO
    | e :: m' =>
        match k with
        | O => dpow (pt i) e * meval m' pt (S i)
        | S k' => rpow (pt i) e * mdval k' m' pt (S i)
        end
    end.

  Lemma mono_dec_spec : forall m k pt i,
      match mono_dec k m with
      | None => mdval k m pt i == rO
      | Some (n, m') => mdval k m pt i == rnat n * meval m' pt i
      end.
  Proof.
    induction m as [|e m IH]; intros k pt i; simpl; [reflexivity|].
    destruct k as [|k].
    - destruct e as [|e]; simpl; ring.
    - specialize (IH k pt (S i)). destruct (mono_dec k m) as [[n m'']|].
      + rewrite IH. simpl. ring.
      + rewrite IH. ring.
  Qed.

  Lemma peval_tderiv k t pt : peval (tderiv k t) pt == phi (fst t) * mdval k (snd t) pt 0.
  Proof.
    unfold tderiv. pose proof (mono_dec_spec (snd t) k pt 0%nat) as H.
    destruct (mono_dec k (snd t)) as [[n m']|].
    - simpl. unfold teval; simpl. rewrite H, (morph_mul Rphi). unfold rnat. ring.
    - simpl. rewrite H. ring.
  Qed.

  Lemma mdval_mul : forall a b k pt i,
      mdval k (mono_mul a b) pt i == mdval k a pt i * meval b pt i + meval a pt i * mdval k b pt i.
  Proof.
    induction a as [|x a IH]; intros [|y b] k pt i; simpl mono_mul.
    - simpl. ring.
    - simpl mdval at 2. simpl meval at 2. ring.
    - simpl mdval at 3. simpl meval at 1. ring.
    - simpl. destruct k as [|k].
      + rewrite dpow_add, meval_mono_mul. ring.
      + rewrite IH, rpow_add. ring.
  Qed.

  Lemma peval_pderiv_app k p q pt : peval (pderiv k (p ++ q)) pt == peval (pderiv k p) pt + peval (pderiv k q) pt.
  Proof. rewrite pderiv_app. apply peval_app. Qed.

  Lemma peval_pderiv_padd k p q pt :
    peval (pderiv k (padd p q)) pt == peval (pderiv k p) pt + peval (pderiv k q) pt.
  Proof. apply peval_pderiv_app. Qed.

  Lemma peval_pderiv_cons k t p pt : peval (pderiv k (t :: p)) pt == peval (tderiv k t) pt + peval (pderiv k p) pt.
  Proof. unfold pderiv; simpl. apply peval_app. Qed.

  Lemma peval_pderiv_pscale k c p pt : peval (pderiv k (pscale c p)) pt == phi c * peval (pderiv k p) pt.
  Proof.
    induction p as [|t p IH]; [simpl; ring|].
    change (pscale c (t :: p)) with ((c * fst t, snd t)%Q :: pscale c p).
    rewrite !peval_pderiv_cons, IH, !peval_tderiv. simpl. rewrite (morph_mul Rphi). ring.
  Qed.

  Lemma peval_pderiv_popp k p pt : peval (pderiv k (popp p)) pt == - peval (pderiv k p) pt.
  Proof. unfold popp. rewrite peval_pderiv_pscale, phi_m1. ring. Qed.

  Lemma peval_pderiv_tmul k t q pt :
    peval (pderiv k (tmul t q)) pt == peval (tderiv k t) pt * peval q pt + teval t pt * peval (pderiv k q) pt.
  Proof.
    induction q as [|u q IH]; [simpl; ring|].
    change (tmul t (u :: q)) with ((fst t * fst u, mono_mul (snd t) (snd u))%Q :: tmul t q).
    rewrite !peval_pderiv_cons, IH, !peval_tderiv. simpl fst; simpl snd.
    rewrite mdval_mul, (morph_mul Rphi). simpl peval. unfold teval. ring.
  Qed.

  (* Leibniz *)
  Theorem peval_pderiv_pmul k p q pt :
    peval (pderiv k (pmul p q)) pt ==
    peval (pderiv k p) pt * peval q pt + peval p pt * peval (pderiv k q) pt.
  Proof.
    induction p as [|t p IH]; [simpl; ring|].
    change (pmul (t :: p) q) with (tmul t q ++ pmul p q).
    rewrite peval_pderiv_app, peval_pderiv_tmul, IH, peval_pderiv_cons. simpl peval. ring.
  Qed.

  Lemma peval_pderiv_pconst k c pt : peval (pderiv k (pconst c)) pt == rO.
  Proof. unfold pconst, pderiv; simpl. unfold tderiv; simpl. reflexivity. Qed.

  Lemma mdval_repeat0 : forall n k m pt i,
      mdval k (repeat 0%nat n ++ m) pt i == if (k <? n)%nat then rO else mdval (k - n) m pt (n + i)%nat.
  Proof.
    induction n as [|n IH]; intros k m pt i; simpl repeat; simpl app.
    - replace (k - 0)%nat with k by lia. reflexivity.
    - simpl mdval. destruct k as [|k].
      + simpl. ring.
      + rewrite IH. replace (S k <? S n)%nat with (k <? n)%nat by reflexivity.
        destruct (k <? n)%nat; simpl; [ring|].
        replace (n + S i)%nat with (S (n + i)) by lia. ring.
  Qed.

  Lemma peval_pderiv_pvar k i pt : peval (pderiv k (pvar i)) pt == if Nat.eqb i k then rI else rO.
  Proof.
    unfold pvar. rewrite peval_pderiv_cons, peval_tderiv. simpl fst; simpl snd.
    unfold mono_var. rewrite mdval_repeat0. rewrite (morph1 Rphi).
    change (pderiv k []) with (@nil term). simpl peval.
    destruct (k <? i)%nat eqn:E1.
    - apply Nat.ltb_lt in E1. destruct (Nat.eqb_spec i k); [lia | ring].
    - apply Nat.ltb_ge in E1. destruct (Nat.eqb_spec i k) as [->|Hne].
      + replace (k - k)%nat with 0%nat by lia. simpl. rewrite rnat_S, rnat_0. ring.
      + destruct (k - i)%nat as [|d] eqn:E2; [lia|]. simpl. ring.
  Qed.

  Lemma peval_pderiv_ppow k p n pt :
    peval (pderiv k (ppow p (S n))) pt == rnat (S n) * rpow (peval p pt) n * peval (pderiv k p) pt.
  Proof.
    induction n as [|n IH].
    - simpl ppow. rewrite peval_pderiv_pmul, peval_pderiv_pconst, peval_pconst, (morph1 Rphi).
      rewrite rnat_S, rnat_0. simpl. ring.
    - change (ppow p (S (S n))) with (pmul p (ppow p (S n))).
      rewrite peval_pderiv_pmul, IH, peval_ppow. rewrite (rnat_S (S n)). simpl rpow. ring.
  Qed.

  (* ---- expressions ---- *)
  Fixpoint eeval (e : pexp) (pt : nat -> R) : R :=
    match e with
    | PC c => phi c
    | PV i => pt i
    | PAdd a b => eeval a pt + eeval b pt
    | PMul a b => eeval a pt * eeval b pt
    | PNeg a => - eeval a pt
    | PPow a n => rpow (eeval a pt) n
    end.

  Lemma pnf_eval e pt : peval (pnf e) pt == eeval e pt.
  Proof.
    induction e as [c|i|a IHa b IHb|a IHa b IHb|a IHa|a IHa n]; simpl pnf; simpl eeval.
    - apply peval_pconst.
    - apply peval_pvar.
    - rewrite peval_padd, IHa, IHb. reflexivity.
    - rewrite peval_pmul, IHa, IHb. reflexivity.
    - rewrite peval_popp, IHa. reflexivity.
    - rewrite peval_ppow, IHa. reflexivity.
  Qed.

  (* ---- substitution ---- *)
  Lemma peval_mono_subst F m : forall i pt,
      peval (mono_subst F m i) pt == meval m (fun j => peval (F j) pt) i.
  Proof.
    induction m as [|e m IH]; intros i pt; simpl mono_subst; simpl meval.
    - rewrite peval_pconst. apply (morph1 Rphi).
    - rewrite peval_pmul, peval_ppow, IH. reflexivity.
  Qed.

  Theorem peval_psubst F p pt : peval (psubst F p) pt == peval p (fun j => peval (F j) pt).
  Proof.
    induction p as [|t p IH]; [reflexivity|].
    unfold psubst in *. simpl flat_map. rewrite peval_app, IH, peval_pscale, peval_mono_subst.
    simpl peval. unfold teval. reflexivity.
  Qed.

  Lemma peval_pmuln p q pt : peval (pmuln p q) pt == peval p pt * peval q pt.
  Proof. unfold pmuln. rewrite peval_pnorm. apply peval_pmul. Qed.

  Lemma peval_ppown p n pt : peval (ppown p n) pt == rpow (peval p pt) n.
  Proof.
    induction n as [|n IH]; simpl ppown.
    - rewrite peval_pconst, (morph1 Rphi). reflexivity.
    - rewrite peval_pmuln, IH. reflexivity.
  Qed.

  Lemma peval_mono_substn F m : forall i pt,
      peval (mono_substn F m i) pt == meval m (fun j => peval (F j) pt) i.
  Proof.
    induction m as [|e m IH]; intros i pt; simpl mono_substn; simpl meval.
    - rewrite peval_pconst. apply (morph1 Rphi).
    - destruct e as [|e].
      + rewrite IH. simpl. ring.
      + rewrite peval_pmuln, peval_ppown, IH. reflexivity.
  Qed.

  Theorem peval_psubstn F p pt : peval (psubstn F p) pt == peval p (fun j => peval (F j) pt).
  Proof.
    unfold psubstn. rewrite peval_pnorm.
    induction p as [|t p IH]; [reflexivity|].
    simpl flat_map. rewrite peval_app, IH, peval_pscale, peval_mono_substn.
    simpl peval. unfold teval. reflexivity.
  Qed.

End Eval.
