(* Correspondence helper: evaluate a model function on recorded inputs and compare with
   the outputs recorded from the implementation.  Used by the generated cases_*.v files. *)
From Coq Require Import List Bool Arith ZArith QArith.
Import ListNotations.

Definition corr_check {A B : Type} (eqb : B -> B -> bool) (f : A -> B)
  (cases : list (A * B)) : nat * list nat :=
  (length cases,
   map fst (filter (fun ic => negb (eqb (f (fst (snd ic))) (snd (snd ic))))
                   (combine (seq 0 (length cases)) cases))).

Fixpoint list_eqb {A} (e : A -> A -> bool) (l1 l2 : list A) : bool :=
  match l1, l2 with
  | [], [] => true
  | x :: t1, y :: t2 => e x y && list_eqb e t1 t2
  | _, _ => false
  end.

Definition option_eqb {A} (e : A -> A -> bool) (o1 o2 : option A) : bool :=
  match o1, o2 with
  | None, None => true
  | Some x, Some y => e x y
  | _, _ => false
  end.

Definition pair_eqb {A B} (ea : A -> A -> bool) (eb : B -> B -> bool) (p q : A * B) : bool :=
  ea (fst p) (fst q) && eb (snd p) (snd q).

Definition nats_eqb := list_eqb Nat.eqb.
Definition natss_eqb := list_eqb nats_eqb.
Definition zs_eqb := list_eqb Z.eqb.
Definition zss_eqb := list_eqb zs_eqb.
Definition zsss_eqb := list_eqb zss_eqb.
Definition Qeqb (a b : Q) : bool := Qeq_bool a b.
Definition qs_eqb := list_eqb Qeqb.
Definition qss_eqb := list_eqb qs_eqb.

Lemma list_eqb_eq {A} (e : A -> A -> bool) :
  (forall x y, e x y = true <-> x = y) -> forall l1 l2, list_eqb e l1 l2 = true <-> l1 = l2.
Proof.
  intros He l1. induction l1 as [|x t1 IH]; intros [|y t2]; simpl; split; intros H;
    try reflexivity; try discriminate.
  - apply andb_true_iff in H. destruct H as [H1 H2]. apply He in H1. apply IH in H2. now subst.
  - inversion H; subst. apply andb_true_iff. split; [now apply He | now apply IH].
Qed.

Lemma nats_eqb_eq l1 l2 : nats_eqb l1 l2 = true <-> l1 = l2.
Proof. apply list_eqb_eq. intros; apply Nat.eqb_eq. Qed.
Lemma zs_eqb_eq l1 l2 : zs_eqb l1 l2 = true <-> l1 = l2.
Proof. apply list_eqb_eq. intros; apply Z.eqb_eq. Qed.
