(* C02 — operations of a generic commutative ring / field as a record, so that the definitions
   generated from the Python source (Gen.C02Gen) have a stable signature; instances used for
   running the generated terms: Z (ring) and Qc (field), both with Leibniz equality. *)
From Coq Require Import ZArith QArith Qcanon List.
Import ListNotations.

Record ops (R : Type) := mkOps {
  o0 : R; o1 : R;
  oadd : R -> R -> R; omul : R -> R -> R; osub : R -> R -> R; oopp : R -> R;
  odiv : R -> R -> R; oinv : R -> R }.
Arguments o0 {R}. Arguments o1 {R}. Arguments oadd {R}. Arguments omul {R}. Arguments osub {R}.
Arguments oopp {R}. Arguments odiv {R}. Arguments oinv {R}.

Definition Zops : ops Z := mkOps Z 0%Z 1%Z Z.add Z.mul Z.sub Z.opp Z.div (fun x => x).
Definition Qcops : ops Qc := mkOps Qc 0%Qc 1%Qc Qcplus Qcmult Qcminus Qcopp Qcdiv Qcinv.

(* finite sums over a list of indices *)
Fixpoint rsum {R A : Type} (O : ops R) (l : list A) (f : A -> R) : R :=
  match l with [] => o0 O | a :: l' => oadd O (f a) (rsum O l' f) end.

(* all permutations of a list *)
Fixpoint inserts {A} (x : A) (l : list A) : list (list A) :=
  match l with
  | [] => [[x]]
  | y :: l' => (x :: l) :: map (cons y) (inserts x l')
  end.
Fixpoint perms {A} (l : list A) : list (list A) :=
  match l with [] => [[]] | x :: l' => flat_map (inserts x) (perms l') end.

(* parity of a permutation of 0..n-1 given as list: number of inversions *)
Fixpoint inv_count (l : list nat) : nat :=
  match l with
  | [] => 0
  | x :: l' => length (filter (fun y => Nat.ltb y x) l') + inv_count l'
  end.
Definition is_even_perm (l : list nat) : bool := Nat.even (inv_count l).
