(* C15 — generic memo-cache automaton.

   Every lazily filled table / cache of scikit-fem has the shape

       if <key of the arguments> not among the stored keys:
           store[key] = compute(arguments)          (possibly evicting older entries)
       return store[key]

   The automaton below is that program: [state] is the list of stored (key, value) pairs, [evict]
   says which old entries survive a miss (identity for a dictionary that only grows, "drop the
   entries of this object" for a single-slot cache such as ElementLinePp.P).  A history is any list of
   argument tuples; [run] returns the value handed back by every call.

   Main results (all for EVERY history):
     results_have_origin   each returned value is compute a' for an earlier-or-same argument a' with
                           the same key                       (a cache is "stale at worst")
     transparent_on        if the key determines compute on the arguments occurring in the history,
                           every call returns compute of its own arguments
     transparent           the global version
     stale_two_step        converse: two arguments with equal keys and different compute give a
                           two-step history whose second call returns the value of the first
     transparent_iff       hence: transparent for all histories  <->  key determines compute        *)
From Coq Require Import List Bool Arith.
Import ListNotations.

Section Memo.
  Variables A K V : Type.
  Variable keqb : K -> K -> bool.
  Hypothesis keqb_eq : forall x y, keqb x y = true <-> x = y.
  Variable keyf : A -> K.
  Variable compute : A -> V.

  Definition state := list (K * V).

  (* which old entries survive a miss on argument a *)
  Variable evict : A -> state -> state.
  Hypothesis evict_incl : forall a s, incl (evict a s) s.

  Fixpoint lookup (k : K) (s : state) : option V :=
    match s with
    | [] => None
    | (k', v) :: s' => if keqb k k' then Some v else lookup k s'
    end.

  Definition step (s : state) (a : A) : state * V :=
    match lookup (keyf a) s with
    | Some v => (s, v)
    | None => let v := compute a in ((keyf a, v) :: evict a s, v)
    end.

  Fixpoint run (s : state) (h : list A) : state * list V :=
    match h with
    | [] => (s, [])
    | a :: h' => let sv := step s a in
                 let r := run (fst sv) h' in (fst r, snd sv :: snd r)
    end.

  Definition results (h : list A) : list V := snd (run [] h).

  Lemma lookup_In : forall k s v, lookup k s = Some v -> In (k, v) s.
  Proof.
    intros k s. induction s as [|[k' v'] s IH]; simpl; intros v H; [discriminate|].
    destruct (keqb k k') eqn:E.
    - apply keqb_eq in E. inversion H; subst. now left.
    - right. now apply IH.
  Qed.

  Lemma results_length : forall h s, length (snd (run s h)) = length h.
  Proof. induction h as [|a h IH]; intros s; simpl; [reflexivity | now rewrite IH]. Qed.

  (* ---- every stored / returned value is the compute of an argument seen so far with that key ---- *)
  Definition from_args (seen : list A) (s : state) : Prop :=
    forall k v, In (k, v) s -> exists a', In a' seen /\ keyf a' = k /\ compute a' = v.

  Lemma step_origin : forall seen s a,
      from_args seen s ->
      from_args (seen ++ [a]) (fst (step s a)) /\
      exists a', In a' (seen ++ [a]) /\ keyf a' = keyf a /\ compute a' = snd (step s a).
  Proof.
    intros seen s a Hs. unfold step. destruct (lookup (keyf a) s) as [v|] eqn:L; simpl.
    - split.
      + intros k v' Hin. destruct (Hs k v' Hin) as [a' [H1 H2]]. exists a'. split; [apply in_or_app; now left | exact H2].
      + apply lookup_In in L. destruct (Hs _ _ L) as [a' [H1 H2]]. exists a'. split; [apply in_or_app; now left | exact H2].
    - split.
      + intros k v' [Hin|Hin].
        * inversion Hin; subst. exists a. split; [apply in_or_app; right; now left | now split].
        * apply evict_incl in Hin. destruct (Hs k v' Hin) as [a' [H1 H2]]. exists a'.
          split; [apply in_or_app; now left | exact H2].
      + exists a. split; [apply in_or_app; right; now left | now split].
  Qed.

  Lemma run_origin : forall h seen s,
      from_args seen s ->
      forall i v, nth_error (snd (run s h)) i = Some v ->
      exists a a', nth_error h i = Some a /\ In a' (seen ++ firstn (S i) h) /\ keyf a' = keyf a /\ compute a' = v.
  Proof.
    induction h as [|a h IH]; intros seen s Hs i v Hi; simpl in *.
    - destruct i; discriminate.
    - destruct (step_origin seen s a Hs) as [Hs' [a' [Ha1 [Ha2 Ha3]]]].
      destruct i as [|i]; simpl in *.
      + inversion Hi; subst. exists a, a'. split; [reflexivity|]. split; [exact Ha1 | now split].
      + destruct (IH (seen ++ [a]) _ Hs' i v Hi) as [b [b' [Hb0 [Hb1 Hb2]]]].
        exists b, b'. split; [exact Hb0|]. split; [|exact Hb2].
        rewrite <- app_assoc in Hb1. exact Hb1.
  Qed.

  Theorem results_have_origin : forall h i v,
      nth_error (results h) i = Some v ->
      exists a a', nth_error h i = Some a /\ In a' (firstn (S i) h) /\ keyf a' = keyf a /\ compute a' = v.
  Proof.
    intros h i v H. apply (run_origin h [] []); [|exact H]. intros k v' [].
  Qed.

  (* ---- transparency ---- *)
  Definition agrees_with (h : list A) (s : state) : Prop :=
    forall k v, In (k, v) s -> forall a, In a h -> keyf a = k -> compute a = v.

  Lemma run_transparent : forall h s,
      (forall a b, In a h -> In b h -> keyf a = keyf b -> compute a = compute b) ->
      agrees_with h s -> snd (run s h) = map compute h.
  Proof.
    induction h as [|a h IH]; intros s Hk Hs; simpl; [reflexivity|].
    assert (Hk' : forall x y, In x h -> In y h -> keyf x = keyf y -> compute x = compute y)
      by (intros x y Hx Hy; apply Hk; now right).
    unfold step. destruct (lookup (keyf a) s) as [v|] eqn:L; simpl.
    - apply lookup_In in L. rewrite (Hs _ _ L a (or_introl eq_refl) eq_refl). f_equal.
      apply IH; [exact Hk'|]. intros k v' Hin b Hb. apply (Hs k v' Hin). now right.
    - f_equal. apply IH; [exact Hk'|]. intros k v' [Hin|Hin] b Hb Hkb.
      + inversion Hin; subst. symmetry. apply Hk; [now left | now right | now symmetry].
      + apply evict_incl in Hin. apply (Hs k v' Hin); [now right | exact Hkb].
  Qed.

  Theorem transparent_on : forall h,
      (forall a b, In a h -> In b h -> keyf a = keyf b -> compute a = compute b) ->
      results h = map compute h.
  Proof. intros h Hk. apply run_transparent; [exact Hk|]. intros k v []. Qed.

  Theorem transparent :
      (forall a b, keyf a = keyf b -> compute a = compute b) ->
      forall h, results h = map compute h.
  Proof. intros Hk h. apply transparent_on. intros a b _ _. apply Hk. Qed.

  (* ---- the converse, used for refutations ---- *)
  Lemma lookup_head : forall k v s, lookup k ((k, v) :: s) = Some v.
  Proof. intros. simpl. assert (E : keqb k k = true) by now apply keqb_eq. now rewrite E. Qed.

  Theorem stale_two_step : forall a b,
      keyf a = keyf b -> results [a; b] = [compute a; compute a].
  Proof.
    intros a b Hk. unfold results.
    assert (S1 : step [] a = ((keyf a, compute a) :: evict a [], compute a)) by reflexivity.
    assert (S2 : step ((keyf a, compute a) :: evict a []) b
                 = ((keyf a, compute a) :: evict a [], compute a)).
    { unfold step. rewrite <- Hk. rewrite lookup_head. reflexivity. }
    cbn [run]. rewrite S1. cbn [fst snd]. rewrite S2. reflexivity.
  Qed.

  Corollary stale_witness : forall a b,
      keyf a = keyf b -> compute a <> compute b ->
      exists h, nth_error (results h) 1 <> nth_error (map compute h) 1.
  Proof.
    intros a b Hk Hc. exists [a; b]. rewrite (stale_two_step a b Hk). simpl.
    intros H. inversion H. now apply Hc.
  Qed.

  Theorem transparent_iff :
      (forall h, results h = map compute h) <-> (forall a b, keyf a = keyf b -> compute a = compute b).
  Proof.
    split; [|exact transparent].
    intros H a b Hk. specialize (H [a; b]). rewrite (stale_two_step a b Hk) in H. simpl in H.
    now inversion H.
  Qed.
End Memo.

Arguments lookup {K V}. Arguments step {A K V}. Arguments run {A K V}. Arguments results {A K V}.

(* eviction policies *)
Definition keep_all {A K V : Type} (_ : A) (s : list (K * V)) := s.                     (* growing dictionary *)
Definition drop_all {A K V : Type} (_ : A) (_ : list (K * V)) : list (K * V) := [].     (* single slot *)
(* single slot per owner object: a miss on an argument of owner o replaces o's entry only *)
Definition drop_owner {A K V : Type} (same : A -> K -> bool) (a : A) (s : list (K * V)) :=
  filter (fun e => negb (same a (fst e))) s.

Lemma keep_all_incl {A K V} (a : A) (s : list (K * V)) : incl (keep_all a s) s.
Proof. apply incl_refl. Qed.
Lemma drop_all_incl {A K V} (a : A) (s : list (K * V)) : incl (drop_all a s) s.
Proof. intros x []. Qed.
Lemma drop_owner_incl {A K V} same (a : A) (s : list (K * V)) : incl (drop_owner same a s) s.
Proof. intros x H. apply filter_In in H. tauto. Qed.
