(* C09_PolyQ — the polynomial semantics of C09_Poly instantiated at the field Q (evaluation at
   rational points, computable by vm_compute). *)
From Coq Require Import List Arith ZArith QArith Qfield Bool Lia Ring Ring_theory Setoid Morphisms.
Import ListNotations.
Require Import Base.C09_Poly.

Lemma Qreqe : ring_eq_ext Qplus Qmult Qopp Qeq.
Proof. constructor; [exact Qplus_comp | exact Qmult_comp | exact Qopp_comp]. Qed.

Lemma Qidmorph : ring_morph 0%Q 1%Q Qplus Qmult Qminus Qopp Qeq 0%Q 1%Q Qplus Qmult Qminus Qopp Qeq_bool (fun x : Q => x).
Proof.
  constructor; intros; try reflexivity. now apply Qeq_bool_eq.
Qed.

Definition qeval (p : poly) (pt : nat -> Q) : Q := peval Q 0%Q 1%Q Qplus Qmult (fun x => x) p pt.
Definition lpt (l : list Q) : nat -> Q := fun i => nth i l 0%Q.

Definition q_peqb_sound := peqb_sound Q 0%Q 1%Q Qplus Qmult Qminus Qopp Qeq (fun x => x) Q_Setoid Qreqe Qsrt Qidmorph.
Definition q_pis_zero_sound := pis_zero_sound Q 0%Q 1%Q Qplus Qmult Qminus Qopp Qeq (fun x => x) Q_Setoid Qreqe Qsrt Qidmorph.

Example qeval_ex : qeval (pmul (padd (pvar 0) (pconst (1#2))) (pvar 1)) (lpt [3; 5]) == 35 # 2.
Proof. vm_compute. reflexivity. Qed.

Example peqb_ex : peqb (pmul (padd (pvar 0) (pvar 1)) (padd (pvar 0) (pvar 1)))
                       (padd (ppow (pvar 0) 2) (padd (pscale 2 (pmul (pvar 1) (pvar 0))) (ppow (pvar 1) 2))) = true.
Proof. vm_compute. reflexivity. Qed.

Example pderiv_ex : peqb (pderiv 1 (pmul (ppow (pvar 0) 2) (ppow (pvar 1) 3))) (pscale 3 (pmul (ppow (pvar 0) 2) (ppow (pvar 1) 2))) = true.
Proof. vm_compute. reflexivity. Qed.
