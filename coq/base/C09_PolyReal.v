(* C09_PolyReal — bridge from the formal derivative to the derivative of analysis (Coquelicot):
   the polynomial semantics of C09_Poly instantiated at the real numbers, and
       is_derive (fun t => reval p (upd pt k t)) (pt k) (reval (pderiv k p) pt)
   for every polynomial p, every variable k and every real point pt.
   Assumptions: only those of the standard library's real numbers, as printed under the theorems of props/C09.v. *)
From Coq Require Import Reals QArith Qreals List Arith Lia Lra Ring_theory Setoid.
From Coquelicot Require Import Coquelicot.
Import ListNotations.
Require Import Base.C09_Poly.
Open Scope R_scope.

Lemma Rreqe : ring_eq_ext Rplus Rmult Ropp (@eq R).
Proof. exact (Eq_ext Rplus Rmult Ropp). Qed.

Lemma Rrth : ring_theory 0 1 Rplus Rmult Rminus Ropp (@eq R).
Proof.
  constructor; intros; try ring.
Qed.

Lemma Q2Rmorph : ring_morph 0 1 Rplus Rmult Rminus Ropp (@eq R) 0%Q 1%Q Qplus Qmult Qminus Qopp Qeq_bool Q2R.
Proof.
  constructor.
  - unfold Q2R; simpl; lra.
  - unfold Q2R; simpl; lra.
  - exact Q2R_plus.
  - exact Q2R_minus.
  - exact Q2R_mult.
  - exact Q2R_opp.
  - intros x y H. apply Qeq_eqR. now apply Qeq_bool_eq.
Qed.

Definition reval (p : poly) (pt : nat -> R) : R := peval R 0 1 Rplus Rmult Q2R p pt.
Definition rmeval (m : mono) (pt : nat -> R) (i : nat) : R := meval R 1 Rmult m pt i.
Definition rmdval (k : nat) (m : mono) (pt : nat -> R) (i : nat) : R := mdval R 0 1 Rmult Q2R k m pt i.

Definition r_peqb_sound := peqb_sound R 0 1 Rplus Rmult Rminus Ropp (@eq R) Q2R eq_equivalence Rreqe Rrth Q2Rmorph.
Definition r_peval_tderiv := peval_tderiv R 0 1 Rplus Rmult Rminus Ropp (@eq R) Q2R eq_equivalence Rreqe Rrth Q2Rmorph.
Definition r_rnat_S := rnat_S R 0 1 Rplus Rmult Rminus Ropp (@eq R) Q2R eq_equivalence Rreqe Q2Rmorph.
Definition r_rnat_0 := rnat_0 R 0 1 Rplus Rmult Rminus Ropp (@eq R) Q2R Q2Rmorph.

Lemma rpow_pow x n : rpow R 1 Rmult x n = x ^ n.
Proof. induction n as [|n IH]; simpl; [reflexivity | now rewrite IH]. Qed.

Lemma rnat_INR n : rnat R Q2R n = INR n.
Proof.
  induction n as [|n IH].
  - rewrite r_rnat_0. reflexivity.
  - rewrite r_rnat_S, IH, S_INR. ring.
Qed.

Definition upd (pt : nat -> R) (k : nat) (t : R) : nat -> R := fun i => if Nat.eqb i k then t else pt i.

Lemma upd_same pt k i : upd pt k (pt k) i = pt i.
Proof. unfold upd. destruct (Nat.eqb_spec i k); subst; reflexivity. Qed.

Lemma upd_eq pt k t : upd pt k t k = t.
Proof. unfold upd. now rewrite Nat.eqb_refl. Qed.
Lemma upd_neq pt k t i : i <> k -> upd pt k t i = pt i.
Proof. unfold upd. intros H. destruct (Nat.eqb_spec i k); [contradiction | reflexivity]. Qed.

Lemma rmeval_ext m : forall pt pt' i, (forall j, pt j = pt' j) -> rmeval m pt i = rmeval m pt' i.
Proof.
  induction m as [|e m IH]; intros pt pt' i H; simpl; [reflexivity|].
  unfold rmeval in *. simpl. rewrite (H i), (IH pt pt' (S i) H). reflexivity.
Qed.

Lemma rmdval_ext m : forall kk pt pt' i, (forall j, pt j = pt' j) -> rmdval kk m pt i = rmdval kk m pt' i.
Proof.
  induction m as [|e m IH]; intros kk pt pt' i H; [reflexivity|].
  unfold rmdval in *. simpl. destruct kk as [|kk].
  - rewrite (H i). fold (rmeval m pt (S i)). fold (rmeval m pt' (S i)). rewrite (rmeval_ext m pt pt' (S i) H). reflexivity.
  - rewrite (H i), (IH kk pt pt' (S i) H). reflexivity.
Qed.

(* derivative of a monomial (variables from index i on) with respect to the variable of absolute index K *)
Lemma rmeval_is_derive m : forall i K pt,
    is_derive (fun t => rmeval m (upd pt K t) i) (pt K)
              (if (K <? i)%nat then 0 else rmdval (K - i) m pt i).
Proof.
  induction m as [|e m IH]; intros i K pt.
  - unfold rmeval, rmdval; simpl. destruct (K <? i)%nat; apply (is_derive_const 1).
  - unfold rmeval, rmdval. simpl meval. fold (rmeval m).
    destruct (lt_eq_lt_dec K i) as [[Hlt|Heq]|Hgt].
    + (* K < i : nothing depends on x_K *)
      replace (K <? i)%nat with true by (symmetry; apply Nat.ltb_lt; lia).
      apply (is_derive_ext (fun t => rpow R 1 Rmult (pt i) e * rmeval m (upd pt K t) (S i))).
      { intros t. rewrite (upd_neq pt K t i) by lia. reflexivity. }
      evar_last.
      { apply (is_derive_scal (fun t => rmeval m (upd pt K t) (S i)) (pt K) (rpow R 1 Rmult (pt i) e)).
        apply (IH (S i) K pt). }
      assert (E1 : (K <? S i)%nat = true) by (apply Nat.ltb_lt; lia). rewrite E1. unfold scal; simpl. unfold mult; simpl. ring.
    + (* K = i *)
      subst K. replace (i <? i)%nat with false by (symmetry; apply Nat.ltb_ge; lia).
      replace (i - i)%nat with 0%nat by lia. simpl mdval.
      apply (is_derive_ext (fun t => t ^ e * rmeval m (upd pt i t) (S i))).
      { intros t. rewrite (upd_eq pt i t). rewrite (rpow_pow t e). reflexivity. }
      evar_last.
      { apply (is_derive_mult (fun t => t ^ e) (fun t => rmeval m (upd pt i t) (S i)) (pt i)).
        - apply (is_derive_pow (fun t => t) e (pt i) 1). apply (is_derive_id (pt i)).
        - apply (IH (S i) i pt).
        - intros; apply Rmult_comm. }
      assert (E1 : (i <? S i)%nat = true) by (apply Nat.ltb_lt; lia). rewrite E1.
      rewrite (rmeval_ext m (upd pt i (pt i)) pt (S i) (upd_same pt i)).
      unfold plus, mult, scal, one; simpl. unfold mult; simpl.
      fold (rmeval m pt (S i)).
      destruct e as [|e].
      * simpl. ring.
      * unfold dpow. rewrite (rnat_INR (S e)), (rpow_pow (pt i) e). simpl Nat.pred. ring.
    + (* K > i *)
      replace (K <? i)%nat with false by (symmetry; apply Nat.ltb_ge; lia).
      destruct (K - i)%nat as [|kk] eqn:E; [lia|]. simpl mdval.
      apply (is_derive_ext (fun t => rpow R 1 Rmult (pt i) e * rmeval m (upd pt K t) (S i))).
      { intros t. rewrite (upd_neq pt K t i) by lia. reflexivity. }
      evar_last.
      { apply (is_derive_scal (fun t => rmeval m (upd pt K t) (S i)) (pt K) (rpow R 1 Rmult (pt i) e)).
        apply (IH (S i) K pt). }
      assert (E1 : (K <? S i)%nat = false) by (apply Nat.ltb_ge; lia). rewrite E1.
      replace (K - S i)%nat with kk by lia. unfold rmdval, scal; simpl. unfold mult; simpl. reflexivity.
Qed.

(* the bridge: the formal partial derivative is the partial derivative, at every real point *)
Theorem pderiv_is_derive (p : poly) (k : nat) (pt : nat -> R) :
  is_derive (fun t => reval p (upd pt k t)) (pt k) (reval (pderiv k p) pt).
Proof.
  induction p as [|t p IH].
  - unfold reval; simpl. apply (is_derive_const 0).
  - unfold reval in *. simpl peval.
    change (pderiv k (t :: p)) with (tderiv k t ++ pderiv k p).
    rewrite (peval_app R 0 1 Rplus Rmult Rminus Ropp (@eq R) Q2R eq_equivalence Rreqe Rrth).
    apply (is_derive_plus (fun x => teval R 1 Rmult Q2R t (upd pt k x)) (fun x => peval R 0 1 Rplus Rmult Q2R p (upd pt k x))); [|exact IH].
    rewrite r_peval_tderiv. unfold teval.
    evar_last.
    { apply (is_derive_scal (fun x => rmeval (snd t) (upd pt k x) 0) (pt k) (Q2R (fst t))).
      apply (rmeval_is_derive (snd t) 0%nat k pt). }
    simpl. replace (k - 0)%nat with k by lia. reflexivity.
Qed.

(* corollary in Derive form *)
Corollary Derive_reval (p : poly) (k : nat) (pt : nat -> R) :
  Derive (fun t => reval p (upd pt k t)) (pt k) = reval (pderiv k p) pt.
Proof. apply is_derive_unique. apply pderiv_is_derive. Qed.
