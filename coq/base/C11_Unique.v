(* NumPy-on-lists pieces shared by C11 / C04 / C07:
   - isort       : np.sort of a 1-D integer array (a column of np.sort(axis=0))
   - uniq        : np.unique (sorted, duplicates removed) for a decidable total order
   - first_index : return_index  (position of the first occurrence of each unique value)
   - inverse     : return_inverse (position in the unique array of each input value)
   - lex_cmp     : the order np.unique(axis=1) puts on columns (first row most significant)
   together with the facts the property theorems need. *)
From Coq Require Import List Arith Lia Bool Sorted Permutation.
Import ListNotations.

(* ------------------------------------------------------------------ nth helpers *)
Lemma nth_map_d {A B} (f : A -> B) l k dA dB :
  k < length l -> nth k (map f l) dB = f (nth k l dA).
Proof.
  intros H. rewrite (nth_indep _ dB (f dA)) by (now rewrite map_length). apply map_nth.
Qed.

Lemma nth_seq_map {B} (f : nat -> B) n k d : k < n -> nth k (map f (seq 0 n)) d = f k.
Proof.
  intros H. rewrite (nth_map_d f (seq 0 n) k 0 d) by (now rewrite seq_length).
  now rewrite seq_nth.
Qed.

(* ------------------------------------------------------------------ insertion sort on nat *)
Fixpoint ins (x : nat) (l : list nat) : list nat :=
  match l with
  | [] => [x]
  | y :: l' => if x <=? y then x :: l else y :: ins x l'
  end.
Definition isort (l : list nat) : list nat := fold_right ins [] l.

Lemma ins_perm x l : Permutation (x :: l) (ins x l).
Proof.
  induction l as [|y l IH]; simpl; [apply Permutation_refl|].
  destruct (x <=? y); [apply Permutation_refl|].
  eapply Permutation_trans; [apply perm_swap|]. now apply perm_skip.
Qed.

Lemma isort_perm l : Permutation l (isort l).
Proof.
  induction l as [|x l IH]; simpl; [constructor|].
  eapply Permutation_trans; [apply perm_skip, IH | apply ins_perm].
Qed.

Lemma isort_in l x : In x (isort l) <-> In x l.
Proof.
  split; intros H.
  - eapply Permutation_in; [apply Permutation_sym, isort_perm | exact H].
  - eapply Permutation_in; [apply isort_perm | exact H].
Qed.

Lemma isort_length l : length (isort l) = length l.
Proof. symmetry. apply Permutation_length, isort_perm. Qed.

Lemma ins_sorted x l : Sorted le l -> Sorted le (ins x l).
Proof.
  induction l as [|y l IH]; intros Hs; simpl.
  - repeat constructor.
  - destruct (Nat.leb_spec x y) as [Hxy|Hxy].
    + constructor; [exact Hs | constructor; exact Hxy].
    + inversion Hs as [|? ? Hs' Hhd]; subst. constructor; [now apply IH|].
      destruct l as [|z l]; simpl.
      * constructor. lia.
      * destruct (Nat.leb_spec x z); constructor; try lia.
        inversion Hhd; subst. assumption.
Qed.

Lemma isort_sorted l : Sorted le (isort l).
Proof. induction l; simpl; [constructor | now apply ins_sorted]. Qed.

Lemma isort_strongly_sorted l : StronglySorted le (isort l).
Proof. apply Sorted_StronglySorted; [intros a b c; apply Nat.le_trans | apply isort_sorted]. Qed.

(* two sorted lists that are permutations of each other are equal *)
Lemma sorted_perm_eq l1 : forall l2,
  StronglySorted le l1 -> StronglySorted le l2 -> Permutation l1 l2 -> l1 = l2.
Proof.
  induction l1 as [|x l1 IH]; intros l2 H1 H2 Hp.
  - apply Permutation_nil in Hp. now subst.
  - destruct l2 as [|y l2]; [apply Permutation_sym, Permutation_nil in Hp; discriminate|].
    inversion H1 as [|? ? S1 F1]; inversion H2 as [|? ? S2 F2]; subst.
    assert (x = y).
    { assert (Hx : In x (y :: l2)) by (eapply Permutation_in; [exact Hp | now left]).
      assert (Hy : In y (x :: l1)) by (eapply Permutation_in; [apply Permutation_sym, Hp | now left]).
      rewrite Forall_forall in F1, F2.
      destruct Hx as [Hx|Hx]; [now subst|]. destruct Hy as [Hy|Hy]; [now subst|].
      specialize (F1 _ Hy). specialize (F2 _ Hx). lia. }
    subst y. f_equal. apply IH; try assumption. eapply Permutation_cons_inv; exact Hp.
Qed.

Lemma isort_of_perm l1 l2 : Permutation l1 l2 -> isort l1 = isort l2.
Proof.
  intros Hp. apply sorted_perm_eq; try apply isort_strongly_sorted.
  eapply Permutation_trans; [apply Permutation_sym, isort_perm|].
  eapply Permutation_trans; [exact Hp | apply isort_perm].
Qed.

Lemma isort_idem l : isort (isort l) = isort l.
Proof. apply isort_of_perm, Permutation_sym, isort_perm. Qed.

(* ------------------------------------------------------------------ unique over a total order *)
Section Unique.
  Variable A : Type.
  Variable cmp : A -> A -> comparison.

  Fixpoint insert (x : A) (l : list A) : list A :=
    match l with
    | [] => [x]
    | y :: l' => match cmp x y with
                 | Lt => x :: l
                 | Eq => l
                 | Gt => y :: insert x l'
                 end
    end.
  Definition uniq (l : list A) : list A := fold_right insert [] l.

  (* position of the first element equal to x (length l if there is none) *)
  Fixpoint index_of (x : A) (l : list A) : nat :=
    match l with
    | [] => 0
    | y :: l' => match cmp x y with Eq => 0 | _ => S (index_of x l') end
    end.
  Fixpoint memb (x : A) (l : list A) : bool :=
    match l with
    | [] => false
    | y :: l' => match cmp x y with Eq => true | _ => memb x l' end
    end.
  Definition inverse (l : list A) : list nat := let u := uniq l in map (fun x => index_of x u) l.
  Definition first_index (l : list A) : list nat := map (fun u => index_of u l) (uniq l).

  Hypothesis cmp_eq : forall x y, cmp x y = Eq <-> x = y.
  Hypothesis cmp_antisym : forall x y, cmp x y = CompOpp (cmp y x).
  Hypothesis cmp_trans : forall x y z, cmp x y = Lt -> cmp y z = Lt -> cmp x z = Lt.

  Definition lt (x y : A) : Prop := cmp x y = Lt.

  Lemma cmp_refl x : cmp x x = Eq.
  Proof. now apply cmp_eq. Qed.

  Lemma lt_irrefl x : ~ lt x x.
  Proof. unfold lt. rewrite cmp_refl. discriminate. Qed.

  Lemma gt_lt x y : cmp x y = Gt -> lt y x.
  Proof. unfold lt. intros H. rewrite cmp_antisym, H. reflexivity. Qed.

  Lemma lt_trans : Relations_1.Transitive lt.
  Proof. intros x y z. apply cmp_trans. Qed.

  Lemma insert_in x l y : In y (insert x l) <-> y = x \/ In y l.
  Proof.
    induction l as [|z l IH]; simpl.
    - intuition.
    - destruct (cmp x z) eqn:E; simpl.
      + apply cmp_eq in E. subst. intuition.
      + intuition.
      + rewrite IH. intuition.
  Qed.

  Lemma uniq_in l y : In y (uniq l) <-> In y l.
  Proof.
    induction l as [|x l IH]; simpl; [reflexivity|].
    rewrite insert_in, IH. intuition.
  Qed.

  Lemma insert_sorted x l : Sorted lt l -> Sorted lt (insert x l).
  Proof.
    induction l as [|y l IH]; intros Hs; simpl.
    - repeat constructor.
    - destruct (cmp x y) eqn:E.
      + exact Hs.
      + constructor; [exact Hs | constructor; exact E].
      + inversion Hs as [|? ? Hs' Hhd]; subst. constructor; [now apply IH|].
        destruct l as [|z l]; simpl.
        * constructor. now apply gt_lt.
        * destruct (cmp x z) eqn:E2.
          -- exact Hhd.
          -- constructor. now apply gt_lt.
          -- inversion Hhd; subst. now constructor.
  Qed.

  Lemma uniq_sorted l : Sorted lt (uniq l).
  Proof. induction l; simpl; [constructor | now apply insert_sorted]. Qed.

  Lemma uniq_strongly_sorted l : StronglySorted lt (uniq l).
  Proof. apply Sorted_StronglySorted; [exact lt_trans | apply uniq_sorted]. Qed.

  Lemma strongly_sorted_NoDup l : StronglySorted lt l -> NoDup l.
  Proof.
    induction 1 as [|x l Hs IH Hf]; constructor; [|exact IH].
    intros Hin. rewrite Forall_forall in Hf. apply (lt_irrefl x). now apply Hf.
  Qed.

  Lemma uniq_NoDup l : NoDup (uniq l).
  Proof. apply strongly_sorted_NoDup, uniq_strongly_sorted. Qed.

  (* strictly sorted lists are determined by their elements *)
  Lemma strongly_sorted_ext l1 : forall l2,
    StronglySorted lt l1 -> StronglySorted lt l2 -> (forall x, In x l1 <-> In x l2) -> l1 = l2.
  Proof.
    induction l1 as [|x l1 IH]; intros l2 H1 H2 Hx.
    - destruct l2 as [|y l2]; [reflexivity|]. exfalso. apply (Hx y). now left.
    - destruct l2 as [|y l2]; [exfalso; apply (Hx x); now left|].
      inversion H1 as [|? ? S1 F1]; inversion H2 as [|? ? S2 F2]; subst.
      rewrite Forall_forall in F1, F2.
      assert (x = y).
      { assert (Hx' : In x (y :: l2)) by (apply Hx; now left).
        assert (Hy' : In y (x :: l1)) by (apply Hx; now left).
        destruct Hx' as [Hx'|Hx']; [now subst|]. destruct Hy' as [Hy'|Hy']; [now subst|].
        exfalso. apply (lt_irrefl x). eapply lt_trans; [apply F1, Hy' | apply F2, Hx']. }
      subst y. f_equal. apply IH; try assumption.
      intros z. split; intros Hz.
      + assert (Hz' : In z (x :: l2)) by (apply Hx; now right).
        destruct Hz' as [Hz'|Hz']; [|exact Hz']. subst z. exfalso. apply (lt_irrefl x). now apply F1.
      + assert (Hz' : In z (x :: l1)) by (apply Hx; now right).
        destruct Hz' as [Hz'|Hz']; [|exact Hz']. subst z. exfalso. apply (lt_irrefl x). now apply F2.
  Qed.

  (* np.unique depends only on the SET of input values *)
  Lemma uniq_ext l1 l2 : (forall x, In x l1 <-> In x l2) -> uniq l1 = uniq l2.
  Proof.
    intros H. apply strongly_sorted_ext; try apply uniq_strongly_sorted.
    intros x. rewrite !uniq_in. apply H.
  Qed.

  Lemma uniq_of_strongly_sorted l : StronglySorted lt l -> uniq l = l.
  Proof.
    intros H. apply strongly_sorted_ext; [apply uniq_strongly_sorted | exact H | apply uniq_in].
  Qed.

  Lemma memb_in x l : memb x l = true <-> In x l.
  Proof.
    induction l as [|y l IH]; simpl; [intuition discriminate|].
    destruct (cmp x y) eqn:E.
    - apply cmp_eq in E. subst. intuition.
    - rewrite IH. split; [intuition|]. intros [H|H]; [|exact H]. subst. rewrite cmp_refl in E. discriminate.
    - rewrite IH. split; [intuition|]. intros [H|H]; [|exact H]. subst. rewrite cmp_refl in E. discriminate.
  Qed.

  Lemma index_of_lt x l : In x l -> index_of x l < length l.
  Proof.
    induction l as [|y l IH]; simpl; [intuition|]. intros H.
    destruct (cmp x y) eqn:E; try lia.
    - destruct H as [H|H]; [subst; rewrite cmp_refl in E; discriminate|]. specialize (IH H). lia.
    - destruct H as [H|H]; [subst; rewrite cmp_refl in E; discriminate|]. specialize (IH H). lia.
  Qed.

  Lemma index_of_nth x l d : In x l -> nth (index_of x l) l d = x.
  Proof.
    induction l as [|y l IH]; simpl; [intuition|]. intros H.
    destruct (cmp x y) eqn:E.
    - apply cmp_eq in E. now subst.
    - destruct H as [H|H]; [subst; rewrite cmp_refl in E; discriminate|]. now apply IH.
    - destruct H as [H|H]; [subst; rewrite cmp_refl in E; discriminate|]. now apply IH.
  Qed.

  (* it is the FIRST occurrence *)
  Lemma index_of_first x l d k : k < index_of x l -> nth k l d <> x.
  Proof.
    revert k. induction l as [|y l IH]; simpl; intros k Hk; [lia|].
    destruct (cmp x y) eqn:E; try lia.
    - destruct k as [|k]; [intros ->; rewrite cmp_refl in E; discriminate | apply IH; lia].
    - destruct k as [|k]; [intros ->; rewrite cmp_refl in E; discriminate | apply IH; lia].
  Qed.

  Lemma index_of_NoDup l d j : NoDup l -> j < length l -> index_of (nth j l d) l = j.
  Proof.
    revert j. induction l as [|y l IH]; simpl; intros j Hnd Hj; [lia|].
    inversion Hnd as [|? ? Hnin Hnd']; subst.
    destruct j as [|j].
    - now rewrite cmp_refl.
    - destruct (cmp (nth j l d) y) eqn:E.
      + apply cmp_eq in E. exfalso. apply Hnin. rewrite <- E. apply nth_In. lia.
      + f_equal. apply IH; [assumption | lia].
      + f_equal. apply IH; [assumption | lia].
  Qed.

  (* ---- return_inverse *)
  Lemma inverse_length l : length (inverse l) = length l.
  Proof. unfold inverse. now rewrite map_length. Qed.

  Lemma inverse_nth l k d : k < length l ->
    nth k (inverse l) 0 = index_of (nth k l d) (uniq l).
  Proof. intros H. unfold inverse. now rewrite (nth_map_d _ l k d 0). Qed.

  Theorem inverse_bound l k : k < length l -> nth k (inverse l) 0 < length (uniq l).
  Proof.
    intros H. destruct l as [|a l']; [simpl in H; lia|]. rewrite (inverse_nth _ _ a H).
    apply index_of_lt, uniq_in, nth_In, H.
  Qed.

  Theorem inverse_correct l k d : k < length l ->
    nth (nth k (inverse l) 0) (uniq l) d = nth k l d.
  Proof.
    intros H. rewrite (inverse_nth _ _ d H). apply index_of_nth, uniq_in, nth_In, H.
  Qed.

  Theorem inverse_onto l j : j < length (uniq l) ->
    exists k, k < length l /\ nth k (inverse l) 0 = j.
  Proof.
    intros Hj. destruct l as [|a l']; [simpl in Hj; lia|]. set (l := a :: l') in *.
    assert (Hin : In (nth j (uniq l) a) l) by (apply uniq_in, nth_In, Hj).
    destruct (In_nth _ _ a Hin) as [k [Hk Hnth]].
    exists k. split; [exact Hk|]. rewrite (inverse_nth _ _ a Hk), Hnth.
    apply index_of_NoDup; [apply uniq_NoDup | exact Hj].
  Qed.

  (* equal input values <-> equal inverse entries *)
  Theorem inverse_eq_iff l k1 k2 d : k1 < length l -> k2 < length l ->
    (nth k1 (inverse l) 0 = nth k2 (inverse l) 0 <-> nth k1 l d = nth k2 l d).
  Proof.
    intros H1 H2. split; intros H.
    - rewrite <- (inverse_correct l k1 d H1), <- (inverse_correct l k2 d H2). now rewrite H.
    - rewrite (inverse_nth _ _ d H1), (inverse_nth _ _ d H2). now rewrite H.
  Qed.

  (* ---- return_index *)
  Lemma first_index_length l : length (first_index l) = length (uniq l).
  Proof. unfold first_index. now rewrite map_length. Qed.

  Theorem first_index_correct l j d : j < length (uniq l) ->
    nth j (first_index l) 0 < length l /\
    nth (nth j (first_index l) 0) l d = nth j (uniq l) d /\
    forall k, k < nth j (first_index l) 0 -> nth k l d <> nth j (uniq l) d.
  Proof.
    intros Hj. unfold first_index. rewrite (nth_map_d _ (uniq l) j d 0 Hj).
    assert (Hin : In (nth j (uniq l) d) l) by (apply uniq_in, nth_In, Hj).
    split; [now apply index_of_lt|]. split; [now apply index_of_nth|].
    intros k Hk. now apply index_of_first.
  Qed.
End Unique.

Arguments insert {A}. Arguments uniq {A}. Arguments index_of {A}. Arguments memb {A}.
Arguments inverse {A}. Arguments first_index {A}. Arguments lt {A}.

(* ------------------------------------------------------------------ the order on nat *)
Lemma nat_cmp_eq x y : Nat.compare x y = Eq <-> x = y.
Proof. apply Nat.compare_eq_iff. Qed.
Lemma nat_cmp_antisym x y : Nat.compare x y = CompOpp (Nat.compare y x).
Proof. apply Nat.compare_antisym. Qed.
Lemma nat_cmp_trans x y z : Nat.compare x y = Lt -> Nat.compare y z = Lt -> Nat.compare x z = Lt.
Proof. rewrite !Nat.compare_lt_iff. lia. Qed.

Lemma nat_lt_iff x y : lt Nat.compare x y <-> x < y.
Proof. unfold lt. apply Nat.compare_lt_iff. Qed.

(* ------------------------------------------------------------------ lexicographic order on columns *)
Fixpoint lex_cmp (a b : list nat) : comparison :=
  match a, b with
  | [], [] => Eq
  | [], _ :: _ => Lt
  | _ :: _, [] => Gt
  | x :: a', y :: b' => match Nat.compare x y with Eq => lex_cmp a' b' | c => c end
  end.

Lemma lex_cmp_eq a : forall b, lex_cmp a b = Eq <-> a = b.
Proof.
  induction a as [|x a IH]; intros [|y b]; simpl; try (split; [discriminate | intros H; inversion H]); [tauto|].
  destruct (Nat.compare x y) eqn:E.
  - apply Nat.compare_eq_iff in E. subst. rewrite IH. split; [now intros -> | intros H; now inversion H].
  - split; [discriminate|]. intros H. inversion H; subst. rewrite Nat.compare_refl in E. discriminate.
  - split; [discriminate|]. intros H. inversion H; subst. rewrite Nat.compare_refl in E. discriminate.
Qed.

Lemma lex_cmp_antisym a : forall b, lex_cmp a b = CompOpp (lex_cmp b a).
Proof.
  induction a as [|x a IH]; intros [|y b]; simpl; try reflexivity.
  rewrite (Nat.compare_antisym y x). destruct (Nat.compare y x); simpl; auto.
Qed.

Lemma lex_cmp_trans a : forall b c, lex_cmp a b = Lt -> lex_cmp b c = Lt -> lex_cmp a c = Lt.
Proof.
  induction a as [|x a IH]; intros [|y b] [|z c]; simpl; try discriminate; try reflexivity.
  destruct (Nat.compare x y) eqn:E1; destruct (Nat.compare y z) eqn:E2; try discriminate; intros H1 H2.
  - apply Nat.compare_eq_iff in E1, E2. subst. rewrite Nat.compare_refl. eapply IH; eassumption.
  - apply Nat.compare_eq_iff in E1. subst. now rewrite E2.
  - apply Nat.compare_eq_iff in E2. subst. now rewrite E1.
  - apply Nat.compare_lt_iff in E1, E2. assert (E : Nat.compare x z = Lt) by (apply Nat.compare_lt_iff; lia).
    now rewrite E.
Qed.
