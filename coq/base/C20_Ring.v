(* Generic commutative ring / field interface for the T2-generated terms of C20 and C10.

   A generated definition is a term over an arbitrary carrier [R] with operations given by an
   [FOps R] record; theorems take a [ring_theory] (identities without division: they hold in every
   commutative ring, in particular in the ring of arrays over fixed trailing axes with pointwise
   operations) or a [field_theory] (identities with division) as hypothesis inside a Section.
   [QOps] is the instance used to RUN generated terms by vm_compute in the correspondence;
   [QcOps] (canonical rationals, Leibniz equality) is the instance used for non-vacuity examples. *)
From Coq Require Import Ring Field List Arith QArith Qcanon.
Import ListNotations.

Class FOps (R : Type) := {
  f0 : R; f1 : R;
  fadd : R -> R -> R; fmul : R -> R -> R; fsub : R -> R -> R; fopp : R -> R;
  fdiv : R -> R -> R; finv : R -> R }.

Declare Scope F_scope.
Delimit Scope F_scope with F.
Notation "0" := f0 : F_scope.
Notation "1" := f1 : F_scope.
Infix "+" := fadd : F_scope.
Infix "*" := fmul : F_scope.
Infix "-" := fsub : F_scope.
Infix "/" := fdiv : F_scope.
Notation "- x" := (fopp x) : F_scope.

#[global] Instance QOps : FOps Q :=
  {| f0 := 0%Q; f1 := 1%Q; fadd := Qplus; fmul := Qmult; fsub := Qminus; fopp := Qopp;
     fdiv := Qdiv; finv := Qinv |}.

#[global] Instance QcOps : FOps Qc :=
  {| f0 := 0%Qc; f1 := 1%Qc; fadd := Qcplus; fmul := Qcmult; fsub := Qcminus; fopp := Qcopp;
     fdiv := Qcdiv; finv := Qcinv |}.

Definition Qc_ring : ring_theory (R:=Qc) f0 f1 fadd fmul fsub fopp eq := Qcrt.
Definition Qc_field : field_theory (R:=Qc) f0 f1 fadd fmul fsub fopp fdiv finv eq := Qcft.

(* tensors are total functions of their indices; an axis of extent n uses indices 0..n-1 *)
Definition vec (R : Type) := nat -> R.
Definition mat (R : Type) := nat -> nat -> R.
Definition ten3 (R : Type) := nat -> nat -> nat -> R.
Definition ten4 (R : Type) := nat -> nat -> nat -> nat -> R.

(* entry access with nat-scoped indices (inside F_scope the numerals 0 and 1 denote ring constants) *)
Definition vget {R : Type} (v : vec R) (i : nat) : R := v i.
Definition mget {R : Type} (A : mat R) (i j : nat) : R := A i j.

Section Tensors.
  Context {R : Type} {ops : FOps R}.
  Open Scope F_scope.
  Notation vec := (vec R). Notation mat := (mat R). Notation ten3 := (ten3 R).

  (* sum_{k < n} f k, in the order NumPy-independent (exact arithmetic) *)
  Fixpoint fsum (n : nat) (f : nat -> R) : R :=
    match n with O => 0 | S k => fsum k f + f k end.

  Definition mkvec (l : list R) : vec := fun i => nth i l 0.
  Definition mkmat (l : list (list R)) : mat := fun i j => nth j (nth i l []) 0.
  Definition mkten3 (l : list (list (list R))) : ten3 := fun i j k => nth k (nth j (nth i l []) []) 0.

  Definition tab1 (n : nat) (v : vec) : list R := map v (seq 0 n).
  Definition tab2 (n : nat) (A : mat) : list R := flat_map (fun i => map (A i) (seq 0 n)) (seq 0 n).
  Definition tab3 (n : nat) (T : ten3) : list R :=
    flat_map (fun i => flat_map (fun j => map (T i j) (seq 0 n)) (seq 0 n)) (seq 0 n).

  (* small integer constants of the source, as ring terms *)
  Fixpoint fnat (k : nat) : R := match k with O => 0 | S O => 1 | S k' => fnat k' + 1 end.
End Tensors.

(* Arrays over trailing axes: functions T -> R with POINTWISE operations (T = the index set of the trailing axes).
   A generated helper term instantiated at [FunOps T] is the helper applied to whole arrays; the lemmas
   "..._pointwise" (Dyn.C20_Helpers) show that its value at a trailing index t is the scalar helper applied to the
   slices at t, which is how the scalar theorems transfer to arrays. *)
#[global] Instance FunOps (T : Type) {R : Type} {ops : FOps R} : FOps (T -> R) :=
  {| f0 := fun _ => f0; f1 := fun _ => f1;
     fadd := fun f g t => fadd (f t) (g t); fmul := fun f g t => fmul (f t) (g t);
     fsub := fun f g t => fsub (f t) (g t); fopp := fun f t => fopp (f t);
     fdiv := fun f g t => fdiv (f t) (g t); finv := fun f t => finv (f t) |}.

Lemma fsum_pointwise {T R : Type} {ops : FOps R} (n : nat) (f : nat -> T -> R) (t : T) :
  fsum (ops := FunOps T) n f t = fsum n (fun k => f k t).
Proof. induction n as [|n IH]; simpl; [reflexivity|]. rewrite IH. reflexivity. Qed.
