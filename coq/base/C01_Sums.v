(* Finite sums over lists and index ranges in a commutative ring (Leibniz equality), written for
   C01/C19: extensionality, additivity, scaling, exchange, splitting, product re-indexing, the
   Kronecker-delta lemma, sums over flat_map. *)
From Coq Require Import List Arith Lia Ring Ring_theory.
Import ListNotations.

Section Sums.
  Variable R : Type.
  Variables (rO rI : R) (radd rmul rsub : R -> R -> R) (ropp : R -> R).
  Variable Rth : ring_theory rO rI radd rmul rsub ropp (@eq R).
  Add Ring RingC01Sums : Rth.

  Declare Scope ring_scope.
  Notation "0" := rO (only parsing) : ring_scope.
  Delimit Scope ring_scope with r.
  Local Open Scope ring_scope.
  Infix "+" := radd.
  Infix "*" := rmul.

  Definition sum_list (l : list R) : R := fold_right radd rO l.
  Definition sumn (n : nat) (g : nat -> R) : R := sum_list (map g (seq 0 n)).
  (* sum over an arbitrary index list *)
  Definition sum_over {A} (l : list A) (g : A -> R) : R := sum_list (map g l).

  Lemma sum_list_app l1 l2 : sum_list (l1 ++ l2) = sum_list l1 + sum_list l2.
  Proof. induction l1 as [|x l1 IH]; simpl; [ring | rewrite IH; ring]. Qed.

  Lemma sum_over_app {A} (l1 l2 : list A) g : sum_over (l1 ++ l2) g = sum_over l1 g + sum_over l2 g.
  Proof. unfold sum_over. now rewrite map_app, sum_list_app. Qed.

  Lemma sum_over_ext {A} (l : list A) g h : (forall x, In x l -> g x = h x) -> sum_over l g = sum_over l h.
  Proof.
    unfold sum_over. induction l as [|x l IH]; intros H; simpl; [reflexivity|].
    rewrite H by (left; reflexivity). rewrite IH; [reflexivity|]. intros y Hy. apply H. now right.
  Qed.

  Lemma sum_over_zero {A} (l : list A) : sum_over l (fun _ => 0) = 0.
  Proof. unfold sum_over. induction l; simpl; [reflexivity | rewrite IHl; ring]. Qed.

  Lemma sum_over_add {A} (l : list A) g h : sum_over l (fun x => g x + h x) = sum_over l g + sum_over l h.
  Proof. unfold sum_over. induction l as [|x l IH]; simpl; [ring | rewrite IH; ring]. Qed.

  Lemma sum_over_scale_l {A} (l : list A) c g : sum_over l (fun x => c * g x) = c * sum_over l g.
  Proof. unfold sum_over. induction l as [|x l IH]; simpl; [ring | rewrite IH; ring]. Qed.

  Lemma sum_over_scale_r {A} (l : list A) c g : sum_over l (fun x => g x * c) = sum_over l g * c.
  Proof. unfold sum_over. induction l as [|x l IH]; simpl; [ring | rewrite IH; ring]. Qed.

  Lemma sum_over_exchange {A B} (la : list A) (lb : list B) (g : A -> B -> R) :
    sum_over la (fun a => sum_over lb (fun b => g a b)) = sum_over lb (fun b => sum_over la (fun a => g a b)).
  Proof.
    induction la as [|a la IH].
    - unfold sum_over at 1. simpl. symmetry. apply sum_over_zero.
    - unfold sum_over at 1. simpl. fold (sum_over la (fun a0 => sum_over lb (fun b => g a0 b))).
      rewrite IH. rewrite <- sum_over_add. apply sum_over_ext. intros b _. reflexivity.
  Qed.

  Lemma sum_over_flat_map {A B} (l : list A) (k : A -> list B) (g : B -> R) :
    sum_over (flat_map k l) g = sum_over l (fun a => sum_over (k a) g).
  Proof.
    induction l as [|a l IH]; simpl; [reflexivity|].
    rewrite sum_over_app, IH. reflexivity.
  Qed.

  Lemma sum_over_map {A B} (l : list A) (k : A -> B) (g : B -> R) :
    sum_over (map k l) g = sum_over l (fun a => g (k a)).
  Proof. unfold sum_over. now rewrite map_map. Qed.

  (* ---- index ranges ---- *)
  Lemma sumn_over n g : sumn n g = sum_over (seq 0 n) g.
  Proof. reflexivity. Qed.

  Lemma sumn_ext n g h : (forall i, i < n -> g i = h i) -> sumn n g = sumn n h.
  Proof. intros H. rewrite !sumn_over. apply sum_over_ext. intros x Hx. apply in_seq in Hx. apply H. lia. Qed.

  Lemma sumn_zero n : sumn n (fun _ => 0) = 0.
  Proof. apply sum_over_zero. Qed.

  Lemma sumn_add n g h : sumn n (fun i => g i + h i) = sumn n g + sumn n h.
  Proof. apply sum_over_add. Qed.

  Lemma sumn_scale_l n c g : sumn n (fun i => c * g i) = c * sumn n g.
  Proof. apply sum_over_scale_l. Qed.

  Lemma sumn_scale_r n c g : sumn n (fun i => g i * c) = sumn n g * c.
  Proof. apply sum_over_scale_r. Qed.

  Lemma sumn_exchange n m (g : nat -> nat -> R) :
    sumn n (fun i => sumn m (fun j => g i j)) = sumn m (fun j => sumn n (fun i => g i j)).
  Proof. apply sum_over_exchange. Qed.

  Lemma sumn_S n g : sumn (S n) g = sumn n g + g n.
  Proof.
    unfold sumn. rewrite seq_S, map_app, sum_list_app. simpl. ring.
  Qed.

  Lemma map_seq_shift {B} (g : nat -> B) s n : map g (seq s n) = map (fun i => g (s + i)%nat) (seq 0 n).
  Proof.
    revert s. induction n as [|n IH]; intros s; simpl; [reflexivity|].
    rewrite Nat.add_0_r. f_equal. rewrite IH. rewrite <- seq_shift, map_map.
    apply map_ext. intros a. f_equal. lia.
  Qed.

  Lemma sum_seq_shift s n g : sum_list (map g (seq s n)) = sumn n (fun i => g (s + i)%nat).
  Proof. unfold sumn. now rewrite map_seq_shift. Qed.

  (* split:  sum_{k<m+n} = sum_{k<m} + sum_{k<n} g(m+k) *)
  Lemma sumn_split m n g : sumn (m + n) g = sumn m g + sumn n (fun k => g (m + k)%nat).
  Proof.
    unfold sumn. rewrite seq_app, map_app, sum_list_app, Nat.add_0_l.
    f_equal. now rewrite map_seq_shift.
  Qed.

  (* re-indexing of a product range:  sum_{k < a*b} g k = sum_{x<a} sum_{y<b} g (x*b + y) *)
  Lemma sumn_prod a b g : sumn (a * b) g = sumn a (fun x => sumn b (fun y => g (x * b + y)%nat)).
  Proof.
    induction a as [|a IH]; [reflexivity|].
    rewrite sumn_S, <- IH. replace (S a * b)%nat with (a * b + b)%nat by lia.
    apply sumn_split.
  Qed.

  (* Kronecker delta: selecting one index *)
  Lemma sumn_delta n x g : x < n -> sumn n (fun r => if Nat.eqb x r then g r else 0) = g x.
  Proof.
    induction n as [|n IH]; intros Hx; [lia|].
    rewrite sumn_S. destruct (Nat.eq_dec x n) as [->|Hne].
    - rewrite Nat.eqb_refl. rewrite (sumn_ext n _ (fun _ => 0)).
      + rewrite sumn_zero. ring.
      + intros i Hi. destruct (Nat.eqb_spec n i); [lia | reflexivity].
    - rewrite IH by lia. destruct (Nat.eqb_spec x n); [contradiction | ring].
  Qed.

  Lemma sumn_delta_out n x g : n <= x -> sumn n (fun r => if Nat.eqb x r then g r else 0) = 0.
  Proof.
    intros Hx. rewrite (sumn_ext n _ (fun _ => 0)); [apply sumn_zero|].
    intros i Hi. destruct (Nat.eqb_spec x i); [lia | reflexivity].
  Qed.

  (* sum over a list by position *)
  Lemma sum_list_nth (l : list R) : sum_list l = sumn (length l) (fun k => nth k l 0).
  Proof.
    induction l as [|x l IH] using rev_ind; [reflexivity|].
    rewrite sum_list_app, app_length. simpl. rewrite Nat.add_1_r, sumn_S.
    rewrite app_nth2, Nat.sub_diag by lia. simpl. rewrite IH.
    rewrite (sumn_ext (length l) (fun k => nth k (l ++ [x]) 0) (fun k => nth k l 0)); [ring|].
    intros i Hi. now rewrite app_nth1.
  Qed.
End Sums.

Arguments sum_list {R}. Arguments sumn {R}. Arguments sum_over {R} _ _ {A}.
