(* C09_Elem — executable model of "what an element's lbasis delivers" and the boolean checkers that
   decide, per element, the polynomial identities of C09.  The data (one [bfun] per local basis function)
   are regenerated on every run from the REAL lbasis of /repo (Gen.C09_Elements).  No proofs here. *)
From Coq Require Import List Arith ZArith QArith Bool.
From Coq Require String.
From Coq Require Import Qabs.
Import String.StringSyntax.
Import ListNotations.
Require Import Base.C09_Poly Base.C09_PolyQ.

(* the tuple returned by lbasis(X, i), by element family *)
Inductive bfun :=
| BH1 (phi : poly) (grad : list poly)              (* ElementH1: value, gradient *)
| BHdiv (phi : list poly) (dv : poly)              (* ElementHdiv: vector value, divergence *)
| BHcurl2 (phi : list poly) (cl : poly)            (* ElementHcurl, 2-D: vector value, scalar curl *)
| BHcurl3 (phi : list poly) (cl : list poly)       (* ElementHcurl, 3-D: vector value, vector curl *)
| BMat (phi : list (list poly)).                   (* ElementMatrix: matrix value, no derivative delivered *)

Record elem := mkElem {
  e_name : String.string;
  e_dim : nat;
  e_basis : list bfun;
  e_doflocs : list (option (list Q))     (* None: the element declares no location (nan row) *)
}.

Definition nthp (l : list poly) (k : nat) : poly := nth k l [].

Definition grad_ok (d : nat) (phi : poly) (grad : list poly) : bool :=
  Nat.eqb (length grad) d && forallb (fun k => peqb (nthp grad k) (pderiv k phi)) (seq 0 d).

Definition divergence (d : nat) (phi : list poly) : poly :=
  psum (map (fun k => pderiv k (nthp phi k)) (seq 0 d)).

Definition div_ok (d : nat) (phi : list poly) (dv : poly) : bool :=
  Nat.eqb (length phi) d && peqb dv (divergence d phi).

Definition curl2 (phi : list poly) : poly := psub (pderiv 0 (nthp phi 1)) (pderiv 1 (nthp phi 0)).
Definition curl2_ok (phi : list poly) (cl : poly) : bool :=
  Nat.eqb (length phi) 2 && peqb cl (curl2 phi).

Definition curl3 (phi : list poly) : list poly :=
  [ psub (pderiv 1 (nthp phi 2)) (pderiv 2 (nthp phi 1));
    psub (pderiv 2 (nthp phi 0)) (pderiv 0 (nthp phi 2));
    psub (pderiv 0 (nthp phi 1)) (pderiv 1 (nthp phi 0)) ].
Definition curl3_ok (phi : list poly) (cl : list poly) : bool :=
  Nat.eqb (length phi) 3 && Nat.eqb (length cl) 3 &&
  forallb (fun k => peqb (nthp cl k) (nthp (curl3 phi) k)) (seq 0 3).

Definition bfun_ok (d : nat) (b : bfun) : bool :=
  match b with
  | BH1 phi grad => grad_ok d phi grad
  | BHdiv phi dv => div_ok d phi dv
  | BHcurl2 phi cl => Nat.eqb d 2 && curl2_ok phi cl
  | BHcurl3 phi cl => Nat.eqb d 3 && curl3_ok phi cl
  | BMat phi => Nat.eqb (length phi) d && forallb (fun r => Nat.eqb (length r) d) phi
  end.

Definition deriv_ok (e : elem) : bool := forallb (bfun_ok (e_dim e)) (e_basis e).

(* every polynomial of the element uses at most d variables (exponent lists of length <= d) *)
Definition poly_vars_le (n : nat) (p : poly) : bool := forallb (fun t => Nat.leb (length (snd t)) n) p.
Definition bfun_polys (b : bfun) : list poly :=
  match b with
  | BH1 p g => p :: g
  | BHdiv v dv => dv :: v
  | BHcurl2 v c => c :: v
  | BHcurl3 v c => v ++ c
  | BMat m => concat m
  end.
Definition vars_ok (e : elem) : bool :=
  forallb (fun b => forallb (poly_vars_le (e_dim e)) (bfun_polys b)) (e_basis e).

(* scalar values of an H1 element *)
Definition value_of (b : bfun) : poly := match b with BH1 phi _ => phi | _ => [] end.
Definition values (e : elem) : list poly := map value_of (e_basis e).
Definition is_h1 (b : bfun) : bool := match b with BH1 _ _ => true | _ => false end.

Definition delta (i j : nat) : Q := if Nat.eqb i j then 1%Q else 0%Q.

(* nodal duality: for every local index j that HAS a location x_j (finite doflocs row) and every local
   index i:  phi_i (x_j) = delta_ij *)
Definition duality_at (n : nat) (phis : list poly) (j : nat) (x : list Q) : bool :=
  forallb (fun i => Qeq_bool (qeval (nthp phis i) (lpt x)) (delta i j)) (seq 0 n).
Definition duality_on (n : nat) (phis : list poly) (locs : list (option (list Q))) : bool :=
  forallb (fun j => match nth j locs None with None => true | Some x => duality_at n phis j x end) (seq 0 n).
Definition located (locs : list (option (list Q))) (n : nat) : list nat :=
  filter (fun j => match nth j locs None with None => false | Some _ => true end) (seq 0 n).
Definition nbfun (e : elem) : nat := length (e_basis e).
Definition duality_ok (e : elem) : bool :=
  forallb is_h1 (e_basis e) && Nat.eqb (length (e_doflocs e)) (nbfun e) &&
  negb (Nat.eqb (length (located (e_doflocs e) (nbfun e))) 0) &&
  duality_on (nbfun e) (values e) (e_doflocs e).

(* elements whose polynomials carry formal parameters beyond the e_dim coordinates (the integrated-Legendre family:
   scales c_n = sqrt((2n-1)/2) kept as indeterminates): substitute the coordinates only *)
Definition at_coords (d : nat) (x : list Q) : nat -> poly :=
  fun k => if Nat.ltb k d then pconst (nth k x 0%Q) else pvar k.
Definition duality_param_ok (e : elem) : bool :=
  forallb is_h1 (e_basis e) && Nat.eqb (length (e_doflocs e)) (nbfun e) &&
  negb (Nat.eqb (length (located (e_doflocs e) (nbfun e))) 0) &&
  forallb (fun j => match nth j (e_doflocs e) None with
                    | None => true
                    | Some x => forallb (fun i => peqb (psubstn (at_coords (e_dim e) x) (nthp (values e) i)) (pconst (delta i j)))
                                        (seq 0 (nbfun e))
                    end) (seq 0 (nbfun e)).

(* partition of unity: the functions attached to located DOFs sum to one identically *)
Definition pou_sum (e : elem) : poly := psum (map (nthp (values e)) (located (e_doflocs e) (nbfun e))).
Definition pou_ok (e : elem) : bool := forallb is_h1 (e_basis e) && peqb (pou_sum e) (pconst 1).

(* ---- traces: restriction of vector fields to facets / edges given by polynomial parametrisations ---- *)
Definition vec_of (b : bfun) : list poly :=
  match b with BHdiv phi _ => phi | BHcurl2 phi _ => phi | BHcurl3 phi _ => phi | _ => [] end.

Definition pdotc (v : list poly) (c : list Q) : poly :=
  psum (map (fun vc => pscale (snd vc) (fst vc)) (combine v c)).

(* the polynomial  (v . c) o F  in the parameters of F *)
Definition trace_dot (F : list poly) (v : list poly) (c : list Q) : poly :=
  psubstn (nthp F) (pdotc v c).

(* exact integral of a polynomial in n parameters over the reference n-simplex (Dirichlet's formula
   prod e_i! / (n + sum e_i)!) resp. over the unit n-cube (prod 1/(e_i+1)) — definitions *)
Fixpoint factZ (n : nat) : Z := match n with O => 1%Z | S n' => (Z.of_nat n * factZ n')%Z end.
Definition mono_pad (n : nat) (m : mono) : mono := firstn n (m ++ repeat 0%nat n).
Definition mint_simplex (n : nat) (m : mono) : Q :=
  let m' := mono_pad n m in
  Qmake (fold_right (fun e acc => (factZ e * acc)%Z) 1%Z m') (Z.to_pos (factZ (n + fold_right plus 0%nat m'))).
Definition mint_cube (n : nat) (m : mono) : Q :=
  let m' := mono_pad n m in
  Qmake 1%Z (Z.to_pos (fold_right (fun e acc => (Z.of_nat (S e) * acc)%Z) 1%Z m')).
Definition mono_within (n : nat) (m : mono) : bool := forallb (Nat.eqb 0) (skipn n m).
Definition pint (cube : bool) (n : nat) (p : poly) : option Q :=
  let q := pnorm p in
  if forallb (fun t => mono_within n (snd t)) q then
    Some (Qred (fold_right (fun t acc => (fst t * (if cube then mint_cube n (snd t) else mint_simplex n (snd t)) + acc)%Q) 0%Q q))
  else None.

(* lowest-order H(div) / H(curl): functional j = integral over entity j of (phi . c_j), entity j
   parametrised by F_j over the reference simplex / cube of dimension n *)
Record functional := mkFun { f_param : list poly; f_vec : list Q }.

Definition dual_entry (cube : bool) (n : nat) (f : functional) (b : bfun) : option Q :=
  pint cube n (trace_dot (f_param f) (vec_of b) (f_vec f)).

Definition optq_eqb (o : option Q) (q : Q) : bool := match o with Some x => Qeq_bool x q | None => false end.

(* measure of the reference parameter domain *)
Definition ref_measure (cube : bool) (n : nat) : Q := if cube then 1%Q else Qmake 1%Z (Z.to_pos (factZ n)).

Definition is_sign (s : Q) : bool := Qeq_bool s 1%Q || Qeq_bool s (Qopp 1%Q).

(* integral form: the matrix  L_j(phi_i) = int_{entity j} phi_i . c_j  is diagonal with entries
   s_j * measure, s_j = +-1 (dual up to the sign/normalisation convention of the functional) *)
Definition functional_duality_ok (cube : bool) (n : nat) (signs : list Q) (fs : list functional) (bs : list bfun) : bool :=
  Nat.eqb (length fs) (length bs) && Nat.eqb (length signs) (length bs) && forallb is_sign signs &&
  forallb (fun i => forallb (fun j =>
     optq_eqb (dual_entry cube n (nth j fs (mkFun [] [])) (nth i bs (BMat [])))
              (delta i j * nth j signs 0 * ref_measure cube n)%Q)
     (seq 0 (length bs))) (seq 0 (length bs)).

(* stronger, integral-free form available for the lowest-order families: the trace (phi_i . c_j) on
   entity j is itself the CONSTANT delta_ij * s_j *)
Definition trace_duality_ok (signs : list Q) (fs : list functional) (bs : list bfun) : bool :=
  Nat.eqb (length fs) (length bs) && Nat.eqb (length signs) (length bs) && forallb is_sign signs &&
  forallb (fun i => forallb (fun j =>
     let f := nth j fs (mkFun [] []) in
     peqb (trace_dot (f_param f) (vec_of (nth i bs (BMat []))) (f_vec f)) (pconst (delta i j * nth j signs 0)%Q))
     (seq 0 (length bs))) (seq 0 (length bs)).

Definition lo_fdual_ok (x : elem * (bool * nat * list Q * list functional)) : bool :=
  let '(e, (cube, n, ss, fs)) := x in functional_duality_ok cube n ss fs (e_basis e).
Definition lo_tdual_ok (x : elem * (bool * nat * list Q * list functional)) : bool :=
  let '(e, (cube, n, ss, fs)) := x in trace_duality_ok ss fs (e_basis e).

(* ---- derivative tables of the ElementGlobal family: table[diff] = list over the power basis ---- *)
(* a table entry: (multi-index diff as list of directions, polynomials) *)
Definition dtable := list (list nat * list poly).

Fixpoint lookup_diff (t : dtable) (d : list nat) : option (list poly) :=
  match t with
  | [] => None
  | (d', ps) :: t' => if list_eq_dec Nat.eq_dec d d' then Some ps else lookup_diff t' d
  end.

(* every entry with diff = d ++ [k] is the k-th partial derivative of the entry with diff = d *)
Definition dtable_entry_ok (t : dtable) (entry : list nat * list poly) : bool :=
  match rev (fst entry) with
  | [] => true
  | k :: rd =>
      match lookup_diff t (rev rd) with
      | None => false
      | Some base =>
          Nat.eqb (length base) (length (snd entry)) &&
          forallb (fun pq => peqb (fst pq) (pderiv k (snd pq))) (combine (snd entry) base)
      end
  end.
Definition dtable_ok (t : dtable) : bool := forallb (dtable_entry_ok t) t.

(* ---- evaluation of a basis function tuple at a rational point (correspondence with the numerical lbasis):
   all components of the value followed by all components of the derivative field, C order ---- *)
Definition evq (x : list Q) (p : poly) : Q := Qred (qeval p (lpt x)).
Definition bfun_eval (b : bfun) (x : list Q) : list Q :=
  match b with
  | BH1 p g => evq x p :: map (evq x) g
  | BHdiv p d => map (evq x) p ++ [evq x d]
  | BHcurl2 p c => map (evq x) p ++ [evq x c]
  | BHcurl3 p c => map (evq x) p ++ map (evq x) c
  | BMat p => flat_map (map (evq x)) p
  end.
Definition elem_eval (es : list elem) (c : nat * nat * list Q) : list Q :=
  let '(k, i, x) := c in
  bfun_eval (nth i (e_basis (nth k es (mkElem String.EmptyString 0%nat [] []))) (BMat [])) x.
Definition q_close (tol a b : Q) : bool := Qle_bool (Qabs (a - b)) tol.
Fixpoint qs_close (tol : Q) (l1 l2 : list Q) : bool :=
  match l1, l2 with
  | [], [] => true
  | a :: t1, b :: t2 => q_close tol a b && qs_close tol t1 t2
  | _, _ => false
  end.

(* ---- defining functionals of the ElementGlobal family: per local DOF the functional kind ("u", "u_x", "u_xy",
   "u_n@edge1", ...) and its location as weights on the cell's vertices.  [got]: what the real gdof does (symbolic
   execution); [want]: what dofnames + DOF layout + refdom tables say. ---- *)
Definition gdof_entry := (String.string * list Q)%type.
Fixpoint qs_eqb (a b : list Q) : bool :=
  match a, b with
  | [], [] => true
  | x :: a', y :: b' => Qeq_bool x y && qs_eqb a' b'
  | _, _ => false
  end.
Definition gdof_eqb (a b : gdof_entry) : bool := String.eqb (fst a) (fst b) && qs_eqb (snd a) (snd b).
Fixpoint gdofs_eqb (a b : list gdof_entry) : bool :=
  match a, b with
  | [], [] => true
  | x :: a', y :: b' => gdof_eqb x y && gdofs_eqb a' b'
  | _, _ => false
  end.
(* the point sum_k w_k p_k, p_k the reference vertices *)
Definition comb_point (dim : nat) (refp : list (list Q)) (w : list Q) : list Q :=
  map (fun c => Qred (fold_right Qplus 0%Q (map (fun kw => (snd kw * nth c (fst kw) 0)%Q) (combine refp w)))) (seq 0 dim).
Fixpoint locs_eqb (dim : nat) (refp : list (list Q)) (want : list gdof_entry) (locs : list (list Q)) : bool :=
  match want, locs with
  | [], [] => true
  | g :: want', x :: locs' => qs_eqb (comb_point dim refp (snd g)) x && locs_eqb dim refp want' locs'
  | _, _ => false
  end.
Record gelem := mkGelem { g_name : String.string; g_dim : nat; g_refp : list (list Q);
                          g_got : list gdof_entry; g_want : list gdof_entry; g_doflocs : list (list Q) }.
Definition gdof_ok (g : gelem) : bool :=
  negb (Nat.eqb (length (g_got g)) 0) && gdofs_eqb (g_got g) (g_want g) && locs_eqb (g_dim g) (g_refp g) (g_want g) (g_doflocs g).

(* ---- polynomial cell maps F (one polynomial per space coordinate, in the reference coordinates and the node
   coordinates as further variables): Jacobian, adjugate and the Piola identity  sum_k d_k adj(J)_(k,i) = 0 ---- *)
Definition jac (F : list poly) (i j : nat) : poly := pderiv j (nthp F i).
Definition minor3 (F : list poly) (r1 r2 c1 c2 : nat) : poly :=
  psub (pmuln (jac F r1 c1) (jac F r2 c2)) (pmuln (jac F r1 c2) (jac F r2 c1)).
Definition others (i : nat) : nat * nat := match i with 0%nat => (1, 2)%nat | 1%nat => (0, 2)%nat | _ => (0, 1)%nat end.
(* adj k i = cofactor (i, k):  adj J = det I *)
Definition adjp (d : nat) (F : list poly) (k i : nat) : poly :=
  if Nat.eqb d 2 then
    match k, i with
    | 0%nat, 0%nat => jac F 1 1 | 0%nat, _ => popp (jac F 0 1)
    | _, 0%nat => popp (jac F 1 0) | _, _ => jac F 0 0
    end
  else
    let '(r1, r2) := others i in let '(c1, c2) := others k in
    let m := minor3 F r1 r2 c1 c2 in if Nat.even (i + k) then m else popp m.
Definition piola_identity_ok (d : nat) (F : list poly) : bool :=
  Nat.eqb (length F) d && (Nat.eqb d 2 || Nat.eqb d 3) &&
  forallb (fun i => pis_zero (psum (map (fun k => pderiv k (adjp d F k i)) (seq 0 d)))) (seq 0 d).
