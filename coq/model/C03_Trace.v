(* C03_Trace — executable model of "trace of a basis function on a facet slot of the reference cell" and the
   boolean checkers for the trace lemma (C03 part (c)).  The polynomials are those regenerated from the real
   lbasis (the Gen.C09_E files); slot data (parametrisation, attached local indices, normal/tangent vectors) are
   regenerated from the refdom tables and the DOF layout counts of the class.  No proofs here. *)
From Coq Require Import List Arith ZArith QArith Bool.
Import ListNotations.
Require Import Base.C09_Poly Base.C09_PolyQ Model.C09_Elem.

Record slot := mkSlot {
  s_param : list poly;          (* parametrisation of the facet: one polynomial per space coordinate *)
  s_vecs : list (list Q);       (* H1: [] ; H(div)/HHJ: [reference normal] ; H(curl): facet edge vector(s) *)
  s_attached : list nat;        (* local indices of the basis functions attached to the closure of the slot *)
  s_signs : list Q              (* sign of each attached function relative to the canonical facet function *)
}.

(* the trace quantity of basis function b on the slot, as polynomials in the facet parameters:
   value (H1), phi.N (H(div)), phi.tau_k (H(curl)), N^T phi N (matrix) *)
Definition trace_comps (sl : slot) (b : bfun) : list poly :=
  match b with
  | BH1 p _ => [psubstn (nthp (s_param sl)) p]
  | BHdiv v _ => map (fun c => trace_dot (s_param sl) v c) (s_vecs sl)
  | BHcurl2 v _ => map (fun c => trace_dot (s_param sl) v c) (s_vecs sl)
  | BHcurl3 v _ => map (fun c => trace_dot (s_param sl) v c) (s_vecs sl)
  | BMat m => map (fun c => trace_dot (s_param sl) (map (fun row => pdotc row c) m) c) (s_vecs sl)
  end.

Fixpoint polys_eqb (l1 l2 : list poly) : bool :=
  match l1, l2 with
  | [], [] => true
  | p :: t1, q :: t2 => peqb p q && polys_eqb t1 t2
  | _, _ => false
  end.

Fixpoint pos_of (i : nat) (l : list nat) : option nat :=
  match l with
  | [] => None
  | j :: l' => if Nat.eqb i j then Some 0%nat else match pos_of i l' with Some m => Some (S m) | None => None end
  end.

(* psi : canonical facet functions, one list of components per attached position *)
Definition slot_ok (bs : list bfun) (psi : list (list poly)) (sl : slot) : bool :=
  Nat.eqb (length (s_attached sl)) (length psi) && Nat.eqb (length (s_signs sl)) (length psi) &&
  forallb is_sign (s_signs sl) &&
  forallb (fun i =>
    let tc := trace_comps sl (nth i bs (BMat [])) in
    match pos_of i (s_attached sl) with
    | None => forallb pis_zero tc
    | Some m => polys_eqb tc (map (pscale (nth m (s_signs sl) 0%Q)) (nth m psi []))
    end) (seq 0 (length bs)).

Definition traces_ok (bs : list bfun) (psi : list (list poly)) (slots : list slot) : bool :=
  negb (Nat.eqb (length slots) 0) && forallb (slot_ok bs psi) slots.

(* all signs of all slots are +1 (H1: required; H(div)/H(curl): what the orientation logic assumes) *)
Definition signs_all_plus (slots : list slot) : bool :=
  forallb (fun sl => forallb (fun s => Qeq_bool s 1%Q) (s_signs sl)) slots.
(* every slot carries the same sign vector (the per-slot sign does not depend on the slot) *)
Fixpoint qlist_eqb (a b : list Q) : bool :=
  match a, b with
  | [], [] => true
  | x :: a', y :: b' => Qeq_bool x y && qlist_eqb a' b'
  | _, _ => false
  end.
Definition signs_uniform (slots : list slot) : bool :=
  match slots with
  | [] => true
  | s0 :: rest => forallb (fun sl => qlist_eqb (s_signs s0) (s_signs sl)) rest
  end.

(* ---- symmetries of the reference facet: g = parameter map (polynomials in the facet parameters),
   perm = induced permutation of the attached positions; claim psi_m o g = psi_(perm m) ---- *)
Record fsym := mkSym { y_map : list poly; y_perm : list nat }.

Definition sym_ok (psi : list (list poly)) (g : fsym) : bool :=
  Nat.eqb (length (y_perm g)) (length psi) &&
  forallb (fun m =>
     polys_eqb (map (psubstn (nthp (y_map g))) (nth m psi []))
               (nth (nth m (y_perm g) 0%nat) psi []))
    (seq 0 (length psi)).
Definition syms_ok (psi : list (list poly)) (gs : list fsym) : bool := forallb (sym_ok psi) gs.

Record telem := mkTelem {
  t_elem : elem;
  t_psi : list (list poly);
  t_slots : list slot;
  t_syms : list fsym          (* the symmetries of the reference facet two neighbouring cells can differ by *)
}.
Definition telem_traces_ok (t : telem) : bool := traces_ok (e_basis (t_elem t)) (t_psi t) (t_slots t).
Definition telem_syms_ok (t : telem) : bool :=
  signs_all_plus (t_slots t) && negb (Nat.eqb (length (t_syms t)) 0) && syms_ok (t_psi t) (t_syms t).

(* ---- two cells sharing an edge that one of them traverses in the opposite direction (a quadrilateral and its
   cyclically shifted neighbour): cell A sees the edge as slot a, cell B as slot b with parameter 1 - s; global DOF m of
   the edge closure (vertex, vertex, edge DOFs 0..) is A's attached function m and B's attached function (perm m), where
   perm swaps the two vertices and keeps the edge DOFs (that is how the global numbering identifies them). ---- *)
Definition attached_trace (t : telem) (sl : slot) (m : nat) : poly :=
  hd [] (trace_comps sl (nth (nth m (s_attached sl) 0%nat) (e_basis (t_elem t)) (BMat []))).
Definition side_trace (t : telem) (sl : slot) (coef : list Q) (g : fsym) : poly :=
  psum (map (fun m => pscale (nth m coef 0%Q) (psubstn (nthp (y_map g)) (attached_trace t sl (nth m (y_perm g) 0%nat))))
            (seq 0 (length (s_attached sl)))).
Definition dflt_slot : slot := mkSlot [] [] [] [].
Definition shift_jump (t : telem) (a b : nat) (gid grev : fsym) (coef : list Q) : poly :=
  psub (side_trace t (nth a (t_slots t) dflt_slot) coef gid) (side_trace t (nth b (t_slots t) dflt_slot) coef grev).
Fixpoint is_identity_perm (l : list nat) (k : nat) : bool :=
  match l with [] => true | x :: l' => Nat.eqb x k && is_identity_perm l' (S k) end.
Definition is_reversal_perm (l : list nat) : bool :=
  match l with
  | x :: y :: l' => Nat.eqb x 1 && Nat.eqb y 0 && is_identity_perm l' 2
  | _ => false
  end.
(* gid is the identity, grev is s |-> 1 - s with the induced permutation, and the two one-sided traces of the
   coefficient vector coef differ at the point pt (facet parameter followed by values of the formal scales) *)
Definition shift_jump_check (t : telem) (a b : nat) (gid grev : fsym) (coef pt : list Q) : bool :=
  peqb (nthp (y_map gid) 0) (pvar 0) && is_identity_perm (y_perm gid) 0 &&
  peqb (nthp (y_map grev) 0) (psub (pconst 1) (pvar 0)) && is_reversal_perm (y_perm grev) &&
  negb (Nat.eqb a b) && Nat.ltb a (length (t_slots t)) && Nat.ltb b (length (t_slots t)) &&
  negb (Qeq_bool (qeval (shift_jump t a b gid grev coef) (lpt pt)) 0).

Definition shift_refuted_ok (x : telem * (fsym * fsym * list Q * list Q)) : bool :=
  let '(t, (gid, grev, coef, pt)) := x in shift_jump_check t 1 0 gid grev coef pt.

(* ---- elements whose own gbasis re-labels / negates the reference functions depending on the orientation sign
   (ElementTriN3): the EFFECTIVE reference basis for a given orientation is  sign_i * lbasis(idx_i); the table
   (sign_i, idx_i) is measured on the real gbasis for all local indices (exhaustive) ---- *)
Definition hcurl2_scaled (c : Q) (b : bfun) : bfun :=
  match b with BHcurl2 v cl => BHcurl2 (map (pscale c) v) (pscale c cl) | _ => BMat [] end.
Definition hcurl2_eqb (a b : bfun) : bool :=
  match a, b with
  | BHcurl2 v cl, BHcurl2 v' cl' => polys_eqb v v' && peqb cl cl'
  | _, _ => false
  end.
Fixpoint eff_rows (bs : list bfun) (tab : list (Q * nat)) (bs' : list bfun) : bool :=
  match tab, bs' with
  | [], [] => true
  | (c, idx) :: tab', b' :: bs'' => hcurl2_eqb (hcurl2_scaled c (nth idx bs (BMat []))) b' && eff_rows bs tab' bs''
  | _, _ => false
  end.
Definition eff_matches (x : elem * list (Q * nat) * elem) : bool :=
  let '(e, tab, e') := x in
  Nat.eqb (length tab) (length (e_basis e)) && forallb (fun ci => is_sign (fst ci) && Nat.ltb (snd ci) (length (e_basis e))) tab &&
  eff_rows (e_basis e) tab (e_basis e').
