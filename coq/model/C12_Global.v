(* C12/C13 — the entity tables of a mesh as computed by Mesh.build_entities (model and theorems of C11),
   in the cell-major form used by the refinement models. *)
From Coq Require Import List Arith Bool ZArith QArith.
Import ListNotations.
Require Import Base.C11_Unique Model.C11_Topo Model.C12_Refine.
Local Open Scope nat_scope.

(* facets = build_entities(t, refdom.facets)[0], t2f[k][a] = mapping[a][k] *)
Definition c11_tables (cells rf : list (list nat)) : tables :=
  {| tb_t := cells; tb_edges := []; tb_facets := entities true cells rf; tb_t2e := [];
     tb_t2f := map (fun k => map (fun a => nth k (nth a (mapping cells rf) []) 0) (seq 0 (length rf)))
                   (seq 0 (length cells)) |}.

(* all facets marked: uniform refinement *)
Definition all_marked (cells rf : list (list nat)) : list bool := repeat true (length (entities true cells rf)).
