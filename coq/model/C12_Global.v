(* C12/C13 — the entity tables of a mesh as computed by Mesh.build_entities (model and theorems of C11),
   in the cell-major form used by the refinement models. *)
From Coq Require Import List Arith Bool ZArith QArith.
Import ListNotations.
Require Import Base.C11_Unique Model.C11_Topo Model.C12_Refine.
Local Open Scope nat_scope.

(* facets = build_entities(t, refdom.facets)[0], t2f[k][a] = mapping[a][k] *)
Definition c11_tables (cells rf : list (list nat)) : tables :=
  {| tb_t := cells; tb_edges := []; tb_facets := entities true cells rf; tb_t2e := [];
     tb_t2f := map (fun k => map (fun a => nth k (nth a (mapping cells rf) []) 0) (seq 0 (length rf)))
                   (seq 0 (length cells)) |}.

(* all facets marked: uniform refinement *)
Definition all_marked (cells rf : list (list nat)) : list bool := repeat true (length (entities true cells rf)).

(* with edges as well (3-D): edges = build_entities(t, refdom.edges)[0], t2e likewise *)
Definition c11_tables3 (cells rf re : list (list nat)) : tables :=
  {| tb_t := cells; tb_edges := entities true cells re; tb_facets := entities true cells rf;
     tb_t2e := map (fun k => map (fun a => nth k (nth a (mapping cells re) []) 0) (seq 0 (length re)))
                   (seq 0 (length cells));
     tb_t2f := map (fun k => map (fun a => nth k (nth a (mapping cells rf) []) 0) (seq 0 (length rf)))
                   (seq 0 (length cells)) |}.

(* the invariant of refinement: every cell has nn pairwise distinct vertices, all of them existing points *)
Definition cell_ok (nn np : nat) (c : list nat) : Prop := NoDup c /\ length c = nn /\ Forall (fun v => v < np) c.
Definition cells_ok (nn np : nat) (t : list (list nat)) : Prop := Forall (cell_ok nn np) t.

(* new vertices stacked as [p; edge nodes; facet nodes; cell nodes] with cE, cF, cC nodes of each kind *)
Definition canon_offs (np cE cF : nat) : offs := {| offE := np; offF := np + cE; offC := np + cE + cF |}.

(* finite checks on templates used by the invariant theorems *)
Fixpoint nodup_nref (l : list nref) : bool :=
  match l with [] => true | x :: r => negb (existsb (nref_eqb x) r) && nodup_nref r end.
Definition nref_inb (nn nre nrf : nat) (r : nref) : bool :=
  match r with NV i => i <? nn | NE j => j <? nre | NF j => j <? nrf | NC => true end.
Definition tpls_okb (nn nre nrf : nat) (tpls : list (list nref)) : bool :=
  forallb (fun tpl => nodup_nref tpl && forallb (nref_inb nn nre nrf) tpl && (length tpl =? nn)) tpls.
Definition uses (e : ekind) (tpls : list (list nref)) : bool :=
  existsb (existsb (fun r => match r, e with NE _, KE | NF _, KF | NC, KC => true | _, _ => false end)) tpls.

(* adaptive templates: a class with pattern pat uses only vertices and the nodes of its MARKED facets *)
Definition adapt_okb (blocks : list (list bool * list (list nref))) : bool :=
  forallb (fun b => (length (fst b) =? 3) &&
     forallb (fun tpl => nodup_nref tpl && (length tpl =? 3) &&
                forallb (fun r => match r with NV i => i <? 3 | NF j => (j <? 3) && nth j (fst b) false | _ => false end) tpl)
             (snd b)) blocks.
