(* C12/C13 — the entity tables of a mesh as computed by Mesh.build_entities (model and theorems of C11),
   in the cell-major form used by the refinement models. *)
From Coq Require Import List Arith Bool ZArith QArith.
Import ListNotations.
Require Import Base.Corr Base.C11_Unique Model.C11_Topo Model.C12_Refine Model.C13_Adaptive.
Local Open Scope nat_scope.

(* facets = build_entities(t, refdom.facets)[0], t2f[k][a] = mapping[a][k] *)
Definition c11_tables (cells rf : list (list nat)) : tables :=
  {| tb_t := cells; tb_edges := []; tb_facets := entities true cells rf; tb_t2e := [];
     tb_t2f := map (fun k => map (fun a => nth k (nth a (mapping cells rf) []) 0) (seq 0 (length rf)))
                   (seq 0 (length cells)) |}.

(* all facets marked: uniform refinement *)
Definition all_marked (cells rf : list (list nat)) : list bool := repeat true (length (entities true cells rf)).

(* with edges as well (3-D): edges = build_entities(t, refdom.edges)[0], t2e likewise *)
Definition c11_tables3 (cells rf re : list (list nat)) : tables :=
  {| tb_t := cells; tb_edges := entities true cells re; tb_facets := entities true cells rf;
     tb_t2e := map (fun k => map (fun a => nth k (nth a (mapping cells re) []) 0) (seq 0 (length re)))
                   (seq 0 (length cells));
     tb_t2f := map (fun k => map (fun a => nth k (nth a (mapping cells rf) []) 0) (seq 0 (length rf)))
                   (seq 0 (length cells)) |}.

(* the invariant of refinement: every cell has nn pairwise distinct vertices, all of them existing points *)
Definition cell_ok (nn np : nat) (c : list nat) : Prop := NoDup c /\ length c = nn /\ Forall (fun v => v < np) c.
Definition cells_ok (nn np : nat) (t : list (list nat)) : Prop := Forall (cell_ok nn np) t.

(* new vertices stacked as [p; edge nodes; facet nodes; cell nodes] with cE, cF, cC nodes of each kind *)
Definition canon_offs (np cE cF : nat) : offs := {| offE := np; offF := np + cE; offC := np + cE + cF |}.

(* finite checks on templates used by the invariant theorems *)
Fixpoint nodup_nref (l : list nref) : bool :=
  match l with [] => true | x :: r => negb (existsb (nref_eqb x) r) && nodup_nref r end.
Definition nref_inb (nn nre nrf : nat) (r : nref) : bool :=
  match r with NV i => i <? nn | NE j => j <? nre | NF j => j <? nrf | NC => true end.
Definition tpls_okb (nn nre nrf : nat) (tpls : list (list nref)) : bool :=
  forallb (fun tpl => nodup_nref tpl && forallb (nref_inb nn nre nrf) tpl && (length tpl =? nn)) tpls.
Definition uses (e : ekind) (tpls : list (list nref)) : bool :=
  existsb (existsb (fun r => match r, e with NE _, KE | NF _, KF | NC, KC => true | _, _ => false end)) tpls.

(* adaptive templates: a class with pattern pat uses only vertices and the nodes of its MARKED facets *)
Definition adapt_okb (blocks : list (list bool * list (list nref))) : bool :=
  forallb (fun b => (length (fst b) =? 3) &&
     forallb (fun tpl => nodup_nref tpl && (length tpl =? 3) &&
                forallb (fun r => match r with NV i => i <? 3 | NF j => (j <? 3) && nth j (fst b) false | _ => false end) tpl)
             (snd b)) blocks.

(* ------------------------------------------------------------------ 3-D: what the children leave on a face *)
(* the edge slot of the reference cell that joins local vertices i and j (length re = not found) *)
Fixpoint find_slot (re : list (list nat)) (i j b : nat) : nat :=
  match re with
  | [] => b
  | s :: r => if nats_eqb s [i; j] || nats_eqb s [j; i] then b else find_slot r i j (S b)
  end.
Definition eslot (re : list (list nat)) (i j : nat) : nat := find_slot re i j 0.

(* position of a tuple in an entity array *)
Fixpoint lidx (x : list nat) (l : list (list nat)) : nat :=
  match l with [] => 0 | y :: r => if nats_eqb x y then 0 else S (lidx x r) end.

(* the four triangles into which a triangular face with vertices x, y, z and edge nodes mxy, mxz, myz is cut (sorted tuples) *)
Definition tri_pieces (x y z mxy mxz myz : nat) : list (list nat) :=
  [isort [x; mxy; mxz]; isort [y; mxy; myz]; isort [z; mxz; myz]; isort [mxy; mxz; myz]].

(* ... as seen from a cell: local face a, edge nodes numbered offE + t2e[slot] *)
Definition resolved_face_pieces (rf re : list (list nat)) (oE : nat) (c : cctx) (a : nat) : list (list nat) :=
  let lf := nth a rf [] in
  let i0 := nth 0 lf 0 in let i1 := nth 1 lf 0 in let i2 := nth 2 lf 0 in
  let m i j := oE + nth (eslot re i j) (ce c) 0 in
  tri_pieces (nth i0 (cv c) 0) (nth i1 (cv c) 0) (nth i2 (cv c) 0) (m i0 i1) (m i0 i2) (m i1 i2).

(* ... as a function of the face alone: its vertex tuple and the mesh's edge array *)
Definition face_trace3 (edges : list (list nat)) (oE : nat) (fv : list nat) : list (list nat) :=
  let u := nth 0 fv 0 in let v := nth 1 fv 0 in let w := nth 2 fv 0 in
  let m a b := oE + lidx (isort [a; b]) edges in
  tri_pieces u v w (m u v) (m u w) (m v w).

(* slot tables of a cell type with triangular faces: three different local vertices per face, each pair an edge slot *)
Definition face_edges_okb (nn : nat) (rf re : list (list nat)) : bool :=
  forallb (fun lf => match lf with
                     | [i0; i1; i2] =>
                         negb (Nat.eqb i0 i1) && negb (Nat.eqb i0 i2) && negb (Nat.eqb i1 i2) &&
                         (i0 <? nn) && (i1 <? nn) && (i2 <? nn) &&
                         (eslot re i0 i1 <? length re) && (eslot re i0 i2 <? length re) && (eslot re i1 i2 <? length re)
                     | _ => false
                     end) rf.

(* template-level check (3-D analogue of trace_ok): the faces of the children are the expected four pieces of every parent
   face (each once) plus interior faces (each twice) *)
Definition fcode (tpl : list nref) (f : list nat) : list nat := isort (map (fun i => ncode (nth i tpl NC)) f).
Definition child_faces (rf : list (list nat)) (tpls : list (list nref)) : list (list nat) :=
  flat_map (fun tpl => map (fcode tpl) rf) tpls.
Definition face_pieces_coded (rf re : list (list nat)) (a : nat) : list (list nat) :=
  let lf := nth a rf [] in
  let i0 := nth 0 lf 0 in let i1 := nth 1 lf 0 in let i2 := nth 2 lf 0 in
  let m i j := ncode (NE (eslot re i j)) in
  tri_pieces (ncode (NV i0)) (ncode (NV i1)) (ncode (NV i2)) (m i0 i1) (m i0 i2) (m i1 i2).
Definition focc (e : list nat) (l : list (list nat)) : nat := length (filter (nats_eqb e) l).
Definition trace3_ok (rf re : list (list nat)) (tpls : list (list nref)) : bool :=
  let E := child_faces rf tpls in
  let pieces := flat_map (face_pieces_coded rf re) (seq 0 (length rf)) in
  forallb (fun e => Nat.eqb (focc e E) 1 && Nat.eqb (focc e pieces) 1) pieces
  && forallb (fun e => (focc e pieces =? 1) || (focc e E =? 2)) E.

(* ------------------------------------------------------------------ quadrilateral faces (hexahedra) *)
(* the four quadrilaterals into which a face with vertices a, b, c, d (cyclic), edge nodes mab, mbc, mcd, mda and face node n is cut *)
Definition quad_pieces (a b c d mab mbc mcd mda n : nat) : list (list nat) :=
  [isort [a; mab; n; mda]; isort [b; mbc; n; mab]; isort [c; mcd; n; mbc]; isort [d; mda; n; mcd]].

Definition resolved_qface_pieces (rf re : list (list nat)) (oE oF : nat) (c : cctx) (a : nat) : list (list nat) :=
  let lf := nth a rf [] in
  let i0 := nth 0 lf 0 in let i1 := nth 1 lf 0 in let i2 := nth 2 lf 0 in let i3 := nth 3 lf 0 in
  let m i j := oE + nth (eslot re i j) (ce c) 0 in
  quad_pieces (nth i0 (cv c) 0) (nth i1 (cv c) 0) (nth i2 (cv c) 0) (nth i3 (cv c) 0)
              (m i0 i1) (m i1 i2) (m i2 i3) (m i3 i0) (oF + nth a (cf c) 0).

Definition face_trace4 (edges : list (list nat)) (oE oF f : nat) (fv : list nat) : list (list nat) :=
  let a := nth 0 fv 0 in let b := nth 1 fv 0 in let c := nth 2 fv 0 in let d := nth 3 fv 0 in
  let m x y := oE + lidx (isort [x; y]) edges in
  quad_pieces a b c d (m a b) (m b c) (m c d) (m d a) (oF + f).

Definition qface_edges_okb (nn : nat) (rf re : list (list nat)) : bool :=
  forallb (fun lf => match lf with
                     | [i0; i1; i2; i3] =>
                         nodup_nref [NV i0; NV i1; NV i2; NV i3] &&
                         (i0 <? nn) && (i1 <? nn) && (i2 <? nn) && (i3 <? nn) &&
                         (eslot re i0 i1 <? length re) && (eslot re i1 i2 <? length re) &&
                         (eslot re i2 i3 <? length re) && (eslot re i3 i0 <? length re)
                     | _ => false
                     end) rf.

Definition qface_pieces_coded (rf re : list (list nat)) (a : nat) : list (list nat) :=
  let lf := nth a rf [] in
  let i0 := nth 0 lf 0 in let i1 := nth 1 lf 0 in let i2 := nth 2 lf 0 in let i3 := nth 3 lf 0 in
  let m i j := ncode (NE (eslot re i j)) in
  quad_pieces (ncode (NV i0)) (ncode (NV i1)) (ncode (NV i2)) (ncode (NV i3)) (m i0 i1) (m i1 i2) (m i2 i3) (m i3 i0) (ncode (NF a)).
Definition trace4_ok (rf re : list (list nat)) (tpls : list (list nref)) : bool :=
  let E := child_faces rf tpls in
  let pieces := flat_map (qface_pieces_coded rf re) (seq 0 (length rf)) in
  forallb (fun e => Nat.eqb (focc e E) 1 && Nat.eqb (focc e pieces) 1) pieces
  && forallb (fun e => (focc e pieces =? 1) || (focc e E =? 2)) E.

(* ------------------------------------------------------------------ hexahedra: vertex cycles of the child faces *)
Definition face_cycle (rf : list (list nat)) (tpl : list nref) (s : nat) : list nref :=
  map (fun i => nth i tpl NC) (nth s rf []).

Definition dihedral_forms {A} (q : list A) : list (list A) :=
  match q with
  | [a; b; c; d] => [[a; b; c; d]; [b; c; d; a]; [c; d; a; b]; [d; a; b; c];
                     [d; c; b; a]; [c; b; a; d]; [b; a; d; c]; [a; d; c; b]]
  | _ => []
  end.
Definition nrefs_eqb := list_eqb nref_eqb.
Definition dihedral_nref (q q' : list nref) : bool := existsb (nrefs_eqb q') (dihedral_forms q).
Definition same_setb (s1 s2 : list nref) : bool :=
  forallb (fun r => existsb (nref_eqb r) s2) s1 && forallb (fun r => existsb (nref_eqb r) s1) s2.

Definition all_child_faces (rf : list (list nat)) (tpls : list (list nref)) : list (list nref) :=
  flat_map (fun tpl => map (face_cycle rf tpl) (seq 0 (length rf))) tpls.

(* inside one parent: two child faces with the same nodes list them in the same cycle up to rotation / reversal *)
Definition hex_same_parent_ok (rf : list (list nat)) (tpls : list (list nref)) : bool :=
  let F := all_child_faces rf tpls in
  forallb (fun s1 => forallb (fun s2 => implb (same_setb s1 s2) (dihedral_nref s1 s2)) F) F.

(* the cycle of the piece at corner j of parent face a: corner, node of the edge to the next corner, face node, node of the
   edge from the previous corner *)
Definition canon_cycle (rf re : list (list nat)) (a j : nat) : list nref :=
  let lf := nth a rf [] in
  let i := nth j lf 0 in let inext := nth ((j + 1) mod 4) lf 0 in let iprev := nth ((j + 3) mod 4) lf 0 in
  [NV i; NE (eslot re i inext); NF a; NE (eslot re iprev i)].

(* every child face either contains the cell node or is, up to rotation / reversal, the canonical piece of one corner of one
   parent face *)
Definition hex_boundary_ok (rf re : list (list nat)) (tpls : list (list nref)) : bool :=
  forallb (fun s => existsb (nref_eqb NC) s ||
                    existsb (fun a => existsb (fun j => dihedral_nref (canon_cycle rf re a j) s) (seq 0 4)) (seq 0 (length rf)))
          (all_child_faces rf tpls).
