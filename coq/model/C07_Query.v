(* C07 — executable model of the DOF lookup:
   Mesh._expand_facets (mesh.py 495-511), Dofs.get_facet_dofs / get_element_dofs / get_vertex_dofs and
   Dofs._dofnames_to_rows (dofs.py 539-733), DofsView.flatten / keep / drop / all / __or__ (dofs.py 87-247),
   Mesh.normalize_facets / normalize_elements / normalize_nodes (mesh.py), AbstractBasis.complement_dofs.
   Arrays whose columns are entities (facets) are lists of columns; slot tables (t, t2e, t2f, f2e) and the DOF
   blocks are lists of rows.  DOF names are numbers (position in a name table kept by the harness). *)
From Coq Require Import List Arith Bool.
Import ListNotations.
Require Import Base.C11_Unique Model.C04_Dofs.

(* ---- a view: per kind an index array (entities) and a row array (components) *)
Record view := {
  V_nodal_ix : list nat; V_facet_ix : list nat; V_edge_ix : list nat; V_interior_ix : list nat;
  V_nodal_rows : list nat; V_facet_rows : list nat; V_edge_rows : list nat; V_interior_rows : list nat }.

(* blk[rows][:, ix].flatten() *)
Definition sub (blk : list (list nat)) (rows ix : list nat) : list nat :=
  flat_map (fun r => map (fun j => nth j (nth r blk []) 0) ix) rows.

(* DofsView.flatten *)
Definition flatten (D : dofs) (v : view) : list nat :=
  uniq Nat.compare (sub (D_nodal D) (V_nodal_rows v) (V_nodal_ix v) ++ sub (D_facet D) (V_facet_rows v) (V_facet_ix v)
                    ++ sub (D_edge D) (V_edge_rows v) (V_edge_ix v) ++ sub (D_interior D) (V_interior_rows v) (V_interior_ix v)).

(* ---- names.  dofnames : the element's name list; (o_facet, o_edge, o_interior) : the offsets _dofnames_to_rows adds to
   the row number of a facet / edge / interior row (regenerated from the source as functions of the block sizes) *)
Definition name_in (x : nat) (names : list nat) : bool := existsb (Nat.eqb x) names.

Definition rows_named (skip : bool) (dofnames names : list nat) (off n : nat) : list nat :=
  filter (fun i => let hit := name_in (nth (i + off) dofnames 0) names in if skip then negb hit else hit) (seq 0 n).

Definition offsets := (nat * nat * nat)%type.     (* facet, edge, interior *)

(* Dofs._dofnames_to_rows(dofnames, skip) -> (nodal_rows, facet_rows, edge_rows, interior_rows) *)
Definition names_to_rows (D : dofs) (dofnames : list nat) (offs : offsets) (skip : bool) (names : list nat)
  : list nat * list nat * list nat * list nat :=
  let '(of_, oe, oi) := offs in
  (rows_named skip dofnames names 0 (length (D_nodal D)),
   rows_named skip dofnames names of_ (length (D_facet D)),
   rows_named skip dofnames names oe (length (D_edge D)),
   rows_named skip dofnames names oi (length (D_interior D))).

Definition inter (a b : list nat) : list nat := filter (fun x => existsb (Nat.eqb x) b) a.   (* np.intersect1d on sorted sets *)

Definition with_rows (v : view) (r : list nat * list nat * list nat * list nat) : view :=
  let '(r1, r2, r3, r4) := r in
  {| V_nodal_ix := V_nodal_ix v; V_facet_ix := V_facet_ix v; V_edge_ix := V_edge_ix v; V_interior_ix := V_interior_ix v;
     V_nodal_rows := inter (V_nodal_rows v) r1; V_facet_rows := inter (V_facet_rows v) r2;
     V_edge_rows := inter (V_edge_rows v) r3; V_interior_rows := inter (V_interior_rows v) r4 |}.

Definition keep D dofnames offs (v : view) (names : list nat) : view := with_rows v (names_to_rows D dofnames offs false names).
Definition drop D dofnames offs (v : view) (names : list nat) : view := with_rows v (names_to_rows D dofnames offs true names).
Definition all_named D dofnames offs (v : view) (names : list nat) : list nat := flatten D (keep D dofnames offs v names).

(* DofsView.__or__ : union of the index arrays, rows of the left operand *)
Definition union1d (a b : list nat) : list nat := uniq Nat.compare (a ++ b).
Definition view_or (a b : view) : view :=
  {| V_nodal_ix := union1d (V_nodal_ix a) (V_nodal_ix b); V_facet_ix := union1d (V_facet_ix a) (V_facet_ix b);
     V_edge_ix := union1d (V_edge_ix a) (V_edge_ix b); V_interior_ix := union1d (V_interior_ix a) (V_interior_ix b);
     V_nodal_rows := V_nodal_rows a; V_facet_rows := V_facet_rows a; V_edge_rows := V_edge_rows a;
     V_interior_rows := V_interior_rows a |}.

(* ---- Dofs._by_name / DofsView.nodal, .facet, .edge, .interior: dict name -> flattened DOFs of the selected rows that carry
   that name (keys in the order of first appearance); row r of the block is named dofnames[r + off] *)
Fixpoint dedup (l : list nat) : list nat :=
  match l with
  | [] => []
  | x :: r => x :: filter (fun y => negb (y =? x)) (dedup r)
  end.
Definition by_name (blk : list (list nat)) (rows ix : list nat) (off : nat) (dofnames : list nat) : list (nat * list nat) :=
  let nm := fun r => nth (r + off) dofnames 0 in
  map (fun n => (n, flat_map (fun r => if nm r =? n then map (fun j => nth j (nth r blk []) 0) ix else []) rows))
      (dedup (map nm rows)).
(* offs : (facet, edge, interior) offsets of the DofsView properties (regenerated from the source) *)
Definition view_by_name (D : dofs) (v : view) (dofnames : list nat) (offs : offsets) (kd : kind) : list (nat * list nat) :=
  let '(of_, oe, oi) := offs in
  match kd with
  | Nodal => by_name (D_nodal D) (V_nodal_rows v) (V_nodal_ix v) 0 dofnames
  | Facet => by_name (D_facet D) (V_facet_rows v) (V_facet_ix v) of_ dofnames
  | Edge => by_name (D_edge D) (V_edge_rows v) (V_edge_ix v) oe dofnames
  | Interior => by_name (D_interior D) (V_interior_rows v) (V_interior_ix v) oi dofnames
  end.

(* ---- the three queries.  nd ed fd : the element's counts; skip : names to skip *)
Definition cols_of (T : list (list nat)) (ix : list nat) : list nat :=      (* T[:, ix].flatten() *)
  flat_map (fun row => map (fun j => nth j row 0) ix) T.

(* Mesh._expand_facets: facets as columns, f2e as rows; dim3 = (dim() == 3 and bndelem is not None) *)
Definition expand_facets (facets f2e : list (list nat)) (dim3 : bool) (ix : list nat) : list nat * list nat :=
  (uniq Nat.compare (flat_map (fun f => nth f facets []) ix),
   if dim3 then uniq Nat.compare (cols_of f2e ix) else []).

Definition mk_view (ixs : list nat * list nat * list nat * list nat) (r : list nat * list nat * list nat * list nat) : view :=
  let '(i1, i2, i3, i4) := ixs in let '(r1, r2, r3, r4) := r in
  {| V_nodal_ix := i1; V_facet_ix := i2; V_edge_ix := i3; V_interior_ix := i4;
     V_nodal_rows := r1; V_facet_rows := r2; V_edge_rows := r3; V_interior_rows := r4 |}.

Definition get_facet_dofs D dofnames offs (nd ed fd : nat) (facets f2e : list (list nat)) (dim3 : bool)
           (F skip : list nat) : view :=
  let '(vs, es) := expand_facets facets f2e dim3 F in
  mk_view (if nd =? 0 then [] else vs, if fd =? 0 then [] else F, if ed =? 0 then [] else es, [])
          (names_to_rows D dofnames offs true skip).

Definition get_element_dofs D dofnames offs (nd ed fd : nat) (t t2e t2f : list (list nat)) (E skip : list nat) : view :=
  mk_view (if nd =? 0 then [] else uniq Nat.compare (cols_of t E),
           if fd =? 0 then [] else uniq Nat.compare (cols_of t2f E),
           if ed =? 0 then [] else uniq Nat.compare (cols_of t2e E), E)
          (names_to_rows D dofnames offs true skip).

Definition get_vertex_dofs D dofnames offs (nodes skip : list nat) : view :=
  mk_view (nodes, [], [], []) (names_to_rows D dofnames offs true skip).

(* AbstractBasis.complement_dofs: np.setdiff1d(np.arange(N), D) *)
Definition complement (N : nat) (d : list nat) : list nat :=
  filter (fun x => negb (existsb (Nat.eqb x) d)) (seq 0 N).

(* ---- Mesh.with_boundaries / with_subdomains: {**old, **new} — a named set defined again REPLACES the old one, all other names
   are kept; the operand is a value (untouched).  Dictionaries are association lists read by first match. *)
Definition tag_lookup (tb : list (nat * list nat)) (k : nat) : option (list nat) :=
  match find (fun kv => Nat.eqb (fst kv) k) tb with Some kv => Some (snd kv) | None => None end.
Definition with_tags (old new : list (nat * list nat)) : list (nat * list nat) := new ++ old.
(* the tags of a mesh after a history of with_boundaries calls (oldest first) *)
Definition tag_history (hist : list (list (nat * list nat))) : list (nat * list nat) := fold_left with_tags hist [].

(* complement_dofs(D1, D2, ...) / complement_dofs({name: view, ...}): np.setdiff1d(np.arange(N), np.concatenate(D)) *)
Definition complement_many (N : nat) (Ds : list (list nat)) : list nat := complement N (concat Ds).

(* ---- selectors: what normalize_facets / normalize_elements accept *)
Inductive sel :=
| SInt (i : nat)                 (* int *)
| SArr (l : list nat)            (* ndarray, taken as is (any order, duplicates) *)
| SDefault                       (* None: boundary facets (facets only) *)
| SAll                           (* True: all elements (elements only) *)
| SPred (p : nat -> bool)        (* callable, evaluated on the entity midpoints by the caller *)
| STag (name : nat)              (* str: named boundary / subdomain *)
| SColl (l : list sel).          (* list / tuple / set: np.unique(np.concatenate(...)) *)

(* n : number of entities; dflt : value for None (None itself if not accepted); tags : named index sets.
   Result None = the implementation raises. *)
Fixpoint normalize (n : nat) (dflt : option (list nat)) (all_ok : bool) (tags : nat -> option (list nat)) (s : sel)
  : option (list nat) :=
  match s with
  | SInt i => Some [i]
  | SArr l => Some l
  | SDefault => dflt
  | SAll => if all_ok then Some (seq 0 n) else None
  | SPred p => Some (filter p (seq 0 n))
  | STag k => tags k
  | SColl l =>                   (* np.unique(np.concatenate(...)); the empty collection denotes the empty set *)
      option_map (uniq Nat.compare)
        ((fix go (l : list sel) : option (list nat) :=
            match l with
            | [] => Some []
            | x :: r => match normalize n dflt all_ok tags x, go r with
                        | Some a, Some b => Some (a ++ b)
                        | _, _ => None
                        end
            end) l)
  end.
