(* C13 — executable model of adaptive refinement: MeshTri1._adaptive (closure loop of
   _adaptive_find_facets, red/green/blue split of _adaptive_split_elements) and MeshLine1._adaptive.
   The closure rule, the class patterns, the child templates and the subdomain index map are parameters,
   instantiated by the check with the terms regenerated from the source (Gen.C13Gen).
   Cells are cell-major lists as in Model.C12_Refine.  No proofs here. *)
From Coq Require Import List Arith Bool ZArith QArith.
Import ListNotations.
Require Import Model.C12_Refine.
Local Open Scope nat_scope.

(* ------------------------------------------------------------------ facet marks *)
Definition marks := list bool.
Definition mk (F : marks) (f : nat) : bool := nth f F false.

Fixpoint set_true (F : marks) (f : nat) : marks :=
  match F, f with
  | [], _ => []
  | _ :: F', 0 => true :: F'
  | b :: F', S f' => b :: set_true F' f'
  end.
Definition set_all (F : marks) (fs : list nat) : marks := fold_left set_true fs F.
Definition count (F : marks) : nat := length (filter (fun b => b) F).

(* facets[m.t2f[:, marked].flatten('F')] = 1 *)
Definition init_marks (nf : nat) (t2f : list (list nat)) (marked : list nat) : marks :=
  set_all (repeat false nf) (flat_map (fun k => nth k t2f []) marked).

(* one sweep: t2facets = facets[t2f]; t2facets[dst, sum(t2facets[srcs]) > 0] = 1; facets[t2f[t2facets == 1]] = 1 *)
Definition cell_new (srcs : list nat) (dst : nat) (F : marks) (c : list nat) : list nat :=
  if existsb (fun i => mk F (nth i c 0)) srcs then [nth dst c 0] else [].
Definition sweep (srcs : list nat) (dst : nat) (t2f : list (list nat)) (F : marks) : marks :=
  set_all F (flat_map (cell_new srcs dst F) t2f).

(* while count_nonzero(facets) - prev_nnz > 0: prev_nnz = count_nonzero(facets); <sweep>
   None = fuel exhausted *)
Fixpoint closure (fuel : nat) (srcs : list nat) (dst : nat) (t2f : list (list nat)) (F : marks) : option marks :=
  match fuel with
  | 0 => None
  | S n => let F' := sweep srcs dst t2f F in
           if count F <? count F' then closure n srcs dst t2f F' else Some F'
  end.

Definition find_facets (srcs : list nat) (dst : nat) (nf : nat) (t2f : list (list nat)) (marked : list nat)
  : option marks :=
  closure (S nf) srcs dst t2f (init_marks nf t2f marked).

(* closed under the rule *)
Definition closed_cell (srcs : list nat) (dst : nat) (F : marks) (c : list nat) : bool :=
  implb (existsb (fun i => mk F (nth i c 0)) srcs) (mk F (nth dst c 0)).
Definition closedb (srcs : list nat) (dst : nat) (t2f : list (list nat)) (F : marks) : bool :=
  forallb (closed_cell srcs dst F) t2f.

(* ------------------------------------------------------------------ classes and the split *)
Definition pattern (F : marks) (c : list nat) : list bool := map (mk F) c.

Fixpoint bools_eqb (a b : list bool) : bool :=
  match a, b with
  | [], [] => true
  | x :: a', y :: b' => Bool.eqb x y && bools_eqb a' b'
  | _, _ => false
  end.

(* index of the first class whose pattern matches; length pats = no class (the cell would be lost) *)
Fixpoint class_of (pats : list (list bool)) (pt : list bool) : nat :=
  match pats with
  | [] => 0
  | q :: pats' => if bools_eqb q pt then 0 else S (class_of pats' pt)
  end.

(* ix[facets == 1] = arange(count_nonzero(facets)) + nv : index of the new node on a marked facet *)
Definition node_of (F : marks) (nv : nat) (f : nat) : nat := nv + count (firstn f F).

Definition resolve_a (F : marks) (nv : nat) (c : cctx) (r : nref) : nat :=
  match r with
  | NV i => nth i (cv c) 0
  | NF j => node_of F nv (nth j (cf c) 0)
  | NE j => node_of F nv (nth j (ce c) 0)
  | NC => 0
  end.
Definition child_a (F : marks) (nv : nat) (c : cctx) (tpl : list nref) : list nat := map (resolve_a F nv c) tpl.

(* hstack((m.t[:, rest], t_red, t_blue1, ...)): for each class in order, for each of its templates,
   one block over the cells of that class *)
Definition flat_blocks (blocks : list (list bool * list (list nref))) : list (nat * list nref) :=
  concat (map (fun ib => map (fun tpl => (fst ib, tpl)) (snd (snd ib)))
              (combine (seq 0 (length blocks)) blocks)).

Definition grouped (res : cctx -> list nref -> list nat) (flat : list (nat * list nref))
  (cls : list nat) (cs : list cctx) : list (list nat) :=
  concat (map (fun ct => map (fun c => res c (snd ct)) (cls_filter cls (fst ct) cs)) flat).

(* position of the cell produced by flat block b from old cell k (when the class of k is that of block b) *)
Definition grouped_index (flat : list (nat * list nref)) (cls : list nat) (b k : nat) : nat :=
  list_sum (map (fun ct => count_cls cls (fst ct)) (firstn b flat)) + rank_in_cls cls k.

(* first flat block of class c, number of templates of class c *)
Definition class_start (blocks : list (list bool * list (list nref))) (c : nat) : nat :=
  list_sum (map (fun b => length (snd b)) (firstn c blocks)).
Definition class_size (blocks : list (list bool * list (list nref))) (c : nat) : nat :=
  length (snd (nth c blocks ([], []))).

(* new points: midpoints of the marked facets in increasing facet order *)
Definition midpoint (dim : nat) (p : list point) (f : list nat) : point :=
  pscale (1 # 2) (padd (nth (nth 0 f 0) p []) (nth (nth 1 f 0) p [])).
Definition new_points (dim : nat) (p : list point) (facets : list (list nat)) (F : marks) : list point :=
  map (fun bf => midpoint dim p (snd bf)) (filter (fun bf => fst bf) (combine F facets)).

Record asplit := { as_p : list point; as_t : list (list nat); as_cls : list nat }.

Definition split_elements (blocks : list (list bool * list (list nref))) (p : list point) (tb : tables) (F : marks)
  : asplit :=
  let cs := mk_ctxs (tb_t tb) (tb_t2e tb) (tb_t2f tb) in
  let cls := map (fun c => class_of (map fst blocks) (pattern F (cf c))) cs in
  {| as_p := p ++ new_points 2 p (tb_facets tb) F;
     as_t := grouped (child_a F (length p)) (flat_blocks blocks) cls cs;
     as_cls := cls |}.

(* subdomains: np.setdiff1d(np.unique(new_t[:, ixs]), [-1]) with new_t[j][k] = submap (class k) j (rank k)
   for j < number of templates of the class of k, else -1 *)
Definition adaptive_children (blocks : list (list bool * list (list nref)))
  (submap : (nat -> nat) -> nat -> nat -> nat -> nat) (cls : list nat) (k : nat) : list nat :=
  let c := nth k cls 0 in
  map (fun j => submap (count_cls cls) c j (rank_in_cls cls k)) (seq 0 (class_size blocks c)).

Fixpoint dedup_sorted (l : list nat) : list nat :=
  match l with
  | [] => []
  | x :: l' => match l' with
               | [] => [x]
               | y :: _ => if Nat.eqb x y then dedup_sorted l' else x :: dedup_sorted l'
               end
  end.

Definition propagate_adaptive blocks submap cls (ixs : list nat) : list nat :=
  dedup_sorted (sort_nat (flat_map (adaptive_children blocks submap cls) ixs)).

(* the whole of MeshTri1._adaptive given the (re-ordered) connectivity and its tables *)
Definition adaptive_tri srcs dst blocks (p : list point) (tb : tables) (marked : list nat) : option asplit :=
  match find_facets srcs dst (length (tb_facets tb)) (tb_t2f tb) marked with
  | None => None
  | Some F => Some (split_elements blocks p tb F)
  end.

(* ------------------------------------------------------------------ MeshLine1._adaptive *)
Fixpoint index_of (x : nat) (l : list nat) : option nat :=
  match l with
  | [] => None
  | y :: l' => if Nat.eqb x y then Some 0 else option_map S (index_of x l')
  end.
Definition memb (x : nat) (l : list nat) : bool := match index_of x l with Some _ => true | None => false end.

Definition nonmarked (nt : nat) (marked : list nat) : list nat := filter (fun k => negb (memb k marked)) (seq 0 nt).

(* [base] = the number given to the first new midpoint: p.shape[1] (after N50) — np.max(t) + 1 before, which is wrong
   when the point array has unused trailing points *)
Definition line_adaptive (base : nat) (p : list point) (t : list (list nat)) (marked : list nat) : list point * list (list nat) :=
  let nv := base in
  let mids := map (fun i => nv + i) (seq 0 (length marked)) in
  (p ++ map (fun k => ent_mean 1 p (nth k t [])) marked,
   map (fun k => nth k t []) (nonmarked (length t) marked)
   ++ map (fun ki => [nth 0 (nth (fst ki) t []) 0; snd ki]) (combine marked mids)
   ++ map (fun ki => [snd ki; nth 1 (nth (fst ki) t []) 0]) (combine marked mids)).

(* the new cells that replace old cell k *)
Definition line_children (nt : nat) (marked : list nat) (k : nat) : list nat :=
  let nn := length (nonmarked nt marked) in
  match index_of k marked with
  | Some i => [nn + i; nn + length marked + i]
  | None => [length (filter (fun k' => k' <? k) (nonmarked nt marked))]
  end.

(* ------------------------------------------------------------------ finite checks on the templates *)
Require Import Model.C12_Geom.

(* all bool lists of length n *)
Fixpoint all_patterns (n : nat) : list (list bool) :=
  match n with 0 => [[]] | S n' => flat_map (fun q => [false :: q; true :: q]) (all_patterns n') end.

Definition closed_pat (srcs : list nat) (dst : nat) (pt : list bool) : bool :=
  implb (existsb (fun i => nth i pt false) srcs) (nth dst pt false).

(* every pattern that can occur after the closure has a class *)
Definition patterns_ok (srcs : list nat) (dst : nat) (pats : list (list bool)) : bool :=
  forallb (fun pt => implb (closed_pat srcs dst pt) (class_of pats pt <? length pats)) (all_patterns 3).

(* edges of the children as unordered pairs of node references, coded as numbers *)
Definition ncode (r : nref) : nat :=
  match r with NV i => i | NF j => 10 + j | NE j => 20 + j | NC => 30 end.
Definition epair (a b : nref) : nat * nat :=
  let x := ncode a in let y := ncode b in if x <=? y then (x, y) else (y, x).
Definition pair_eqb (p q : nat * nat) : bool := Nat.eqb (fst p) (fst q) && Nat.eqb (snd p) (snd q).
Definition occ (e : nat * nat) (l : list (nat * nat)) : nat := length (filter (pair_eqb e) l).

Definition child_edges (rf : list (list nat)) (tpls : list (list nref)) : list (nat * nat) :=
  flat_map (fun tpl => map (fun f => epair (nth (nth 0 f 0) tpl NC) (nth (nth 1 f 0) tpl NC)) rf) tpls.

(* the pieces into which the children must cut parent facet a = (u, v): split at the facet's node iff marked *)
Definition facet_pieces (rf : list (list nat)) (pat : list bool) (a : nat) : list (nat * nat) :=
  let f := nth a rf [] in let u := nth 0 f 0 in let v := nth 1 f 0 in
  if nth a pat false then [epair (NV u) (NF a); epair (NF a) (NV v)] else [epair (NV u) (NV v)].

(* local conformity of one class: the child edges are exactly the expected pieces of the three parent facets
   (each once) plus interior edges (each twice) *)
Definition trace_ok (rf : list (list nat)) (pat : list bool) (tpls : list (list nref)) : bool :=
  let E := child_edges rf tpls in
  let pieces := flat_map (facet_pieces rf pat) (seq 0 (length rf)) in
  forallb (fun e => Nat.eqb (occ e E) 1 && Nat.eqb (occ e pieces) 1) pieces
  && forallb (fun e => (occ e pieces =? 1) || (occ e E =? 2)) E.

(* tiling of the parent triangle by the children of one class *)
Definition Qabs' (q : Q) : Q := if Qle_bool 0 q then q else (- q)%Q.
Definition tri_dets (W : list nref -> list (list Q)) (tpls : list (list nref)) : list (option Q) :=
  map (fun tpl => tri_child_check (W tpl)) tpls.
Definition tet_dets (W : list nref -> list (list Q)) (tpls : list (list nref)) : list (option Q) :=
  map (fun tpl => tet_child_check (W tpl)) tpls.
Definition dets_tile (ds : list (option Q)) : bool :=
  forallb (fun d => match d with Some s => negb (Qeq_bool s 0) | None => false end) ds
  && Qeq_bool (fold_right (fun d acc => match d with Some s => (Qabs' s + acc)%Q | None => acc end) 0%Q ds) 1.
Definition tri_tiles_ok (W : list nref -> list (list Q)) (tpls : list (list nref)) : bool :=
  dets_tile (tri_dets W tpls) && all_pairs_ok (fun a b => separable 3 (W a) (W b)) tpls.
Definition tet_tiles_ok (W : list nref -> list (list Q)) (tpls : list (list nref)) : bool :=
  dets_tile (tet_dets W tpls) && all_pairs_ok (fun a b => separable 4 (W a) (W b)) tpls.

(* a permutation of [0; 1; 2] *)
Definition is_perm3 (l : list nat) : bool :=
  (length l =? 3) && forallb (fun i => existsb (Nat.eqb i) l) [0; 1; 2].

(* ------------------------------------------------------------------ utils.adaptive_theta *)
Definition qmax (l : list Q) : Q :=
  match l with [] => 0%Q | x :: r => fold_left (fun a b => if Qltb a b then b else a) r x end.
(* the cells whose estimate exceeds theta * max — an index LIST (one-dimensional whatever the number of hits) *)
Definition theta_select (est : list Q) (theta : Q) (mx : option Q) : list nat :=
  let m := match mx with Some v => v | None => qmax est end in
  filter (fun k => Qltb (theta * m)%Q (nth k est 0%Q)) (seq 0 (length est)).
