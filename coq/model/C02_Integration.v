(* C02 — model of how quadrature weights become integrals on a mesh of affine cells:
   dx(e,q) = |det A_e| * W_q  (CellBasis / FacetBasis), integrals are sums over cells and points,
   local mass matrices M^e_ij = sum_q phi_i phi_j dx.  Generic commutative ring (Base.C02_Ops.ops). *)
From Coq Require Import List Arith.
Require Import Base.C02_Ops.
Import ListNotations.

Section Defs.
  Variable R : Type.
  Variable O : ops R.

  (* sum_e sum_q f(e,q) * dx(e,q) : what Functional.assemble computes for the integrand f *)
  Definition integrate (ne nq : nat) (f dx : nat -> nat -> R) : R :=
    rsum O (seq 0 ne) (fun e => rsum O (seq 0 nq) (fun q => omul O (f e q) (dx e q))).

  Definition measure (ne nq : nat) (dx : nat -> nat -> R) : R :=
    rsum O (seq 0 ne) (fun e => rsum O (seq 0 nq) (fun q => dx e q)).

  (* entry (i,j) of the mass matrix summed over all cells, phi i e q = i-th local shape function of
     cell e at point q; the assembled global matrix has the same total because assembly only adds *)
  Definition mass_entry (ne nq : nat) (phi : nat -> nat -> nat -> R) (dx : nat -> nat -> R) (i j : nat) : R :=
    integrate ne nq (fun e q => omul O (phi i e q) (phi j e q)) dx.

  Definition mass_total (nb ne nq : nat) (phi : nat -> nat -> nat -> R) (dx : nat -> nat -> R) : R :=
    rsum O (seq 0 nb) (fun i => rsum O (seq 0 nb) (fun j => mass_entry ne nq phi dx i j)).

  (* dx of an affine cell / facet: the same Jacobian factor at every point *)
  Definition affine_dx (absdet : nat -> R) (W : nat -> R) (e q : nat) : R := omul O (absdet e) (W q).

  (* exponents of a product of two monomials *)
  Fixpoint exp_add (a b : list nat) : list nat :=
    match a, b with x :: a', y :: b' => (x + y) :: exp_add a' b' | _, _ => [] end.
End Defs.
Arguments integrate {R}. Arguments measure {R}. Arguments mass_entry {R}. Arguments mass_total {R}.
Arguments affine_dx {R}.

Section Stiffness.
  Variable R : Type.
  Variable O : ops R.
  (* physical gradient = B^T * reference gradient with B = inverse Jacobian (B k m = d xi_k / d x_m):
     grad phi_i . grad phi_j at point q, for reference gradients gi k q = d_k phi_i (x_q) *)
  Definition gdot (d : nat) (B : nat -> nat -> R) (gi gj : nat -> nat -> R) (q : nat) : R :=
    rsum O (seq 0 d) (fun m => omul O (rsum O (seq 0 d) (fun k => omul O (B k m) (gi k q)))
                                      (rsum O (seq 0 d) (fun l => omul O (B l m) (gj l q)))).
  (* G = B B^T *)
  Definition gramB (d : nat) (B : nat -> nat -> R) (k l : nat) : R :=
    rsum O (seq 0 d) (fun m => omul O (B k m) (B l m)).
End Stiffness.
Arguments gdot {R}. Arguments gramB {R}.
