(* C15 — executable models of the long-lived state of scikit-fem (definitions only).

   * keys: what a cache guard compares, as a list of atoms (a Python tuple of hashable parts)
   * arrays as the caches see them: [arr] = (shape, dtype, raw bytes) for hash_args,
     [farr] = (shape, values) for the value-compared point arrays of ElementLinePp / ElementQuadP
   * the J-cache argument tuple of MappingIsoparametric.J
   * keyword dictionaries with Python's insertion-order update semantics and the small imperative
     language of the solver-factory closures (what is done to the CAPTURED dict on every call)
   * lazily initialised attributes (hasattr / is-None guarded), as a table checked by [lazy_ok]      *)
From Coq Require Import List Bool Arith ZArith.
Import ListNotations.
Require Import Base.Corr Base.C15_Memo.

(* ------------------------------------------------------------------ keys *)
Inductive katom :=
| KUnit                      (* no key at all: "already computed?" *)
| KNat (n : nat)             (* an int argument / a count such as X.shape[1] *)
| KId (o : nat)              (* identity of an object (is / is not) *)
| KShape (sh : list nat)     (* arr.shape *)
| KDtype (d : nat)           (* arr.dtype (code) *)
| KBytes (b : list nat)      (* arr.tobytes() *)
| KVals (v : list Z).        (* element-wise value comparison  (a != b).any() *)

Definition katom_eqb (x y : katom) : bool :=
  match x, y with
  | KUnit, KUnit => true
  | KNat a, KNat b => Nat.eqb a b
  | KId a, KId b => Nat.eqb a b
  | KShape a, KShape b => nats_eqb a b
  | KDtype a, KDtype b => Nat.eqb a b
  | KBytes a, KBytes b => nats_eqb a b
  | KVals a, KVals b => zs_eqb a b
  | _, _ => false
  end.

Definition key := list katom.            (* one hashable tuple *)
Definition key_eqb : key -> key -> bool := list_eqb katom_eqb.
Definition keys := list key.             (* hash_args: one hashed part per argument *)
Definition keys_eqb : keys -> keys -> bool := list_eqb key_eqb.

(* ------------------------------------------------------------------ arrays *)
Record arr := mkarr { a_shape : list nat; a_dtype : nat; a_bytes : list nat }.
Record farr := mkfarr { f_shape : list nat; f_vals : list Z }.

Definition shape_at (k : nat) (sh : list nat) : nat := nth k sh 0.
Definition prod (l : list nat) : nat := fold_right Nat.mul 1 l.
(* X[0, :]  (first row along axis 0): its shape and its values in C order *)
Definition row0 (X : farr) : farr := mkfarr (tl (f_shape X)) (firstn (prod (tl (f_shape X))) (f_vals X)).

(* ------------------------------------------------------------------ MappingIsoparametric.J(i, j, X, tind) *)
Inductive jarg := JInt (n : nat) | JArr (a : arr) | JNone.
Record jargs := mkj { j_i : nat; j_j : nat; j_X : arr; j_tind : option arr }.
Definition jarg_of_opt (o : option arr) : jarg := match o with Some a => JArr a | None => JNone end.
(* the formal parameters of J in order: positions 0..3 *)
Definition jparam (a : jargs) (pos : nat) : jarg :=
  match pos with 0 => JInt (j_i a) | 1 => JInt (j_j a) | 2 => JArr (j_X a) | _ => jarg_of_opt (j_tind a) end.

(* ------------------------------------------------------------------ keyword dictionaries (insertion ordered) *)
Definition dict := list (nat * Z).
Fixpoint dset (k : nat) (v : Z) (d : dict) : dict :=
  match d with
  | [] => [(k, v)]
  | (k', v') :: d' => if Nat.eqb k k' then (k, v) :: d' else (k', v') :: dset k v d'
  end.
(* a.update(b)  /  {**a, **b} *)
Definition dmerge (a b : dict) : dict := fold_left (fun acc kv => dset (fst kv) (snd kv) acc) b a.
Definition dmem (k : nat) (d : dict) : bool := existsb (fun e => Nat.eqb (fst e) k) d.
Definition dict_eqb : dict -> dict -> bool := list_eqb (pair_eqb Nat.eqb Z.eqb).

(* the closure body of a solver factory, reduced to what it does with dictionaries *)
Inductive dvar := VCap | VLoc.                       (* the captured dict / a local dict *)
Inductive dexp := ECap | EStk | ELoc | ELit (d : dict) | EMerge (a b : dexp).
Inductive stmt :=
| SUpdate (x : dvar) (e : dexp)      (* x.update(e) *)
| SAssign (e : dexp)                 (* loc = e *)
| SDefault (x : dvar) (k : nat).     (* if k not in x: x[k] = default_for(A) *)
Record prog := mkprog { p_body : list stmt; p_used : dexp }.   (* backend(A, b, **p_used) *)

Section Exec.
  Variable dflt : nat -> Z.            (* value supplied for a missing option; depends on the matrix A *)
  Variable stk : dict.                 (* solve-time keyword arguments of this call *)
  Variable A : nat.                    (* tag of the matrix argument *)
  Fixpoint evalx (e : dexp) (cap loc : dict) : dict :=
    match e with
    | ECap => cap | EStk => stk | ELoc => loc | ELit d => d
    | EMerge a b => dmerge (evalx a cap loc) (evalx b cap loc)
    end.
  Definition exec1 (s : stmt) (cl : dict * dict) : dict * dict :=
    let (cap, loc) := cl in
    match s with
    | SUpdate VCap e => (dmerge cap (evalx e cap loc), loc)
    | SUpdate VLoc e => (cap, dmerge loc (evalx e cap loc))
    | SAssign e => (cap, evalx e cap loc)
    | SDefault VCap k => (if dmem k cap then cap else dset k (dflt A) cap, loc)
    | SDefault VLoc k => (cap, if dmem k loc then loc else dset k (dflt A) loc)
    end.
  (* one call: new captured dict, and the options the backend receives *)
  Definition exec (p : prog) (cap : dict) : dict * dict :=
    let cl := fold_left (fun cl s => exec1 s cl) (p_body p) (cap, []) in
    (fst cl, evalx (p_used p) (fst cl) (snd cl)).
End Exec.

(* a history of calls (stk, A) on ONE closure whose captured dict starts as cap *)
Fixpoint run_closure (dflt : nat -> Z) (p : prog) (cap : dict) (h : list (dict * nat)) : list dict :=
  match h with
  | [] => []
  | (stk, A) :: h' => let r := exec dflt stk A p cap in snd r :: run_closure dflt p (fst r) h'
  end.

(* syntactic criterion: the body never writes the captured dict *)
Definition stmt_pure (s : stmt) : bool :=
  match s with SUpdate VCap _ | SDefault VCap _ => false | _ => true end.
Definition prog_pure (p : prog) : bool := forallb stmt_pure (p_body p).

(* ------------------------------------------------------------------ lazily initialised attributes *)
(* one guarded attribute:  if <guard on attr g>: <init>;  return self.<r>  *)
Record lazy := mklazy {
  l_guard : nat;            (* attribute tested by hasattr(self, g) / self.g is None *)
  l_ret : nat;              (* attribute returned *)
  l_stored : list nat;      (* attributes assigned by the guarded initialiser *)
  l_other_writers : nat;    (* number of stores to l_ret outside that initialiser (and outside __init__) *)
  l_uses_args : bool;       (* does the initialiser read a parameter other than self? *)
  l_reads_mutable : bool    (* does it read an attribute of self that is reassigned after construction? *)
}.
Definition lazy_ok (l : lazy) : bool :=
  existsb (Nat.eqb (l_guard l)) (l_stored l) && existsb (Nat.eqb (l_ret l)) (l_stored l)
  && Nat.eqb (l_other_writers l) 0 && negb (l_uses_args l) && negb (l_reads_mutable l).

(* ------------------------------------------------------------------ the automaton used by the correspondence:
   arguments are paired with their call number, compute returns that number, so the results say which
   call's value every call handed back (itself = computed now; smaller = served from the cache) *)
Definition origins {A : Type} (keyf : A -> keys) (evict : (nat * A) -> list (keys * nat) -> list (keys * nat))
           (h : list A) : list nat :=
  results keys_eqb (fun ia => keyf (snd ia)) (fun ia => fst ia) evict (combine (seq 0 (length h)) h).

Definition with_default (dflt : nat -> Z) (A k : nat) (d : dict) : dict :=
  if dmem k d then d else dset k (dflt A) d.

(* ------------------------------------------------------------------ the pool of long-lived objects
   Objects are identities (nat); what an object IS (a mesh's p and t, an element's degree, a mapping's mesh, a basis'
   mesh / element / quadrature) is fixed at construction, so anything computed "from the object" is a function of its
   identity.  (That the library never changes it afterwards is the store scan Gen.C15GenScan and the
   reads-mutable column of Gen.C15GenLazy.)  One operation = one access to a cached quantity. *)
Inductive op :=
| OpLazy (owner attr : nat)              (* mesh.facets / mapping.A / basis.element_dofs / ... : no argument *)
| OpLinePp (elem : nat) (X : farr)       (* ElementLinePp.lbasis(X, .) *)
| OpQuadP (elem : nat) (X : farr)        (* ElementQuadP.lbasis(X, .)  *)
| OpGlobal (elem mesh : nat)             (* ElementGlobal.gbasis(mapping of mesh, ...): the inverse Vandermonde V *)
| OpJ (mapping : nat) (a : jargs).       (* MappingIsoparametric.J(i, j, X, tind) *)

(* what the cached computation reads *)
Inductive deps :=
| DLazy (owner attr : nat)
| DLinePp (elem : nat) (r : farr)
| DQuadP (elem : nat) (r : farr)
| DGlobal (elem mesh : nat)
| DJ (mapping : nat) (l : list jarg).

Section Pool.
  Variables d_linepp d_quadp_ : farr -> farr.
  Variables key_linepp key_quadp : farr -> key.
  Variable key_global : nat -> key.
  Variable key_J : jargs -> keys.
  Variable dep_J : jargs -> list jarg.

  Definition pool_key (o : op) : keys :=
    match o with
    | OpLazy w a => [[KNat 0; KId w; KNat a]]
    | OpLinePp e X => [[KNat 1; KId e]; key_linepp X]
    | OpQuadP e X => [[KNat 2; KId e]; key_quadp X]
    | OpGlobal e m => [[KNat 3; KId e]; key_global m]
    | OpJ mp a => [KNat 4; KId mp] :: key_J a
    end.

  Definition pool_dep (o : op) : deps :=
    match o with
    | OpLazy w a => DLazy w a
    | OpLinePp e X => DLinePp e (d_linepp X)
    | OpQuadP e X => DQuadP e (d_quadp_ X)
    | OpGlobal e m => DGlobal e m
    | OpJ mp a => DJ mp (dep_J a)
    end.

  (* the tables of ElementLinePp / ElementQuadP / ElementGlobal are single slots per element object:
     a refresh replaces that object's entry; the J cache and the lazy attributes only grow *)
  Definition single_slot (o : op) : bool :=
    match o with OpLinePp _ _ | OpQuadP _ _ | OpGlobal _ _ => true | _ => false end.
  Definition pool_evict {V : Type} (o : op) (s : list (keys * V)) : list (keys * V) :=
    if single_slot o then drop_owner (fun o' k => key_eqb (hd [] (pool_key o')) (hd [] k)) o s else s.
End Pool.
