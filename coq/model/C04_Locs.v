(* C04 — DOF locations on the reference cell: executable checkers for the generated per-class data
   (Element.doflocs and the refdom tables, dumped by evaluation on every run). *)
From Coq Require Import List Arith ZArith QArith Bool.
Import ListNotations.
Local Open Scope nat_scope.

(* sum_i w_i * pts_i, componentwise, in dimension d *)
Definition comb (d : nat) (w : list Q) (pts : list (list Q)) : list Q :=
  map (fun j => fold_right Qplus 0%Q (map (fun wp => Qmult (fst wp) (nth j (snd wp) 0%Q)) (combine w pts))) (seq 0 d).

Fixpoint qs_eqb (a b : list Q) : bool :=
  match a, b with
  | [], [] => true
  | x :: a', y :: b' => Qeq_bool x y && qs_eqb a' b'
  | _, _ => false
  end.

Definition qsum (w : list Q) : Q := fold_right Qplus 0%Q w.

(* one local basis function (row of element_dofs): the local vertices of the entity it is numbered on, convex weights, location *)
Record lrow := mkLrow { lr_kind : nat;          (* 0 vertex, 1 edge, 2 facet, 3 interior *)
                        lr_slot : nat;          (* which vertex / edge / facet of the cell *)
                        lr_k : nat;             (* component *)
                        lr_verts : list nat;    (* local vertices of that entity (all cell vertices for interior rows) *)
                        lr_w : list Q; lr_x : list Q }.

(* x = sum w_i * refp[verts_i] with w >= 0, sum w = 1: the location lies ON the entity (for a vertex: it IS the vertex) *)
Definition row_on_entity (d : nat) (refp : list (list Q)) (r : lrow) : bool :=
  (length (lr_w r) =? length (lr_verts r)) && negb (length (lr_verts r) =? 0) &&
  forallb (fun q => Qle_bool 0%Q q) (lr_w r) && Qeq_bool (qsum (lr_w r)) 1%Q &&
  qs_eqb (comb d (lr_w r) (map (fun v => nth v refp []) (lr_verts r))) (lr_x r).

(* tensor cells (first-order map is multilinear): the weights are the Q1 shape functions of the entity's vertices at x *)
Definition q1_weight (vhat x : list Q) : Q :=
  fold_right Qmult 1%Q (map (fun vx => if Qeq_bool (fst vx) 1%Q then snd vx else Qminus 1%Q (snd vx)) (combine vhat x)).
Definition row_q1 (refp : list (list Q)) (r : lrow) : bool :=
  qs_eqb (lr_w r) (map (fun v => q1_weight (nth v refp []) (lr_x r)) (lr_verts r)).

(* symmetry certificates for DOFs on shared entities (kind 1, 2):
   sym 2: all weights of the row are equal (location = centroid: invariant under every local ordering);
   sym 1: rows of the same kind and component have the same weight list on every slot, and every slot lists its local vertices
          increasingly (invariant for cells whose local order is the global order: sorted simplices);
   sym 0: nothing claimed *)
(* literal equality of the (reduced) fractions the generator emits *)
Definition q_same (a b : Q) : bool := Z.eqb (Qnum a) (Qnum b) && Pos.eqb (Qden a) (Qden b).
Definition all_equal (w : list Q) : bool := match w with [] => true | a :: r => forallb (q_same a) r end.
Fixpoint increasing (l : list nat) : bool :=
  match l with a :: ((b :: _) as r) => (a <? b) && increasing r | _ => true end.

Record lclass := mkLclass { lc_dim : nat; lc_refp : list (list Q); lc_tensor : bool; lc_sym : nat; lc_rows : list lrow }.

Definition shared (r : lrow) : bool := (lr_kind r =? 1) || (lr_kind r =? 2).

Definition lclass_ok (c : lclass) : bool :=
  forallb (row_on_entity (lc_dim c) (lc_refp c)) (lc_rows c) &&
  (negb (lc_tensor c) || forallb (row_q1 (lc_refp c)) (lc_rows c)) &&
  match lc_sym c with
  | 2 => forallb (fun r => negb (shared r) || all_equal (lr_w r)) (lc_rows c)
  | 1 => forallb (fun r => negb (shared r) ||
                   (increasing (lr_verts r) &&
                    forallb (fun r' => negb ((lr_kind r' =? lr_kind r) && (lr_k r' =? lr_k r)) || qs_eqb (lr_w r') (lr_w r)) (lc_rows c)))
                 (lc_rows c)
  | _ => true
  end.
