(* C04 — executable model of skfem.assembly.dofs.Dofs.__init__ (dofs.py 261-334).
   2-D arrays are lists of ROWS as NumPy stores them. *)
From Coq Require Import List Arith Bool.
Import ListNotations.

(* np.reshape(np.arange(k * n), (k, n), order='F') + off :  entry [r][c] = r + k*c + off *)
Definition block (k n off : nat) : list (list nat) :=
  map (fun r => map (fun c => r + k * c + off) (seq 0 n)) (seq 0 k).

(* blk[:, idx] *)
Definition gather (blk : list (list nat)) (idx : list nat) : list (list nat) :=
  map (fun row => map (fun j => nth j row 0) idx) blk.

(* for itr in range(T.shape[0]): element_dofs = vstack((element_dofs, blk[:, T[itr]])) *)
Definition gather_rows (blk : list (list nat)) (T : list (list nat)) : list (list nat) :=
  flat_map (gather blk) T.

Record dofs := {
  D_nodal : list (list nat); D_edge : list (list nat); D_facet : list (list nat);
  D_interior : list (list nat); D_element : list (list nat); D_N : nat }.

(* dim = element.dim; nd ed fd id = element.{nodal,edge,facet,interior}_dofs; off = offset;
   nv ne nf nt = topo.{nvertices,nedges,nfacets,nelements}; t t2e t2f = topo.{t,t2e,t2f} (rows) *)
Definition dofs_init (dim nd ed fd id off nv ne nf nt : nat) (t t2e t2f : list (list nat)) : dofs :=
  let nodal := block nd nv off in
  let off1 := off + nd * nv in
  let ge := (dim =? 3) && (0 <? ed) in
  let edge := if ge then block ed ne off1 else [] in
  let off2 := if ge then off1 + ed * ne else off1 in
  let gf := 0 <? fd in
  let facet := if gf then block fd nf off2 else [] in
  let off3 := if gf then off2 + fd * nf else off2 in
  let interior := block id nt off3 in
  let e1 := gather_rows nodal t in
  let e2 := if (dim =? 3) && (0 <? ed) then e1 ++ gather_rows edge t2e else e1 in
  let e3 := if (2 <=? dim) && (0 <? fd) then e2 ++ gather_rows facet t2f else e2 in
  let e4 := e3 ++ interior in
  {| D_nodal := nodal; D_edge := edge; D_facet := facet; D_interior := interior;
     D_element := e4; D_N := list_max (concat e4) + 1 |}.

(* ---- the numbering as a code: (kind, entity, k) <-> number *)
Inductive kind := Nodal | Edge | Facet | Interior.

Definition kind_eqb (a b : kind) : bool :=
  match a, b with Nodal, Nodal | Edge, Edge | Facet, Facet | Interior, Interior => true | _, _ => false end.

(* effective counts (what the guards of the code leave) and entity counts per kind *)
Definition eff_ed (dim ed : nat) : nat := if (dim =? 3) && (0 <? ed) then ed else 0.

Definition cnt (dim nd ed fd id : nat) (kd : kind) : nat :=
  match kd with Nodal => nd | Edge => eff_ed dim ed | Facet => fd | Interior => id end.
Definition nent (nv ne nf nt : nat) (kd : kind) : nat :=
  match kd with Nodal => nv | Edge => ne | Facet => nf | Interior => nt end.
Definition koff (dim nd ed fd id off nv ne nf nt : nat) (kd : kind) : nat :=
  match kd with
  | Nodal => off
  | Edge => off + nd * nv
  | Facet => off + nd * nv + eff_ed dim ed * ne
  | Interior => off + nd * nv + eff_ed dim ed * ne + fd * nf
  end.

Definition encode (dim nd ed fd id off nv ne nf nt : nat) (kd : kind) (ent k : nat) : nat :=
  k + cnt dim nd ed fd id kd * ent + koff dim nd ed fd id off nv ne nf nt kd.

Definition total (dim nd ed fd id nv ne nf nt : nat) : nat :=
  nd * nv + eff_ed dim ed * ne + fd * nf + id * nt.

(* decode a number d (off <= d < off + total) back to (kind, entity, k) by comparisons and div/mod *)
Definition decode (dim nd ed fd id off nv ne nf nt : nat) (d : nat) : kind * nat * nat :=
  let o := koff dim nd ed fd id off nv ne nf nt in
  let c := cnt dim nd ed fd id in
  let kd := if d <? o Edge then Nodal else if d <? o Facet then Edge else if d <? o Interior then Facet else Interior in
  (kd, (d - o kd) / c kd, (d - o kd) mod c kd).

(* ---- AbstractBasis.__init__ (abstract_basis.py 61-73), one coordinate:
     for jtr in range(Nbfun): doflocs[element_dofs[jtr]] = X[:, jtr]      (fancy assignment, the last write wins) *)
Fixpoint set_nth {A} (k : nat) (v : A) (l : list A) : list A :=
  match l, k with
  | [], _ => []
  | _ :: r, 0 => v :: r
  | x :: r, S k' => x :: set_nth k' v r
  end.
Definition scatter_row {A} (tab : list A) (idx : list nat) (vals : list A) : list A :=
  fold_left (fun acc iv => set_nth (fst iv) (snd iv) acc) (combine idx vals) tab.
(* X : one row of mapped reference locations per local basis function (same shape as element_dofs) *)
Definition scatter_doflocs {A} (zero : A) (N : nat) (edofs : list (list nat)) (X : list (list A)) : list A :=
  fold_left (fun acc rx => scatter_row acc (fst rx) (snd rx)) (combine edofs X) (repeat zero N).
