(* Model of the threaded branch of BilinearForm._assemble (bilinear_form.py:100-119,153-161):
   pair list, numpy.array_split, workers writing data[j,i], schedules = interleavings. *)
From Coq Require Import List Arith Bool.
Import ListNotations.

(* ---------- numpy.array_split on lists: the first (L mod k) chunks have L/k+1 elements ---------- *)
Fixpoint split_sizes {A : Type} (szs : list nat) (l : list A) : list (list A) :=
  match szs with
  | [] => []
  | s :: rest => firstn s l :: split_sizes rest (skipn s l)
  end.

Definition sizes (L k : nat) : list nat :=
  map (fun c => L / k + (if c <? L mod k then 1 else 0)) (seq 0 k).

Definition array_split {A} (k : nat) (l : list A) : list (list A) :=
  split_sizes (sizes (length l) k) l.

(* ---------- [[i, j] for j, i in product(range(Nu), range(Nv))] ---------- *)
Definition pairs (Nu Nv : nat) : list (nat * nat) :=
  flat_map (fun j => map (fun i => (i, j)) (seq 0 Nv)) (seq 0 Nu).

(* ---------- the output array data[Nu, Nv] as a store; one kernel call = one write ---------- *)
Section Store.
  Variable V : Type.
  Definition slot := (nat * nat)%type.
  Definition slot_eqb (a b : slot) := Nat.eqb (fst a) (fst b) && Nat.eqb (snd a) (snd b).
  Definition store := slot -> option V.
  Definition empty : store := fun _ => None.
  Definition write (s : store) (w : slot * V) : store :=
    fun x => if slot_eqb x (fst w) then Some (snd w) else s x.
  Definition run (ws : list (slot * V)) (s : store) : store := fold_left write ws s.

  (* kernel K j i  (trial index j, test index i) *)
  Variable K : nat -> nat -> V.
  (* what a worker does with the pair (i, j): data[j, i] = kernel(ubasis[j], vbasis[i]) *)
  Definition step (ij : nat * nat) : slot * V := ((snd ij, fst ij), K (snd ij) (fst ij)).

  (* serial branch: for j in range(Nu): for i in range(Nv): data[j, i, :] = kernel(u[j], v[i]) *)
  Definition serial_steps (Nu Nv : nat) : list (slot * V) :=
    flat_map (fun j => map (fun i => ((j, i), K j i)) (seq 0 Nv)) (seq 0 Nu).

  Definition worker_steps (k Nu Nv : nat) : list (list (slot * V)) :=
    map (map step) (array_split k (pairs Nu Nv)).

  (* data.flatten('C') : row-major read-out of the Nu x Nv slots *)
  Definition flatten (Nu Nv : nat) (s : store) : list (option V) :=
    flat_map (fun j => map (fun i => s (j, i)) (seq 0 Nv)) (seq 0 Nu).
End Store.

Arguments write {V}. Arguments run {V}. Arguments empty {V}. Arguments step {V}.
Arguments serial_steps {V}. Arguments worker_steps {V}. Arguments flatten {V}.

(* a trace is an interleaving of the workers' step lists: repeatedly some worker with
   remaining work performs its next step *)
Inductive interleaving {X : Type} : list (list X) -> list X -> Prop :=
| il_done : forall ws, Forall (fun w => w = []) ws -> interleaving ws []
| il_step : forall pre x w post tr,
    interleaving (pre ++ w :: post) tr -> interleaving (pre ++ (x :: w) :: post) (x :: tr).

(* executable scheduler used by the correspondence: a schedule is the list of worker numbers
   taking the successive steps; None if it names a finished/absent worker or leaves work undone *)
Fixpoint pop_nth {X} (n : nat) (ws : list (list X)) : option (X * list (list X)) :=
  match ws, n with
  | [], _ => None
  | w :: rest, 0 => match w with [] => None | x :: w' => Some (x, w' :: rest) end
  | w :: rest, S n' => match pop_nth n' rest with
                       | None => None | Some (x, rest') => Some (x, w :: rest') end
  end.

Fixpoint run_schedule {X} (sched : list nat) (ws : list (list X)) : option (list X) :=
  match sched with
  | [] => if forallb (fun w => match w with [] => true | _ => false end) ws then Some [] else None
  | n :: sched' => match pop_nth n ws with
                   | None => None
                   | Some (x, ws') => match run_schedule sched' ws' with
                                      | None => None | Some tr => Some (x :: tr) end
                   end
  end.

(* ---------- failing kernel calls (an integrand that raises) ----------
   K j i = None models a kernel invocation that raises.  Serial assembly raises iff some pair raises.  A worker
   stops at the first raising pair of its chunk and records the exception; after all workers are joined the
   assembler raises iff some exception was recorded. *)
Section Raising.
  Variable V : Type.
  Variable K : nat -> nat -> option V.
  Definition pair_raises (ij : nat * nat) : bool := match K (snd ij) (fst ij) with None => true | Some _ => false end.
  Definition serial_raises (Nu Nv : nat) : bool := existsb pair_raises (pairs Nu Nv).
  Definition threaded_raises (k Nu Nv : nat) : bool := existsb (existsb pair_raises) (array_split k (pairs Nu Nv)).
End Raising.
Arguments pair_raises {V}. Arguments serial_raises {V}. Arguments threaded_raises {V}.
