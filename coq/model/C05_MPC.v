(* C05 — executable model of skfem.utils.mpc (multipoint constraints  x[S] = T x[M] + g) in the sparse-row
   representation of Model.C05_BC: block extraction, sparse product and sum (duplicates are kept; the dense semantics
   sums them, as scipy does), bmat, the reduced right-hand side, and the expansion used by solve_linear. *)
From Coq Require Import List ZArith Bool Arith.
Import ListNotations.
Require Import Base.C05_Np Model.C05_BC.

Section MPC.
  Context {R : Type} (o : ring_ops R).
  Local Notation row := (list (nat * R)).
  Local Notation mat := (list (list (nat * R))).
  Local Notation vec := (list R).

  (* ---- sparse algebra on rows *)
  Definition shift_cols (k : nat) (r : row) : row := map (fun cv => (k + fst cv, snd cv)) r.
  (* one row of  A @ T : sum over the stored (p, v) of v * (row p of T) *)
  Definition row_times (r : row) (T : mat) : row :=
    flat_map (fun cv => map (fun ct => (fst ct, rmul o (snd cv) (snd ct))) (mrow T (fst cv))) r.
  Definition mmul (A T : mat) : mat := map (fun r => row_times r T) A.
  Definition madd (A B : mat) : mat := map2 (fun a b => a ++ b) A B.
  (* bmat([[A, B]]) with A having w columns;  bmat([[A], [C]]) *)
  Definition mhstack (w : nat) (A B : mat) : mat := map2 (fun a b => a ++ shift_cols w b) A B.
  Definition mvstack (A C : mat) : mat := A ++ C.
  Definition vadd (a b : vec) : vec := map2 (radd o) a b.

  (* ---- mpc *)
  Definition mpc_U (n : nat) (M S : list nat) : list nat := complement n (M ++ S).
  Definition mpc_B (A T : mat) (U M S : list nat) : mat :=
    mvstack (mhstack (length U) (msel_cols (msel_rows A U) U)
                     (madd (msel_cols (msel_rows A U) M) (mmul (msel_cols (msel_rows A U) S) T)))
            (mhstack (length U) (msel_cols (msel_rows A M) U)
                     (madd (msel_cols (msel_rows A M) M) (mmul (msel_cols (msel_rows A M) S) T))).
  Definition mpc_y (A : mat) (b g : vec) (U M S : list nat) : vec :=
    vsub o (vsel o b U) (matvec o (msel_cols (msel_rows A U) S) g) ++
    vsub o (vsel o b M) (matvec o (msel_cols (msel_rows A M) S) g).
  Definition mpc_perm (U M S : list nat) : list nat := U ++ M ++ S.
  (* lambda x: np.concatenate((x, T @ x[len(U):] + g)) *)
  Definition mpc_expand (T : mat) (g : vec) (nU : nat) (u : vec) : vec := u ++ vadd (matvec o T (skipn nU u)) g.
  (* np.add.at(y, idx, vals) *)
  Definition vadd_at (y : vec) (idx : list nat) (vals : vec) : vec :=
    fold_left (fun acc iv => upd acc (fst iv) (radd o (vnth o acc (fst iv)) (snd iv))) (combine idx vals) y.
  (* solve_linear with I = (perm, expansion): y = x.copy(); np.add.at(y, perm, expansion(z)) *)
  Definition expand_tuple (x : vec) (perm : list nat) (f : vec -> vec) (z : vec) : vec := vadd_at x perm (f z).

  (* the whole call; S, M absent = empty; T absent = identity pattern eye(|S|, |M|); g absent = zeros *)
  Definition eye (rows cols : nat) : mat := map (fun i => if i <? cols then [(i, r1 o)] else []) (seq 0 rows).
  Definition mpc_call (A : mat) (b : vec) (S M : option (list nat)) (T : option mat) (g : option vec)
    : mat * vec * vec * list nat :=
    let M' := match M with Some m => m | None => [] end in
    let S' := match S with Some s => s | None => [] end in
    let U := mpc_U (length A) M' S' in
    let T' := match T with Some t => t | None => eye (length S') (length M') end in
    let g' := match g with Some v => v | None => repeat (r0 o) (length S') end in
    (mpc_B A T' U M' S', mpc_y A b g' U M' S', map (fun _ => r0 o) b, mpc_perm U M' S').
  Definition mpc_solution (A : mat) (b : vec) (S M : list nat) (T : mat) (g : vec) (z : vec) : vec :=
    let U := mpc_U (length A) M S in
    expand_tuple (map (fun _ => r0 o) b) (mpc_perm U M S) (mpc_expand T g (length U)) z.
End MPC.
