(* C14 — executable models (definitions only):
   * the element finder of MeshTri1 / MeshTet1: candidates first, exhaustive pass otherwise, error if a point has no
     cell; vectorised over a batch of points exactly like the code (one candidate list for the whole batch; if ANY
     point misses, ALL points are redone exhaustively)
   * finders of quadrilateral / hexahedral / prismatic meshes: simplex finder on the split mesh, modulo nt
   * the 1-D finder of MeshLine1 (digitize on the sorted vertices)
   * the index plumbing of CellBasis.probes (rows / cols / data of the COO matrix) and its action on a vector      *)
From Coq Require Import List Bool Arith QArith.
Import ListNotations.
Local Open Scope nat_scope.

(* ------------------------------------------------------------------ generic finder *)
Fixpoint all_some {A : Type} (l : list (option A)) : option (list A) :=
  match l with
  | [] => Some []
  | None :: _ => None
  | Some a :: t => match all_some t with Some r => Some (a :: r) | None => None end
  end.

Section Finder.
  Variable P : Type.                       (* points *)
  Variable inside : nat -> P -> bool.      (* does cell c pass the inside test for the point? *)
  Variable nt : nat.                       (* number of cells *)

  (* ix[inside.argmax(axis=0)]: the first listed cell that passes *)
  Definition first_inside (cs : list nat) (x : P) : option nat := find (fun c => inside c x) cs.
  Definition locate (cs : list nat) (xs : list P) : option (list nat) := all_some (map (first_inside cs) xs).

  (* finder(x, y): candidates cand (whatever the KD-tree returned for this batch); if some point has no passing
     candidate, everything is redone with ix = arange(nt); None = ValueError("Point is outside of the mesh.") *)
  Definition finder (cand : list nat) (xs : list P) : option (list nat) :=
    match locate cand xs with
    | Some r => Some r
    | None => locate (seq 0 nt) xs
    end.
End Finder.

Arguments first_inside {P}. Arguments locate {P}. Arguments finder {P}.

(* inside test from barycentric-type coordinates and an absolute slack eps: every coordinate >= -eps *)
Definition inside_of (eps : Q) (coords : list Q) : bool := forallb (fun l => Qle_bool (- eps)%Q l) coords.

(* quadrilateral / hexahedron / prism: finder of the split simplicial mesh (s * nt simplices laid out block after
   block by np.hstack), result modulo nt *)
Definition split_finder {P : Type} (inside : nat -> P -> bool) (nsimp nt : nat) (cand : list nat) (xs : list P)
  : option (list nat) :=
  match finder inside nsimp cand xs with
  | Some r => Some (map (fun k => k mod nt) r)
  | None => None
  end.

(* np.hstack((t[rows_0], t[rows_1], ...)): column k of the result is column (k mod nt) of block (k / nt) *)
Definition hstack_cols {A : Type} (blocks : list (list A)) : list A := concat blocks.

(* ------------------------------------------------------------------ 1-D finder (MeshLine1.element_finder)
   lefts / rights: the end points of the cells, cells sorted by their left end (ends = sort(p[0, t], axis=0);
   ix = argsort(ends[0])); ixs: the cell numbers in that order.
   k = searchsorted(left, x, side='right') - 1 = (number of left ends <= x) - 1; error if k < 0 or x > right[k] *)
Definition digitize (ps : list Q) (x : Q) : nat := length (filter (fun p => Qle_bool p x) ps).

Definition line_finder1 (lefts rights : list Q) (ixs : list nat) (x : Q) : option nat :=
  match digitize lefts x with
  | O => None
  | S k => if Qle_bool x (nth k rights 0%Q) then nth_error ixs k else None
  end.

(* the whole batch: an error for one point is an error for the call *)
Definition line_finder (lefts rights : list Q) (ixs : list nat) (xs : list Q) : option (list nat) :=
  all_some (map (line_finder1 lefts rights ixs) xs).

(* ------------------------------------------------------------------ CellBasis.probes *)
Definition arange (n : nat) : list nat := seq 0 n.
Fixpoint tile {A : Type} (l : list A) (n : nat) : list A :=
  match n with 0 => [] | S n' => l ++ tile l n' end.
Definition gather {A : Type} (d : A) (row : list A) (idx : list nat) : list A := map (fun i => nth i row d) idx.
(* a[:, idx].flatten() for a 2-D array given as its rows *)
Definition cols_flat (a : list (list nat)) (idx : list nat) : list nat := concat (map (fun row => gather 0 row idx) a).

(* action of a COO matrix (duplicates are summed) on a vector, row r *)
Fixpoint coo_apply (rows cols : list nat) (vals : list Q) (y : nat -> Q) (r : nat) : Q :=
  match rows, cols, vals with
  | i :: rows', j :: cols', v :: vals' =>
      ((if Nat.eqb i r then v * y j else 0) + coo_apply rows' cols' vals' y r)%Q
  | _, _, _ => 0%Q
  end.

(* np.array([gbasis(k)[0] for k in range(Nbfun)]).flatten(): C order over (k, component, point) *)
Definition phis_flat (Nbfun comp npts : nat) (phi : nat -> nat -> nat -> Q) : list Q :=
  flat_map (fun k => flat_map (fun c => map (fun p => phi k c p) (seq 0 npts)) (seq 0 comp)) (seq 0 Nbfun).

Fixpoint qsum (l : list Q) : Q := match l with [] => 0%Q | x :: t => (x + qsum t)%Q end.

(* ------------------------------------------------------------------ certificates for the simplex splits of the
   reference quadrilateral / hexahedron / prism (refp: row = coordinate, column = local vertex) *)
Definition vcoord (refp : list (list Q)) (i k : nat) : Q := nth k (nth i refp []) 0%Q.
Definition edge (refp : list (list Q)) (sel : list nat) (i j : nat) : Q :=
  (vcoord refp i (nth (S j) sel 0%nat) - vcoord refp i (nth 0%nat sel 0%nat))%Q.
Definition simplex_det (refp : list (list Q)) (sel : list nat) : Q :=
  let a := edge refp sel in
  match length refp with
  | 2 => (a 0%nat 0%nat * a 1%nat 1%nat - a 0%nat 1%nat * a 1%nat 0%nat)%Q
  | 3 => (a 0%nat 0%nat * (a 1%nat 1%nat * a 2%nat 2%nat - a 1%nat 2%nat * a 2%nat 1%nat)
          - a 0%nat 1%nat * (a 1%nat 0%nat * a 2%nat 2%nat - a 1%nat 2%nat * a 2%nat 0%nat)
          + a 0%nat 2%nat * (a 1%nat 0%nat * a 2%nat 1%nat - a 1%nat 1%nat * a 2%nat 0%nat))%Q
  | _ => 0%Q
  end.
Definition Qabs' (q : Q) : Q := if Qle_bool 0 q then q else (- q)%Q.
Definition split_ok (refp : list (list Q)) (sels : list (list nat)) (nverts : nat) (dfact_vol : Q) : bool :=
  forallb (fun sel => Nat.eqb (length sel) (S (length refp)) && forallb (fun k => k <? nverts) sel) sels
  && forallb (fun sel => negb (Qeq_bool (simplex_det refp sel) 0)) sels
  && Qeq_bool (qsum (map (fun sel => Qabs' (simplex_det refp sel)) sels)) dfact_vol.

(* a separating functional for two simplices of a split: n.v <= c on the first, n.v >= c on the second *)
Definition qdot (n : list Q) (refp : list (list Q)) (k : nat) : Q :=
  qsum (map (fun ic => (fst ic * vcoord refp (snd ic) k)%Q) (combine n (seq 0 (length n)))).
Definition sep_ok (refp : list (list Q)) (s1 s2 : list nat) (n : list Q) (c : Q) : bool :=
  forallb (fun k => Qle_bool (qdot n refp k) c) s1 && forallb (fun k => Qle_bool c (qdot n refp k)) s2.
(* every pair i < j of simplices has a certificate (i, j, n, c) in the list *)
Definition all_pairs_separated (refp : list (list Q)) (sels : list (list nat)) (certs : list (nat * nat * list Q * Q)) : bool :=
  forallb (fun i => forallb (fun j =>
     if i <? j then existsb (fun cert => let '(a, b, n, c) := cert in
                               Nat.eqb a i && Nat.eqb b j && sep_ok refp (nth i sels []) (nth j sels []) n c) certs
     else true) (seq 0 (length sels))) (seq 0 (length sels)).

(* ------------------------------------------------------------------ probes on a basis restricted to the cells tind
   columns = -1 everywhere; columns[tind] = arange(len(tind)); cells = columns[cells]; error if some entry is < 0 *)
Fixpoint set_nth {A : Type} (n : nat) (v : A) (l : list A) : list A :=
  match l, n with
  | [], _ => []
  | _ :: t, O => v :: t
  | a :: t, S n' => a :: set_nth n' v t
  end.
(* fancy-index assignment with an arange right-hand side: later positions overwrite earlier ones *)
Definition col_table (nelems : nat) (tind : list nat) : list (option nat) :=
  fold_left (fun tab jc => set_nth (snd jc) (Some (fst jc)) tab) (combine (seq 0 (length tind)) tind) (repeat None nelems).
Definition restrict_cells (nelems : nat) (tind : option (list nat)) (cells : list nat) : option (list nat) :=
  match tind with
  | None => Some cells
  | Some ti => all_some (map (fun c => nth c (col_table nelems ti) None) cells)
  end.
(* the dof table of the restricted basis: element_dofs[:, tind] *)
Definition restrict_edofs (edofs : list (list nat)) (tind : list nat) : list (list nat) := map (fun row => gather 0 row tind) edofs.
