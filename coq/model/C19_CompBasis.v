(* C19 — executable model of CompositeBasis (skfem/assembly/basis/composite_basis.py): `basis0 * basis1 * ...`
   element_dofs = vstack(basis_n.element_dofs + offset_n), offset_n = N_0 + ... + N_{n-1} (0 with equal_dofnum);
   basis functions: for n, for j: the tuple with basis_n's function j in slot n and zeros of the slot's own component elsewhere;
   dx, nelems, quadrature from the first basis; the constructor rejects different numbers of quadrature points / elements. *)
From Coq Require Import List Arith Bool.
Import ListNotations.
Require Import Model.C01_Assembly.

Section CompBasis.
  Variable R : Type.
  Variables V VC : Type.
  Variable inj : nat -> V -> VC.          (* (0, ..., x in slot n, ..., 0) *)

  Definition cb_offset (b0 : basis R V) (bs : list (basis R V)) (equal_dofnum : bool) (n : nat) : nat :=
    if equal_dofnum then 0 else fold_right Nat.add 0 (map (fun k => bN (nth k bs b0)) (seq 0 n)).

  Definition cb_edofs (b0 : basis R V) (bs : list (basis R V)) (eq : bool) : list (list nat) :=
    flat_map (fun n => map (map (Nat.add (cb_offset b0 bs eq n))) (bedofs (nth n bs b0))) (seq 0 (length bs)).

  (* the list `bases` built by the double loop: (component, local index) *)
  Definition cb_funs (b0 : basis R V) (bs : list (basis R V)) : list (nat * nat) :=
    flat_map (fun n => map (fun j => (n, j)) (seq 0 (bNbfun (nth n bs b0)))) (seq 0 (length bs)).

  Definition cb_N (b0 : basis R V) (bs : list (basis R V)) (eq : bool) : nat :=
    if eq then bN b0 else fold_right Nat.add 0 (map (@bN R V) bs).
  Definition cb_Nbfun (bs : list (basis R V)) : nat := fold_right Nat.add 0 (map (@bNbfun R V) bs).

  (* CompositeBasis of the bases b0 :: rest *)
  Definition composite_basis (b0 : basis R V) (rest : list (basis R V)) (eq : bool) : option (basis R VC) :=
    let bs := b0 :: rest in
    if forallb (fun b => (bnq b =? bnq b0) && (bnelems b =? bnelems b0)) bs then
      Some (mkBasis (cb_N b0 bs eq) (cb_Nbfun bs) (bnelems b0) (bnq b0) (cb_edofs b0 bs eq)
                    (fun i e q => let '(n, j) := nth i (cb_funs b0 bs) (0, 0) in inj n (bB (nth n bs b0) j e q))
                    (bdx b0))
    else None.                       (* ValueError *)
End CompBasis.
