(* C05 — model of the dispatch wrappers skfem.utils.solve / solve_linear / solve_eigen: which solver is called with which
   arguments, and how the (x, I) pair returned by condense / mpc is used to expand the solver's result.  The solvers
   themselves are parameters (any functions). *)
From Coq Require Import List ZArith Bool Arith.
Import ListNotations.
Require Import Base.C05_Np Model.C05_BC Model.C05_MPC.

Section Solve.
  Context {R : Type} (o : ring_ops R).
  Local Notation vec := (list R).
  Local Notation mat := (list (list (nat * R))).
  (* the second argument of solve: a vector, a sparse matrix (generalized eigenproblem) or anything else *)
  Inductive rhs := RVec (b : vec) | RMat (B : mat) | ROther.
  (* the fourth argument: an index array, or the (indices, expansion) pair that mpc returns *)
  Inductive iarg := IArr (l : list nat) | ITup (perm : list nat) (f : vec -> vec).
  Inductive sol := SVec (y : vec) | SEig (L : vec) (Y : list vec).

  Definition solve_linear_model (lin : mat -> vec -> vec) (A : mat) (b : vec) (x : option vec) (I : option iarg) : vec :=
    match x, I with
    | Some x', Some (IArr l) => expand x' l (lin A b)
    | Some x', Some (ITup perm f) => expand_tuple o x' perm f (lin A b)
    | _, _ => lin A b
    end.
  Definition solve_eigen_model (eig : mat -> mat -> vec * list vec) (A M : mat) (x : option vec) (I : option iarg) : vec * list vec :=
    match x, I with
    | Some x', Some (IArr l) => (fst (eig A M), expand_eig x' l (snd (eig A M)))
    | Some x', Some (ITup perm f) => (fst (eig A M), map (expand_tuple o x' perm f) (snd (eig A M)))
    | _, _ => eig A M
    end.
  Definition solve_model (lin : mat -> vec -> vec) (eig : mat -> mat -> vec * list vec)
             (A : mat) (b : rhs) (x : option vec) (I : option iarg) : option sol :=
    match b with
    | RMat B => Some (SEig (fst (solve_eigen_model eig A B x I)) (snd (solve_eigen_model eig A B x I)))
    | RVec v => Some (SVec (solve_linear_model lin A v x I))
    | ROther => None
    end.
End Solve.
Arguments RVec {R}. Arguments RMat {R}. Arguments ROther {R}. Arguments IArr {R}. Arguments ITup {R}. Arguments SVec {R}. Arguments SEig {R}.
