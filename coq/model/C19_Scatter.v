(* C19 — COOData.tolocal(basis=facet_basis): out = zeros(nfacets); out[basis.find] = local; local = np.sum(out[mesh.t2f], axis=0) *)
From Coq Require Import List Arith Bool.
Import ListNotations.
Require Import Model.C19_Blocks.

Section Scatter.
  Variable A : Type.
  Variables (zero : A) (add : A -> A -> A).

  (* out[idx] = vals: NumPy assigns in order, for a repeated index the last value stays *)
  Definition scatter_set (idx : list nat) (vals : list A) (out : list A) : list A :=
    fold_left (fun o kv => set_nth (fst kv) (snd kv) o) (combine idx vals) out.

  Definition facet_sum (nfacets ncells : nat) (find : list nat) (local : list A) (t2f : list (list nat)) : list A :=
    let out := scatter_set find local (repeat zero nfacets) in
    map (fun e => fold_right add zero (map (fun row => nth (nth e row 0) out zero) t2f)) (seq 0 ncells).
End Scatter.
