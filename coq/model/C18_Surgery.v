(* C18 — model of the index plumbing of mesh surgery in skfem/mesh/mesh.py:
     Mesh._reix (1111-1121), Mesh.restrict (1146-1207: subdomain and boundary retagging), remove_elements,
     the hstack layout of to_meshtri / to_meshtet and their subdomain carry-over, extrusion (mesh_tri_1.py).
   Executable definitions only; arrays are lists, matrices are lists of rows. *)
From Coq Require Import List Arith Bool ZArith Lia.
Import ListNotations.
Require Import Base.Corr.

Definition mat (A : Type) := list (list A).
Definition gather {A} (d : A) (a : list A) (ix : list nat) : list A := map (fun i => nth i a d) ix.
Definition memb (v : nat) (l : list nat) : bool := existsb (Nat.eqb v) l.

(* np.unique of an index array: the values that occur, increasing *)
Definition unique_nat (l : list nat) : list nat := filter (fun v => memb v l) (seq 0 (S (list_max l))).

(* np.intersect1d *)
Definition intersect1d (a b : list nat) : list nat := filter (fun v => memb v b) (unique_nat a).

(* np.setdiff1d(np.arange(n), b) *)
Definition setdiff_range (n : nat) (b : list nat) : list nat := filter (fun v => negb (memb v b)) (seq 0 n).

(* a[idx] = vals on a copy (idx duplicate-free in all uses; later writes win otherwise) *)
Fixpoint set_nth {A} (i : nat) (v : A) (l : list A) : list A :=
  match l, i with
  | [], _ => []
  | _ :: l', 0 => v :: l'
  | x :: l', S i' => x :: set_nth i' v l'
  end.
Definition scatter {A} (idx : list nat) (vals : list A) (arr : list A) : list A :=
  fold_left (fun a iv => set_nth (fst iv) (snd iv) a) (combine idx vals) arr.

(* ---- Mesh._reix:  ixuniq = np.unique(ix); t = zeros(max(ix)+1); t[ixuniq] = arange(len(ixuniq));
        return p[:, ixuniq], t[ix], ixuniq *)
Definition reix_uniq (ix : mat nat) : list nat := unique_nat (concat ix).
Definition reix_table (ix : mat nat) : list nat :=
  let u := reix_uniq ix in scatter u (seq 0 (length u)) (repeat 0 (S (list_max (concat ix)))).
Definition reix_t (ix : mat nat) : mat nat := map (map (fun v => nth v (reix_table ix) 0)) ix.
Definition reix_p {P} (d : P) (p : list P) (ix : mat nat) : list P := gather d p (reix_uniq ix).

(* self.t[:, elements] *)
Definition take_cols {A} (d : A) (t : mat A) (elements : list nat) : mat A := map (fun row => gather d row elements) t.

(* ---- Mesh.restrict, subdomains:  newt = -1; newt[elements] = arange; newt[intersect1d(sub, elements)] *)
Definition restrict_subdomain (nt : nat) (elements sub : list nat) : list Z :=
  let newt := scatter elements (map Z.of_nat (seq 0 (length elements))) (repeat (- 1)%Z nt) in
  map (fun c => nth c newt (- 1)%Z) (intersect1d sub elements).

(* ---- Mesh.restrict, boundaries:  facets = unique(t2f[:, elements]); newf = -1; newf[facets] = arange;
        v = newf[boundary]; v[v >= 0] *)
Definition kept_facets (t2f : mat nat) (elements : list nat) : list nat := unique_nat (concat (take_cols 0 t2f elements)).
Definition restrict_boundary (nf : nat) (t2f : mat nat) (elements b : list nat) : list Z :=
  let facets := kept_facets t2f elements in
  let newf := scatter facets (map Z.of_nat (seq 0 (length facets))) (repeat (- 1)%Z nf) in
  filter (fun v => (0 <=? v)%Z) (map (fun f => nth f newf (- 1)%Z) b).

(* position of v in l (length l if absent) *)
Fixpoint index_of (v : nat) (l : list nat) : nat :=
  match l with
  | [] => 0
  | x :: l' => if v =? x then 0 else S (index_of v l')
  end.

(* facets of the restricted mesh as predicted from the old table: kept columns, vertices relabelled *)
Definition relabel_facets (facets : mat nat) (kept : list nat) (table : list nat) : mat nat :=
  map (fun k => map (fun v => nth v table 0) (nth k facets [])) kept.

(* lexicographic order on index tuples (columns of the facet table) *)
Fixpoint lex_ltb (a b : list nat) : bool :=
  match a, b with
  | [], [] => false
  | [], _ :: _ => true
  | _ :: _, [] => false
  | x :: a', y :: b' => (x <? y) || ((x =? y) && lex_ltb a' b')
  end.

(* ---- splitting: np.hstack((t[T0], t[T1], ...)) for row templates T_j; optional extra row (centre node) *)
Definition split_rows (t : mat nat) (templates : mat nat) : mat nat :=
  (* row i of the result: concat over children j of row templates[j][i] of t *)
  match templates with
  | [] => []
  | T0 :: _ => map (fun i => concat (map (fun T => nth (nth i T 0) t []) templates)) (seq 0 (length T0))
  end.

(* tnew = arange(nv, nv + nt) repeated under every child *)
Definition centre_row (nv nt nchild : nat) : list nat := concat (repeat (seq nv nt) nchild).

(* np.concatenate((v, v + nt, v + 2 nt, ...)) *)
Definition split_subdomain (nt nchild : nat) (s : list nat) : list nat :=
  concat (map (fun j => map (fun v => v + j * nt) s) (seq 0 nchild)).

(* np.sort(t, axis=0) of MeshTri1.__post_init__ *)
Fixpoint insert_nat (x : nat) (l : list nat) : list nat :=
  match l with
  | [] => [x]
  | y :: l' => if x <=? y then x :: l else y :: insert_nat x l'
  end.
Definition sort_nat (l : list nat) : list nat := fold_right insert_nat [] l.
Definition transpose {A} (d : A) (ncols : nat) (m : mat A) : mat A :=
  map (fun c => map (fun row => nth c row d) m) (seq 0 ncols).
Definition sort_cols (ncols : nat) (t : mat nat) : mat nat :=
  let cols := map sort_nat (transpose 0 ncols t) in
  transpose 0 (length t) cols.

(* ---- extrusion MeshTri1 * MeshLine1: layer l holds the vertices v + l*nv; prism k + l*nt *)
Definition extrude_t (nv nlayers : nat) (t : mat nat) : mat nat :=
  let blocks := map (fun l => map (map (fun v => v + l * nv)) t ++ map (map (fun v => v + nv + l * nv)) t)
                    (seq 0 (nlayers - 1)) in
  map (fun i => concat (map (fun blk => nth i blk []) blocks)) (seq 0 (2 * length t)).

(* ---- exact determinants of simplices over Z (polynomial identities over Z hold in every commutative ring) *)
Local Open Scope Z_scope.
Definition pt2 := (Z * Z)%type.
Definition pt3 := (Z * Z * Z)%type.
Definition det2 (a b : pt2) : Z := fst a * snd b - snd a * fst b.
Definition sub2 (a b : pt2) : pt2 := (fst a - fst b, snd a - snd b).
Definition x3 (a : pt3) := fst (fst a).
Definition y3 (a : pt3) := snd (fst a).
Definition z3 (a : pt3) := snd a.
Definition sub3 (a b : pt3) : pt3 := (x3 a - x3 b, y3 a - y3 b, z3 a - z3 b).
Definition det3 (a b c : pt3) : Z :=
  x3 a * (y3 b * z3 c - z3 b * y3 c) - y3 a * (x3 b * z3 c - z3 b * x3 c) + z3 a * (x3 b * y3 c - y3 b * x3 c).

(* twice the signed area of the triangle / six times the signed volume of the tetrahedron with the vertices
   numbered T in the point table P *)
Definition tri_det (P : list pt2) (T : list nat) : Z :=
  let v i := nth (nth i T 0%nat) P (0, 0) in det2 (sub2 (v 1%nat) (v 0%nat)) (sub2 (v 2%nat) (v 0%nat)).
Definition tet_det (P : list pt3) (T : list nat) : Z :=
  let v i := nth (nth i T 0%nat) P (0, 0, 0) in
  det3 (sub3 (v 1%nat) (v 0%nat)) (sub3 (v 2%nat) (v 0%nat)) (sub3 (v 3%nat) (v 0%nat)).
(* twice the signed area of the polygon P (shoelace) *)
Definition shoelace4 (P : list pt2) : Z :=
  let v i := nth i P (0, 0) in det2 (v 0%nat) (v 1%nat) + det2 (v 1%nat) (v 2%nat) + det2 (v 2%nat) (v 3%nat) + det2 (v 3%nat) (v 0%nat).
Definition zsum (l : list Z) : Z := fold_right Z.add 0 l.

(* image of reference points (integer coordinates) under x -> o + A x, A given by its columns *)
Definition affine3 (o c1 c2 c3 : pt3) (r : pt3) : pt3 :=
  (x3 o + x3 c1 * x3 r + x3 c2 * y3 r + x3 c3 * z3 r,
   y3 o + y3 c1 * x3 r + y3 c2 * y3 r + y3 c3 * z3 r,
   z3 o + z3 c1 * x3 r + z3 c2 * y3 r + z3 c3 * z3 r).

(* ---- conformity certificate of a split of a reference cell into tetrahedra (executable, for finite checks):
   every triangular face of a child is either shared by exactly two children, or belongs to exactly one child and
   lies in one of the boundary planes a x + b y + c z = v of the reference cell *)
Local Close Scope Z_scope.
Definition tet_faces (T : list nat) : mat nat :=
  map (fun drop => sort_nat (map (fun i => nth i T 0) (filter (fun i => negb (i =? drop)) (seq 0 4)))) (seq 0 4).
Definition nats_same (a b : list nat) : bool :=
  (length a =? length b) && forallb (fun xy => fst xy =? snd xy) (combine a b).
Definition count_face (f : list nat) (fs : mat nat) : nat := length (filter (nats_same f) fs).
Definition on_plane (ref : list pt3) (pl : Z * Z * Z * Z) (f : list nat) : bool :=
  let '(a, b, c, v) := pl in
  forallb (fun i => let p := nth i ref (0, 0, 0)%Z in Z.eqb (a * x3 p + b * y3 p + c * z3 p)%Z v) f.
Definition conforming_split (ref : list pt3) (planes : list (Z * Z * Z * Z)) (templates : mat nat) : bool :=
  let fs := concat (map tet_faces templates) in
  forallb (fun f => let n := count_face f fs in
                    if existsb (fun pl => on_plane ref pl f) planes then n =? 1 else n =? 2) fs.
(* boundary planes of the unit cube and of the reference prism (x, y >= 0, x + y <= 1, 0 <= z <= 1) *)
Definition cube_planes : list (Z * Z * Z * Z) :=
  [(1, 0, 0, 0); (1, 0, 0, 1); (0, 1, 0, 0); (0, 1, 0, 1); (0, 0, 1, 0); (0, 0, 1, 1)]%Z.
Definition prism_planes : list (Z * Z * Z * Z) :=
  [(0, 0, 1, 0); (0, 0, 1, 1); (0, 1, 0, 0); (1, 0, 0, 0); (1, 1, 0, 1)]%Z.

(* ---- facet carry-over of MeshQuad1.to_meshtri *)
(* next(dropwhile(lambda s: not np.array_equal(f, s[1]), slots))[0] on the SHARED iterator slots = enumerate(facets.T):
   returns the number of the first remaining slot equal to f and leaves the iterator behind it; None = StopIteration *)
Fixpoint scan_one (f : list nat) (slots : list (nat * list nat)) : option (nat * list (nat * list nat)) :=
  match slots with
  | [] => None
  | s :: rest => if nats_same f (snd s) then Some (fst s, rest) else scan_one f rest
  end.
Fixpoint scan_all (targets : mat nat) (slots : list (nat * list nat)) : option (list nat) :=
  match targets with
  | [] => Some []
  | f :: fs => match scan_one f slots with
               | None => None
               | Some (i, rest) => match scan_all fs rest with None => None | Some l => Some (i :: l) end
               end
  end.
(* MeshQuad1.to_meshtri: boundaries[k] = [next(dropwhile(...))[0] for f in self.facets.T[np.sort(self.boundaries[k])]] *)
Definition carry_boundary (old_facets new_facets : mat nat) (b : list nat) : option (list nat) :=
  scan_all (map (fun k => nth k old_facets []) (sort_nat b)) (combine (seq 0 (length new_facets)) new_facets).


(* ---- model of Mesh._remove_duplicate_nodes / Mesh.__add__ : np.unique of the coordinate tuples with
        return_index and return_inverse.  A vertex is its coordinate tuple (list Z after the code's rounding). *)
Definition key := list Z.
Fixpoint lexz_ltb (a b : key) : bool :=
  match a, b with
  | [], [] => false
  | [], _ :: _ => true
  | _ :: _, [] => false
  | x :: a', y :: b' => (x <? y)%Z || ((x =? y)%Z && lexz_ltb a' b')
  end.
Fixpoint insert_key (k : key) (l : list key) : list key :=
  match l with
  | [] => [k]
  | x :: l' => if lexz_ltb k x then k :: l else if zs_eqb k x then l else x :: insert_key k l'
  end.
Definition unique_keys (ks : list key) : list key := fold_right insert_key [] ks.
Fixpoint index_key (k : key) (l : list key) : nat :=
  match l with
  | [] => 0
  | x :: l' => if zs_eqb k x then 0 else S (index_key k l')
  end.
(* p[:, ixa], ixb[t] *)
Definition dedupe_p (p : list key) : list key := let u := unique_keys p in gather [] p (map (fun k => index_key k p) u).
Definition dedupe_inverse (p : list key) : list nat := let u := unique_keys p in map (fun k => index_key k u) p.
Definition dedupe_t (p : list key) (t : mat nat) : mat nat := map (map (fun v => nth v (dedupe_inverse p) 0)) t.
(* Mesh.__add__ : p = hstack(p1, p2); t = hstack(t1, t2 + n1); then remove duplicates *)
Fixpoint hstack2 (t1 t2 : mat nat) : mat nat :=
  match t1, t2 with
  | r1 :: t1', r2 :: t2' => (r1 ++ r2) :: hstack2 t1' t2'
  | _, _ => []
  end.
Definition join_p (p1 p2 : list key) : list key := dedupe_p (p1 ++ p2).
Definition join_t (p1 p2 : list key) (t1 t2 : mat nat) : mat nat :=
  dedupe_t (p1 ++ p2) (hstack2 t1 (map (map (fun v => v + length p1)) t2)).


(* ================= remove_duplicate_nodes: remapping of the named boundaries (mesh.py, after the vertex merge) *)
Section RemapDefs.
  (* canonical form of a facet tuple (Mesh._sort_entities); everything below works for ANY canonicaliser *)
  Variable canon : list nat -> list nat.
  Variables (nslots : nat) (newp : list nat) (F F' : mat nat) (t2f' : mat nat) (f2t0 : list nat).
  (* candidates = m.t2f[:, self.f2t[0]] : the facets of the owner cell in the NEW numbering *)
  Definition cand (s f : nat) : nat := nth (nth f f2t0 0) (nth s t2f' []) 0.
  (* match[s][f] = (sort(m.facets)[:, candidates[s][f]] == sort(newp[self.facets])[:, f]).all() *)
  Definition matches (s f : nat) : bool :=
    nats_same (canon (nth (cand s f) F' [])) (canon (map (fun v => nth v newp 0) (nth f F []))).
  (* match.argmax(axis=0) : first slot that matches, 0 if none does *)
  Fixpoint first_true (g : nat -> bool) (n k : nat) : nat :=
    match n with
    | 0 => 0
    | S n' => if g k then k else first_true g n' (S k)
    end.
  Definition argmax_slot (f : nat) : nat :=
    let s := first_true (fun s => matches s f) nslots 0 in if s <? nslots then s else 0.
  (* newf = candidates[match.argmax(axis=0), arange(nfacets)] *)
  Definition newf (f : nat) : nat := cand (argmax_slot f) f.
End RemapDefs.
(* newp = zeros(np); newp[self.t] = t' *)
Definition remap_newp (npts : nat) (t t' : mat nat) : list nat := scatter (concat t) (concat t') (repeat 0 npts).
(* ori = m.f2t[1, newf[ixs]] == self.f2t[ixs.ori, ixs] *)
Definition remap_flag (f2t1' : list Z) (g : nat) (c : Z) : bool := Z.eqb (nth g f2t1' (- 1)%Z) c.
(* one named boundary: (facets, optional flags) -> np.unique(newf[ixs]) resp. OrientedBoundary(newf[ixs], ori) *)
Definition remap_tag (nf : nat -> nat) (f2t : mat Z) (f2t1' : list Z) (ixs : list nat) (ori : option (list bool))
  : list nat * option (list bool) :=
  match ori with
  | None => (unique_nat (map nf ixs), None)
  | Some o => (map nf ixs,
               Some (map (fun fo : nat * bool => remap_flag f2t1' (nf (fst fo))
                                  (nth (fst fo) (nth (if snd fo then 1 else 0) f2t []) (- 1)%Z)) (combine ixs o)))
  end.

(* ================= morphed: p = self.p.copy(); for i, arg in enumerate(args): p[i] = arg(<source>) *)
Definition morph_step {R} (orig : list R) (st : list R * nat) (arg : option (list R -> R)) : list R * nat :=
  (match arg with Some f => set_nth (snd st) (f orig) (fst st) | None => fst st end, S (snd st)).
Definition morphed_rows {R} (p : list R) (args : list (option (list R -> R))) : list R :=
  fst (fold_left (morph_step p) args (p, 0)).
(* the variant in which every function sees the rows already replaced (NOT what the property asks for) *)
Definition morph_step_seen {R} (st : list R * nat) (arg : option (list R -> R)) : list R * nat :=
  (match arg with Some f => set_nth (snd st) (f (fst st)) (fst st) | None => fst st end, S (snd st)).

(* ================= oriented: t[0, flip], t[1, flip] = t[1, flip], t[0, flip] *)
Definition swap_rows01 (flip : list bool) (t : mat nat) : mat nat :=
  match t with
  | r0 :: r1 :: rest =>
      map (fun fc : bool * (nat * nat) => if fst fc then snd (snd fc) else fst (snd fc)) (combine flip (combine r0 r1)) ::
      map (fun fc : bool * (nat * nat) => if fst fc then fst (snd fc) else snd (snd fc)) (combine flip (combine r0 r1)) :: rest
  | _ => t
  end.


(* Mesh.__matmul__ with a list of meshes: p = hstack(all p); one np.unique; mesh j uses ixb[t_j + offset_j] *)
Definition matmul_offset (lens : list nat) (j : nat) : nat := list_sum (firstn j lens).
Definition matmul_p (ps : list (list key)) : list key := dedupe_p (concat ps).
Definition matmul_t (ps : list (list key)) (j : nat) (t : mat nat) : mat nat :=
  dedupe_t (concat ps) (map (map (fun v => v + matmul_offset (map (@length key) ps) j)) t).


(* to_meshtri(style='x'): p = hstack((doflocs, centres)); the centre of cell k gets number base + k *)
Definition quad_x_points {P} (p centres : list P) : list P := p ++ centres.

(* ---- MeshQuad1.to_meshtri, boundaries (independent lookup): keys = facets[0] * nv + facets[1];
        newf = np.searchsorted(keys, key of each tagged facet taken in (stable) increasing order of its number) *)
Definition facet_key (nv : nat) (f : list nat) : nat := nth 0 f 0 * nv + nth 1 f 0.
(* np.searchsorted(keys, x) on increasing keys: the number of keys below x *)
Definition searchsorted (keys : list nat) (x : nat) : nat := length (filter (fun k => k <? x) keys).
Definition lookup_boundary (nv : nat) (OF NF : mat nat) (ixs : list nat) : list nat :=
  map (fun i => searchsorted (map (facet_key nv) NF) (facet_key nv (nth i OF []))) (sort_nat ixs).
(* ori = mesh.f2t[0, newf] % nt != self.f2t[ixs.ori, ixs] *)
Definition lookup_flag (nt : nat) (f2t0' : list nat) (g : nat) (c : Z) : bool := negb (Z.eqb (Z.of_nat (nth g f2t0' 0 mod nt)) c).

(* stable sort of (facet, flag) pairs by facet: ixs[order], ixs.ori[order] with order = argsort(ixs, kind='stable') *)
Fixpoint insert_fo (x : nat * bool) (l : list (nat * bool)) : list (nat * bool) :=
  match l with
  | [] => [x]
  | y :: l' => if fst x <=? fst y then x :: l else y :: insert_fo x l'
  end.
Definition sort_fo (l : list (nat * bool)) : list (nat * bool) := fold_right insert_fo [] l.
Definition lookup_oriented (nv nt : nat) (OF NF : mat nat) (f2t : mat Z) (f2t0' : list nat) (ixs : list nat) (ori : list bool)
  : list nat * list bool :=
  let ps := sort_fo (combine ixs ori) in
  let nf (i : nat) := searchsorted (map (facet_key nv) NF) (facet_key nv (nth i OF [])) in
  (map (fun io => nf (fst io)) ps,
   map (fun io : nat * bool => lookup_flag nt f2t0' (nf (fst io)) (nth (fst io) (nth (if snd io then 1 else 0) f2t []) (- 1)%Z)) ps).

(* ---- MeshLine1._intervals: x = np.unique(p[0, t]); ends = searchsorted(x, sort(p[0, t], axis=0));
        iscell[ends[0, ends[1] == ends[0] + 1]] = True      (coordinates as natural numbers) *)
Definition line_levels (pz : list nat) (t0 t1 : list nat) : list nat :=
  unique_nat (map (fun v => nth v pz 0) (t0 ++ t1)).
Definition line_iscell (pz : list nat) (t0 t1 : list nat) : list bool :=
  let x := line_levels pz t0 t1 in
  map (fun i => existsb (fun e : nat * nat =>
                  let a := nth (fst e) pz 0 in let b := nth (snd e) pz 0 in
                  (searchsorted x (Nat.min a b) =? i) && (searchsorted x (Nat.max a b) =? i + 1))
                (combine t0 t1)) (seq 0 (length x)).
(* the levels that carry a layer of wedges, increasing *)
Definition cell_levels (iscell : list bool) : list nat := filter (fun i => nth i iscell false) (seq 0 (length iscell)).

(* ---- MeshTri1.__mul__: level i holds the points v + i*nv; a layer of wedges for every level i with iscell[i] *)
Definition extrude_cells_t (nv : nat) (cells : list nat) (t : mat nat) : mat nat :=
  let blocks := map (fun l => map (map (fun v => v + l * nv)) t ++ map (map (fun v => v + nv + l * nv)) t) cells in
  map (fun i => concat (map (fun blk => nth i blk []) blocks)) (seq 0 (2 * length t)).


(* the lookup keys of to_meshtri are computed in fixed-width signed integer arithmetic: what v0 * nv + v1 becomes in `bits` bits *)
Definition wrap_signed (bits : nat) (z : Z) : Z :=
  ((z + 2 ^ Z.of_nat (bits - 1)) mod 2 ^ Z.of_nat bits - 2 ^ Z.of_nat (bits - 1))%Z.
Definition facet_key_machine (bits nv : nat) (f : list nat) : Z := wrap_signed bits (Z.of_nat (facet_key nv f)).

(* Mesh.restrict(elements, skip_boundaries, skip_subdomains): a skipped or absent kind of tags becomes None, the other is remapped *)
Definition restrict_option {A} (keep present : bool) (x : A) : option A := if keep && present then Some x else None.
