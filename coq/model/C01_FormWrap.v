(* C01 — model of the form-copying wrappers of skfem/assembly/form/form.py (Form.__init__, partial, block, decorator __call__) as
   plumbing over a record (integrand, dtype, nthreads, params), and of the wrapper-class dispatch of asm() by argument count. *)
From Coq Require Import List Arith.
Import ListNotations.

Section FormWrap.
  Variables F D P : Type.          (* integrands, dtypes, **params dictionaries *)
  Variables (d0 : D) (p0 : P).     (* the defaults of Form.__init__: dtype=np.float64, no params *)

  Record formrec := mkFr { fr_form : option F; fr_dtype : D; fr_nthreads : nat; fr_params : P }.

  (* copy.deepcopy(self) *)
  Definition fr_copy (r : formrec) : formrec := mkFr (fr_form r) (fr_dtype r) (fr_nthreads r) (fr_params r).
  Definition fr_set_form (r : formrec) (f : option F) : formrec := mkFr f (fr_dtype r) (fr_nthreads r) (fr_params r).
  Definition omap (g : F -> F) (o : option F) : option F := match o with Some f => Some (g f) | None => None end.
End FormWrap.

Arguments mkFr {F D P}. Arguments fr_form {F D P}. Arguments fr_dtype {F D P}. Arguments fr_nthreads {F D P}. Arguments fr_params {F D P}.
Arguments fr_copy {F D P}. Arguments fr_set_form {F D P}. Arguments omap {F}.

(* the four form classes asm() can wrap a plain function in *)
Inductive formclass := WFunctional | WLinearForm | WBilinearForm | WTrilinearForm | WNone.
