(* C13 — executable model of the work-list loop of MeshTet1._adaptive (longest-edge bisection).
   The re-ordering of the marked cells by _adaptive_sort_mesh (float comparison of noise-perturbed edge lengths) is an
   INPUT of the model: [perm] lists, for one sweep, the re-ordered vertex tuples of the marked cells; everything else
   (look-up of already split edges, numbering of the new mid-edge nodes in lexicographic order of the new edges, the two
   children of every marked cell, the parent array, the next set of non-conforming cells from vertex/cell incidence)
   is computed.  Termination of the loop is NOT proved: the driver takes fuel.  No proofs here. *)
From Coq Require Import List Arith Bool ZArith QArith.
Import ListNotations.
Require Import Model.C12_Refine Model.C13_Adaptive.
Local Open Scope nat_scope.

Definition edge := (nat * nat)%type.
Definition edge_key (a b : nat) : edge := if a <=? b then (a, b) else (b, a).
Definition edge_eqb (e f : edge) : bool := Nat.eqb (fst e) (fst f) && Nat.eqb (snd e) (snd f).
Definition edge_ltb (e f : edge) : bool := (fst e <? fst f) || (Nat.eqb (fst e) (fst f) && (snd e <? snd f)).

(* split_edge[:, :ns] : (end point, end point, node) *)
Definition splits := list (nat * nat * nat).
Fixpoint find_split (sp : splits) (e : edge) : option nat :=
  match sp with
  | [] => None
  | (a, b, m) :: r => if edge_eqb (a, b) e then Some m else find_split r e
  end.

(* the nonzero pattern of the (summed) incidence matrix, row-major: sorted, without repeats *)
Fixpoint ins_edge (e : edge) (l : list edge) : list edge :=
  match l with
  | [] => [e]
  | f :: r => if edge_eqb e f then l else if edge_ltb e f then e :: l else f :: ins_edge e r
  end.
Definition uniq_edges (l : list edge) : list edge := fold_right ins_edge [] l.

Fixpoint set_nth {A} (k : nat) (x : A) (l : list A) : list A :=
  match l, k with
  | [], _ => []
  | _ :: r, 0 => x :: r
  | y :: r, S k' => y :: set_nth k' x r
  end.
Definition set_many {A} (l : list A) (kx : list (nat * A)) : list A := fold_left (fun l kx => set_nth (fst kx) (snd kx) l) kx l.

Record tstate := { ts_p : list point; ts_t : list (list nat); ts_sp : splits; ts_par : list nat }.

(* a child of the bisection: NV i = vertex i of the re-ordered cell, anything else = the node on the split edge *)
Definition bis_child (c : list nat) (m : nat) (tpl : list nref) : list nat :=
  map (fun r => match r with NV i => nth i c 0 | _ => m end) tpl.

(* one sweep of the while loop *)
Definition tet_iter (tpls : list (list nref)) (st : tstate) (marked : list nat) (perm : list (list nat)) : tstate :=
  let t1 := set_many (ts_t st) (combine marked perm) in                       (* t = _adaptive_sort_mesh(p, t, marked) *)
  let edges := map (fun c => edge_key (nth 0 c 0) (nth 1 c 0)) perm in        (* the edge (t0, t1) of every marked cell *)
  let fresh := uniq_edges (filter (fun e => match find_split (ts_sp st) e with None => true | Some _ => false end) edges) in
  let nv := length (ts_p st) in
  let newsp := map (fun ie => (fst (snd ie), snd (snd ie), nv + fst ie)) (combine (seq 0 (length fresh)) fresh) in
  let sp' := ts_sp st ++ newsp in
  let p' := ts_p st ++ map (fun e => midpoint 3 (ts_p st) [fst e; snd e]) fresh in
  let tnew := map (fun e => match find_split sp' e with Some m => m | None => 0 end) edges in
  let ch1 := map (fun cm => bis_child (fst cm) (snd cm) (nth 0 tpls [])) (combine perm tnew) in
  let ch2 := map (fun cm => bis_child (fst cm) (snd cm) (nth 1 tpls [])) (combine perm tnew) in
  {| ts_p := p';
     ts_t := set_many t1 (combine marked ch1) ++ ch2;                        (* t[:, marked] = ...; t[:, nt:nt+nm] = ... *)
     ts_sp := sp';
     ts_par := ts_par st ++ map (fun k => nth k (ts_par st) 0) marked |}.     (* parent[nt:nt+nm] = parent[marked] *)

(* cells that contain both end points of a split edge: marked = np.unique(j) *)
Definition nonconforming (st : tstate) : list nat :=
  filter (fun k => let c := nth k (ts_t st) [] in
                   existsb (fun s => let '(a, b, _) := s in memb a c && memb b c) (ts_sp st))
         (seq 0 (length (ts_t st))).

(* the loop; returns the final state and the marked sets of all sweeps; None = fuel or recorded re-orderings exhausted *)
Fixpoint tet_loop (fuel : nat) (tpls : list (list nref)) (st : tstate) (marked : list nat)
  (perms : list (list (list nat))) (hist : list (list nat)) : option (tstate * list (list nat)) :=
  match marked with
  | [] => Some (st, rev hist)
  | _ => match fuel, perms with
         | S n, perm :: rest =>
             let st' := tet_iter tpls st marked perm in
             tet_loop n tpls st' (nonconforming st') rest (marked :: hist)
         | _, _ => None
         end
  end.

Definition tet_adaptive (tpls : list (list nref)) (p : list point) (t : list (list nat)) (marked : list nat)
  (perms : list (list (list nat))) : option (tstate * list (list nat)) :=
  tet_loop (S (length perms)) tpls {| ts_p := p; ts_t := t; ts_sp := []; ts_par := seq 0 (length t) |}
           (dedup_sorted (sort_nat marked)) perms [].

(* subdomains: np.nonzero(np.isin(parent[:nt], ixs))[0] *)
Definition tet_subdomain (par : list nat) (ixs : list nat) : list nat :=
  filter (fun c => memb (nth c par 0) ixs) (seq 0 (length par)).

(* every recorded re-ordering is a permutation of the cell it replaces *)
Definition same_set (a b : list nat) : bool :=
  (length a =? length b) && forallb (fun x => memb x b) a && forallb (fun x => memb x a) b.
