(* C06 — minimal executable model of what Basis._projection assembles: the mass matrix and the load vector of an
   interpolated function over the SAME basis tables and the SAME quadrature, as COO triplets in the order of
   BilinearForm._assemble / LinearForm._assemble, converted to sparse rows / a vector by summing duplicates.
   A basis is its tables: local-to-global map, shape function values at the quadrature points, weights*|det|. *)
From Coq Require Import List ZArith Bool Arith.
Import ListNotations.
Require Import Base.C05_Np Model.C05_BC.

(* A basis function is a FAMILY of scalar components: basis[i] is a tuple of fields (composite elements), each field
   scalar- or vector-valued; `shape` lists the number of components of every field, the components are numbered
   consecutively (field after field). *)
Record fe (R : Type) := {
  nel : nat; nloc : nat; nq : nat;
  shape : list nat;                  (* components per field: [1] scalar, [d] vector, [d; 1] vector x scalar, ... *)
  gdof : nat -> nat -> nat;          (* element, local index -> global dof (element_dofs[i][e]) *)
  phi : nat -> nat -> nat -> nat -> R;   (* element, quadrature point, local index, component -> value *)
  dxw : nat -> nat -> R }.           (* element, quadrature point -> dx[e][q] *)
Arguments nel {R}. Arguments nloc {R}. Arguments nq {R}. Arguments shape {R}. Arguments gdof {R}. Arguments phi {R}.
Arguments dxw {R}.

(* the tuple-of-fields value the forms receive, rebuilt from the flat component function *)
Fixpoint unflatten_from {R} (off : nat) (sh : list nat) (f : nat -> R) : list (list R) :=
  match sh with
  | [] => []
  | k :: rest => map f (seq off k) :: unflatten_from (off + k) rest f
  end.
Definition unflatten {R} (sh : list nat) (f : nat -> R) : list (list R) := unflatten_from 0 sh f.
Definition ncomp (sh : list nat) : nat := fold_right Nat.add 0 sh.

Section FE.
  Context {R : Type} (o : ring_ops R).
  Variable mass_kernel : list (list R) -> list (list R) -> R.   (* inner(u, v) of the bilinear form: trial, test (tuples of fields) *)
  Variable load_kernel : list (list R) -> list (list R) -> R.   (* inner(interp, v) of the linear form *)

  Definition lsum {A} (f : A -> R) (l : list A) : R := fold_right (fun a acc => radd o (f a) acc) (r0 o) l.

  (* AbstractBasis.interpolate: value of the discrete function x at quadrature point q of element e *)
  Definition interp (B : fe R) (x : list R) (e q c : nat) : R :=
    lsum (fun j => rmul o (vnth o x (gdof B e j)) (phi B e q j c)) (seq 0 (nloc B)).
  (* data[j, i, e] = sum_q kernel(u_j, v_i) dx *)
  Definition Kloc (B : fe R) (e i j : nat) : R :=
    lsum (fun q => rmul o (mass_kernel (unflatten (shape B) (phi B e q j)) (unflatten (shape B) (phi B e q i))) (dxw B e q)) (seq 0 (nq B)).
  Definition Lloc (B : fe R) (x : list R) (e i : nat) : R :=
    lsum (fun q => rmul o (load_kernel (unflatten (shape B) (interp B x e q)) (unflatten (shape B) (phi B e q i))) (dxw B e q)) (seq 0 (nq B)).

  (* COO triplets (row = test dof, col = trial dof, value), position (j*Nbfun + i)*nt + e as in _assemble *)
  Definition mass_coo (B : fe R) : list (nat * nat * R) :=
    flat_map (fun j => flat_map (fun i => map (fun e => (gdof B e i, gdof B e j, Kloc B e i j)) (seq 0 (nel B)))
                                (seq 0 (nloc B))) (seq 0 (nloc B)).
  Definition load_coo (B : fe R) (x : list R) : list (nat * R) :=
    flat_map (fun i => map (fun e => (gdof B e i, Lloc B x e i)) (seq 0 (nel B))) (seq 0 (nloc B)).

  (* COO -> rows (duplicates kept; the dense semantics sums them, as the CSR conversion does) / vector *)
  Definition coo_rows (N : nat) (coo : list (nat * nat * R)) : list (list (nat * R)) :=
    map (fun r => map (fun t => (snd (fst t), snd t)) (filter (fun t => Nat.eqb (fst (fst t)) r) coo)) (seq 0 N).
  Definition coo_vec (N : nat) (coo : list (nat * R)) : list R :=
    map (fun r => lsum (fun t => if Nat.eqb (fst t) r then snd t else r0 o) coo) (seq 0 N).

  Definition mass_matrix (N : nat) (B : fe R) := coo_rows N (mass_coo B).
  Definition load_vector (N : nat) (B : fe R) (x : list R) := coo_vec N (load_coo B x).
  (* dense read-out used by the correspondence *)
  Definition dense_of_rows (N : nat) (M : list (list (nat * R))) : list (list R) :=
    map (fun r => map (fun j => dense_entry o r j) (seq 0 N)) M.

  (* COO triplets of ANY family of local matrices K e i j / local load vectors L e i over a local-to-global map
     (the order of BilinearForm._assemble / LinearForm._assemble); mass_coo / load_coo are the instances above *)
  Definition local_coo (ne nl : nat) (g : nat -> nat -> nat) (K : nat -> nat -> nat -> R) : list (nat * nat * R) :=
    flat_map (fun j => flat_map (fun i => map (fun e => (g e i, g e j, K e i j)) (seq 0 ne)) (seq 0 nl)) (seq 0 nl).
  Definition local_load_coo (ne nl : nat) (g : nat -> nat -> nat) (L : nat -> nat -> R) : list (nat * R) :=
    flat_map (fun i => map (fun e => (g e i, L e i)) (seq 0 ne)) (seq 0 nl).
  Definition assembled_matrix (N ne nl : nat) g K := coo_rows N (local_coo ne nl g K).
  Definition assembled_vector (N ne nl : nat) g L := coo_vec N (local_load_coo ne nl g L).
End FE.
