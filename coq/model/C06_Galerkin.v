(* C06 — minimal executable model of what Basis._projection assembles: the mass matrix and the load vector of an
   interpolated function over the SAME basis tables and the SAME quadrature, as COO triplets in the order of
   BilinearForm._assemble / LinearForm._assemble, converted to sparse rows / a vector by summing duplicates.
   A basis is its tables: local-to-global map, shape function values at the quadrature points, weights*|det|. *)
From Coq Require Import List ZArith Bool Arith.
Import ListNotations.
Require Import Base.C05_Np Model.C05_BC.

Record fe (R : Type) := {
  nel : nat; nloc : nat; nq : nat;
  gdof : nat -> nat -> nat;          (* element, local index -> global dof (element_dofs[i][e]) *)
  phi : nat -> nat -> nat -> R;      (* element, quadrature point, local index -> value (basis[i][0].value[e][q]) *)
  dxw : nat -> nat -> R }.           (* element, quadrature point -> dx[e][q] *)
Arguments nel {R}. Arguments nloc {R}. Arguments nq {R}. Arguments gdof {R}. Arguments phi {R}. Arguments dxw {R}.

Section FE.
  Context {R : Type} (o : ring_ops R).
  Variable mass_kernel : R -> R -> R.   (* inner(u, v) of the bilinear form: trial value, test value *)
  Variable load_kernel : R -> R -> R.   (* inner(interp, v) of the linear form *)

  Definition lsum {A} (f : A -> R) (l : list A) : R := fold_right (fun a acc => radd o (f a) acc) (r0 o) l.

  (* AbstractBasis.interpolate: value of the discrete function x at quadrature point q of element e *)
  Definition interp (B : fe R) (x : list R) (e q : nat) : R :=
    lsum (fun j => rmul o (vnth o x (gdof B e j)) (phi B e q j)) (seq 0 (nloc B)).
  (* data[j, i, e] = sum_q kernel(u_j, v_i) dx *)
  Definition Kloc (B : fe R) (e i j : nat) : R :=
    lsum (fun q => rmul o (mass_kernel (phi B e q j) (phi B e q i)) (dxw B e q)) (seq 0 (nq B)).
  Definition Lloc (B : fe R) (x : list R) (e i : nat) : R :=
    lsum (fun q => rmul o (load_kernel (interp B x e q) (phi B e q i)) (dxw B e q)) (seq 0 (nq B)).

  (* COO triplets (row = test dof, col = trial dof, value), position (j*Nbfun + i)*nt + e as in _assemble *)
  Definition mass_coo (B : fe R) : list (nat * nat * R) :=
    flat_map (fun j => flat_map (fun i => map (fun e => (gdof B e i, gdof B e j, Kloc B e i j)) (seq 0 (nel B)))
                                (seq 0 (nloc B))) (seq 0 (nloc B)).
  Definition load_coo (B : fe R) (x : list R) : list (nat * R) :=
    flat_map (fun i => map (fun e => (gdof B e i, Lloc B x e i)) (seq 0 (nel B))) (seq 0 (nloc B)).

  (* COO -> rows (duplicates kept; the dense semantics sums them, as the CSR conversion does) / vector *)
  Definition coo_rows (N : nat) (coo : list (nat * nat * R)) : list (list (nat * R)) :=
    map (fun r => map (fun t => (snd (fst t), snd t)) (filter (fun t => Nat.eqb (fst (fst t)) r) coo)) (seq 0 N).
  Definition coo_vec (N : nat) (coo : list (nat * R)) : list R :=
    map (fun r => lsum (fun t => if Nat.eqb (fst t) r then snd t else r0 o) coo) (seq 0 N).

  Definition mass_matrix (N : nat) (B : fe R) := coo_rows N (mass_coo B).
  Definition load_vector (N : nat) (B : fe R) (x : list R) := coo_vec N (load_coo B x).
  (* dense read-out used by the correspondence *)
  Definition dense_of_rows (N : nat) (M : list (list (nat * R))) : list (list R) :=
    map (fun r => map (fun j => dense_entry o r j) (seq 0 N)) M.
End FE.
