(* C12/C13 — executable geometry checks on child templates (weights, determinants, sub-cubes). *)
From Coq Require Import List Arith Bool ZArith QArith Qabs.
Import ListNotations.
Require Import Model.C12_Refine.
Local Open Scope Q_scope.

Definition tri_det (x0 y0 x1 y1 x2 y2 : Q) : Q := det2 (x1 - x0) (y1 - y0) (x2 - x0) (y2 - y0).
Definition tet_det (x0 y0 z0 x1 y1 z1 x2 y2 z2 x3 y3 z3 : Q) : Q :=
  det3 (x1 - x0) (y1 - y0) (z1 - z0) (x2 - x0) (y2 - y0) (z2 - z0) (x3 - x0) (y3 - y0) (z3 - z0).

Fixpoint dot (w xs : list Q) : Q :=
  match w, xs with
  | a :: w', x :: xs' => a * x + dot w' xs'
  | _, _ => 0
  end.
Definition sumq (w : list Q) : Q := fold_right Qplus 0 w.
Definition nonneg (w : list Q) : bool := forallb (fun a => Qle_bool 0 a) w.
Definition row_ok (w : list Q) : bool := nonneg w && Qeq_bool (sumq w) 1.

(* a child of a triangle given by the barycentric weights of its three vertices:
   Some (det W) when every row is a convex combination *)
Definition tri_child_check (W : list (list Q)) : option Q :=
  match W with
  | [[a0; a1; a2]; [b0; b1; b2]; [c0; c1; c2]] =>
      if row_ok [a0; a1; a2] && row_ok [b0; b1; b2] && row_ok [c0; c1; c2]
      then Some (det3 a0 a1 a2 b0 b1 b2 c0 c1 c2) else None
  | _ => None
  end.

Definition tet_child_check (W : list (list Q)) : option Q :=
  match W with
  | [[a0; a1; a2; a3]; [b0; b1; b2; b3]; [c0; c1; c2; c3]; [d0; d1; d2; d3]] =>
      if row_ok [a0; a1; a2; a3] && row_ok [b0; b1; b2; b3] && row_ok [c0; c1; c2; c3] && row_ok [d0; d1; d2; d3]
      then Some (det4 W) else None
  | _ => None
  end.

(* coordinates of the child's vertices: one coordinate list per axis *)
Definition comb (W : list (list Q)) (X : list Q) : list Q := map (fun w => dot w X) W.

Definition tri_det_l (X Y : list Q) : Q :=
  match X, Y with
  | [x0; x1; x2], [y0; y1; y2] => tri_det x0 y0 x1 y1 x2 y2
  | _, _ => 0
  end.
Definition tet_det_l (X Y Z : list Q) : Q :=
  match X, Y, Z with
  | [x0; x1; x2; x3], [y0; y1; y2; y3], [z0; z1; z2; z3] => tet_det x0 y0 z0 x1 y1 z1 x2 y2 z2 x3 y3 z3
  | _, _, _ => 0
  end.

Definition abs_is (s v : Q) : bool := Qeq_bool s v || Qeq_bool s (- v).

(* all templates of a simplex type: convex weights and |det W| = 2^-d *)
Definition tri_templates_ok (W : list nref -> list (list Q)) (tpls : list (list nref)) : bool :=
  forallb (fun tpl => match tri_child_check (W tpl) with Some s => abs_is s (1 # 4) | None => false end) tpls.
Definition tet_templates_ok (W : list nref -> list (list Q)) (tpls : list (list nref)) : bool :=
  forallb (fun tpl => match tet_child_check (W tpl) with Some s => abs_is s (1 # 8) | None => false end) tpls.

(* ------------------------------------------------------------------ separating functionals (disjoint interiors) *)
(* g(v) = c . v on barycentric coordinates; A on the non-negative side, B on the non-positive side,
   and neither entirely inside the hyperplane *)
Definition separates (c : list Q) (A B : list (list Q)) : bool :=
  forallb (fun v => Qle_bool 0 (dot c v)) A && forallb (fun v => Qle_bool (dot c v) 0) B
  && existsb (fun v => negb (Qle_bool (dot c v) 0)) A && existsb (fun v => negb (Qle_bool 0 (dot c v))) B.

Fixpoint cands (n : nat) : list (list Q) :=
  match n with
  | O => [[]]
  | S n' => flat_map (fun c => [(-1) :: c; 0 :: c; 1 :: c]) (cands n')
  end.

Definition separable (nv : nat) (A B : list (list Q)) : bool := existsb (fun c => separates c A B) (cands nv).

Fixpoint all_pairs_ok {X} (ok : X -> X -> bool) (l : list X) : bool :=
  match l with
  | [] => true
  | x :: l' => forallb (ok x) l' && all_pairs_ok ok l'
  end.

(* ------------------------------------------------------------------ tensor cells *)
(* multilinear shape function of the vertex with reference coordinates rp_i at the point xi *)
Fixpoint shape (rpi xi : list Q) : Q :=
  match rpi, xi with
  | r :: rpi', x :: xi' => (if Qeq_bool r 1 then x else 1 - x) * shape rpi' xi'
  | _, _ => 1
  end.
Definition shapes (rp : list point) (xi : point) : list Q := map (fun rpi => shape rpi xi) rp.
Definition mlmap (rp : list point) (X : list Q) (xi : point) : Q := dot (shapes rp xi) X.

Fixpoint qlist_eqb (a b : list Q) : bool :=
  match a, b with
  | [], [] => true
  | x :: a', y :: b' => Qeq_bool x y && qlist_eqb a' b'
  | _, _ => false
  end.

(* the weights of a node (mean over its entity) are the shape functions at its reference coordinates *)
Definition node_is_map_value (dim : nat) (rp : list point) redges rfacets (r : nref) : bool :=
  qlist_eqb (nref_weights (length rp) redges rfacets r)
            (shapes rp (nref_refcoord dim rp redges rfacets r)).

Definition corners (dim : nat) : list point :=
  (fix go (n : nat) : list point :=
     match n with O => [[]] | S n' => flat_map (fun c => [0 :: c; (1 # 2) :: c]) (go n') end) dim.

Definition find_corner (dim : nat) (rp : list point) redges rfacets (tpl : list nref) : option point :=
  find (is_subcube dim rp redges rfacets tpl) (corners dim).

Fixpoint distinct_points (l : list point) : bool :=
  match l with
  | [] => true
  | x :: l' => negb (existsb (point_eqb x) l') && distinct_points l'
  end.

(* every child is a sub-cube, the sub-cubes are pairwise different and there are 2^dim of them,
   every node used is the parent's map evaluated at the node's reference position *)
Definition tensor_templates_ok (dim : nat) (rp : list point) redges rfacets (tpls : list (list nref)) : bool :=
  let cs := map (find_corner dim rp redges rfacets) tpls in
  forallb (fun c => match c with Some _ => true | None => false end) cs
  && distinct_points (flat_map (fun c => match c with Some o => [o] | None => [] end) cs)
  && (length tpls =? 2 ^ dim)%nat
  && forallb (forallb (node_is_map_value dim rp redges rfacets)) tpls.
