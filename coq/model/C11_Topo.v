(* C11 — executable model of the derived connectivity of skfem.mesh.Mesh
   (mesh.py: build_entities 1065-1082, build_inverse 1084-1100, boundary_facets 197, boundary_nodes 398,
    interior_nodes 402, f2e 116-122; mesh_3d.py: boundary_edges 35-51, interior_edges 53-56;
    mesh_hex_1.py 49-55: sort=False).

   Representation: a 2-D integer array whose COLUMNS are entities (t, facets, edges) is a list of columns
   (cells : list (list nat), one list of vertex numbers per cell); the slot tables t2f / t2e / f2e and
   f2t are lists of ROWS as NumPy stores them.  `indices` is the refdom table (RefXxx.facets / .edges):
   one list of local vertex numbers per local slot. *)
From Coq Require Import List Arith ZArith Bool.
Import ListNotations.
Require Import Base.C11_Unique Base.Corr.

(* Mesh._sort_entities on one column: sort; if the sorted column has a repeated vertex, drop the duplicate of the FIRST adjacent
   equal pair and prepend the smallest vertex (the padded triangular slots of wedges get the key [u0, u0, u1, u2] whatever vertex
   the cell repeats).  Columns without repeats: plain sort. *)
Fixpoint drop_first_dup (l : list nat) : option (list nat) :=
  match l with
  | x :: r => match r with
              | y :: r' => if x =? y then Some (x :: r') else option_map (cons x) (drop_first_dup r)
              | [] => None
              end
  | [] => None
  end.
Definition sort_entity (l : list nat) : list nat :=
  let s := isort l in
  match drop_first_dup s with
  | Some s' => hd 0 s :: s'
  | None => s
  end.

(* t[ix][:, e] : the vertices of local slot ix of cell c *)
Definition slotv (ix c : list nat) : list nat := map (fun i => nth i c 0) ix.

(* np.hstack(tuple([t[ix] for ix in indices])) as a list of columns: column s*nt + e is slot s of cell e *)
Definition raw_keys (cells indices : list (list nat)) : list (list nat) :=
  flat_map (fun ix => map (slotv ix) cells) indices.

(* l.reshape((nr, nc)) in C order *)
Fixpoint reshape (nr nc : nat) (l : list nat) : list (list nat) :=
  match nr with
  | 0 => []
  | S r => firstn nc l :: reshape r nc (skipn nc l)
  end.

(* Mesh.build_entities(t, indices, sort) -> (entities as columns, mapping as rows) *)
Definition build_entities (sort : bool) (cells indices : list (list nat))
  : list (list nat) * list (list nat) :=
  let raw := raw_keys cells indices in
  let ks := map sort_entity raw in                   (* Mesh._sort_entities(indexing) *)
  let u := uniq lex_cmp ks in                        (* np.unique(axis=1) *)
  let ixa := first_index lex_cmp ks in               (*   return_index *)
  let ixb := inverse lex_cmp ks in                   (*   return_inverse *)
  (if sort then u else map (fun k => nth k raw []) ixa,   (* sorted_indexing | indexing[:, ixa] *)
   reshape (length indices) (length cells) ixb).

Definition entities sort cells indices := fst (build_entities sort cells indices).
Definition mapping cells indices := snd (build_entities true cells indices).

(* Mesh.build_inverse(t, mapping): nt = t.shape[1];  rows [first-occurrence cell; last-occurrence cell or -1] *)
Definition first_pos (f : nat) (e : list nat) : nat := index_of Nat.compare f e.
Definition last_pos (f : nat) (e : list nat) : nat := length e - index_of Nat.compare f (rev e) - 1.

Definition inverse_rows (nt : nat) (e : list nat) : list nat * list nat :=
  let n := S (list_max e) in                        (* np.max(mapping) + 1 *)
  (map (fun f => if memb Nat.compare f e then first_pos f e mod nt else 0) (seq 0 n),
   map (fun f => if memb Nat.compare f e then last_pos f e mod nt else 0) (seq 0 n)).

Definition build_inverse (nt : nat) (mp : list (list nat)) : list (list Z) :=
  let e := concat mp in                              (* mapping.flatten(order='C') *)
  let '(r0, r1) := inverse_rows nt e in
  [map Z.of_nat r0;
   map (fun ab => if fst ab =? snd ab then (-1)%Z else Z.of_nat (snd ab)) (combine r0 r1)].

(* np.nonzero(f2t[1] == -1)[0] *)
Definition boundary_facets (f2t : list (list Z)) : list nat :=
  let r1 := nth 1 f2t [] in
  filter (fun f => Z.eqb (nth f r1 0%Z) (-1)%Z) (seq 0 (length r1)).

(* np.unique(facets[:, boundary_facets]) *)
Definition boundary_nodes (facets : list (list nat)) (bf : list nat) : list nat :=
  uniq Nat.compare (flat_map (fun f => nth f facets []) bf).

(* np.setdiff1d(np.arange(n), b) *)
Definition setdiff_range (n : nat) (b : list nat) : list nat :=
  filter (fun v => negb (memb Nat.compare v b)) (seq 0 n).

Definition interior_nodes (nverts : nat) (bn : list nat) : list nat := setdiff_range nverts bn.

(* side condition on a refdom slot table used by f2t_exact: entries are local vertex numbers and no two slots
   have the same vertex SET (checked by evaluation on the regenerated tables in dyn/C11Tie.v) *)
Definition subset (a b : list nat) : bool := forallb (fun i => existsb (Nat.eqb i) b) a.
Fixpoint pairwise_distinct (l : list (list nat)) : bool :=
  match l with
  | [] => true
  | a :: r => forallb (fun b => negb (subset a b && subset b a)) r && pairwise_distinct r
  end.
Definition slots_ok (nn : nat) (indices : list (list nat)) : bool :=
  forallb (forallb (fun i => i <? nn)) indices && pairwise_distinct indices.

(* Mesh.boundary_edges (mesh.py 201-213): for every boundary facet f with cell c = f2t[0][f], the local edges es of c
   whose slot is contained in a facet slot s with t2f[s][c] = f; np.unique of t2e[es][c] *)
Definition boundary_edges (facet_idx edge_idx t2f t2e : list (list nat)) (f2t : list (list Z)) : list nat :=
  let bf := boundary_facets f2t in
  uniq Nat.compare
    (flat_map (fun f =>
       let c := Z.to_nat (nth f (nth 0 f2t []) 0%Z) in
       flat_map (fun es =>
         if existsb (fun s => (nth c (nth s t2f []) 0 =? f) && subset (nth es edge_idx []) (nth s facet_idx []))
                    (seq 0 (length facet_idx))
         then [nth c (nth es t2e []) 0] else []) (seq 0 (length edge_idx))) bf).

Definition interior_edges (nedges : nat) (be : list nat) : list nat := setdiff_range nedges be.

(* table-level side condition of "f2e numbers mesh.edges": every (facet slot, boundary-refdom slot) composes to an edge slot
   of the cell and every edge slot arises that way, up to reversal *)
Definition compose (fs b : list nat) : list nat := map (fun i => nth i fs 0) b.
Definition same2 (a b : list nat) : bool := nats_eqb a b || nats_eqb a (rev b).
Definition compose_ok (facet_idx bnd edge_idx : list (list nat)) : bool :=
  forallb (fun fs => forallb (fun b => forallb (fun i => i <? length fs) b &&
                                       existsb (fun es => same2 (compose fs b) es) edge_idx) bnd) facet_idx &&
  forallb (fun es => existsb (fun fs => existsb (fun b => same2 (compose fs b) es) bnd) facet_idx) edge_idx.

(* slot-table side condition of the renumbering theorems: a slot lists pairwise distinct local vertices, or distinct local vertices
   followed by a repetition of one of them (the padded triangles of the wedge) *)
Fixpoint nodupb (l : list nat) : bool :=
  match l with [] => true | x :: r => negb (existsb (Nat.eqb x) r) && nodupb r end.
Definition slot_shape_ok (ix : list nat) : bool :=
  nodupb ix || (nodupb (removelast ix) && existsb (Nat.eqb (last ix 0)) (removelast ix) && negb (length ix =? 0)).

(* ---- incidence matrices (mesh.py p2f / p2t / p2e / e2t), dense, rows as NumPy stores them.
   coo_matrix sums duplicate triplets, so p2t / p2e count occurrences; p2f then sets every stored entry to 1 *)
Definition count_in (v : nat) (c : list nat) : nat := length (filter (Nat.eqb v) c).
Definition incidence_count (ents : list (list nat)) (nv : nat) : list (list nat) :=
  map (fun c => map (fun v => count_in v c) (seq 0 nv)) ents.
Definition incidence_01 (ents : list (list nat)) (nv : nat) : list (list nat) :=
  map (fun c => map (fun v => if 0 <? count_in v c then 1 else 0) (seq 0 nv)) ents.
(* e2t = p2t[:, edges[0]].multiply(p2t[:, edges[1]]) : (cells x edges) *)
Definition e2t_matrix (cells edges : list (list nat)) : list (list nat) :=
  map (fun c => map (fun g => count_in (nth 0 g 0) c * count_in (nth 1 g 0) c) edges) cells.
(* Mesh.nvertices = np.max(t) + 1 : the nodes of a mesh are its vertices, also when it has more points (second order) *)
Definition nvertices (cells : list (list nat)) : nat := S (list_max (concat cells)).

(* the whole family of tables of one mesh, as the correspondence compares them:
   facet_idx / edge_idx : refdom tables; bnd_idx : facets of the boundary refdom (for f2e); sortf : the sort flag *)
Record tables := {
  T_facets : list (list nat); T_t2f : list (list nat); T_f2t : list (list Z);
  T_bfacets : list nat; T_bnodes : list nat; T_inodes : list nat }.

Definition derive (sortf : bool) (nverts : nat) (cells facet_idx : list (list nat)) : tables :=
  let '(fac, t2f) := build_entities sortf cells facet_idx in
  let f2t := build_inverse (length cells) t2f in
  let bf := boundary_facets f2t in
  let bn := boundary_nodes fac bf in
  {| T_facets := fac; T_t2f := t2f; T_f2t := f2t; T_bfacets := bf; T_bnodes := bn;
     T_inodes := interior_nodes nverts bn |}.

Record tables3 := {
  T_edges : list (list nat); T_t2e : list (list nat); T_f2e : list (list nat);
  T_bedges : list nat; T_iedges : list nat }.

Definition derive3 (sortf : bool) (cells facet_idx edge_idx bnd_idx : list (list nat)) : tables3 :=
  let '(fac, t2f) := build_entities sortf cells facet_idx in
  let '(edg, t2e) := build_entities true cells edge_idx in
  let f2t := build_inverse (length cells) t2f in
  let be := boundary_edges facet_idx edge_idx t2f t2e f2t in
  {| T_edges := edg; T_t2e := t2e; T_f2e := snd (build_entities true fac bnd_idx);
     T_bedges := be; T_iedges := interior_edges (length edg) be |}.
