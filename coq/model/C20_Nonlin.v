(* C20 — executable model of the COO bookkeeping of NonlinearForm._assemble
   (skfem/autodiff/__init__.py), and of ordinary bilinear / linear assembly for comparison.

   Arrays are total functions of their position (zero-initialised like np.zeros); a slice store
   a[lo:hi] = src is [set_slice]; the loops are literal nested [fold_left]s over range(Nbfun).
   The model is parametrised by the index expressions that the translator (vlib/c20_nl.py) re-reads
   from the source on every run ([pieces]); Dyn.C20_NonlinTie proves the regenerated pieces equal to
   [std_pieces], for which Proofs.C20_NonlinProofs proves the theorems.

   Abstractions (named in the evidence): F is the type of the per-cell field data (values and derivatives
   of a function at the quadrature points of one cell); g e U V is the integrand evaluated on cell e and
   integrated (np.sum(. * dx, axis=1)); D h X W is what jax.linearize returns for the function h at the
   point X applied to the direction W — JAX is NOT modelled, D is a parameter.  No proofs here. *)
From Coq Require Import List Arith Bool.
Import ListNotations.
Require Import Base.C20_Ring.

Definition set_slice {T : Type} (lo hi : nat) (src : nat -> T) (a : nat -> T) : nat -> T :=
  fun p => if (lo <=? p) && (p <? hi) then src (p - lo) else a p.

Definition set2 {T : Type} (ab : nat * nat) (v : T) (d : nat -> nat -> T) : nat -> nat -> T :=
  fun x y => if (x =? fst ab) && (y =? snd ab) then v else d x y.

(* the source-dependent index expressions; i = outer loop variable, j = inner loop variable *)
Record pieces := {
  p_lo : nat -> nat -> nat -> nat -> nat;      (* Nb nt i j : start of ixs *)
  p_hi : nat -> nat -> nat -> nat -> nat;      (* Nb nt i j : stop of ixs *)
  p_rows : nat -> nat -> nat;                  (* i j : which row of element_dofs goes to rows[ixs] *)
  p_cols : nat -> nat -> nat;                  (* i j : ... to cols[ixs] *)
  p_slot : nat -> nat -> nat * nat;            (* i j : data[<slot>, :] = ... *)
  p_test : nat -> nat;                         (* i : _make_jacobian(basis.basis[<.>]) — the test function *)
  p_dir : nat -> nat -> nat;                   (* i j : DF(basis.basis[<.>]) — the direction (trial function) *)
  p_lo1 : nat -> nat -> nat;                   (* nt i : start of ixs1 *)
  p_hi1 : nat -> nat -> nat;
  p_rows1 : nat -> nat;                        (* i : rows1[ixs1] = element_dofs[<.>] *)
  p_shape : nat -> nat -> nat * nat * nat;     (* Nb nt : shape of data before flatten('C') *)
  p_negate_rhs : bool                          (* the returned residual data is -data1 *)
}.

Definition std_pieces : pieces := {|
  p_lo := fun Nb nt i j => nt * (Nb * j + i);
  p_hi := fun Nb nt i j => nt * (Nb * j + i + 1);
  p_rows := fun i j => i;
  p_cols := fun i j => j;
  p_slot := fun i j => (j, i);
  p_test := fun i => i;
  p_dir := fun i j => j;
  p_lo1 := fun nt i => nt * i;
  p_hi1 := fun nt i => nt * (i + 1);
  p_rows1 := fun i => i;
  p_shape := fun Nb nt => (Nb, Nb, nt);
  p_negate_rhs := true |}.

Section Nonlin.
  Context {R : Type} {ops : FOps R}.
  Open Scope F_scope.
  Variable F : Type.
  Variable P : pieces.
  Variables Nb nt : nat.
  Variable edofs : nat -> nat -> nat.           (* basis.element_dofs[i][e] *)
  Variable phi : nat -> nat -> F.               (* basis.basis[i] restricted to cell e *)
  Variable X : nat -> F.                        (* basis.interpolate(x) restricted to cell e *)
  Variable g : nat -> F -> F -> R.              (* integrated integrand on cell e: g e U V *)
  Variable D : (F -> R) -> F -> F -> R.         (* differentiation oracle (jax.linearize), NOT modelled *)

  Record state := {
    s_rows : nat -> nat; s_cols : nat -> nat; s_data : nat -> nat -> nat -> R;
    s_rows1 : nat -> nat; s_data1 : nat -> R }.

  Definition init : state :=
    {| s_rows := fun _ => 0%nat; s_cols := fun _ => 0%nat; s_data := fun _ _ _ => 0;
       s_rows1 := fun _ => 0%nat; s_data1 := fun _ => 0 |}.

  (* y, DF = linearize(lambda U: form(U.., V.., w), x) with V = basis.basis[p_test i] *)
  Definition resid (i e : nat) : R := g e (X e) (phi (p_test P i) e).
  Definition dfu (i j e : nat) : R := D (fun U => g e U (phi (p_test P i) e)) (X e) (phi (p_dir P i j) e).

  Definition inner (i : nat) (s : state) (j : nat) : state :=
    {| s_rows := set_slice (p_lo P Nb nt i j) (p_hi P Nb nt i j) (edofs (p_rows P i j)) (s_rows s);
       s_cols := set_slice (p_lo P Nb nt i j) (p_hi P Nb nt i j) (edofs (p_cols P i j)) (s_cols s);
       s_data := set2 (p_slot P i j) (dfu i j) (s_data s);
       s_rows1 := s_rows1 s; s_data1 := s_data1 s |}.

  Definition outer (s : state) (i : nat) : state :=
    let s' := fold_left (inner i) (seq 0 Nb) s in
    {| s_rows := s_rows s'; s_cols := s_cols s'; s_data := s_data s';
       s_rows1 := set_slice (p_lo1 P nt i) (p_hi1 P nt i) (edofs (p_rows1 P i)) (s_rows1 s');
       s_data1 := set_slice (p_lo1 P nt i) (p_hi1 P nt i) (resid i) (s_data1 s') |}.

  Definition final : state := fold_left outer (seq 0 Nb) init.

  (* data.flatten('C') of an array of shape (d0, d1, d2) *)
  Definition flattenC (sh : nat * nat * nat) (d : nat -> nat -> nat -> R) : nat -> R :=
    let '(d0, d1, d2) := sh in fun p => d (p / d2 / d1)%nat ((p / d2) mod d1)%nat (p mod d2)%nat.

  (* the returned triplets: Jacobian (rows, cols, data) and residual (rows1, +-data1) *)
  Definition jac_rows : nat -> nat := s_rows final.
  Definition jac_cols : nat -> nat := s_cols final.
  Definition jac_data : nat -> R := flattenC (p_shape P Nb nt) (s_data final).
  Definition rhs_rows : nat -> nat := s_rows1 final.
  Definition rhs_data : nat -> R := fun p => if p_negate_rhs P then - (s_data1 final p) else s_data1 final p.
  Definition jac_len : nat := (Nb * Nb * nt)%nat.
  Definition rhs_len : nat := (Nb * nt)%nat.

  (* dense semantics of COO data: duplicates are summed (scipy coo -> csr) *)
  Definition dense_mat (len : nat) (rows cols : nat -> nat) (data : nat -> R) (r c : nat) : R :=
    fsum len (fun p => if (rows p =? r) && (cols p =? c) then data p else 0).
  Definition dense_vec (len : nat) (rows : nat -> nat) (data : nat -> R) (r : nat) : R :=
    fsum len (fun p => if rows p =? r then data p else 0).
End Nonlin.

(* ordinary assembly, by definition the sum of the local contributions (layout independent):
   A[r][c] = sum over (trial j, test i, cell e) with edofs i e = r, edofs j e = c of a e (phi j e) (phi i e),
   b[r]    = sum over (test i, cell e) with edofs i e = r of l e (phi i e);
   and the interpolation of a coefficient vector on a cell, basis.interpolate(x) *)
Section Ordinary.
  Context {R : Type} {ops : FOps R}.
  Open Scope F_scope.
  Variable F : Type.
  Variables (fzero : F) (fplus : F -> F -> F) (fscale : R -> F -> F).
  Variables Nb nt : nat.
  Variable edofs : nat -> nat -> nat.
  Variable phi : nat -> nat -> F.
  Variable a : nat -> F -> F -> R.       (* a e U V, U trial, V test *)
  Variable l : nat -> F -> R.
  Definition asm_mat (r c : nat) : R :=
    fsum Nb (fun j => fsum Nb (fun i => fsum nt (fun e =>
      if (edofs i e =? r) && (edofs j e =? c) then a e (phi j e) (phi i e) else 0))).
  Definition asm_vec (r : nat) : R :=
    fsum Nb (fun i => fsum nt (fun e => if edofs i e =? r then l e (phi i e) else 0)).
  Fixpoint fsumF (n : nat) (f : nat -> F) : F :=
    match n with O => fzero | S k => fplus (fsumF k f) (f k) end.
  Definition interp (x : nat -> R) (e : nat) : F := fsumF Nb (fun j => fscale (x (edofs j e)) (phi j e)).
  Definition matvec (N : nat) (A : nat -> nat -> R) (x : nat -> R) (r : nat) : R := fsum N (fun c => A r c * x c).
End Ordinary.
