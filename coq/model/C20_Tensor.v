(* C20 — executable reference definitions for the tensor helpers.

   (1) the fixed set of einsum combinators the translator maps subscripts to (an unknown
       subscript is a TranslateError); every summed label ranges over 0..n-1;
   (2) independent index definitions the generated helpers are proved equal to:
       Leibniz determinant over an enumerated list of permutations with inversion-count signs,
       Kronecker delta, Levi-Civita symbol.
   No proofs here (the model must still run when a proof breaks). *)
From Coq Require Import List Arith Bool.
Import ListNotations.
Require Import Base.C20_Ring.

Section Model.
  Context {R : Type} {ops : FOps R}.
  Open Scope F_scope.
  Notation vec := (vec R). Notation mat := (mat R). Notation ten3 := (ten3 R).

  (* ---- einsum combinators (NumPy subscript in the comment) *)
  Definition es_i_i (n : nat) (u v : vec) : R := fsum n (fun i => u i * v i).                       (* 'i...,i...' *)
  Definition es_ij_ij (n : nat) (u v : mat) : R :=
    fsum n (fun i => fsum n (fun j => u i j * v i j)).                                               (* 'ij...,ij...' *)
  Definition es_ijk_ijk (n : nat) (u v : ten3) : R :=
    fsum n (fun i => fsum n (fun j => fsum n (fun k => u i j k * v i j k))).                         (* 'ijk...,ijk...' *)
  Definition es_i_j__ij (u v : vec) : mat := fun i j => u i * v j.                                   (* 'i...,j...->ij...' *)
  Definition es_i_j_k__ijk (u v w : vec) : ten3 := fun i j k => u i * v j * w k.                     (* 'i...,j...,k...->ijk...' *)
  Definition es_ij_j__i (n : nat) (A : mat) (x : vec) : vec := fun i => fsum n (fun j => A i j * x j). (* 'ij...,j...->i...' *)
  Definition es_ij_jk__ik (n : nat) (A B : mat) : mat :=
    fun i k => fsum n (fun j => A i j * B j k).                                                      (* 'ij...,jk...->ik...' *)
  Definition es_ii (n : nat) (T : mat) : R := fsum n (fun i => T i i).                               (* 'ii...' *)
  Definition es_ij__ji (T : mat) : mat := fun j i => T i j.                                          (* 'ij...->ji...' *)

  (* ---- reference definitions *)
  Definition delta (i j : nat) : R := if Nat.eqb i j then 1 else 0.

  (* all permutations of a list, by inserting the head at every position *)
  Fixpoint insert_all (x : nat) (l : list nat) : list (list nat) :=
    match l with
    | [] => [[x]]
    | y :: t => (x :: l) :: map (cons y) (insert_all x t)
    end.
  Fixpoint perms (l : list nat) : list (list nat) :=
    match l with
    | [] => [[]]
    | x :: t => flat_map (insert_all x) (perms t)
    end.
  Fixpoint inversions (l : list nat) : nat :=
    match l with
    | [] => 0%nat
    | x :: t => (length (filter (fun y => Nat.ltb y x) t) + inversions t)%nat
    end.
  Definition sgn (p : list nat) : R := if Nat.even (inversions p) then 1 else - (1).
  Fixpoint prod_diag (A : mat) (i : nat) (p : list nat) : R :=
    match p with [] => 1 | c :: t => A i c * prod_diag A (S i) t end.
  (* det A = sum over permutations p of {0..n-1} of sgn p * prod_i A i (p i) *)
  Definition leibniz (n : nat) (A : mat) : R :=
    fold_right (fun p acc => sgn p * prod_diag A 0%nat p + acc) 0 (perms (seq 0%nat n)).

  (* Levi-Civita symbol on {0,1,2} *)
  Definition eps3 (i j k : nat) : R :=
    match i, j, k with
    | 0%nat, 1%nat, 2%nat | 1%nat, 2%nat, 0%nat | 2%nat, 0%nat, 1%nat => 1
    | 0%nat, 2%nat, 1%nat | 2%nat, 1%nat, 0%nat | 1%nat, 0%nat, 2%nat => - (1)
    | _, _, _ => 0
    end.

  (* pointwise equality of tensors on the index range *)
  Definition veq (n : nat) (u v : vec) : Prop := forall i, (i < n)%nat -> u i = v i.
  Definition meq (n : nat) (A B : mat) : Prop := forall i j, (i < n)%nat -> (j < n)%nat -> A i j = B i j.
  Definition teq (n : nat) (A B : ten3) : Prop :=
    forall i j k, (i < n)%nat -> (j < n)%nat -> (k < n)%nat -> A i j k = B i j k.
End Model.
