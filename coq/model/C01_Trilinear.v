(* C01 — executable model of TrilinearForm._assemble / _kernel (skfem/assembly/form/trilinear_form.py) and of the
   N-tensor branch of COOData.toarray, on top of Model.C01_Assembly. *)
From Coq Require Import List Arith Bool.
Import ListNotations.
Require Import Base.C01_Sums Model.C01_Assembly.

(* a C-contiguous 4-d array: element [x,y,z,t] lives at ((x*d1+y)*d2+z)*d3+t *)
Record nd4 (A : Type) := mkNd4 { n4_d0 : nat; n4_d1 : nat; n4_d2 : nat; n4_d3 : nat; n4_buf : list A }.
Arguments mkNd4 {A}. Arguments n4_d0 {A}. Arguments n4_d1 {A}. Arguments n4_d2 {A}. Arguments n4_d3 {A}. Arguments n4_buf {A}.

Definition nd4_zeros {A} (z : A) (d0 d1 d2 d3 : nat) : nd4 A := mkNd4 d0 d1 d2 d3 (repeat z (d0 * d1 * d2 * d3)).

(* a[x, y, z] = v  (the last axis; IndexError when an index is out of range) *)
Definition nd4_set_row {A} (x y z : nat) (v : list A) (a : nd4 A) : option (nd4 A) :=
  if (x <? n4_d0 a) && (y <? n4_d1 a) && (z <? n4_d2 a) then
    let o := ((x * n4_d1 a + y) * n4_d2 a + z) * n4_d3 a in
    bind (slice_set o (o + n4_d3 a) v (n4_buf a)) (fun b => Some (mkNd4 (n4_d0 a) (n4_d1 a) (n4_d2 a) (n4_d3 a) b))
  else None.

Definition flatten4 {A} (a : nd4 A) : list A := n4_buf a.

Section Trilinear.
  Variable R : Type.
  Variables (rO : R) (radd rmul : R -> R -> R).
  Variable V W : Type.

  Definition st4 := (nd4 R * nd4 nat * nd4 nat * nd4 nat)%type.      (* data, rows, cols, mats *)

  Definition trilinear_kernel (form : V -> V -> V -> W -> R) (u v w : nat -> nat -> V) (params : nat -> nat -> W)
      (dx : nat -> nat -> R) (nt nq : nat) : list R :=
    sum_axis1 R rO radd nt nq (fun e q => rmul (form (u e q) (v e q) (w e q) (params e q)) (dx e q)).

  Definition trilinear_assemble (form : V -> V -> V -> W -> R) (params : nat -> nat -> W)
      (ubasis : basis R V) (vbasis0 wbasis0 : option (basis R V)) : option (coo R) :=
    let vbasis := match vbasis0 with None => ubasis | Some b => b end in
    let wbasis := match wbasis0 with None => ubasis | Some b => b end in
    let nt := bnelems ubasis in
    let dx := bdx ubasis in
    let nq := bnq ubasis in
    let data := nd4_zeros rO (bNbfun ubasis) (bNbfun vbasis) (bNbfun wbasis) nt in
    let rows := nd4_zeros 0 (bNbfun ubasis) (bNbfun vbasis) (bNbfun wbasis) nt in
    let cols := nd4_zeros 0 (bNbfun ubasis) (bNbfun vbasis) (bNbfun wbasis) nt in
    let mats := nd4_zeros 0 (bNbfun ubasis) (bNbfun vbasis) (bNbfun wbasis) nt in
    bind (for_range (bNbfun ubasis) (fun k => for_range (bNbfun vbasis) (fun j => for_range (bNbfun wbasis) (fun i (st : st4) =>
            let '(data, rows, cols, mats) := st in
            bind (nd4_set_row k j i (element_dofs wbasis i) mats) (fun mats =>
            bind (nd4_set_row k j i (element_dofs vbasis j) rows) (fun rows =>
            bind (nd4_set_row k j i (element_dofs ubasis k) cols) (fun cols =>
            bind (nd4_set_row k j i (trilinear_kernel form (bB ubasis k) (bB vbasis j) (bB wbasis i) params dx nt nq) data) (fun data =>
            Some (data, rows, cols, mats))))))))
          (data, rows, cols, mats))
    (fun st => let '(data, rows, cols, mats) := st in
      Some (mkCoo [flatten4 mats; flatten4 rows; flatten4 cols] (flatten4 data)
                  [bN wbasis; bN vbasis; bN ubasis] [bNbfun wbasis; bNbfun vbasis; bNbfun ubasis])).

  (* COOData.toarray for a 3-tensor:  out[tuple(indices[:, itr])] += data[itr] *)
  Definition dense3 (i0 i1 i2 : list nat) (data : list R) (n0 n1 n2 : nat) : option (list (list (list R))) :=
    if (length i0 =? length data) && (length i1 =? length data) && (length i2 =? length data)
       && forallb (fun a => a <? n0) i0 && forallb (fun a => a <? n1) i1 && forallb (fun a => a <? n2) i2
    then Some (map (fun a => map (fun b => map (fun c =>
                 sumn rO radd (length data) (fun k =>
                   if nth k i0 0 =? a then if nth k i1 0 =? b then if nth k i2 0 =? c then nth k data rO else rO else rO else rO))
               (seq 0 n2)) (seq 0 n1)) (seq 0 n0))
    else None.                                        (* IndexError *)

  Definition to_dense3 (c : coo R) : option (list (list (list R))) :=
    match c_shape c with
    | [n0; n1; n2] => dense3 (nth 0 (c_indices c) []) (nth 1 (c_indices c) []) (nth 2 (c_indices c) []) (c_data c) n0 n1 n2
    | _ => None
    end.

  (* sum_abc T[a][b][c] * w_a * v_b * u_c *)
  Definition contract3 (T : list (list (list R))) (w v u : nat -> R) (n0 n1 n2 : nat) : R :=
    sumn rO radd n0 (fun a => sumn rO radd n1 (fun b => sumn rO radd n2 (fun c =>
      rmul (rmul (rmul (nth c (nth b (nth a T []) []) rO) (w a)) (v b)) (u c)))).
End Trilinear.
