(* C05 — executable model of the boundary-condition helpers of skfem/utils.py:
   _flatten_dofs / _init_bc (complement), condense, solve_linear / solve_eigen expansion, enforce
   (CSR row zeroing with the position function taken as a parameter: the check instantiates it with
   the term REGENERATED from the source), penalize.
   Values live in an arbitrary ring given by a record of operations; no proofs here. *)
From Coq Require Import List ZArith Bool Arith.
Import ListNotations.
Require Import Base.C05_Np.

Record ring_ops (R : Type) := {
  r0 : R; r1 : R; radd : R -> R -> R; rmul : R -> R -> R; rsub : R -> R -> R; ropp : R -> R }.
Arguments r0 {R}. Arguments r1 {R}. Arguments radd {R}. Arguments rmul {R}. Arguments rsub {R}.
Arguments ropp {R}.

Definition Zops : ring_ops Z :=
  {| r0 := 0%Z; r1 := 1%Z; radd := Z.add; rmul := Z.mul; rsub := Z.sub; ropp := Z.opp |}.

(* CSR storage exactly as scipy keeps it: row pointer (integers, as the index arithmetic sees them),
   column indices, values.  Explicit zeros, empty rows, unsorted columns are all representable. *)
Record csr (R : Type) := { indptr : list Z; indices : list nat; data : list R }.
Arguments indptr {R}. Arguments indices {R}. Arguments data {R}.

Section BC.
  Context {R : Type} (o : ring_ops R).

  (* a sparse row = its stored entries (column, value); a matrix = list of rows *)
  Definition row := list (nat * R).
  Definition mat := list row.
  Definition vec := list R.

  Definition vnth (v : vec) (i : nat) : R := nth i v (r0 o).

  (* dense semantics *)
  Definition row_dot (r : row) (y : vec) : R :=
    fold_right (fun cv acc => radd o (rmul o (snd cv) (vnth y (fst cv))) acc) (r0 o) r.
  Definition matvec (M : mat) (y : vec) : vec := map (fun r => row_dot r y) M.
  Definition dense_entry (r : row) (j : nat) : R :=
    fold_right (fun cv acc => if Nat.eqb (fst cv) j then radd o (snd cv) acc else acc) (r0 o) r.
  Definition mrow (M : mat) (i : nat) : row := nth i M [].

  (* ---- fancy indexing:  M[I],  M[:, J],  b[I],  y[I] = z *)
  Definition msel_rows (M : mat) (I : list nat) : mat := map (mrow M) I.
  Fixpoint positions_from (p c : nat) (J : list nat) : list nat :=
    match J with
    | [] => []
    | j :: J' => if Nat.eqb j c then p :: positions_from (S p) c J' else positions_from (S p) c J'
    end.
  Definition sel_cols_row (J : list nat) (r : row) : row :=
    flat_map (fun cv => map (fun p => (p, snd cv)) (positions_from 0 (fst cv) J)) r.
  Definition msel_cols (M : mat) (J : list nat) : mat := map (sel_cols_row J) M.
  Definition vsel (b : vec) (I : list nat) : vec := map (vnth b) I.
  Definition vsub (a b : vec) : vec := map2 (rsub o) a b.
  Definition vset (y : vec) (I : list nat) (z : vec) : vec :=
    fold_left (fun acc iv => upd acc (fst iv) (snd iv)) (combine I z) y.
  Definition vset_const (y : vec) (I : list nat) (c : R) : vec := fold_left (fun acc i => upd acc i c) I y.

  (* ---- _flatten_dofs on a dict of views: np.unique(np.concatenate(...)) *)
  Fixpoint insert_unique (x : nat) (l : list nat) : list nat :=
    match l with
    | [] => [x]
    | y :: t => if x <? y then x :: l else if Nat.eqb x y then l else y :: insert_unique x t
    end.
  Definition sort_unique (l : list nat) : list nat := fold_right insert_unique [] l.
  Definition flatten_dofs (views : list (list nat)) : list nat := sort_unique (concat views).

  (* ---- _init_bc: np.setdiff1d(np.arange(n), S) *)
  Definition memb (x : nat) (l : list nat) : bool := existsb (Nat.eqb x) l.
  Definition complement (n : nat) (S : list nat) : list nat := filter (fun i => negb (memb i S)) (seq 0 n).
  (* the two call forms: exactly one of I, D is given; result (I, D); None = "raise Exception" *)
  Definition init_bc (n : nat) (I D : option (list nat)) : option (list nat * list nat) :=
    match I, D with
    | None, Some d => Some (complement n d, d)
    | Some i, None => Some (i, complement n i)
    | _, _ => None
    end.

  (* ---- condense (vector right-hand side):  A[I][:, I],  b[I] - A[I][:, D] @ x[D],  (x, I) *)
  Definition condense_A (A : mat) (I : list nat) : mat := msel_cols (msel_rows A I) I.
  Definition condense_b (A : mat) (b x : vec) (I D : list nat) : vec :=
    vsub (vsel b I) (matvec (msel_cols (msel_rows A I) D) (vsel x D)).
  Definition condense (A : mat) (b x : vec) (I D : option (list nat)) : option (mat * vec * vec * list nat) :=
    bind (init_bc (length A) I D) (fun ID =>
    Some (condense_A A (fst ID), condense_b A b x (fst ID) (snd ID), x, fst ID)).
  (* generalized eigenproblem: both matrices reduced, right-hand side untouched *)
  Definition condense_eig (A B : mat) (x : vec) (I D : option (list nat)) : option (mat * mat * vec * list nat) :=
    bind (init_bc (length A) I D) (fun ID =>
    Some (condense_A A (fst ID), condense_A B (fst ID), x, fst ID)).

  (* ---- solve_linear / solve_eigen expansion:  y = x.copy(); y[I] = z *)
  Definition expand (x : vec) (I : list nat) (z : vec) : vec := vset x I z.
  Definition expand_eig (x : vec) (I : list nat) (Z : list vec) : list vec := map (expand x I) Z. (* per eigenvector *)

  (* ---- CSR rows *)
  Definition slice {X} (l : list X) (lo hi : nat) : list X := firstn (hi - lo) (skipn lo l).
  Definition ipn (ip : list Z) (i : nat) : nat := Z.to_nat (nth i ip 0%Z).
  Definition csr_row (A : csr R) (i : nat) : row :=
    combine (slice (indices A) (ipn (indptr A) i) (ipn (indptr A) (S i)))
            (slice (data A) (ipn (indptr A) i) (ipn (indptr A) (S i))).
  Definition csr_nrows (A : csr R) : nat := pred (length (indptr A)).
  Definition csr_rows (A : csr R) : mat := map (csr_row A) (seq 0 (csr_nrows A)).

  (* ---- diagonal() and setdiag(d) (scipy: overwrite a stored diagonal entry, insert a missing one) *)
  Definition has_col (r : row) (j : nat) : bool := existsb (fun cv => Nat.eqb (fst cv) j) r.
  Definition setdiag_row (i : nat) (v : R) (r : row) : row :=
    if has_col r i then map (fun cv => if Nat.eqb (fst cv) i then (i, v) else cv) r else r ++ [(i, v)].
  Definition mdiag (M : mat) : vec := map2 (fun i r => dense_entry r i) (seq 0 (length M)) M.
  Definition msetdiag (M : mat) (d : vec) : mat :=
    map2 (fun i r => if i <? length d then setdiag_row i (vnth d i) r else r) (seq 0 (length M)) M.

  (* ---- enforce.  posf = the row-zeroing position arithmetic (utils.py "set rows on lhs to zero"),
          a parameter: None = the arithmetic raises *)
  Variable posf : list Z -> list Z -> option (list Z).
  Definition enforce_zeroed (A : csr R) (D : list nat) : option (csr R) :=
    bind (posf (indptr A) (map Z.of_nat D)) (fun pos =>
    bind (np_scatter_const (data A) pos (r0 o)) (fun data' =>
    Some {| indptr := indptr A; indices := indices A; data := data' |})).
  Definition enforce_diag (M : mat) (D : list nat) (diag : R) : mat :=
    msetdiag M (vset_const (mdiag M) D diag).
  Definition enforce_matrix (A : csr R) (D : list nat) (diag : R) : option mat :=
    bind (enforce_zeroed A D) (fun A' => Some (enforce_diag (csr_rows A') D diag)).
  Definition enforce_rhs (b x : vec) (D : list nat) : vec := vset b D (vsel x D).
  (* vector right-hand side *)
  Definition enforce (A : csr R) (b x : vec) (I D : option (list nat)) (diag : R) : option (mat * vec) :=
    bind (init_bc (csr_nrows A) I D) (fun ID =>
    bind (enforce_matrix A (snd ID) diag) (fun A' => Some (A', enforce_rhs b x (snd ID)))).
  (* matrix right-hand side (mass matrix): the recursive call enforce(b, D=D, diag=0.) *)
  Definition enforce_eig (A B : csr R) (I D : option (list nat)) (diag : R) : option (mat * mat) :=
    bind (init_bc (csr_nrows A) I D) (fun ID =>
    bind (enforce_matrix A (snd ID) diag) (fun A' =>
    bind (enforce_matrix B (snd ID) (r0 o)) (fun B' => Some (A', B')))).

  (* ---- penalize with weight w = 1/epsilon:  d[D] = w; setdiag(d);  bout[D] = x[D] * w *)
  Definition penalize_matrix (M : mat) (D : list nat) (w : R) : mat := msetdiag M (vset_const (mdiag M) D w).
  Definition penalize_rhs (b x : vec) (D : list nat) (w : R) : vec :=
    vset b D (map (fun v => rmul o v w) (vsel x D)).

  (* ---- the whole calls, with the defaults of _init_bc (x None -> zeros; b None and x given -> zeros_like(x))
          and the shape of the return value; exercised by the correspondence only *)
  Definition bc_defaults (n : nat) (b x : option vec) : option vec * vec :=
    match x with
    | None => (b, repeat (r0 o) n)
    | Some x' => (match b with None => Some (map (fun _ => r0 o) x') | Some _ => b end, x')
    end.
  Definition enforce_call (A : csr R) (b x : option vec) (I D : option (list nat)) (diag : R)
    : option (mat * option vec) :=
    let bx := bc_defaults (csr_nrows A) b x in
    bind (init_bc (csr_nrows A) I D) (fun ID =>
    bind (enforce_matrix A (snd ID) diag) (fun A' =>
    Some (A', match fst bx with None => None | Some b' => Some (enforce_rhs b' (snd bx) (snd ID)) end))).
  Definition condense_call (A : mat) (b x : option vec) (I D : option (list nat))
    : option (mat * option vec * vec * list nat) :=
    let bx := bc_defaults (length A) b x in
    bind (init_bc (length A) I D) (fun ID =>
    Some (condense_A A (fst ID),
          match fst bx with None => None | Some b' => Some (condense_b A b' (snd bx) (fst ID) (snd ID)) end,
          snd bx, fst ID)).
  Definition penalize_call (M : mat) (b x : option vec) (I D : option (list nat)) (w : R)
    : option (mat * option vec) :=
    let bx := bc_defaults (length M) b x in
    bind (init_bc (length M) I D) (fun ID =>
    Some (penalize_matrix M (snd ID) w,
          match fst bx with None => None | Some b' => Some (penalize_rhs b' (snd bx) (snd ID) w) end)).
End BC.
