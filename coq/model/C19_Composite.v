(* C19 — executable model of the DOF tables of composite / vector elements:
   Dofs.__init__ (assembly/dofs.py:264-333), AbstractBasis.split_indices (abstract_basis.py:324-350).

   Entity kinds K = 0 nodal, 1 edge, 2 facet, 3 interior.  A topology gives, per kind, the number G K of global
   entities and the connectivity table conn K (one row per local entity of a cell: t, t2e, t2f; for K = 3 the single
   row [0, 1, ..., ncells-1]).  A layout d gives the number of DOFs per entity of each kind (for K = 1 the effective
   number: Dofs ignores edge DOFs unless the element is three-dimensional). *)
From Coq Require Import List Arith Bool.
Import ListNotations.
Require Import Model.C19_Blocks.

Record topo := mkTopo {
  G : nat -> nat;                       (* nvertices, nedges, nfacets, nelements *)
  conn : nat -> list (list nat);        (* t, t2e, t2f, [arange(nelements)] *)
  ncells : nat
}.

(* np.reshape(np.arange(d*G), (d, G), order='F') + offset :  entry [k][g] = offset + k + d*g;
   the offset of kind K is the number of DOFs of the kinds before it *)
Definition off (tp : topo) (d : nat -> nat) (K : nat) : nat :=
  fold_right Nat.add 0 (map (fun K' => d K' * G tp K') (seq 0 K)).
Definition dof_value (tp : topo) (d : nat -> nat) (K k g : nat) : nat := off tp d K + k + d K * g.

(* nodal_dofs / edge_dofs / facet_dofs / interior_dofs as (d K) x (G K) tables *)
Definition kind_dofs (tp : topo) (d : nat -> nat) (K : nat) : list (list nat) :=
  map (fun k => map (fun g => dof_value tp d K k g) (seq 0 (G tp K))) (seq 0 (d K)).

(* element_dofs: for each kind, for each local entity itr: the rows kind_dofs[:, conn[itr]] *)
Definition element_dofs_of (tp : topo) (d : nat -> nat) : list (list nat) :=
  flat_map (fun K => flat_map (fun row => map (fun k => map (fun g => dof_value tp d K k g) row) (seq 0 (d K)))
                              (conn tp K)) (seq 0 4).

(* rows [lo : lo + cnt] (or lo :: step, cnt rows) of kind_dofs, flattened in F order: entity-major *)
Definition split_list (tp : topo) (D dn : nat -> nat) (slot : nat -> nat -> nat) : list nat :=
  flat_map (fun K => flat_map (fun g => map (fun r => dof_value tp D K (slot K r) g) (seq 0 (dn K))) (seq 0 (G tp K)))
           (seq 0 4).

(* ElementComposite: component n occupies the rows o_{n,K} .. o_{n,K} + d_{n,K} - 1 of kind K *)
Definition lay (ls : list layout) (n : nat) (K : nat) : nat := kcount (nth n ls []) K.
Definition composite_slot (ls : list layout) (n K r : nat) : nat := o_of ls n K + r.
Definition composite_split (tp : topo) (ls : list layout) (n : nat) : list nat :=
  split_list tp (D_of ls) (lay ls n) (composite_slot ls n).

(* ElementVector: component n occupies the rows n, n + dim, n + 2 dim, ... of every kind *)
Definition vector_slot (dim n : nat) (K r : nat) : nat := n + r * dim.
Definition vector_split (tp : topo) (d : nat -> nat) (dim n : nat) : list nat :=
  split_list tp (fun K => dim * d K) d (vector_slot dim n).

(* position of the row (K, itr, k) in element_dofs_of *)
Definition row_index (tp : topo) (d : nat -> nat) (K itr k : nat) : nat :=
  fold_right Nat.add 0 (map (fun K' => length (conn tp K') * d K') (seq 0 K)) + itr * d K + k.
