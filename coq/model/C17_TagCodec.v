(* C17 — model of the tag codecs of skfem/mesh/mesh.py
     Mesh._encode_cell_data  (mesh.py:323-371)   subdomain indicator, boundary bit mask per cell
     Mesh._decode_cell_data  (mesh.py:373-396)   bit test, boolean-mask gather in C order, sort, orientation
   and of the hexahedron node permutations of skfem/io/meshio.py and the npz key scheme.
   Executable definitions only.  Arrays are lists, matrices are lists of rows (row = first NumPy axis).
   The combinators below are the vocabulary of the fail-closed translator vlib/props/c17.py: Gen/C17Gen.v is
   a composition of them that follows the source statement by statement. *)
From Coq Require Import List Arith Bool ZArith NArith.
From Coq Require String Ascii.
Import ListNotations.

Definition mat (A : Type) := list (list A).
Definition get2 {A} (d : A) (m : mat A) (r c : nat) : A := nth c (nth r m []) d.

(* a[ix] *)
Definition gather {A} (d : A) (a : list A) (ix : list nat) : list A := map (fun i => nth i a d) ix.

(* NumPy index normalisation: a negative index counts from the end *)
Definition wrap (n : nat) (z : Z) : nat :=
  Z.to_nat (if (z <? 0)%Z then (z + Z.of_nat n)%Z else z).

(* boolean (nslots x nt) arrays are predicates on (row, column) *)
Definition mask := nat -> nat -> bool.
Definition zeros_mask : mask := fun _ _ => false.                       (* np.zeros_like(self.t2f) *)

(* ------------------------------------------------------------------ encode_boundary *)

(* self.f2t[(b.ori, b)] : the cell on the side `ori` of each facet (-1 = no such cell) *)
Definition f2t_pick (f2t : mat Z) (ori : list bool) (b : list nat) : list Z :=
  map (fun ob : bool * nat => get2 (- 1)%Z f2t (if fst ob then 1 else 0) (snd ob)) (combine ori b).

(* np.nonzero(self.t2f[:, columns] == b) : pairs (r, k), C order, with t2f[r][columns[k]] = b[k] *)
Definition nonzero_cols_eq (nslots nt : nat) (t2f : mat nat) (cols : list Z) (b : list nat)
  : list (nat * nat) :=
  flat_map (fun r => flat_map (fun k =>
      if get2 0 t2f r (wrap nt (nth k cols 0%Z)) =? nth k b 0 then [(r, k)] else [])
    (seq 0 (length b))) (seq 0 nslots).

(* columns[c] *)
Definition gather_z (a : list Z) (ix : list nat) : list Z := gather 0%Z a ix.

(* m[(rs, cs)] = 1 *)
Definition mask_set1 (nt : nat) (m : mask) (rs : list nat) (cs : list Z) : mask :=
  fun r c => m r c || existsb (fun rc => (fst rc =? r) && (wrap nt (snd rc) =? c)) (combine rs cs).

(* (1 << np.arange(n)) @ m  for one column *)
Fixpoint bitpack (n : nat) (m : nat -> bool) : N :=
  match n with
  | 0 => 0%N
  | S k => (bitpack k m + (if m k then 2 ^ N.of_nat k else 0))%N
  end.

(* (1 << np.arange(nslots)) @ m : one integer per cell *)
Definition bitpack_cols (nslots nt : nat) (m : mask) : list N :=
  map (fun c => bitpack nslots (fun r => m r c)) (seq 0 nt).

(* hand-written model of encode_boundary *)
Definition encode_boundary (nslots nt : nat) (t2f : mat nat) (f2t : mat Z)
           (ori : list bool) (b : list nat) : list N :=
  let cols := f2t_pick f2t ori b in
  let rc := nonzero_cols_eq nslots nt t2f cols b in
  bitpack_cols nslots nt (mask_set1 nt zeros_mask (map fst rc) (gather_z cols (map snd rc))).

(* ------------------------------------------------------------------ _decode_cell_data, 'b' branch *)

(* ((1 << np.arange(nslots))[:, None] & data.astype(np.int32)).astype(bool) *)
Definition bitmask_of (data : list N) : mask :=
  fun r c => N.testbit (nth c data 0%N) (N.of_nat r).

(* mask.nonzero() : (row, column) of the set entries in C order *)
Definition mask_pairs (nslots nt : nat) (m : mask) : list (nat * nat) :=
  flat_map (fun r => flat_map (fun c => if m r c then [(r, c)] else []) (seq 0 nt)) (seq 0 nslots).

Definition mask_rows (nslots nt : nat) (m : mask) : list nat := map fst (mask_pairs nslots nt m).
Definition mask_cols (nslots nt : nat) (m : mask) : list nat := map snd (mask_pairs nslots nt m).

(* self.t2f[mask] : boolean-mask gather, C order *)
Definition gather_mask (nslots nt : nat) (t2f : mat nat) (m : mask) : list nat :=
  map (fun rc => get2 0 t2f (fst rc) (snd rc)) (mask_pairs nslots nt m).

(* np.sort on index arrays *)
Fixpoint insert_nat (x : nat) (l : list nat) : list nat :=
  match l with
  | [] => [x]
  | y :: l' => if x <=? y then x :: l else y :: insert_nat x l'
  end.
Definition sort_nat (l : list nat) : list nat := fold_right insert_nat [] l.

(* sorting key/value pairs by key (stable insertion sort) *)
Fixpoint insert_kv {A} (x : nat * A) (l : list (nat * A)) : list (nat * A) :=
  match l with
  | [] => [x]
  | y :: l' => if fst x <=? fst y then x :: l else y :: insert_kv x l'
  end.
Definition sort_kv {A} (l : list (nat * A)) : list (nat * A) := fold_right insert_kv [] l.

(* np.argsort *)
Definition argsort (l : list nat) : list nat := map snd (sort_kv (combine l (seq 0 (length l)))).

(* np.arange(2) @ (self.f2t[:, facets] == cells) : 1 iff the cell is the second neighbour of the facet *)
Definition ori_of (f2t : mat Z) (facets cells : list nat) : list bool :=
  map (fun fc => Z.eqb (get2 (- 1)%Z f2t 1 (fst fc)) (Z.of_nat (snd fc))) (combine facets cells).

(* hand-written model of the decoding of one boundary: (facet, owner cell) pairs gathered in C order and
   sorted TOGETHER by facet *)
Definition decode_pairs (nslots nt : nat) (t2f : mat nat) (data : list N) : list (nat * nat) :=
  let m := bitmask_of data in
  sort_kv (combine (gather_mask nslots nt t2f m) (mask_cols nslots nt m)).

Definition decode_boundary (nslots nt : nat) (t2f : mat nat) (f2t : mat Z) (data : list N)
  : list nat * list bool :=
  let ps := decode_pairs nslots nt t2f data in
  (map fst ps, ori_of f2t (map fst ps) (map snd ps)).

(* OrientedBoundary(facets, ori) if ori.any() else facets *)
Definition is_oriented (ori : list bool) : bool := existsb (fun b => b) ori.

(* ------------------------------------------------------------------ subdomains *)

(* np.isin(np.arange(nt), subdomain).astype(int) *)
Definition encode_subdomain (nt : nat) (s : list nat) : list N :=
  map (fun c => if existsb (Nat.eqb c) s then 1%N else 0%N) (seq 0 nt).

(* np.nonzero(data)[0] *)
Definition nonzero_n (data : list N) : list nat :=
  flat_map (fun c => if N.eqb (nth c data 0%N) 0 then [] else [c]) (seq 0 (length data)).

Definition decode_subdomain (data : list N) : list nat := nonzero_n data.

(* ------------------------------------------------------------------ hexahedron node permutations *)

(* t[perm] on the node rows of a cell *)
Definition permute_rows {A} (d : A) (perm : list nat) (t : list A) : list A := gather d t perm.

(* [HEX_MAPPING.index(i) for i in range(len(HEX_MAPPING))] *)
Fixpoint index_of (x : nat) (l : list nat) : nat :=
  match l with
  | [] => 0
  | y :: l' => if x =? y then 0 else S (index_of x l')
  end.
Definition inverse_by_index (perm : list nat) : list nat :=
  map (fun i => index_of i perm) (seq 0 (length perm)).

Definition is_perm_of_range (l : list nat) : bool :=
  forallb (fun i => existsb (Nat.eqb i) l) (seq 0 (length l)).

(* ------------------------------------------------------------------ key schemes (cell_data names, npz) *)

Definition key_with_prefix (pre name : String.string) : String.string := String.append pre name.

(* key[:2] == pre, key[2:] *)
Definition strip_prefix2 (pre key : String.string) : option String.string :=
  if String.eqb (String.substring 0 2 key) pre
  then Some (String.substring 2 (String.length key - 2) key) else None.

Fixpoint decode_keys (pre : String.string) (keys : list String.string) : list String.string :=
  match keys with
  | [] => []
  | k :: ks => match strip_prefix2 pre k with
               | Some n => n :: decode_keys pre ks
               | None => decode_keys pre ks
               end
  end.

(* ------------------------------------------------------------------ executable coherence test *)
(* what the round trip needs from (t2f, f2t) at a tagged facet f with flag o (see Proofs: coherent1):
   the cell f2t[o][f] exists, lists f in exactly one facet slot, and for o = 0 differs from f2t[1][f] *)
Definition coherentb (nslots nt : nat) (t2f : mat nat) (f2t : mat Z) (f : nat) (o : bool) : bool :=
  let c := get2 (- 1)%Z f2t (if o then 1 else 0) f in
  (0 <=? c)%Z && (c <? Z.of_nat nt)%Z &&
  (length (filter (fun r => get2 0 t2f r (Z.to_nat c) =? f) (seq 0 nslots)) =? 1) &&
  (o || negb (Z.eqb (get2 (- 1)%Z f2t 1 f) (get2 (- 1)%Z f2t 0 f))).

Fixpoint nodupb (l : list nat) : bool :=
  match l with
  | [] => true
  | x :: l' => negb (existsb (Nat.eqb x) l') && nodupb l'
  end.

Definition coherent_tagb (nslots nt : nat) (t2f : mat nat) (f2t : mat Z) (ori : list bool) (b : list nat) : bool :=
  (length ori =? length b) && nodupb b &&
  forallb (fun fo => coherentb nslots nt t2f f2t (fst fo) (snd fo)) (combine b ori).

(* sum_{s in S} 2^s *)
Definition sum_pow2 (S : list nat) : N := fold_right (fun s acc => (2 ^ N.of_nat s + acc)%N) 0%N S.

(* the form of the decoding on the pinned tree (F7): facets sorted on their own, cells left in C order *)
Definition decode_boundary_unpaired (nslots nt : nat) (t2f : mat nat) (f2t : mat Z) (data : list N)
  : list nat * list bool :=
  let m := bitmask_of data in
  let facets := sort_nat (gather_mask nslots nt t2f m) in
  (facets, ori_of f2t facets (mask_cols nslots nt m)).

(* ---- to_dict / from_dict at the level of the key/array scheme.  A boundary is (facets, optional flags);
        dictionaries are association lists with pairwise distinct keys *)
Definition tagval := (list nat * option (list bool))%type.
Definition bdict := list (String.string * tagval).
(* to_dict: 'boundaries': {k: v.tolist()}, 'orientations': {k: v.ori.tolist() for oriented v} *)
Definition dict_boundaries (b : bdict) : list (String.string * list nat) := map (fun kv => (fst kv, fst (snd kv))) b.
Definition dict_orientations (b : bdict) : list (String.string * list bool) :=
  flat_map (fun kv => match snd (snd kv) with Some o => [(fst kv, o)] | None => [] end) b.
Fixpoint lookup {V} (k : String.string) (d : list (String.string * V)) : option V :=
  match d with
  | [] => None
  | (k', v) :: d' => if String.eqb k k' then Some v else lookup k d'
  end.
(* from_dict: boundaries = {k: array(v)}; for k, v in orientations.items(): boundaries[k] = OrientedBoundary(boundaries[k], v) *)
Definition dict_load (bs : list (String.string * list nat)) (os : list (String.string * list bool)) : bdict :=
  map (fun kf => (fst kf, (snd kf, lookup (fst kf) os))) bs.


(* ---- cell-data key scheme f"skfem:s:{name}" / f"skfem:b:{name}", parsed with name.split(':') *)
(* name.split(':') *)
Fixpoint split_on (c : Ascii.ascii) (s : String.string) : list String.string :=
  match s with
  | String.EmptyString => [String.EmptyString]
  | String.String a s' =>
      if Ascii.eqb a c then String.EmptyString :: split_on c s'
      else match split_on c s' with
           | [] => [String.String a String.EmptyString]
           | h :: t => String.String a h :: t
           end
  end.
Fixpoint has_char (c : Ascii.ascii) (s : String.string) : bool :=
  match s with
  | String.EmptyString => false
  | String.String a s' => Ascii.eqb a c || has_char c s'
  end.
(* what _decode_cell_data reads off a key: (subnames[0], subnames[1], subnames[2]) *)
Definition colon : Ascii.ascii := Ascii.ascii_of_nat 58.
Definition parse_key (key : String.string) : String.string * String.string * String.string :=
  let parts := split_on colon key in
  (nth 0 parts String.EmptyString, nth 1 parts String.EmptyString, nth 2 parts String.EmptyString).


(* name.split(':', n) : at most n splits *)
Fixpoint split_on_max (c : Ascii.ascii) (n : nat) (s : String.string) : list String.string :=
  match n with
  | 0 => [s]
  | S n' =>
      match s with
      | String.EmptyString => [String.EmptyString]
      | String.String a s' =>
          if Ascii.eqb a c then String.EmptyString :: split_on_max c n' s'
          else match split_on_max c n s' with
               | [] => [String.String a String.EmptyString]
               | h :: t => String.String a h :: t
               end
      end
  end.
Definition parse_key2 (key : String.string) : String.string * String.string * String.string :=
  let parts := split_on_max colon 2 key in
  (nth 0 parts String.EmptyString, nth 1 parts String.EmptyString, nth 2 parts String.EmptyString).


(* ---- optional key sort_t of to_dict / save_npz: present only when the flag differs from the class default *)
Definition opt_flag_save (default v : bool) : option bool := if Bool.eqb v default then None else Some v.
Definition opt_flag_load (default : bool) (o : option bool) : bool := match o with Some v => v | None => default end.

(* ---- Python dictionaries as association lists; {**a, **b} *)
Fixpoint dict_set {V} (k : String.string) (v : V) (d : list (String.string * V)) : list (String.string * V) :=
  match d with
  | [] => [(k, v)]
  | (k', v') :: d' => if String.eqb k k' then (k, v) :: d' else (k', v') :: dict_set k v d'
  end.
Definition dict_merge {V} (a b : list (String.string * V)) : list (String.string * V) :=
  fold_left (fun acc kv => dict_set (fst kv) (snd kv) acc) b a.
(* to_meshio: X = {**({} if X is None else X), **encoder()} if the flag is set, X as given otherwise *)
Definition data_option {V} (flag : bool) (user : option (list (String.string * V))) (enc : list (String.string * V))
  : option (list (String.string * V)) :=
  if flag then Some (dict_merge (match user with Some d => d | None => [] end) enc) else user.

