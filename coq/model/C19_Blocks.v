(* C19 — executable models of the vector / composite / block structures:
   COOData algebra (add, tolocal, fromlocal, inverse, dot), skfem.utils.bmat block offsets,
   ElementVector index decoding, ElementComposite._deduce_bfun, Dofs tables and split_indices.
   Builds on Model.C01_Assembly (coo, dense2, basis, interp). *)
From Coq Require Import List Arith Bool.
Import ListNotations.
Require Import Base.C01_Sums Model.C01_Assembly.

(* ====================================================================== COOData *)
Section Coo.
  Variable R : Type.
  Variables (rO : R) (radd rmul : R -> R -> R).

  Fixpoint map2 {A B C} (f : A -> B -> C) (l1 : list A) (l2 : list B) : list C :=
    match l1, l2 with
    | x :: t1, y :: t2 => f x y :: map2 f t1 t2
    | _, _ => []
    end.

  (* COOData.__add__: indices and data are concatenated, the shape is the entrywise maximum, the local shape
     is forgotten (None = []) *)
  Definition coo_add (a b : coo R) : coo R :=
    mkCoo (map2 (@app nat) (c_indices a) (c_indices b)) (c_data a ++ c_data b)
          (map2 Nat.max (c_shape a) (c_shape b)) [].

  (* sum(blocks) of asm(): python's sum starts from 0 and  0 + coo = coo *)
  Definition coo_sum (l : list (coo R)) : option (coo R) :=
    match l with
    | [] => None                                    (* asm asserts the result is not the int 0 *)
    | c :: rest => Some (fold_left coo_add rest c)
    end.

  (* ---- local matrices.  data.reshape((-1,) + local_shape, order='F'): element [e, i, j] of the result is
     data[e + nt*(i + n0*j)] *)
  Definition tolocal_F (data : list R) (ls : list nat) : option (list (list (list R))) :=
    match ls with
    | [n0; n1] =>
        let m := n0 * n1 in
        if m =? 0 then (if length data =? 0 then Some [] else None) else
        let nt := length data / m in
        if nt * m =? length data then
          Some (map (fun e => map (fun i => map (fun j => nth (e + nt * (i + n0 * j)) data rO) (seq 0 n1)) (seq 0 n0)) (seq 0 nt))
        else None
    | _ => None
    end.

  (* np.moveaxis(data.reshape(local_shape + (-1,), order='C'), -1, 0): element [e, i, j] is data[(i*n1 + j)*nt + e] *)
  Definition tolocal_Cmove (data : list R) (ls : list nat) : option (list (list (list R))) :=
    match ls with
    | [n0; n1] =>
        let m := n0 * n1 in
        if m =? 0 then (if length data =? 0 then Some [] else None) else
        let nt := length data / m in
        if nt * m =? length data then
          Some (map (fun e => map (fun i => map (fun j => nth ((i * n1 + j) * nt + e) data rO) (seq 0 n1)) (seq 0 n0)) (seq 0 nt))
        else None
    | _ => None
    end.

  Definition loc3 (L : list (list (list R))) (e i j : nat) : R := nth j (nth i (nth e L []) []) rO.

  (* local.flatten('F') of an (nt, n0, n1) array: position e + nt*(i + n0*j) holds local[e, i, j] *)
  Definition fromlocal_F (L : list (list (list R))) (nt n0 n1 : nat) : list R :=
    map (fun k => loc3 L (k mod nt) ((k / nt) mod n0) (k / (nt * n0))) (seq 0 (nt * n0 * n1)).

  (* np.moveaxis(local, 0, -1).flatten('C'): position (i*n1 + j)*nt + e holds local[e, i, j] *)
  Definition fromlocal_Cmove (L : list (list (list R))) (nt n0 n1 : nat) : list R :=
    map (fun k => loc3 L (k mod nt) (k / nt / n1) ((k / nt) mod n1)) (seq 0 (nt * n0 * n1)).

  (* COOData.dot(x, D): y = data * x[cols]; z = zeros_like(x); np.add.at(z, rows, y); z[D] = x[D] *)
  Definition set_nth {A} (k : nat) (v : A) (l : list A) : list A :=
    if k <? length l then firstn k l ++ v :: skipn (S k) l else l.

  (* the result has nr entries (zeros_like(x): nr = len(x), square data only; np.zeros(shape[0]): rectangular data) *)
  Definition coo_dot_n (nr : nat) (c : coo R) (x : list R) (D : list nat) : option (list R) :=
    let rows := nth 0 (c_indices c) [] in
    let cols := nth 1 (c_indices c) [] in
    if (length rows =? length (c_data c)) && (length cols =? length (c_data c))
       && forallb (fun r => r <? nr) rows && forallb (fun k => k <? length x) cols
       && forallb (fun d => (d <? nr) && (d <? length x)) D
    then
      let z := map (fun r => sumn rO radd (length (c_data c)) (fun k =>
                 if nth k rows 0 =? r then rmul (nth k (c_data c) rO) (nth (nth k cols 0) x rO) else rO)) (seq 0 nr) in
      Some (fold_left (fun z d => set_nth d (nth d x rO) z) D z)
    else None.                                          (* IndexError *)
  Definition coo_dot (c : coo R) (x : list R) (D : list nat) : option (list R) := coo_dot_n (length x) c x D.

  (* dense matrix times vector *)
  Definition matvec (A : list (list R)) (x : list R) : list R :=
    map (fun row => sumn rO radd (length x) (fun c => rmul (nth c row rO) (nth c x rO))) A.

  Definition mat_add (A B : list (list R)) : list (list R) := map2 (map2 radd) A B.
End Coo.

Arguments map2 {A B C}. Arguments set_nth {A}.

(* ====================================================================== skfem.utils.bmat: block offsets *)
(* for j in range(n - 1): sizes.append(width_j + diff); diff <- upd diff sizes[-1]
   (the width of block column j is taken from its first block that is not None) *)
Definition bmat_blocks_with (upd : nat -> nat -> nat) (widths : list nat) : list nat :=
  fst (fold_left (fun (st : list nat * nat) w => let '(sizes, diff) := st in
                    let s := w + diff in (sizes ++ [s], upd diff s))
                 (firstn (length widths - 1) widths) ([], 0)).

(* what np.split(x, K.blocks) needs: the prefix sums of the block-column widths, the last one omitted *)
Fixpoint prefix_sums_from (acc : nat) (widths : list nat) : list nat :=
  match widths with
  | [] => []
  | [_] => []
  | w :: rest => (acc + w) :: prefix_sums_from (acc + w) rest
  end.
Definition prefix_sums := prefix_sums_from 0.

(* ====================================================================== ElementVector.gbasis index decoding *)
(* ind = floor(i / dim);  n = i - dim * ind *)
Definition vector_decode (dim i : nat) : nat * nat := (i / dim, i - dim * (i / dim)).
Definition vector_encode (dim : nat) (p : nat * nat) : nat := fst p * dim + snd p.

(* ====================================================================== ElementComposite._deduce_bfun *)
(* an element's DOF layout: (nodal_dofs, edge_dofs, facet_dofs, interior_dofs) per entity;
   the reference cell: (nnodes, nedges, nfacets, 1) entities per cell *)
Definition layout := list nat.        (* 4 entries *)
Definition kcount (l : layout) (K : nat) : nat := nth K l 0.

(* counts = sum over components of e._bfun_counts() = per kind: (sum_j d_jK) * m_K *)
Definition bfun_counts (ref : layout) (l : layout) : list nat := map (fun K => kcount l K * kcount ref K) (seq 0 4).
Definition total_counts (ref : layout) (ls : list layout) : list nat :=
  map (fun K => fold_right Nat.add 0 (map (fun l => kcount l K * kcount ref K) ls)) (seq 0 4).

Fixpoint repeat_list {A} (l : list A) (n : nat) : list A :=
  match n with 0 => [] | S n' => l ++ repeat_list l n' end.

(* tmp = sum([[j] * elems[j].K_dofs for j in range(len(elems))], []) *)
Definition comp_pattern (ls : list layout) (K : nat) : list nat :=
  flat_map (fun j => repeat j (kcount (nth j ls []) K)) (seq 0 (length ls)).

(* ns: for each kind with counts[K] > 0:  ns += tmp * int(counts[K] / len(tmp)) *)
Definition deduce_ns (ref : layout) (ls : list layout) : list nat :=
  flat_map (fun K => let cnt := nth K (total_counts ref ls) 0 in
                     if 0 <? cnt then let tmp := comp_pattern ls K in repeat_list tmp (cnt / length tmp) else [])
           (seq 0 4).

(* inds[mask == j] = arange(total): the running index of each position among the positions of its component *)
Fixpoint running_index_from (seen : list nat) (ns : list nat) : list nat :=
  match ns with
  | [] => []
  | n :: rest => count_occ Nat.eq_dec seen n :: running_index_from (n :: seen) rest
  end.
Definition deduce_inds (ns : list nat) : list nat := running_index_from [] ns.

Definition deduce_bfun (ref : layout) (ls : list layout) (i : nat) : nat * nat :=
  let ns := deduce_ns ref ls in (nth i ns 0, nth i (deduce_inds ns) 0).

(* the closed form the proofs use: local index i = base_K + itr * D_K + (o_{n,K} + r)  |->  (n, base_{n,K} + itr * d_{n,K} + r) *)
Definition D_of (ls : list layout) (K : nat) : nat := fold_right Nat.add 0 (map (fun l => kcount l K) ls).
Definition o_of (ls : list layout) (n K : nat) : nat := D_of (firstn n ls) K.
Definition base_of (ref : layout) (d : nat -> nat) (K : nat) : nat :=
  fold_right Nat.add 0 (map (fun K' => kcount ref K' * d K') (seq 0 K)).
Definition comp_index (ref : layout) (ls : list layout) (n K itr r : nat) : nat :=
  base_of ref (kcount (nth n ls [])) K + itr * kcount (nth n ls []) K + r.
Definition whole_index (ref : layout) (ls : list layout) (n K itr r : nat) : nat :=
  base_of ref (D_of ls) K + itr * D_of ls K + (o_of ls n K + r).
