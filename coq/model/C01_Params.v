(* C01 — model of Form._normalize_asm_kwargs (form.py) and of the parameter dictionary w = {**defaults, **normalised kwargs}
   that BilinearForm / LinearForm / Functional hand to the integrand. *)
From Coq Require Import List Arith Bool.
Import ListNotations.
Require Import Model.C01_Assembly.

Section Params.
  Variable R : Type.
  Variable rO : R.
  Variable V : Type.
  Variables (vadd : V -> V -> V) (vscale : R -> V -> V).

  (* what a caller may pass as a keyword parameter *)
  Inductive raw :=
  | RField (f : nat -> nat -> V) (nq : nat)      (* a DiscreteField with nq quadrature points per cell *)
  | RNumber (s : R)                              (* numbers.Number *)
  | RTuple                                       (* the product index of asm() *)
  | RVector (u : nat -> R) (len : nat)           (* 1-d ndarray: a coefficient vector *)
  | RArray (a : nat -> nat -> V)                 (* ndarray with more than one axis *)
  | ROther.                                      (* anything else *)
  (* what the integrand sees *)
  Inductive norm := NField (f : nat -> nat -> V) | NNumber (s : R) | NTuple.

  Definition normalize_one (b : basis R V) (p : raw) : option norm :=
    match p with
    | RField f nq => if nq =? bnq b then Some (NField f) else None                (* ValueError: quadrature mismatch *)
    | RNumber s => Some (NNumber s)
    | RTuple => Some NTuple
    | RVector u len => if len =? bN b then Some (NField (interp R rO V vadd vscale b u)) else None   (* interpolate: wrong size *)
    | RArray a => Some (NField a)
    | ROther => None                                                              (* ValueError *)
    end.

  Fixpoint normalize_all (f : raw -> option norm) (kw : list (nat * raw)) : option (list (nat * norm)) :=
    match kw with
    | [] => Some []
    | (k, p) :: rest => match f p, normalize_all f rest with
                        | Some n, Some l => Some ((k, n) :: l)
                        | _, _ => None
                        end
    end.

  Fixpoint lookup {A} (k : nat) (d : list (nat * A)) : option A :=
    match d with [] => None | (k', x) :: r => if k =? k' then Some x else lookup k r end.

  (* {**defaults, **user}: the user's entry wins *)
  Definition merged {A} (defaults user : list (nat * A)) (k : nat) : option A :=
    match lookup k user with Some x => Some x | None => lookup k defaults end.

  (* value of a normalised parameter at cell e, quadrature point q (a number is the same everywhere) *)
  Definition norm_at (n : norm) (e q : nat) : option (V + R) :=
    match n with NField f => Some (inl (f e q)) | NNumber s => Some (inr s) | NTuple => None end.
End Params.

Arguments RField {R V}. Arguments RNumber {R V}. Arguments RTuple {R V}. Arguments RVector {R V}. Arguments RArray {R V}.
Arguments ROther {R V}. Arguments NField {R V}. Arguments NNumber {R V}. Arguments NTuple {R V}.
