(* C03_Orient — executable pieces for part (b) of C03: per-cell sorting of the connectivity (model of
   np.sort(t, axis=0) applied to one column), ascending-ness of the local facet/edge tables, and the helper
   used by the generated orientation expressions. No proofs here. *)
From Coq Require Import List Arith ZArith Bool.
Import ListNotations.

Fixpoint insert_nat (x : nat) (l : list nat) : list nat :=
  match l with
  | [] => [x]
  | y :: l' => if x <=? y then x :: l else y :: insert_nat x l'
  end.
Definition sort_col (l : list nat) : list nat := fold_right insert_nat [] l.

Definition b2z (b : bool) : Z := if b then 1%Z else 0%Z.

Fixpoint ascending (l : list nat) : bool :=
  match l with
  | [] => true
  | x :: l' => match l' with [] => true | y :: _ => (x <? y) && ascending l' end
  end.

(* every local facet (edge) lists its local vertex indices in ascending order, all below n *)
Definition table_ascending (n : nat) (F : list (list nat)) : bool :=
  forallb (fun f => ascending f && forallb (fun i => i <? n) f) F.

(* the global vertices of local entity f of the cell with (sorted) column t *)
Definition entity_vertices (t : list nat) (f : list nat) : list nat := map (fun i => nth i t 0) f.

(* local edge direction relative to the global direction "from the smaller to the larger vertex index" *)
Definition dirZ (a b : Z) : Z := if (a <? b)%Z then 1%Z else (-1)%Z.
Definition oriented_pair (o a b : Z) : Z * Z := if (o =? 1)%Z then (a, b) else (b, a).
