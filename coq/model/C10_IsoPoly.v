(* C10 — polynomial model of MappingIsoparametric (basis expansion of Fmap / _J / bndmap) over the exact polynomials
   of the elements' lbasis regenerated from source (vlib/c10_poly.py via the symbolic executor of group F, vlib/c09_sym.py).

   Variables of the polynomials of a cell of dimension d with nn nodes:
     0 .. d-1              the reference point X (resp. the facet parameter xi in the facet statements)
     d + k*d + i           coordinate i of node k  (mesh.doflocs[i, mesh.dofs.element_dofs[k, cell]])
   so an identity between such polynomials holds for EVERY reference point AND EVERY position of the nodes.
   Everything here is executable (vm_compute); soundness of the boolean checks is in Proofs.C10_IsoPolyProofs. *)
From Coq Require Import List Arith Bool QArith.
Import ListNotations.
Require Import Base.C09_Poly Base.C20_Ring.
Local Close Scope Q_scope.

Definition node_var (d k i : nat) : nat := d + k * d + i.

(* sum_k node(k, i) * f_k *)
Fixpoint sum_nodes (d i k : nat) (fs : list poly) : poly :=
  match fs with
  | [] => []
  | f :: t => padd (pmul (pvar (node_var d k i)) f) (sum_nodes d i (S k) t)
  end.

(* Fmap: F_i = sum_k p[i, t[k]] phi_k ;  _J: J_ij = sum_k p[i, t[k]] dphi_k[j]  (the DELIVERED dphi of lbasis) *)
Definition isoF_poly (d : nat) (phis : list poly) (i : nat) : poly := sum_nodes d i 0 phis.
Definition isoJ_poly (d : nat) (dphis : list (list poly)) (i j : nat) : poly :=
  sum_nodes d i 0 (map (fun g => nth j g []) dphis).

Definition peqb_pair (pq : poly * poly) : bool := peqb (fst pq) (snd pq).
Definition all_equal (l : list (poly * poly)) : bool := forallb peqb_pair l.
Definition idx2 (d : nat) : list (nat * nat) := list_prod (seq 0 d) (seq 0 d).

(* (formal derivative of the delivered F wrt X_j , delivered J_ij) for all i, j *)
Definition derivative_pairs (d : nat) (phis : list poly) (dphis : list (list poly)) : list (poly * poly) :=
  map (fun ij => (pderiv (snd ij) (isoF_poly d phis (fst ij)), isoJ_poly d dphis (fst ij) (snd ij))) (idx2 d).

(* ---- facets.  A facet instance: the reference-facet parametrisation Y (d polynomials in xi), the cell-local node of
   every boundary-element dof, the boundary element's basis psi (in xi), the reference normal N of the local slot *)
Record facet_inst := { fi_slot : nat; fi_order : list nat; fi_Y : list poly; fi_nodes : list nat; fi_N : list Q }.

(* substitution X := Y(xi), node variables unchanged *)
Definition on_facet (d : nat) (Y : list poly) (p : poly) : poly :=
  psubstn (fun l => if l <? d then nth l Y [] else pvar l) p.

(* bndmap: G_i = sum_m p[i, facets[m]] psi_m, with the facet's nodes expressed as cell-local nodes *)
Fixpoint sum_sel (d i : nat) (nodes : list nat) (fs : list poly) : poly :=
  match nodes, fs with
  | k :: nt, f :: t => padd (pmul (pvar (node_var d k i)) f) (sum_sel d i nt t)
  | _, _ => []
  end.
Definition isoG_poly (d : nat) (psis : list poly) (fi : facet_inst) (i : nat) : poly := sum_sel d i (fi_nodes fi) psis.

(* (F_i restricted to the reference facet, G_i) for all i *)
Definition facet_pairs (d : nat) (phis psis : list poly) (fi : facet_inst) : list (poly * poly) :=
  map (fun i => (on_facet d (fi_Y fi) (isoF_poly d phis i), isoG_poly d psis fi i)) (seq 0 d).

(* polynomials as an FOps carrier (division is not used by the adjugate / determinant terms) *)
Definition PolyOps : FOps poly :=
  {| f0 := []; f1 := pconst 1; fadd := padd; fmul := pmuln; fsub := psub; fopp := popp;
     fdiv := fun p _ => p; finv := fun p => p |}.

(* normal before normalisation and before division by det:  nu_j = sum_i adj[i, j] N_i  with adj = det * invDF evaluated on
   the delivered J at the facet point; tangent t_j = dG/dxi_j.  Pairs (nu . t_j, 0) *)
Definition normal_pairs (d : nat) (adj : (nat -> nat -> poly) -> nat -> nat -> poly)
           (dphis : list (list poly)) (psis : list poly) (fi : facet_inst) : list (poly * poly) :=
  let Jf := fun i j => pnorm (on_facet d (fi_Y fi) (isoJ_poly d dphis i j)) in
  let nu := fun j => psum (map (fun i => pscale (nth i (fi_N fi) 0%Q) (adj Jf i j)) (seq 0 d)) in
  map (fun j => (psum (map (fun i => pmul (nu i) (pderiv j (isoG_poly d psis fi i))) (seq 0 d)), [])) (seq 0 (d - 1)).

(* ---- parallelogram / parallelepiped cells: node k = node o + sum_l c_l(k) (node e_l - node o), c(k) the reference
   coordinates of vertex k, o the vertex at the reference origin, e_l the vertex with reference coordinates = unit vector l *)
Definition para_subst (d : nat) (coords : list (list Q)) (o : nat) (units : list nat) : nat -> poly :=
  fun v => if v <? d then pvar v else
    let k := (v - d) / d in let i := (v - d) mod d in
    padd (pvar (node_var d o i))
         (psum (map (fun l => pscale (nth l (nth k coords []) 0%Q)
                                     (psub (pvar (node_var d (nth l units 0%nat) i)) (pvar (node_var d o i)))) (seq 0 d))).
(* (J_ij on a parallelogram cell, node(e_j, i) - node(o, i)) : the constant affine matrix A of the corner simplex *)
Definition para_pairs (d : nat) (dphis : list (list poly)) (coords : list (list Q)) (o : nat) (units : list nat) : list (poly * poly) :=
  map (fun ij => (psubstn (para_subst d coords o units) (isoJ_poly d dphis (fst ij) (snd ij)),
                  psub (pvar (node_var d (nth (snd ij) units 0%nat) (fst ij))) (pvar (node_var d o (fst ij))))) (idx2 d).

(* ---- strictly convex quadrilaterals (vertices in the cyclic order of RefQuad): det J is the bilinear interpolant of the four
   corner-triangle determinants, and the un-normalised normal points away from the opposite vertices *)
Definition orient_poly (a b c : nat) : poly :=
  psub (pmul (psub (pvar (node_var 2 b 0)) (pvar (node_var 2 a 0))) (psub (pvar (node_var 2 c 1)) (pvar (node_var 2 a 1))))
       (pmul (psub (pvar (node_var 2 b 1)) (pvar (node_var 2 a 1))) (psub (pvar (node_var 2 c 0)) (pvar (node_var 2 a 0)))).
(* corner k of the cycle 0 1 2 3: the triangle (P_k, P_next, P_prev) *)
Definition corner_poly (k : nat) : poly := orient_poly k ((k + 1) mod 4) ((k + 3) mod 4).
(* weight of a corner with reference coordinates (cx, cy) in {0,1}^2 *)
Definition wpoly (c : bool * bool) : poly :=
  pmul (if fst c then pvar 0 else psub (pconst 1) (pvar 0)) (if snd c then pvar 1 else psub (pconst 1) (pvar 1)).
Fixpoint bilin_poly (k : nat) (flags : list (bool * bool)) : poly :=
  match flags with [] => [] | c :: t => padd (pmul (corner_poly k) (wpoly c)) (bilin_poly (S k) t) end.
Definition detJ_poly (det : (nat -> nat -> poly) -> poly) (dphis : list (list poly)) : poly :=
  det (fun i j => isoJ_poly 2 dphis i j).
Definition detJ_pairs (det : (nat -> nat -> poly) -> poly) (dphis : list (list poly)) (flags : list (bool * bool)) : list (poly * poly) :=
  [(detJ_poly det dphis, bilin_poly 0 flags)].
(* nu . (P_k - G(xi)) for the un-normalised normal nu = adj(J)^T N_s at the facet point *)
Definition nu_dot_to_vertex (adj : (nat -> nat -> poly) -> nat -> nat -> poly) (dphis : list (list poly)) (psis : list poly)
           (fi : facet_inst) (k : nat) : poly :=
  let Jf := fun i j => pnorm (on_facet 2 (fi_Y fi) (isoJ_poly 2 dphis i j)) in
  let nu := fun j => psum (map (fun i => pscale (nth i (fi_N fi) 0%Q) (adj Jf i j)) (seq 0 2)) in
  psum (map (fun i => pmul (nu i) (psub (pvar (node_var 2 k i)) (isoG_poly 2 psis fi i))) (seq 0 2)).
(* (nu . (P_k - G), - corner determinant m) for the listed (opposite vertex k, corner m) of a facet *)
Definition outward_pairs adj dphis psis (fo : facet_inst * list (nat * nat)) : list (poly * poly) :=
  map (fun km => (nu_dot_to_vertex adj dphis psis (fst fo) (fst km), popp (corner_poly (snd km)))) (snd fo).
