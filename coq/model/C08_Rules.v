(* C08 — model of skfem.quadrature.get_quadrature: a rule is a finite list of nodes with
   weights; the rules the code returns are DUMPED from the running implementation (every
   binary64 as its exact dyadic value, Gen/C08_Data*.v), nothing is hand-copied here.

   This file holds (a) the specification over Q (what "exact to degree n within tol" means for a
   reference cell that is a product of unit simplices), (b) the executable checker over Z
   (common denominators, power tables, no division), (c) the tensor-product construction and
   the comparison of a dumped rule with it.  Proofs are in Proofs/C08_RulesProofs.v. *)
From Coq Require Import ZArith List QArith Qabs Bool Arith.
Require Import Base.Corr.
Import ListNotations.

(* ------------------------------------------------------------------ rules *)

(* dumped rule: node coordinates X / sx, weights W / sw  (sx, sw powers of two in practice,
   nothing below depends on that) *)
Record drule := mkR { sx : positive; sw : positive; nodes : list (list Z * Z) }.

Inductive behaviour := Raises | Rule (r : drule).

(* a rule over Q: list of (point, weight) *)
Definition qrule := list (list Q * Q).

Definition qnode (s w : positive) (nd : list Z * Z) : list Q * Q :=
  (map (fun X => X # s) (fst nd), snd nd # w).
Definition toQ (r : drule) : qrule := map (qnode (sx r) (sw r)) (nodes r).

(* ------------------------------------------------------------------ specification over Q *)

Fixpoint qpow (x : Q) (e : nat) : Q := match e with O => 1 | S e' => x * qpow x e' end.

(* x1^e1 * x2^e2 * ... *)
Fixpoint qmono (pt : list Q) (es : list nat) : Q :=
  match pt, es with
  | x :: pt', e :: es' => qpow x e * qmono pt' es'
  | _, _ => 1
  end.

(* sum_q w_q * x_q^es *)
Fixpoint qrule_sum (R : qrule) (es : list nat) : Q :=
  match R with
  | [] => 0
  | nd :: R' => snd nd * qmono (fst nd) es + qrule_sum R' es
  end.

Fixpoint qweight_sum (R : qrule) : Q :=
  match R with [] => 0 | nd :: R' => snd nd + qweight_sum R' end.

(* A reference cell is a product of unit simplices, given by the list of their dimensions:
   point [], segment [1], triangle [2], tetrahedron [3], square [1;1], cube [1;1;1],
   prism [2;1] (triangle in x,y times segment in z). *)
Definition shape := list nat.
Definition dim (s : shape) : nat := list_sum s.

Fixpoint pfact (n : nat) : positive :=
  match n with O => 1%positive | S n' => (Pos.of_succ_nat n' * pfact n')%positive end.
Fixpoint pfacts (es : list nat) : positive :=
  match es with [] => 1%positive | e :: es' => (pfact e * pfacts es')%positive end.

(* integral of x^es over the unit d-simplex: e1! ... ed! / (e1 + ... + ed + d)!  (Dirichlet) *)
Definition simplexQ (d : nat) (es : list nat) : Q := Zpos (pfacts es) # pfact (list_sum es + d).

(* exact integral of the monomial over the product cell *)
Fixpoint exactQ (s : shape) (es : list nat) : Q :=
  match s with
  | [] => 1
  | d :: s' => simplexQ d (firstn d es) * exactQ s' (skipn d es)
  end.

(* advertised degree n: total degree <= n in the variables of each simplex factor *)
Fixpoint deg_ok (s : shape) (n : nat) (es : list nat) : Prop :=
  match s with
  | [] => True
  | d :: s' => (list_sum (firstn d es) <= n)%nat /\ deg_ok s' n (skipn d es)
  end.

Fixpoint qlist_sum (l : list Q) : Q := match l with [] => 0 | x :: l' => x + qlist_sum l' end.

(* closed cell: in every simplex factor all coordinates >= 0 and their sum <= 1 *)
Fixpoint in_cellQ (s : shape) (pt : list Q) : Prop :=
  match s with
  | [] => True
  | d :: s' => Forall (fun x => 0 <= x) (firstn d pt) /\ qlist_sum (firstn d pt) <= 1
               /\ in_cellQ s' (skipn d pt)
  end.

(* THE property of one rule: nodes in the closed cell, every monomial of the advertised degree
   integrated to within tol (the all-zero exponent is the weight sum vs the measure) *)
Definition rule_okQ (s : shape) (R : qrule) (n : nat) (tol : Q) : Prop :=
  (forall nd, In nd R -> length (fst nd) = dim s /\ in_cellQ s (fst nd)) /\
  (forall es, length es = dim s -> deg_ok s n es ->
              Qabs (qrule_sum R es - exactQ s es) <= tol).

Definition measureQ (s : shape) : Q := exactQ s (repeat O (dim s)).

(* ------------------------------------------------------------------ checker over Z *)

(* short-circuiting forallb (vm_compute is call-by-value) *)
Fixpoint all_b {A} (f : A -> bool) (l : list A) : bool :=
  match l with [] => true | a :: l' => if f a then all_b f l' else false end.

Fixpoint powtab_from (X cur : Z) (n : nat) : list Z :=
  match n with O => [cur] | S n' => cur :: powtab_from X (cur * X)%Z n' end.
(* [1; X; X^2; ...; X^n] *)
Definition powtab (n : nat) (X : Z) : list Z := powtab_from X 1%Z n.

Fixpoint znum_tab (tabs : list (list Z)) (es : list nat) : Z :=
  match tabs, es with
  | t :: ts, e :: es' => (nth e t 0 * znum_tab ts es')%Z
  | _, _ => 1%Z
  end.

Fixpoint zsum_tab (T : list (list (list Z) * Z)) (es : list nat) : Z :=
  match T with
  | [] => 0%Z
  | nd :: T' => (snd nd * znum_tab (fst nd) es + zsum_tab T' es)%Z
  end.

Fixpoint ppow (s : positive) (e : nat) : positive :=
  match e with O => 1%positive | S e' => (s * ppow s e')%positive end.
(* common denominator of all terms of the monomial es *)
Fixpoint pden (s : positive) (es : list nat) : positive :=
  match es with [] => 1%positive | e :: es' => (ppow s e * pden s es')%positive end.

(* all exponent lists of length d with sum <= n *)
Fixpoint monos_total (d n : nat) : list (list nat) :=
  match d with
  | O => [[]]
  | S d' => flat_map (fun a => map (cons a) (monos_total d' (n - a))) (seq 0 (S n))
  end.
Fixpoint monos (s : shape) (n : nat) : list (list nat) :=
  match s with
  | [] => [[]]
  | d :: s' => flat_map (fun m => map (app m) (monos s' n)) (monos_total d n)
  end.

Fixpoint in_cellb (s : shape) (pt : list Q) : bool :=
  match s with
  | [] => true
  | d :: s' => all_b (fun x => Qle_bool 0 x) (firstn d pt) && Qle_bool (qlist_sum (firstn d pt)) 1
               && in_cellb s' (skipn d pt)
  end.

Definition nodes_ok (s : shape) (r : drule) : bool :=
  all_b (fun nd => Nat.eqb (length (fst nd)) (dim s)
                   && in_cellb s (map (fun X => X # sx r) (fst nd))) (nodes r).

Definition mono_ok (s : shape) (r : drule) (n : nat) (tol : Q)
           (T : list (list (list Z) * Z)) (es : list nat) : bool :=
  all_b (fun e => Nat.leb e n) es && Nat.eqb (length es) (dim s)
  && Qle_bool (Qabs ((zsum_tab T es # (sw r * pden (sx r) es)) - exactQ s es)) tol.

Definition check_rule (s : shape) (r : drule) (n : nat) (tol : Q) : bool :=
  nodes_ok s r &&
  (let T := map (fun nd => (map (powtab n) (fst nd), snd nd)) (nodes r) in
   all_b (mono_ok s r n tol T) (monos s n)).

(* the first monomial (in enumeration order) the rule fails on, for reporting *)
Definition first_bad_mono (s : shape) (r : drule) (n : nat) (tol : Q) : option (list nat) :=
  let T := map (fun nd => (map (powtab n) (fst nd), snd nd)) (nodes r) in
  find (fun es => negb (mono_ok s r n tol T es)) (monos s n).

(* ------------------------------------------------------------------ tensor products *)

(* nodes (p1 ++ p2), weights w1 * w2; R1 is the outer loop *)
Definition tensorQ (R1 R2 : qrule) : qrule :=
  flat_map (fun n1 => map (fun n2 => (fst n1 ++ fst n2, snd n1 * snd n2)) R2) R1.

(* the same on dumped rules that share the node scale; exact products of the weights *)
Definition tensorD (r1 r2 : drule) : drule :=
  mkR (sx r1) (sw r1 * sw r2)
      (flat_map (fun n1 => map (fun n2 => (fst n1 ++ fst n2, (snd n1 * snd n2)%Z)) (nodes r2))
                (nodes r1)).

(* sum_q |wC_q/sc - wT_q/st| * (sc*st), None when the node lists differ *)
Fixpoint wdiffZ (sc st : positive) (C T : list (list Z * Z)) : option Z :=
  match C, T with
  | [], [] => Some 0%Z
  | c :: C', t :: T' =>
      if list_eqb Z.eqb (fst c) (fst t) then
        match wdiffZ sc st C' T' with
        | Some a => Some (Z.abs (snd c * Zpos st - snd t * Zpos sc) + a)%Z
        | None => None
        end
      else None
  | _, _ => None
  end.

(* C has exactly the nodes of T and the weights differ by at most delta in total *)
Definition close (C T : drule) (delta : Q) : bool :=
  Pos.eqb (sx C) (sx T) &&
  match wdiffZ (sw C) (sw T) (nodes C) (nodes T) with
  | Some a => Qle_bool (a # (sw C * sw T)) delta
  | None => false
  end.

(* the rule C returned by the code is the tensor product of r1 and r2 up to rounding of weights *)
Definition tensor_check (C r1 r2 : drule) (delta : Q) : bool :=
  Pos.eqb (sx r1) (sx r2) && close C (tensorD r1 r2) delta.

Definition tol_combine (e1 e2 delta tol : Q) : bool :=
  Qle_bool 0 e1 && Qle_bool 0 e2 && Qle_bool (e1 + e2 + e1 * e2 + delta) tol.

(* ------------------------------------------------------------------ the seven reference cells *)

Inductive cellid := CPoint | CLine | CTri | CQuad | CTet | CHex | CWedge.

Definition cshape (c : cellid) : shape :=
  match c with
  | CPoint => [] | CLine => [1] | CTri => [2] | CQuad => [1; 1]
  | CTet => [3] | CHex => [1; 1; 1] | CWedge => [2; 1]
  end%nat.

Definition cell_eqb (a b : cellid) : bool :=
  match a, b with
  | CPoint, CPoint | CLine, CLine | CTri, CTri | CQuad, CQuad | CTet, CTet | CHex, CHex
  | CWedge, CWedge => true
  | _, _ => false
  end.

(* behaviour table of get_quadrature: (cell, requested order, what happened) *)
Definition qtable := list (cellid * Z * behaviour).

Fixpoint lookup (t : qtable) (c : cellid) (n : Z) : option behaviour :=
  match t with
  | [] => None
  | (c', n', b) :: t' => if cell_eqb c c' && Z.eqb n n' then Some b else lookup t' c n
  end.

Definition tol45 : Q := 1 # (2 ^ 45).
Definition tol46 : Q := 1 # (2 ^ 46).
Definition tol48 : Q := 1 # (2 ^ 48).

(* advertised degree of the request n (negative requests promise nothing beyond degree 0) *)
Definition adv (n : Z) : nat := Z.to_nat n.

Definition entry_ok (tol : Q) (e : cellid * Z * behaviour) : Prop :=
  match e with
  | (c, n, Raises) => True
  | (c, n, Rule r) => rule_okQ (cshape c) (toQ r) (adv n) tol
  end.

Fixpoint zrange (lo : Z) (len : nat) : list Z :=
  match len with O => [] | S k => lo :: zrange (lo + 1)%Z k end.

Definition covered (t : qtable) (c : cellid) (lo hi : Z) : bool :=
  all_b (fun n => match lookup t c n with Some _ => true | None => false end)
        (zrange lo (Z.to_nat (hi - lo + 1))).

Definition tolq : Q := 3 # (2 ^ 48).      (* quadrilateral rules, intermediate for the hexahedron *)
Definition delta50 : Q := 1 # (2 ^ 50).   (* allowed total rounding of the weights of a tensor rule *)

(* sub-list of the monomial enumeration: a rule may be checked in several parts *)
Definition mpart (s : shape) (n start len : nat) : list (list nat) :=
  firstn len (skipn start (monos s n)).

(* (cell, order) pairs listed as known findings and refuted in this run are excluded from the
   property theorem (empty on a correct tree) *)
Definition excluded_b (ex : list (cellid * Z)) (c : cellid) (n : Z) : bool :=
  existsb (fun p => cell_eqb c (fst p) && Z.eqb n (snd p)) ex.

Definition entry_ok_ex (ex : list (cellid * Z)) (tol : Q) (e : cellid * Z * behaviour) : Prop :=
  if excluded_b ex (fst (fst e)) (snd (fst e)) then True else entry_ok tol e.

Definition raises_b (t : qtable) (c : cellid) (n : Z) : bool :=
  match lookup t c n with Some Raises => true | _ => false end.

(* ------------------------------------------------------------------ fast checker: outward-rounded powers
   The exact sums above involve integers of (61 n) bits.  The fast checker bounds every power
   x^e * B (B = 2^K) from below and above by integers of about K bits (floor / ceiling after every
   multiplication by X), multiplies the bounds of the coordinates exactly, and accumulates a lower and
   an upper bound of  B^d * sum_q W_q prod X_qi^ei / sx^|es|.  Sound for nodes with X >= 0. *)
Definition pstep_lo (P X v : Z) : Z := (v * X / P)%Z.
Definition pstep_hi (P X v : Z) : Z := ((v * X + P - 1) / P)%Z.
Fixpoint itab_from (P X lo hi : Z) (n : nat) : list (Z * Z) :=
  match n with
  | O => [(lo, hi)]
  | S n' => (lo, hi) :: itab_from P X (pstep_lo P X lo) (pstep_hi P X hi) n'
  end.
Definition itab (P B : Z) (n : nat) (X : Z) : list (Z * Z) := itab_from P X B B n.

Fixpoint iprod (tabs : list (list (Z * Z))) (es : list nat) : Z * Z :=
  match tabs, es with
  | t :: ts, e :: es' =>
      let lh := nth e t (0, 0)%Z in let LH := iprod ts es' in
      (fst lh * fst LH, snd lh * snd LH)%Z
  | _, _ => (1, 1)%Z
  end.

Fixpoint isum (T : list (list (list (Z * Z)) * Z)) (es : list nat) : Z * Z :=
  match T with
  | [] => (0, 0)%Z
  | nd :: T' =>
      let LH := iprod (fst nd) es in let S := isum T' es in let W := snd nd in
      if (0 <=? W)%Z then (W * fst LH + fst S, W * snd LH + snd S)%Z
      else (W * snd LH + fst S, W * fst LH + snd S)%Z
  end.

Definition imono_ok (s : shape) (r : drule) (n : nat) (tol : Q) (Bp : positive)
           (T : list (list (list (Z * Z)) * Z)) (es : list nat) : bool :=
  all_b (fun e => Nat.leb e n) es && Nat.eqb (length es) (dim s)
  && (let S := isum T es in let D := (sw r * ppow Bp (length es))%positive in
      Qle_bool (exactQ s es - tol) (fst S # D) && Qle_bool (snd S # D) (exactQ s es + tol)).

Definition nodes_nonneg (r : drule) : bool :=
  all_b (fun nd => all_b (fun X => (0 <=? X)%Z) (fst nd)) (nodes r).

(* the same table with shifts instead of divisions when the node scale P is a power of two *)
Definition sstep_lo (k X v : Z) : Z := Z.shiftr (v * X) k.
Definition sstep_hi (k P X v : Z) : Z := Z.shiftr (v * X + P - 1) k.
Fixpoint stab_from (k P X lo hi : Z) (n : nat) : list (Z * Z) :=
  match n with
  | O => [(lo, hi)]
  | S n' => (lo, hi) :: stab_from k P X (sstep_lo k X lo) (sstep_hi k P X hi) n'
  end.
Definition itab_fast (P B : Z) (n : nat) : Z -> list (Z * Z) :=
  let k := Z.log2 P in
  if (2 ^ k =? P)%Z then (fun X => stab_from k P X B B n) else itab P B n.

Definition icheck_part (s : shape) (r : drule) (n : nat) (tol : Q) (Bp : positive)
           (ms : list (list nat)) : bool :=
  let tab := itab_fast (Zpos (sx r)) (Zpos Bp) n in
  let T := map (fun nd => (map tab (fst nd), snd nd)) (nodes r) in
  all_b (imono_ok s r n tol Bp T) ms.

Definition icheck_rule (s : shape) (r : drule) (n : nat) (tol : Q) (Bp : positive) : bool :=
  nodes_ok s r && nodes_nonneg r && icheck_part s r n tol Bp (monos s n).

(* working precision of the fast checker: 2^-72 per rounding *)
Definition B72 : positive := Pos.shiftl 1 72.

(* generated rule literals share the coordinate values of a data module through a dictionary
   (the coordinates of tensor rules repeat those of the segment / triangle rules) *)
Definition decode (d : list Z) (enc : list (list N * Z)) : list (list Z * Z) :=
  map (fun nd => (map (fun i => nth (N.to_nat i) d 0%Z) (fst nd), snd nd)) enc.
