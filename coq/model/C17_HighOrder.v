(* C17 — model of the high-order node reordering of Mesh.__post_init__ (mesh.py, "reorder DOFs to the expected
   format: vertex DOFs are first") and the reference node tables of the second-order classes.
   Built on the list / scatter / _reix vocabulary of Model.C18_Surgery. *)
From Coq Require Import List Arith Bool ZArith Lia.
Import ListNotations.
Require Import Model.C18_Surgery.

(* t.flatten('F') *)
Definition flattenF (ncols : nat) (m : mat nat) : list nat := concat (transpose 0 ncols m).

Section PostInit.
  Context {P : Type}.
  Variables (zero : P) (M ncols : nat) (p : list P) (t : mat nat) (edofs_hi : mat nat).
  (* t_nodes = t[:M]; uniq, ix = np.unique(t_nodes, return_inverse=True); self.t = arange(len(uniq))[ix].reshape(...) *)
  Definition hi_vertex_rows : mat nat := firstn M t.
  Definition hi_uniq : list nat := reix_uniq hi_vertex_rows.
  Definition hi_t : mat nat := reix_t hi_vertex_rows.
  (* doflocs = hstack((p[:, uniq], zeros((dim, max(t) + 1 - len(uniq))))) *)
  Definition hi_doflocs0 : list P :=
    gather zero p hi_uniq ++ repeat zero (S (list_max (concat t)) - length hi_uniq).
  (* doflocs[:, self.dofs.element_dofs[M:].flatten('F')] = p[:, t[M:].flatten('F')] *)
  Definition hi_doflocs : list P :=
    scatter (flattenF ncols edofs_hi) (gather zero p (flattenF ncols (skipn M t))) hi_doflocs0.
End PostInit.

(* reference coordinates, doubled so that edge / face / cell midpoints are integral *)
Definition vtk_triangle6 : list (list Z) := [[0;0];[2;0];[0;2];[1;0];[1;1];[0;1]]%Z.
Definition vtk_quad9 : list (list Z) := [[0;0];[2;0];[2;2];[0;2];[1;0];[2;1];[1;2];[0;1];[1;1]]%Z.
Definition vtk_tetra10 : list (list Z) :=
  [[0;0;0];[2;0;0];[0;2;0];[0;0;2];[1;0;0];[1;1;0];[0;1;0];[0;0;1];[1;0;1];[0;1;1]]%Z.
(* VTK_TRIQUADRATIC_HEXAHEDRON: 8 corners, 12 edge midpoints (bottom ring, top ring, verticals), 6 face centres
   (x-, x+, y-, y+, z-, z+), cell centre *)
Definition vtk_hexahedron27 : list (list Z) :=
  [[0;0;0];[2;0;0];[2;2;0];[0;2;0];[0;0;2];[2;0;2];[2;2;2];[0;2;2];
   [1;0;0];[2;1;0];[1;2;0];[0;1;0];[1;0;2];[2;1;2];[1;2;2];[0;1;2];[0;0;1];[2;0;1];[2;2;1];[0;2;1];
   [0;1;1];[2;1;1];[1;0;1];[1;2;1];[1;1;0];[1;1;2];[1;1;1]]%Z.
(* the cube symmetry x -> 2 - x (point reflection in the centre, doubled coordinates) *)
Definition reflect2 (x : list Z) : list Z := map (fun c => (2 - c)%Z) x.
