(* C19 — model of Form.block (form.py): the wrapper calls the coupling form with the given argument in slot args[k] and
   arg[k].zeros() in every other slot, for each argument function k (trial, test), slots j = 0 .. M-1. *)
From Coq Require Import List Arith Bool.
Import ListNotations.

Section FormBlock.
  Variables V W R : Type.
  Variable vzero : V -> V.                      (* DiscreteField.zeros(): zeros of the SAME field *)

  Definition block_pad (M sel : nat) (x : V) : list V := map (fun j => if sel =? j then x else vzero x) (seq 0 M).

  (* form.block(i, j) of a form over M trial and M test fields *)
  Definition form_block (form : list V -> list V -> W -> R) (M i j : nat) : V -> V -> W -> R :=
    fun u v w => form (block_pad M i u) (block_pad M j v) w.
End FormBlock.
