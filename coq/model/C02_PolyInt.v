(* C02 — exact integration of polynomials (Base.C09_Poly normal forms, the polynomials of every lbasis are
   regenerated from the source by group F's symbolic executor) over the reference cells, with the closed form
   of C08 (Model.C08_Rules.exactQ: Dirichlet formula on each simplex factor, Fubini across factors):
   reference mass / stiffness matrices, the discrete (quadrature) integral of a polynomial and its error. *)
From Coq Require Import List Arith ZArith QArith Qabs Bool.
Require Import Base.Corr Base.C09_Poly Base.C09_PolyQ Model.C08_Rules.
Import ListNotations.

(* exponent list completed with zeros to the dimension of the cell *)
Definition pad (d : nat) (m : mono) : list nat := m ++ repeat O (d - length m).

(* integral of the monomial x^m over the cell s (segment [1], triangle [2], tetrahedron [3], square [1;1],
   cube [1;1;1], prism [2;1]) *)
Definition mint (s : shape) (m : mono) : Q := exactQ s (pad (dim s) m).
Fixpoint pint (s : shape) (p : poly) : Q :=
  match p with [] => 0 | t :: p' => fst t * mint s (snd t) + pint s p' end.

(* reference mass matrix  M_ij = int phi_i phi_j  and stiffness  K_ij = int grad phi_i . grad phi_j *)
Definition mass_ref (s : shape) (vals : list poly) : list (list Q) :=
  map (fun a => map (fun b => pint s (pmul a b)) vals) vals.
Definition grad_dot (d : nat) (a b : poly) : poly :=
  concat (map (fun k => pmul (pderiv k a) (pderiv k b)) (seq 0 d)).
Definition stiff_ref (s : shape) (vals : list poly) : list (list Q) :=
  map (fun a => map (fun b => pint s (grad_dot (dim s) a b)) vals) vals.
Definition qmat_eqb : list (list Q) -> list (list Q) -> bool := list_eqb (list_eqb Qeq_bool).

(* what a rule computes for the polynomial p: sum over the terms of coefficient * (sum_q w_q x_q^m) *)
Fixpoint qrule_int (R : qrule) (d : nat) (p : poly) : Q :=
  match p with [] => 0 | t :: p' => fst t * qrule_sum R (pad d (snd t)) + qrule_int R d p' end.
(* the same written point by point: sum_q w_q * p(x_q) *)
Fixpoint qrule_apply (R : qrule) (f : list Q -> Q) : Q :=
  match R with [] => 0 | nd :: R' => snd nd * f (fst nd) + qrule_apply R' f end.

Fixpoint l1 (p : poly) : Q := match p with [] => 0 | t :: p' => Qabs (fst t) + l1 p' end.

Fixpoint deg_okb (s : shape) (n : nat) (es : list nat) : bool :=
  match s with
  | [] => true
  | d :: s' => Nat.leb (list_sum (firstn d es)) n && deg_okb s' n (skipn d es)
  end.
Definition term_ok (s : shape) (n : nat) (m : mono) : bool :=
  Nat.leb (length m) (dim s) && deg_okb s n (pad (dim s) m).
Definition poly_ok (s : shape) (n : nat) (p : poly) : bool := forallb (fun t => term_ok s n (snd t)) p.
Definition products_ok (s : shape) (n : nat) (vals : list poly) : bool :=
  forallb (fun a => forallb (fun b => poly_ok s n (pmul a b)) vals) vals.

(* total degree *)
Definition mdeg (m : mono) : nat := list_sum m.
Fixpoint pdeg (p : poly) : nat := match p with [] => O | t :: p' => Nat.max (mdeg (snd t)) (pdeg p') end.

(* a generated reference element: name, cell, maxdeg attribute, exact polynomials of lbasis, mass literal *)
Record refelem := mkRef { re_shape : shape; re_maxdeg : nat; re_vals : list poly; re_mass : list (list Q) }.
Definition refelem_ok (order : nat -> nat) (e : refelem) : bool :=
  qmat_eqb (mass_ref (re_shape e) (re_vals e)) (re_mass e)
  && products_ok (re_shape e) (order (re_maxdeg e)) (re_vals e).

(* ------------------------------------------------------------------ deepening round 3 *)
(* reference stiffness TENSOR  T^{kl}_ij = int d_k phi_i d_l phi_j  (k, l < dim) *)
Definition tensor_ref (s : shape) (vals : list poly) (k l : nat) : list (list Q) :=
  map (fun a => map (fun b => pint s (pmul (pderiv k a) (pderiv l b))) vals) vals.
Definition tensors_ref (s : shape) (vals : list poly) : list (list (list (list Q))) :=
  map (fun k => map (fun l => tensor_ref s vals k l) (seq 0 (dim s))) (seq 0 (dim s)).
Definition tensors_eqb : list (list (list (list Q))) -> list (list (list (list Q))) -> bool :=
  list_eqb (list_eqb qmat_eqb).

(* reference load vectors for monomial data: int x^m phi_i *)
Definition load_ref (s : shape) (vals : list poly) (m : mono) : list Q :=
  map (fun a => pint s (pmul [(1, m)] a)) vals.
Definition loads_eqb : list (list Q) -> list (list Q) -> bool := list_eqb (list_eqb Qeq_bool).
Definition load_products_ok (s : shape) (n : nat) (vals : list poly) (ms : list mono) : bool :=
  forallb (fun m => forallb (fun a => poly_ok s n (pmul [(1, m)] a)) vals) ms.

(* mass matrix on one local facet: the shape functions restricted by the facet parametrisation F
   (variable i := F_i(s, t)), integrated over the reference facet sf with the parameter measure *)
Definition restrict (F : list poly) (p : poly) : poly := psubstn (fun i => nth i F []) p.
Definition facet_mass_ref (sf : shape) (F : list poly) (vals : list poly) : list (list Q) :=
  let tv := map (restrict F) vals in map (fun a => map (fun b => pint sf (pmul a b)) tv) tv.
