(* C10 — executable model of the evaluation methods of MappingAffine (per cell and per point; the
   cell and point axes are the pointwise trailing axes) and reference-simplex vocabulary.

   The closed forms A, b, invA, detA, B, c, detB^2 are NOT here: they are regenerated from
   mapping_affine.py (Gen.C10Gen).  The methods below are tied to the source by exact-text
   recognition in vlib/c10_tr.py (METHOD_TEXT) and by the correspondence runs:
     F      : (einsum('ijk,jl', A, X).T + b.T).T           -> mapF
     invF   : einsum('ijk,jkl->ikl', invA, (x.T - b.T).T)   -> mapInvF
     G      : (einsum('ijk,jl', B, X).T + c.T).T           -> mapG
     normals: einsum('ijkl,ik->jkl', invDF, N) / |.|        -> normal_raw (before normalisation)
   No proofs here. *)
From Coq Require Import List Arith Bool.
Import ListNotations.
Require Import Base.C20_Ring Model.C20_Tensor.

Section Map.
  Context {R : Type} {ops : FOps R}.
  Open Scope F_scope.

  Definition mapF (d : nat) (A : mat R) (b : vec R) (X : vec R) : vec R :=
    fun i => fsum d (fun j => A i j * X j) + b i.
  Definition mapInvF (d : nat) (invA : mat R) (b : vec R) (x : vec R) : vec R :=
    fun i => fsum d (fun j => invA i j * (x j - b j)).
  Definition mapG (d : nat) (B : mat R) (c : vec R) (X : vec R) : vec R :=
    fun i => fsum (d - 1) (fun j => B i j * X j) + c i.
  (* n_j = sum_i invDF[i, j] N_i  (A^{-T} N) *)
  Definition normal_raw (d : nat) (invA : mat R) (N : vec R) : vec R :=
    fun j => fsum d (fun i => invA i j * N i).
  Definition vdot (d : nat) (u v : vec R) : R := fsum d (fun i => u i * v i).
  Definition vsub (u v : vec R) : vec R := fun i => u i - v i.
  Definition matmul (d : nat) (A B : mat R) : mat R := fun i k => fsum d (fun j => A i j * B j k).

  (* MappingIsoparametric.Fmap / _J: basis expansion  F_i(X) = sum_k p[i, t[k]] phi_k(X),  J_ij = sum_k p[i, t[k]] d_j phi_k(X) *)
  Definition isoF (nv : nat) (phi : vec R -> vec R) (P : mat R) (X : vec R) : vec R :=
    fun i => fsum nv (fun k => P k i * phi X k).
  Definition isoJ (nv : nat) (dphi : vec R -> mat R) (P : mat R) (X : vec R) : mat R :=
    fun i j => fsum nv (fun k => P k i * dphi X k j).

  (* the vertex table of a facet (or of a re-ordered cell) given the list of local vertex numbers *)
  Definition sel (P : mat R) (q : list nat) : mat R := fun k i => P (nth k q 0%nat) i.
  (* barycentric coordinate of the reference point Y with respect to reference vertex k *)
  Definition bary (d : nat) (Y : vec R) (k : nat) : R :=
    match k with O => 1 - fsum d Y | S k' => Y k' end.
End Map.

(* the local vertex of a d-simplex that is not on the facet q *)
Definition opposite (d : nat) (q : list nat) : nat :=
  hd 0 (filter (fun v => negb (existsb (Nat.eqb v) q)) (seq 0 (S d))).
(* every ordering of the vertices of every local facet: mesh.facets lists the vertices of a facet sorted by GLOBAL
   number, which can be any ordering of the local slot *)
Definition orderings (facets : list (list nat)) : list (list nat) := flat_map perms facets.
