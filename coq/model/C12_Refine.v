(* C12 — executable model of uniform refinement (Mesh*._uniform, Mesh.refined).

   Meshes are cell-major: [t : list (list nat)] has one entry per cell (the COLUMNS of skfem's
   array t); [t2e], [t2f] likewise; [edges], [facets] have one vertex list per entity; a point is a
   [list Q].  The child templates, the offsets of the new vertex indices and the blocks of the new
   coordinate array are PARAMETERS here; the check instantiates them with the terms regenerated
   from the source (Gen.C12Gen).  No proofs in this file. *)
From Coq Require Import List Arith Bool ZArith QArith.
Import ListNotations.
Local Open Scope nat_scope.

(* ------------------------------------------------------------------ node references *)
Inductive nref : Type :=
| NV (i : nat)      (* t[i]             : vertex i of the parent            *)
| NE (j : nat)      (* t2e[j] + offE    : node on edge j of the parent      *)
| NF (j : nat)      (* t2f[j] + offF    : node on facet j of the parent     *)
| NC.               (* arange(nt) + offC: node in the middle of the parent  *)

Definition nref_eqb (a b : nref) : bool :=
  match a, b with
  | NV i, NV j | NE i, NE j | NF i, NF j => Nat.eqb i j
  | NC, NC => true
  | _, _ => false
  end.

Record offs := { offE : nat; offF : nat; offC : nat }.
Record cctx := { cv : list nat; ce : list nat; cf : list nat; ck : nat }.

Definition resolve (o : offs) (c : cctx) (r : nref) : nat :=
  match r with
  | NV i => nth i (cv c) 0
  | NE j => offE o + nth j (ce c) 0
  | NF j => offF o + nth j (cf c) 0
  | NC => offC o + ck c
  end.

Definition child (o : offs) (c : cctx) (tpl : list nref) : list nat := map (resolve o c) tpl.

(* np.hstack of one np.vstack block per template: block j holds child j of every cell *)
Definition block (o : offs) (cs : list cctx) (tpl : list nref) : list (list nat) :=
  map (fun c => child o c tpl) cs.
Definition refine_t (o : offs) (tpls : list (list nref)) (cs : list cctx) : list (list nat) :=
  concat (map (block o cs) tpls).

(* MeshLine1: newt[:, ::2], newt[:, 1::2] — children of a cell are adjacent *)
Definition refine_t_interleaved (o : offs) (tpls : list (list nref)) (cs : list cctx) : list (list nat) :=
  flat_map (fun c => map (child o c) tpls) cs.

(* contexts: cell k with its vertex / edge / facet rows *)
Fixpoint mk_ctxs_from (k : nat) (t t2e t2f : list (list nat)) : list cctx :=
  match t with
  | [] => []
  | v :: t' => {| cv := v; ce := hd [] t2e; cf := hd [] t2f; ck := k |}
               :: mk_ctxs_from (S k) t' (tl t2e) (tl t2f)
  end.
Definition mk_ctxs := mk_ctxs_from 0.

(* ------------------------------------------------------------------ MeshTet1: class-grouped blocks *)
(* blocks 0..3 hold all cells; then for j = 4..7 and class c = 0,1,2 the cells of class c only,
   with template (j, c):  templates list = 4 corner templates ++ [ (4,c0);(4,c1);(4,c2);(5,c0); ... ] *)
Definition cls_filter (cls : list nat) (c : nat) (cs : list cctx) : list cctx :=
  map snd (filter (fun p => Nat.eqb (fst p) c) (combine cls cs)).

Definition tet_blocks (o : offs) (tpls : list (list nref)) (cls : list nat) (cs : list cctx)
  : list (list (list nat)) :=
  map (block o cs) (firstn 4 tpls)
  ++ map (fun i => block o (cls_filter cls (i mod 3) cs) (nth (4 + i) tpls [])) (seq 0 12).
Definition refine_t_tet o tpls cls cs := concat (tet_blocks o tpls cls cs).

(* the template of inner child j (4..7) for class c is entry 4 + 3*(j-4) + c *)
Definition tet_tpl (tpls : list (list nref)) (j c : nat) : list nref :=
  if j <? 4 then nth j tpls [] else nth (4 + 3 * (j - 4) + c) tpls [].

(* rank of cell k within its class, number of cells in lower classes *)
Definition count_cls (cls : list nat) (c : nat) : nat := length (filter (Nat.eqb c) cls).
Definition rank_in_cls (cls : list nat) (k : nat) : nat :=
  count_cls (firstn k cls) (nth k cls 0).
Fixpoint lower_count (cls : list nat) (c : nat) : nat :=
  match c with 0 => 0 | S c' => lower_count cls c' + count_cls cls c' end.

(* MeshTet1._uniform's new_t:  new_t[j][k] *)
Definition tet_child_index (cls : list nat) (j k : nat) : nat :=
  let nt := length cls in
  if j <? 4 then k + j * nt
  else j * nt + lower_count cls (nth k cls 0) + rank_in_cls cls k.

(* ------------------------------------------------------------------ tag propagation *)
Fixpoint insert_nat (x : nat) (l : list nat) : list nat :=
  match l with [] => [x] | y :: l' => if x <=? y then x :: l else y :: insert_nat x l' end.
Definition sort_nat (l : list nat) : list nat := fold_right insert_nat [] l.

(* np.sort(new_t[:, ixs].flatten())  with new_t[j][k] = idx j k, N rows *)
Definition propagate (idx : nat -> nat -> nat) (N : nat) (ixs : list nat) : list nat :=
  sort_nat (flat_map (fun j => map (idx j) ixs) (seq 0 N)).

Definition fallback_index (nt j k : nat) : nat := k + j * nt.      (* Mesh.refined generic fallback *)
Definition interleaved_index (N j k : nat) : nat := N * k + j.     (* children adjacent *)

(* ------------------------------------------------------------------ coordinates *)
Definition point := list Q.

Fixpoint padd (a b : point) : point :=
  match a, b with
  | x :: a', y :: b' => (x + y)%Q :: padd a' b'
  | _, _ => []
  end.
Definition pscale (s : Q) (a : point) : point := map (Qmult s) a.
Definition psum (dim : nat) (pts : list point) : point := fold_right padd (repeat 0%Q dim) pts.
Definition gather {A} (d : A) (l : list A) (ix : list nat) : list A := map (fun i => nth i l d) ix.

Inductive ekind := KE | KF | KC.
Inductive pblock :=
| PMean (e : ekind)                (* p[:, ent].mean(axis=1)       *)
| PScaled (s : Q) (e : ekind).     (* s * np.sum(p[:, ent], axis=1) *)

Record tables := { tb_t : list (list nat); tb_edges : list (list nat); tb_facets : list (list nat);
                   tb_t2e : list (list nat); tb_t2f : list (list nat) }.

Definition ent_of (tb : tables) (e : ekind) : list (list nat) :=
  match e with KE => tb_edges tb | KF => tb_facets tb | KC => tb_t tb end.

Definition inv_nat (n : nat) : Q := (1 # (Pos.of_nat n))%Q.

(* s * (sum of the coordinates of the entity's vertices); the mean has s = 1 / #vertices *)
Definition ent_scaled (s : Q) (dim : nat) (p : list point) (ent : list nat) : point :=
  pscale s (psum dim (gather [] p ent)).
Definition ent_mean (dim : nat) (p : list point) (ent : list nat) : point :=
  ent_scaled (inv_nat (length ent)) dim p ent.

Definition pblock_eval (dim : nat) (p : list point) (tb : tables) (b : pblock) : list point :=
  match b with
  | PMean e => map (ent_mean dim p) (ent_of tb e)
  | PScaled s e => map (ent_scaled s dim p) (ent_of tb e)
  end.

Definition refine_p (dim : nat) (blocks : list pblock) (p : list point) (tb : tables) : list point :=
  p ++ flat_map (pblock_eval dim p tb) blocks.

(* offsets when every entity table is dense: blocks follow p in the order given *)
Fixpoint layout_off (blocks : list pblock) (tb : tables) (e : ekind) (acc : nat) : nat :=
  match blocks with
  | [] => 0
  | b :: bs =>
      let k := match b with PMean k | PScaled _ k => k end in
      let same := match k, e with KE, KE | KF, KF | KC, KC => true | _, _ => false end in
      if same then acc else layout_off bs tb e (acc + length (ent_of tb k))
  end.

Definition list_max (l : list nat) : nat := fold_right Nat.max 0 l.
Definition tab_max (t : list (list nat)) : nat := list_max (map list_max t).

Definition cell_ctx (tb : tables) (k : nat) : cctx :=
  {| cv := nth k (tb_t tb) []; ce := nth k (tb_t2e tb) []; cf := nth k (tb_t2f tb) []; ck := k |}.

(* ------------------------------------------------------------------ MeshTet1: the diagonal choice *)
Definition Qltb (a b : Q) : bool := (Qnum a * QDen b <? Qnum b * QDen a)%Z.
Definition coord (p : list point) (i d : nat) : Q := nth d (nth i p []) 0%Q.

(* d = sum over dims of (newp[dim, t2e[a]] - newp[dim, t2e[b]])^2 *)
Definition diag_len2 (newp : list point) (oE : nat) (c : cctx) (dg : list nat * nat * nat) : Q :=
  let '(dims, a, b) := dg in
  let ia := oE + nth a (ce c) 0 in let ib := oE + nth b (ce c) 0 in
  fold_right (fun d acc => let x := (coord newp ia d - coord newp ib d)%Q in (x * x + acc)%Q) 0%Q dims.

Definition eval_class (I : list bool) (lits : list (bool * nat)) : bool :=
  forallb (fun l => Bool.eqb (fst l) (nth (snd l) I false)) lits.

(* index of the first class mask that holds (3 = none: cell dropped from the inner blocks) *)
Definition first_true (l : list bool) : nat :=
  (fix go (l : list bool) (k : nat) := match l with [] => k | b :: l' => if b then k else go l' (S k) end) l 0.

Definition tet_choice (diags : list (list nat * nat * nat)) (comps : list (nat * nat))
  (classes : list (list (bool * nat))) (newp : list point) (oE : nat) (c : cctx) : list bool :=
  let d := map (diag_len2 newp oE c) diags in
  let I := map (fun ab => Qltb (nth (fst ab) d 0%Q) (nth (snd ab) d 0%Q)) comps in
  map (eval_class I) classes.

(* ------------------------------------------------------------------ one uniform step, all types *)
Record spec := { sp_tpls : list (list nref); sp_pblocks : list pblock;
                 sp_off : nat -> nat -> nat -> offs  (* sz maxE maxF *) }.

Definition offs_of (s : spec) (p : list point) (tb : tables) : offs :=
  sp_off s (length p) (tab_max (tb_t2e tb)) (tab_max (tb_t2f tb)).

Definition uniform_block (s : spec) (dim : nat) (p : list point) (tb : tables) : list point * list (list nat) :=
  (refine_p dim (sp_pblocks s) p tb,
   refine_t (offs_of s p tb) (sp_tpls s) (mk_ctxs (tb_t tb) (tb_t2e tb) (tb_t2f tb))).

Definition uniform_line (s : spec) (p : list point) (tb : tables) : list point * list (list nat) :=
  (refine_p 1 (sp_pblocks s) p tb,
   refine_t_interleaved (offs_of s p tb) (sp_tpls s) (mk_ctxs (tb_t tb) (tb_t2e tb) (tb_t2f tb))).

Definition uniform_tet (s : spec) diags comps classes (p : list point) (tb : tables)
  : list point * list (list nat) * list nat :=
  let newp := refine_p 3 (sp_pblocks s) p tb in
  let o := offs_of s p tb in
  let cs := mk_ctxs (tb_t tb) (tb_t2e tb) (tb_t2f tb) in
  let cls := map (fun c => first_true (tet_choice diags comps classes newp (offE o) c)) cs in
  (newp, refine_t_tet o (sp_tpls s) cls cs, cls).

(* ------------------------------------------------------------------ boundary facets (tri, quad) *)
(* local facet b of a cell (vertex list) for the facet table [rf] of the reference cell, as a sorted list *)
Definition local_facet (rf : list (list nat)) (cell : list nat) (b : nat) : list nat :=
  sort_nat (gather 0 cell (nth b rf [])).

(* one numpy statement  new_facets[r, t2f[a]] = m.t2f[b, arange(nt) + c*nt]  performed cell by cell;
   the value stored is the vertex set of that new facet (m.t2f is injective on vertex sets) *)
Definition bwrite := (nat * nat * list nat)%type.   (* row, old facet id, new facet's vertex set *)

Definition bwrites (rf : list (list nat)) (newt : list (list nat)) (nt : nat) (t2f : list (list nat))
  (asg : list (nat * nat * nat * nat)) : list bwrite :=
  flat_map (fun s => let '(r, a, b, c) := s in
              map (fun k => (r, nth a (nth k t2f []) 0, local_facet rf (nth (fallback_index nt c k) newt []) b))
                  (seq 0 nt)) asg.

(* last write wins *)
Definition new_facets_at (ws : list bwrite) (r f : nat) : option (list nat) :=
  fold_left (fun acc w => let '(r', f', v) := w in if Nat.eqb r r' && Nat.eqb f f' then Some v else acc) ws None.

(* the propagated boundary: for each tagged old facet both rows *)
Definition propagate_boundary (ws : list bwrite) (ixs : list nat) : list (option (list nat)) :=
  flat_map (fun f => [new_facets_at ws 0 f; new_facets_at ws 1 f]) ixs.

(* ------------------------------------------------------------------ refined(k) *)
(* [tabs] stands for build_entities (C11): any function from connectivity to tables *)
Fixpoint refined_k (step : list point -> tables -> list point * list (list nat))
  (tabs : list (list nat) -> tables) (k : nat) (p : list point) (t : list (list nat))
  : list point * list (list nat) :=
  match k with
  | 0 => (p, t)
  | S k' => let '(p', t') := step p (tabs t) in refined_k step tabs k' p' t'
  end.

(* ------------------------------------------------------------------ geometry of the templates *)
(* barycentric weights (w.r.t. the parent simplex with nv vertices) of a node reference *)
Definition unitw (nv i : nat) : list Q := map (fun k => if Nat.eqb k i then 1%Q else 0%Q) (seq 0 nv).
Definition meanw (nv : nat) (vs : list nat) : list Q :=
  pscale (inv_nat (length vs)) (psum nv (map (unitw nv) vs)).

Definition nref_weights (nv : nat) (redges rfacets : list (list nat)) (r : nref) : list Q :=
  match r with
  | NV i => unitw nv i
  | NE j => meanw nv (nth j redges [])
  | NF j => meanw nv (nth j rfacets [])
  | NC => meanw nv (seq 0 nv)
  end.

(* reference coordinates of a node reference (for the tensor cells) *)
Definition nref_refcoord (dim : nat) (rp : list point) (redges rfacets : list (list nat)) (r : nref) : point :=
  match r with
  | NV i => nth i rp []
  | NE j => let e := nth j redges [] in pscale (inv_nat (length e)) (psum dim (gather [] rp e))
  | NF j => let e := nth j rfacets [] in pscale (inv_nat (length e)) (psum dim (gather [] rp e))
  | NC => pscale (inv_nat (length rp)) (psum dim rp)
  end.

Definition Qeqb' (a b : Q) : bool := Qeq_bool a b.
Fixpoint point_eqb (a b : point) : bool :=
  match a, b with
  | [], [] => true
  | x :: a', y :: b' => Qeqb' x y && point_eqb a' b'
  | _, _ => false
  end.

(* child j of a tensor cell is the sub-cube with corner o: refcoord(tpl[i]) = o + rp[i]/2 *)
Definition is_subcube (dim : nat) (rp : list point) redges rfacets (tpl : list nref) (o : point) : bool :=
  (length tpl =? length rp) &&
  forallb (fun ir => point_eqb (nref_refcoord dim rp redges rfacets (fst ir))
                               (padd o (pscale (1 # 2)%Q (snd ir))))
          (combine tpl rp).

(* determinants *)
Definition det2 (a b c d : Q) : Q := (a * d - b * c)%Q.
Definition det3 (a1 a2 a3 b1 b2 b3 c1 c2 c3 : Q) : Q :=
  (a1 * (b2 * c3 - b3 * c2) - a2 * (b1 * c3 - b3 * c1) + a3 * (b1 * c2 - b2 * c1))%Q.
Definition det4 (m : list (list Q)) : Q :=
  match m with
  | [[a1; a2; a3; a4]; [b1; b2; b3; b4]; [c1; c2; c3; c4]; [d1; d2; d3; d4]] =>
      (a1 * det3 b2 b3 b4 c2 c3 c4 d2 d3 d4 - a2 * det3 b1 b3 b4 c1 c3 c4 d1 d3 d4
      + a3 * det3 b1 b2 b4 c1 c2 c4 d1 d2 d4 - a4 * det3 b1 b2 b3 c1 c2 c3 d1 d2 d3)%Q
  | _ => 0%Q
  end.
Definition det3m (m : list (list Q)) : Q :=
  match m with
  | [[a1; a2; a3]; [b1; b2; b3]; [c1; c2; c3]] => det3 a1 a2 a3 b1 b2 b3 c1 c2 c3
  | _ => 0%Q
  end.

(* ------------------------------------------------------------------ finite check of the boundary assignments *)
Definition asg_row (s : nat * nat * nat * nat) : nat := fst (fst (fst s)).
Definition asg_a (s : nat * nat * nat * nat) : nat := snd (fst (fst s)).
Definition asg_b (s : nat * nat * nat * nat) : nat := snd (fst s).
Definition asg_c (s : nat * nat * nat * nat) : nat := snd s.
Definition rows_of (r : nat) (asg : list (nat * nat * nat * nat)) := filter (fun s => Nat.eqb (asg_row s) r) asg.

Fixpoint list_eqb_nat (a b : list nat) : bool :=
  match a, b with
  | [], [] => true
  | x :: a', y :: b' => Nat.eqb x y && list_eqb_nat a' b'
  | _, _ => false
  end.

(* statement (r, a, b, c):  new_facets[r, t2f[a]] = m.t2f[b, child c].  Local facet b of template c must consist of
   the node on parent facet a and of ONE endpoint e of parent facet a: Some e *)
Definition stmt_end (rf : list (list nat)) (tpls : list (list nref)) (s : nat * nat * nat * nat) : option nat :=
  let tpl := nth (asg_c s) tpls [] in
  let lf := nth (asg_b s) rf [] in
  let x := nth (nth 0 lf 0) tpl NC in let y := nth (nth 1 lf 0) tpl NC in
  if (length lf =? 2) && (asg_c s <? length tpls) && (asg_a s <? length rf) then
    match x, y with
    | NV e, NF a' | NF a', NV e => if Nat.eqb a' (asg_a s) then Some e else None
    | _, _ => None
    end
  else None.

(* the statements at the same position of rows 0 and 1 address the same old facet and deliver its two different ends *)
Definition pair_ok (rf : list (list nat)) (tpls : list (list nref)) (ss : (nat * nat * nat * nat) * (nat * nat * nat * nat)) : bool :=
  match stmt_end rf tpls (fst ss), stmt_end rf tpls (snd ss) with
  | Some e0, Some e1 =>
      let lf := nth (asg_a (fst ss)) rf [] in
      (length lf =? 2) &&
      ((Nat.eqb e0 (nth 0 lf 0) && Nat.eqb e1 (nth 1 lf 0)) || (Nat.eqb e0 (nth 1 lf 0) && Nat.eqb e1 (nth 0 lf 0)))
  | _, _ => false
  end.

(* rows 0 and 1 address the old facets in the same order (so that the same cell wins both rows of a shared facet), every
   pair is right, every local facet is addressed, there are no other rows *)
Definition bassign_ok (rf : list (list nat)) (tpls : list (list nref)) (asg : list (nat * nat * nat * nat)) : bool :=
  forallb (pair_ok rf tpls) (combine (rows_of 0 asg) (rows_of 1 asg))
  && list_eqb_nat (map asg_a (rows_of 0 asg)) (map asg_a (rows_of 1 asg))
  && forallb (fun a => existsb (fun s => Nat.eqb (asg_a s) a) (rows_of 0 asg)) (seq 0 (length rf))
  && forallb (fun s => asg_row s <? 2) asg.

(* ------------------------------------------------------------------ second-order classes *)
(* how MeshXxx2._uniform / _adaptive is written: through from_mesh alone (all tags dropped before the linear class
   refines) or through the linear class carrying the subdomains, which are copied back *)
Inductive via2 := ViaFromMesh | ViaCarry.
(* M = what refinement sees of a mesh (vertex connectivity and tags); lin = refinement by the first-order class *)
Definition refine_second {M} (v : via2) (lin : M -> M) (drop_tags : M -> M) (m : M) : M :=
  match v with ViaCarry => lin m | ViaFromMesh => lin (drop_tags m) end.

(* ------------------------------------------------------------------ Mesh.refined: the dispatch on the argument *)
(* what a caller may pass: a scalar (Python / NumPy integer; a bool is a scalar), an index collection, a boolean mask *)
Inductive rarg : Type :=
| RScalar (n : Z)
| RIndex (ix : list nat)
| RMask (mask : list bool).

(* np.nonzero(mask)[0] *)
Definition nonzero (mask : list bool) : list nat :=
  filter (fun k => nth k mask false) (seq 0 (length mask)).

(* M = the mesh; [ustep] = one pass of the uniform loop body (m._uniform() and the generic subdomain fallback);
   [adapt ix] = m._adaptive(ix) *)
Definition refined_dispatch {M : Type} (ustep : M -> M) (adapt : list nat -> M -> M) (arg : rarg) (m : M) : M :=
  match arg with
  | RScalar n => Nat.iter (Z.to_nat n) ustep m        (* for _ in range(n): n <= 0 -> the mesh itself *)
  | RIndex ix => adapt ix m
  | RMask b => adapt (nonzero b) m
  end.
