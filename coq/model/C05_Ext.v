(* C05 extensions: (a) index arrays with repeated entries denote a set: _flatten_dofs keeps the first occurrences in
   order (np.unique(S, return_index=True); S[np.sort(ix)]); (b) a setdiag that is right for ANY storage, also with
   duplicate (row, col) entries whose meaning is their sum (scipy sums duplicates): all stored entries of the diagonal
   position are replaced by one; used for the dense-level statements about enforce / penalize. *)
From Coq Require Import List ZArith Bool Arith.
Import ListNotations.
Require Import Base.C05_Np Model.C05_BC.

Fixpoint dedup_first_aux (seen l : list nat) : list nat :=
  match l with
  | [] => []
  | x :: t => if memb x seen then dedup_first_aux seen t else x :: dedup_first_aux (x :: seen) t
  end.
Definition dedup_first (l : list nat) : list nat := dedup_first_aux [] l.

Section Ext.
  Context {R : Type} (o : ring_ops R).
  Local Notation row := (list (nat * R)).
  Local Notation mat := (list (list (nat * R))).

  Definition setdiag_row_sum (i : nat) (v : R) (r : row) : row :=
    filter (fun cv => negb (Nat.eqb (fst cv) i)) r ++ [(i, v)].
  Definition msetdiag_sum (M : mat) (d : list R) : mat :=
    map2 (fun i r => if i <? length d then setdiag_row_sum i (vnth o d i) r else r) (seq 0 (length M)) M.
  Variable posf : list Z -> list Z -> option (list Z).
  (* enforce / penalize on arbitrary CSR storage, observed through the dense semantics *)
  Definition enforce_matrix_sum (A : csr R) (D : list nat) (diag : R) : option mat :=
    bind (enforce_zeroed o posf A D) (fun A' =>
    let M := csr_rows A' in Some (msetdiag_sum M (vset_const (mdiag o M) D diag))).
  Definition penalize_matrix_sum (M : mat) (D : list nat) (w : R) : mat :=
    msetdiag_sum M (vset_const (mdiag o M) D w).
  Definition dense_rows (n : nat) (M : mat) : list (list R) := map (fun r => map (fun j => dense_entry o r j) (seq 0 n)) M.
End Ext.
