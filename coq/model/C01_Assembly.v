(* C01 — executable model of finite element assembly (skfem/assembly/form/*.py, AbstractBasis.interpolate).

   Everything is over an arbitrary carrier R with ring operations (no laws are needed to RUN the model;
   the laws are Section hypotheses of Proofs.C01_AssemblyProofs) and an arbitrary type V of "values of a
   basis function at one quadrature point" (value, gradient, ... of all components) with the two
   operations interpolation needs.  NumPy arrays are lists; writes that NumPy would reject return None. *)
From Coq Require Import List Arith Bool.
Import ListNotations.
Require Import Base.C01_Sums.

Definition bind {A B} (o : option A) (k : A -> option B) : option B :=
  match o with Some a => k a | None => None end.

(* ---------- NumPy pieces ---------- *)

(* a[lo:hi] = v.  The slice is clipped at the array bounds; v must have the length of the slice or
   length 1 (broadcast); otherwise NumPy raises ValueError (None). *)
Definition slice_set {A} (lo hi : nat) (v : list A) (a : list A) : option (list A) :=
  let n := length a in
  let lo' := Nat.min lo n in
  let hi' := Nat.max lo' (Nat.min hi n) in
  let m := hi' - lo' in
  if length v =? m then Some (firstn lo' a ++ v ++ skipn hi' a)
  else match v with
       | [x] => Some (firstn lo' a ++ repeat x m ++ skipn hi' a)
       | _ => None
       end.

(* for i in range(n): st = body i st   (an exception inside the body aborts) *)
Fixpoint for_list {S} (l : list nat) (body : nat -> S -> option S) (st : S) : option S :=
  match l with
  | [] => Some st
  | i :: l' => bind (body i st) (for_list l' body)
  end.
Definition for_range {S} (n : nat) (body : nat -> S -> option S) (st : S) : option S :=
  for_list (seq 0 n) body st.

(* a C-contiguous 3-d array: shape and flat buffer; element [x,y,z] lives at (x*d1+y)*d2+z *)
Record nd3 (A : Type) := mkNd3 { nd_d0 : nat; nd_d1 : nat; nd_d2 : nat; nd_buf : list A }.
Arguments mkNd3 {A}. Arguments nd_d0 {A}. Arguments nd_d1 {A}. Arguments nd_d2 {A}. Arguments nd_buf {A}.

Definition nd3_zeros {A} (z : A) (d0 d1 d2 : nat) : nd3 A := mkNd3 d0 d1 d2 (repeat z (d0 * d1 * d2)).

(* a[x, y, :] = v   (IndexError when x or y is out of range) *)
Definition nd3_set_row {A} (x y : nat) (v : list A) (a : nd3 A) : option (nd3 A) :=
  if (x <? nd_d0 a) && (y <? nd_d1 a) then
    bind (slice_set ((x * nd_d1 a + y) * nd_d2 a) ((x * nd_d1 a + y) * nd_d2 a + nd_d2 a) v (nd_buf a))
         (fun b => Some (mkNd3 (nd_d0 a) (nd_d1 a) (nd_d2 a) b))
  else None.

(* a.flatten('C') *)
Definition flattenC {A} (a : nd3 A) : list A := nd_buf a.

Section Assembly.
  Variable R : Type.
  Variables (rO rI : R) (radd rmul rsub : R -> R -> R) (ropp : R -> R).
  Variable V : Type.                      (* values of one (tuple of) DiscreteField(s) at one quadrature point *)
  Variable W : Type.                      (* values of the parameter dictionary w at one quadrature point *)
  Variables (vadd : V -> V -> V) (vscale : R -> V -> V).

  (* what a Basis object offers to the assembler *)
  Record basis := mkBasis {
    bN : nat;                             (* basis.N      number of global DOFs *)
    bNbfun : nat;                         (* basis.Nbfun  local basis functions *)
    bnelems : nat;                        (* basis.nelems *)
    bnq : nat;                            (* basis.X.shape[-1] = dx.shape[1] *)
    bedofs : list (list nat);             (* basis.element_dofs : Nbfun rows of length nelems *)
    bB : nat -> nat -> nat -> V;          (* basis.basis[i] at (cell e, quadrature point q) *)
    bdx : nat -> nat -> R                 (* basis.dx[e, q] *)
  }.

  Definition element_dofs (b : basis) (i : nat) : list nat := nth i (bedofs b) [].

  (* np.sum(g, axis=1) of an (nt, nq) array *)
  Definition sum_axis1 (nt nq : nat) (g : nat -> nat -> R) : list R :=
    map (fun e => sumn rO radd nq (g e)) (seq 0 nt).

  (* COOData(indices, data, shape, local_shape) *)
  Record coo := mkCoo { c_indices : list (list nat); c_data : list R; c_shape : list nat;
                        c_local : list nat }.

  Definition st3 := (nd3 R * list nat * list nat)%type.

  (* ---------- BilinearForm._kernel / _assemble (serial branch), bilinear_form.py:58-128,150-151 ---------- *)
  Definition bilinear_kernel (form : V -> V -> W -> R) (u v : nat -> nat -> V) (w : nat -> nat -> W)
      (dx : nat -> nat -> R) (nt nq : nat) : list R :=
    sum_axis1 nt nq (fun e q => rmul (form (u e q) (v e q) (w e q)) (dx e q)).

  Definition bilinear_assemble (form : V -> V -> W -> R) (w : nat -> nat -> W)
      (ubasis : basis) (vbasis0 : option basis) : option coo :=
    let vbasis := match vbasis0 with None => ubasis | Some b => b end in
    if (match vbasis0 with None => false | Some b => negb (bnq ubasis =? bnq b) end) then None else
    let nt := bnelems ubasis in
    let dx := bdx ubasis in
    let nq := bnq ubasis in
    let sz := bNbfun ubasis * bNbfun vbasis * nt in
    let data := nd3_zeros rO (bNbfun ubasis) (bNbfun vbasis) nt in
    let rows := repeat 0 sz in
    let cols := repeat 0 sz in
    bind (for_range (bNbfun ubasis) (fun j => for_range (bNbfun vbasis) (fun i (st : st3) =>
            let '(data, rows, cols) := st in
            let lo := nt * (bNbfun vbasis * j + i) in
            let hi := nt * (bNbfun vbasis * j + i + 1) in
            bind (slice_set lo hi (element_dofs vbasis i) rows) (fun rows =>
            bind (slice_set lo hi (element_dofs ubasis j) cols) (fun cols =>
            bind (nd3_set_row j i (bilinear_kernel form (bB ubasis j) (bB vbasis i) w dx nt nq) data) (fun data =>
            Some (data, rows, cols))))))
          (data, rows, cols))
    (fun st => let '(data, rows, cols) := st in
      Some (mkCoo [rows; cols] (flattenC data) [bN vbasis; bN ubasis] [bNbfun vbasis; bNbfun ubasis])).

  (* ---------- LinearForm._kernel / _assemble, linear_form.py:18-49 ---------- *)
  Definition linear_kernel (form : V -> W -> R) (v : nat -> nat -> V) (w : nat -> nat -> W)
      (dx : nat -> nat -> R) (nt nq : nat) : list R :=
    sum_axis1 nt nq (fun e q => rmul (form (v e q) (w e q)) (dx e q)).

  Definition linear_assemble (form : V -> W -> R) (w : nat -> nat -> W) (ubasis : basis) : option coo :=
    let vbasis := ubasis in
    let nt := bnelems vbasis in
    let dx := bdx vbasis in
    let nq := bnq vbasis in
    let sz := bNbfun vbasis * nt in
    let data := repeat rO sz in
    let rows := repeat 0 sz in
    bind (for_range (bNbfun vbasis) (fun i (st : list R * list nat) =>
            let '(data, rows) := st in
            let lo := nt * i in
            let hi := nt * (i + 1) in
            bind (slice_set lo hi (element_dofs vbasis i) rows) (fun rows =>
            bind (slice_set lo hi (linear_kernel form (bB vbasis i) w dx nt nq) data) (fun data =>
            Some (data, rows))))
          (data, rows))
    (fun st => let '(data, rows) := st in
      Some (mkCoo [rows] data [bN vbasis] [bNbfun vbasis])).

  (* ---------- Functional._kernel / elemental / _assemble, functional.py:19-61 ---------- *)
  Definition functional_elemental (form : W -> R) (w : nat -> nat -> W) (v : basis) : list R :=
    map (fun e => sumn rO radd (bnq v) (fun q => rmul (form (w e q)) (bdx v e q))) (seq 0 (bnelems v)).

  Definition functional_assemble (form : W -> R) (w : nat -> nat -> W) (ubasis : basis) : coo :=
    mkCoo [] [sum_list rO radd (functional_elemental form w ubasis)] [] [].

  (* ---------- COOData._assemble_scipy_csr / toarray: duplicate triplets are summed ---------- *)
  Definition dense2 (rows cols : list nat) (data : list R) (nr nc : nat) : option (list (list R)) :=
    if (length rows =? length data) && (length cols =? length data)
       && forallb (fun r => r <? nr) rows && forallb (fun c => c <? nc) cols
    then Some (map (fun r => map (fun c =>
                 sumn rO radd (length data) (fun k =>
                   if nth k rows 0 =? r then if nth k cols 0 =? c then nth k data rO else rO else rO))
               (seq 0 nc)) (seq 0 nr))
    else None.                                        (* scipy: ValueError *)

  Definition dense1 (rows : list nat) (data : list R) (nr : nat) : option (list R) :=
    if (length rows =? length data) && forallb (fun r => r <? nr) rows
    then Some (map (fun r => sumn rO radd (length data) (fun k =>
                 if nth k rows 0 =? r then nth k data rO else rO)) (seq 0 nr))
    else None.

  Definition to_dense2 (c : coo) : option (list (list R)) :=
    match c_shape c with
    | [nr; nc] => dense2 (nth 0 (c_indices c) []) (nth 1 (c_indices c) []) (c_data c) nr nc
    | _ => None
    end.

  Definition to_dense1 (c : coo) : option (list R) :=
    match c_shape c with
    | [nr] => dense1 (nth 0 (c_indices c) []) (c_data c) nr
    | _ => None
    end.

  (* todefault() of a 0-tensor: np.sum(data, axis=0) *)
  Definition to_scalar (c : coo) : R := sum_list rO radd (c_data c).

  (* ---------- AbstractBasis.interpolate (abstract_basis.py:271-322) at one cell and quadrature point:
       out = 0. * (w[element_dofs[0]] * basis[0]);  for i in range(Nbfun): out += w[element_dofs[i]] * basis[i] *)
  Definition interp (b : basis) (w : nat -> R) (e q : nat) : V :=
    let term i := vscale (w (nth e (element_dofs b i) 0)) (bB b i e q) in
    fold_left (fun out i => vadd out (term i)) (seq 0 (bNbfun b)) (vscale rO (term 0)).

  (* ---------- the quantities the property speaks about ---------- *)
  Definition vAu (v : nat -> R) (A : list (list R)) (u : nat -> R) (nr nc : nat) : R :=
    sumn rO radd nr (fun r => sumn rO radd nc (fun c => rmul (rmul (v r) (nth c (nth r A []) rO)) (u c))).

  Definition bv (b : list R) (v : nat -> R) (nr : nat) : R :=
    sumn rO radd nr (fun r => rmul (nth r b rO) (v r)).

  (* sum over cells and quadrature points of an integrand times dx *)
  Definition integrate (nt nq : nat) (g : nat -> nat -> R) (dx : nat -> nat -> R) : R :=
    sumn rO radd nt (fun e => sumn rO radd nq (fun q => rmul (g e q) (dx e q))).

  (* ---------- restriction of a basis to a list of cells/facets (elements=..., facets=...) ---------- *)
  Definition gather {A} (d : A) (row : list A) (tind : list nat) : list A := map (fun t => nth t row d) tind.
  Definition subset_basis (b : basis) (tind : list nat) : basis :=
    mkBasis (bN b) (bNbfun b) (length tind) (bnq b)
            (map (fun row => gather 0 row tind) (bedofs b))
            (fun i k q => bB b i (nth k tind 0) q)
            (fun k q => bdx b (nth k tind 0) q).

  (* well-formed basis: Nbfun rows, each nelems long, all entries < N *)
  Definition wf_basis (b : basis) : Prop :=
    length (bedofs b) = bNbfun b /\
    forall i, i < bNbfun b -> length (element_dofs b i) = bnelems b /\
                              forall e, e < bnelems b -> nth e (element_dofs b i) 0 < bN b.

  Definition wf_basisb (b : basis) : bool :=
    (length (bedofs b) =? bNbfun b) &&
    forallb (fun row => (length row =? bnelems b) && forallb (fun d => d <? bN b) row) (bedofs b).
End Assembly.

Arguments mkBasis {R V}. Arguments bN {R V}. Arguments bNbfun {R V}. Arguments bnelems {R V}.
Arguments bnq {R V}. Arguments bedofs {R V}. Arguments bB {R V}. Arguments bdx {R V}.
Arguments element_dofs {R V}. Arguments mkCoo {R}. Arguments c_indices {R}. Arguments c_data {R}.
Arguments c_shape {R}. Arguments c_local {R}. Arguments wf_basis {R V}. Arguments wf_basisb {R V}.
Arguments subset_basis {R V}. Arguments gather {A}.
