(* C16 — Threaded assembly equals serial assembly under every schedule.
   Only statements; proofs live in Proofs.ThreadsProofs, the tie to the source in Dyn.C16Tie. *)
From Coq Require Import List Arith Bool Permutation.
Import ListNotations.
Require Import Model.Threads Proofs.ThreadsProofs Gen.C16Gen Dyn.C16Tie.

(* The property, stated on the definitions REGENERATED from bilinear_form.py: for every kernel, every
   local sizes Nu, Nv, every positive thread count k (also k > Nu*Nv) and every interleaving tr of the
   workers' steps, the output array read out in C order equals that of the serial double loop. *)
Theorem C16_threaded_equals_serial_every_schedule :
  forall (V : Type) (K : nat -> nat -> V) (k Nu Nv : nat) (tr : list (slot * V)) (s : store V),
    0 < k ->
    interleaving (map (map (gen_step K)) (gen_split k (gen_pairs Nu Nv))) tr ->
    flatten Nu Nv (run tr s) = flatten Nu Nv (run (gen_serial_steps K Nu Nv) s).
Proof. exact threaded_flatten_equals_serial. Qed.
Print Assumptions C16_threaded_equals_serial_every_schedule.

(* every local index pair is computed exactly once, and no two steps (hence no two workers) write the same slot *)
Theorem C16_every_pair_once_disjoint_writes :
  forall (V : Type) (K : nat -> nat -> V) (k Nu Nv : nat), 0 < k ->
    concat (map (map (gen_step K)) (gen_split k (gen_pairs Nu Nv))) = gen_serial_steps K Nu Nv /\
    NoDup (map fst (concat (map (map (gen_step K)) (gen_split k (gen_pairs Nu Nv))))).
Proof. exact workers_cover_once. Qed.
Print Assumptions C16_every_pair_once_disjoint_writes.

(* the serial loop (hence every schedule) leaves K j i in slot (j,i) for j<Nu, i<Nv and touches nothing else *)
Theorem C16_serial_fills_exactly :
  forall (V : Type) (K : nat -> nat -> V) (Nu Nv : nat) (s : store V) (j i : nat),
    run (gen_serial_steps K Nu Nv) s (j, i) = if (j <? Nu) && (i <? Nv) then Some (K j i) else s (j, i).
Proof. exact serial_fills. Qed.
Print Assumptions C16_serial_fills_exactly.

(* the same, end to end, for the threaded path under every schedule: nothing outside the Nu x Nv block is written *)
Theorem C16_threaded_fills_exactly :
  forall (V : Type) (K : nat -> nat -> V) (k Nu Nv : nat) (tr : list (slot * V)) (s : store V) (j i : nat),
    0 < k ->
    interleaving (map (map (gen_step K)) (gen_split k (gen_pairs Nu Nv))) tr ->
    run tr s (j, i) = if (j <? Nu) && (i <? Nv) then Some (K j i) else s (j, i).
Proof. intros V K k Nu Nv tr s j i. exact (threaded_fills V K k Nu Nv tr s j i). Qed.
Print Assumptions C16_threaded_fills_exactly.

(* the split really hands out k chunks whose concatenation is the pair list, sizes as numpy documents *)
Theorem C16_split_partitions :
  forall (k Nu Nv : nat), 0 < k ->
    concat (gen_split k (gen_pairs Nu Nv)) = gen_pairs Nu Nv /\ length (gen_split k (gen_pairs Nu Nv)) = k /\
    NoDup (gen_pairs Nu Nv) /\ (forall i j, In (i, j) (gen_pairs Nu Nv) <-> i < Nv /\ j < Nu).
Proof.
  intros k Nu Nv Hk. split; [exact (array_split_concat k _ Hk)|]. split; [exact (array_split_length k _)|].
  split; [exact (pairs_NoDup Nu Nv) | exact (in_pairs Nu Nv)].
Qed.
Print Assumptions C16_split_partitions.

(* chunk c of the split gets floor(L/k) pairs plus one if c < L mod k (L = Nu*Nv): numpy's contract, which also says that
   with more threads than pairs the trailing workers get an empty chunk (and, by the theorems above, change nothing) *)
Theorem C16_split_chunk_sizes :
  forall (k Nu Nv c : nat), 0 < k -> c < k ->
    length (nth c (gen_split k (gen_pairs Nu Nv)) []) = (Nu * Nv) / k + (if c <? (Nu * Nv) mod k then 1 else 0).
Proof.
  intros k Nu Nv c Hk Hc. unfold gen_split. rewrite (array_split_chunk_len k _ c Hk Hc).
  change (gen_pairs Nu Nv) with (pairs Nu Nv). now rewrite pairs_length.
Qed.
Print Assumptions C16_split_chunk_sizes.

(* the executable scheduler used in the correspondence only produces interleavings *)
Theorem C16_run_schedule_sound :
  forall (X : Type) (sched : list nat) (ws : list (list X)) (tr : list X),
    run_schedule sched ws = Some tr -> interleaving ws tr.
Proof. exact @run_schedule_sound. Qed.
Print Assumptions C16_run_schedule_sound.

(* ... and produces all of them: the schedules of the correspondence reach every execution the property covers *)
Theorem C16_run_schedule_complete :
  forall (X : Type) (ws : list (list X)) (tr : list X),
    interleaving ws tr -> exists sched, run_schedule sched ws = Some tr /\ length sched = length tr.
Proof. exact @run_schedule_complete. Qed.
Print Assumptions C16_run_schedule_complete.

(* an integrand that raises: K j i = None.  The threaded assembler (workers record the exception, the first one is
   raised again after all workers are joined - re-read from the source as gen_errors_reraised_after_join) raises
   exactly when the serial double loop does, for every thread count *)
Theorem C16_exceptions_propagate :
  gen_errors_reraised_after_join = true /\
  forall (V : Type) (K : nat -> nat -> option V) (k Nu Nv : nat), 0 < k ->
    existsb (existsb (pair_raises K)) (gen_split k (gen_pairs Nu Nv)) = existsb (pair_raises K) (gen_pairs Nu Nv).
Proof. split; [exact gen_errors_reraised | exact (@threaded_raises_iff_serial)]. Qed.
Print Assumptions C16_exceptions_propagate.

(* non-vacuity: a concrete rectangular instance with more threads than some chunks need; 3 workers, 6 pairs *)
Example C16_instance :
  run_schedule [2; 0; 1; 0; 2; 1] (gen_split 3 (gen_pairs 2 3))
  = Some [(1, 1); (0, 0); (2, 0); (1, 0); (2, 1); (0, 1)].
Proof. vm_compute. reflexivity. Qed.
Print Assumptions C16_instance.
