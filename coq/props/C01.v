(* C01 — assembled matrix, vector and scalar represent the weak form.
   Only statements; proofs live in Proofs.C01_AssemblyProofs, the tie to the source in Dyn.C01Tie.
   All theorems speak about the assemblers REGENERATED from bilinear_form.py / linear_form.py / functional.py /
   coo_data.py (Gen.C01Gen), over an arbitrary commutative ring R (ring_theory, Leibniz equality), an arbitrary
   type V of point values of (tuples of) DiscreteFields with the two operations interpolation uses, an arbitrary
   parameter type W, all local sizes Nu, Nv (rectangular), all cell counts, all quadrature sizes, all DOF tables
   with entries < N, all coefficient vectors. *)
From Coq Require Import List Arith Bool ZArith Ring_theory.
Import ListNotations.
Require Import Base.C01_Sums Model.C01_Assembly Proofs.C01_AssemblyProofs Gen.C01Gen Dyn.C01Tie.
Require Import Model.C01_Trilinear Proofs.C01_TrilinearProofs Model.C01_Params Model.C01_FormWrap Dyn.C01TriTie.

Section C01.
  Variable R : Type.
  Variables (rO rI : R) (radd rmul rsub : R -> R -> R) (ropp : R -> R).
  Variable Rth : ring_theory rO rI radd rmul rsub ropp (@eq R).
  Variable V W : Type.
  Variables (vadd : V -> V -> V) (vscale : R -> V -> V).
  Notation basis := (basis R V).
  Notation interp := (interp R rO V vadd vscale).

  (* position (j*Nv+i)*nt+e of the triplet arrays holds (test dof of i on e, trial dof of j on e, kernel value
     K j i e), these are all positions, the global shape is (N_test, N_trial) — for every integrand (no linearity
     needed), also for Nu <> Nv.  Falsified by a Nu-for-Nv slip in the slice bounds, a transposed data[i, j],
     swapped rows/cols, a wrong flatten order. *)
  Theorem C01_coo_bilinear_entries : forall form w (ub : basis) (vb0 : option basis),
    let vb := match vb0 with None => ub | Some b => b end in
    let Nu := bNbfun ub in let Nv := bNbfun vb in let nt := bnelems ub in
    wf_basis ub -> wf_basis vb -> bnelems vb = bnelems ub -> bnq vb = bnq ub ->
    exists rows cols data lshape,
      gen_bilinear_assemble R rO radd rmul V W form w ub vb0 = Some (mkCoo [rows; cols] data [bN vb; bN ub] lshape) /\
      length rows = Nu * Nv * nt /\ length cols = Nu * Nv * nt /\ length data = Nu * Nv * nt /\
      forall j i e, j < Nu -> i < Nv -> e < nt ->
        nth ((j * Nv + i) * nt + e) rows 0 = nth e (element_dofs vb i) 0 /\
        nth ((j * Nv + i) * nt + e) cols 0 = nth e (element_dofs ub j) 0 /\
        nth ((j * Nv + i) * nt + e) data rO = Kjie R rO radd rmul V W form w ub vb j i e.
  Proof. exact (gen_bilinear_entries R rO radd rmul V W). Qed.

  Theorem C01_coo_linear_entries : forall form w (vb : basis),
    let Nv := bNbfun vb in let nt := bnelems vb in
    wf_basis vb ->
    exists rows data lshape,
      gen_linear_assemble R rO radd rmul V W form w vb = Some (mkCoo [rows] data [bN vb] lshape) /\
      length rows = Nv * nt /\ length data = Nv * nt /\
      forall i e, i < Nv -> e < nt ->
        nth (i * nt + e) rows 0 = nth e (element_dofs vb i) 0 /\
        nth (i * nt + e) data rO = Kie R rO radd rmul V W form w vb i e.
  Proof. exact (gen_linear_entries R rO radd rmul V W). Qed.

  Section Bilinear.
    (* "linear in each argument function" *)
    Variable form : V -> V -> W -> R.
    Hypothesis form_add_u : forall a b v w, form (vadd a b) v w = radd (form a v w) (form b v w).
    Hypothesis form_scale_u : forall s a v w, form (vscale s a) v w = rmul s (form a v w).
    Hypothesis form_add_v : forall u a b w, form u (vadd a b) w = radd (form u a w) (form u b w).
    Hypothesis form_scale_v : forall s u a w, form u (vscale s a) w = rmul s (form u a w).

    (* v^T A u = a(u_h, v_h): the assembly succeeds, the sparse->dense conversion (duplicates summed) succeeds,
       rows index test functions and columns trial functions *)
    Theorem C01_bilinear_weak_form : forall w (ub : basis) (vb0 : option basis) (u v : nat -> R),
      let vb := match vb0 with None => ub | Some b => b end in
      wf_basis ub -> wf_basis vb -> bnelems vb = bnelems ub -> bnq vb = bnq ub ->
      exists c A,
        gen_bilinear_assemble R rO radd rmul V W form w ub vb0 = Some c /\
        gen_to_dense2 R rO radd c = Some A /\
        vAu R rO radd rmul v A u (bN vb) (bN ub)
        = integrate R rO radd rmul (bnelems ub) (bnq ub)
            (fun e q => form (interp ub u e q) (interp vb v e q) (w e q)) (bdx ub).
    Proof.
      exact (gen_bilinear_weak_form R rO rI radd rmul rsub ropp Rth V W vadd vscale form
               form_add_u form_scale_u form_add_v form_scale_v).
    Qed.

    (* the three form types and interpolation are mutually consistent; the parameter function w is the same
       in all three (parameters enter identically) *)
    Theorem C01_forms_consistent : forall w (ub vb : basis) (u v : nat -> R),
      wf_basis ub -> wf_basis vb -> bnelems vb = bnelems ub -> bnq vb = bnq ub ->
      (forall e q, e < bnelems ub -> q < bnq ub -> bdx vb e q = bdx ub e q) ->
      exists c A cl b,
        gen_bilinear_assemble R rO radd rmul V W form w ub (Some vb) = Some c /\ gen_to_dense2 R rO radd c = Some A /\
        gen_linear_assemble R rO radd rmul V (V * W) (fun a p => form (fst p) a (snd p))
                        (fun e q => (interp ub u e q, w e q)) vb = Some cl /\ gen_to_dense1 R rO radd cl = Some b /\
        vAu R rO radd rmul v A u (bN vb) (bN ub) = bv R rO radd rmul b v (bN vb) /\
        vAu R rO radd rmul v A u (bN vb) (bN ub)
        = gen_to_scalar R rO radd (gen_functional_assemble R rO radd rmul V (V * V * W)
              (fun p => form (fst (fst p)) (snd (fst p)) (snd p))
              (fun e q => (interp ub u e q, interp vb v e q, w e q)) ub).
    Proof.
      exact (gen_forms_consistent R rO rI radd rmul rsub ropp Rth V W vadd vscale form
               form_add_u form_scale_u form_add_v form_scale_v).
    Qed.

    (* cell subsets (elements=), facet bases, side = 0/1 are the same assembler on restricted tables; the
       identity holds with the sums over the listed cells, for arbitrary (also repeated, unsorted) index lists *)
    Theorem C01_subset_basis : forall w (ub vb : basis) (tu tv : list nat) (u v : nat -> R),
      wf_basis ub -> wf_basis vb -> bnq vb = bnq ub -> length tv = length tu ->
      (forall t, In t tu -> t < bnelems ub) -> (forall t, In t tv -> t < bnelems vb) ->
      exists c A,
        gen_bilinear_assemble R rO radd rmul V W form w (subset_basis ub tu) (Some (subset_basis vb tv)) = Some c /\
        gen_to_dense2 R rO radd c = Some A /\
        vAu R rO radd rmul v A u (bN vb) (bN ub)
        = integrate R rO radd rmul (length tu) (bnq ub)
            (fun k q => form (interp ub u (nth k tu 0) q) (interp vb v (nth k tv 0) q) (w k q))
            (fun k q => bdx ub (nth k tu 0) q).
    Proof.
      exact (gen_bilinear_weak_form_subset R rO rI radd rmul rsub ropp Rth V W vadd vscale form
               form_add_u form_scale_u form_add_v form_scale_v).
    Qed.
  End Bilinear.

  Section Linear.
    Variable form : V -> W -> R.
    Hypothesis form_add : forall a b w, form (vadd a b) w = radd (form a w) (form b w).
    Hypothesis form_scale : forall s a w, form (vscale s a) w = rmul s (form a w).

    (* b^T v = l(v_h) *)
    Theorem C01_linear_weak_form : forall w (vb : basis) (v : nat -> R),
      wf_basis vb ->
      exists c b,
        gen_linear_assemble R rO radd rmul V W form w vb = Some c /\
        gen_to_dense1 R rO radd c = Some b /\
        bv R rO radd rmul b v (bN vb)
        = integrate R rO radd rmul (bnelems vb) (bnq vb) (fun e q => form (interp vb v e q) (w e q)) (bdx vb).
    Proof.
      exact (gen_linear_weak_form R rO rI radd rmul rsub ropp Rth V W vadd vscale form form_add form_scale).
    Qed.
  End Linear.

  (* s = J *)
  Theorem C01_functional_value : forall (W' : Type) (form : W' -> R) (w : nat -> nat -> W') (b : basis),
    gen_to_scalar R rO radd (gen_functional_assemble R rO radd rmul V W' form w b)
    = integrate R rO radd rmul (bnelems b) (bnq b) (fun e q => form (w e q)) (bdx b).
  Proof. exact (gen_functional_value R rO rI radd rmul rsub ropp Rth V). Qed.

  (* ---------- TrilinearForm: position ((k*Nv+j)*Nw+i)*nt+e of the four arrays holds (w-basis dof of i, v-basis dof of j,
     u-basis dof of k, kernel value); index rows are ordered (mats, rows, cols) = (w, v, u), global shape (N_w, N_v, N_u),
     local shape (Nw, Nv, Nu); for three DIFFERENT bases and every integrand ---------- *)
  Theorem C01_coo_trilinear_entries : forall form p (ub : basis) (vb0 wb0 : option basis),
    let vb := match vb0 with None => ub | Some b => b end in
    let wb := match wb0 with None => ub | Some b => b end in
    let Nu := bNbfun ub in let Nv := bNbfun vb in let Nw := bNbfun wb in let nt := bnelems ub in
    wf_basis ub -> wf_basis vb -> wf_basis wb -> bnelems vb = nt -> bnelems wb = nt ->
    exists mats rows cols data,
      gen_trilinear_assemble R rO radd rmul V W form p ub vb0 wb0
        = Some (mkCoo [mats; rows; cols] data [bN wb; bN vb; bN ub] [Nw; Nv; Nu]) /\
      length mats = Nu * Nv * Nw * nt /\ length rows = Nu * Nv * Nw * nt /\ length cols = Nu * Nv * Nw * nt /\
      length data = Nu * Nv * Nw * nt /\
      forall k j i e, k < Nu -> j < Nv -> i < Nw -> e < nt ->
        let pos := ((k * Nv + j) * Nw + i) * nt + e in
        nth pos mats 0 = nth e (element_dofs wb i) 0 /\
        nth pos rows 0 = nth e (element_dofs vb j) 0 /\
        nth pos cols 0 = nth e (element_dofs ub k) 0 /\
        nth pos data rO = Kkjie R rO radd rmul V W form p ub vb wb k j i e.
  Proof. exact (gen_trilinear_entries R rO radd rmul V W). Qed.

  (* sum_abc T_abc w_a v_b u_c = sum_e sum_q f(u_h, v_h, w_h, p) dx  for forms linear in each of the three argument functions
     (T = the N-tensor branch of COOData.toarray applied to the assembled data) *)
  Theorem C01_trilinear_weak_form : forall (form : V -> V -> V -> W -> R),
    (forall a b v w p, form (vadd a b) v w p = radd (form a v w p) (form b v w p)) ->
    (forall s a v w p, form (vscale s a) v w p = rmul s (form a v w p)) ->
    (forall u a b w p, form u (vadd a b) w p = radd (form u a w p) (form u b w p)) ->
    (forall s u a w p, form u (vscale s a) w p = rmul s (form u a w p)) ->
    (forall u v a b p, form u v (vadd a b) p = radd (form u v a p) (form u v b p)) ->
    (forall s u v a p, form u v (vscale s a) p = rmul s (form u v a p)) ->
    forall p (ub : basis) (vb0 wb0 : option basis) (u v w : nat -> R),
      let vb := match vb0 with None => ub | Some b => b end in
      let wb := match wb0 with None => ub | Some b => b end in
      wf_basis ub -> wf_basis vb -> wf_basis wb -> bnelems vb = bnelems ub -> bnelems wb = bnelems ub ->
      exists c T,
        gen_trilinear_assemble R rO radd rmul V W form p ub vb0 wb0 = Some c /\
        gen_to_dense3 R rO radd c = Some T /\
        contract3 R rO radd rmul T w v u (bN wb) (bN vb) (bN ub)
        = integrate R rO radd rmul (bnelems ub) (bnq ub)
            (fun e q => form (interp ub u e q) (interp vb v e q) (interp wb w e q) (p e q)) (bdx ub).
  Proof. exact (gen_trilinear_weak_form R rO rI radd rmul rsub ropp Rth V W vadd vscale). Qed.

  (* ---------- extra parameters enter the three form types identically: the regenerated BilinearForm / LinearForm /
     Functional build w = {**defaults(basis), **_normalize_asm_kwargs(kwargs, basis)} with the same (trial) basis ---------- *)
  Theorem C01_params_enter_identically : forall dflt kw (ub vb : basis),
    gen_params_bilinear R rO V vadd vscale dflt kw ub vb = gen_params_functional R rO V vadd vscale dflt kw ub /\
    gen_params_linear R rO V vadd vscale dflt kw ub = gen_params_functional R rO V vadd vscale dflt kw ub.
  Proof. exact (gen_params_identical R rO V vadd vscale). Qed.

  (* Form._normalize_asm_kwargs as regenerated: a coefficient vector is the field interpolated on that basis (the same as
     passing the pre-interpolated field), an n-d array is wrapped, a number and a field pass through, a field with another
     number of quadrature points / a vector of another length / any other type is rejected *)
  Theorem C01_normalize_kinds : forall (b : basis),
    (forall u, gen_normalize_one R rO V vadd vscale b (RVector u (bN b))
               = gen_normalize_one R rO V vadd vscale b (RField (interp b u) (bnq b))) /\
    (forall u, gen_normalize_one R rO V vadd vscale b (RVector u (bN b)) = Some (NField (interp b u))) /\
    (forall a, gen_normalize_one R rO V vadd vscale b (RArray a) = Some (NField a)) /\
    (forall s, gen_normalize_one R rO V vadd vscale b (RNumber s) = Some (NNumber s)) /\
    (forall f nq, gen_normalize_one R rO V vadd vscale b (RField f nq) = if nq =? bnq b then Some (NField f) else None) /\
    (forall u len, len <> bN b -> gen_normalize_one R rO V vadd vscale b (RVector u len) = None) /\
    gen_normalize_one R rO V vadd vscale b ROther = None.
  Proof. exact (gen_normalize_kinds R rO V vadd vscale). Qed.

  (* a keyword of the caller overrides the default of the same name (x, h, n), other defaults stay visible *)
  Theorem C01_params_precedence : forall dflt kw (ub : basis) env k,
    gen_params_functional R rO V vadd vscale dflt kw ub = Some env ->
    exists u, normalize_all R V (gen_normalize_one R rO V vadd vscale ub) kw = Some u /\
      env k = match lookup k u with Some x => Some x | None => lookup k (dflt ub) end.
  Proof. exact (gen_params_precedence R rO V vadd vscale). Qed.
End C01.

(* rows index test functions on the CHOSEN side: for an oriented facet set (OrientedBoundary, flag ori per facet) the cell
   of side 0 is f2t[ori] and the cell of side 1 is f2t[1 - ori] (a negative row index counts from the end), the normal is
   taken from f2t[ori]; for a plain facet array side s is f2t[s] and the normal comes from f2t[0] *)
Theorem C01_oriented_side : forall ori : Z, (ori = 0 \/ ori = 1)%Z ->
  ((gen_oriented_row0 ori) mod 2 = ori /\ (gen_oriented_row1 ori) mod 2 = 1 - ori /\
   (gen_oriented_normal_row ori) mod 2 = ori /\ gen_plain_row 0 = 0 /\ gen_plain_row 1 = 1 /\ gen_plain_normal_row = 0)%Z.
Proof. exact gen_oriented_side_spec. Qed.

(* the form-copying wrappers of form.py, regenerated: partial and block keep dtype, nthreads and params and only replace the
   integrand by the bound / padded one; the decorator call builds the form of the decorated function with the decorator's dtype,
   nthreads and params; Form(f, ...) and Form(form_obj, ...) take exactly the given attributes (d0, p0 are the defaults of
   Form.__init__, which none of the wrappers may fall back to) *)
Theorem C01_form_wrappers : forall (F D P : Type) (d0 : D) (p0 : P),
  (forall bind (r : formrec F D P), let r' := gen_form_partial d0 p0 bind r in
     fr_form r' = omap bind (fr_form r) /\ fr_dtype r' = fr_dtype r /\ fr_nthreads r' = fr_nthreads r /\ fr_params r' = fr_params r) /\
  (forall bind (r : formrec F D P), let r' := gen_form_copy_block d0 p0 bind r in
     fr_form r' = omap bind (fr_form r) /\ fr_dtype r' = fr_dtype r /\ fr_nthreads r' = fr_nthreads r /\ fr_params r' = fr_params r) /\
  (forall (r : formrec F D P) f, let r' := gen_form_decorate d0 p0 r f in
     fr_form r' = Some f /\ fr_dtype r' = fr_dtype r /\ fr_nthreads r' = fr_nthreads r /\ fr_params r' = fr_params r) /\
  (forall (f : F) d n p, gen_form_init d0 p0 f d n p = mkFr (Some f) d n p) /\
  (forall (fo : formrec F D P) d n p, gen_form_init_from d0 p0 fo d n p = mkFr (fr_form fo) d n p).
Proof. exact @gen_form_wrappers_spec. Qed.

(* asm(function, ...): the wrapper class is chosen by the number of arguments of the function *)
Theorem C01_asm_wrapper_dispatch :
  gen_asm_wrapper 1 = WFunctional /\ gen_asm_wrapper 2 = WLinearForm /\ gen_asm_wrapper 3 = WBilinearForm /\ gen_asm_wrapper 4 = WTrilinearForm.
Proof. exact gen_asm_wrapper_spec. Qed.

Print Assumptions C01_coo_bilinear_entries.
Print Assumptions C01_coo_linear_entries.
Print Assumptions C01_bilinear_weak_form.
Print Assumptions C01_forms_consistent.
Print Assumptions C01_subset_basis.
Print Assumptions C01_linear_weak_form.
Print Assumptions C01_functional_value.
Print Assumptions C01_coo_trilinear_entries.
Print Assumptions C01_trilinear_weak_form.
Print Assumptions C01_oriented_side.
Print Assumptions C01_form_wrappers.
Print Assumptions C01_asm_wrapper_dispatch.
Print Assumptions C01_params_enter_identically.
Print Assumptions C01_normalize_kinds.
Print Assumptions C01_params_precedence.

(* ---------- non-vacuity: 2 cells, Nu = 2 trial functions, Nv = 3 test functions, non-symmetric integrand,
   repeated DOFs, over Z; values are (value, derivative) pairs ---------- *)
Definition exV := (Z * Z)%type.
Definition ex_vadd (a b : exV) : exV := (fst a + fst b, snd a + snd b)%Z.
Definition ex_vscale (s : Z) (a : exV) : exV := (s * fst a, s * snd a)%Z.
Definition ex_form (u v : exV) (w : Z) : Z := (w * (fst u * snd v) + 2 * (snd u * fst v) + 3 * (fst u * fst v))%Z.
Definition ex_ub : basis Z exV :=
  mkBasis 4 2 2 2 [[0; 3]; [1; 0]]
          (fun j e q => (Z.of_nat (1 + j + 2 * e + q), Z.of_nat (2 + 3 * j + e)) : exV)
          (fun e q => Z.of_nat (1 + e + 2 * q)).
Definition ex_vb : basis Z exV :=
  mkBasis 5 3 2 2 [[4; 1]; [2; 2]; [0; 3]]
          (fun i e q => (Z.of_nat (7 + i * i + e), Z.of_nat (1 + i + 5 * q)) : exV)
          (fun e q => Z.of_nat (1 + e + 2 * q)).
Definition ex_w (e q : nat) : Z := Z.of_nat (1 + 3 * e + q).
Definition ex_u (k : nat) : Z := nth k [2; -1; 3; 5]%Z 0%Z.
Definition ex_v (k : nat) : Z := nth k [1; 4; -2; 0; 7]%Z 0%Z.

Example C01_instance_hypotheses :
  wf_basis ex_ub /\ wf_basis ex_vb /\ bnelems ex_vb = bnelems ex_ub /\ bnq ex_vb = bnq ex_ub /\
  (forall a b v w, ex_form (ex_vadd a b) v w = (ex_form a v w + ex_form b v w)%Z) /\
  (forall s a v w, ex_form (ex_vscale s a) v w = (s * ex_form a v w)%Z) /\
  (forall u a b w, ex_form u (ex_vadd a b) w = (ex_form u a w + ex_form u b w)%Z) /\
  (forall s u a w, ex_form u (ex_vscale s a) w = (s * ex_form u a w)%Z).
Proof.
  split; [apply wf_basisb_sound; reflexivity|]. split; [apply wf_basisb_sound; reflexivity|].
  split; [reflexivity|]. split; [reflexivity|].
  repeat split; intros; unfold ex_form, ex_vadd, ex_vscale; cbn [fst snd]; ring.
Qed.
Print Assumptions C01_instance_hypotheses.

Example C01_instance_values :
  match gen_bilinear_assemble Z 0%Z Z.add Z.mul exV Z ex_form ex_w ex_ub (Some ex_vb) with
  | Some c => match gen_to_dense2 Z 0%Z Z.add c with
              | Some A => Some (A, vAu Z 0%Z Z.add Z.mul ex_v A ex_u 5 4)
              | None => None end
  | None => None end
  = Some ([[506; 953; 0; 0]; [1880; 0; 0; 1320]; [2550; 714; 0; 1526]; [2768; 0; 0; 1936]; [332; 621; 0; 0]]%Z, 17768%Z)
  /\ integrate Z 0%Z Z.add Z.mul 2 2
      (fun e q => ex_form (interp Z 0%Z exV ex_vadd ex_vscale ex_ub ex_u e q)
                          (interp Z 0%Z exV ex_vadd ex_vscale ex_vb ex_v e q) (ex_w e q)) (bdx ex_ub) = 17768%Z.
Proof. split; vm_compute; reflexivity. Qed.
Print Assumptions C01_instance_values.
