(* C15 — No hidden state: results are history independent.
   Only statements; the generic automaton is Base.C15_Memo, the models Model.C15_Caches, proofs in
   Proofs.C15_CachesProofs, the ties to the CURRENT source in Dyn.C15_Tie* over the Gen.C15Gen* files. *)
From Coq Require Import List Bool Arith ZArith.
Import ListNotations.
Require Import Base.Corr Base.C15_Memo Model.C15_Caches Proofs.C15_CachesProofs.
Require Import Gen.C15GenHash Gen.C15GenJ Gen.C15GenLinePp Gen.C15GenQuadP Gen.C15GenGlobal Gen.C15GenLazy Gen.C15GenScan.
Require Import Gen.C15GenSolver_eigen_scipy Gen.C15GenSolver_eigen_scipy_sym Gen.C15GenSolver_direct_scipy
               Gen.C15GenSolver_iter_krylov Gen.C15GenSolver_iter_cg.
Require Import Dyn.C15_TieHash Dyn.C15_TieJ Dyn.C15_TieLinePp Dyn.C15_TieQuadP Dyn.C15_TieGlobal Dyn.C15_TieLazy
               Dyn.C15_TiePool Dyn.C15_TieSolvers.

(* The property for the caches.  [op] is one access to a cached quantity of some object of a shared pool (lazy tables of
   meshes / affine mappings / bases, the Legendre tables of ElementLinePp and ElementQuadP, the inverse Vandermonde matrix
   of an ElementGlobal used on some mesh, the Jacobian cache of an isoparametric mapping).  The keys (what the guards
   compare) and the dependencies (what the guarded computation reads) are the definitions REGENERATED from the source.
   For every cached computation F (any function of what it reads), every history h over the pool — any length, any
   interleaving of objects, one element on several meshes, different point sets of equal size — each access returns
   F of its own arguments, i.e. what a fresh object would have computed. *)
Theorem C15_history_independent :
  forall (V : Type) (F : deps -> V) (h : list op),
    results keys_eqb gen_pool_key (fun o => F (gen_pool_dep o)) gen_pool_evict h
    = map (fun o => F (gen_pool_dep o)) h.
Proof. exact gen_pool_history_independent. Qed.
Print Assumptions C15_history_independent.

(* why the tie lemmas are the right obligations: a cache of this shape is transparent for ALL histories
   exactly when its key determines the computation (so a key that does not is refuted by a two-step history) *)
Theorem C15_transparent_iff_key_determines :
  forall (A K V : Type) (keqb : K -> K -> bool), (forall x y, keqb x y = true <-> x = y) ->
  forall (keyf : A -> K) (compute : A -> V) (evict : A -> list (K * V) -> list (K * V)),
    (forall a s, incl (evict a s) s) ->
    ((forall h, results keqb keyf compute evict h = map compute h)
     <-> (forall a b, keyf a = keyf b -> compute a = compute b)).
Proof. exact transparent_iff. Qed.
Print Assumptions C15_transparent_iff_key_determines.

(* whatever the key: a cache never invents values — each returned value was computed for the same or an earlier
   argument with the same key ("stale at worst"); this is what the replays of the refutations exhibit *)
Theorem C15_stale_at_worst :
  forall (A K V : Type) (keqb : K -> K -> bool), (forall x y, keqb x y = true <-> x = y) ->
  forall (keyf : A -> K) (compute : A -> V) (evict : A -> list (K * V) -> list (K * V)),
    (forall a s, incl (evict a s) s) ->
    forall h i v, nth_error (results keqb keyf compute evict h) i = Some v ->
      exists a a', nth_error h i = Some a /\ In a' (firstn (S i) h) /\ keyf a' = keyf a /\ compute a' = v.
Proof. exact results_have_origin. Qed.
Print Assumptions C15_stale_at_worst.

(* the Jacobian cache with its keys hashed part by part, as in the code: transparent on every history on which
   Python's hash has no collision among the hashed parts (named assumption, local to the history) *)
Theorem C15_J_cache_transparent_modulo_hash_collisions :
  forall (V : Type) (hash : key -> Z) (F : list jarg -> V) (h : list jargs),
    (forall a b p q, In a h -> In b h -> In p (gen_J_key a) -> In q (gen_J_key b) -> hash p = hash q -> p = q) ->
    results zs_eqb (hkey jargs hash gen_J_key) (fun a => F (gen_J_dep a)) keep_all h = map (fun a => F (gen_J_dep a)) h.
Proof. exact gen_J_cache_transparent_modulo_hash. Qed.
Print Assumptions C15_J_cache_transparent_modulo_hash_collisions.

(* lazily initialised attributes (exhaustive over the generated table of all hasattr / is-None guarded slots) *)
Theorem C15_lazy_attributes_wellformed :
  forall l, In l gen_lazy ->
    In (l_guard l) (l_stored l) /\ In (l_ret l) (l_stored l) /\ l_other_writers l = 0
    /\ l_uses_args l = false /\ l_reads_mutable l = false.
Proof. exact lazy_attributes_wellformed. Qed.
Print Assumptions C15_lazy_attributes_wellformed.

(* the hypothesis "an object's defining arrays are never changed after construction", for meshes: no store into
   (an alias of) p / t / doflocs and no re-binding of these fields in skfem/mesh/*.py outside the constructor *)
Theorem C15_mesh_arrays_never_written_after_construction : gen_scan_offending = 0.
Proof. exact gen_scan_mesh_arrays_never_written_after_construction. Qed.
Print Assumptions C15_mesh_arrays_never_written_after_construction.

(* solver factories: for every history of calls (any solve-time kwargs, any matrices) on one closure, the options that
   reach the backend at each call are those a FRESH closure from the same factory call would pass *)
Theorem C15_solver_closures_history_independent :
  forall (dflt : nat -> Z) (cap : dict) (h : list (dict * nat)),
    run_closure dflt gen_prog_eigen_scipy cap h = map (fresh dflt gen_prog_eigen_scipy cap) h /\
    run_closure dflt gen_prog_eigen_scipy_sym cap h = map (fresh dflt gen_prog_eigen_scipy_sym cap) h /\
    run_closure dflt gen_prog_direct_scipy cap h = map (fresh dflt gen_prog_direct_scipy cap) h /\
    run_closure dflt gen_prog_iter_krylov cap h = map (fresh dflt gen_prog_iter_krylov cap) h /\
    run_closure dflt gen_prog_iter_cg cap h = map (fresh dflt gen_prog_iter_cg cap) h.
Proof.
  intros. split; [apply eigen_scipy_hi|]. split; [apply eigen_scipy_sym_hi|]. split; [apply direct_scipy_hi|].
  split; [apply iter_krylov_hi | apply iter_cg_hi].
Qed.
Print Assumptions C15_solver_closures_history_independent.

(* ... and these options are the factory's kwargs overridden by the call's kwargs (for the Krylov solver: plus the
   callback entry and, when no preconditioner was given, the diagonal preconditioner of THIS call's matrix) *)
Theorem C15_solver_options :
  forall (dflt : nat -> Z) (stk : dict) (A : nat) (cap : dict),
    fresh dflt gen_prog_eigen_scipy cap (stk, A) = dmerge cap stk /\
    fresh dflt gen_prog_eigen_scipy_sym cap (stk, A) = dmerge cap stk /\
    fresh dflt gen_prog_direct_scipy cap (stk, A) = dmerge cap stk /\
    fresh dflt gen_prog_iter_cg cap (stk, A) = dmerge cap stk /\
    fresh dflt gen_prog_iter_krylov cap (stk, A) = dmerge [(0, (-1)%Z)] (with_default dflt A 1 (dmerge cap stk)).
Proof.
  intros. unfold fresh. cbn [fst snd].
  split; [apply eigen_scipy_options|]. split; [apply eigen_scipy_sym_options|]. split; [apply direct_scipy_options|].
  split; [apply iter_cg_options | apply iter_krylov_options].
Qed.
Print Assumptions C15_solver_options.

(* non-vacuity: a history with genuine hits.  One ElementLinePp (object 7) evaluated at the point sets X1, X2 (equal
   size, different content), X1 again twice, and one ElementGlobal (object 9) used on meshes 1, 2, 2: the automaton
   over the regenerated keys stores 5 entries' worth of misses and serves 2 calls from the cache *)
Definition X1 := mkfarr [1; 2] [10; 20]%Z.
Definition X2 := mkfarr [1; 2] [10; 30]%Z.
Example C15_instance :
  results keys_eqb gen_pool_key (fun o => (gen_pool_dep o)) gen_pool_evict
    [OpLinePp 7 X1; OpLinePp 7 X2; OpLinePp 7 X1; OpLinePp 7 X1; OpGlobal 9 1; OpGlobal 9 2; OpGlobal 9 2]
  = map gen_pool_dep [OpLinePp 7 X1; OpLinePp 7 X2; OpLinePp 7 X1; OpLinePp 7 X1; OpGlobal 9 1; OpGlobal 9 2; OpGlobal 9 2]
  /\ length (fst (run keys_eqb gen_pool_key (fun o => (gen_pool_dep o)) gen_pool_evict []
       [OpLinePp 7 X1; OpLinePp 7 X2; OpLinePp 7 X1; OpLinePp 7 X1; OpGlobal 9 1; OpGlobal 9 2; OpGlobal 9 2])) = 2.
Proof. vm_compute. split; reflexivity. Qed.
Print Assumptions C15_instance.

(* non-vacuity of the closure theorem: two calls with different solve-time kwargs on one Krylov closure *)
Example C15_closure_instance :
  run_closure (fun A => Z.of_nat (100 + A)) gen_prog_iter_krylov [(5, 1%Z)] [([(6, 2%Z)], 1); ([], 2)]
  = [[(0, (-1)%Z); (5, 1%Z); (6, 2%Z); (1, 101%Z)]; [(0, (-1)%Z); (5, 1%Z); (1, 102%Z)]].
Proof. vm_compute. reflexivity. Qed.
Print Assumptions C15_closure_instance.
