(* C07 — DOF lookup returns exactly the DOFs that control the selected entities.
   Only statements.  The numbering is gen_dofs_init (regenerated from Dofs.__init__, C04), the name offsets are
   gen_offsets (regenerated from Dofs._dofnames_to_rows). *)
From Coq Require Import List Arith ZArith Bool Sorted.
Import ListNotations.
Require Import Base.C11_Unique Model.C11_Topo Proofs.C11_TopoProofs.
Require Import Model.C04_Dofs Proofs.C04_DofsProofs Gen.C04Gen Dyn.C04Tie.
Require Import Model.C07_Query Proofs.C07_QueryProofs Proofs.C07_TraceProofs Gen.C07Gen Dyn.C07Tie Dyn.C07Wrap.

(* Facet query: flatten() is the strictly sorted list of EXACTLY the numbers that decode (C04) to a component k that is not
   skipped of: a vertex of a selected facet, an edge of a selected facet (3-D, via f2e), or a selected facet. *)
Theorem C07_facet_query_exact :
  forall dim nd ed fd id nv ne nf nt t t2e t2f dofnames offs facets f2e dim3 F skip d,
    (0 < fd -> 2 <= dim) ->
    (forall f, In f F -> f < nf) ->
    (forall f v, In f F -> In v (nth f facets []) -> v < nv) ->
    (forall row f, In row f2e -> In f F -> nth f row 0 < ne) ->
    let D := gen_dofs_init dim nd ed fd id 0 nv ne nf nt t t2e t2f in
    StronglySorted (lt Nat.compare) (flatten D (get_facet_dofs D dofnames offs nd ed fd facets f2e dim3 F skip)) /\
    (In d (flatten D (get_facet_dofs D dofnames offs nd ed fd facets f2e dim3 F skip)) <->
     exists kd ent k, valid dim nd ed fd id nv ne nf nt kd ent k /\ d = encode dim nd ed fd id 0 nv ne nf nt kd ent k /\
                      row_selected D dofnames offs true skip kd k /\ facet_selected facets f2e dim3 F kd ent).
Proof.
  intros dim nd ed fd id nv ne nf nt t t2e t2f dofnames offs facets f2e dim3 F skip d Hfd B1 B2 B3 D. unfold D.
  rewrite gen_dofs_init_is_model. split; [apply flatten_sorted | now apply facet_query_exact].
Qed.
Print Assumptions C07_facet_query_exact.

(* Element query: everything on the selected cells (their vertices, edges, facets and interiors) *)
Theorem C07_element_query_exact :
  forall dim nd ed fd id nv ne nf nt t t2e t2f dofnames offs E skip d,
    (0 < fd -> 2 <= dim) ->
    (forall e, In e E -> e < nt) ->
    (forall row e, In row t -> In e E -> nth e row 0 < nv) ->
    (forall row e, In row t2e -> In e E -> nth e row 0 < ne) ->
    (forall row e, In row t2f -> In e E -> nth e row 0 < nf) ->
    let D := gen_dofs_init dim nd ed fd id 0 nv ne nf nt t t2e t2f in
    StronglySorted (lt Nat.compare) (flatten D (get_element_dofs D dofnames offs nd ed fd t t2e t2f E skip)) /\
    (In d (flatten D (get_element_dofs D dofnames offs nd ed fd t t2e t2f E skip)) <->
     exists kd ent k, valid dim nd ed fd id nv ne nf nt kd ent k /\ d = encode dim nd ed fd id 0 nv ne nf nt kd ent k /\
                      row_selected D dofnames offs true skip kd k /\ element_selected t t2e t2f E kd ent).
Proof.
  intros dim nd ed fd id nv ne nf nt t t2e t2f dofnames offs E skip d Hfd B0 B1 B2 B3 D. unfold D.
  rewrite gen_dofs_init_is_model. split; [apply flatten_sorted | now apply element_query_exact].
Qed.
Print Assumptions C07_element_query_exact.

(* Vertex query: the vertex DOFs of the selected vertices only *)
Theorem C07_vertex_query_exact :
  forall dim nd ed fd id nv ne nf nt t t2e t2f dofnames offs nodes skip d,
    (0 < fd -> 2 <= dim) -> (forall v, In v nodes -> v < nv) ->
    let D := gen_dofs_init dim nd ed fd id 0 nv ne nf nt t t2e t2f in
    (In d (flatten D (get_vertex_dofs D dofnames offs nodes skip)) <->
     exists ent k, valid dim nd ed fd id nv ne nf nt Nodal ent k /\ d = encode dim nd ed fd id 0 nv ne nf nt Nodal ent k /\
                   row_selected D dofnames offs true skip Nodal k /\ In ent nodes).
Proof.
  intros dim nd ed fd id nv ne nf nt t t2e t2f dofnames offs nodes skip d Hfd B D. unfold D.
  rewrite gen_dofs_init_is_model. now apply vertex_query_exact.
Qed.
Print Assumptions C07_vertex_query_exact.

(* all ways of naming the same index set agree: flatten depends only on the SETS of indices and rows (order, duplicates,
   nesting of collections, tags, predicates are irrelevant), and a collection denotes the sorted union of its members *)
Theorem C07_selectors_agree :
  forall (D : dofs) (v w : view),
    (forall kd x, In x (ix_of v kd) <-> In x (ix_of w kd)) ->
    (forall kd x, In x (rows_of v kd) <-> In x (rows_of w kd)) ->
    flatten D v = flatten D w.
Proof. exact flatten_ext. Qed.
Print Assumptions C07_selectors_agree.

Theorem C07_facet_selectors_agree :
  forall D dofnames offs nd ed fd facets f2e dim3 F1 F2 skip,
    (forall f, In f F1 <-> In f F2) ->
    flatten D (get_facet_dofs D dofnames offs nd ed fd facets f2e dim3 F1 skip)
    = flatten D (get_facet_dofs D dofnames offs nd ed fd facets f2e dim3 F2 skip).
Proof.
  intros D dofnames offs nd ed fd facets f2e dim3 F1 F2 skip HF. apply flatten_ext.
  - intros kd x. rewrite !facet_view_ix. unfold facet_selected. destruct kd; try tauto.
    + split; intros [H0 [f [Hf Hx]]]; (split; [exact H0|]); exists f; (split; [now apply HF | exact Hx]).
    + split; intros [H0 [Hd [row [f [Hr [Hf Hx]]]]]]; (split; [exact H0|]); (split; [exact Hd|]); exists row, f;
        (split; [exact Hr|]); (split; [now apply HF | exact Hx]).
    + rewrite HF. tauto.
  - intros kd x. unfold get_facet_dofs. destruct (expand_facets facets f2e dim3 F1); destruct (expand_facets facets f2e dim3 F2).
    rewrite !names_to_rows_spec. tauto.
Qed.
Print Assumptions C07_facet_selectors_agree.

Theorem C07_collection_is_sorted_union :
  forall n dflt all_ok tags (l : list sel) (r : list nat),
    normalize n dflt all_ok tags (SColl l) = Some r ->
    StronglySorted (lt Nat.compare) r /\
    (forall s, In s l -> exists a, normalize n dflt all_ok tags s = Some a) /\
    (forall x, In x r <-> exists s a, In s l /\ normalize n dflt all_ok tags s = Some a /\ In x a).
Proof. exact normalize_coll. Qed.
Print Assumptions C07_collection_is_sorted_union.

(* the empty list / tuple / set is a valid selector and denotes the empty set *)
Theorem C07_empty_collection_is_empty :
  forall n dflt all_ok tags, normalize n dflt all_ok tags (SColl []) = Some [].
Proof. exact normalize_empty_coll. Qed.
Print Assumptions C07_empty_collection_is_empty.

(* name filters are intersections: keep / drop / all restrict the rows, never the entities; __or__ unites the entities *)
Theorem C07_name_filters_are_intersections :
  forall D dofnames offs v names kd,
    (ix_of (keep D dofnames offs v names) kd = ix_of v kd /\
     forall k, In k (rows_of (keep D dofnames offs v names) kd) <->
               In k (rows_of v kd) /\ row_selected D dofnames offs false names kd k) /\
    (ix_of (drop D dofnames offs v names) kd = ix_of v kd /\
     forall k, In k (rows_of (drop D dofnames offs v names) kd) <->
               In k (rows_of v kd) /\ row_selected D dofnames offs true names kd k) /\
    all_named D dofnames offs v names = flatten D (keep D dofnames offs v names) /\
    (forall w, rows_of (view_or v w) kd = rows_of v kd /\
               forall x, In x (ix_of (view_or v w) kd) <-> In x (ix_of v kd) \/ In x (ix_of w kd)).
Proof.
  intros. split; [apply keep_spec|]. split; [apply drop_spec|]. split; [reflexivity|]. intros w. apply view_or_spec.
Qed.
Print Assumptions C07_name_filters_are_intersections.

(* the empty list of names selects no name: keep([]) / all([]) return no DOF (the intersection with the empty set is empty) *)
Theorem C07_empty_name_list_selects_nothing :
  forall D dofnames offs v, flatten D (keep D dofnames offs v []) = [] /\ all_named D dofnames offs v [] = [].
Proof. intros. split; apply keep_empty_names. Qed.
Print Assumptions C07_empty_name_list_selects_nothing.

(* the name a filter tests for component k of a kind is the name element.dofnames gives to that basis function, PROVIDED the
   regenerated offsets are the basis-function order nodal, edge, facet, interior (obligation Gen/C07NameOrder.v) *)
Theorem C07_names_follow_basis_function_order :
  forall (D : dofs) (dofnames names : list nat) (skip : bool) (kd : kind) (k : nat),
    gen_offsets (length (D_nodal D)) (length (D_facet D)) (length (D_edge D))
      = (length (D_nodal D) + length (D_edge D), length (D_nodal D), length (D_nodal D) + length (D_edge D) + length (D_facet D)) ->
    (row_selected D dofnames (gen_offsets (length (D_nodal D)) (length (D_facet D)) (length (D_edge D))) skip names kd k <->
     k < length (blk_of D kd) /\
     (In (nth (k + match kd with Nodal => 0 | Edge => length (D_nodal D) | Facet => length (D_nodal D) + length (D_edge D)
                           | Interior => length (D_nodal D) + length (D_edge D) + length (D_facet D) end) dofnames 0) names
      <-> skip = false)).
Proof. intros D dofnames names skip kd k H. rewrite H. unfold row_selected. destruct kd; reflexivity. Qed.
Print Assumptions C07_names_follow_basis_function_order.

(* the per-name dictionaries (.nodal / .facet / .edge / .interior of a view, also after skip / keep / drop): the keys are exactly the
   names of the surviving rows, each once, and the value of a key consists of exactly the DOFs of the selected entities in the
   surviving rows that carry THAT name (row r of a block is named dofnames[r + off]) *)
Theorem C07_dictionaries_by_name :
  forall (blk : list (list nat)) (rows ix : list nat) (off : nat) (dofnames : list nat),
    NoDup (map fst (by_name blk rows ix off dofnames)) /\
    (forall n, In n (map fst (by_name blk rows ix off dofnames)) <-> exists r, In r rows /\ nth (r + off) dofnames 0 = n) /\
    (forall n l, In (n, l) (by_name blk rows ix off dofnames) ->
       forall d, In d l <-> exists r j, In r rows /\ nth (r + off) dofnames 0 = n /\ In j ix /\ d = nth j (nth r blk []) 0).
Proof. exact by_name_spec. Qed.
Print Assumptions C07_dictionaries_by_name.

(* trace support.  For a cell e one of whose local facets is a selected facet, let tr r be the trace on that local facet of the local
   basis function r (value, normal or tangential component as appropriate: C03's trace quantities, any semiring-like carrier), and
   att the (kind, local slot) pairs attached to the closure of the local facet.  GIVEN C03's trace lemma (tr r = 0 unless row r belongs
   to an attached slot) and the connectivity fact that the entity of an attached slot of e is a vertex of / an edge of / a selected
   facet (C11: t2f_slotwise, f2e), the trace of sum_d w(d) phi_d seen from e is the same for all coefficient vectors that agree on the
   DOFs returned by the facet query: it depends on no DOF outside the returned set. *)
Theorem C07_trace_support :
  forall (A : Type) (zero : A) (add mul : A -> A -> A), (forall x, mul x zero = zero) ->
  forall dim nd ed fd id nv ne nf nt t t2e t2f, wf dim fd nv ne nf nt t t2e t2f ->
  forall dofnames offs facets f2e dim3 F,
    (forall f, In f F -> f < nf) -> (forall f v, In f F -> In v (nth f facets []) -> v < nv) ->
    (forall row f, In row f2e -> In f F -> nth f row 0 < ne) ->
  forall e, e < nt -> forall (tr : nat -> A) (att : kind -> nat -> bool),
    let D := gen_dofs_init dim nd ed fd id 0 nv ne nf nt t t2e t2f in
    (forall r, r < length (D_element D) ->
       tr r = zero \/ exists kd s' k, s' < nslots t t2e t2f kd /\ k < cnt dim nd ed fd id kd /\
                                      r = rowpos dim nd ed fd t t2e t2f kd s' k /\ att kd s' = true) ->
    (forall kd s', att kd s' = true -> s' < nslots t t2e t2f kd ->
       facet_selected facets f2e dim3 F kd (slot_ent t t2e t2f kd s' e)) ->
    forall w w' : nat -> A,
      (forall d, In d (flatten D (get_facet_dofs D dofnames offs nd ed fd facets f2e dim3 F [])) -> w d = w' d) ->
      trace A zero add mul dim nd ed fd id nv ne nf nt t t2e t2f e tr w
      = trace A zero add mul dim nd ed fd id nv ne nf nt t t2e t2f e tr w'.
Proof.
  intros A zero add mul Hm dim nd ed fd id nv ne nf nt t t2e t2f Hwf dofnames offs facets f2e dim3 F BF Bv Be e He tr att D.
  unfold D. rewrite gen_dofs_init_is_model. intros H1 H2 w w' Hag.
  exact (trace_support A zero add mul Hm dim nd ed fd id nv ne nf nt t t2e t2f Hwf dofnames offs facets f2e dim3 F BF Bv Be
           e He tr att H1 H2 w w' Hag).
Qed.
Print Assumptions C07_trace_support.

(* re-tagging (Mesh.with_boundaries / with_subdomains, shape re-checked by ast): a name defined again denotes the NEW set, every other
   name keeps its set; so after any history of definitions a tag name selects what its LAST definition says — the name, the index
   array and the predicate it was last defined by denote the same entities *)
Theorem C07_retagging_last_definition_wins :
  (forall old new k, tag_lookup (with_tags old new) k
                     = match tag_lookup new k with Some v => Some v | None => tag_lookup old k end) /\
  (forall hist new k, tag_lookup (tag_history (hist ++ [new])) k
                      = match tag_lookup new k with Some v => Some v | None => tag_lookup (tag_history hist) k end).
Proof. split; [exact with_tags_lookup | exact tag_history_last]. Qed.
Print Assumptions C07_retagging_last_definition_wins.

(* complement_dofs of several sets (or of a dictionary of views) is the sorted complement of their UNION in [0, N) *)
Theorem C07_complement_of_several_sets :
  forall (N : nat) (Ds : list (list nat)),
    StronglySorted Nat.lt (complement_many N Ds) /\
    forall x, In x (complement_many N Ds) <-> x < N /\ forall D, In D Ds -> ~ In x D.
Proof. intros N Ds. split; [apply complement_sorted | intros x; apply complement_many_in]. Qed.
Print Assumptions C07_complement_of_several_sets.

(* the argument-free query selects the boundary facets of C11 (exactly the facets with a single neighbour), and the complement
   query is the set complement in [0, N) *)
Theorem C07_boundary_default_and_complement :
  forall (f2t : list (list Z)) (n N : nat) tags (dofs_sel : list nat),
    normalize n (Some (boundary_facets f2t)) false tags SDefault = Some (boundary_facets f2t) /\
    (forall f, In f (boundary_facets f2t) <-> f < length (nth 1 f2t []) /\ row1 f2t f = (-1)%Z) /\
    StronglySorted Nat.lt (complement N dofs_sel) /\
    (forall x, In x (complement N dofs_sel) <-> x < N /\ ~ In x dofs_sel).
Proof.
  intros. split; [reflexivity|]. split; [intros f; apply boundary_facets_spec|].
  split; [apply complement_sorted | intros x; apply complement_in].
Qed.
Print Assumptions C07_boundary_default_and_complement.

(* non-vacuity: P2-like numbering on two triangles sharing an edge; facet 2 = {1,2} is the shared edge *)
Example C07_instance :
  let D := gen_dofs_init 2 1 0 1 0 0 4 0 5 2 [[0; 3]; [1; 2]; [2; 1]] [] [[0; 4]; [2; 2]; [1; 3]] in
  let facets := [[0; 1]; [0; 2]; [1; 2]; [1; 3]; [2; 3]] in
  let offs := gen_offsets 1 1 0 in
  flatten D (get_facet_dofs D [7; 7] offs 1 0 1 facets [] false [2; 2] []) = [1; 2; 6] /\
  flatten D (get_facet_dofs D [7; 8] offs 1 0 1 facets [] false [2] [8]) = [1; 2] /\
  flatten D (get_element_dofs D [7; 7] offs 1 0 1 [[0; 3]; [1; 2]; [2; 1]] [] [[0; 4]; [2; 2]; [1; 3]] [1] []) = [1; 2; 3; 6; 7; 8] /\
  complement (D_N D) [1; 2; 6] = [0; 3; 4; 5; 7; 8].
Proof. vm_compute. repeat split. Qed.
Print Assumptions C07_instance.

(* ------------------------------------------------------------------ wrappers (pure plumbing), translated from the current source.
   The definitions gen_* are regenerated by the ast translator of vlib/props/c07.py from Mesh.facets_satisfying / nodes_satisfying /
   elements_satisfying / with_boundaries / with_subdomains and DofsView.__or__ / __add__; the statements hold for ALL argument values *)

(* option handling of the *_satisfying selectors: the result is the predicate set, cut with the boundary set OF THE SAME ENTITY KIND
   exactly when boundaries_only is set, and the facet set does not depend on `normal` *)
Theorem C07_wrap_satisfying_options :
  (forall pred bfacets bnodes bo ng,
     gen_facets_satisfying pred bfacets bnodes bo ng = if bo then inter pred bfacets else pred) /\
  (forall pred bfacets bnodes bo ng x,
     In x (gen_facets_satisfying pred bfacets bnodes bo ng) <-> In x pred /\ (bo = true -> In x bfacets)) /\
  (forall pred bfacets bnodes bo,
     gen_nodes_satisfying pred bfacets bnodes bo = if bo then inter pred bnodes else pred) /\
  (forall pred bfacets bnodes bo x,
     In x (gen_nodes_satisfying pred bfacets bnodes bo) <-> In x pred /\ (bo = true -> In x bnodes)) /\
  (forall pred, gen_elements_satisfying pred = pred).
Proof.
  split; [exact wrap_facets_satisfying|]. split; [exact wrap_facets_satisfying_in|]. split; [exact wrap_nodes_satisfying|].
  split; [exact wrap_nodes_satisfying_in | exact wrap_elements_satisfying].
Qed.
Print Assumptions C07_wrap_satisfying_options.

(* the dictionary merge of with_boundaries / with_subdomains is the model's with_tags (new definitions win), one call or any history *)
Theorem C07_wrap_retagging_merge :
  (forall old new, gen_with_boundaries old new = with_tags old new /\ gen_with_subdomains old new = with_tags old new) /\
  (forall old new k,
     tag_lookup (gen_with_boundaries old new) k = match tag_lookup new k with Some v => Some v | None => tag_lookup old k end /\
     tag_lookup (gen_with_subdomains old new) k = match tag_lookup new k with Some v => Some v | None => tag_lookup old k end) /\
  (forall hist, fold_left gen_with_boundaries hist [] = tag_history hist /\ fold_left gen_with_subdomains hist [] = tag_history hist).
Proof.
  split; [intros; split; [apply wrap_with_boundaries | apply wrap_with_subdomains]|].
  split; [exact wrap_with_boundaries_lookup|]. intros; split; [apply wrap_history_boundaries | apply wrap_history_subdomains].
Qed.
Print Assumptions C07_wrap_retagging_merge.

(* DofsView.__or__ and __add__ are the model's view_or: per kind the union of the index sets with the rows of the LEFT operand *)
Theorem C07_wrap_view_union :
  (forall a b, gen_view_or a b = view_or a b /\ gen_view_add a b = view_or a b) /\
  (forall a b kd, rows_of (gen_view_add a b) kd = rows_of a kd /\
                  forall x, In x (ix_of (gen_view_add a b) kd) <-> In x (ix_of a kd) \/ In x (ix_of b kd)).
Proof. split; [exact wrap_view_or | exact wrap_view_or_spec]. Qed.
Print Assumptions C07_wrap_view_union.
