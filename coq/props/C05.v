(* C05 — Essential boundary conditions: condense, enforce, penalize, expansion.
   Only statements; proofs live in Proofs.C05_*, the tie to skfem/utils.py in Dyn.C05Tie.
   All theorems: for EVERY ring R (Leibniz equality; Z, any field), every size, every sparse matrix given by its
   stored entries (empty rows, explicit zeros, unsorted columns, unsymmetric patterns), every duplicate-free
   index set in any order, every prescribed values.  gen_* are the definitions REGENERATED from the source. *)
From Coq Require Import List ZArith Bool Arith Ring Lia.
Import ListNotations.
Require Import Base.C05_Np Model.C05_BC Model.C05_MPC Model.C05_Ext Model.C05_Solve Proofs.C05_IdxProofs Proofs.C05_CondenseProofs Proofs.C05_EnforceProofs
               Proofs.C05_ChainProofs Proofs.C05_PenalizeProofs Proofs.C05_EquivProofs Proofs.C05_MPCProofs Proofs.C05_ExtProofs Proofs.C05_SolveProofs Gen.C05Gen Dyn.C05Tie.

Definition is_ring {R} (o : ring_ops R) := ring_theory (r0 o) (r1 o) (radd o) (rmul o) (rsub o) (ropp o) (@eq R).

(* ---- condense + solve + expand (both call forms: I given or D given).
   If z solves the condensed system  A[I][:,I] z = b[I] - A[I][:,D] x[D]  then  y = (x.copy(); y[I] = z)  equals x on the
   constrained indices and satisfies the ORIGINAL equations on the kept ones. *)
Theorem C05_condense_expand_sound :
  forall (R : Type) (o : ring_ops R), is_ring o ->
  forall (A : list (list (nat * R))) (b x : list R) (Isel Dsel : option (list nat)) (I D : list nat) (z : list R),
    length x = length A -> rows_in_range (length A) A ->
    (forall S, Isel = Some S -> given_ok (length A) S) -> (forall S, Dsel = Some S -> given_ok (length A) S) ->
    gen_init_bc (length A) Isel Dsel = Some (I, D) ->
    length z = length I ->
    matvec o (gen_condense_A A I) z = gen_condense_b o A b x I D ->
    split_ok (length A) I D /\
    length (gen_expand x I z) = length A /\
    (forall d, In d D -> vnth o (gen_expand x I z) d = vnth o x d) /\
    (forall i, In i I -> vnth o (matvec o A (gen_expand x I z)) i = vnth o b i).
Proof.
  intros R o Rth A b x Isel Dsel I D z Hx HA HI HD E Hz Hs.
  assert (HS : split_ok (length A) I D) by (eapply init_bc_split; eauto).
  split; [exact HS|]. exact (condense_expand_sound_core o Rth (length A) A b x I D z Hx HA HS Hz Hs).
Qed.
Print Assumptions C05_condense_expand_sound.

(* conversely the condensed system loses no solution *)
Theorem C05_condense_complete :
  forall (R : Type) (o : ring_ops R), is_ring o ->
  forall n (A : list (list (nat * R))) (b x y : list R) (I D : list nat),
    length y = n -> rows_in_range n A -> split_ok n I D ->
    (forall d, In d D -> vnth o y d = vnth o x d) ->
    (forall i, In i I -> vnth o (matvec o A y) i = vnth o b i) ->
    matvec o (gen_condense_A A I) (vsel o y I) = gen_condense_b o A b x I D.
Proof. exact (@condense_complete_core). Qed.
Print Assumptions C05_condense_complete.

(* the complement computed by _init_bc really is a split of [0,n), for either call form *)
Theorem C05_init_bc_complement :
  forall n Isel Dsel I D, gen_init_bc n Isel Dsel = Some (I, D) ->
    (forall S, Isel = Some S -> given_ok n S) -> (forall S, Dsel = Some S -> given_ok n S) -> split_ok n I D.
Proof. exact init_bc_split. Qed.
Print Assumptions C05_init_bc_complement.

(* DOF collections given as a dict of views: the sorted duplicate-free union *)
Theorem C05_flatten_dofs_union :
  forall n views, (forall v d, In v views -> In d v -> d < n) ->
    given_ok n (gen_flatten_dict views) /\ forall d, In d (gen_flatten_dict views) <-> exists v, In v views /\ In d v.
Proof. intros n views H. split; [now apply flatten_dofs_given_ok | intros d; apply flatten_dofs_union]. Qed.
Print Assumptions C05_flatten_dofs_union.

(* ---- index arrays with REPEATED entries denote a set (no duplicate-free hypothesis any more): the array branch of
   _flatten_dofs returns a duplicate-free list with the same elements, so for ANY index lists in range: *)
Theorem C05_flatten_array_set :
  forall n S, (forall c, In c S -> c < n) ->
    given_ok n (gen_flatten_array S) /\ forall c, In c (gen_flatten_array S) <-> In c S.
Proof. exact gen_flatten_array_correct. Qed.
Print Assumptions C05_flatten_array_set.

Theorem C05_condense_expand_sound_any :
  forall (R : Type) (o : ring_ops R), is_ring o ->
  forall (A : list (list (nat * R))) (b x : list R) (Iraw Draw : option (list nat)) (I D : list nat) (z : list R),
    length x = length A -> rows_in_range (length A) A ->
    sel_bounded (length A) Iraw -> sel_bounded (length A) Draw ->
    gen_init_bc (length A) (option_map gen_flatten_array Iraw) (option_map gen_flatten_array Draw) = Some (I, D) ->
    length z = length I ->
    matvec o (gen_condense_A A I) z = gen_condense_b o A b x I D ->
    (forall S, Iraw = Some S -> forall c, In c I <-> In c S) /\
    (forall S, Draw = Some S -> forall c, In c D <-> In c S) /\
    split_ok (length A) I D /\
    length (gen_expand x I z) = length A /\
    (forall d, In d D -> vnth o (gen_expand x I z) d = vnth o x d) /\
    (forall i, In i I -> vnth o (matvec o A (gen_expand x I z)) i = vnth o b i).
Proof. intros R o Rth. exact (condense_expand_sound_any o Rth gen_flatten_array gen_flatten_array_correct). Qed.
Print Assumptions C05_condense_expand_sound_any.

(* generalized eigenproblems: with homogeneous data on D an eigenpair of the reduced pencil expands to a vector
   satisfying the full pencil's equations on the kept rows *)
Theorem C05_condense_eig_consistent :
  forall (R : Type) (o : ring_ops R), is_ring o ->
  forall n (A B : list (list (nat * R))) (x : list R) (I D : list nat) (z : list R) (lam : R),
    length x = n -> rows_in_range n A -> rows_in_range n B -> split_ok n I D -> length z = length I ->
    (forall d, In d D -> vnth o x d = r0 o) ->
    matvec o (gen_condense_A A I) z = map (fun t => rmul o lam t) (matvec o (gen_condense_B B I) z) ->
    forall i, In i I ->
      vnth o (matvec o A (gen_expand x I z)) i = rmul o lam (vnth o (matvec o B (gen_expand x I z)) i).
Proof. exact (@condense_eig_consistent). Qed.
Print Assumptions C05_condense_eig_consistent.

(* ---- enforce: the row-zeroing index arithmetic regenerated from the source returns, for every valid row pointer
   and every D, exactly the union of the storage ranges [indptr d, indptr (d+1)) — empty rows included *)
Theorem C05_enforce_positions :
  forall n (ip : list Z) (D : list nat), ip_valid n ip -> (forall d, In d D -> d < n) ->
    gen_enforce_idx ip (map Z.of_nat D) = Some (row_positions ip (map Z.of_nat D)) /\
    forall k, In k (row_positions ip (map Z.of_nat D)) <->
              exists d, In d (map Z.of_nat D) /\ (ipz ip d <= k < ipz ip (d + 1))%Z.
Proof. intros n ip D Hv HD. split; [exact (gen_enforce_idx_correct n ip D Hv HD) | intros k; apply in_row_positions]. Qed.
Print Assumptions C05_enforce_positions.

(* exactly those stored values are zeroed, every other stored value is untouched *)
Theorem C05_enforce_zeroed_exactly :
  forall (R : Type) (o : ring_ops R) n (A : csr R) (D : list nat),
    csr_valid0 n A -> (forall d, In d D -> d < n) ->
    enforce_zeroed o gen_enforce_idx A D = Some (zeroed_csr o A D) /\
    forall k,
      ((exists d, In d D /\ ipn (indptr A) d <= k < ipn (indptr A) (S d)) -> nth k (data (zeroed_csr o A D)) (r0 o) = r0 o) /\
      (~ (exists d, In d D /\ ipn (indptr A) d <= k < ipn (indptr A) (S d)) -> nth k (data (zeroed_csr o A D)) (r0 o) = nth k (data A) (r0 o)).
Proof.
  intros R o n A D HA HD. split; [exact (enforce_zeroed_ok o gen_enforce_idx gen_enforce_idx_correct n A D HA HD)|].
  intros k. destruct (zeroed_data_spec o n A D k HA HD) as (_ & H1 & H2). split; assumption.
Qed.
Print Assumptions C05_enforce_zeroed_exactly.

(* enforce with a vector right-hand side, both call forms: constrained rows become diag * e_d with right-hand side
   x_d; every stored entry of the other rows keeps its place and value (a missing diagonal entry may be added as an
   explicit zero by setdiag), their right-hand sides are untouched *)
Theorem C05_enforce_spec :
  forall (R : Type) (o : ring_ops R), is_ring o ->
  forall n (A : csr R) (b x : list R) (Isel Dsel : option (list nat)) (diag : R),
    csr_valid n A -> length b = n ->
    (forall S, Isel = Some S -> given_ok n S) -> (forall S, Dsel = Some S -> given_ok n S) ->
    (exists S, (Isel = Some S /\ Dsel = None) \/ (Isel = None /\ Dsel = Some S)) ->
    exists I D M' b',
      gen_init_bc n Isel Dsel = Some (I, D) /\ split_ok n I D /\
      enforce o gen_enforce_idx A b x Isel Dsel diag = Some (M', b') /\
      length M' = n /\ length b' = n /\
      (forall d, In d D ->
         (forall j, dense_entry o (mrow M' d) j = if Nat.eqb d j then diag else r0 o) /\
         (forall y, row_dot o (mrow M' d) y = rmul o diag (vnth o y d)) /\
         vnth o b' d = vnth o x d) /\
      (forall i, i < n -> ~ In i D ->
         (mrow M' i = csr_row A i \/ (has_col (csr_row A i) i = false /\ mrow M' i = csr_row A i ++ [(i, r0 o)])) /\
         (forall y, row_dot o (mrow M' i) y = row_dot o (csr_row A i) y) /\
         vnth o b' i = vnth o b i).
Proof.
  intros R o Rth n A b x Isel Dsel diag HA Hb HI HD Hsel.
  destruct (enforce_spec o Rth gen_enforce_idx gen_enforce_idx_correct n A b x Isel Dsel diag HA Hb HI HD Hsel)
    as (I & D & E & HS & Eenf & Hlb & Hin & Hout).
  exists I, D, (enforced_rows o A D diag), (enforce_rhs o b x D).
  assert (BD : forall d, In d D -> d < n) by apply HS.
  destruct (enforce_matrix_spec o Rth gen_enforce_idx gen_enforce_idx_correct n A D diag HA BD) as (_ & Hlen & Hrow & Hrest).
  split; [exact E|]. split; [exact HS|]. split; [exact Eenf|]. split; [exact Hlen|]. split; [exact Hlb|]. split.
  - intros d Hd. split; [|split].
    + intros j. exact (enforce_matrix_dense o Rth gen_enforce_idx gen_enforce_idx_correct n A D diag d j HA BD Hd).
    + exact (Hrow d Hd).
    + exact (Hin d Hd).
  - intros i Hi Hni. split; [|split].
    + exact (Hrest i Hi Hni).
    + exact (proj2 (enforce_matrix_untouched o Rth gen_enforce_idx gen_enforce_idx_correct n A D diag i HA BD Hi Hni)).
    + exact (Hout i Hni).
Qed.
Print Assumptions C05_enforce_spec.

(* enforce for ANY index list (repetitions allowed, any order), both call forms: as C05_enforce_spec, with I, D the sets
   the given list denotes *)
Theorem C05_enforce_spec_any :
  forall (R : Type) (o : ring_ops R), is_ring o ->
  forall n (A : csr R) (b x : list R) (Iraw Draw : option (list nat)) (diag : R),
    csr_valid n A -> length b = n -> sel_bounded n Iraw -> sel_bounded n Draw ->
    (exists S, (Iraw = Some S /\ Draw = None) \/ (Iraw = None /\ Draw = Some S)) ->
    exists I D M' b',
      gen_init_bc n (option_map gen_flatten_array Iraw) (option_map gen_flatten_array Draw) = Some (I, D) /\ split_ok n I D /\
      (forall S, Iraw = Some S -> forall c, In c I <-> In c S) /\ (forall S, Draw = Some S -> forall c, In c D <-> In c S) /\
      enforce o gen_enforce_idx A b x (option_map gen_flatten_array Iraw) (option_map gen_flatten_array Draw) diag = Some (M', b') /\
      length M' = n /\ length b' = n /\
      (forall d, In d D ->
         (forall j, dense_entry o (mrow M' d) j = if Nat.eqb d j then diag else r0 o) /\
         (forall y, row_dot o (mrow M' d) y = rmul o diag (vnth o y d)) /\
         vnth o b' d = vnth o x d) /\
      (forall i, i < n -> ~ In i D ->
         (mrow M' i = csr_row A i \/ (has_col (csr_row A i) i = false /\ mrow M' i = csr_row A i ++ [(i, r0 o)])) /\
         (forall y, row_dot o (mrow M' i) y = row_dot o (csr_row A i) y) /\
         vnth o b' i = vnth o b i).
Proof.
  intros R o Rth n A b x Iraw Draw diag HA Hb HI HD Hsel.
  destruct (C05_enforce_spec R o Rth n A b x (option_map gen_flatten_array Iraw) (option_map gen_flatten_array Draw) diag HA Hb
              (flat_given gen_flatten_array gen_flatten_array_correct n Iraw HI)
              (flat_given gen_flatten_array gen_flatten_array_correct n Draw HD))
    as (I & D & M' & b' & E & HS & Rest).
  { destruct Hsel as (S & [[-> ->]|[-> ->]]); exists (gen_flatten_array S); simpl; tauto. }
  destruct (init_bc_any gen_flatten_array gen_flatten_array_correct n Iraw Draw I D HI HD E) as (_ & E1 & E2).
  exists I, D, M', b'. split; [exact E|]. split; [exact HS|]. split; [exact E1|]. split; [exact E2 | exact Rest].
Qed.
Print Assumptions C05_enforce_spec_any.

(* enforce / penalize on CSR storage with DUPLICATE (row, col) entries (meaning: their sum), no assumption on the rows:
   zeroing every stored entry of the constrained rows and then setting the diagonal is still right, at the level of the
   dense semantics (setdiag modelled as "replace all stored entries of position (i,i) by one") *)
Theorem C05_enforce_any_storage :
  forall (R : Type) (o : ring_ops R), is_ring o ->
  forall n (A : csr R) (D : list nat) (diag : R),
    csr_valid0 n A -> (forall d, In d D -> d < n) ->
    exists M', enforce_matrix_sum o gen_enforce_idx A D diag = Some M' /\ length M' = n /\
      (forall d, In d D -> forall y, row_dot o (mrow M' d) y = rmul o diag (vnth o y d)) /\
      (forall i, i < n -> ~ In i D -> forall y, row_dot o (mrow M' i) y = row_dot o (csr_row A i) y).
Proof. intros R o Rth. exact (enforce_any_storage o Rth gen_enforce_idx gen_enforce_idx_correct). Qed.
Print Assumptions C05_enforce_any_storage.

Theorem C05_penalize_any_storage :
  forall (R : Type) (o : ring_ops R), is_ring o ->
  forall (M : list (list (nat * R))) (D : list nat) (w : R) (y : list R),
    (forall d, In d D -> d < length M) ->
    length (penalize_matrix_sum o M D w) = length M /\
    (forall d, In d D ->
       row_dot o (mrow (penalize_matrix_sum o M D w) d) y
       = radd o (rmul o w (vnth o y d)) (rsub o (row_dot o (mrow M d) y) (rmul o (dense_entry o (mrow M d) d) (vnth o y d)))) /\
    (forall i, i < length M -> ~ In i D -> row_dot o (mrow (penalize_matrix_sum o M D w) i) y = row_dot o (mrow M i) y).
Proof. intros R o Rth. exact (penalize_any_storage o Rth). Qed.
Print Assumptions C05_penalize_any_storage.

(* the enforced system has the solutions of: diag * y_d = x_d on D, ORIGINAL equations elsewhere *)
Theorem C05_enforce_solution_iff :
  forall (R : Type) (o : ring_ops R), is_ring o ->
  forall n (A : csr R) (b x : list R) (D : list nat) (diag : R) (y : list R) (M' : list (list (nat * R))),
    csr_valid n A -> length b = n -> NoDup D -> (forall d, In d D -> d < n) ->
    enforce_matrix o gen_enforce_idx A D diag = Some M' ->
    ((forall i, i < n -> row_dot o (mrow M' i) y = vnth o (gen_enforce_rhs o b x D) i) <->
     (forall d, In d D -> rmul o diag (vnth o y d) = vnth o x d) /\
     (forall i, i < n -> ~ In i D -> row_dot o (csr_row A i) y = vnth o b i)).
Proof.
  intros R o Rth n A b x D diag y M' HA Hb ND HD EM.
  destruct (enforce_matrix_spec o Rth gen_enforce_idx gen_enforce_idx_correct n A D diag HA HD) as (E & _).
  rewrite E in EM. injection EM as <-.
  exact (enforce_solution_iff o Rth gen_enforce_idx gen_enforce_idx_correct n A b x D diag y HA Hb ND HD).
Qed.
Print Assumptions C05_enforce_solution_iff.

(* enforce (diag = 1) and condense have the same solutions: y solves the enforced system iff y = x on D and y restricted
   to I solves the condensed system *)
Theorem C05_enforce_condense_equivalent :
  forall (R : Type) (o : ring_ops R), is_ring o ->
  forall n (A : csr R) (b x y : list R) (I D : list nat) (M' : list (list (nat * R))),
    csr_valid n A -> length b = n -> length x = n -> length y = n -> split_ok n I D ->
    enforce_matrix o gen_enforce_idx A D (r1 o) = Some M' ->
    ((forall i, i < n -> row_dot o (mrow M' i) y = vnth o (gen_enforce_rhs o b x D) i) <->
     (forall d, In d D -> vnth o y d = vnth o x d) /\
     matvec o (gen_condense_A (csr_rows A) I) (vsel o y I) = gen_condense_b o (csr_rows A) b x I D).
Proof.
  intros R o Rth n A b x y I D M' HA Hb Hx Hy HS EM.
  assert (BD : forall d, In d D -> d < n) by apply HS.
  destruct (enforce_matrix_spec o Rth gen_enforce_idx gen_enforce_idx_correct n A D (r1 o) HA BD) as (E & _).
  rewrite E in EM. injection EM as <-.
  exact (enforce_condense_equivalent o Rth gen_enforce_idx gen_enforce_idx_correct n A b x y I D HA Hb Hx Hy HS).
Qed.
Print Assumptions C05_enforce_condense_equivalent.

(* matrix right-hand side (mass matrix of an eigen- or initial value problem): reduced by the same routine with
   diag = 0: its constrained rows vanish, the stiffness rows become diag * e_d, all other rows act as before *)
Theorem C05_enforce_mass :
  forall (R : Type) (o : ring_ops R), is_ring o ->
  forall n (A B : csr R) (Isel Dsel : option (list nat)) (diag : R),
    csr_valid n A -> csr_valid n B ->
    (forall S, Isel = Some S -> given_ok n S) -> (forall S, Dsel = Some S -> given_ok n S) ->
    (exists S, (Isel = Some S /\ Dsel = None) \/ (Isel = None /\ Dsel = Some S)) ->
    exists I D A' B',
      gen_init_bc n Isel Dsel = Some (I, D) /\
      enforce_eig o gen_enforce_idx A B Isel Dsel diag = Some (A', B') /\
      (forall d, In d D -> forall y, row_dot o (mrow A' d) y = rmul o diag (vnth o y d)) /\
      (forall d, In d D -> forall y, row_dot o (mrow B' d) y = r0 o) /\
      (forall d, In d D -> forall j, dense_entry o (mrow B' d) j = r0 o) /\
      (forall i, i < n -> ~ In i D -> forall y,
          row_dot o (mrow A' i) y = row_dot o (csr_row A i) y /\ row_dot o (mrow B' i) y = row_dot o (csr_row B i) y).
Proof.
  intros R o Rth n A B Isel Dsel diag HA HB HI HD Hsel.
  destruct (enforce_mass o Rth gen_enforce_idx gen_enforce_idx_correct n A B Isel Dsel diag HA HB HI HD Hsel)
    as (I & D & H). exists I, D, (enforced_rows o A D diag), (enforced_rows o B D (r0 o)). exact H.
Qed.
Print Assumptions C05_enforce_mass.

(* ---- penalize with weight w = 1/epsilon: the penalised row d reads  w y_d + sum_{j<>d} a_dj y_j = w x_d,
   so the deviation y_d - x_d is epsilon times the off-diagonal residual; other rows and right-hand sides untouched *)
Theorem C05_penalize_identity :
  forall (R : Type) (o : ring_ops R), is_ring o ->
  forall (M : list (list (nat * R))) (b x : list R) (D : list nat) (w : R) (y : list R),
    rows_nodup M -> length b = length M -> NoDup D -> (forall d, In d D -> d < length M) ->
    length (gen_penalize_matrix o M D w) = length M /\
    (forall d, In d D ->
       row_dot o (mrow (gen_penalize_matrix o M D w) d) y
       = radd o (rmul o w (vnth o y d)) (rsub o (row_dot o (mrow M d) y) (rmul o (dense_entry o (mrow M d) d) (vnth o y d)))
       /\ vnth o (gen_penalize_rhs o b x D w) d = rmul o (vnth o x d) w) /\
    (forall i, i < length M -> ~ In i D ->
       row_dot o (mrow (gen_penalize_matrix o M D w) i) y = row_dot o (mrow M i) y
       /\ vnth o (gen_penalize_rhs o b x D w) i = vnth o b i).
Proof. exact (@penalize_identity). Qed.
Print Assumptions C05_penalize_identity.

(* ---- mpc (multipoint constraints x[S] = T x[M] + g): if u solves the reduced system (B, y) that mpc returns, the vector
   solve_linear builds from it (np.add.at on zeros over the index array U, M, S with the returned expansion) satisfies the
   constraint exactly and the rows U and M of A x = b — any sparse A, T, any duplicate-free disjoint S, M in any order *)
Theorem C05_mpc_sound :
  forall (R : Type) (o : ring_ops R), is_ring o ->
  forall n (A T : list (list (nat * R))) (b g u : list R) (M S : list nat),
    length A = n -> length b = n -> rows_in_range n A ->
    NoDup (M ++ S) -> (forall c, In c (M ++ S) -> c < n) ->
    length T = length S -> length g = length S ->
    let U := gen_mpc_U n M S in
    length u = length U + length M ->
    matvec o (gen_mpc_B o A T U M S) u = gen_mpc_y o A b g U M S ->
    let x := gen_expand_tuple o (map (fun _ => r0 o) b) (gen_mpc_perm U M S) (gen_mpc_expand o T g U) u in
    length x = n /\
    vsel o x S = vadd o (matvec o T (vsel o x M)) g /\
    (forall i, In i (U ++ M) -> vnth o (matvec o A x) i = vnth o b i).
Proof. exact (@mpc_sound). Qed.
Print Assumptions C05_mpc_sound.

(* ---- the dispatch wrapper solve (regenerated from the source: callee, positional arguments, expansion guard), for ALL argument
   values and ANY solvers lin / eig:
   the tuple condense returns, passed positionally, is (matrix, right-hand side, x, I): the solver gets the condensed
   system and its result is expanded through (x, I); the pair enforce returns leaves x, I unset: the solver's result is returned;
   a sparse second argument goes to the eigen path, every eigenvector is expanded; the tuple of mpc uses the returned expansion;
   any other second argument raises. *)
Theorem C05_solve_forwarding :
  forall (R : Type) (o : ring_ops R) (lin : list (list (nat * R)) -> list R -> list R)
         (eig : list (list (nat * R)) -> list (list (nat * R)) -> list R * list (list R)),
    (forall A b (x : list R) Isel Dsel AII bI x' I', condense o A b x Isel Dsel = Some (AII, bI, x', I') ->
       gen_solve o lin eig AII (RVec bI) (Some x') (Some (IArr I')) = Some (SVec (gen_expand x' I' (lin AII bI)))) /\
    (forall M' (b' : list R), gen_solve o lin eig M' (RVec b') None None = Some (SVec (lin M' b'))) /\
    (forall A B (x : list R) Isel Dsel AII BII x' I', condense_eig A B x Isel Dsel = Some (AII, BII, x', I') ->
       gen_solve o lin eig AII (RMat BII) (Some x') (Some (IArr I')) = Some (SEig (fst (eig AII BII)) (gen_expand_eig x' I' (snd (eig AII BII))))) /\
    (forall Bm (y x0 : list R) perm f,
       gen_solve o lin eig Bm (RVec y) (Some x0) (Some (ITup perm f)) = Some (SVec (gen_expand_tuple o x0 perm f (lin Bm y)))) /\
    (forall A x Ia, gen_solve o lin eig A ROther x Ia = None).
Proof.
  intros R o lin eig. split; [|split; [|split; [|split]]].
  - intros. rewrite gen_solve_is_model. exact (solve_condense_forwarding o lin eig A b x Isel Dsel AII bI x' I' H).
  - intros. rewrite gen_solve_is_model. reflexivity.
  - intros. rewrite gen_solve_is_model. exact (solve_condense_eig_forwarding o lin eig A B x Isel Dsel AII BII x' I' H).
  - intros. rewrite gen_solve_is_model. reflexivity.
  - intros. rewrite gen_solve_is_model. reflexivity.
Qed.
Print Assumptions C05_solve_forwarding.

(* end to end: solve applied to the tuple of condense, with any solver that solves the condensed system, returns a vector that
   carries x on D and satisfies the original equations on I *)
Theorem C05_solve_condense_end_to_end :
  forall (R : Type) (o : ring_ops R), is_ring o ->
  forall lin eig (A : list (list (nat * R))) (b x : list R) Isel Dsel AII bI x' I' y,
    length x = length A -> rows_in_range (length A) A ->
    (forall S, Isel = Some S -> given_ok (length A) S) -> (forall S, Dsel = Some S -> given_ok (length A) S) ->
    condense o A b x Isel Dsel = Some (AII, bI, x', I') ->
    length (lin AII bI) = length I' -> matvec o AII (lin AII bI) = bI ->
    gen_solve o lin eig AII (RVec bI) (Some x') (Some (IArr I')) = Some (SVec y) ->
    exists D', gen_init_bc (length A) Isel Dsel = Some (I', D') /\ length y = length A /\
      (forall d, In d D' -> vnth o y d = vnth o x d) /\ (forall i, In i I' -> vnth o (matvec o A y) i = vnth o b i).
Proof.
  intros R o Rth lin eig A b x Isel Dsel AII bI x' I' y Hx HA HI HD Hc Hl Hs Hy. rewrite gen_solve_is_model in Hy.
  exact (solve_condense_end_to_end o Rth lin eig A b x Isel Dsel AII bI x' I' y Hx HA HI HD Hc Hl Hs Hy).
Qed.
Print Assumptions C05_solve_condense_end_to_end.

(* ---- non-vacuity: the matrix of finding F6 (row 1 stores nothing), Z entries, D = [0;1;2] and D = [1;0] *)
Definition ex_A : csr Z := {| indptr := [0; 2; 2; 5; 8]%Z; indices := [1; 0; 3; 0; 2; 1; 3; 2]; data := [1; 2; 3; 0; 5; 6; 7; 8]%Z |}.
Example C05_instance_valid : csr_valid 4 ex_A.
Proof.
  unfold csr_valid, ip_valid. simpl. repeat split; try lia.
  - intros i Hi. do 4 (destruct i as [|i]; [simpl; lia|]). lia.
  - intros i Hi cv Hcv. do 4 (destruct i as [|i]; [vm_compute in Hcv; intuition (subst; simpl; lia)|]). lia.
  - intros i Hi. do 4 (destruct i as [|i]; [vm_compute; repeat constructor; simpl; intuition lia|]). lia.
Qed.
Print Assumptions C05_instance_valid.
Example C05_instance_positions :
  gen_enforce_idx (indptr ex_A) [0; 1; 2]%Z = Some [0; 1; 2; 3; 4]%Z /\ gen_enforce_idx (indptr ex_A) [1; 0]%Z = Some [0; 1]%Z.
Proof. split; vm_compute; reflexivity. Qed.
Print Assumptions C05_instance_positions.
Example C05_instance_enforce :
  enforce Zops gen_enforce_idx ex_A [10; 11; 12; 13]%Z [100; 101; 102; 103]%Z None (Some [2; 0; 1]) 7%Z
  = Some ([[(1, 0%Z); (0, 7%Z)]; [(1, 7%Z)]; [(3, 0%Z); (0, 0%Z); (2, 7%Z)]; [(1, 6%Z); (3, 7%Z); (2, 8%Z)]], [100; 101; 102; 13]%Z).
Proof. vm_compute. reflexivity. Qed.
Print Assumptions C05_instance_enforce.
Example C05_instance_condense :
  condense Zops (csr_rows ex_A) [10; 11; 12; 13]%Z [100; 101; 102; 103]%Z (Some [2; 0; 3]) None
  = Some ([[(2, 3%Z); (1, 0%Z); (0, 5%Z)]; [(1, 2%Z)]; [(2, 7%Z); (0, 8%Z)]], [12; -91; -593]%Z, [100; 101; 102; 103]%Z, [2; 0; 3]).
Proof. vm_compute. reflexivity. Qed.
Print Assumptions C05_instance_condense.

(* empty selections (np.array([]) for D or I): the empty list denotes the empty set; the theorems above cover it (given_ok n []
   holds); the two extreme splits computed on the example matrix: nothing constrained / nothing kept *)
Example C05_instance_empty_selection :
  gen_flatten_array [] = [] /\
  gen_init_bc 4 None (Some (gen_flatten_array [])) = Some ([0; 1; 2; 3], []) /\
  gen_init_bc 4 (Some (gen_flatten_array [])) None = Some ([], [0; 1; 2; 3]) /\
  condense Zops (csr_rows ex_A) [10; 11; 12; 13]%Z [100; 101; 102; 103]%Z (Some []) None
    = Some ([], [], [100; 101; 102; 103]%Z, []) /\
  option_map snd (enforce Zops gen_enforce_idx ex_A [10; 11; 12; 13]%Z [100; 101; 102; 103]%Z None (Some []) 7%Z)
    = Some [10; 11; 12; 13]%Z.
Proof. vm_compute. repeat split; reflexivity. Qed.
Print Assumptions C05_instance_empty_selection.
