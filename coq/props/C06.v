(* C06 — Galerkin exactness end to end (patch test and projection identity).   PARTIAL (see below).
   Only statements; proofs in Proofs.C06_GalerkinProofs (on top of Proofs.C05_CondenseProofs), tie in Dyn.C06Tie.
   Proved, for EVERY ring, every basis tables (any mesh, any numbering, any quadrature, curved or not; basis functions are
   FAMILIES of components: scalar, vector-valued and composite elements — inner = sum over all components),
   every coefficient vector: the algebraic compositions
     - load(interp x) = M x   over the same basis and quadrature (no exactness of quadrature needed);
     - on a cell subset / facet set with I = dofs of the integrated cells: x_I solves M_II z = f_I, hence (M_II nonsingular)
       project returns x on I and 0 elsewhere;
     - patch test: if x* satisfies the free rows and carries the prescribed values, the solve of condense(A, b, x, D=D) is x*.
   NOT proved (named in the evidence): that the nodal interpolant of a polynomial solution satisfies the free rows
   (Green's identity + exact quadrature + polynomial completeness of the element), and SciPy's spsolve.
   Full statement kept for the record:
     forall mesh with affine cells, element of degree k, polynomial u of degree <= k solving the model problem,
       Dirichlet/Neumann split along facet sets:  the solve of condense(A, b, x=u_h, D=dofs) = u_h  (u_h the interpolant). *)
From Coq Require Import List ZArith Bool Arith Ring.
Import ListNotations.
Require Import Base.C05_Np Model.C05_BC Model.C06_Galerkin Proofs.C05_CondenseProofs Proofs.C06_GalerkinProofs
               Gen.C06Gen Dyn.C06Tie.

Definition is_ring {R} (o : ring_ops R) := ring_theory (r0 o) (r1 o) (radd o) (rmul o) (rsub o) (ropp o) (@eq R).

(* the pair (M, f) that Basis._projection assembles for interp = interpolate(x) satisfies f = M x *)
Theorem C06_projection_identity :
  forall (R : Type) (o : ring_ops R), is_ring o ->
  forall (N : nat) (B : fe R) (x : list R),
    snd (gen_projection o N B x) = matvec o (fst (gen_projection o N B x)) x.
Proof.
  intros R o Rth N B x.
  exact (projection_identity_list o Rth (gen_mass_kernel o) (gen_load_kernel o)
           (gen_mass_kernel_is_dot o Rth) (gen_load_kernel_is_dot o Rth) N B x).
Qed.
Print Assumptions C06_projection_identity.

(* subdomain / boundary part: I = get_dofs(elements / facets) contains every dof of the integrated cells; the system
   project() hands to the solver, condense(M, f, I=I), is solved by x restricted to I *)
Theorem C06_projection_on_subset :
  forall (R : Type) (o : ring_ops R), is_ring o ->
  forall (N : nat) (B : fe R) (x : list R) (I D : list nat),
    split_ok N I D -> (forall e i, e < nel B -> i < nloc B -> In (gdof B e i) I) ->
    exists AII bI x0,
      gen_project_system o (fst (gen_projection o N B x)) (snd (gen_projection o N B x)) I = Some (AII, Some bI, x0, I) /\
      x0 = repeat (r0 o) N /\ matvec o AII (vsel o x I) = bI.
Proof.
  intros R o Rth N B x I D HS Hloc.
  destruct (project_system_solved o Rth (gen_mass_kernel o) (gen_load_kernel o)
              (gen_mass_kernel_is_dot o Rth) (gen_load_kernel_is_dot o Rth) N B x I D HS Hloc) as (E1 & E2).
  eexists _, _, _. split; [exact E1|]. split; [reflexivity | exact E2].
Qed.
Print Assumptions C06_projection_on_subset.

(* ... hence, M_II nonsingular (injective), the projection returns the function on I and zero elsewhere *)
Theorem C06_project_returns_function :
  forall (R : Type) (o : ring_ops R), is_ring o ->
  forall (N : nat) (B : fe R) (x z : list R) (I D : list nat),
    split_ok N I D -> (forall e i, e < nel B -> i < nloc B -> In (gdof B e i) I) ->
    injective_on o (length I) (condense_A (fst (gen_projection o N B x)) I) ->
    length z = length I ->
    matvec o (condense_A (fst (gen_projection o N B x)) I) z
      = condense_b o (fst (gen_projection o N B x)) (snd (gen_projection o N B x)) (repeat (r0 o) N) I D ->
    forall c, c < N -> vnth o (expand (repeat (r0 o) N) I z) c = if memb c I then vnth o x c else r0 o.
Proof.
  intros R o Rth N B x z I D.
  exact (project_returns_function o Rth (gen_mass_kernel o) (gen_load_kernel o)
           (gen_mass_kernel_is_dot o Rth) (gen_load_kernel_is_dot o Rth) N B x z I D).
Qed.
Print Assumptions C06_project_returns_function.

(* patch test, algebraic part: any sparse system, any split; x carries the prescribed values of x*, x* satisfies the
   free rows, A_II nonsingular: the condensed solve, expanded, is x* *)
Theorem C06_patch_test_algebra_partial :
  forall (R : Type) (o : ring_ops R), is_ring o ->
  forall n (A : list (list (nat * R))) (b x xstar z : list R) (I D : list nat),
    length x = n -> length xstar = n -> rows_in_range n A -> split_ok n I D ->
    (forall d, In d D -> vnth o x d = vnth o xstar d) ->
    (forall i, In i I -> vnth o (matvec o A xstar) i = vnth o b i) ->
    injective_on o (length I) (condense_A A I) ->
    length z = length I -> matvec o (condense_A A I) z = condense_b o A b x I D ->
    forall c, c < n -> vnth o (expand x I z) c = vnth o xstar c.
Proof. exact (@patch_test_algebra). Qed.
Print Assumptions C06_patch_test_algebra_partial.

(* ---- non-vacuity: two "cells" sharing dof 1, two quadrature points, a composite (vector x scalar) element: shape [2; 1] *)
Definition exB : fe Z :=
  {| nel := 2; nloc := 2; nq := 2; shape := [2; 1];
     gdof := fun e i => e + i;
     phi := fun e q i c => (Z.of_nat (1 + e + 2 * q + 3 * i) - 2 * Z.of_nat c)%Z;
     dxw := fun e q => (Z.of_nat (1 + q + e))%Z |}.
Example C06_instance_projection :
  let x := [2; -1; 3]%Z in
  snd (gen_projection Zops 3 exB x) = matvec Zops (fst (gen_projection Zops 3 exB x)) x /\
  snd (gen_projection Zops 3 exB x) <> [0; 0; 0]%Z.
Proof. vm_compute. split; [reflexivity | discriminate]. Qed.
Print Assumptions C06_instance_projection.
