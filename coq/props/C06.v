(* C06 — Galerkin exactness end to end (patch test and projection identity).   PARTIAL (see below).
   Only statements; proofs in Proofs.C06_GalerkinProofs (on top of Proofs.C05_CondenseProofs), tie in Dyn.C06Tie.
   Proved, for EVERY ring, every basis tables (any mesh, any numbering, any quadrature, curved or not; basis functions are
   FAMILIES of components: scalar, vector-valued and composite elements — inner = sum over all components),
   every coefficient vector: the algebraic compositions
     - load(interp x) = M x   over the same basis and quadrature (no exactness of quadrature needed);
     - on a cell subset / facet set with I = dofs of the integrated cells: x_I solves M_II z = f_I, hence (M_II nonsingular)
       project returns x on I and 0 elsewhere;
     - patch test: if x* satisfies the free rows and carries the prescribed values, the solve of condense(A, b, x, D=D) is x*.
   NOT proved (named in the evidence): that the nodal interpolant of a polynomial solution satisfies the free rows
   (Green's identity + exact quadrature + polynomial completeness of the element), and SciPy's spsolve.
   Full statement kept for the record:
     forall mesh with affine cells, element of degree k, polynomial u of degree <= k solving the model problem,
       Dirichlet/Neumann split along facet sets:  the solve of condense(A, b, x=u_h, D=dofs) = u_h  (u_h the interpolant). *)
From Coq Require Import String.
From Coq Require Import QArith.
Close Scope Q_scope.
From Coq Require Import List ZArith Bool Arith Ring.
Import ListNotations.
Require Import Base.C05_Np Model.C05_BC Model.C06_Galerkin Proofs.C05_CondenseProofs Proofs.C06_GalerkinProofs
               Base.C09_Poly Base.C09_PolyQ Model.C08_Rules Model.C02_PolyInt Proofs.C06_CompleteProofs Proofs.C02_PolyIntProofs Proofs.C06_GreenProofs Proofs.C06_LinearProofs Proofs.C06_AffineProofs Proofs.C06_PatchProofs
               Gen.C06Gen Gen.C06Complete Gen.C06Green Gen.C06Ibp Dyn.C06Tie.

Definition is_ring {R} (o : ring_ops R) := ring_theory (r0 o) (r1 o) (radd o) (rmul o) (rsub o) (ropp o) (@eq R).

(* the pair (M, f) that Basis._projection assembles for interp = interpolate(x) satisfies f = M x *)
Theorem C06_projection_identity :
  forall (R : Type) (o : ring_ops R), is_ring o ->
  forall (N : nat) (B : fe R) (x : list R),
    snd (gen_projection o N B x) = matvec o (fst (gen_projection o N B x)) x.
Proof.
  intros R o Rth N B x.
  exact (projection_identity_list o Rth (gen_mass_kernel o) (gen_load_kernel o)
           (gen_mass_kernel_is_dot o Rth) (gen_load_kernel_is_dot o Rth) N B x).
Qed.
Print Assumptions C06_projection_identity.

(* subdomain / boundary part: I = get_dofs(elements / facets) contains every dof of the integrated cells; the system
   project() hands to the solver, condense(M, f, I=I), is solved by x restricted to I *)
Theorem C06_projection_on_subset :
  forall (R : Type) (o : ring_ops R), is_ring o ->
  forall (N : nat) (B : fe R) (x : list R) (I D : list nat),
    split_ok N I D -> (forall e i, e < nel B -> i < nloc B -> In (gdof B e i) I) ->
    exists AII bI x0,
      gen_project_system o (fst (gen_projection o N B x)) (snd (gen_projection o N B x)) I = Some (AII, Some bI, x0, I) /\
      x0 = repeat (r0 o) N /\ matvec o AII (vsel o x I) = bI.
Proof.
  intros R o Rth N B x I D HS Hloc.
  destruct (project_system_solved o Rth (gen_mass_kernel o) (gen_load_kernel o)
              (gen_mass_kernel_is_dot o Rth) (gen_load_kernel_is_dot o Rth) N B x I D HS Hloc) as (E1 & E2).
  eexists _, _, _. split; [exact E1|]. split; [reflexivity | exact E2].
Qed.
Print Assumptions C06_projection_on_subset.

(* ... hence, M_II nonsingular (injective), the projection returns the function on I and zero elsewhere *)
Theorem C06_project_returns_function :
  forall (R : Type) (o : ring_ops R), is_ring o ->
  forall (N : nat) (B : fe R) (x z : list R) (I D : list nat),
    split_ok N I D -> (forall e i, e < nel B -> i < nloc B -> In (gdof B e i) I) ->
    injective_on o (length I) (condense_A (fst (gen_projection o N B x)) I) ->
    length z = length I ->
    matvec o (condense_A (fst (gen_projection o N B x)) I) z
      = condense_b o (fst (gen_projection o N B x)) (snd (gen_projection o N B x)) (repeat (r0 o) N) I D ->
    forall c, c < N -> vnth o (expand (repeat (r0 o) N) I z) c = if memb c I then vnth o x c else r0 o.
Proof.
  intros R o Rth N B x z I D.
  exact (project_returns_function o Rth (gen_mass_kernel o) (gen_load_kernel o)
           (gen_mass_kernel_is_dot o Rth) (gen_load_kernel_is_dot o Rth) N B x z I D).
Qed.
Print Assumptions C06_project_returns_function.

(* Of the three ingredients the patch test needs beyond this algebra,
     - polynomial completeness of the element is now PROVED (C06_elements_polynomially_complete, and for nodal elements
       C06_nodal_interpolant_reproduces: the interpolant of a polynomial of the element's degree IS that polynomial);
     - exactness of the quadrature rules on the reference cell is C08 / C02 (C02_assembled_reference_mass_close and the
       C08 rule theorems);
   what REMAINS unproved is Green's identity (that the exact polynomial solution satisfies the weak form cell by cell,
   with the natural boundary terms) and its assembly over the mesh (affine change of variables per cell, cancellation of
   the interior facet terms), plus SciPy's spsolve.  Hence the suffix _partial. *)
(* patch test, algebraic part: any sparse system, any split; x carries the prescribed values of x*, x* satisfies the
   free rows, A_II nonsingular: the condensed solve, expanded, is x* *)
Theorem C06_patch_test_algebra_partial :
  forall (R : Type) (o : ring_ops R), is_ring o ->
  forall n (A : list (list (nat * R))) (b x xstar z : list R) (I D : list nat),
    length x = n -> length xstar = n -> rows_in_range n A -> split_ok n I D ->
    (forall d, In d D -> vnth o x d = vnth o xstar d) ->
    (forall i, In i I -> vnth o (matvec o A xstar) i = vnth o b i) ->
    injective_on o (length I) (condense_A A I) ->
    length z = length I -> matvec o (condense_A A I) z = condense_b o A b x I D ->
    forall c, c < n -> vnth o (expand x I z) c = vnth o xstar c.
Proof. exact (@patch_test_algebra). Qed.
Print Assumptions C06_patch_test_algebra_partial.

(* ---- polynomial completeness of the element spaces.  The exact basis polynomials are regenerated from the source on every
   run (symbolic execution of lbasis); for each class the certificate is checked by polynomial identity.  Classes and
   degrees k (total degree; for the tensor-product Lagrange elements also per-direction degree): *)
Theorem C06_elements_polynomially_complete :
  map (fun e => (ce_name e, ce_deg e)) gen_complete_total =
    [("ElementLineP1", 1); ("ElementLineP2", 2); ("ElementTriP1", 1); ("ElementTriP2", 2); ("ElementTriP3", 3); ("ElementTriP4", 4);
     ("ElementTetP1", 1); ("ElementTetP2", 2); ("ElementQuad1", 1); ("ElementQuad2", 2); ("ElementHex1", 1); ("ElementHex2", 2);
     ("ElementLineMini", 1); ("ElementTriP1B", 1); ("ElementTriP2B", 2); ("ElementTetMini", 1); ("ElementTetCCR", 2);
     ("ElementQuadS2", 2); ("ElementHexS2", 2); ("ElementWedge1", 1)]%string /\
  map (fun e => (ce_name e, ce_deg e)) gen_complete_box =
    [("ElementQuad1", 1); ("ElementQuad2", 2); ("ElementHex1", 1); ("ElementHex2", 2)]%string /\
  (* every monomial of total degree <= k is a rational combination of the basis polynomials, at every point *)
  (forall e, In e gen_complete_total -> forall m, length m = ce_dim e -> msum m <= ce_deg e -> in_span (ce_basis e) (pmono m)) /\
  (* tensor-product elements: every monomial with each exponent <= k *)
  (forall e, In e gen_complete_box -> forall m, length m = ce_dim e -> Forall (fun a => a <= ce_deg e) m -> in_span (ce_basis e) (pmono m)).
Proof.
  split; [vm_compute; reflexivity|]. split; [vm_compute; reflexivity|]. split.
  - exact (complete_total_degree gen_complete_total gen_complete_total_complete gen_complete_total_flags).
  - exact (complete_per_direction gen_complete_box gen_complete_box_complete gen_complete_box_flags).
Qed.
Print Assumptions C06_elements_polynomially_complete.

(* nodal elements: the nodal interpolant  sum_i p(x_i) phi_i  of EVERY polynomial p of the element's degree is p itself
   (x_i = the class's doflocs), at every rational point *)
Theorem C06_nodal_interpolant_reproduces :
  map (fun e => (ne_name e, ne_deg e, ne_box e)) gen_nodal =
    [("ElementLineP1", 1, false); ("ElementLineP2", 2, false); ("ElementTriP1", 1, false); ("ElementTriP2", 2, false);
     ("ElementTriP3", 3, false); ("ElementTriP4", 4, false); ("ElementTetP1", 1, false); ("ElementTetP2", 2, false);
     ("ElementQuad1", 1, false); ("ElementQuad1", 1, true); ("ElementQuad2", 2, false); ("ElementQuad2", 2, true);
     ("ElementHex1", 1, false); ("ElementHex1", 1, true); ("ElementHex2", 2, false); ("ElementHex2", 2, true);
     ("ElementTetCCR", 2, false); ("ElementQuadS2", 2, false); ("ElementHexS2", 2, false); ("ElementWedge1", 1, false)]%string /\
  forall e, In e gen_nodal -> forall p, poly_within e p ->
  forall pt, QArith_base.Qeq (qeval (lincomb (nodal_values p (ne_locs e)) (ne_basis e)) pt) (qeval p pt).
Proof. split; [vm_compute; reflexivity | exact (nodal_interpolant_is_identity gen_nodal gen_nodal_ok)]. Qed.
Print Assumptions C06_nodal_interpolant_reproduces.

(* non-vacuity: x^2 y on the cubic triangle is reproduced by its nodal values *)
Example C06_instance_nodal :
  exists e, In e gen_nodal /\ ne_name e = "ElementTriP3"%string /\ poly_within e [(QArith_base.Qmake 1 1, [2; 1])].
Proof.
  eexists. split; [do 4 right; left; reflexivity|]. split; [reflexivity|].
  intros t [<-|[]]. split; [reflexivity | vm_compute; repeat constructor].
Qed.
Print Assumptions C06_instance_nodal.

(* ---- Green's identity on the REFERENCE cell, exact polynomial arithmetic (finite, certificate closed by vm_compute):
   for each class, every basis polynomial phi and every monomial p of total degree <= k (k = the class's degree)
       pint K (grad p . grad phi) = - pint K (laplace p * phi) + sum_s pint (param domain of facet s) ((grad p . nu_s) phi) o F_s
   with group A's exact integral pint (C02), the formal derivative pderiv, the facet parametrisations F_s and scaled outward
   normals nu_s (n dS = nu dt) regenerated from skfem.refdom and checked: affine, nu orthogonal to the facet, of Gram length,
   pointing away from the centroid. *)
Theorem C06_green_reference_cells :
  map (fun e => (ge_name e, ge_deg e, ge_box e)) gen_green =
    [("ElementLineP1", 1, false); ("ElementLineP2", 2, false); ("ElementTriP1", 1, false); ("ElementTriP2", 2, false);
     ("ElementTriP3", 3, false); ("ElementTriP4", 4, false); ("ElementTetP1", 1, false); ("ElementTetP2", 2, false);
     ("ElementQuad1", 1, false); ("ElementQuad2", 2, false); ("ElementHex1", 1, false); ("ElementHex2", 2, false)]%string /\
  forall e, In e gen_green ->
    rcell_ok (ge_cell e) = true /\
    forall phi, In phi (ge_basis e) -> forall m, length m = dim (rc_shape (ge_cell e)) ->
      (if ge_box e then Forall (fun a => a <= ge_deg e) m else msum m <= ge_deg e) ->
      QArith_base.Qeq (green_lhs (rc_shape (ge_cell e)) (pmono m) phi)
                      (green_rhs (rc_shape (ge_cell e)) (rc_facets (ge_cell e)) (pmono m) phi).
Proof. split; [vm_compute; reflexivity | exact (green_reference_cells gen_green gen_green_ok)]. Qed.
Print Assumptions C06_green_reference_cells.

(* ... and, pint / pderiv / the facet pull-back being linear, for EVERY polynomial p of the class's degree (not only monomials) *)
Theorem C06_green_reference_cells_all_polynomials :
  forall e, In e gen_green -> forall phi, In phi (ge_basis e) -> forall p, gpoly_within e p ->
    QArith_base.Qeq (green_lhs (rc_shape (ge_cell e)) p phi) (green_rhs (rc_shape (ge_cell e)) (rc_facets (ge_cell e)) p phi).
Proof. exact (green_reference_cells_all_polynomials gen_green gen_green_ok). Qed.
Print Assumptions C06_green_reference_cells_all_polynomials.

(* ---- Green's identity on a PHYSICAL AFFINE CELL  x = A X + b.  Everything is written pulled back to reference coordinates:
     Ainv a j = (A^{-1})_{a j}, adet = |det A|;  (d/dx_j u) o F = sum_a Ainv a j d_a (u o F)   [pointwise chain rule: C09_ChainProofs];
     n_j dS = adet * (sum_c Ainv c j nu_c) dt on a facet   [Nanson: C10_normals, C10_detB_gram, C10_facet_map_on_face].
   The physical integrals Icell (over the cell) and Ifacet f j (over facet f, of g n_j dS) are ABSTRACT; the ONLY facts assumed
   about them are the two change-of-variables rules cv_cell / cv_facet.  From the reference-cell certificates (integration by
   parts per pair of directions, checked for every class, basis polynomial and monomial, lifted to every polynomial by linearity):
       int_cell grad_x p . grad_x phi  =  - int_cell (laplace_x p) phi  +  sum_facets int_facet (grad_x p . n) phi
   for EVERY invertible A (any Ainv, adet), every basis function and every polynomial p of the class's degree. *)
Theorem C06_green_affine_cell :
  forall e, In e gen_green ->
  forall (Ainv : nat -> nat -> QArith_base.Q) (adet : QArith_base.Q) (Icell : poly -> QArith_base.Q)
         (Ifacet : rfacet -> nat -> poly -> QArith_base.Q),
    (forall g, QArith_base.Qeq (Icell g) (adet * pint (rc_shape (ge_cell e)) g)%Q) ->
    (forall f j g, In f (rc_facets (ge_cell e)) ->
       QArith_base.Qeq (Ifacet f j g)
         (adet * S (dim (rc_shape (ge_cell e))) (fun c => Ainv c j * nth c (rf_nu f) 0)%Q * facet_pull f g)%Q) ->
    forall p phi, In phi (ge_basis e) -> gpoly_within e p ->
      QArith_base.Qeq (Icell (grad_dot_phys e Ainv p phi))
        (- Icell (pmul (lap_phys e Ainv p) phi)
         + qsum (map (fun f => S (dim (rc_shape (ge_cell e))) (fun j => Ifacet f j (pmul (Dphys e Ainv j p) phi))) (rc_facets (ge_cell e))))%Q.
Proof.
  intros e He Ainv adet Icell Ifacet H1 H2 p phi Hphi Hp.
  assert (cert : ge_ibp_ok e = true) by (pose proof gen_green_ibp_ok as H; rewrite forallb_forall in H; exact (H e He)).
  exact (green_affine_cell e cert Ainv adet Icell Ifacet H1 H2 p phi Hphi Hp).
Qed.
Print Assumptions C06_green_affine_cell.

(* ---- the patch test from Green's identity, hypotheses explicit (any ring, any mesh connectivity g, any local matrices K_e and
   loads L_e assembled in the library's COO order).  x* = coefficients of the discrete function u_h.
     green_cell : K_e x*|_e (i) = vol e i + sum_s flux e s i           Green on cell e for u_h against phi_{e,i}
     load       : L_e (i) = vol e i + sum_{s on the Neumann boundary} flux e s i
     cancel     : for a free dof I the remaining facet terms (interior facets: single-valued phi_I [C03_trace_lemma] with opposite
                  normals and no jump of grad u_h . n for a global polynomial; Dirichlet facets: phi_I vanishes) sum to zero
   Conclusion: whatever solves the condensed system (A_II injective), expanded, is x*.
   green_cell on a physical affine cell is C06_green_affine_cell; what is STILL ASSUMED there and here are exactly: the two
   change-of-variables rules for integrals (cv_cell: int_{F(K)} g = |det A| int_K g o F;  cv_facet: int_{F(s)} g n_j dS =
   |det A| (A^{-T} nu_s)_j int_s g o F), as hypotheses of that theorem, and additivity of the integral over the cells;
   u_h = p uses C06_nodal_interpolant_reproduces (x* = nodal values) and exact quadrature C08/C02.  Hence still _partial. *)
Theorem C06_patch_test_from_green_partial :
  forall (R : Type) (o : ring_ops R), is_ring o ->
  forall (N ne nl nfac : nat) (g : nat -> nat -> nat) (K : nat -> nat -> nat -> R) (L : nat -> nat -> R) (xstar : list R)
         (vol : nat -> nat -> R) (flux : nat -> nat -> nat -> R) (neumann : nat -> nat -> bool) (free : nat -> Prop),
    (forall e i, e < ne -> i < nl ->
       lsum o (fun j => rmul o (K e i j) (vnth o xstar (g e j))) (seq 0 nl) = radd o (vol e i) (facets_sum o nfac flux e i (fun _ => true))) ->
    (forall e i, e < ne -> i < nl -> L e i = radd o (vol e i) (facets_sum o nfac flux e i (neumann e))) ->
    (forall I, free I ->
       lsum o (fun i => lsum o (fun e => if Nat.eqb (g e i) I then facets_sum o nfac flux e i (fun s => negb (neumann e s)) else r0 o)
                              (seq 0 ne)) (seq 0 nl) = r0 o) ->
    forall (x z : list R) (I D : list nat),
      length x = N -> length xstar = N -> split_ok N I D ->
      rows_in_range N (assembled_matrix N ne nl g K) ->
      (forall i, In i I -> free i) ->
      (forall d, In d D -> vnth o x d = vnth o xstar d) ->
      injective_on o (length I) (condense_A (assembled_matrix N ne nl g K) I) ->
      length z = length I ->
      matvec o (condense_A (assembled_matrix N ne nl g K) I) z
        = condense_b o (assembled_matrix N ne nl g K) (assembled_vector o N ne nl g L) x I D ->
      forall c, c < N -> vnth o (expand x I z) c = vnth o xstar c.
Proof.
  intros R o Rth N ne nl nfac g K L xstar vol flux neumann free H1 H2 H3.
  exact (patch_test_from_green o Rth N ne nl nfac g K L xstar vol flux neumann H1 H2 free H3).
Qed.
Print Assumptions C06_patch_test_from_green_partial.

(* ---- non-vacuity: two "cells" sharing dof 1, two quadrature points, a composite (vector x scalar) element: shape [2; 1] *)
Definition exB : fe Z :=
  {| nel := 2; nloc := 2; nq := 2; C06_Galerkin.shape := [2; 1];
     gdof := fun e i => e + i;
     phi := fun e q i c => (Z.of_nat (1 + e + 2 * q + 3 * i) - 2 * Z.of_nat c)%Z;
     dxw := fun e q => (Z.of_nat (1 + q + e))%Z |}.
Example C06_instance_projection :
  let x := [2; -1; 3]%Z in
  snd (gen_projection Zops 3 exB x) = matvec Zops (fst (gen_projection Zops 3 exB x)) x /\
  snd (gen_projection Zops 3 exB x) <> [0; 0; 0]%Z.
Proof. vm_compute. split; [reflexivity | discriminate]. Qed.
Print Assumptions C06_instance_projection.
