(* C02 — Integration is exact for polynomial data on cells and facets  (PARTIAL, see below).
   Only statements.  Gen.C02Gen is regenerated on every run from mapping_affine.py, mapping_isoparametric.py, cell_basis.py,
   facet_basis.py, abstract_basis.py; the facts about it are proved in Dyn.C02Tie for EVERY commutative
   ring / field (given by its ring_theory / field_theory), the summation theorems in
   Proofs.C02_IntegrationProofs.

   What the full property needs and is NOT proved here (named in the evidence):
     - change of variables  int_{F(K^)} p = |det A| int_{K^} p o F  and additivity of the integral over the
       cells of a mesh are taken as the definition of the exact integral over a physical cell;
     - exactness of the reference rules is C08's theorem (2^-45); deg (p o F) <= deg p for affine F;
     - isoparametric (non-affine) cells: oracle only.
   (* full statement, not proved:  forall mesh with rational vertices, forall polynomial p of degree <= intorder,
        Functional(p).assemble(basis) = exact integral of p over the meshed domain / subdomain / facet set *) *)
From Coq Require Import Arith List ZArith Ring Field.
Require Import Base.C02_Ops Model.C02_Integration Proofs.C02_IntegrationProofs Gen.C02Gen Dyn.C02Tie.
Require Model.C08_Rules Proofs.C08_TensorProofs.
Require Import Base.Corr Base.C09_Poly Base.C09_PolyQ Model.C02_PolyInt Proofs.C02_PolyIntProofs Gen.C02Elems Dyn.C02TieElems.
Import ListNotations.

Section AnyRing.
  Variable R : Type.
  Variable O : ops R.
  Hypothesis Rth : ring_theory (o0 O) (o1 O) (oadd O) (omul O) (osub O) (oopp O) (@eq R).

  (* the Jacobian determinants written in mapping_affine.py are the Leibniz determinants *)
  Theorem C02_detA_is_leibniz_partial : forall a : nat -> nat -> R,
    detA1 O (a 0 0) = leibniz R O 1 a /\
    detA2 O (a 0 0) (a 0 1) (a 1 0) (a 1 1) = leibniz R O 2 a /\
    detA3 O (a 0 0) (a 0 1) (a 0 2) (a 1 0) (a 1 1) (a 1 2) (a 2 0) (a 2 1) (a 2 2) = leibniz R O 3 a.
  Proof. intros a. split; [exact (detA1_leibniz R O Rth a)|split; [exact (detA2_leibniz R O Rth a)|exact (detA3_leibniz R O Rth a)]]. Qed.

  (* every renumbering s of the d+1 vertices of a simplex (2, 6, 24 cases, each for ALL coordinates)
     changes det A by the sign of s only; translations do not change it; a linear map Q multiplies it by det Q *)
  Theorem C02_det_vertex_order_partial : forall v : nat -> nat -> R,
    Forall (fun s => simplex_det1 R O (vperm R s v) = signed R O s (simplex_det1 R O v)) (perms (seq 0 2)) /\
    Forall (fun s => simplex_det2 R O (vperm R s v) = signed R O s (simplex_det2 R O v)) (perms (seq 0 3)) /\
    Forall (fun s => simplex_det3 R O (vperm R s v) = signed R O s (simplex_det3 R O v)) (perms (seq 0 4)).
  Proof. intros v. split; [exact (simplex_det1_perm R O Rth v)|split; [exact (simplex_det2_perm R O Rth v)|exact (simplex_det3_perm R O Rth v)]]. Qed.

  Theorem C02_det_translation_partial : forall (v : nat -> nat -> R) (c : nat -> R),
    simplex_det1 R O (fun i k => oadd O (v i k) (c i)) = simplex_det1 R O v /\
    simplex_det2 R O (fun i k => oadd O (v i k) (c i)) = simplex_det2 R O v /\
    simplex_det3 R O (fun i k => oadd O (v i k) (c i)) = simplex_det3 R O v.
  Proof. exact (simplex_det_translation R O Rth). Qed.

  Theorem C02_det_linear_map_partial : forall (v q : nat -> nat -> R),
    simplex_det2 R O (fun i k => oadd O (omul O (q i 0) (v 0 k)) (omul O (q i 1) (v 1 k)))
      = omul O (detA2 O (q 0 0) (q 0 1) (q 1 0) (q 1 1)) (simplex_det2 R O v) /\
    simplex_det3 R O (fun i k => oadd O (oadd O (omul O (q i 0) (v 0 k)) (omul O (q i 1) (v 1 k))) (omul O (q i 2) (v 2 k)))
      = omul O (detA3 O (q 0 0) (q 0 1) (q 0 2) (q 1 0) (q 1 1) (q 1 2) (q 2 0) (q 2 1) (q 2 2)) (simplex_det3 R O v).
  Proof. intros v q. split; [exact (simplex_det2_linear R O Rth v q)|exact (simplex_det3_linear R O Rth v q)]. Qed.

  (* facets: detB^2 is the Gram determinant of the facet's edge vectors (Lagrange identity), independent of
     the numbering of the facet's vertices and of translations *)
  Theorem C02_detB_is_gram_partial : forall b00 b01 b10 b11 b20 b21 : R,
    detB2_sq O b00 b10 = oadd O (omul O b00 b00) (omul O b10 b10) /\
    detB3_sq O b00 b01 b10 b11 b20 b21
    = osub O (omul O (dot3 R O b00 b10 b20 b00 b10 b20) (dot3 R O b01 b11 b21 b01 b11 b21))
             (omul O (dot3 R O b00 b10 b20 b01 b11 b21) (dot3 R O b00 b10 b20 b01 b11 b21)).
  Proof. intros. split; [exact (detB2_gram R O Rth b00 b10)|exact (detB3_gram R O Rth b00 b01 b10 b11 b20 b21)]. Qed.

  (* the point-wise Jacobian factors of the isoparametric mapping are the same determinants *)
  Theorem C02_isoparametric_dets_partial : forall (a : nat -> nat -> R) (b00 b01 b10 b11 b20 b21 : R),
    (iso_detDF1 O (a 0 0) = leibniz R O 1 a /\
     iso_detDF2 O (a 0 0) (a 0 1) (a 1 0) (a 1 1) = leibniz R O 2 a /\
     iso_detDF3 O (a 0 0) (a 0 1) (a 0 2) (a 1 0) (a 1 1) (a 1 2) (a 2 0) (a 2 1) (a 2 2) = leibniz R O 3 a) /\
    (iso_detDG2_sq O b00 b10 = oadd O (omul O b00 b00) (omul O b10 b10) /\
     iso_detDG3_sq O b00 b01 b10 b11 b20 b21
     = osub O (omul O (dot3 R O b00 b10 b20 b00 b10 b20) (dot3 R O b01 b11 b21 b01 b11 b21))
              (omul O (dot3 R O b00 b10 b20 b01 b11 b21) (dot3 R O b00 b10 b20 b01 b11 b21))).
  Proof. intros. split; [exact (iso_detDF_leibniz R O Rth a)|exact (iso_detDG_gram R O Rth b00 b01 b10 b11 b20 b21)]. Qed.

  Theorem C02_facet_vertex_order_partial : forall v : nat -> nat -> R,
    Forall (fun s => facet_sq2 R O (vperm R s v) = facet_sq2 R O v) (perms (seq 0 2)) /\
    Forall (fun s => facet_sq3 R O (vperm R s v) = facet_sq3 R O v) (perms (seq 0 3)).
  Proof. intros v. split; [exact (facet_sq2_perm R O Rth v)|exact (facet_sq3_perm R O Rth v)]. Qed.

  (* dx = |det| * W as written in CellBasis / FacetBasis: the cells contribute sum_e |detA_e| * sum_q W_q,
     for every orientation (absf is applied to the determinant), and with a partition of unity the entries
     of the mass matrix add up to exactly that — the measure of the integration domain when sum_q W_q is
     the measure of the reference cell (C08) *)
  Theorem C02_dx_total_partial : forall (absf : R -> R) (detA : nat -> R) (W : nat -> R) (ne nq : nat),
    measure O ne nq (gen_cell_dx O absf (gen_detDF detA) W)
    = rsum O (seq 0 ne) (fun e => omul O (absf (detA e)) (rsum O (seq 0 nq) W)).
  Proof. exact (cell_measure R O Rth). Qed.

  Theorem C02_mass_sum_is_measure_partial :
    forall (nb ne nq : nat) (phi : nat -> nat -> nat -> R) (absf : R -> R) (detA : nat -> R) (W : nat -> R),
    (forall e q, e < ne -> q < nq -> rsum O (seq 0 nb) (fun i => phi i e q) = o1 O) ->
    mass_total O nb ne nq phi (gen_cell_dx O absf (gen_detDF detA) W)
    = rsum O (seq 0 ne) (fun e => omul O (absf (detA e)) (rsum O (seq 0 nq) W)).
  Proof. exact (mass_sum_partition_of_unity R O Rth). Qed.
End AnyRing.
Print Assumptions C02_detA_is_leibniz_partial.
Print Assumptions C02_det_vertex_order_partial.
Print Assumptions C02_det_translation_partial.
Print Assumptions C02_det_linear_map_partial.
Print Assumptions C02_detB_is_gram_partial.
Print Assumptions C02_facet_vertex_order_partial.
Print Assumptions C02_isoparametric_dets_partial.
Print Assumptions C02_dx_total_partial.
Print Assumptions C02_mass_sum_is_measure_partial.

(* the inverse written in mapping_affine.py is the inverse (both sides) whenever det A <> 0, in every field *)
Theorem C02_invA_is_inverse_partial :
  forall (R : Type) (O : ops R),
  field_theory (o0 O) (o1 O) (oadd O) (omul O) (osub O) (oopp O) (odiv O) (oinv O) (@eq R) ->
  (forall a00, detA1 O a00 <> o0 O -> omul O (invA1_00 O a00 (detA1 O a00)) a00 = o1 O) /\
  (forall a : nat -> nat -> R, det3 R O a <> o0 O -> forall i k, i < 3 -> k < 3 ->
     oadd O (oadd O (omul O (inv3 R O a (det3 R O a) i 0) (a 0 k)) (omul O (inv3 R O a (det3 R O a) i 1) (a 1 k)))
            (omul O (inv3 R O a (det3 R O a) i 2) (a 2 k)) = delta R O i k /\
     oadd O (oadd O (omul O (a i 0) (inv3 R O a (det3 R O a) 0 k)) (omul O (a i 1) (inv3 R O a (det3 R O a) 1 k)))
            (omul O (a i 2) (inv3 R O a (det3 R O a) 2 k)) = delta R O i k).
Proof. intros R O Fth. split; [exact (invA1_inverse R O Fth)|exact (invA3_inverse R O Fth)]. Qed.
Print Assumptions C02_invA_is_inverse_partial.

Theorem C02_invA2_is_inverse_partial :
  forall (R : Type) (O : ops R),
  field_theory (o0 O) (o1 O) (oadd O) (omul O) (osub O) (oopp O) (odiv O) (oinv O) (@eq R) ->
  forall a00 a01 a10 a11 : R, let d := detA2 O a00 a01 a10 a11 in d <> o0 O ->
    let i00 := invA2_00 O a00 a01 a10 a11 d in let i01 := invA2_01 O a00 a01 a10 a11 d in
    let i10 := invA2_10 O a00 a01 a10 a11 d in let i11 := invA2_11 O a00 a01 a10 a11 d in
    (oadd O (omul O i00 a00) (omul O i01 a10) = o1 O /\ oadd O (omul O i00 a01) (omul O i01 a11) = o0 O /\
     oadd O (omul O i10 a00) (omul O i11 a10) = o0 O /\ oadd O (omul O i10 a01) (omul O i11 a11) = o1 O) /\
    (oadd O (omul O a00 i00) (omul O a01 i10) = o1 O /\ oadd O (omul O a00 i01) (omul O a01 i11) = o0 O /\
     oadd O (omul O a10 i00) (omul O a11 i10) = o0 O /\ oadd O (omul O a10 i01) (omul O a11 i11) = o1 O).
Proof. intros R O Fth. exact (invA2_inverse R O Fth). Qed.
Print Assumptions C02_invA2_is_inverse_partial.

(* over the integers: |det A| itself does not depend on the numbering / orientation of the cell *)
Theorem C02_absdet_vertex_order_partial : forall v : nat -> nat -> Z,
  Forall (fun s => Z.abs (simplex_det1 Z Zops (vperm Z s v)) = Z.abs (simplex_det1 Z Zops v)) (perms (seq 0 2)) /\
  Forall (fun s => Z.abs (simplex_det2 Z Zops (vperm Z s v)) = Z.abs (simplex_det2 Z Zops v)) (perms (seq 0 3)) /\
  Forall (fun s => Z.abs (simplex_det3 Z Zops (vperm Z s v)) = Z.abs (simplex_det3 Z Zops v)) (perms (seq 0 4)).
Proof. exact absdet_vertex_order_Z. Qed.
Print Assumptions C02_absdet_vertex_order_partial.

(* default integration order 2*maxdeg covers the product of two monomials of degree <= maxdeg; an explicit
   order is used as given *)
Theorem C02_default_order : forall (maxdeg k : nat) (a b : list nat),
  gen_intorder (Some k) maxdeg = k /\
  (length a = length b -> list_sum a <= maxdeg -> list_sum b <= maxdeg ->
   list_sum (exp_add a b) <= gen_intorder None maxdeg).
Proof. intros. split; [apply explicit_order_respected|apply default_order_covers_mass]. Qed.
Print Assumptions C02_default_order.

(* the tensor-product construction of the quadrilateral / hexahedron / prism rules (proved with C08, unbounded:
   ANY two rules, ANY degree): exact factors give an exact product rule *)
Theorem C02_tensor_rule_exact :
  forall (R1 R2 : C08_Rules.qrule) (s1 s2 : C08_Rules.shape) (n : nat),
  (forall nd, In nd R1 -> length (fst nd) = C08_Rules.dim s1) ->
  (forall es, length es = C08_Rules.dim s1 -> C08_Rules.deg_ok s1 n es ->
     QArith_base.Qeq (C08_Rules.qrule_sum R1 es) (C08_Rules.exactQ s1 es)) ->
  (forall es, length es = C08_Rules.dim s2 -> C08_Rules.deg_ok s2 n es ->
     QArith_base.Qeq (C08_Rules.qrule_sum R2 es) (C08_Rules.exactQ s2 es)) ->
  forall es, length es = C08_Rules.dim (s1 ++ s2) -> C08_Rules.deg_ok (s1 ++ s2) n es ->
    QArith_base.Qeq (C08_Rules.qrule_sum (C08_Rules.tensorQ R1 R2) es) (C08_Rules.exactQ (s1 ++ s2) es).
Proof. exact C08_TensorProofs.tensor_rule_exact. Qed.
Print Assumptions C02_tensor_rule_exact.

(* ================================================================== exact reference matrices (deepening round)
   The polynomials vals of every listed element are those of its REAL lbasis (symbolic execution, regenerated on
   every run).  [pint s p] integrates a normal-form polynomial over the reference cell s with the closed form of
   C08 (Dirichlet formula a!b!c!/(a+b+c+d)! on every simplex factor, Fubini across factors). *)
From Coq Require Import QArith Qabs.
Local Open Scope Q_scope.

(* exact integration is linear and is the closed form on monomials *)
Theorem C02_pint_linear_and_monomials : forall (s : C08_Rules.shape) (p q : poly) (c : Q) (m : mono),
  pint s (padd p q) == pint s p + pint s q /\ pint s (pscale c p) == c * pint s p /\
  pint s (psub p q) == pint s p - pint s q /\
  pint s [(c, m)] == c * C08_Rules.exactQ s (pad (C08_Rules.dim s) m) /\
  pint s (pconst c) == c * C08_Rules.measureQ s.
Proof.
  intros. split; [apply pint_padd|]. split; [apply pint_pscale|]. split; [apply pint_psub|].
  split; [apply pint_monomial|apply pint_const].
Qed.
Print Assumptions C02_pint_linear_and_monomials.

(* for every generated element (P0-P4 on segment / triangle / tetrahedron as available, Q0-Q2, Hex0-1, Wedge1; list
   in the evidence) the rational literal re_mass IS the matrix of the exact integrals int phi_i phi_j over the
   reference cell (one lemma mass_ref_<elem>_exact per element, closed by vm_compute), and for the P1/P2/Q1/Q2 elements
   the stiffness literal is the matrix of int grad phi_i . grad phi_j *)
Theorem C02_reference_mass_exact :
  Forall (fun e => qmat_eqb (mass_ref (re_shape e) (re_vals e)) (re_mass e) = true) ref_elements.
Proof. exact ref_mass_exact. Qed.
Print Assumptions C02_reference_mass_exact.
Theorem C02_reference_stiffness_exact :
  Forall (fun e => qmat_eqb (stiff_ref (fst (fst e)) (snd (fst e))) (snd e) = true) stiff_elements.
Proof. exact stiff_elements_ok. Qed.
Print Assumptions C02_reference_stiffness_exact.

(* quadrature error of a polynomial: a rule that integrates the monomials of its advertised degree to within tol
   (C08: tol = 2^-45) integrates every polynomial whose terms have that degree to within (sum |coeff|) * tol *)
Theorem C02_quadrature_error_of_polynomial :
  forall (s : C08_Rules.shape) (R : C08_Rules.qrule) (n : nat) (tol : Q) (p : poly),
  C08_Rules.rule_okQ s R n tol -> poly_ok s n p = true ->
  Qabs (qrule_int R (C08_Rules.dim s) p - pint s p) <= l1 p * tol.
Proof. exact quad_error. Qed.
Print Assumptions C02_quadrature_error_of_polynomial.

(* the discrete integral is the point-by-point sum  sum_q w_q p(x_q)  (qeval = evaluation of Base.C09_PolyQ) *)
Theorem C02_discrete_integral_pointwise :
  forall (R : C08_Rules.qrule) (d : nat) (p : poly),
  (forall nd, In nd R -> length (fst nd) = d) -> (forall t, In t p -> (length (snd t) <= d)%nat) ->
  qrule_int R d p == qrule_apply R (fun pt => qeval p (lpt pt)).
Proof. exact qrule_int_pointwise. Qed.
Print Assumptions C02_discrete_integral_pointwise.

(* THE ASSEMBLED REFERENCE MASS MATRIX IS CLOSE TO THE EXACT ONE: for every generated element, with the default
   integration order 2*maxdeg read from abstract_basis.py, every rule R that delivers that order to within tol
   (C08 proves it for every rule get_quadrature returns, tol = 2^-45) gives
       | sum_q w_q phi_i(x_q) phi_j(x_q)  -  int phi_i phi_j |  <=  l1(phi_i phi_j) * tol
   for all shape functions phi_i, phi_j of the element, and int phi_i phi_j is the rational literal above. *)
Theorem C02_assembled_reference_mass_close :
  forall e, In e ref_elements ->
  forall (R : C08_Rules.qrule) (tol : Q), C08_Rules.rule_okQ (re_shape e) R (gen_intorder None (re_maxdeg e)) tol ->
  forall a b, In a (re_vals e) -> In b (re_vals e) ->
    Qabs (qrule_int R (C08_Rules.dim (re_shape e)) (pmul a b) - pint (re_shape e) (pmul a b)) <= l1 (pmul a b) * tol.
Proof. exact assembled_ref_mass_close. Qed.
Print Assumptions C02_assembled_reference_mass_close.
Close Scope Q_scope.

(* deg (p o F) <= deg p for affine F (any dimension), hence data of degree k times two shape functions of degree
   <= maxdeg has degree <= k + 2*maxdeg on the reference cell: the default order covers the mass matrix (k = 0) *)
Theorem C02_pullback_degree :
  forall (F : nat -> poly) (f a b : poly) (k m : nat),
  (forall j, pdeg (F j) <= 1) ->
  pdeg (psubst F f) <= pdeg f /\
  (pdeg f <= k -> pdeg a <= m -> pdeg b <= m -> pdeg (pmul (psubst F f) (pmul a b)) <= k + gen_intorder None m) /\
  (pdeg a <= m -> pdeg b <= m -> pdeg (pmul a b) <= gen_intorder None m).
Proof.
  intros F f a b k m HF. split; [exact (pullback_degree F f HF)|]. split.
  - intros. now apply pullback_times_shape_functions.
  - intros. now apply default_order_covers_products.
Qed.
Print Assumptions C02_pullback_degree.

(* on affine cells the mass entry (summed over the cells) is  sum_e |detA_e| * (reference quadrature entry):
   exact physical entry = |detA| * exact reference entry.  ASSUMED calculus fact (not formalised): change of variables
   int_{F(K^)} f = |det A| int_{K^} f o F for the affine F of the cell. *)
Theorem C02_affine_mass_factorises :
  forall (R : Type) (O : ops R), ring_theory (o0 O) (o1 O) (oadd O) (omul O) (osub O) (oopp O) (@eq R) ->
  forall (ne nq : nat) (phi : nat -> nat -> R) (absf : R -> R) (detA : nat -> R) (W : nat -> R) (i j : nat),
  mass_entry O ne nq (fun i e q => phi i q) (gen_cell_dx O absf (gen_detDF detA) W) i j
  = rsum O (seq 0 ne) (fun e => omul O (absf (detA e)) (rsum O (seq 0 nq) (fun q => omul O (omul O (phi i q) (phi j q)) (W q)))).
Proof. intros R O Rth ne nq phi absf detA W i j. exact (affine_mass_factorises R O Rth ne nq phi (fun e => absf (detA e)) W i j). Qed.
Print Assumptions C02_affine_mass_factorises.

(* ================================================================== deepening round 3 *)
(* the integral does not depend on the representation: normalisation keeps it, and two polynomials that the
   verified equality test identifies have the same integral over every cell *)
Theorem C02_pint_representation_independent : forall (s : C08_Rules.shape) (p q : poly),
  QArith_base.Qeq (pint s (pnorm p)) (pint s p) /\ (peqb p q = true -> QArith_base.Qeq (pint s p) (pint s q)).
Proof. intros. split; [apply pint_pnorm|apply pint_peqb]. Qed.
Print Assumptions C02_pint_representation_independent.

(* reference stiffness TENSORS  T^{kl}_ij = int d_k phi_i d_l phi_j  (P1/P2 on segment, triangle, tetrahedron):
   the d x d families of rational literals are exact *)
Theorem C02_reference_tensor_exact :
  Forall (fun e => tensors_eqb (tensors_ref (fst (fst e)) (snd (fst e))) (snd e) = true) tensor_elements.
Proof. exact tensor_elements_ok. Qed.
Print Assumptions C02_reference_tensor_exact.

(* stiffness on a GENERAL affine cell, any commutative ring: with the physical gradient B^T grad^ (B = inverse Jacobian,
   the generated invA which is the two-sided inverse by C02_invA_is_inverse) and dx as written in CellBasis,
     sum_q (grad phi_i . grad phi_j)(x_q) dx(e,q) = |detA_e| * sum_{k,l} (B B^T)_kl * (sum_q d_k phi_i d_l phi_j W_q),
   i.e. exact physical entry = |detA| * sum_kl G_kl T^{kl}_ij.  ASSUMED (not formalised): chain rule
   grad (phi o F^-1) = A^-T grad^ phi and change of variables. *)
Theorem C02_affine_stiffness_contraction :
  forall (R : Type) (O : ops R), ring_theory (o0 O) (o1 O) (oadd O) (omul O) (osub O) (oopp O) (@eq R) ->
  forall (d : nat) (B gi gj : nat -> nat -> R) (absf : R -> R) (detA : nat -> R) (W : nat -> R) (e nq : nat),
  d = 1 \/ d = 2 \/ d = 3 ->
  rsum O (seq 0 nq) (fun q => omul O (gdot O d B gi gj q) (gen_cell_dx O absf (gen_detDF detA) W e q))
  = omul O (absf (detA e)) (rsum O (seq 0 d) (fun k => rsum O (seq 0 d) (fun l =>
      omul O (gramB O d B k l) (rsum O (seq 0 nq) (fun q => omul O (omul O (gi k q) (gj l q)) (W q)))))).
Proof. exact affine_stiffness_contraction. Qed.
Print Assumptions C02_affine_stiffness_contraction.

(* load vectors: the literals int x^m phi_i (all monomials of degree <= 2) are exact, and every rule good for the order
   2 + maxdeg integrates x^m phi_i to within l1 * tol of them (polynomial data by linearity of pint and qrule_int) *)
Theorem C02_assembled_reference_load_close :
  forall s n vals ms lits, In (s, n, vals, ms, lits) load_elements ->
  loads_eqb (map (load_ref s vals) ms) lits = true /\
  forall (R : C08_Rules.qrule) (tol : QArith_base.Q), C08_Rules.rule_okQ s R n tol -> forall m a, In m ms -> In a vals ->
    QArith_base.Qle (Qabs.Qabs (QArith_base.Qminus (qrule_int R (C08_Rules.dim s) (pmul [(QArith_base.Qmake 1 1, m)] a))
                                                   (pint s (pmul [(QArith_base.Qmake 1 1, m)] a))))
                    (QArith_base.Qmult (l1 (pmul [(QArith_base.Qmake 1 1, m)] a)) tol).
Proof. exact assembled_ref_load_close. Qed.
Print Assumptions C02_assembled_reference_load_close.

(* facet mass matrices: for every local facet (parametrisation read from refdom.p / refdom.facets) the literal is the exact
   integral of phi_i phi_j over the reference facet w.r.t. the parameter measure; the physical facet mass is detB times it,
   detB^2 = Gram determinant of the facet's edge vectors (C02_detB_is_gram_partial) *)
Theorem C02_reference_facet_mass_exact :
  Forall (fun e => list_eqb qmat_eqb (map (fun F => facet_mass_ref (fst (fst (fst e))) F (snd (fst e))) (snd (fst (fst e)))) (snd e) = true)
         facet_elements.
Proof. exact facet_elements_ok. Qed.
Print Assumptions C02_reference_facet_mass_exact.

(* which rule a basis integrates with (regenerated from AbstractBasis.__init__): an explicitly given quadrature rule
   always wins over intorder; otherwise the table is asked for intorder, or 2*maxdeg when none is given *)
Theorem C02_explicit_quadrature_precedence :
  forall (A : Type) (r : A) (io : option nat) (maxdeg : nat) (table : nat -> A),
  gen_rule_choice (Some r) io maxdeg table = r /\
  gen_rule_choice None io maxdeg table = table (gen_intorder io maxdeg).
Proof. intros. split; [apply explicit_quadrature_wins|apply no_quadrature_uses_order]. Qed.
Print Assumptions C02_explicit_quadrature_precedence.

(* ---- non-vacuity: Z and Qc are instances; a mirrored triangle has det -1, |det| 1; a concrete inverse *)
Example C02_instances :
  ring_theory (o0 Zops) (o1 Zops) (oadd Zops) (omul Zops) (osub Zops) (oopp Zops) (@eq Z) /\
  simplex_det2 Z Zops (fun i k => nth k (nth i [[0; 0; 1]; [0; 1; 0]] []) 0)%Z = (-1)%Z /\
  simplex_det3 Z Zops (fun i k => nth k (nth i [[0; 2; 0; 0]; [0; 0; 3; 0]; [0; 0; 0; 5]] []) 0)%Z = 30%Z /\
  length (perms (seq 0 4)) = 24.
Proof. split; [exact Zth_ops|]. repeat split; vm_compute; reflexivity. Qed.
Print Assumptions C02_instances.
