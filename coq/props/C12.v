(* C12 — Uniform refinement preserves domain, conformity and named regions.
   Only statements; proofs live in Proofs.C12_RefineProofs / Proofs.C12_GeomProofs (all meshes, all sizes)
   and in Dyn.C12Tie (finite computations on the templates REGENERATED from skfem/mesh/*.py).
   Meshes are cell-major lists; [tables] are the arrays t, edges, facets, t2e, t2f of the input mesh;
   coordinates are rationals (every binary64 is one). *)
From Coq Require Import List Arith Bool ZArith QArith.
Import ListNotations.
Require Import Base.Corr Base.C11_Unique Model.C11_Topo Proofs.C11_TopoProofs Proofs.C11_EquivProofs.
Require Import Model.C12_Refine Model.C12_Geom Model.C13_Adaptive.
Require Import Proofs.C12_RefineProofs Proofs.C12_GeomProofs Proofs.C12_BoundaryProofs Proofs.C13_AdaptiveProofs.
Require Import Model.C12_Global Proofs.C12_GlobalProofs Proofs.C12_InvProofs Proofs.C12_Face3Proofs Proofs.C12_HexCycleProofs.
Require Import Gen.C12Gen Dyn.C12Tie.
Local Open Scope nat_scope.

(* ---------------------------------------------------------------------------------------------
   subdomain_children: the refined mesh has 2^d nt cells and the cell with the index the library
   uses for "child j of cell k" (generic fallback k + j nt of Mesh.refined for triangles,
   quadrilaterals, hexahedra; MeshTet1's own rank tables) IS child j of cell k: its vertices are
   the template's node references resolved in cell k.  All meshes, all numberings, all nt. *)
Theorem C12_tri_children : forall p tb j k, j < 4 -> k < length (tb_t tb) ->
  length (snd (uniform_block tri_spec 2 p tb)) = 4 * length (tb_t tb) /\
  nth (gen_tri_submap (length (tb_t tb)) j k) (snd (uniform_block tri_spec 2 p tb)) []
  = child (offs_of tri_spec p tb) (cell_ctx tb k) (nth j gen_tri_templates []).
Proof. intros p tb j k Hj Hk. exact (uniform_block_children tri_spec 2 p tb j k Hj Hk). Qed.
Print Assumptions C12_tri_children.

Theorem C12_quad_children : forall p tb j k, j < 4 -> k < length (tb_t tb) ->
  length (snd (uniform_block quad_spec 2 p tb)) = 4 * length (tb_t tb) /\
  nth (gen_quad_submap (length (tb_t tb)) j k) (snd (uniform_block quad_spec 2 p tb)) []
  = child (offs_of quad_spec p tb) (cell_ctx tb k) (nth j gen_quad_templates []).
Proof. intros p tb j k Hj Hk. exact (uniform_block_children quad_spec 2 p tb j k Hj Hk). Qed.
Print Assumptions C12_quad_children.

Theorem C12_hex_children : forall p tb j k, j < 8 -> k < length (tb_t tb) ->
  length (snd (uniform_block hex_spec 3 p tb)) = 8 * length (tb_t tb) /\
  nth (gen_hex_submap (length (tb_t tb)) j k) (snd (uniform_block hex_spec 3 p tb)) []
  = child (offs_of hex_spec p tb) (cell_ctx tb k) (nth j gen_hex_templates []).
Proof. intros p tb j k Hj Hk. exact (uniform_block_children hex_spec 3 p tb j k Hj Hk). Qed.
Print Assumptions C12_hex_children.

(* tetrahedra: for EVERY outcome of the diagonal choice (the class list is whatever the model computes
   from the coordinates; it always names one of the three diagonals) *)
Theorem C12_tet_children : forall p tb j k, j < 8 -> k < length (tb_t tb) ->
  let r := uniform_tet tet_spec gen_tet_diags gen_tet_comps gen_tet_classes p tb in
  Forall (fun c => c < 3) (snd r) /\
  length (snd (fst r)) = 8 * length (tb_t tb) /\
  nth (gen_tet_submap (snd r) j k) (snd (fst r)) []
  = child (offs_of tet_spec p tb) (cell_ctx tb k) (tet_tpl gen_tet_templates j (nth k (snd r) 0)).
Proof.
  intros p tb j k Hj Hk r. pose proof (uniform_tet_cls_lt3 p tb) as Hc. split; [exact Hc|].
  rewrite tet_submap_ok.
  - exact (uniform_tet_children tet_spec gen_tet_diags gen_tet_comps gen_tet_classes p tb j k eq_refl Hj Hk Hc).
  - rewrite Forall_forall in Hc. apply Hc, nth_In. unfold r, uniform_tet. cbn [snd]. now rewrite map_length, mk_ctxs_length.
Qed.
Print Assumptions C12_tet_children.

(* the three class masks c1, c2, c3 of MeshTet1._uniform are a partition for all diagonal lengths *)
Theorem C12_tet_diagonal_choice_partition : forall d1 d2 d3 : Q,
  let I := map (fun ab => Qltb (nth (fst ab) [d1; d2; d3] 0%Q) (nth (snd ab) [d1; d2; d3] 0%Q)) gen_tet_comps in
  first_true (map (eval_class I) gen_tet_classes) < 3 /\
  length (filter (fun b => b) (map (eval_class I) gen_tet_classes)) = 1.
Proof. exact tet_choice_partition. Qed.
Print Assumptions C12_tet_diagonal_choice_partition.

(* the propagated tag  np.sort(new_t[:, ixs].flatten())  is exactly the set of the N children of the
   tagged cells, for any index map *)
Theorem C12_subdomain_tag_is_children_of_tagged : forall (idx : nat -> nat -> nat) N ixs c,
  In c (propagate idx N ixs) <-> exists j k, j < N /\ In k ixs /\ c = idx j k.
Proof. exact propagate_spec. Qed.
Print Assumptions C12_subdomain_tag_is_children_of_tagged.

(* distinct (child number, cell) pairs have distinct positions: a tag cannot reach another cell's children *)
Theorem C12_child_positions_distinct : forall nt j k j' k', k < nt -> k' < nt ->
  gen_fallback_index nt j k = gen_fallback_index nt j' k' -> j = j' /\ k = k'.
Proof. exact fallback_index_injective. Qed.
Print Assumptions C12_child_positions_distinct.

(* ---------------------------------------------------------------------------------------------
   refined(k): by induction on k, for ANY way [tabs] of computing the entity tables of the
   intermediate meshes: (2^d)^k nt cells, and the old vertices keep index and position. *)
Theorem C12_refined_k_tri : forall (tabs : list (list nat) -> tables), (forall t, tb_t (tabs t) = t) ->
  forall k p t,
    length (snd (refined_k (uniform_block tri_spec 2) tabs k p t)) = 4 ^ k * length t /\
    firstn (length p) (fst (refined_k (uniform_block tri_spec 2) tabs k p t)) = p.
Proof. intros tabs H k p t. exact (refined_k_block tri_spec 2 tabs H k p t). Qed.
Print Assumptions C12_refined_k_tri.

Theorem C12_refined_k_quad : forall (tabs : list (list nat) -> tables), (forall t, tb_t (tabs t) = t) ->
  forall k p t,
    length (snd (refined_k (uniform_block quad_spec 2) tabs k p t)) = 4 ^ k * length t /\
    firstn (length p) (fst (refined_k (uniform_block quad_spec 2) tabs k p t)) = p.
Proof. intros tabs H k p t. exact (refined_k_block quad_spec 2 tabs H k p t). Qed.
Print Assumptions C12_refined_k_quad.

Theorem C12_refined_k_hex : forall (tabs : list (list nat) -> tables), (forall t, tb_t (tabs t) = t) ->
  forall k p t,
    length (snd (refined_k (uniform_block hex_spec 3) tabs k p t)) = 8 ^ k * length t /\
    firstn (length p) (fst (refined_k (uniform_block hex_spec 3) tabs k p t)) = p.
Proof. intros tabs H k p t. exact (refined_k_block hex_spec 3 tabs H k p t). Qed.
Print Assumptions C12_refined_k_hex.

Theorem C12_refined_k_tet : forall (tabs : list (list nat) -> tables), (forall t, tb_t (tabs t) = t) ->
  forall k p t,
    length (snd (refined_k tet_step tabs k p t)) = 8 ^ k * length t /\
    firstn (length p) (fst (refined_k tet_step tabs k p t)) = p.
Proof.
  intros tabs H k p t. split.
  - apply refined_k_cells. intros p0 t0. now rewrite tet_step_cells, H.
  - apply refined_k_old_vertices. intros p0 t0. apply tet_step_prefix.
Qed.
Print Assumptions C12_refined_k_tet.

Theorem C12_refined_k_line : forall (tabs : list (list nat) -> tables), (forall t, tb_t (tabs t) = t) ->
  forall k p t,
    length (snd (refined_k (uniform_line line_spec) tabs k p t)) = 2 ^ k * length t /\
    firstn (length p) (fst (refined_k (uniform_line line_spec) tabs k p t)) = p.
Proof. intros tabs H k p t. exact (refined_k_line line_spec tabs H k p t). Qed.
Print Assumptions C12_refined_k_line.

(* ---------------------------------------------------------------------------------------------
   no_hanging_nodes (node level): the new vertex placed on an old facet / edge / cell has the index
   offset + (id of that entity) — the same index from every cell containing the entity — and its
   coordinates are computed from the entity's own vertex list (mean; hexahedra: 1/2, 1/4, 1/8 of the
   sum), hence the same from every cell.  The offsets read from the source address exactly the block
   of the stacked coordinate array that holds that entity kind. *)
Theorem C12_tri_new_nodes : forall p tb f, f < length (tb_facets tb) ->
  nth (offF (offs_of tri_spec p tb) + f) (fst (uniform_block tri_spec 2 p tb)) []
  = ent_mean 2 p (nth f (tb_facets tb) []).
Proof. exact tri_new_nodes. Qed.
Print Assumptions C12_tri_new_nodes.

Theorem C12_quad_new_nodes : forall p tb, tab_max (tb_t2f tb) + 1 = length (tb_facets tb) ->
  (forall f, f < length (tb_facets tb) ->
     nth (offF (offs_of quad_spec p tb) + f) (fst (uniform_block quad_spec 2 p tb)) []
     = ent_mean 2 p (nth f (tb_facets tb) [])) /\
  (forall k, k < length (tb_t tb) ->
     nth (offC (offs_of quad_spec p tb) + k) (fst (uniform_block quad_spec 2 p tb)) []
     = ent_mean 2 p (nth k (tb_t tb) [])).
Proof. exact quad_new_nodes. Qed.
Print Assumptions C12_quad_new_nodes.

Theorem C12_tet_new_nodes : forall p tb e, e < length (tb_edges tb) ->
  nth (offE (offs_of tet_spec p tb) + e)
      (fst (fst (uniform_tet tet_spec gen_tet_diags gen_tet_comps gen_tet_classes p tb))) []
  = ent_mean 3 p (nth e (tb_edges tb) []).
Proof. exact tet_new_nodes. Qed.
Print Assumptions C12_tet_new_nodes.

Theorem C12_hex_new_nodes : forall p tb, dense tb ->
  (forall e, e < length (tb_edges tb) ->
     nth (offE (offs_of hex_spec p tb) + e) (fst (uniform_block hex_spec 3 p tb)) []
     = ent_scaled (1 # 2) 3 p (nth e (tb_edges tb) [])) /\
  (forall f, f < length (tb_facets tb) ->
     nth (offF (offs_of hex_spec p tb) + f) (fst (uniform_block hex_spec 3 p tb)) []
     = ent_scaled (1 # 4) 3 p (nth f (tb_facets tb) [])) /\
  (forall k, k < length (tb_t tb) ->
     nth (offC (offs_of hex_spec p tb) + k) (fst (uniform_block hex_spec 3 p tb)) []
     = ent_scaled (1 # 8) 3 p (nth k (tb_t tb) [])).
Proof. exact hex_new_nodes. Qed.
Print Assumptions C12_hex_new_nodes.

Theorem C12_line_new_nodes : forall p tb k, k < length (tb_t tb) ->
  nth (offC (offs_of line_spec p tb) + k) (fst (uniform_line line_spec p tb)) []
  = ent_mean 1 p (nth k (tb_t tb) []).
Proof. exact line_new_nodes. Qed.
Print Assumptions C12_line_new_nodes.

(* ---------------------------------------------------------------------------------------------
   children_tile_parent, simplices: for EVERY parent geometry, every child vertex is a convex
   combination of the parent's vertices (child inside parent) and
   det(child) = +-2^-d det(parent) (no degenerate child; with 2^d children the volumes add up).
   Tetrahedra: all 4 + 3*4 templates, i.e. all three diagonal choices. *)
Theorem C12_tri_children_tile_parent : forall tpl, In tpl gen_tri_templates ->
  convex_rows (tri_W tpl) /\
  exists s, (s == 1 # 4 \/ s == - (1 # 4))%Q /\
    forall x0 x1 x2 y0 y1 y2 : Q,
      (tri_det_l (comb (tri_W tpl) [x0; x1; x2]) (comb (tri_W tpl) [y0; y1; y2])
       == s * tri_det x0 y0 x1 y1 x2 y2)%Q.
Proof. exact (tri_templates_sound tri_W gen_tri_templates tri_geom_ok). Qed.
Print Assumptions C12_tri_children_tile_parent.

Theorem C12_tet_children_tile_parent : forall tpl, In tpl gen_tet_templates ->
  convex_rows (tet_W tpl) /\
  exists s, (s == 1 # 8 \/ s == - (1 # 8))%Q /\
    forall x0 x1 x2 x3 y0 y1 y2 y3 z0 z1 z2 z3 : Q,
      (tet_det_l (comb (tet_W tpl) [x0; x1; x2; x3]) (comb (tet_W tpl) [y0; y1; y2; y3])
                 (comb (tet_W tpl) [z0; z1; z2; z3])
       == s * tet_det x0 y0 z0 x1 y1 z1 x2 y2 z2 x3 y3 z3)%Q.
Proof. exact (tet_templates_sound tet_W gen_tet_templates tet_geom_ok). Qed.
Print Assumptions C12_tet_children_tile_parent.

(* pairwise disjoint interiors: for every two children A, B of one parent there is a linear functional
   on barycentric coordinates that is > 0 on every interior point of A and < 0 on every interior point
   of B (interior point = strictly positive combination of the vertices) *)
Theorem C12_tri_children_disjoint :
  all_pairs_ok (fun a b => separable 3 (tri_W a) (tri_W b)) gen_tri_templates = true /\
  forall A B : list (list Q), separable 3 A B = true ->
    Forall (fun v => length v = 3) A -> Forall (fun v => length v = 3) B ->
    forall al be, length al = length A -> length be = length B ->
      Forall (fun a => 0 < a)%Q al -> Forall (fun b => 0 < b)%Q be ->
      exists c, ~ (dot c (lincomb 3 al A) == dot c (lincomb 3 be B))%Q.
Proof. split; [exact tri_disjoint_ok | exact (separable_disjoint 3)]. Qed.
Print Assumptions C12_tri_children_disjoint.

Theorem C12_tet_children_disjoint :
  forallb (fun c => all_pairs_ok (fun a b => separable 4 (tet_W a) (tet_W b)) (tet_family c)) [0; 1; 2] = true /\
  forall A B : list (list Q), separable 4 A B = true ->
    Forall (fun v => length v = 4) A -> Forall (fun v => length v = 4) B ->
    forall al be, length al = length A -> length be = length B ->
      Forall (fun a => 0 < a)%Q al -> Forall (fun b => 0 < b)%Q be ->
      exists c, ~ (dot c (lincomb 4 al A) == dot c (lincomb 4 be B))%Q.
Proof. split; [exact tet_disjoint_ok | exact (separable_disjoint 4)]. Qed.
Print Assumptions C12_tet_children_disjoint.

(* children_tile_parent, tensor cells, EVERY (multilinear) parent geometry: child j consists of the
   nodes at reference positions o_j + rp_i / 2 (a sub-square / sub-cube of the reference cell, in the
   reference cell's own vertex order), the 2^d corners o_j are pairwise different, every node's
   coordinates are the parent's map at the node's reference position, and interpolating the parent's
   map at a child's vertices reproduces the parent's map on that sub-cube. *)
Theorem C12_quad_children_are_subcells :
  tensor_templates_ok 2 gen_quad_rp gen_quad_redges gen_quad_rfacets gen_quad_templates = true /\
  (forall r, node_is_map_value 2 gen_quad_rp gen_quad_redges gen_quad_rfacets r = true ->
     forall X, (dot (nref_weights (length gen_quad_rp) gen_quad_redges gen_quad_rfacets r) X
                == mlmap gen_quad_rp X (nref_refcoord 2 gen_quad_rp gen_quad_redges gen_quad_rfacets r))%Q) /\
  (forall X0 X1 X2 X3 o1 o2 x1 x2 : Q,
     let X := [X0; X1; X2; X3] in
     let cvals := map (fun rpi => mlmap gen_quad_rp X (padd [o1; o2] (pscale (1 # 2) rpi))) gen_quad_rp in
     (mlmap gen_quad_rp cvals [x1; x2] == mlmap gen_quad_rp X [o1 + (1 # 2) * x1; o2 + (1 # 2) * x2])%Q).
Proof.
  split; [exact quad_geom_ok|]. split; [|exact quad_child_map].
  intros r H. exact (node_is_map_value_sound 2 gen_quad_rp gen_quad_redges gen_quad_rfacets r H).
Qed.
Print Assumptions C12_quad_children_are_subcells.

Theorem C12_hex_children_are_subcells :
  tensor_templates_ok 3 gen_hex_rp gen_hex_redges gen_hex_rfacets gen_hex_templates = true /\
  (forall r, node_is_map_value 3 gen_hex_rp gen_hex_redges gen_hex_rfacets r = true ->
     forall X, (dot (nref_weights (length gen_hex_rp) gen_hex_redges gen_hex_rfacets r) X
                == mlmap gen_hex_rp X (nref_refcoord 3 gen_hex_rp gen_hex_redges gen_hex_rfacets r))%Q) /\
  (forall X0 X1 X2 X3 X4 X5 X6 X7 o1 o2 o3 x1 x2 x3 : Q,
     let X := [X0; X1; X2; X3; X4; X5; X6; X7] in
     let cvals := map (fun rpi => mlmap gen_hex_rp X (padd [o1; o2; o3] (pscale (1 # 2) rpi))) gen_hex_rp in
     (mlmap gen_hex_rp cvals [x1; x2; x3]
      == mlmap gen_hex_rp X [o1 + (1 # 2) * x1; o2 + (1 # 2) * x2; o3 + (1 # 2) * x3])%Q).
Proof.
  split; [exact hex_geom_ok|]. split; [|exact hex_child_map].
  intros r H. exact (node_is_map_value_sound 3 gen_hex_rp gen_hex_redges gen_hex_rfacets r H).
Qed.
Print Assumptions C12_hex_children_are_subcells.

(* ---------------------------------------------------------------------------------------------
   The generic fallback k + j nt is NOT the position of the children of a tetrahedron: any class
   whose _uniform does not store its own map but refines through MeshTet1 (MeshTet2) mis-tags. *)
Theorem C12_generic_fallback_wrong_for_tetrahedra :
  exists cls j k, Forall (fun c => c < 3) cls /\ j < 8 /\ k < length cls /\
                  gen_fallback_index (length cls) j k <> gen_tet_submap cls j k.
Proof. exact tet_fallback_differs. Qed.
Print Assumptions C12_generic_fallback_wrong_for_tetrahedra.

(* ---------------------------------------------------------------------------------------------
   boundary_children: for every mesh and every old facet f = {u, v} (local facet a of some cell k), after ALL the
   assignments new_facets[r, t2f[a]] = m.t2f[b, ix_c] (shared facets are written from both neighbours; the last
   write wins) rows 0 and 1 of column f name the two halves {u, c} and {v, c} of f, c = the node created on f.
   Hence a tagged facet is replaced by exactly its two halves (interior facets included). *)
Theorem C12_tri_boundary_children : forall p tb f k0 a0,
  k0 < length (tb_t tb) -> a0 < length gen_tri_rfacets -> nth a0 (nth k0 (tb_t2f tb) []) 0 = f ->
  (* = exists a cell k with local facet a = f, whose two ends e0, e1 give
       new_facets[0][f] = {t[e0][k], offF + f}  and  new_facets[1][f] = {t[e1][k], offF + f} *)
  halves_spec gen_tri_rfacets tb (offF (offs_of tri_spec p tb))
    (bwrites gen_tri_rfacets (snd (uniform_block tri_spec 2 p tb)) (length (tb_t tb)) (tb_t2f tb) gen_tri_bassign) f.
Proof. intros p tb. exact (boundary_children_block gen_tri_rfacets tri_spec 2 p tb gen_tri_bassign tri_bassign_ok). Qed.
Print Assumptions C12_tri_boundary_children.

Theorem C12_quad_boundary_children : forall p tb f k0 a0,
  k0 < length (tb_t tb) -> a0 < length gen_quad_rfacets -> nth a0 (nth k0 (tb_t2f tb) []) 0 = f ->
  halves_spec gen_quad_rfacets tb (offF (offs_of quad_spec p tb))
    (bwrites gen_quad_rfacets (snd (uniform_block quad_spec 2 p tb)) (length (tb_t tb)) (tb_t2f tb) gen_quad_bassign) f.
Proof. intros p tb. exact (boundary_children_block gen_quad_rfacets quad_spec 2 p tb gen_quad_bassign quad_bassign_ok). Qed.
Print Assumptions C12_quad_boundary_children.

(* sort_t = True (the default of MeshTri1): every cell of the refined mesh is re-sorted before m.t2f is computed.
   If the cells of the input are increasing and facets are numbered lexicographically (f0 < f2 < f1 in every cell) the
   children read by the map are increasing already, and the same statement holds for the re-sorted connectivity. *)
Theorem C12_tri_boundary_children_sort_t : forall p tb,
  (forall k, k < length (tb_t tb) -> exists v0 v1 v2 f0 f1 f2,
     nth k (tb_t tb) [] = [v0; v1; v2] /\ nth k (tb_t2f tb) [] = [f0; f1; f2] /\
     v0 < v1 /\ v1 < v2 /\ v2 < length p /\ f0 < f2 /\ f2 < f1) ->
  forall f k0 a0,
  k0 < length (tb_t tb) -> a0 < length gen_tri_rfacets -> nth a0 (nth k0 (tb_t2f tb) []) 0 = f ->
  halves_spec gen_tri_rfacets tb (offF (offs_of tri_spec p tb))
    (bwrites gen_tri_rfacets (map sort_nat (snd (uniform_block tri_spec 2 p tb))) (length (tb_t tb)) (tb_t2f tb)
             gen_tri_bassign) f.
Proof.
  intros p tb Hmesh.
  apply (boundary_children_block_sorted gen_tri_rfacets tri_spec 2 p tb gen_tri_bassign tri_bassign_ok).
  intros st Hst k Hk. destruct (Hmesh k Hk) as [v0 [v1 [v2 [f0 [f1 [f2 [Hv [Hf [H1 [H2 [H3 [H4 H5]]]]]]]]]]]].
  pose proof tri_bassign_children as Hc. rewrite forallb_forall in Hc. specialize (Hc st Hst). apply Nat.ltb_lt in Hc.
  exact (tri_children_sorted (offs_of tri_spec p tb) (cell_ctx tb k) v0 v1 v2 f0 f1 f2 (asg_c st) Hv Hf H1 H2 H3 H4 H5 Hc).
Qed.
Print Assumptions C12_tri_boundary_children_sort_t.

(* non-vacuity of the hypotheses above: the unit square of two increasing triangles with lexicographic facet numbering
   (t2f = [0;2;1], [2;4;3]); every old facet f is replaced by its two halves around node 4 + f, also the shared one (f = 2) *)
Example C12_sort_t_instance :
  let tb := {| tb_t := [[0; 1; 2]; [1; 2; 3]]; tb_edges := []; tb_facets := [[0; 1]; [0; 2]; [1; 2]; [1; 3]; [2; 3]];
               tb_t2e := []; tb_t2f := [[0; 2; 1]; [2; 4; 3]] |} in
  let p := [[0; 0]; [1; 0]; [0; 1]; [1; 1]]%Q in
  let ws := bwrites gen_tri_rfacets (map sort_nat (snd (uniform_block tri_spec 2 p tb))) 2 (tb_t2f tb) gen_tri_bassign in
  map (fun f => (new_facets_at ws 0 f, new_facets_at ws 1 f)) [0; 1; 2; 3; 4]
  = [(Some [0; 4], Some [1; 4]); (Some [0; 5], Some [2; 5]); (Some [1; 6], Some [2; 6]); (Some [1; 7], Some [3; 7]);
     (Some [2; 8], Some [3; 8])].
Proof. vm_compute. reflexivity. Qed.
Print Assumptions C12_sort_t_instance.

(* no_hanging_nodes (2-D, trace level): inside every parent the children form a conforming patch whose trace on each
   parent facet consists of the two halves of that facet, cut at the facet's own node; the two halves depend on the
   facet alone (its end points and its index), hence the two neighbours of a facet agree *)
Theorem C12_no_hanging_nodes_2d :
  trace_ok gen_tri_rfacets [true; true; true] gen_tri_templates = true /\
  trace_ok gen_quad_rfacets [true; true; true; true] gen_quad_templates = true /\
  forall rf F nv facets c a,
    let f := nth a (cf c) 0 in let lf := nth a rf [] in
    (nth (nth 0 lf 0) (cv c) 0 = nth 0 (nth f facets []) 0 /\ nth (nth 1 lf 0) (cv c) 0 = nth 1 (nth f facets []) 0) \/
    (nth (nth 0 lf 0) (cv c) 0 = nth 1 (nth f facets []) 0 /\ nth (nth 1 lf 0) (cv c) 0 = nth 0 (nth f facets []) 0) ->
    forall e, In e (resolved_pieces rf F nv c a) <-> In e (facet_trace F nv facets f).
Proof. split; [exact tri_trace_ok | split; [exact quad_trace_ok | exact traces_agree]]. Qed.
Print Assumptions C12_no_hanging_nodes_2d.

(* ---------------------------------------------------------------------------------------------
   GLOBAL conformity (2-D), with the facet tables of Mesh.build_entities (C11: facets keyed by sorted vertex tuples,
   t2f numbers them slot by slot): in EVERY cell k that contains the old facet f = {e0, e1} (as its local facet a) the
   children leave on f exactly the two halves {e0, c} and {c, e1}, c = nv + f — the same two facets of the refined
   mesh from every side.  All meshes whose cells have pairwise distinct vertices; this applies to every intermediate
   mesh of refined(k).  Together with C12_no_hanging_nodes_2d (all other child facets are interior to their parent and
   shared by two of its children) no facet of the refined mesh ends at a hanging node. *)
Theorem C12_global_no_hanging_nodes_tri : forall cells nv k a,
  Forall (fun c => NoDup c /\ length c = 3) cells -> k < length cells -> a < length gen_tri_rfacets ->
  let tb := c11_tables cells gen_tri_rfacets in
  let f := nth a (cf (cell_ctx tb k)) 0 in
  let e0 := nth 0 (nth f (tb_facets tb) []) 0 in let e1 := nth 1 (nth f (tb_facets tb) []) 0 in
  forall e, In e (resolved_pieces gen_tri_rfacets (all_marked cells gen_tri_rfacets) nv (cell_ctx tb k) a)
            <-> e = sort2 e0 (nv + f) \/ e = sort2 (nv + f) e1.
Proof. intros cells nv k a Hc. exact (uniform_halves_everywhere cells gen_tri_rfacets 3 nv k a tri_rf2_ok Hc). Qed.
Print Assumptions C12_global_no_hanging_nodes_tri.

Theorem C12_global_no_hanging_nodes_quad : forall cells nv k a,
  Forall (fun c => NoDup c /\ length c = 4) cells -> k < length cells -> a < length gen_quad_rfacets ->
  let tb := c11_tables cells gen_quad_rfacets in
  let f := nth a (cf (cell_ctx tb k)) 0 in
  let e0 := nth 0 (nth f (tb_facets tb) []) 0 in let e1 := nth 1 (nth f (tb_facets tb) []) 0 in
  forall e, In e (resolved_pieces gen_quad_rfacets (all_marked cells gen_quad_rfacets) nv (cell_ctx tb k) a)
            <-> e = sort2 e0 (nv + f) \/ e = sort2 (nv + f) e1.
Proof. intros cells nv k a Hc. exact (uniform_halves_everywhere cells gen_quad_rfacets 4 nv k a quad_rf2_ok Hc). Qed.
Print Assumptions C12_global_no_hanging_nodes_quad.

(* two cells share an old facet (same facet number <=> same two end points, C11) => they share both halves *)
Theorem C12_shared_facet_shares_halves : forall cells F nv k1 a1 k2 a2,
  Forall (fun c => NoDup c /\ length c = 3) cells ->
  k1 < length cells -> a1 < length gen_tri_rfacets -> k2 < length cells -> a2 < length gen_tri_rfacets ->
  let tb := c11_tables cells gen_tri_rfacets in
  (nth a1 (cf (cell_ctx tb k1)) 0 = nth a2 (cf (cell_ctx tb k2)) 0 <->
   sort_entity (slotv (nth a1 gen_tri_rfacets []) (nth k1 cells [])) = sort_entity (slotv (nth a2 gen_tri_rfacets []) (nth k2 cells []))) /\
  (nth a1 (cf (cell_ctx tb k1)) 0 = nth a2 (cf (cell_ctx tb k2)) 0 ->
   forall e, In e (resolved_pieces gen_tri_rfacets F nv (cell_ctx tb k1) a1)
             <-> In e (resolved_pieces gen_tri_rfacets F nv (cell_ctx tb k2) a2)).
Proof.
  intros cells F nv k1 a1 k2 a2 Hc H1 H2 H3 H4. split.
  - exact (same_endpoints_same_facet cells gen_tri_rfacets k1 a1 k2 a2 H1 H2 H3 H4).
  - exact (shared_facet_same_pieces cells gen_tri_rfacets 3 tri_rf2_ok Hc F nv k1 a1 k2 a2 H1 H2 H3 H4).
Qed.
Print Assumptions C12_shared_facet_shares_halves.

(* ---------------------------------------------------------------------------------------------
   The induction over refined(k).  A uniform step (entity tables = Mesh.build_entities, C11) maps a mesh whose cells have
   pairwise distinct, existing vertices to a mesh with the same property: the new node numbers off + (entity number) lie
   in ranges disjoint from the old vertices and from each other, and inside a cell different slots have different entity
   numbers (C11: equal numbers <=> equal vertex sets).  All four cell types. *)
Theorem C12_uniform_step_keeps_distinct_vertices :
  (forall p t, cells_ok 3 (length p) t ->
     cells_ok 3 (length (fst (uniform_block tri_spec 2 p (tri_tabs t)))) (snd (uniform_block tri_spec 2 p (tri_tabs t)))) /\
  (forall p t, cells_ok 4 (length p) t ->
     cells_ok 4 (length (fst (uniform_block quad_spec 2 p (quad_tabs t)))) (snd (uniform_block quad_spec 2 p (quad_tabs t)))) /\
  (forall p t, cells_ok 4 (length p) t ->
     cells_ok 4 (length (fst (tet_step p (tet_tabs t)))) (snd (tet_step p (tet_tabs t)))) /\
  (forall p t, cells_ok 8 (length p) t ->
     cells_ok 8 (length (fst (uniform_block hex_spec 3 p (hex_tabs t)))) (snd (uniform_block hex_spec 3 p (hex_tabs t)))).
Proof. split; [exact tri_step_ok | split; [exact quad_step_ok | split; [exact tet_step_ok | exact hex_step_ok]]]. Qed.
Print Assumptions C12_uniform_step_keeps_distinct_vertices.

(* hence, for EVERY k, the mesh refined(k) has cells with pairwise distinct vertices and in every cell of it containing a facet
   f = {e0, e1} the next refinement leaves exactly the halves {e0, nv + f}, {nv + f, e1}: no hanging node at any level *)
Theorem C12_refined_k_conforming_2d :
  (forall k p t, cells_ok 3 (length p) t ->
     let r := refined_k (uniform_block tri_spec 2) tri_tabs k p t in
     cells_ok 3 (length (fst r)) (snd r) /\
     forall nv c a, c < length (snd r) -> a < length gen_tri_rfacets ->
       let tb := c11_tables (snd r) gen_tri_rfacets in
       let f := nth a (cf (cell_ctx tb c)) 0 in
       let e0 := nth 0 (nth f (tb_facets tb) []) 0 in let e1 := nth 1 (nth f (tb_facets tb) []) 0 in
       forall e, In e (resolved_pieces gen_tri_rfacets (all_marked (snd r) gen_tri_rfacets) nv (cell_ctx tb c) a)
                 <-> e = sort2 e0 (nv + f) \/ e = sort2 (nv + f) e1) /\
  (forall k p t, cells_ok 4 (length p) t ->
     let r := refined_k (uniform_block quad_spec 2) quad_tabs k p t in
     cells_ok 4 (length (fst r)) (snd r) /\
     forall nv c a, c < length (snd r) -> a < length gen_quad_rfacets ->
       let tb := c11_tables (snd r) gen_quad_rfacets in
       let f := nth a (cf (cell_ctx tb c)) 0 in
       let e0 := nth 0 (nth f (tb_facets tb) []) 0 in let e1 := nth 1 (nth f (tb_facets tb) []) 0 in
       forall e, In e (resolved_pieces gen_quad_rfacets (all_marked (snd r) gen_quad_rfacets) nv (cell_ctx tb c) a)
                 <-> e = sort2 e0 (nv + f) \/ e = sort2 (nv + f) e1).
Proof.
  split; intros k p t H r.
  - pose proof (refined_k_cells_ok (uniform_block tri_spec 2) tri_tabs 3 tri_step_ok k p t H) as Hk. split; [exact Hk|].
    intros nv c a. exact (uniform_halves_everywhere (snd r) gen_tri_rfacets 3 nv c a tri_rf2_ok (cells_ok_distinct _ _ _ Hk)).
  - pose proof (refined_k_cells_ok (uniform_block quad_spec 2) quad_tabs 4 quad_step_ok k p t H) as Hk. split; [exact Hk|].
    intros nv c a. exact (uniform_halves_everywhere (snd r) gen_quad_rfacets 4 nv c a quad_rf2_ok (cells_ok_distinct _ _ _ Hk)).
Qed.
Print Assumptions C12_refined_k_conforming_2d.

Theorem C12_refined_k_distinct_vertices_3d :
  (forall k p t, cells_ok 4 (length p) t ->
     let r := refined_k tet_step tet_tabs k p t in cells_ok 4 (length (fst r)) (snd r)) /\
  (forall k p t, cells_ok 8 (length p) t ->
     let r := refined_k (uniform_block hex_spec 3) hex_tabs k p t in cells_ok 8 (length (fst r)) (snd r)).
Proof.
  split; intros k p t H.
  - exact (refined_k_cells_ok tet_step tet_tabs 4 tet_step_ok k p t H).
  - exact (refined_k_cells_ok (uniform_block hex_spec 3) hex_tabs 8 hex_step_ok k p t H).
Qed.
Print Assumptions C12_refined_k_distinct_vertices_3d.

(* ---------------------------------------------------------------------------------------------
   children_tile_parent with the unformalised step as an EXPLICIT hypothesis: if "simplices inside the parent, with pairwise
   separated interiors, non-degenerate, whose |det| add up to the parent's, cover the parent" (tri_/tet_tiling_principle, the
   measure-theoretic principle, for an arbitrary predicate Covers), then the children of a triangle, and the eight children
   of a tetrahedron for each of the three diagonal choices, cover their parent.  Everything but the principle is proved. *)
Theorem C12_children_tile_parent_given_principle :
  (forall Covers, tri_tiling_principle Covers -> Covers (map tri_W gen_tri_templates)) /\
  (forall Covers, tet_tiling_principle Covers -> forall c, In c [0; 1; 2] -> Covers (map tet_W (tet_family c))).
Proof.
  split.
  - intros Covers HP. exact (tri_tiles_cover Covers tri_W gen_tri_templates HP tri_uniform_tiles).
  - intros Covers HP c Hc. pose proof tet_uniform_tiles as H. rewrite forallb_forall in H.
    exact (tet_tiles_cover Covers tet_W (tet_family c) HP (H c Hc)).
Qed.
Print Assumptions C12_children_tile_parent_given_principle.

(* ---------------------------------------------------------------------------------------------
   GLOBAL conformity at FACE level, tetrahedra, with the tables of Mesh.build_entities (C11: t2f AND t2e, facets / edges keyed by
   sorted vertex tuples).  Template level (all three diagonal choices): the faces of the eight children are, for every parent
   face, exactly four triangles — three corner triangles {V, E, E'} and the middle one {E, E', E''} over the nodes of the face's
   three edges — plus interior faces shared by two children.  Mesh level: in EVERY cell k containing the face f (as its local
   face a) those four triangles, with the library's numbering offE + t2e[.], are a function of f alone: of its vertex tuple
   facets[f] and the positions of its three vertex pairs in mesh.edges.  Hence two tetrahedra sharing a face leave the same
   four faces of the refined mesh on it: no hanging node / edge.  All meshes whose cells have pairwise distinct vertices. *)
Theorem C12_global_no_hanging_nodes_tet :
  forallb (fun c => trace3_ok gen_tet_rfacets gen_tet_redges (tet_family c)) [0; 1; 2] = true /\
  forall cells oE k a,
    Forall (fun c => NoDup c /\ length c = 4) cells -> k < length cells -> a < length gen_tet_rfacets ->
    let tb := c11_tables3 cells gen_tet_rfacets gen_tet_redges in
    forall e, In e (resolved_face_pieces gen_tet_rfacets gen_tet_redges oE (cell_ctx tb k) a)
              <-> In e (face_trace3 (tb_edges tb) oE (nth (nth a (cf (cell_ctx tb k)) 0) (tb_facets tb) [])).
Proof.
  split; [exact tet_trace3_ok|]. intros cells oE k a Hc.
  exact (face_pieces_global cells gen_tet_rfacets gen_tet_redges 4 tet_face_edges_ok Hc oE k a).
Qed.
Print Assumptions C12_global_no_hanging_nodes_tet.

Theorem C12_shared_face_shares_pieces_tet : forall cells oE k1 a1 k2 a2,
  Forall (fun c => NoDup c /\ length c = 4) cells ->
  k1 < length cells -> a1 < length gen_tet_rfacets -> k2 < length cells -> a2 < length gen_tet_rfacets ->
  let tb := c11_tables3 cells gen_tet_rfacets gen_tet_redges in
  nth a1 (cf (cell_ctx tb k1)) 0 = nth a2 (cf (cell_ctx tb k2)) 0 ->
  forall e, In e (resolved_face_pieces gen_tet_rfacets gen_tet_redges oE (cell_ctx tb k1) a1)
            <-> In e (resolved_face_pieces gen_tet_rfacets gen_tet_redges oE (cell_ctx tb k2) a2).
Proof.
  intros cells oE k1 a1 k2 a2 Hc.
  exact (shared_face_same_pieces cells gen_tet_rfacets gen_tet_redges 4 tet_face_edges_ok Hc oE k1 a1 k2 a2).
Qed.
Print Assumptions C12_shared_face_shares_pieces_tet.

(* induction over k closed with the distinct-vertices invariant: at EVERY level of refined(k) of a tetrahedral mesh the next
   refinement cuts every face alike from all cells containing it *)
Theorem C12_refined_k_conforming_3d : forall k p t, cells_ok 4 (length p) t ->
  let r := refined_k tet_step tet_tabs k p t in
  cells_ok 4 (length (fst r)) (snd r) /\
  forall oE c a, c < length (snd r) -> a < length gen_tet_rfacets ->
    let tb := c11_tables3 (snd r) gen_tet_rfacets gen_tet_redges in
    forall e, In e (resolved_face_pieces gen_tet_rfacets gen_tet_redges oE (cell_ctx tb c) a)
              <-> In e (face_trace3 (tb_edges tb) oE (nth (nth a (cf (cell_ctx tb c)) 0) (tb_facets tb) [])).
Proof.
  intros k p t H r. pose proof (refined_k_cells_ok tet_step tet_tabs 4 tet_step_ok k p t H) as Hk. split; [exact Hk|].
  intros oE c a. exact (face_pieces_global (snd r) gen_tet_rfacets gen_tet_redges 4 tet_face_edges_ok (cells_ok_distinct _ _ _ Hk) oE c a).
Qed.
Print Assumptions C12_refined_k_conforming_3d.

(* hexahedra.  Template level: the faces of the eight children are, for every parent face, exactly four quadrilaterals
   {V, E, F, E'} (corner, the nodes of its two edges in the face, the face node) plus interior faces shared by two children.
   Mesh level, under the conformity hypothesis of C11_f2e_numbers_mesh_edges_hex (every cell lists the vertices of each face in
   the cyclic order of the stored facet column up to rotation / reversal — what conforming hexahedral meshes satisfy; without it
   "the same four vertices" does not determine which pairs are edges): in EVERY cell containing the face f the four pieces, with
   the library's numbering offE + t2e[.] and offF + t2f[.], are a function of f alone (its stored vertex tuple, the positions of
   its four sides in mesh.edges, its number), so two hexahedra sharing a face leave the same four faces on it.
   Closed by induction over k in C12_refined_k_conforming_hex below. *)
Theorem C12_global_no_hanging_nodes_hex :
  trace4_ok gen_hex_rfacets gen_hex_redges gen_hex_templates = true /\
  forall cells oE oF k a,
    Forall (fun c => NoDup c /\ length c = 8) cells ->
    (forall s e, s < length gen_hex_rfacets -> e < length cells ->
       dihedral (nth (t2f_at cells gen_hex_rfacets s e) (entities false cells gen_hex_rfacets) [])
                (slotv (nth s gen_hex_rfacets []) (nth e cells []))) ->
    k < length cells -> a < length gen_hex_rfacets ->
    let tb := c11_tables3 cells gen_hex_rfacets gen_hex_redges in
    let f := nth a (cf (cell_ctx tb k)) 0 in
    forall e, In e (resolved_qface_pieces gen_hex_rfacets gen_hex_redges oE oF (cell_ctx tb k) a)
              <-> In e (face_trace4 (tb_edges tb) oE oF f (nth f (entities false cells gen_hex_rfacets) [])).
Proof.
  split; [exact hex_trace4_ok|]. intros cells oE oF k a Hc Hconf.
  exact (qface_pieces_global cells gen_hex_rfacets gen_hex_redges 8 hex_qface_edges_ok Hc Hconf oE oF k a).
Qed.
Print Assumptions C12_global_no_hanging_nodes_hex.

Theorem C12_shared_face_shares_pieces_hex : forall cells oE oF k1 a1 k2 a2,
  Forall (fun c => NoDup c /\ length c = 8) cells ->
  (forall s e, s < length gen_hex_rfacets -> e < length cells ->
     dihedral (nth (t2f_at cells gen_hex_rfacets s e) (entities false cells gen_hex_rfacets) [])
              (slotv (nth s gen_hex_rfacets []) (nth e cells []))) ->
  k1 < length cells -> a1 < length gen_hex_rfacets -> k2 < length cells -> a2 < length gen_hex_rfacets ->
  let tb := c11_tables3 cells gen_hex_rfacets gen_hex_redges in
  nth a1 (cf (cell_ctx tb k1)) 0 = nth a2 (cf (cell_ctx tb k2)) 0 ->
  forall e, In e (resolved_qface_pieces gen_hex_rfacets gen_hex_redges oE oF (cell_ctx tb k1) a1)
            <-> In e (resolved_qface_pieces gen_hex_rfacets gen_hex_redges oE oF (cell_ctx tb k2) a2).
Proof.
  intros cells oE oF k1 a1 k2 a2 Hc Hconf.
  exact (shared_qface_same_pieces cells gen_hex_rfacets gen_hex_redges 8 hex_qface_edges_ok Hc Hconf oE oF k1 a1 k2 a2).
Qed.
Print Assumptions C12_shared_face_shares_pieces_hex.

(* THE HEXAHEDRAL INDUCTION CLOSED.  [conf] is the pairwise form of the cyclic-order hypothesis (two (face slot, cell) pairs
   spanning the same vertex set list it in the same cycle up to rotation / reversal); it is equivalent to the hypothesis of
   C11_f2e_numbers_mesh_edges_hex.  One uniform step preserves it together with the distinct-vertices invariant: a child face
   either contains the cell node (then both cells are children of the same parent and the templates list it alike), or it is the
   corner piece {V, E, F, E'} of a parent face, whose cycle is determined by the corner and its two neighbours in the parent's
   cycle — the same neighbours from both parents, because they list the parent face in the same cycle. *)
Theorem C12_hex_step_keeps_conformity : forall p t, cells_ok 8 (length p) t -> conf t gen_hex_rfacets ->
  cells_ok 8 (length (fst (uniform_block hex_spec 3 p (hex_tabs t)))) (snd (uniform_block hex_spec 3 p (hex_tabs t))) /\
  conf (snd (uniform_block hex_spec 3 p (hex_tabs t))) gen_hex_rfacets.
Proof. exact hex_step_conf. Qed.
Print Assumptions C12_hex_step_keeps_conformity.

(* hence at EVERY level of refined(k) of a conforming hexahedral mesh the hypothesis of C12_global_no_hanging_nodes_hex holds and
   every face is cut alike (four quadrilaterals determined by the face alone) from all cells containing it *)
Theorem C12_refined_k_conforming_hex : forall k p t, cells_ok 8 (length p) t ->
  (forall s e, s < length gen_hex_rfacets -> e < length t ->
     dihedral (nth (t2f_at t gen_hex_rfacets s e) (entities false t gen_hex_rfacets) []) (slotv (nth s gen_hex_rfacets []) (nth e t []))) ->
  let r := refined_k (uniform_block hex_spec 3) hex_tabs k p t in
  cells_ok 8 (length (fst r)) (snd r) /\
  (forall s e, s < length gen_hex_rfacets -> e < length (snd r) ->
     dihedral (nth (t2f_at (snd r) gen_hex_rfacets s e) (entities false (snd r) gen_hex_rfacets) [])
              (slotv (nth s gen_hex_rfacets []) (nth e (snd r) []))) /\
  forall oE oF c a, c < length (snd r) -> a < length gen_hex_rfacets ->
    let tb := c11_tables3 (snd r) gen_hex_rfacets gen_hex_redges in
    let f := nth a (cf (cell_ctx tb c)) 0 in
    forall e, In e (resolved_qface_pieces gen_hex_rfacets gen_hex_redges oE oF (cell_ctx tb c) a)
              <-> In e (face_trace4 (tb_edges tb) oE oF f (nth f (entities false (snd r) gen_hex_rfacets) [])).
Proof.
  intros k p t H Hd r.
  destruct (refined_k_conf (uniform_block hex_spec 3) hex_tabs 8 gen_hex_rfacets hex_step_conf k p t H (c11_conf t gen_hex_rfacets Hd))
    as [Hk Hc].
  assert (Hd' : forall s e, s < length gen_hex_rfacets -> e < length (snd r) ->
            dihedral (nth (t2f_at (snd r) gen_hex_rfacets s e) (entities false (snd r) gen_hex_rfacets) [])
                     (slotv (nth s gen_hex_rfacets []) (nth e (snd r) []))).
  { apply conf_c11; [exact hex_rf_len4 | exact Hc]. }
  split; [exact Hk|]. split; [exact Hd'|]. intros oE oF c a.
  exact (qface_pieces_global (snd r) gen_hex_rfacets gen_hex_redges 8 hex_qface_edges_ok (cells_ok_distinct _ _ _ Hk) Hd' oE oF c a).
Qed.
Print Assumptions C12_refined_k_conforming_hex.

(* the cyclic-order hypothesis is satisfiable: two hexahedra sharing a face, the second listing it rotated (the instance of C11) *)
Example C12_hex_conformity_instance :
  let cells := [[0; 1; 2; 3; 4; 5; 6; 7]; [8; 9; 10; 0; 11; 1; 2; 4]] in
  forallb (fun s => forallb (fun e =>
     let q := nth (t2f_at cells gen_hex_rfacets s e) (entities false cells gen_hex_rfacets) [] in
     let q' := slotv (nth s gen_hex_rfacets []) (nth e cells []) in
     match q with [a; b; c; d] => existsb (nats_eqb q') [[a; b; c; d]; [b; c; d; a]; [c; d; a; b]; [d; a; b; c];
                                                        [d; c; b; a]; [c; b; a; d]; [b; a; d; c]; [a; d; c; b]] | _ => false end)
     (seq 0 2)) (seq 0 6) = true.
Proof. vm_compute. reflexivity. Qed.
Print Assumptions C12_hex_conformity_instance.

(* ---------------------------------------------------------------------------------------------
   Mesh.refined, the dispatch (regenerated from mesh.py statement by statement): for EVERY argument value and ANY uniform step /
   adaptive routine the wrapper forwards as the model says — a scalar n makes exactly n passes of the uniform loop body
   (n <= 0: the mesh itself; a bool is the scalar 0 / 1; passes add up), an index collection goes to _adaptive unchanged, a
   boolean mask is replaced by the list of its true positions. *)
Theorem C12_refined_dispatch : forall (M : Type) (ustep : M -> M) (adapt : list nat -> M -> M),
  (forall arg m, gen_refined_dispatch ustep adapt arg m = refined_dispatch ustep adapt arg m) /\
  (forall n m, (n <= 0)%Z -> refined_dispatch ustep adapt (RScalar n) m = m) /\
  (forall n m, (0 <= n)%Z ->
     refined_dispatch ustep adapt (RScalar (n + 1)) m = ustep (refined_dispatch ustep adapt (RScalar n) m)) /\
  (forall a b m, (0 <= a)%Z -> (0 <= b)%Z ->
     refined_dispatch ustep adapt (RScalar (a + b)) m
     = refined_dispatch ustep adapt (RScalar b) (refined_dispatch ustep adapt (RScalar a) m)) /\
  (forall ix m, refined_dispatch ustep adapt (RIndex ix) m = adapt ix m) /\
  (forall mask m, refined_dispatch ustep adapt (RMask mask) m = adapt (nonzero mask) m /\
                  forall k, In k (nonzero mask) <-> nth k mask false = true).
Proof.
  intros M ustep adapt. split; [intros [n|ix|b] m; reflexivity|].
  split; [exact (refined_scalar_nonpos ustep adapt)|]. split; [exact (refined_scalar_succ ustep adapt)|].
  split; [exact (refined_scalar_add ustep adapt)|]. split; [exact (refined_index ustep adapt)|].
  intros mask m. split; [reflexivity | apply nonzero_spec].
Qed.
Print Assumptions C12_refined_dispatch.

(* second-order classes: MeshTri2 / MeshQuad2 / MeshHex2 refine through from_mesh (tags dropped) and Mesh.refined re-creates the
   subdomains with the generic fallback, MeshTet2 (after N1) refines as MeshTet1 carrying the subdomains: in every case the
   index map in force is the position of the children of the linear class (C12_*_children above) *)
Theorem C12_second_order_subdomain_children :
  (forall nt j k, gen_tri2_submap nt j k = fallback_index nt j k) /\
  (forall nt j k, gen_quad2_submap nt j k = fallback_index nt j k) /\
  (forall nt j k, gen_hex2_submap nt j k = fallback_index nt j k) /\
  (forall cls j k, nth k cls 0 < 3 -> gen_tet2_submap cls j k = tet_child_index cls j k).
Proof. repeat split; try reflexivity. exact tet_submap_ok. Qed.
Print Assumptions C12_second_order_subdomain_children.

(* non-vacuity: the unit square of two triangles, refined by the model *)
Example C12_instance :
  let tb := {| tb_t := [[0; 1; 2]; [1; 2; 3]]; tb_edges := []; tb_facets := [[0; 1]; [0; 2]; [1; 2]; [1; 3]; [2; 3]];
               tb_t2e := []; tb_t2f := [[0; 2; 1]; [2; 4; 3]] |} in
  snd (uniform_block tri_spec 2 [[0; 0]; [1; 0]; [0; 1]; [1; 1]]%Q tb)
  = [[0; 4; 5]; [1; 6; 7]; [1; 4; 6]; [2; 6; 8]; [2; 5; 6]; [3; 7; 8]; [4; 6; 5]; [6; 8; 7]].
Proof. vm_compute. reflexivity. Qed.
Print Assumptions C12_instance.

(* ---------------------------------------------------------------------------------------------
   MeshLine1 (kept last: refuted on a tree where the generic fallback is applied to the interleaved
   children of MeshLine1._uniform — defect F3): the index map in force for segments addresses child j
   of cell k. *)
Theorem C12_line_children : forall p tb j k, j < 2 -> k < length (tb_t tb) ->
  length (snd (uniform_line line_spec p tb)) = 2 * length (tb_t tb) /\
  nth (gen_line_submap (length (tb_t tb)) j k) (snd (uniform_line line_spec p tb)) []
  = child (offs_of line_spec p tb) (cell_ctx tb k) (nth j gen_line_templates []).
Proof.
  intros p tb j k Hj Hk. split.
  - exact (proj1 (uniform_line_children line_spec p tb j k Hj Hk)).
  - exact (uniform_line_children_via gen_line_submap (fun nt j k => eq_refl) line_spec p tb j k eq_refl Hj Hk).
Qed.
Print Assumptions C12_line_children.
