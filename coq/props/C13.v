(* C13 — Adaptive refinement: conforming, domain-preserving for every marked set.
   Statements only.  Proofs: Proofs.C13_AdaptiveProofs (every mesh, every marked set), Dyn.C13Tie (finite
   computations on the closure rule, class masks, child templates and index maps REGENERATED from
   MeshTri1._adaptive*, MeshLine1._adaptive, MeshTet1._adaptive).
   [t2f] is the facet table of the re-ordered mesh, whatever edge _adaptive_sort_mesh placed at slot 2:
   the theorems hold for EVERY such table, so the float comparisons of edge lengths are irrelevant. *)
From Coq Require Import List Arith Bool ZArith QArith.
Import ListNotations.
Require Import Base.C11_Unique Model.C11_Topo Proofs.C11_TopoProofs.
Require Import Model.C12_Refine Model.C12_Geom Model.C13_Adaptive Model.C12_Global Model.C13_TetLoop.
Require Import Proofs.C12_RefineProofs Proofs.C12_GeomProofs Proofs.C13_AdaptiveProofs Proofs.C12_GlobalProofs Proofs.C13_TetLoopProofs Proofs.C12_InvProofs Proofs.C13_InvProofs.
Require Import Gen.C13Gen Dyn.C13Tie.
Local Open Scope nat_scope.

(* closure_terminates: for every facet table, every number of facets and every marked set the loop of
   _adaptive_find_facets stops with fuel to spare (nfacets + 1 sweeps) at the LEAST marking that contains
   the facets of the marked cells and is stable under "facet 0 or 1 marked => facet 2 marked" *)
Theorem C13_closure_terminates : forall nf t2f marked,
  exists R, find_facets gen_rule_srcs gen_rule_dst nf t2f marked = Some R /\ length R = nf /\
            le_marks (init_marks nf t2f marked) R /\ sweep gen_rule_srcs gen_rule_dst t2f R = R /\
            forall G, length G = nf -> le_marks (init_marks nf t2f marked) G ->
                      le_marks (sweep gen_rule_srcs gen_rule_dst t2f G) G -> le_marks R G.
Proof. exact (find_facets_spec gen_rule_srcs gen_rule_dst). Qed.
Print Assumptions C13_closure_terminates.

(* patterns_exhaustive: after the closure every cell is exactly one of rest / red / blue1 / blue2 / green
   (first matching mask; the masks are pairwise different patterns), so no cell is dropped by the masks *)
Theorem C13_patterns_exhaustive : forall t2f R c,
  sweep gen_rule_srcs gen_rule_dst t2f R = R -> In c t2f -> length c = 3 -> nth gen_rule_dst c 0 < length R ->
  class_of pats (pattern R c) < length pats.
Proof.
  intros t2f R c. exact (patterns_exhaustive gen_rule_srcs gen_rule_dst pats t2f R c patterns_cover
                           (proj1 rule_in_range) (proj2 rule_in_range)).
Qed.
Print Assumptions C13_patterns_exhaustive.

(* every marked cell is subdivided: all its facets are marked after the closure, and that class has >= 2
   (in fact 4) children; a cell none of whose facets is marked is copied unchanged *)
Theorem C13_marked_cells_are_subdivided : forall nf t2f marked R k,
  find_facets gen_rule_srcs gen_rule_dst nf t2f marked = Some R -> In k marked ->
  (forall f, In f (nth k t2f []) -> f < nf) -> length (nth k t2f []) = 3 ->
  pattern R (nth k t2f []) = [true; true; true] /\
  2 <= class_size gen_split_blocks (class_of pats [true; true; true]) /\
  snd (nth (class_of pats [false; false; false]) gen_split_blocks ([], [])) = [[NV 0; NV 1; NV 2]].
Proof.
  intros nf t2f marked R k HR Hk Hr Hl. split; [|split; [exact fully_marked_is_split | exact untouched_is_copied]].
  rewrite (marked_cell_all_marked _ _ _ _ _ _ _ HR Hk Hr).
  destruct (nth k t2f []) as [|a [|b [|c [|]]]]; try discriminate. reflexivity.
Qed.
Print Assumptions C13_marked_cells_are_subdivided.

(* no cell lost or duplicated: the child produced from cell k by row j of its class sits at the position
   given by the library's subdomain map new_t (offsets accumulated over rest, red, blue1, blue2, green), and its
   vertices are the template's node references resolved in cell k *)
Theorem C13_children_positions : forall p tb F k j,
  let s := split_elements gen_split_blocks p tb F in
  let c := nth k (as_cls s) 0 in
  k < length (tb_t tb) -> c < length gen_split_blocks -> j < class_size gen_split_blocks c ->
  nth (gen_split_submap (count_cls (as_cls s)) c j (rank_in_cls (as_cls s) k)) (as_t s) []
  = child_a F (length p) (cell_ctx tb k) (snd (nth (class_start gen_split_blocks c + j) flat (0, []))).
Proof.
  intros p tb F k j s c Hk Hc Hj.
  destruct (split_submap_ok (as_cls s) k j Hc Hj) as [E1 [E2 E3]].
  unfold c. rewrite E1. apply split_children; [exact E3 | exact Hk | exact E2].
Qed.
Print Assumptions C13_children_positions.

(* no cell lost or duplicated: exactly class_size children per cell (1 / 4 / 3 / 3 / 2) *)
Theorem C13_cell_count : forall p tb F,
  let s := split_elements gen_split_blocks p tb F in
  length (as_t s)
  = list_sum (map (fun c => class_size gen_split_blocks c * count_cls (as_cls s) c) (seq 0 (length gen_split_blocks))).
Proof.
  intros p tb F s. unfold s, split_elements. cbn [as_t as_cls]. apply split_cell_count. apply map_length.
Qed.
Print Assumptions C13_cell_count.

(* adaptive_subdomains: the propagated tag np.setdiff1d(np.unique(new_t[:, ixs]), [-1]) is exactly the set of the
   children (positions as in C13_children_positions) of the tagged cells *)
Theorem C13_adaptive_subdomains : forall cls ixs c,
  In c (propagate_adaptive gen_split_blocks gen_split_submap cls ixs) <->
  exists k j, In k ixs /\ j < class_size gen_split_blocks (nth k cls 0) /\
              c = gen_split_submap (count_cls cls) (nth k cls 0) j (rank_in_cls cls k).
Proof. exact (propagate_adaptive_spec gen_split_blocks gen_split_submap). Qed.
Print Assumptions C13_adaptive_subdomains.

(* the propagated tag consists of the children listed above (set semantics of
   setdiff1d(unique(new_t[:, ixs]), [-1]) are those of the sorted, de-duplicated list) *)
Theorem C13_new_nodes : forall dim p facets F f,
  length F = length facets -> f < length facets -> mk F f = true ->
  nth (node_of F (length p) f) (p ++ new_points dim p facets F) [] = midpoint dim p (nth f facets []).
Proof. exact adaptive_new_node. Qed.
Print Assumptions C13_new_nodes.

(* adaptive_conforming: in every class the children cut each parent facet exactly at the facet's own node iff
   that facet is marked (each piece once) and all other child edges are shared by two children; and the pieces
   left on a facet depend on the facet alone, hence both neighbours agree: no hanging node *)
Theorem C13_adaptive_conforming :
  forallb (fun b => trace_ok gen13_tri_rfacets (fst b) (snd b)) gen_split_blocks = true /\
  forall F nv facets c a,
    let f := nth a (cf c) 0 in let lf := nth a gen13_tri_rfacets [] in
    (nth (nth 0 lf 0) (cv c) 0 = nth 0 (nth f facets []) 0 /\ nth (nth 1 lf 0) (cv c) 0 = nth 1 (nth f facets []) 0) \/
    (nth (nth 0 lf 0) (cv c) 0 = nth 1 (nth f facets []) 0 /\ nth (nth 1 lf 0) (cv c) 0 = nth 0 (nth f facets []) 0) ->
    forall e, In e (resolved_pieces gen13_tri_rfacets F nv c a) <-> In e (facet_trace F nv facets f).
Proof. split; [exact traces_ok | exact (traces_agree gen13_tri_rfacets)]. Qed.
Print Assumptions C13_adaptive_conforming.

(* GLOBAL conformity of the red-green-blue result, with the facet tables of Mesh.build_entities for the re-ordered
   connectivity (C11): for EVERY marking F (in particular the closure) and EVERY cell k containing facet f = {e0, e1} as its
   local facet a, the children of k leave on f the two halves {e0, c}, {c, e1} around the node c = node_of F nv f if f is
   marked and the whole facet {e0, e1} otherwise — a function of f alone, so a facet is split from one side iff it is split
   from the other and at the same node.  With C13_adaptive_conforming (the class of a cell is determined by which of its
   facets are marked, each class cuts exactly its marked facets) no hanging node exists anywhere in the mesh. *)
Theorem C13_global_no_hanging_nodes : forall cells F nv k a,
  Forall (fun c => NoDup c /\ length c = 3) cells -> k < length cells -> a < length gen13_tri_rfacets ->
  let tb := c11_tables cells gen13_tri_rfacets in
  forall e, In e (resolved_pieces gen13_tri_rfacets F nv (cell_ctx tb k) a)
            <-> In e (facet_trace F nv (tb_facets tb) (nth a (cf (cell_ctx tb k)) 0)).
Proof. intros cells F nv k a Hc. exact (global_facet_trace cells gen13_tri_rfacets 3 tri13_rf2_ok Hc F nv k a). Qed.
Print Assumptions C13_global_no_hanging_nodes.

Theorem C13_shared_facet_split_alike : forall cells F nv k1 a1 k2 a2,
  Forall (fun c => NoDup c /\ length c = 3) cells ->
  k1 < length cells -> a1 < length gen13_tri_rfacets -> k2 < length cells -> a2 < length gen13_tri_rfacets ->
  let tb := c11_tables cells gen13_tri_rfacets in
  nth a1 (cf (cell_ctx tb k1)) 0 = nth a2 (cf (cell_ctx tb k2)) 0 ->
  forall e, In e (resolved_pieces gen13_tri_rfacets F nv (cell_ctx tb k1) a1)
            <-> In e (resolved_pieces gen13_tri_rfacets F nv (cell_ctx tb k2) a2).
Proof.
  intros cells F nv k1 a1 k2 a2 Hc. exact (shared_facet_same_pieces cells gen13_tri_rfacets 3 tri13_rf2_ok Hc F nv k1 a1 k2 a2).
Qed.
Print Assumptions C13_shared_facet_split_alike.

(* an adaptive step (ANY re-ordering of the vertices inside the cells, ANY marking of the facets; facet tables of C11) maps a
   mesh whose cells have three pairwise distinct, existing vertices to a mesh with the same property *)
Theorem C13_adaptive_step_keeps_distinct_vertices : forall p cells F,
  cells_ok 3 (length p) cells -> length F = length (entities true cells gen13_tri_rfacets) ->
  let s := split_elements gen_split_blocks p (c11_tables cells gen13_tri_rfacets) F in
  cells_ok 3 (length (as_p s)) (as_t s).
Proof.
  intros p cells F. exact (adaptive_step_ok gen_split_blocks p cells gen13_tri_rfacets F tri13_slots_ok eq_refl split_blocks_ok).
Qed.
Print Assumptions C13_adaptive_step_keeps_distinct_vertices.

(* history: along ANY sequence of uniform steps (any step function with the property proved in C12_uniform_step_keeps_distinct_
   vertices) and adaptive steps the cells keep pairwise distinct vertices, and therefore at EVERY mesh of the history the
   red-green-blue split cuts every facet alike from all cells containing it (C13_global_no_hanging_nodes applies) *)
Theorem C13_history_conforming :
  forall (ustep : list point -> list (list nat) -> list point * list (list nat)),
  (forall p t, cells_ok 3 (length p) t -> cells_ok 3 (length (fst (ustep p t))) (snd (ustep p t))) ->
  forall steps pt, cells_ok 3 (length (fst pt)) (snd pt) ->
  history_valid gen_split_blocks gen13_tri_rfacets ustep steps pt ->
  let r := fold_left (fun pt st => apply_hstep gen_split_blocks gen13_tri_rfacets ustep st pt) steps pt in
  cells_ok 3 (length (fst r)) (snd r) /\
  forall F nv k a, k < length (snd r) -> a < length gen13_tri_rfacets ->
    let tb := c11_tables (snd r) gen13_tri_rfacets in
    forall e, In e (resolved_pieces gen13_tri_rfacets F nv (cell_ctx tb k) a)
              <-> In e (facet_trace F nv (tb_facets tb) (nth a (cf (cell_ctx tb k)) 0)).
Proof.
  intros ustep Hu steps pt H Hv r.
  pose proof (history_cells_ok gen_split_blocks gen13_tri_rfacets ustep tri13_slots_ok eq_refl split_blocks_ok Hu steps pt H Hv) as Hr.
  split; [exact Hr|]. intros F nv k a.
  exact (global_facet_trace (snd r) gen13_tri_rfacets 3 tri13_rf2_ok (cells_ok_distinct _ _ _ Hr) F nv k a).
Qed.
Print Assumptions C13_history_conforming.

(* the children of every class tile the parent, for every parent geometry: convex weights, non-zero
   determinants det(child) = s det(parent) with sum |s| = 1, pairwise separated interiors *)
Theorem C13_tri_children_tile_parent : forall b, In b gen_split_blocks ->
  (forall tpl, In tpl (snd b) ->
     convex_rows (triW tpl) /\
     exists s, tri_child_check (triW tpl) = Some s /\ ~ (s == 0)%Q /\
       forall x0 x1 x2 y0 y1 y2 : Q,
         (tri_det_l (comb (triW tpl) [x0; x1; x2]) (comb (triW tpl) [y0; y1; y2]) == s * tri_det x0 y0 x1 y1 x2 y2)%Q) /\
  (fold_right (fun d acc => match d with Some s => (Qabs' s + acc)%Q | None => acc end) 0%Q (tri_dets triW (snd b)) == 1)%Q /\
  all_pairs_ok (fun a b' => separable 3 (triW a) (triW b')) (snd b) = true.
Proof.
  intros b Hb. pose proof tiles_ok as H. rewrite forallb_forall in H. exact (tri_tiles_sound triW (snd b) (H b Hb)).
Qed.
Print Assumptions C13_tri_children_tile_parent.

(* the same with the measure-theoretic step as an explicit hypothesis: under the tiling principle the children of every class
   (rest / red / blue1 / blue2 / green) cover their parent, and the two children of a tetrahedral bisection cover theirs *)
Theorem C13_children_tile_parent_given_principle :
  (forall Covers, tri_tiling_principle Covers -> forall b, In b gen_split_blocks -> Covers (map triW (snd b))) /\
  (forall Covers, tet_tiling_principle Covers -> Covers (map tetW gen_tet_bisect)).
Proof.
  split.
  - intros Covers HP b Hb. pose proof tiles_ok as H. rewrite forallb_forall in H.
    exact (tri_tiles_cover Covers triW (snd b) HP (H b Hb)).
  - intros Covers HP. exact (tet_tiles_cover Covers tetW gen_tet_bisect HP tet_bisect_ok).
Qed.
Print Assumptions C13_children_tile_parent_given_principle.

(* tetrahedra (partial): ONE longest-edge bisection tiles its parent; the work-list loop is not proved *)
Theorem C13_tet_bisection_tiles_parent_partial :
  (forall tpl, In tpl gen_tet_bisect ->
     convex_rows (tetW tpl) /\
     exists s, tet_child_check (tetW tpl) = Some s /\ ~ (s == 0)%Q /\
       forall x0 x1 x2 x3 y0 y1 y2 y3 z0 z1 z2 z3 : Q,
         (tet_det_l (comb (tetW tpl) [x0; x1; x2; x3]) (comb (tetW tpl) [y0; y1; y2; y3]) (comb (tetW tpl) [z0; z1; z2; z3])
          == s * tet_det x0 y0 z0 x1 y1 z1 x2 y2 z2 x3 y3 z3)%Q) /\
  (fold_right (fun d acc => match d with Some s => (Qabs' s + acc)%Q | None => acc end) 0%Q (tet_dets tetW gen_tet_bisect) == 1)%Q /\
  all_pairs_ok (fun a b => separable 4 (tetW a) (tetW b)) gen_tet_bisect = true.
Proof. exact (tet_tiles_sound tetW gen_tet_bisect tet_bisect_ok). Qed.
Print Assumptions C13_tet_bisection_tiles_parent_partial.
(* the work-list loop of MeshTet1._adaptive (model corresponded exactly with the real loop on ALL marked subsets of small meshes;
   the re-ordering by _adaptive_sort_mesh is an arbitrary input).  Invariants of one sweep, for every state, every work list and
   every re-ordering: one cell is appended per marked cell, it is the second child of the bisection of the re-ordered cell
   along its edge (0,1); the parent array keeps its old entries and the appended cell inherits the parent of the cell it was cut
   from (subdomain propagation of fix 4dd9939); old vertices keep index and position and every new node is a midpoint of two
   old points; the next work list is exactly the set of cells containing both end points of a split edge. *)
Theorem C13_tet_sweep_invariants : forall tpls st marked perm, length perm = length marked ->
  let st' := tet_iter tpls st marked perm in
  length (ts_t st') = length (ts_t st) + length marked /\
  length (ts_par st') = length (ts_par st) + length marked /\
  (forall k, (k < length (ts_par st) -> nth k (ts_par st') 0 = nth k (ts_par st) 0) /\
             (k < length marked -> nth (length (ts_par st) + k) (ts_par st') 0 = nth (nth k marked 0) (ts_par st) 0)) /\
  firstn (length (ts_p st)) (ts_p st') = ts_p st /\
  (forall q, In q (skipn (length (ts_p st)) (ts_p st')) -> exists a b, q = midpoint 3 (ts_p st) [a; b]) /\
  (forall i, i < length marked ->
     exists m, nth (length (ts_t st) + i) (ts_t st') [] = bis_child (nth i perm []) m (nth 1 tpls [])).
Proof.
  intros tpls st marked perm Hp st'.
  split; [exact (tet_iter_cells tpls st marked perm Hp)|].
  split; [first [exact (tet_iter_parent_length tpls st marked perm Hp) | exact (tet_iter_parent_length tpls st marked perm)]|].
  split; [first [exact (tet_iter_parent tpls st marked perm Hp) | exact (tet_iter_parent tpls st marked perm)]|].
  split; [first [exact (tet_iter_old_vertices tpls st marked perm Hp) | exact (tet_iter_old_vertices tpls st marked perm)]|].
  split; [first [exact (tet_iter_new_nodes tpls st marked perm Hp) | exact (tet_iter_new_nodes tpls st marked perm)]
         | exact (tet_iter_appended_child tpls st marked perm Hp)].
Qed.
Print Assumptions C13_tet_sweep_invariants.

Theorem C13_tet_worklist_from_incidence : forall st k,
  In k (nonconforming st) <->
  k < length (ts_t st) /\ exists a b m, In (a, b, m) (ts_sp st) /\ In a (nth k (ts_t st) []) /\ In b (nth k (ts_t st) []).
Proof. exact nonconforming_spec. Qed.
Print Assumptions C13_tet_worklist_from_incidence.

(* full statement (NOT proved): for every tetrahedral mesh and marked set the loop of MeshTet1._adaptive
   terminates with a conforming mesh in which every marked cell is bisected. *)

(* _adaptive_sort_mesh only permutes the vertices of a cell (same triangle) and puts the selected edge at (0,2) *)
Theorem C13_sort_is_permutation :
  forallb is_perm3 gen_sort_perms = true /\
  forallb (fun pe => let '(perm, (a, b)) := pe in
                     let x := nth 0 perm 0 in let y := nth 2 perm 0 in
                     (Nat.eqb x a && Nat.eqb y b) || (Nat.eqb x b && Nat.eqb y a))
          (combine (tl gen_sort_perms) gen_sort_edges) = true.
Proof. split; [exact sort_perms_ok | exact (proj1 sort_moves_edge)]. Qed.
Print Assumptions C13_sort_is_permutation.

(* segments: an unmarked cell is kept (the bisection of marked cells is the last-but-one theorem of this file) *)
Theorem C13_line_unmarked_kept : forall base p t marked k,
  k < length t -> index_of k marked = None ->
  match line_children (length t) marked k with
  | [c] => nth c (snd (line_adaptive base p t marked)) [] = nth k t []
  | _ => False
  end.
Proof. exact line_adaptive_unmarked. Qed.
Print Assumptions C13_line_unmarked_kept.

(* histories: through ANY sequence of uniform and adaptive steps (whatever tables and markings the steps use) the
   vertices of the initial mesh keep index and position *)
Theorem C13_history_old_vertices : forall steps p, firstn (length p) (fold_left apply_rstep steps p) = p.
Proof. exact history_old_vertices. Qed.
Print Assumptions C13_history_old_vertices.

(* second-order classes (after N1): MeshTri2._adaptive and MeshTet2._adaptive refine the vertex mesh as MeshTri1 / MeshTet1
   WITH the subdomains and copy them back, so vertices, connectivity and subdomains of the result are those of the
   linear class (all theorems above apply verbatim); refuted if a class goes through from_mesh alone *)
Theorem C13_second_order_refines_as_linear : forall (M : Type) (lin drop : M -> M) (m : M),
  refine_second gen_tri2_adaptive_via lin drop m = lin m /\ refine_second gen_tet2_adaptive_via lin drop m = lin m.
Proof. intros M lin drop m. split; reflexivity. Qed.
Print Assumptions C13_second_order_refines_as_linear.

(* utils.adaptive_theta (the marking helper): the selection read from the source is the model's; it is an index LIST (one-
   dimensional whatever the number of hits, also for exactly one hit), strictly increasing, and consists exactly of the cells
   whose estimate exceeds theta * max *)
Theorem C13_adaptive_theta : forall est theta mx,
  gen_theta_select est theta mx = theta_select est theta mx /\
  (forall k, In k (theta_select est theta mx) <->
             k < length est /\ (theta * match mx with Some v => v | None => qmax est end < nth k est 0%Q)%Q) /\
  NoDup (theta_select est theta mx) /\
  forall a b, a < b < length (theta_select est theta mx) -> nth a (theta_select est theta mx) 0 < nth b (theta_select est theta mx) 0.
Proof.
  intros est theta mx. split; [reflexivity|]. split; [intros k; apply theta_select_spec|]. apply theta_select_sorted.
Qed.
Print Assumptions C13_adaptive_theta.

(* non-vacuity: two triangles sharing facet 2 (their slot-2 facet); marking cell 0 makes cell 0 red and the
   closure marks nothing else of cell 1 than the shared facet: cell 1 is green *)
Example C13_instance :
  let t2f := [[0; 1; 2]; [3; 4; 2]] in
  find_facets gen_rule_srcs gen_rule_dst 5 t2f [0] = Some [true; true; true; false; false] /\
  map (fun c => class_of pats (pattern [true; true; true; false; false] c)) t2f = [1; 4].
Proof. vm_compute. split; reflexivity. Qed.
Print Assumptions C13_instance.

(* segments (refuted on a tree where the midpoints are numbered from np.max(t) + 1 instead of p.shape[1] — defect N50: wrong as
   soon as the point array has unused trailing points): a marked cell is replaced by its two halves meeting at a new vertex that
   carries the cell's midpoint, for EVERY point array and connectivity *)
Theorem C13_line_bisection : forall p t marked k i,
  index_of k marked = Some i ->
  let nn := length (nonmarked (length t) marked) in
  let r := line_adaptive (gen_line_mid_base p t) p t marked in
  let mid := gen_line_mid_base p t + i in
  nth (nn + i) (snd r) [] = [nth 0 (nth k t []) 0; mid] /\
  nth (nn + length marked + i) (snd r) [] = [mid; nth 1 (nth k t []) 0] /\
  nth mid (fst r) [] = ent_mean 1 p (nth k t []).
Proof.
  intros p t marked k i Hi.
  destruct (line_adaptive_marked (gen_line_mid_base p t) p t marked k i Hi) as [H1 [H2 H3]].
  split; [exact H1 | split; [exact H2 | exact (H3 eq_refl)]].
Qed.
Print Assumptions C13_line_bisection.

(* kept last — refuted on a tree where MeshLine1._adaptive keeps the old subdomain dictionary (defect F4):
   the subdomain map in force for segments lists exactly the cells that replace cell k *)
Theorem C13_line_subdomain_children : forall nt marked k,
  gen_line_adapt_children nt marked k = line_children nt marked k.
Proof. exact line_children_alt. Qed.
Print Assumptions C13_line_subdomain_children.
