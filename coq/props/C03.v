(* C03 — discrete functions are continuous in the sense of the element.
   (b) both neighbours use a shared entity in the same direction / with consistent signs,
   (c) the trace on a facet slot depends only on the functions attached to the closure of the slot and is the
       same list of facet functions for every slot.
   Only statements.  Polynomials: the real lbasis run on symbolic coordinates (Gen.C09_E_<refdom>, Gen.C03_T_<refdom>);
   orientation expressions, sort flags, refdom tables, Piola einsum: Gen.C03_Gen; ties: Dyn.C03Tie. *)
From Coq Require Import List Arith ZArith QArith Bool Ring_theory Setoid Sorted Permutation Lia.
Import ListNotations.
Require Import Base.C09_Poly Base.C09_PolyQ Model.C09_Elem Proofs.C09_ElemProofs.
Require Import Model.C03_Trace Model.C03_Orient Proofs.C03_TraceProofs Proofs.C03_OrientProofs.
Require Import Gen.C03_Gen Gen.C03_Traces Dyn.C03Tie.

(* (c) trace lemma, for every conforming translated element class, every facet slot of the reference cell,
   every local basis function, EVERY point of the facet (parameter value) in every commutative ring over Q:
   - a function NOT attached to the closure of the slot has zero trace (value for H1, phi.N for H(div),
     phi.tau_k for H(curl), N^T phi N for the matrix elements),
   - the m-th attached function restricts to sign * psi_m with ONE list psi of facet functions for all slots
     (sign = +-1 recorded per slot and position).                                   [slot_spec in C03_TraceProofs] *)
Theorem C03_trace_lemma :
  forall (R : Type) (rO rI : R) (radd rmul rsub : R -> R -> R) (ropp : R -> R) (req : R -> R -> Prop) (phi : Q -> R),
    Equivalence req -> ring_eq_ext radd rmul ropp req -> ring_theory rO rI radd rmul rsub ropp req ->
    ring_morph rO rI radd rmul rsub ropp req 0%Q 1%Q Qplus Qmult Qminus Qopp Qeq_bool phi ->
    forall t, In t traced_elements -> telem_traces_spec R rO rI radd rmul req phi t.
Proof.
  intros R rO rI radd rmul rsub ropp req phi H1 H2 H3 H4 t Ht.
  apply (traces_ok_sound R rO rI radd rmul rsub ropp req phi H1 H2 H3 H4).
  exact (proj1 (Forall_forall _ _) all_traces_ok t Ht).
Qed.
Print Assumptions C03_trace_lemma.

(* H1 family: all signs are +1 and the facet functions are invariant under every symmetry g of the reference
   facet that two neighbouring cells can differ by (triangles: identity, because cells are sorted; quadrilaterals:
   reversal; tetrahedra: the 6 permutations of the face; hexahedra: the 8 symmetries of the square face):
   psi_m o g = psi_(perm_g m), perm_g the permutation the global numbering induces.  Hence the one-sided traces
   of any coefficient vector coincide whatever admissible local order the two cells have. *)
Theorem C03_h1_facet_functions_symmetric :
  forall (R : Type) (rO rI : R) (radd rmul rsub : R -> R -> R) (ropp : R -> R) (req : R -> R -> Prop) (phi : Q -> R),
    Equivalence req -> ring_eq_ext radd rmul ropp req -> ring_theory rO rI radd rmul rsub ropp req ->
    ring_morph rO rI radd rmul rsub ropp req 0%Q 1%Q Qplus Qmult Qminus Qopp Qeq_bool phi ->
    forall t, In t h1_symmetric_elements -> telem_syms_spec R rO rI radd rmul req phi t.
Proof.
  intros R rO rI radd rmul rsub ropp req phi H1 H2 H3 H4 t Ht.
  apply (telem_syms_ok_sound R rO rI radd rmul rsub ropp req phi H1 H2 H3 H4).
  exact (proj1 (Forall_forall _ _) h1_syms_ok t Ht).
Qed.
Print Assumptions C03_h1_facet_functions_symmetric.

(* H(div) / H(curl) / HHJ families: the sign of the attached functions relative to the facet functions does not
   depend on the slot — what ElementHdiv.orient / ElementHcurl.orient assume *)
Theorem C03_vector_slot_signs_uniform :
  forall t, In t vector_uniform_elements ->
    forall s1 s2, In s1 (t_slots t) -> In s2 (t_slots t) -> Forall2 Qeq (s_signs s1) (s_signs s2).
Proof.
  intros t Ht. apply signs_uniform_sound. exact (proj1 (Forall_forall _ _) vector_signs_ok t Ht).
Qed.
Print Assumptions C03_vector_slot_signs_uniform.

(* known findings, stated as refutations (the lists are empty unless known_findings.txt names the element) *)
Theorem C03_known_h1_symmetry_refuted : forall t, In t h1_symmetry_refuted -> telem_syms_ok t = false.
Proof. exact (proj1 (Forall_forall _ _) h1_syms_refuted). Qed.
Print Assumptions C03_known_h1_symmetry_refuted.
Theorem C03_known_vector_signs_refuted : forall t, In t vector_uniform_refuted -> signs_uniform (t_slots t) = false.
Proof. exact (proj1 (Forall_forall _ _) vector_signs_refuted). Qed.
Print Assumptions C03_known_vector_signs_refuted.

(* F9 on the Coq side (generated only while known_findings.txt lists key elem=ElementQuadP(p>=3):value-jump, p <= 5):
   two quadrilaterals sharing an edge, the second one listed with a cyclic shift — e.g. cells [0,1,4,3] and [4,1,2,5]
   (= [1,2,5,4] shifted) of the 2 x 1 grid p = [[0,1,2,0,1,2],[0,0,0,1,1,1]]: the shared edge {1,4} is local facet 1 =
   [1,2] of the first cell (local coordinate increasing 1 -> 4) and local facet 0 = [0,1] of the second (increasing
   4 -> 1).  gid / grev are the identity and s |-> 1 - s with the induced permutation of the edge's
   DOFs (vertices swapped, edge DOFs kept, as the global numbering identifies them) — checked by shift_jump_check.
   There EXIST a coefficient vector and a point of the edge (with values of the formal scales) at which the two
   one-sided traces differ: the discrete function is discontinuous.  ElementQuadP(1), ElementQuadP(2) are in
   traced_elements and h1_symmetric_elements: for them (and every other H1 class) continuity is the positive theorem. *)
Theorem C03_quadp_shift_refuted :
  forall t gid grev coef pt, In (t, (gid, grev, coef, pt)) quadp_shift_refuted ->
    exists (c x : list Q),
      is_reversal_perm (y_perm grev) = true /\ peqb (nthp (y_map grev) 0) (psub (pconst 1) (pvar 0)) = true /\
      ~ qeval (shift_jump t 1 0 gid grev c) (lpt x) == 0.
Proof.
  intros t gid grev coef pt Hin. exists coef, pt.
  pose proof (proj1 (Forall_forall _ _) quadp_shift_refuted_ok _ Hin) as H. cbv beta iota in H.
  unfold shift_refuted_ok, shift_jump_check in H.
  repeat (apply andb_true_iff in H; destruct H as [H ?]).
  split; [assumption|]. split; [assumption|].
  intros E. apply Qeq_bool_iff in E. rewrite E in *. discriminate.
Qed.
Print Assumptions C03_quadp_shift_refuted.

(* (b) sorted cells: MeshTri1 sorts every column of t (T2: sort_t = True, __post_init__ starts with the sort); for
   every cell with pairwise distinct vertices the sorted column is strictly ascending and keeps the vertices, every
   local facet of RefTri (T1) then has strictly ascending global vertices ... *)
Theorem C03_sorted_cell_facets_ascending :
  forall col f, NoDup col -> length col = gen_RefTri_nnodes -> In f gen_RefTri_facets ->
    let t := gen_post_init_column gen_sort_t_MeshTri1 col in
    Permutation t col /\ StronglySorted lt (entity_vertices t f).
Proof.
  intros col f Hnd Hlen Hf t. unfold t. rewrite tie_post_init_sorts.
  destruct (sort_col_strict col Hnd) as [Hs Hp]. split; [exact Hp|].
  pose proof tie_tri_facets_ascending as Ht. unfold table_ascending in Ht. rewrite forallb_forall in Ht.
  specialize (Ht f Hf). apply andb_true_iff in Ht. destruct Ht as [Ha Hb].
  apply entity_vertices_ascending; [exact Hs | exact Ha|].
  rewrite (Permutation_length Hp), Hlen. exact Hb.
Qed.
Print Assumptions C03_sorted_cell_facets_ascending.

(* ... hence two cells sharing a facet (same set of global vertices) list its vertices in the same order: both
   traverse the facet in the same direction, whatever the global numbering and the order the caller gave *)
Theorem C03_tri_shared_facet_same_direction :
  forall col1 col2 f1 f2, NoDup col1 -> NoDup col2 ->
    length col1 = gen_RefTri_nnodes -> length col2 = gen_RefTri_nnodes ->
    In f1 gen_RefTri_facets -> In f2 gen_RefTri_facets ->
    let t1 := gen_post_init_column gen_sort_t_MeshTri1 col1 in
    let t2 := gen_post_init_column gen_sort_t_MeshTri1 col2 in
    Permutation (entity_vertices t1 f1) (entity_vertices t2 f2) ->
    entity_vertices t1 f1 = entity_vertices t2 f2.
Proof.
  intros col1 col2 f1 f2 Hn1 Hn2 Hl1 Hl2 Hf1 Hf2 t1 t2 Hp.
  destruct (C03_sorted_cell_facets_ascending col1 f1 Hn1 Hl1 Hf1) as [_ S1].
  destruct (C03_sorted_cell_facets_ascending col2 f2 Hn2 Hl2 Hf2) as [_ S2].
  apply sorted_lt_perm_eq; assumption.
Qed.
Print Assumptions C03_tri_shared_facet_same_direction.

(* on a sorted triangle mesh every H(curl) orientation sign is +1: the local facet [i,j] of a sorted cell has
   t[i] < t[j] (theorem above), and the regenerated expression gives +1 for a < b *)
Theorem C03_sorted_cells_orientation_plus :
  forall col f a b, NoDup col -> length col = gen_RefTri_nnodes -> In f gen_RefTri_facets ->
    entity_vertices (gen_post_init_column gen_sort_t_MeshTri1 col) f = [a; b] ->
    gen_hcurl_ori (Z.of_nat a) (Z.of_nat b) = 1%Z.
Proof.
  intros col f a b Hnd Hl Hf He. apply tie_sorted_ori_plus.
  destruct (C03_sorted_cell_facets_ascending col f Hnd Hl Hf) as [_ Hs]. rewrite He in Hs.
  inversion Hs as [|? ? _ Hall]; subst. inversion Hall; subst. lia.
Qed.
Print Assumptions C03_sorted_cells_orientation_plus.

(* ElementTriN3 has its own gbasis that re-labels and negates the edge functions depending on the orientation sign.
   effective_bases lists (regenerated element, table, effective element): the table [(sign_i, idx_i)] is MEASURED on the
   real gbasis for every local index (stub mapping with identity Jacobian, orientation +1, tagged lbasis: exhaustive,
   15 indices) and eff_matches checks that the effective element's polynomials are sign_i * lbasis(idx_i), value and
   curl.  The effective element for orientation +1 (= every sorted triangle mesh, theorem above) is a member of
   traced_elements and vector_uniform_elements: its tangential traces obey the trace lemma with slot-independent
   signs, exactly like ElementTriN2, hence the three edge functions are single valued across every interior facet. *)
Theorem C03_effective_bases_as_measured : forall x, In x effective_bases -> eff_matches x = true.
Proof. exact (proj1 (Forall_forall _ _) effective_bases_ok). Qed.
Print Assumptions C03_effective_bases_as_measured.

(* H(curl): the generated orientation sign turns every local edge (a, b) into the pair (min, max): the oriented
   tangential DOF refers to the direction "smaller to larger global vertex" from EVERY cell, 2-D facets and 3-D
   edges alike; with a slot-independent sign of phi.tau (theorem above) the tangential trace is single valued,
   and a slot-dependent sign makes it jump *)
Theorem C03_hcurl_orientation :
  (forall a b : Z, a <> b ->
     (gen_hcurl_ori a b = 1 \/ gen_hcurl_ori a b = -1)%Z /\
     oriented_pair (gen_hcurl_ori a b) a b = (Z.min a b, Z.max a b) /\
     (gen_hcurl_ori b a = - gen_hcurl_ori a b)%Z) /\
  (forall a b sA sB : Z, a <> b ->
     (gen_hcurl_ori a b * sA * dirZ a b = sA)%Z /\
     (sA = sB -> gen_hcurl_ori a b * sA * dirZ a b = gen_hcurl_ori b a * sB * dirZ b a)%Z /\
     (sA = sB -> gen_hcurl_ori a b * sA * dirZ a b = gen_hcurl_ori a b * sB * dirZ a b)%Z /\
     (sA = - sB -> sB <> 0 -> gen_hcurl_ori a b * sA * dirZ a b <> gen_hcurl_ori b a * sB * dirZ b a)%Z).
Proof.
  split.
  - intros a b Hab. destruct (tie_hcurl_ori a b Hab) as [H1 [H2 [_ H4]]]. repeat split; assumption.
  - exact (hcurl_single_valued gen_hcurl_ori tie_hcurl_ori).
Qed.
Print Assumptions C03_hcurl_orientation.

(* H(div): for an interior facet with f2t = (c0, c1), c0 <> c1, the first cell gets +1 and the second -1 (their
   outward normal fluxes cancel); a boundary facet has only its first cell: +1 *)
Theorem C03_hdiv_orientation :
  forall c0 c1 : Z, c0 <> c1 ->
    gen_hdiv_ori c0 c0 = 1%Z /\ gen_hdiv_ori c0 c1 = (-1)%Z /\ (gen_hdiv_ori c0 c0 + gen_hdiv_ori c0 c1 = 0)%Z.
Proof. exact tie_hdiv_ori. Qed.
Print Assumptions C03_hdiv_orientation.

(* Piola flux identity on the GENERATED contravariant value (einsum of element_hdiv.py): for every A with
   B A = I, (A phi s) . (B^T n) = s (phi . n): with s = orient/|det| and the physical area-weighted normal
   |det| A^-T n the flux of the mapped function through the mapped facet is orient * (reference flux) *)
Theorem C03_piola_flux :
  (forall (A B : nat -> nat -> Q) (p n : nat -> Q) (s : Q),
    B 0%nat 0%nat * A 0%nat 0%nat + B 0%nat 1%nat * A 1%nat 0%nat == 1 -> B 0%nat 0%nat * A 0%nat 1%nat + B 0%nat 1%nat * A 1%nat 1%nat == 0 ->
    B 1%nat 0%nat * A 0%nat 0%nat + B 1%nat 1%nat * A 1%nat 0%nat == 0 -> B 1%nat 0%nat * A 0%nat 1%nat + B 1%nat 1%nat * A 1%nat 1%nat == 1 ->
    gen_hdiv_value2 A p s 0%nat * (B 0%nat 0%nat * n 0%nat + B 1%nat 0%nat * n 1%nat)
    + gen_hdiv_value2 A p s 1%nat * (B 0%nat 1%nat * n 0%nat + B 1%nat 1%nat * n 1%nat)
    == s * (p 0%nat * n 0%nat + p 1%nat * n 1%nat)).
Proof. exact tie_piola_flux2. Qed.
Print Assumptions C03_piola_flux.

(* non-vacuity *)
Example C03_lists_populated :
  (20 <=? length traced_elements)%nat = true /\ (12 <=? length h1_symmetric_elements)%nat = true /\
  (8 <=? length vector_uniform_elements)%nat = true.
Proof. vm_compute. repeat split; reflexivity. Qed.
Print Assumptions C03_lists_populated.

Example C03_sort_instance :
  entity_vertices (gen_post_init_column gen_sort_t_MeshTri1 [7; 2; 5]%nat) [0; 2]%nat = [2; 7]%nat /\
  gen_hcurl_ori 7 2 = (-1)%Z /\ gen_hdiv_ori 4 4 = 1%Z /\ gen_hdiv_ori 4 9 = (-1)%Z.
Proof. vm_compute. repeat split; reflexivity. Qed.
Print Assumptions C03_sort_instance.
