(* C18 — Mesh surgery keeps geometry valid and carries tags to the same entities: the index maps.
   Only statements; proofs live in Proofs.C18_SurgeryProofs, the tie to the source in Dyn.C18_Tie.
   gen_* (child templates, reference-cell coordinates, _reix / restrict plumbing) are REGENERATED from
   skfem/mesh/*.py and skfem/refdom.py on every run.  The coordinate transforms of real meshes, the retagging
   of remove_duplicate_nodes, morphed/oriented/trace are covered by correspondence / oracle (vlib/props/c18.py). *)
From Coq Require Import List Arith Bool ZArith Sorted.
Import ListNotations.
Require Import Model.C18_Surgery Proofs.C18_SurgeryProofs Proofs.C18_TilingProofs Gen.C18Gen Dyn.C18_Tie.
Require Proofs.C14_QuadProofs.   (* group I: the diagonal split of a strictly convex quadrilateral tiles it *)

(* reix_spec.  For EVERY index matrix ix (any shape, any numbers) and every point table p:
   (1) the vertex in slot (r, c) of the new connectivity has the coordinates of the vertex in slot (r, c) of ix;
   (2) new indices lie below |uniq| and every index below |uniq| occurs (no unused vertex);
   (3) uniq is strictly increasing and holds exactly the indices in use, and uniq[t'[r][c]] = ix[r][c]
       (the returned map relates new to old numbering);
   (4) the relabelling is strictly monotone on the indices in use. *)
Theorem C18_reix_spec :
  forall (ix : mat nat),
    (forall (P : Type) (d : P) (p : list P) r c, r < length ix -> c < length (nth r ix []) ->
       nth (nth c (nth r (gen_reix_t ix) []) 0) (gen_reix_p d p ix) d = nth (nth c (nth r ix []) 0) p d) /\
    (forall r c, r < length ix -> c < length (nth r ix []) ->
       nth c (nth r (gen_reix_t ix) []) 0 < length (gen_reix_uniq ix) /\
       nth (nth c (nth r (gen_reix_t ix) []) 0) (gen_reix_uniq ix) 0 = nth c (nth r ix []) 0) /\
    (forall k, k < length (gen_reix_uniq ix) ->
       exists r c, r < length ix /\ c < length (nth r ix []) /\ nth c (nth r (gen_reix_t ix) []) 0 = k) /\
    StronglySorted lt (gen_reix_uniq ix) /\ (forall v, In v (gen_reix_uniq ix) <-> In v (concat ix)) /\
    (forall v w, In v (concat ix) -> In w (concat ix) ->
       (v < w <-> nth v (gen_reix_table ix) 0 < nth w (gen_reix_table ix) 0)).
Proof.
  intros ix. rewrite gen_reix_t_is_model, gen_reix_table_is_model.
  change (gen_reix_uniq ix) with (reix_uniq ix).
  split; [intros P d p r c Hr Hc; rewrite gen_reix_p_is_model; exact (reix_geometry ix d p r c Hr Hc)|].
  split.
  { intros r c Hr Hc. split; [exact (reix_range ix r c Hr Hc)|].
    rewrite (reix_t_nth ix r c Hr Hc). exact (proj2 (reix_table_inverse ix _ (in_flat ix r c Hr Hc))). }
  split; [exact (reix_onto ix)|].
  split; [exact (reix_uniq_sorted ix)|].
  split; [exact (reix_uniq_In ix) | exact (reix_table_monotone ix)].
Qed.
Print Assumptions C18_reix_spec.

(* restrict / remove_elements / remove_unused_nodes renumber ALL nodes of the kept elements (first- and second-order
   meshes): with ix = element_dofs[:, elements], local node r of new cell i has the coordinates of local node r of old cell
   elements[i], no node of the new table is unused, and the vertex map returned by restrict lists old numbers of nodes that
   occur in the vertex rows (instance of reix_spec) *)
Theorem C18_restrict_all_nodes :
  forall (P : Type) (d : P) (p : list P) (edofs : mat nat) (elements : list nat) (r i : nat),
    r < length edofs -> i < length elements ->
    let ix := gen_restrict_ix 0 edofs elements in
    nth (nth i (nth r (gen_reix_t ix) []) 0) (gen_reix_p d p ix) d = nth (nth (nth i elements 0) (nth r edofs []) 0) p d.
Proof.
  intros P d p edofs elements r i Hr Hi ix.
  assert (Hrow : nth r ix [] = gather 0 (nth r edofs []) elements).
  { unfold ix, gen_restrict_ix, take_cols. apply (map_nth_in (fun row => gather 0 row elements) edofs r [] []). exact Hr. }
  assert (Hlen : length ix = length edofs) by (unfold ix, gen_restrict_ix, take_cols; apply map_length).
  rewrite gen_reix_t_is_model, gen_reix_p_is_model.
  rewrite (reix_geometry ix d p r i) by (rewrite ?Hlen, ?Hrow; unfold gather; rewrite ?map_length; assumption).
  rewrite Hrow. unfold gather. rewrite (map_nth_in (fun k => nth k (nth r edofs []) 0) elements i 0 0) by exact Hi. reflexivity.
Qed.
Print Assumptions C18_restrict_all_nodes.

(* options of restrict (remove_elements passes none): skip_subdomains = True -> the restricted mesh has NO subdomains and its
   boundaries are remapped as without the option; skip_boundaries = True -> no boundaries, subdomains remapped; both -> neither;
   a kind that is absent stays absent (the value handed over for a skipped kind is None, never the old dictionary) *)
Theorem C18_restrict_options :
  forall (A B : Type) (skip_boundaries skip_subdomains has_b has_s : bool) (new_b : A) (new_s : B),
    let bnd := restrict_option (gen_restrict_keeps_boundaries skip_boundaries skip_subdomains) has_b new_b in
    let sub := restrict_option (gen_restrict_keeps_subdomains skip_boundaries skip_subdomains) has_s new_s in
    (skip_boundaries = true -> bnd = None) /\ (skip_subdomains = true -> sub = None) /\
    (skip_boundaries = false -> has_b = true -> bnd = Some new_b) /\
    (skip_subdomains = false -> has_s = true -> sub = Some new_s) /\
    (has_b = false -> bnd = None) /\ (has_s = false -> sub = None).
Proof.
  intros A B sb ss hb hs nb ns. destruct (gen_restrict_guards sb ss) as [-> ->]. unfold restrict_option.
  destruct sb, ss, hb, hs; simpl; repeat split; intros; try reflexivity; try discriminate.
Qed.
Print Assumptions C18_restrict_options.

(* restrict_subdomains: for every duplicate-free cell list `elements` (ANY order) and every tag, the new tag holds
   exactly the positions i in `elements` of the kept cells that were tagged — new cell i IS old cell elements[i] *)
Theorem C18_restrict_subdomains :
  forall (nt : nat) (elements sub : list nat),
    NoDup elements -> Forall (fun e => e < nt) elements ->
    gen_restrict_subdomain nt elements sub
    = map (fun c => Z.of_nat (index_of c elements)) (intersect1d sub elements) /\
    forall i, In (Z.of_nat i) (gen_restrict_subdomain nt elements sub) <->
              i < length elements /\ In (nth i elements 0) sub.
Proof. intros nt elements sub. rewrite gen_restrict_subdomain_is_model. exact (restrict_subdomain_spec nt elements sub). Qed.
Print Assumptions C18_restrict_subdomains.

(* restrict_boundaries, index level: the new tag lists, in the order of the old one, the rank among the kept facets
   (the facets of the kept cells, increasing) of each tagged facet that is kept; the others disappear *)
Theorem C18_restrict_boundaries_rank :
  forall (nf : nat) (t2f : mat nat) (elements b : list nat),
    Forall (fun f => f < nf) (kept_facets t2f elements) ->
    gen_restrict_boundary nf t2f elements b
    = map (fun f => Z.of_nat (index_of f (kept_facets t2f elements)))
          (filter (fun f => memb f (kept_facets t2f elements)) b).
Proof. intros nf t2f elements b. rewrite gen_restrict_boundary_is_model. exact (restrict_boundary_spec nf t2f elements b). Qed.
Print Assumptions C18_restrict_boundaries_rank.

(* restrict_boundaries, why the rank IS the new facet number: a vertex relabelling that is strictly increasing on
   the vertices in use (the one of _reix is, by C18_reix_spec) preserves the lexicographic order of the facet
   tuples, so any strictly increasing facet table with exactly the relabelled kept facets (what np.unique(axis=1)
   builds for the restricted mesh) lists them in the old order: new facet number i is the relabelled old facet K[i] *)
Theorem C18_restrict_boundaries_order :
  forall (F : mat nat) (K : list nat) (tab : list nat),
    StronglySorted lex_lt F -> StronglySorted lt K -> Forall (fun k => k < length F) K ->
    (forall x y, (exists k, In k K /\ In x (nth k F [])) -> (exists k, In k K /\ In y (nth k F [])) ->
                 x < y -> nth x tab 0 < nth y tab 0) ->
    StronglySorted lex_lt (relabel_facets F K tab) /\
    forall F', StronglySorted lex_lt F' -> (forall c, In c F' <-> In c (relabel_facets F K tab)) ->
               F' = relabel_facets F K tab /\
               forall i, i < length K -> nth i F' [] = map (fun v => nth v tab 0) (nth (nth i K 0) F []).
Proof. exact relabel_facets_order. Qed.
Print Assumptions C18_restrict_boundaries_order.

(* remove_elements keeps exactly the complement, increasing *)
Theorem C18_remove_elements_complement :
  forall (nt : nat) (elements : list nat) (v : nat),
    (In v (gen_remove_kept nt elements) <-> v < nt /\ ~ In v elements) /\
    StronglySorted lt (gen_remove_kept nt elements).
Proof. intros nt elements v. split; [exact (setdiff_range_spec nt elements v) | exact (setdiff_range_sorted nt elements)]. Qed.
Print Assumptions C18_remove_elements_complement.

(* split_spec, index maps (any cell type, any templates): column k + j*nt of the split connectivity is child j of
   parent k and its vertices are the parent's vertices named by the template; a child is tagged iff it is one of
   the children of a tagged parent *)
Theorem C18_split_index_maps :
  (forall (t templates : mat nat) (nt i j k : nat),
     Forall (fun row => length row = nt) t ->
     Forall (fun T => length T = length (nth 0 templates []) /\ Forall (fun r => r < length t) T) templates ->
     i < length (nth 0 templates []) -> j < length templates -> k < nt ->
     nth (k + j * nt) (nth i (split_rows t templates) []) 0 = nth k (nth (nth i (nth j templates []) 0) t []) 0) /\
  (forall nt nchild s c, 0 < nt -> Forall (fun v => v < nt) s ->
     (In c (split_subdomain nt nchild s) <-> c / nt < nchild /\ In (c mod nt) s)) /\
  (* to_meshtri concatenates v + j*nt for exactly j = 0 .. number of children - 1, in both styles *)
  gen_quad_sub_offsets = seq 0 (length gen_quad_split) /\ gen_quad_sub_offsets_x = seq 0 (length gen_quad_split_x).
Proof. split; [exact split_rows_spec|]. split; [exact split_subdomain_spec | exact quad_sub_offsets_are_children]. Qed.
Print Assumptions C18_split_index_maps.

(* split_spec, measure (ring identities on the REGENERATED templates; tiling of strictly convex quadrilaterals by the default
   split: C18_quad_split_tiles below): for every quadrilateral (all coordinates)
   the signed areas of the two children add up to the parent's shoelace area; in style 'x' (coordinates scaled by 4
   so that the centre node is integral) the four children, each taken with the fixed orientation it has in the
   unit square, add up to the parent's area *)
Theorem C18_quad_split_measure :
  (forall v0 v1 v2 v3 : pt2,
     zsum (map (tri_det [v0; v1; v2; v3]) gen_quad_split) = shoelace4 [v0; v1; v2; v3]) /\
  (forall v0 v1 v2 v3 : pt2,
     let s (v : pt2) := (4 * fst v, 4 * snd v)%Z in
     let c := (fst v0 + fst v1 + fst v2 + fst v3, snd v0 + snd v1 + snd v2 + snd v3)%Z in
     let P := [s v0; s v1; s v2; s v3; c] in
     zsum (map (fun T => Z.mul (Z.sgn (tri_det unit_square4 (T ++ [4]))) (tri_det P (T ++ [4]))) gen_quad_split_x)
     = shoelace4 P) /\
  forallb (fun T => negb (Z.eqb (tri_det unit_square4 (T ++ [4])) 0)) gen_quad_split_x = true.
Proof. split; [exact quad_split_area|]. split; [exact quad_split_x_area | exact (proj1 quad_split_x_signs)]. Qed.
Print Assumptions C18_quad_split_measure.

(* hexahedron -> 6 tetrahedra, prism -> 3 tetrahedra: for EVERY affine image x -> o + A x of the reference cell
   (every parallelepiped / affine prism) each child has determinant det(A) times its reference determinant, which
   is +1 or -1 (finite check on the regenerated templates and reference coordinates): no child degenerates unless
   the parent does, all children have volume |det A| / 6, they add up to the parent's volume *)
Theorem C18_tet_split_measure :
  (forall o c1 c2 c3 : pt3,
     Forall (fun T => tet_det (map (affine3 o c1 c2 c3) gen_refhex_p) T = (det3 c1 c2 c3 * tet_det gen_refhex_p T)%Z)
            gen_hex_split) /\
  forallb (fun T => Z.eqb (Z.abs (tet_det gen_refhex_p T)) 1) gen_hex_split = true /\ length gen_hex_split = 6 /\
  (forall o c1 c2 c3 : pt3,
     Forall (fun T => tet_det (map (affine3 o c1 c2 c3) gen_refwedge_p) T = (det3 c1 c2 c3 * tet_det gen_refwedge_p T)%Z)
            gen_wedge_split) /\
  forallb (fun T => Z.eqb (Z.abs (tet_det gen_refwedge_p T)) 1) gen_wedge_split = true /\ length gen_wedge_split = 3.
Proof.
  destruct hex_split_wellformed as [H1 [H2 [H3 _]]]. destruct wedge_split_wellformed as [W1 [W2 [W3 _]]].
  split; [intros o c1 c2 c3; exact (Forall_tet_det_affine o c1 c2 c3 _ _ H1)|].
  split; [exact H2|]. split; [exact H3|].
  split; [intros o c1 c2 c3; exact (Forall_tet_det_affine o c1 c2 c3 _ _ W1)|].
  split; [exact W2 | exact W3].
Qed.
Print Assumptions C18_tet_split_measure.

(* TILING of the reference cells (replaces the former finite face-sharing certificate).  Points are homogeneous integer
   quadruples (X, Y, Z, W), W > 0, standing for the rational point (X/W, Y/W, Z/W) — i.e. ALL rational points; `bary` are the
   W-scaled barycentric coordinates (explicit integer affine forms, by Cramer on the regenerated tables; they reproduce the
   point and are unique).  (1) every point of the closed unit cube has all four coordinates >= 0 in at least one of the six
   tetrahedra of MeshHex1.to_meshtet; (2) a point with all coordinates > 0 in one tetrahedron does not lie in any other (not
   even on its boundary); (3) every tetrahedron lies in the cube. *)
Theorem C18_hex_split_tiles_unit_cube :
  (forall X Y Z W : Z, (0 < W -> 0 <= X <= W -> 0 <= Y <= W -> 0 <= Z <= W ->
     Exists (fun T => all_nonneg (bary gen_refhex_p T (X, Y, Z, W))) gen_hex_split)%Z) /\
  (forall i j q, i < 6 -> j < 6 -> i <> j ->
     all_pos (bary gen_refhex_p (nth i gen_hex_split []) q) -> all_nonneg (bary gen_refhex_p (nth j gen_hex_split []) q) -> False) /\
  (forall T, In T gen_hex_split -> forall X Y Z W : Z,
     all_nonneg (bary gen_refhex_p T (X, Y, Z, W)) -> (0 <= X <= W /\ 0 <= Y <= W /\ 0 <= Z <= W /\ 0 <= W)%Z) /\
  (forall T, In T gen_hex_split -> forall X Y Z W : Z,
     comb gen_refhex_p T (bary gen_refhex_p T (X, Y, Z, W)) = (X, Y, Z, W)) /\ length gen_hex_split = 6.
Proof.
  destruct tet_split_literals as [-> [-> _]].
  split; [exact hex_split_covers_unit_cube|]. split; [exact hex_split_disjoint_interiors|].
  split; [exact hex_split_inside_unit_cube|]. split; [exact hex_bary_correct | reflexivity].
Qed.
Print Assumptions C18_hex_split_tiles_unit_cube.

(* the same for the three tetrahedra of MeshWedge1.to_meshtet on the reference prism x, y >= 0, x + y <= 1, 0 <= z <= 1 *)
Theorem C18_wedge_split_tiles_prism :
  (forall X Y Z W : Z, (0 < W -> 0 <= X -> 0 <= Y -> X + Y <= W -> 0 <= Z <= W ->
     Exists (fun T => all_nonneg (bary gen_refwedge_p T (X, Y, Z, W))) gen_wedge_split)%Z) /\
  (forall i j q, i < 3 -> j < 3 -> i <> j ->
     all_pos (bary gen_refwedge_p (nth i gen_wedge_split []) q) -> all_nonneg (bary gen_refwedge_p (nth j gen_wedge_split []) q) -> False) /\
  (forall T, In T gen_wedge_split -> forall X Y Z W : Z,
     all_nonneg (bary gen_refwedge_p T (X, Y, Z, W)) -> (0 <= X /\ 0 <= Y /\ X + Y <= W /\ 0 <= Z <= W)%Z) /\
  (forall T, In T gen_wedge_split -> forall X Y Z W : Z,
     comb gen_refwedge_p T (bary gen_refwedge_p T (X, Y, Z, W)) = (X, Y, Z, W)) /\ length gen_wedge_split = 3.
Proof.
  destruct tet_split_literals as [_ [_ [-> [-> _]]]].
  split; [exact wedge_split_covers_prism|]. split; [exact wedge_split_disjoint_interiors|].
  split; [exact wedge_split_inside_prism|]. split; [exact wedge_bary_correct | reflexivity].
Qed.
Print Assumptions C18_wedge_split_tiles_prism.

(* lift to affine images (barycentric coordinates are affine invariants): for EVERY parallelepiped o + A [0,1]^3 and every
   affine prism, each of its points (the image of a point of the reference cell) is a convex combination — coefficients >= 0
   summing to W — of the vertices of some image tetrahedron; and if det A <> 0, no point is a strictly positive combination
   in one image tetrahedron and a nonnegative one in another *)
Theorem C18_tet_splits_tile_affine_cells :
  (forall o c1 c2 c3 : pt3,
     (forall X Y Z W : Z, (0 < W -> 0 <= X <= W -> 0 <= Y <= W -> 0 <= Z <= W ->
        Exists (fun T => exists lam, all_nonneg lam /\ nth 0 lam 0 + nth 1 lam 0 + nth 2 lam 0 + nth 3 lam 0 = W /\
                          comb (map (affine3 o c1 c2 c3) gen_refhex_p) T lam = himage o c1 c2 c3 (X, Y, Z, W)) gen_hex_split)%Z) /\
     (det3 c1 c2 c3 <> 0%Z -> forall i j l0 l1 l2 l3 m0 m1 m2 m3, i < 6 -> j < 6 -> i <> j ->
        all_pos [l0; l1; l2; l3] -> all_nonneg [m0; m1; m2; m3] ->
        comb (map (affine3 o c1 c2 c3) gen_refhex_p) (nth i gen_hex_split []) [l0; l1; l2; l3]
        = comb (map (affine3 o c1 c2 c3) gen_refhex_p) (nth j gen_hex_split []) [m0; m1; m2; m3] -> False)) /\
  (forall o c1 c2 c3 : pt3,
     (forall X Y Z W : Z, (0 < W -> 0 <= X -> 0 <= Y -> X + Y <= W -> 0 <= Z <= W ->
        Exists (fun T => exists lam, all_nonneg lam /\ nth 0 lam 0 + nth 1 lam 0 + nth 2 lam 0 + nth 3 lam 0 = W /\
                          comb (map (affine3 o c1 c2 c3) gen_refwedge_p) T lam = himage o c1 c2 c3 (X, Y, Z, W)) gen_wedge_split)%Z) /\
     (det3 c1 c2 c3 <> 0%Z -> forall i j l0 l1 l2 l3 m0 m1 m2 m3, i < 3 -> j < 3 -> i <> j ->
        all_pos [l0; l1; l2; l3] -> all_nonneg [m0; m1; m2; m3] ->
        comb (map (affine3 o c1 c2 c3) gen_refwedge_p) (nth i gen_wedge_split []) [l0; l1; l2; l3]
        = comb (map (affine3 o c1 c2 c3) gen_refwedge_p) (nth j gen_wedge_split []) [m0; m1; m2; m3] -> False)).
Proof.
  destruct tet_split_literals as [-> [-> [-> [-> _]]]].
  split; [exact hex_split_tiles_parallelepiped | exact wedge_split_tiles_affine_prism].
Qed.
Print Assumptions C18_tet_splits_tile_affine_cells.

(* quadrilateral -> 2 triangles tiles every strictly convex quadrilateral (group I, Proofs.C14_QuadProofs.quad_split_tiles =
   C14_quad_split_tiles): the regenerated templates are exactly the triangles [0,1,3] and [1,2,3] of that theorem; a point is in
   the closed quadrilateral iff it is in one of the two triangles, and a point in both lies on the diagonal v1 v3 *)
Theorem C18_quad_split_tiles :
  gen_quad_split = [[0; 1; 3]; [1; 2; 3]] /\
  forall x0 y0 x1 y1 x2 y2 x3 y3 s : QArith_base.Q, QArith_base.Qeq (QArith_base.Qmult s s) (QArith_base.inject_Z 1) ->
    QArith_base.Qlt (QArith_base.inject_Z 0) (QArith_base.Qmult s (C14_QuadProofs.orient x0 y0 x1 y1 x2 y2)) ->
    QArith_base.Qlt (QArith_base.inject_Z 0) (QArith_base.Qmult s (C14_QuadProofs.orient x0 y0 x1 y1 x3 y3)) ->
    QArith_base.Qlt (QArith_base.inject_Z 0) (QArith_base.Qmult s (C14_QuadProofs.orient x0 y0 x2 y2 x3 y3)) ->
    QArith_base.Qlt (QArith_base.inject_Z 0) (QArith_base.Qmult s (C14_QuadProofs.orient x1 y1 x2 y2 x3 y3)) ->
    forall px py,
      (C14_QuadProofs.in_quad x0 y0 x1 y1 x2 y2 x3 y3 s px py <->
       C14_QuadProofs.in_T013 x0 y0 x1 y1 x3 y3 s px py \/ C14_QuadProofs.in_T123 x1 y1 x2 y2 x3 y3 s px py) /\
      (C14_QuadProofs.in_T013 x0 y0 x1 y1 x3 y3 s px py -> C14_QuadProofs.in_T123 x1 y1 x2 y2 x3 y3 s px py ->
       QArith_base.Qeq (C14_QuadProofs.orient x1 y1 x3 y3 px py) (QArith_base.inject_Z 0)).
Proof.
  split; [exact (proj2 (proj2 (proj2 (proj2 tet_split_literals))))|]. exact C14_QuadProofs.quad_split_tiles.
Qed.
Print Assumptions C18_quad_split_tiles.

(* extrude_spec over the CELLS of the line mesh (MeshTri1 * MeshLine1): (1) level i carries a layer of wedges iff some
   element of the line mesh spans exactly the consecutive levels x_i, x_{i+1} (gaps, unused and repeated points of the line
   mesh create no layer); (2) the l-th layer consists of the prisms k + l*nt, whose first rows are triangle k on that level
   (vertex v + i*nv) and whose last rows are the same triangle on the next level, nv = number of POINTS of the triangle mesh *)
Theorem C18_extrude_spec :
  (forall (pz t0 t1 : list nat) (i : nat),
     length t0 = length t1 -> i < length (gen_line_levels pz t0 t1) ->
     (nth i (gen_line_iscell pz t0 t1) false = true <->
      exists e, e < length t0 /\
        let a := nth (nth e t0 0) pz 0 in let b := nth (nth e t1 0) pz 0 in
        nth i (gen_line_levels pz t0 t1) 0 = Nat.min a b /\ nth (i + 1) (gen_line_levels pz t0 t1) 0 = Nat.max a b /\
        i + 1 < length (gen_line_levels pz t0 t1))) /\
  (forall (nv nt : nat) (iscell : list bool) (t : mat nat) (i l k : nat),
     Forall (fun row => length row = nt) t -> i < 2 * length t -> l < length (cell_levels iscell) -> k < nt ->
     nth (k + l * nt) (nth i (gen_extrude_t nv iscell t) []) 0
     = if i <? length t then nth k (nth i t []) 0 + nth l (cell_levels iscell) 0 * nv
       else nth k (nth (i - length t) t []) 0 + nv + nth l (cell_levels iscell) 0 * nv) /\
  (forall iscell i, In i (cell_levels iscell) <-> i < length iscell /\ nth i iscell false = true).
Proof.
  split; [exact line_iscell_spec|]. split; [|exact cell_levels_spec].
  intros nv nt iscell t i l k. exact (extrude_cells_t_spec nv nt (cell_levels iscell) t i l k).
Qed.
Print Assumptions C18_extrude_spec.

(* split_spec, facet carry-over of to_meshtri (independent lookup by np.searchsorted on the keys v0 * nv + v1): for a
   strictly lexicographically sorted table NF of vertex pairs below nv and ANY tag — any order, repeated entries allowed —
   all of whose facets are still facets of the triangle mesh, nothing is dropped and the j-th number returned designates
   the new facet with the same vertex pair as the j-th smallest tagged facet; for an oriented tag the new flag selects,
   of the two triangles at the new facet, the one that is a child of the tagged quadrilateral c (k mod nt = c) *)
Theorem C18_to_meshtri_boundaries :
  (forall (nv : nat) (OF NF : mat nat) (ixs : list nat),
     StronglySorted lex_lt NF -> Forall (pair_ok nv) NF -> (forall k, In k ixs -> In (nth k OF []) NF) ->
     length (gen_carry_boundary nv OF NF ixs) = length ixs /\
     forall j, j < length ixs ->
       nth (nth j (gen_carry_boundary nv OF NF ixs) 0) NF [] = nth (nth j (sort_nat ixs) 0) OF []) /\
  (forall (nt : nat) (f2t0' f2t1' : list nat) (g : nat) (c : Z),
     (Z.of_nat (nth g f2t0' 0 mod nt) = c \/ Z.of_nat (nth g f2t1' 0 mod nt) = c) ->
     Z.of_nat (nth g (if lookup_flag nt f2t0' g c then f2t1' else f2t0') 0 mod nt) = c).
Proof.
  split; [|exact lookup_flag_spec].
  intros nv OF NF ixs. rewrite gen_carry_boundary_is_model. exact (lookup_boundary_spec nv OF NF ixs).
Qed.
Print Assumptions C18_to_meshtri_boundaries.

(* join_spec / remove_duplicate_nodes for ANY node table t (the code passes ALL node rows, dofs.element_dofs: first- and
   second-order meshes; points as coordinate tuples, after the code's rounding): the merged point
   table has pairwise distinct columns and exactly the old coordinate tuples; every vertex keeps its coordinates;
   two vertices get the same new number iff they are coordinate-equal; every cell slot keeps its coordinates; in
   m1 + m2 the cells of m1 come first, those of m2 follow, each with its own vertex coordinates *)
Theorem C18_join_spec :
  (forall (p : list key),
     NoDup (gen_dedupe_p p) /\ (forall k, In k (gen_dedupe_p p) <-> In k p) /\
     (forall v, v < length p -> nth v (dedupe_inverse p) 0 < length (gen_dedupe_p p) /\
                                nth (nth v (dedupe_inverse p) 0) (gen_dedupe_p p) [] = nth v p []) /\
     (forall v w, v < length p -> w < length p ->
        (nth v (dedupe_inverse p) 0 = nth w (dedupe_inverse p) 0 <-> nth v p [] = nth w p []))) /\
  (forall (p : list key) (t : mat nat) r c,
     r < length t -> c < length (nth r t []) -> nth c (nth r t []) 0 < length p ->
     nth (nth c (nth r (gen_dedupe_t p t) []) 0) (gen_dedupe_p p) [] = nth (nth c (nth r t []) 0) p []) /\
  (forall (p1 p2 : list key) (t1 t2 : mat nat) (nt1 r c : nat),
     length t1 = length t2 -> r < length t1 -> Forall (fun row => length row = nt1) t1 ->
     (c < nt1 -> nth c (nth r t1 []) 0 < length p1 ->
        nth (nth c (nth r (gen_join_t p1 p2 t1 t2) []) 0) (gen_join_p p1 p2) [] = nth (nth c (nth r t1 []) 0) p1 []) /\
     (forall c2, c = nt1 + c2 -> c2 < length (nth r t2 []) -> nth c2 (nth r t2 []) 0 < length p2 ->
        nth (nth c (nth r (gen_join_t p1 p2 t1 t2) []) 0) (gen_join_p p1 p2) [] = nth (nth c2 (nth r t2 []) 0) p2 [])).
Proof.
  split; [exact dedupe_spec|]. split; [exact dedupe_cells | exact join_cells].
Qed.
Print Assumptions C18_join_spec.

(* ... and the keys v0 * nv + v1 the code computes in fixed-width signed arithmetic ARE those exact keys (no wrap-around, hence
   injective on vertex pairs below nv) whenever nv * nv < 2^(bits-1); with the regenerated width of 64 bits: nv * nv < 2^63 *)
Theorem C18_to_meshtri_keys_exact :
  forall (nv : nat) (f : list nat), pair_ok nv f -> (Z.of_nat (nv * nv) < 2 ^ 63)%Z ->
    facet_key_machine gen_key_bits nv f = Z.of_nat (facet_key nv f).
Proof.
  intros nv f Hf Hn. rewrite gen_key_bits_is_64. exact (facet_key_machine_exact_64 nv f Hf Hn).
Qed.
Print Assumptions C18_to_meshtri_keys_exact.

(* remove_duplicate_nodes, named boundaries (for ANY canonical form `canon` of facet tuples, e.g. _sort_entities):
   newp is the vertex relabelling of the merge; whenever the relabelled old facet f is a facet of its owner cell in the
   new mesh, the facet number found has the same canonical (merged) vertex tuple and belongs to that cell; a plain
   boundary becomes the increasing duplicate-free list of the images; an oriented boundary keeps its side: the new flag
   selects the old owner cell whenever that cell is one of the two distinct cells of the new facet *)
Theorem C18_remove_duplicate_nodes_boundaries :
  (forall (npts : nat) (g : nat -> nat) (t : mat nat) (v : nat),
     In v (concat t) -> v < npts -> nth v (gen_remap_newp npts t (map (map g) t)) 0 = g v) /\
  (forall (canon : list nat -> list nat) (nslots : nat) (newp : list nat) (F F' t2f' : mat nat) (f2t0 : list nat) (f : nat),
     (exists s, s < nslots /\ matches canon newp F F' t2f' f2t0 s f = true) ->
     canon (nth (gen_remap_newf canon nslots newp F F' t2f' f2t0 f) F' [])
     = canon (map (fun v => nth v newp 0) (nth f F [])) /\
     exists s, s < nslots /\ gen_remap_newf canon nslots newp F F' t2f' f2t0 f = cand t2f' f2t0 s f) /\
  (forall (nf : nat -> nat) (ixs : list nat),
     StronglySorted lt (fst (gen_remap_tag nf [] [] ixs None)) /\
     forall g, In g (fst (gen_remap_tag nf [] [] ixs None)) <-> exists f, In f ixs /\ g = nf f) /\
  (forall (f2t0' f2t1' : list Z) (g : nat) (c : Z),
     nth g f2t0' (- 1)%Z <> nth g f2t1' (- 1)%Z -> (c = nth g f2t0' (- 1)%Z \/ c = nth g f2t1' (- 1)%Z) ->
     nth g (if remap_flag f2t1' g c then f2t1' else f2t0') (- 1)%Z = c).
Proof.
  split; [exact remap_newp_spec|].
  split; [intros canon nslots newp F F' t2f' f2t0 f H; exact (newf_spec canon nslots newp F F' t2f' f2t0 f H)|].
  split; [intros nf ixs; exact (remap_plain_spec nf ixs) | exact remap_oriented_keeps_side].
Qed.
Print Assumptions C18_remove_duplicate_nodes_boundaries.

(* morphed_spec: for every row type, every point array and every list of (optional) coordinate functions, row i of the
   result is arg_i applied to the ORIGINAL array (the old row where arg_i is None or absent) *)
Theorem C18_morphed_spec :
  forall (R : Type) (p : list R) (args : list (option (list R -> R))) (d : R) (i : nat),
    length args <= length p -> i < length p ->
    nth i (gen_morphed_rows p args) d = match nth i args None with Some f => f p | None => nth i p d end.
Proof. intros R p args d i. rewrite gen_morphed_is_model. exact (morphed_rows_spec p args d i). Qed.
Print Assumptions C18_morphed_spec.

(* oriented_spec: the flagged cells get their first two vertices exchanged, nothing else changes (same vertex set per
   cell), and exchanging the first two vertices negates the simplex determinant: flipping exactly the negatively
   oriented cells leaves every cell positive *)
Theorem C18_oriented_spec :
  (forall (flip : list bool) (r0 r1 : list nat) (rest : mat nat) (e : nat),
     length flip = length r0 -> length r1 = length r0 -> e < length r0 ->
     let t' := gen_oriented_t flip (r0 :: r1 :: rest) in
     nth e (nth 0 t' []) 0 = (if nth e flip false then nth e r1 0 else nth e r0 0) /\
     nth e (nth 1 t' []) 0 = (if nth e flip false then nth e r0 0 else nth e r1 0) /\
     (forall r, 2 <= r -> nth r t' [] = nth r (r0 :: r1 :: rest) [])) /\
  (forall a b c : pt2, det2 (sub2 a b) (sub2 c b) = (- det2 (sub2 b a) (sub2 c a))%Z) /\
  (forall a b c d : pt3, det3 (sub3 a b) (sub3 c b) (sub3 d b) = (- det3 (sub3 b a) (sub3 c a) (sub3 d a))%Z).
Proof. split; [exact swap_rows01_spec|]. split; [exact det2_swap | exact det3_swap]. Qed.
Print Assumptions C18_oriented_spec.

(* trace_spec: cell i of the trace mesh is facet facets[i]: its r-th vertex has the coordinates of the r-th vertex of
   that facet, and no vertex of the trace mesh is unused (instance of reix_spec) *)
Theorem C18_trace_spec :
  forall (P : Type) (d : P) (p : list P) (Frows : mat nat) (facets : list nat) (r i : nat),
    r < length Frows -> i < length facets ->
    let ix := gen_trace_ix Frows facets in
    nth (nth i (nth r (gen_reix_t ix) []) 0) (gen_reix_p d p ix) d = nth (nth (nth i facets 0) (nth r Frows []) 0) p d.
Proof.
  intros P d p Frows facets r i Hr Hi ix.
  assert (Hrow : nth r ix [] = gather 0 (nth r Frows []) facets).
  { unfold ix, gen_trace_ix, take_cols. apply (map_nth_in (fun row => gather 0 row facets) Frows r [] []). exact Hr. }
  assert (Hlen : length ix = length Frows) by (unfold ix, gen_trace_ix, take_cols; apply map_length).
  rewrite gen_reix_t_is_model, gen_reix_p_is_model.
  rewrite (reix_geometry ix d p r i) by (rewrite ?Hlen, ?Hrow; unfold gather; rewrite ?map_length; assumption).
  rewrite Hrow. unfold gather. rewrite (map_nth_in (fun k => nth k (nth r Frows []) 0) facets i 0 0) by exact Hi. reflexivity.
Qed.
Print Assumptions C18_trace_spec.

(* join_spec for a LIST of meshes, m0 @ [m1, m2, ...]: with the regenerated offset every cell slot of the j-th mesh
   keeps its vertex coordinates in the shared merged point table *)
Theorem C18_matmul_list_spec :
  forall (ps : list (list key)) (j : nat) (t : mat nat) (r c : nat),
    j < length ps -> r < length t -> c < length (nth r t []) -> nth c (nth r t []) 0 < length (nth j ps []) ->
    nth (nth c (nth r (gen_dedupe_t (concat ps)
                         (map (map (fun v => v + gen_matmul_offset (map (@length key) ps) j)) t)) []) 0)
        (gen_dedupe_p (concat ps)) []
    = nth (nth c (nth r t []) 0) (nth j ps []) [].
Proof.
  intros ps j t r c. rewrite gen_matmul_offset_is_model. exact (matmul_cells ps j t r c).
Qed.
Print Assumptions C18_matmul_list_spec.

(* to_meshtri(style='x'), centre nodes: numbered from the regenerated base, the centre row of the new connectivity points
   at the appended centre points and every old vertex number at its old point — for point arrays of any length, in
   particular with unused trailing points *)
Theorem C18_to_meshtri_x_centres :
  forall (P : Type) (d : P) (p centres : list P) (maxt1 nt nchild j k : nat),
    length centres = nt -> j < nchild -> k < nt ->
    nth (nth (k + j * nt) (centre_row (gen_quad_x_base (length p) maxt1) nt nchild) 0) (quad_x_points p centres) d
    = nth k centres d /\
    forall v, v < length p -> nth v (quad_x_points p centres) d = nth v p d.
Proof.
  intros P d p centres maxt1 nt nchild j k. rewrite gen_quad_x_base_is_npts. exact (quad_x_centres d p centres nt nchild j k).
Qed.
Print Assumptions C18_to_meshtri_x_centres.

(* transform_spec: scaled multiplies every simplex determinant by the product of the factors, translated leaves it
   unchanged, mirrored (p - 2 (n.(p - p0)) n) multiplies it by 1 - 2 n.n, i.e. by -1 for the unit normal the code
   uses: measures scale by |prod factors| resp. are preserved.  All coordinates, all simplices. *)
Theorem C18_transform_spec :
  (forall (s0 s1 : Z) (a b c : pt2),
     let S (p : pt2) := (s0 * fst p, s1 * snd p)%Z in
     det2 (sub2 (S b) (S a)) (sub2 (S c) (S a)) = (s0 * s1 * det2 (sub2 b a) (sub2 c a))%Z) /\
  (forall (s0 s1 s2 : Z) (a b c d : pt3),
     let S (p : pt3) := (s0 * x3 p, s1 * y3 p, s2 * z3 p)%Z in
     det3 (sub3 (S b) (S a)) (sub3 (S c) (S a)) (sub3 (S d) (S a))
     = (s0 * s1 * s2 * det3 (sub3 b a) (sub3 c a) (sub3 d a))%Z) /\
  (forall (v a b c : pt2),
     let T (p : pt2) := (fst p + fst v, snd p + snd v)%Z in
     det2 (sub2 (T b) (T a)) (sub2 (T c) (T a)) = det2 (sub2 b a) (sub2 c a)) /\
  (forall (v a b c d : pt3),
     let T (p : pt3) := (x3 p + x3 v, y3 p + y3 v, z3 p + z3 v)%Z in
     det3 (sub3 (T b) (T a)) (sub3 (T c) (T a)) (sub3 (T d) (T a)) = det3 (sub3 b a) (sub3 c a) (sub3 d a)) /\
  (forall (n p0 a b c : pt2),
     let M (p : pt2) := let s := (fst n * (fst p - fst p0) + snd n * (snd p - snd p0))%Z in
                        (fst p - 2 * s * fst n, snd p - 2 * s * snd n)%Z in
     det2 (sub2 (M b) (M a)) (sub2 (M c) (M a))
     = ((1 - 2 * (fst n * fst n + snd n * snd n)) * det2 (sub2 b a) (sub2 c a))%Z) /\
  (forall (n p0 a b c d : pt3),
     let M (p : pt3) := let s := (x3 n * (x3 p - x3 p0) + y3 n * (y3 p - y3 p0) + z3 n * (z3 p - z3 p0))%Z in
                        (x3 p - 2 * s * x3 n, y3 p - 2 * s * y3 n, z3 p - 2 * s * z3 n)%Z in
     det3 (sub3 (M b) (M a)) (sub3 (M c) (M a)) (sub3 (M d) (M a))
     = ((1 - 2 * (x3 n * x3 n + y3 n * y3 n + z3 n * z3 n)) * det3 (sub3 b a) (sub3 c a) (sub3 d a))%Z).
Proof.
  split; [exact det2_scaled|]. split; [exact det3_scaled|]. split; [exact det2_translated|].
  split; [exact det3_translated|]. split; [exact det2_mirrored | exact det3_mirrored].
Qed.
Print Assumptions C18_transform_spec.

(* non-vacuity: restricting the two-triangle mesh t = (0,1,2), (1,2,3) to the single cell [1] (vertices 1,2,3).
   facets 0={0,1} 1={0,2} 2={1,2} 3={1,3} 4={2,3}; kept facets [2;3;4]; the tag [0;2;4] becomes [0;2] (facet 0 is gone);
   the relabelled kept facets {0,1} {0,2} {1,2} are in lexicographic order; the subdomain [1] becomes [0] *)
Example C18_instance :
  let t := [[0; 1]; [1; 2]; [2; 3]] in
  let t2f := [[0; 2]; [2; 4]; [1; 3]] in
  let F := [[0; 1]; [0; 2]; [1; 2]; [1; 3]; [2; 3]] in
  let ix := gen_restrict_ix 0 t [1] in
  gen_reix_uniq ix = [1; 2; 3] /\ gen_reix_t ix = [[0]; [1]; [2]] /\
  gen_restrict_boundary 5 t2f [1] [0; 2; 4] = [0%Z; 2%Z] /\
  gen_restrict_subdomain 2 [1] [1] = [0%Z] /\
  relabel_facets F (kept_facets t2f [1]) (gen_reix_table ix) = [[0; 1]; [0; 2]; [1; 2]] /\
  StronglySorted lex_lt F.
Proof. vm_compute. repeat split. repeat constructor. Qed.
Print Assumptions C18_instance.
