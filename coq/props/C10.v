(* C10 — reference maps, Jacobians, facet maps and normals are mutually consistent.
   Only statements; proofs live in Dyn.C10_* (about the closed forms regenerated from mapping_affine.py,
   mapping_isoparametric.py and the tables of refdom.py on this run).  P is the vertex table of ONE cell
   (P k i = coordinate i of local vertex k); the cell axis and the point axis of the implementation are the
   pointwise trailing axes.  All statements hold over any field, for every non-degenerate simplex. *)
From Coq Require Import List Arith Ring Field QArith Qcanon.
Import ListNotations.
Require Import Base.C20_Ring Model.C20_Tensor Model.C10_Map Gen.C10Gen.
Require Import Dyn.C10_Ring Dyn.C10_Facet3 Dyn.C10_Field12 Dyn.C10_Round3 Dyn.C10_Normals3 Dyn.C10_Iso.
Local Close Scope Qc_scope.
Local Close Scope Q_scope.

Definition is_ring (R : Type) (ops : FOps R) := ring_theory f0 f1 fadd fmul fsub fopp (@eq R).
Definition is_field (R : Type) (ops : FOps R) := field_theory f0 f1 fadd fmul fsub fopp fdiv finv (@eq R).

(* F(invF x) = x, invF(F X) = X, invDF DF = I = DF invDF  (dimensions 1, 2, 3) *)
Theorem C10_round_trip : forall R ops, is_field R ops -> forall (P : mat R) (x : vec R),
  (aff_detA_1 P <> 0%F ->
    veq 1 (mapF 1 (aff_A_1 P) (aff_b_1 P) (mapInvF 1 (aff_invA_1 P) (aff_b_1 P) x)) x /\
    veq 1 (mapInvF 1 (aff_invA_1 P) (aff_b_1 P) (mapF 1 (aff_A_1 P) (aff_b_1 P) x)) x /\
    meq 1 (matmul 1 (aff_invA_1 P) (aff_A_1 P)) delta /\ meq 1 (matmul 1 (aff_A_1 P) (aff_invA_1 P)) delta) /\
  (aff_detA_2 P <> 0%F ->
    veq 2 (mapF 2 (aff_A_2 P) (aff_b_2 P) (mapInvF 2 (aff_invA_2 P) (aff_b_2 P) x)) x /\
    veq 2 (mapInvF 2 (aff_invA_2 P) (aff_b_2 P) (mapF 2 (aff_A_2 P) (aff_b_2 P) x)) x /\
    meq 2 (matmul 2 (aff_invA_2 P) (aff_A_2 P)) delta /\ meq 2 (matmul 2 (aff_A_2 P) (aff_invA_2 P)) delta) /\
  (aff_detA_3 P <> 0%F ->
    veq 3 (mapF 3 (aff_A_3 P) (aff_b_3 P) (mapInvF 3 (aff_invA_3 P) (aff_b_3 P) x)) x /\
    veq 3 (mapInvF 3 (aff_invA_3 P) (aff_b_3 P) (mapF 3 (aff_A_3 P) (aff_b_3 P) x)) x /\
    meq 3 (matmul 3 (aff_invA_3 P) (aff_A_3 P)) delta /\ meq 3 (matmul 3 (aff_A_3 P) (aff_invA_3 P)) delta).
Proof. intros R ops H P x. exact (conj (round_trip_1 H P x) (conj (round_trip_2 H P x) (round_trip_3 H P x))). Qed.
Print Assumptions C10_round_trip.

(* detDF is the Leibniz determinant of DF = A; F maps the reference vertices of refdom.py to the cell's
   vertices; DF = A is the derivative of F (exactly: F is affine) *)
Theorem C10_jacobian : forall R ops, is_ring R ops -> forall (P : mat R),
  (aff_detA_1 P = leibniz 1 (aff_A_1 P) /\ aff_detA_2 P = leibniz 2 (aff_A_2 P) /\ aff_detA_3 P = leibniz 3 (aff_A_3 P)) /\
  (forall k, k < 2 -> veq 1 (mapF 1 (aff_A_1 P) (aff_b_1 P) (ref_p_line k)) (P k)) /\
  (forall k, k < 3 -> veq 2 (mapF 2 (aff_A_2 P) (aff_b_2 P) (ref_p_tri k)) (P k)) /\
  (forall k, k < 4 -> veq 3 (mapF 3 (aff_A_3 P) (aff_b_3 P) (ref_p_tet k)) (P k)) /\
  (forall d (A : mat R) (b X H : vec R) i, d <= 3 ->
     (mapF d A b (fun j => X j + H j)%F i - mapF d A b X i)%F = fsum d (fun j => A i j * H j)%F).
Proof.
  intros R ops H P.
  exact (conj (detA_leibniz H P) (conj (F_vertices_1 H P) (conj (F_vertices_2 H P) (conj (F_vertices_3 H P)
        (fun d A b X Hh i Hd => F_derivative H d A b X Hh i Hd))))).
Qed.
Print Assumptions C10_jacobian.

(* the facet map parametrises exactly the matching face of the adjacent cell: for EVERY ordering q of the vertices of
   EVERY local facet of RefLine / RefTri / RefTet (mesh.facets lists them by global number), G from the facet's vertex
   table equals F at Y = (the same G on the reference vertices), Y has barycentric coordinate 0 w.r.t. the opposite
   vertex and (1 - sum X, X_0, X_1) w.r.t. the facet's vertices *)
Theorem C10_facet_map_on_face : forall R ops, is_ring R ops -> forall (P : mat R) (X : vec R),
  (forall q, In q (orderings ref_facets_line) ->
     let Y := mapG 1 (aff_B_1 (sel ref_p_line q)) (aff_c_1 (sel ref_p_line q)) X in
     veq 1 (mapG 1 (aff_B_1 (sel P q)) (aff_c_1 (sel P q)) X) (mapF 1 (aff_A_1 P) (aff_b_1 P) Y) /\
     bary 1 Y (opposite 1 q) = 0%F /\ bary 1 Y (nth 0 q 0) = 1%F) /\
  (forall q, In q (orderings ref_facets_tri) ->
     let Y := mapG 2 (aff_B_2 (sel ref_p_tri q)) (aff_c_2 (sel ref_p_tri q)) X in
     veq 2 (mapG 2 (aff_B_2 (sel P q)) (aff_c_2 (sel P q)) X) (mapF 2 (aff_A_2 P) (aff_b_2 P) Y) /\
     bary 2 Y (opposite 2 q) = 0%F /\ bary 2 Y (nth 0 q 0) = (1 - vget X 0)%F /\ bary 2 Y (nth 1 q 0) = vget X 0) /\
  (forall q, In q (orderings ref_facets_tet) ->
     let Y := mapG 3 (aff_B_3 (sel ref_p_tet q)) (aff_c_3 (sel ref_p_tet q)) X in
     veq 3 (mapG 3 (aff_B_3 (sel P q)) (aff_c_3 (sel P q)) X) (mapF 3 (aff_A_3 P) (aff_b_3 P) Y) /\
     bary 3 Y (opposite 3 q) = 0%F /\ bary 3 Y (nth 0 q 0) = (1 - (vget X 0 + vget X 1))%F /\
     bary 3 Y (nth 1 q 0) = vget X 0 /\ bary 3 Y (nth 2 q 0) = vget X 1).
Proof.
  intros R ops H P X.
  exact (conj (facet_map_1 H P X) (conj (facet_map_2 H P X) (facet_map_3 H P X))).
Qed.
Print Assumptions C10_facet_map_on_face.

(* the surface factor: detB^2 is the Gram determinant of the facet's edge vectors *)
Theorem C10_detB_gram : forall R ops, is_ring R ops -> forall (Q : mat R),
  let e1 := vsub (Q 1) (Q 0) in let e2 := vsub (Q 2) (Q 0) in
  aff_detBsq_1 Q = 1%F /\ aff_detBsq_2 Q = vdot 2 e1 e1 /\
  aff_detBsq_3 Q = (vdot 3 e1 e1 * vdot 3 e2 e2 - vdot 3 e1 e2 * vdot 3 e1 e2)%F.
Proof. intros R ops H Q. exact (detB_gram H Q). Qed.
Print Assumptions C10_detB_gram.

(* normals: n_s = A^{-T} N_s (the vector the code normalises) is orthogonal to the edges of local facet s, satisfies
   n_s . (v_opposite - v_on) = -1 (so it points out of the cell, for either orientation of the cell), and
   detB_s^2 = detA^2 |n_s|^2;  the Nref tables of MappingAffine.normals are those of refdom.py *)
Theorem C10_normals : forall R ops, is_field R ops -> forall (P : mat R),
  (aff_detA_1 P <> 0%F -> forall s, s < 2 ->
     let q := nth s ref_facets_line [] in let n := normal_raw 1 (aff_invA_1 P) (aff_Nref_1 s) in
     vdot 1 n (vsub (P (opposite 1 q)) (P (nth 0 q 0))) = (- (1))%F /\
     aff_detBsq_1 (sel P q) = (aff_detA_1 P * aff_detA_1 P * vdot 1 n n)%F) /\
  (aff_detA_2 P <> 0%F -> forall s, s < 3 ->
     let q := nth s ref_facets_tri [] in let n := normal_raw 2 (aff_invA_2 P) (aff_Nref_2 s) in
     vdot 2 n (vsub (P (nth 1 q 0)) (P (nth 0 q 0))) = 0%F /\
     vdot 2 n (vsub (P (opposite 2 q)) (P (nth 0 q 0))) = (- (1))%F /\
     aff_detBsq_2 (sel P q) = (aff_detA_2 P * aff_detA_2 P * vdot 2 n n)%F) /\
  (aff_detA_3 P <> 0%F -> forall s, s < 4 ->
     let q := nth s ref_facets_tet [] in let n := normal_raw 3 (aff_invA_3 P) (aff_Nref_3 s) in
     vdot 3 n (vsub (P (nth 1 q 0)) (P (nth 0 q 0))) = 0%F /\
     vdot 3 n (vsub (P (nth 2 q 0)) (P (nth 0 q 0))) = 0%F /\
     vdot 3 n (vsub (P (opposite 3 q)) (P (nth 0 q 0))) = (- (1))%F /\
     aff_detBsq_3 (sel P q) = (aff_detA_3 P * aff_detA_3 P * vdot 3 n n)%F) /\
  (forall s j, aff_Nref_1 s j = ref_normals_line s j /\ aff_Nref_2 s j = ref_normals_tri s j /\
               aff_Nref_3 s j = ref_normals_tet (R:=R) s j).
Proof.
  intros R ops H P.
  exact (conj (fun Hd s Hs => normals_1 H P s Hd Hs) (conj (fun Hd s Hs => normals_2 H P s Hd Hs)
        (conj (fun Hd s Hs => normals_3 H P s Hd Hs) (fun s j => nref_is_refdom s j)))).
Qed.
Print Assumptions C10_normals.

(* the ordered-field reading at the rationals: the normal points outward (strictly negative inner product with the
   vector from the facet to the opposite vertex), every facet of every non-degenerate rational triangle / tetrahedron *)
Theorem C10_normals_outward_Qc : forall (P : mat Qc),
  (aff_detA_2 P <> 0%F -> forall s, s < 3 ->
     let q := nth s ref_facets_tri [] in
     Qclt (vdot 2 (normal_raw 2 (aff_invA_2 P) (aff_Nref_2 s)) (vsub (P (opposite 2 q)) (P (nth 0 q 0)))) 0%Qc) /\
  (aff_detA_3 P <> 0%F -> forall s, s < 4 ->
     let q := nth s ref_facets_tet [] in
     Qclt (vdot 3 (normal_raw 3 (aff_invA_3 P) (aff_Nref_3 s)) (vsub (P (opposite 3 q)) (P (nth 0 q 0)))) 0%Qc).
Proof.
  intros P. split; intros Hd s Hs q; subst q.
  - rewrite (proj1 (proj2 (normals_2 Qc_field P s Hd Hs))). reflexivity.
  - rewrite (proj1 (proj2 (proj2 (normals_3 Qc_field P s Hd Hs)))). reflexivity.
Qed.
Print Assumptions C10_normals_outward_Qc.

(* per-cell divergence identity: sum over the local facets of x_s . n_s = 1 (x_s a vertex of facet s, n_s = A^{-T} N_s).
   With |facet_s| = detB_s/(d-1)!, unit normal n_s/|n_s|, detB_s = |detA| |n_s| (C10_normals) and |K| = |detA|/d! this is
   sum_s |facet_s| x_s . nhat_s = d |K|; the square roots / absolute values are the runtime part *)
Theorem C10_divergence_identity : forall R ops, is_field R ops -> forall (P : mat R),
  (aff_detA_1 P <> 0%F ->
     fsum 2 (fun s => vdot 1 (P (nth 0 (nth s ref_facets_line []) 0)) (normal_raw 1 (aff_invA_1 P) (aff_Nref_1 s))) = 1%F) /\
  (aff_detA_2 P <> 0%F ->
     fsum 3 (fun s => vdot 2 (P (nth 0 (nth s ref_facets_tri []) 0)) (normal_raw 2 (aff_invA_2 P) (aff_Nref_2 s))) = 1%F) /\
  (aff_detA_3 P <> 0%F ->
     fsum 4 (fun s => vdot 3 (P (nth 0 (nth s ref_facets_tet []) 0)) (normal_raw 3 (aff_invA_3 P) (aff_Nref_3 s))) = 1%F).
Proof. intros R ops H P. exact (divergence_identity H P). Qed.
Print Assumptions C10_divergence_identity.

(* isoparametric cofactor formulas (mapping_isoparametric.py, abstract Jacobian J): detDF = Leibniz, invDF J = I = J invDF,
   detDG^2 = Gram determinant; on a straight simplex (J = A) they coincide with the affine closed forms *)
Theorem C10_iso_cofactors : forall R ops, is_field R ops -> is_ring R ops -> forall (J P Q : mat R),
  (iso_detDF_1 J = leibniz 1 J /\ iso_detDF_2 J = leibniz 2 J /\ iso_detDF_3 J = leibniz 3 J) /\
  (iso_detDF_1 J <> 0%F -> meq 1 (matmul 1 (iso_invDF_1 J) J) delta /\ meq 1 (matmul 1 J (iso_invDF_1 J)) delta) /\
  (iso_detDF_2 J <> 0%F -> meq 2 (matmul 2 (iso_invDF_2 J) J) delta /\ meq 2 (matmul 2 J (iso_invDF_2 J)) delta) /\
  (iso_detDF_3 J <> 0%F -> meq 3 (matmul 3 (iso_invDF_3 J) J) delta /\ meq 3 (matmul 3 J (iso_invDF_3 J)) delta) /\
  (iso_detDGsq_2 J = vdot 2 (fun i => mget J i 0) (fun i => mget J i 0) /\
   iso_detDGsq_3 J = (vdot 3 (fun i => mget J i 0) (fun i => mget J i 0) * vdot 3 (fun i => mget J i 1) (fun i => mget J i 1)
                      - vdot 3 (fun i => mget J i 0) (fun i => mget J i 1) * vdot 3 (fun i => mget J i 0) (fun i => mget J i 1))%F) /\
  (iso_detDF_1 (aff_A_1 P) = aff_detA_1 P /\ iso_detDF_2 (aff_A_2 P) = aff_detA_2 P /\ iso_detDF_3 (aff_A_3 P) = aff_detA_3 P /\
   iso_detDGsq_2 (aff_B_2 Q) = aff_detBsq_2 Q /\ iso_detDGsq_3 (aff_B_3 Q) = aff_detBsq_3 Q) /\
  ((aff_detA_1 P <> 0%F -> meq 1 (iso_invDF_1 (aff_A_1 P)) (aff_invA_1 P)) /\
   (aff_detA_2 P <> 0%F -> meq 2 (iso_invDF_2 (aff_A_2 P)) (aff_invA_2 P)) /\
   (aff_detA_3 P <> 0%F -> meq 3 (iso_invDF_3 (aff_A_3 P)) (aff_invA_3 P))).
Proof.
  intros R ops Hf Hr J P Q.
  split; [apply iso_det_leibniz; assumption|]. split; [apply iso_inverse_1; assumption|].
  split; [apply iso_inverse_2; assumption|]. split; [apply iso_inverse_3; assumption|].
  split; [apply (iso_detDG_gram Hr J)|]. split; [apply iso_affine_det; assumption | apply iso_affine_inverse; assumption].
Qed.
Print Assumptions C10_iso_cofactors.

(* affine == isoparametric on straight simplices: the basis expansion of MappingIsoparametric.Fmap / _J with the lbasis
   of ElementLineP1 / ElementTriP1 / ElementTetP1 (regenerated) is the affine map F and the constant Jacobian A at EVERY
   reference point, and the P1 basis is nodal at the reference vertices of refdom.py *)
Theorem C10_affine_iso_agree : forall R ops, is_ring R ops -> forall (P : mat R) (X : vec R),
  (veq 1 (isoF 2 p1_phi_1 P X) (mapF 1 (aff_A_1 P) (aff_b_1 P) X) /\ meq 1 (isoJ 2 p1_dphi_1 P X) (aff_A_1 P) /\
   veq 2 (isoF 3 p1_phi_2 P X) (mapF 2 (aff_A_2 P) (aff_b_2 P) X) /\ meq 2 (isoJ 3 p1_dphi_2 P X) (aff_A_2 P) /\
   veq 3 (isoF 4 p1_phi_3 P X) (mapF 3 (aff_A_3 P) (aff_b_3 P) X) /\ meq 3 (isoJ 4 p1_dphi_3 P X) (aff_A_3 P)) /\
  (forall k k', (k < 2 -> k' < 2 -> p1_phi_1 (ref_p_line k) k' = delta (R:=R) k k') /\
                (k < 3 -> k' < 3 -> p1_phi_2 (ref_p_tri k) k' = delta (R:=R) k k') /\
                (k < 4 -> k' < 4 -> p1_phi_3 (ref_p_tet k) k' = delta (R:=R) k k')).
Proof. intros R ops H P X. split; [apply p1_iso_is_affine; assumption | intros k k'; apply p1_nodal; assumption]. Qed.
Print Assumptions C10_affine_iso_agree.

(* non-vacuity: a concrete non-degenerate (negatively oriented) rational tetrahedron *)
Example C10_instance_Qc :
  let P : mat Qc := mkmat [[Q2Qc 0; Q2Qc 0; Q2Qc 0]; [Q2Qc 0; Q2Qc 2; Q2Qc 0]; [Q2Qc 3; Q2Qc 1; Q2Qc 0]; [Q2Qc 1; Q2Qc 1; Q2Qc 5]] in
  aff_detA_3 P <> 0%F /\
  veq 3 (mapInvF 3 (aff_invA_3 P) (aff_b_3 P) (mapF 3 (aff_A_3 P) (aff_b_3 P) (fun _ => Q2Qc (1 # 4)))) (fun _ => Q2Qc (1 # 4)).
Proof.
  intros P. assert (Hd : aff_detA_3 P <> 0%F) by (intro E; apply (f_equal Qcanon.this) in E; vm_compute in E; discriminate E).
  split; [exact Hd | exact (proj1 (proj2 (round_trip_3 Qc_field P (fun _ => Q2Qc (1 # 4)) Hd)))].
Qed.
Print Assumptions C10_instance_Qc.

(* ================= isoparametric cells: polynomial identities in the reference point AND the node coordinates ===========
   Gen.C10GenPoly holds the exact polynomials of the real lbasis of every mesh element (run on symbolic polynomials on this
   run) and one vm_compute lemma per statement; Proofs.C10_IsoPolyProofs turns the boolean checks into statements at every
   rational / real point.  F_i = sum_k node(k,i) phi_k and J_ij = sum_k node(k,i) dphi_k[j] are the basis expansions of
   MappingIsoparametric.Fmap / _J (recognised textually by vlib/c10_tr.py) with the DELIVERED phi and dphi. *)
Require Import Base.C09_Poly Base.C09_PolyQ Model.C10_IsoPoly Proofs.C10_IsoPolyProofs.
Example C10_requires_Gen_C10GenPoly : True.
Proof. exact I. Qed.
Print Assumptions C10_requires_Gen_C10GenPoly.
Require Import Gen.C10GenPoly.
Local Close Scope Qc_scope.
Local Close Scope Q_scope.

(* the delivered Jacobian is the formal derivative of the delivered map, every entry, for the element of EVERY mesh class
   (straight, multilinear and curved second-order), at every rational reference point and node position *)
Theorem C10_iso_J_is_derivative_of_F :
  J_derivative_of_F_Q 1 line1_phi line1_dphi /\ J_derivative_of_F_Q 2 tri1_phi tri1_dphi /\
  J_derivative_of_F_Q 2 quad1_phi quad1_dphi /\ J_derivative_of_F_Q 3 tet1_phi tet1_dphi /\
  J_derivative_of_F_Q 3 hex1_phi hex1_dphi /\ J_derivative_of_F_Q 3 wedge1_phi wedge1_dphi /\
  J_derivative_of_F_Q 2 tri2_phi tri2_dphi /\ J_derivative_of_F_Q 2 quad2_phi quad2_dphi /\
  J_derivative_of_F_Q 3 tet2_phi tet2_dphi /\ J_derivative_of_F_Q 3 hex2_phi hex2_dphi.
Proof.
  exact (conj (derivative_sound_Q _ _ _ line1_J_is_derivative_of_F) (conj (derivative_sound_Q _ _ _ tri1_J_is_derivative_of_F) (conj (derivative_sound_Q _ _ _ quad1_J_is_derivative_of_F) (conj (derivative_sound_Q _ _ _ tet1_J_is_derivative_of_F) (conj (derivative_sound_Q _ _ _ hex1_J_is_derivative_of_F) (conj (derivative_sound_Q _ _ _ wedge1_J_is_derivative_of_F) (conj (derivative_sound_Q _ _ _ tri2_J_is_derivative_of_F) (conj (derivative_sound_Q _ _ _ quad2_J_is_derivative_of_F) (conj (derivative_sound_Q _ _ _ tet2_J_is_derivative_of_F) (derivative_sound_Q _ _ _ hex2_J_is_derivative_of_F)))))))))).
Qed.
Print Assumptions C10_iso_J_is_derivative_of_F.

(* The same statement over the reals as a TRUE derivative (Coquelicot is_derive) and the inverse on the delivered J over R are
   proved in Dyn.C10_RealBridge (compiled on every run; kept out of this file so that it does not depend on the axioms of
   Coq's real numbers).

   invDF DF = I = DF invDF ON the delivered polynomial Jacobian evaluated at any rational point (in the field Qc) where the
   determinant does not vanish: the cofactor formulas of C10_iso_cofactors instantiated at J := the polynomial J *)
Theorem C10_iso_inverse_of_delivered_J : forall (dphis : list (list poly)) (pt : nat -> Qc),
  (let J := fun i j => qceval (isoJ_poly 2 dphis i j) pt in
   iso_detDF_2 J <> 0%F -> meq 2 (matmul 2 (iso_invDF_2 J) J) delta /\ meq 2 (matmul 2 J (iso_invDF_2 J)) delta) /\
  (let J := fun i j => qceval (isoJ_poly 3 dphis i j) pt in
   iso_detDF_3 J <> 0%F -> meq 3 (matmul 3 (iso_invDF_3 J) J) delta /\ meq 3 (matmul 3 J (iso_invDF_3 J)) delta).
Proof.
  intros dphis pt. split; intros J Hd; [exact (iso_inverse_2 Qc_field J Hd) | exact (iso_inverse_3 Qc_field J Hd)].
Qed.
Print Assumptions C10_iso_inverse_of_delivered_J.

(* the facet map (bndmap with the boundary element's basis) IS the restriction of F to the matching reference facet, for
   every admissible ordering of the facet's vertices (all permutations for simplicial facets, the 8 dihedral orders for the
   quadrilateral faces of a hexahedron) of every local facet; second-order 2-D cells include the mid-facet node *)
Theorem C10_iso_facet_map_is_restriction_of_F :
  facet_map_restricts_F_Q 1 line1_phi line1_psi line1_facets /\ facet_map_restricts_F_Q 2 tri1_phi tri1_psi tri1_facets /\
  facet_map_restricts_F_Q 2 quad1_phi quad1_psi quad1_facets /\ facet_map_restricts_F_Q 3 tet1_phi tet1_psi tet1_facets /\
  facet_map_restricts_F_Q 3 hex1_phi hex1_psi hex1_facets /\ facet_map_restricts_F_Q 2 tri2_phi tri2_psi tri2_facets /\
  facet_map_restricts_F_Q 2 quad2_phi quad2_psi quad2_facets.
Proof.
  exact (conj (facet_sound_Q _ _ _ _ line1_facet_map_is_restriction_of_F) (conj (facet_sound_Q _ _ _ _ tri1_facet_map_is_restriction_of_F) (conj (facet_sound_Q _ _ _ _ quad1_facet_map_is_restriction_of_F) (conj (facet_sound_Q _ _ _ _ tet1_facet_map_is_restriction_of_F) (conj (facet_sound_Q _ _ _ _ hex1_facet_map_is_restriction_of_F) (conj (facet_sound_Q _ _ _ _ tri2_facet_map_is_restriction_of_F) (facet_sound_Q _ _ _ _ quad2_facet_map_is_restriction_of_F))))))).
Qed.
Print Assumptions C10_iso_facet_map_is_restriction_of_F.

(* normals: nu = adj(J)^T N_s (adj = detDF * invDF, the T2-generated adjugate term instantiated at polynomials, J the delivered
   Jacobian at the facet point) is orthogonal to every tangent dG/dxi_j of the facet map — also on curved facets.
   The same statement for the hexahedron (3-D adjugate of the trilinear Jacobian) is Dyn.C10_RealBridge.iso_normal_orthogonal_hex1:
   proved on every run, kept out of this file's dependencies because coqchk needs ~10 min for it *)
Theorem C10_iso_normal_orthogonal_to_facet :
  normal_orthogonal_Q 2 (@iso_adj_2 poly PolyOps) tri1_dphi tri1_psi tri1_facets_n /\
  normal_orthogonal_Q 2 (@iso_adj_2 poly PolyOps) quad1_dphi quad1_psi quad1_facets_n /\
  normal_orthogonal_Q 3 (@iso_adj_3 poly PolyOps) tet1_dphi tet1_psi tet1_facets_n /\
  normal_orthogonal_Q 2 (@iso_adj_2 poly PolyOps) tri2_dphi tri2_psi tri2_facets_n /\
  normal_orthogonal_Q 2 (@iso_adj_2 poly PolyOps) quad2_dphi quad2_psi quad2_facets_n.
Proof.
  exact (conj (normal_sound_Q _ _ _ _ _ tri1_normal_orthogonal_to_dG) (conj (normal_sound_Q _ _ _ _ _ quad1_normal_orthogonal_to_dG) (conj (normal_sound_Q _ _ _ _ _ tet1_normal_orthogonal_to_dG) (conj (normal_sound_Q _ _ _ _ _ tri2_normal_orthogonal_to_dG) (normal_sound_Q _ _ _ _ _ quad2_normal_orthogonal_to_dG))))).
Qed.
Print Assumptions C10_iso_normal_orthogonal_to_facet.

(* on a parallelogram / parallelepiped cell the delivered J is constant and equals the affine matrix of the corner simplex:
   J_ij = node(e_j, i) - node(o, i) *)
Theorem C10_iso_parallelogram_J_is_affine :
  parallelogram_J_affine_Q 2 quad1_dphi quad1_coords quad1_origin quad1_units /\
  parallelogram_J_affine_Q 3 hex1_dphi hex1_coords hex1_origin hex1_units.
Proof.
  exact (conj (para_sound_Q _ _ _ _ _ quad1_parallelogram_J_is_affine) (para_sound_Q _ _ _ _ _ hex1_parallelogram_J_is_affine)).
Qed.
Print Assumptions C10_iso_parallelogram_J_is_affine.

(* ================= strictly convex quadrilaterals (MeshQuad1): positivity of det DF and OUTWARD normals =================
   corner_det pt k = orient(P_k, P_next, P_prev), the corner-triangle determinants (the hypothesis of group I's
   C14_quad_split_tiles, see corner_dets_are_C14_hypotheses); s = +-1 is the orientation of the cell.
   (a) det J (T2 cofactor term on the delivered polynomial J) is the bilinear interpolant of the four corner determinants —
       a polynomial identity — hence s det J > 0 at EVERY point of the closed reference square;
   (b) nu = adj(J)^T N_s (the un-normalised normal before division by det J) satisfies nu . (P_k - x) = - corner determinant for
       both vertices P_k of the opposite side and every point x of side s, so n = nu / det J has n . (P_k - x) < 0: it points out
       of the cell, for either orientation. *)
From Coq Require Import Lia.
Require Import Proofs.C10_QuadConvex Proofs.C14_QuadProofs.
Theorem C10_quad_detJ_positive_and_normals_outward : forall (pt : nat -> Q) (s : Q), Qeq (s * s) 1 ->
  (forall k, k < 4 -> Qlt 0 (s * corner_det pt k)) ->
  (Qle 0 (pt 0) -> Qle (pt 0) 1 -> Qle 0 (pt 1) -> Qle (pt 1) 1 ->
     Qlt 0 (s * qeval (detJ_poly (@iso_detDF_2 poly PolyOps) quad1_dphi) pt)) /\
  (forall fo, In fo quad1_outward -> forall km, In km (snd fo) -> snd km < 4 ->
     Qlt (s * qeval (nu_dot_to_vertex (@iso_adj_2 poly PolyOps) quad1_dphi quad1_psi (fst fo) (fst km)) pt) 0).
Proof.
  intros pt s Hs Hc. split.
  - intros H1 H2 H3 H4.
    exact (quad_detJ_positive _ _ quad1_detJ_is_bilinear_in_corner_determinants pt s Hs Hc H1 H2 H3 H4).
  - exact (quad_normal_outward _ _ _ _ quad1_normal_points_away_from_opposite_vertices pt s Hc).
Qed.
Print Assumptions C10_quad_detJ_positive_and_normals_outward.

(* the hypotheses are exactly the four orientation determinants of C14_quad_split_tiles *)
Theorem C10_corner_determinants_are_C14_hypotheses : forall pt : nat -> Q,
  let X k := pt (node_var 2 k 0) in let Y k := pt (node_var 2 k 1) in
  Qeq (corner_det pt 0) (orient (X 0) (Y 0) (X 1) (Y 1) (X 3) (Y 3)) /\ Qeq (corner_det pt 1) (orient (X 0) (Y 0) (X 1) (Y 1) (X 2) (Y 2)) /\
  Qeq (corner_det pt 2) (orient (X 1) (Y 1) (X 2) (Y 2) (X 3) (Y 3)) /\ Qeq (corner_det pt 3) (orient (X 0) (Y 0) (X 2) (Y 2) (X 3) (Y 3)).
Proof. exact corner_dets_are_C14_hypotheses. Qed.
Print Assumptions C10_corner_determinants_are_C14_hypotheses.

(* non-vacuity: the unit square with one corner pulled out is strictly convex, positively oriented *)
Example C10_convex_quad_instance :
  let pt := lpt [0; 0;  0; 0;  1; 0;  2; 2;  0; 1]%Q in forall k, k < 4 -> Qlt 0 (1 * corner_det pt k).
Proof. intros pt k Hk. destruct k as [|[|[|[|k]]]]; try lia; vm_compute; reflexivity. Qed.
Print Assumptions C10_convex_quad_instance.
