(* C14 — Point location and point evaluation are exact.
   Only statements; models in Model.C14_Finder, proofs in Proofs.C14_FinderProofs, ties to the CURRENT source in
   Dyn.C14_Tie* over Gen.C14Gen* (inverse affine map, inside tests, finder control flow, splits, probes indices).
   Arithmetic is exact (Q); the implementation's binary64 evaluation of the same tests is covered by the
   correspondence / oracle runs, not by these theorems.  The KD-tree is outside the model: the candidate list
   [cand] is universally quantified. *)
From Coq Require Import List Bool Arith QArith Lia.
Import ListNotations.
Require Import Model.C14_Finder Proofs.C14_FinderProofs Proofs.C14_QuadProofs.
Require Import Gen.C14GenAffine Gen.C14GenTri Gen.C14GenTet Gen.C14GenSplits Gen.C14GenProbes Gen.C14GenLine.
Require Import Dyn.C14_TieGeom Dyn.C14_TieFinder Dyn.C14_TieSplit Dyn.C14_TieProbes Dyn.C14_TieLine Dyn.C14_TieQuad Dyn.C14_SplitBary Dyn.C14_TieHexWedge.
Local Open Scope Q_scope.

(* finder_sound: for every mesh, every batch of points, every candidate list and every slack eps, each returned cell c
   has all barycentric coordinates of its point >= -eps (coordinates = the regenerated inside-test expressions
   applied to the regenerated inverse affine map), and c is a candidate or a cell number *)
Theorem C14_finder_sound_tri : forall eps mesh nt cand xs r,
    gen_tri_finder (tri_inside_cell eps mesh) nt cand xs = Some r ->
    Forall2 (fun x c => (forall l, In l (gen_tri_coords (triX (mesh c) x)) -> - eps <= l) /\ (In c cand \/ (c < nt)%nat)) xs r.
Proof. exact tri_finder_sound. Qed.
Print Assumptions C14_finder_sound_tri.

Theorem C14_finder_sound_tet : forall eps mesh nt cand xs r,
    gen_tet_finder (tet_inside_cell eps mesh) nt cand xs = Some r ->
    Forall2 (fun x c => (forall l, In l (gen_tet_coords (tetX (mesh c) x)) -> - eps <= l) /\ (In c cand \/ (c < nt)%nat)) xs r.
Proof. exact tet_finder_sound. Qed.
Print Assumptions C14_finder_sound_tet.

(* an empty batch of points gives the empty list of cells (the code returns at once; so does the model) *)
Theorem C14_finder_empty_batch : forall (P : Type) (inside : nat -> P -> bool) nt cand,
    gen_tri_finder inside nt cand [] = Some [] /\ gen_tet_finder inside nt cand [] = Some [].
Proof. intros. split; [apply gen_tri_finder_empty | apply gen_tet_finder_empty]. Qed.
Print Assumptions C14_finder_empty_batch.

(* the inside test with slack 0 characterises the closed simplex: it passes iff the point is a convex combination of the
   cell's vertices (every non-degenerate triangle / tetrahedron, every point) *)
Theorem C14_inside_iff_in_triangle : forall (P : nat -> nat -> Q), ~ gen_detA2 (gen_A P) == 0 -> forall x,
    gen_tri_inside 0 (triX P x) = true <->
    exists l0 l1 l2, 0 <= l0 /\ 0 <= l1 /\ 0 <= l2 /\ l0 + l1 + l2 == 1 /\
      x 0%nat == l0 * P 0%nat 0%nat + l1 * P 0%nat 1%nat + l2 * P 0%nat 2%nat /\
      x 1%nat == l0 * P 1%nat 0%nat + l1 * P 1%nat 1%nat + l2 * P 1%nat 2%nat.
Proof. exact tri_inside_iff_in_triangle. Qed.
Print Assumptions C14_inside_iff_in_triangle.

Theorem C14_inside_iff_in_tetrahedron : forall (P : nat -> nat -> Q), ~ gen_detA3 (gen_A P) == 0 -> forall x,
    gen_tet_inside 0 (tetX P x) = true <->
    exists l0 l1 l2 l3, 0 <= l0 /\ 0 <= l1 /\ 0 <= l2 /\ 0 <= l3 /\ l0 + l1 + l2 + l3 == 1 /\
      forall i, (i < 3)%nat -> x i == l0 * P i 0%nat + l1 * P i 1%nat + l2 * P i 2%nat + l3 * P i 3%nat.
Proof. exact tet_inside_iff_in_tetrahedron. Qed.
Print Assumptions C14_inside_iff_in_tetrahedron.

(* finder_complete: if every point of the batch lies in some cell of the mesh, cells are returned — for EVERY candidate
   list (the exhaustive pass makes the heuristic harmless) and every slack eps >= 0 *)
Theorem C14_finder_complete_tri : forall eps mesh nt cand xs, 0 <= eps ->
    (forall c, ~ gen_detA2 (gen_A (mesh c)) == 0) ->
    (forall x, In x xs -> exists c l0 l1 l2, (c < nt)%nat /\ 0 <= l0 /\ 0 <= l1 /\ 0 <= l2 /\ l0 + l1 + l2 == 1 /\
        x 0%nat == l0 * mesh c 0%nat 0%nat + l1 * mesh c 0%nat 1%nat + l2 * mesh c 0%nat 2%nat /\
        x 1%nat == l0 * mesh c 1%nat 0%nat + l1 * mesh c 1%nat 1%nat + l2 * mesh c 1%nat 2%nat) ->
    exists r, gen_tri_finder (tri_inside_cell eps mesh) nt cand xs = Some r.
Proof. exact tri_finder_complete. Qed.
Print Assumptions C14_finder_complete_tri.

Theorem C14_finder_complete_tet : forall eps mesh nt cand xs, 0 <= eps ->
    (forall c, ~ gen_detA3 (gen_A (mesh c)) == 0) ->
    (forall x, In x xs -> exists c l0 l1 l2 l3, (c < nt)%nat /\ 0 <= l0 /\ 0 <= l1 /\ 0 <= l2 /\ 0 <= l3 /\ l0 + l1 + l2 + l3 == 1 /\
        forall i, (i < 3)%nat -> x i == l0 * mesh c i 0%nat + l1 * mesh c i 1%nat + l2 * mesh c i 2%nat + l3 * mesh c i 3%nat) ->
    exists r, gen_tet_finder (tet_inside_cell eps mesh) nt cand xs = Some r.
Proof. exact tet_finder_complete. Qed.
Print Assumptions C14_finder_complete_tet.

(* finder_raises: the error ("Point is outside of the mesh") is the result exactly when some point of the batch passes
   the test in no cell of the mesh *)
Theorem C14_finder_raises_tri : forall eps mesh nt cand xs, (forall c, In c cand -> (c < nt)%nat) ->
    (gen_tri_finder (tri_inside_cell eps mesh) nt cand xs = None <->
     exists x, In x xs /\ forall c, (c < nt)%nat -> tri_inside_cell eps mesh c x = false).
Proof. exact tri_finder_raises_iff. Qed.
Print Assumptions C14_finder_raises_tri.

Theorem C14_finder_raises_tet : forall eps mesh nt cand xs, (forall c, In c cand -> (c < nt)%nat) ->
    (gen_tet_finder (tet_inside_cell eps mesh) nt cand xs = None <->
     exists x, In x xs /\ forall c, (c < nt)%nat -> tet_inside_cell eps mesh c x = false).
Proof. exact tet_finder_raises_iff. Qed.
Print Assumptions C14_finder_raises_tet.

(* split_index_map: in the hstack-ed split mesh of a quadrilateral / hexahedral / prismatic mesh, local vertex r of
   simplex k is vertex sel_(k / nt)[r] of cell (k mod nt): a located simplex k lies in cell k mod nt.  Every connectivity
   table, every nt > 0; the selections are the regenerated ones. *)
Theorem C14_split_index_map : forall (t : list (list nat)) (nt : nat) (r k : nat),
    (0 < nt)%nat -> (forall row, In row t -> length row = nt) ->
    (length t = 4%nat -> (r < 3)%nat -> (k < 2 * nt)%nat ->
       nth k (hstack_cols (map (fun sel => nth (nth r sel 0%nat) t []) gen_quad_sels)) 0%nat
       = nth (k mod nt) (nth (nth r (nth (k / nt) gen_quad_sels []) 0%nat) t []) 0%nat) /\
    (length t = 8%nat -> (r < 4)%nat -> (k < 6 * nt)%nat ->
       nth k (hstack_cols (map (fun sel => nth (nth r sel 0%nat) t []) gen_hex_sels)) 0%nat
       = nth (k mod nt) (nth (nth r (nth (k / nt) gen_hex_sels []) 0%nat) t []) 0%nat) /\
    (length t = 6%nat -> (r < 4)%nat -> (k < 3 * nt)%nat ->
       nth k (hstack_cols (map (fun sel => nth (nth r sel 0%nat) t []) gen_wedge_sels)) 0%nat
       = nth (k mod nt) (nth (nth r (nth (k / nt) gen_wedge_sels []) 0%nat) t []) 0%nat).
Proof. exact gen_split_index_map. Qed.
Print Assumptions C14_split_index_map.

(* two cooperating sites, both regenerated: the layout of the split connectivity built by to_meshtri / to_meshtet (simplex k
   is block fst of cell snd) and the decoding of the simplex number in element_finder agree for ALL cell counts and ALL
   simplex numbers, and the layout is the block layout for which the finder theorems above are stated *)
Theorem C14_split_layout_decode_agree : forall nt k, (0 < nt)%nat ->
    ((k < 2 * nt)%nat -> snd (gen_quad_layout nt k) = gen_quad_decode nt k /\ (fst (gen_quad_layout nt k) < 2)%nat) /\
    ((k < 6 * nt)%nat -> snd (gen_hex_layout nt k) = gen_hex_decode nt k /\ (fst (gen_hex_layout nt k) < 6)%nat) /\
    ((k < 3 * nt)%nat -> snd (gen_wedge_layout nt k) = gen_wedge_decode nt k /\ (fst (gen_wedge_layout nt k) < 3)%nat) /\
    gen_quad_layout nt k = ((k / nt)%nat, (k mod nt)%nat) /\ gen_hex_layout nt k = ((k / nt)%nat, (k mod nt)%nat) /\
    gen_wedge_layout nt k = ((k / nt)%nat, (k mod nt)%nat).
Proof.
  intros nt k Hnt. split; [intros; now apply quad_layout_decode_agree|]. split; [intros; now apply hex_layout_decode_agree|].
  split; [intros; now apply wedge_layout_decode_agree | exact (split_layouts_are_block_layouts nt k)].
Qed.
Print Assumptions C14_split_layout_decode_agree.

(* finite certificates on the reference cells (exhaustive over the regenerated tables): the split simplices use only
   vertices of the cell, are non-degenerate, their volumes add up to the cell's (sum |det| = d! * |cell|), and every
   two of them are separated by a checked linear functional (so they share boundary points only:
   Proofs.separated_common_points_on_plane).  Together with C14_quad_split_tiles / C14_reference_splits_tile (coverage and
   containment for ALL rational points) the splits tile the reference cells. *)
Theorem C14_split_certificates :
    (split_ok gen_quad_refp gen_quad_sels 4 2 = true /\ all_pairs_separated gen_quad_refp gen_quad_sels gen_quad_certs = true) /\
    (split_ok gen_hex_refp gen_hex_sels 8 6 = true /\ all_pairs_separated gen_hex_refp gen_hex_sels gen_hex_certs = true) /\
    (split_ok gen_wedge_refp gen_wedge_sels 6 3 = true /\ all_pairs_separated gen_wedge_refp gen_wedge_sels gen_wedge_certs = true).
Proof. exact (conj quad_split_certificate (conj hex_split_certificate wedge_split_certificate)). Qed.
Print Assumptions C14_split_certificates.

(* ---- quadrilaterals: the tiling step, formalised.  For every strictly convex quadrilateral v0 v1 v2 v3 (cyclic order,
   orientation s = +-1, the four corner triangles have strictly that orientation) and every point p:
   p is in the closed quadrilateral (the four edge functionals are >= 0) iff it is in the triangle [0,1,3] or in the
   triangle [1,2,3] of the to_meshtri split; a point in both lies on the diagonal v1 v3. *)
Theorem C14_quad_split_tiles : forall x0 y0 x1 y1 x2 y2 x3 y3 s : Q, s * s == 1 ->
    0 < s * orient x0 y0 x1 y1 x2 y2 -> 0 < s * orient x0 y0 x1 y1 x3 y3 ->
    0 < s * orient x0 y0 x2 y2 x3 y3 -> 0 < s * orient x1 y1 x2 y2 x3 y3 ->
    forall px py,
      (in_quad x0 y0 x1 y1 x2 y2 x3 y3 s px py <-> in_T013 x0 y0 x1 y1 x3 y3 s px py \/ in_T123 x1 y1 x2 y2 x3 y3 s px py) /\
      (in_T013 x0 y0 x1 y1 x3 y3 s px py -> in_T123 x1 y1 x2 y2 x3 y3 s px py -> orient x1 y1 x3 y3 px py == 0).
Proof. exact quad_split_tiles. Qed.
Print Assumptions C14_quad_split_tiles.

(* quad_finder_complete / quad_finder_sound: on every mesh of strictly convex quadrilaterals (any orientation per cell),
   with the split mesh built from the REGENERATED selections (simplex k = triangle k / nt of cell k mod nt, the layout
   proved by C14_split_index_map) and the regenerated triangle inside test: every batch of points each lying in some
   cell is located (every candidate list, every slack >= 0), and with slack 0 every returned cell contains its point *)
Theorem C14_quad_finder_complete : forall (s : nat -> Q) (quad : nat -> nat -> nat -> Q) (nt : nat),
    convex_quads s quad nt -> forall eps cand xs, 0 <= eps -> (0 < nt)%nat ->
    (forall x, In x xs -> exists c, (c < nt)%nat /\ in_quad_cell s quad c x) ->
    exists r, gen_quad_finder (tri_inside_cell eps (split_quad quad nt)) nt cand xs = Some r /\ Forall (fun c => c < nt)%nat r.
Proof. exact quad_finder_complete. Qed.
Print Assumptions C14_quad_finder_complete.

Theorem C14_quad_finder_sound : forall (s : nat -> Q) (quad : nat -> nat -> nat -> Q) (nt : nat),
    convex_quads s quad nt -> forall cand xs r, (0 < nt)%nat -> (forall k, In k cand -> (k < 2 * nt)%nat) ->
    gen_quad_finder (tri_inside_cell 0 (split_quad quad nt)) nt cand xs = Some r ->
    Forall2 (fun x c => (c < nt)%nat /\ in_quad_cell s quad c x) xs r.
Proof. exact quad_finder_sound. Qed.
Print Assumptions C14_quad_finder_sound.

(* ---- hexahedra and prisms with AFFINE cells (parallelepipeds: vertex v of cell c is o c + A c * (reference vertex v);
   affine prisms likewise), non-degenerate split tetrahedra.  A point is in cell c iff it is o c + A c * xi with xi in the
   reference cube [0,1]^3 (resp. the reference prism).  Then the finder over the REGENERATED six- (three-) tetrahedra split
   is complete — every batch of points each lying in some cell is located, every candidate list, every slack >= 0 —
   and, with slack 0, sound: the returned cell k mod nt contains the point.  (Reference level: the split tetrahedra cover
   the reference cell and stay inside it, by linear arithmetic on barycentric forms regenerated and proved per run; the
   same tables are the literals of Proofs.C18_TilingProofs: Dyn.C14_TieHexWedge.split_tables_are_C18_literals.) *)
Theorem C14_hex_finder_complete : forall cell o A nt eps cand xs,
    affine_cells gen_hex_refp 8 cell o A nt -> nondegenerate gen_hex_sels cell nt -> (0 < nt)%nat -> 0 <= eps ->
    (forall x, In x xs -> exists c, (c < nt)%nat /\ in_affine_cell in_cube o A c x) ->
    exists r, gen_hex_finder (tet_inside_cell eps (hex_split cell nt)) nt cand xs = Some r /\ Forall (fun c => c < nt)%nat r.
Proof. exact hex_finder_complete. Qed.
Print Assumptions C14_hex_finder_complete.

Theorem C14_hex_finder_sound : forall cell o A nt cand xs r,
    affine_cells gen_hex_refp 8 cell o A nt -> nondegenerate gen_hex_sels cell nt -> (0 < nt)%nat ->
    (forall k, In k cand -> (k < 6 * nt)%nat) ->
    gen_hex_finder (tet_inside_cell 0 (hex_split cell nt)) nt cand xs = Some r ->
    Forall2 (fun x c => (c < nt)%nat /\ in_affine_cell in_cube o A c x) xs r.
Proof. exact hex_finder_sound. Qed.
Print Assumptions C14_hex_finder_sound.

Theorem C14_wedge_finder_complete : forall cell o A nt eps cand xs,
    affine_cells gen_wedge_refp 6 cell o A nt -> nondegenerate gen_wedge_sels cell nt -> (0 < nt)%nat -> 0 <= eps ->
    (forall x, In x xs -> exists c, (c < nt)%nat /\ in_affine_cell in_prism o A c x) ->
    exists r, gen_wedge_finder (tet_inside_cell eps (wedge_split cell nt)) nt cand xs = Some r /\ Forall (fun c => c < nt)%nat r.
Proof. exact wedge_finder_complete. Qed.
Print Assumptions C14_wedge_finder_complete.

Theorem C14_wedge_finder_sound : forall cell o A nt cand xs r,
    affine_cells gen_wedge_refp 6 cell o A nt -> nondegenerate gen_wedge_sels cell nt -> (0 < nt)%nat ->
    (forall k, In k cand -> (k < 3 * nt)%nat) ->
    gen_wedge_finder (tet_inside_cell 0 (wedge_split cell nt)) nt cand xs = Some r ->
    Forall2 (fun x c => (c < nt)%nat /\ in_affine_cell in_prism o A c x) xs r.
Proof. exact wedge_finder_sound. Qed.
Print Assumptions C14_wedge_finder_sound.

(* the reference-cell facts themselves: cover and containment, for all rational points *)
Theorem C14_reference_splits_tile :
    (forall xi : nat -> Q, in_cube (xi 0%nat) (xi 1%nat) (xi 2%nat) <->
       exists b, (b < 6)%nat /\ gen_tet_inside 0 (tetX (ref_tet gen_hex_refp gen_hex_sels b) xi) = true) /\
    (forall xi : nat -> Q, in_prism (xi 0%nat) (xi 1%nat) (xi 2%nat) <->
       exists b, (b < 3)%nat /\ gen_tet_inside 0 (tetX (ref_tet gen_wedge_refp gen_wedge_sels b) xi) = true).
Proof.
  split; intros xi; split.
  - exact (hex_ref_cover xi). - intros [b [Hb H]]. exact (hex_ref_inside b xi Hb H).
  - exact (wedge_ref_cover xi). - intros [b [Hb H]]. exact (wedge_ref_inside b xi Hb H).
Qed.
Print Assumptions C14_reference_splits_tile.

(* the finder of a non-simplex mesh returns cell numbers < nt that are (simplex found by a sound location) mod nt.
   For quadrilaterals, parallelepipeds and affine prisms the full statements are C14_quad_/hex_/wedge_finder_sound and
   _complete above.  This theorem is what remains for TRILINEAR hexahedra that are not parallelepipeds (planar-face
   frusta, non-planar faces) and non-affine prisms: only the modulo map; containment and coverage there: search only. *)
Theorem C14_nonsimplex_finder_sound_partial :
  forall (P : Type) (inside : nat -> P -> bool) (nt : nat) cand xs r, (0 < nt)%nat ->
    (gen_quad_finder inside nt cand xs = Some r \/ gen_hex_finder inside nt cand xs = Some r \/ gen_wedge_finder inside nt cand xs = Some r) ->
    exists s ks, r = map (fun k => k mod nt) ks /\
                 Forall2 (fun x k => inside k x = true /\ (In k cand \/ k < s * nt)%nat) xs ks /\ Forall (fun c => c < nt)%nat r.
Proof.
  intros P inside nt cand xs r Hnt [H|[H|H]].
  - exists 2%nat. now apply split_finder_sound.
  - exists 6%nat. now apply split_finder_sound.
  - exists 3%nat. now apply split_finder_sound.
Qed.
Print Assumptions C14_nonsimplex_finder_sound_partial.

(* the 1-D finder (cells sorted by their left end, searchsorted): for ANY 1-D mesh — cells given by their end points
   lefts[k] <= rights[k] in the order of increasing (distinct) left ends, non-overlapping (they may touch; GAPS between
   them, i.e. disconnected meshes, and unused nodes are allowed), ANY cell numbering ixs — every batch of points each
   lying in some cell (vertices and end points included) is located point by point in a cell that contains it, and a
   batch with a point in no cell (outside, or in a gap) fails *)
Theorem C14_line_finder_spec : forall (lefts rights : list Q) (ixs : list nat),
    incr lefts -> length rights = length lefts -> length ixs = length lefts ->
    (forall k, (k < length lefts)%nat -> nth k lefts 0 <= nth k rights 0) ->
    (forall k, (S k < length lefts)%nat -> nth k rights 0 <= nth (S k) lefts 0) ->
    forall xs,
      ((forall x, In x xs -> exists j, (j < length lefts)%nat /\ nth j lefts 0 <= x <= nth j rights 0) ->
         exists r, gen_line_finder lefts rights ixs xs = Some r /\
                   Forall2 (fun x c => exists k, (k < length lefts)%nat /\ nth_error ixs k = Some c /\ nth k lefts 0 <= x <= nth k rights 0) xs r) /\
      ((exists x, In x xs /\ forall j, (j < length lefts)%nat -> ~ (nth j lefts 0 <= x <= nth j rights 0)) ->
         gen_line_finder lefts rights ixs xs = None).
Proof. exact gen_line_finder_spec. Qed.
Print Assumptions C14_line_finder_spec.

(* probes_spec: with rows / cols / data as regenerated from cell_basis.py, row r = c * npts + p of probes(x) @ y equals
   sum_k y[element_dofs[k][cell_p]] * phi_k^c(pt_p) — for ANY list of located cells (any number, order and repetition of
   query points), any number of components and local functions, any dof table.  interpolator = this product reshaped;
   point_source = row 0 of the one-point matrix (checked literally by the translator). *)
Theorem C14_probes_spec : forall (cells : list nat) (comp : nat) (phi : nat -> nat -> nat -> Q) (y : nat -> Q)
    (edofs : list (list nat)) (r : nat),
    (0 < length cells)%nat -> (r < comp * length cells)%nat ->
    coo_apply (gen_probe_rows (length edofs) comp (length cells)) (gen_probe_cols edofs cells comp)
              (gen_probe_vals (length edofs) comp (length cells) phi) y r
    == qsum (map (fun k => phi k (r / length cells)%nat (r mod length cells)%nat
                           * y (nth (nth (r mod length cells) cells 0%nat) (nth k edofs []) 0%nat)) (seq 0 (length edofs))).
Proof. exact gen_probes_spec. Qed.
Print Assumptions C14_probes_spec.

(* probes on a basis RESTRICTED to the cells tind (dof table element_dofs[:, tind]): the regenerated column map sends every
   located global cell to a position of tind holding that cell (and the call fails if a located cell is not in tind), so
   row r of probes(x) @ y again uses the dofs of the located GLOBAL cell — any tind (any order, repetitions), any points *)
Theorem C14_probes_spec_restricted : forall (edofs : list (list nat)) (nelems : nat) (ti cells cells' : list nat)
    (comp : nat) (phi : nat -> nat -> nat -> Q) (y : nat -> Q) (r : nat),
    gen_probe_restrict nelems (Some ti) cells = Some cells' -> (0 < length cells)%nat -> (r < comp * length cells)%nat ->
    coo_apply (gen_probe_rows (length edofs) comp (length cells)) (gen_probe_cols (restrict_edofs edofs ti) cells' comp)
              (gen_probe_vals (length edofs) comp (length cells) phi) y r
    == qsum (map (fun k => phi k (r / length cells)%nat (r mod length cells)%nat
                           * y (nth (nth (r mod length cells) cells 0%nat) (nth k edofs []) 0%nat)) (seq 0 (length edofs))).
Proof. exact gen_probes_spec_restricted. Qed.
Print Assumptions C14_probes_spec_restricted.

Theorem C14_restricted_column_map : forall nelems ti cells,
    (forall cells', gen_probe_restrict nelems (Some ti) cells = Some cells' ->
       Forall2 (fun c c' => (c' < length ti)%nat /\ nth c' ti 0%nat = c) cells cells') /\
    (forall c, In c cells -> ~ In c ti -> gen_probe_restrict nelems (Some ti) cells = None) /\
    gen_probe_restrict nelems None cells = Some cells.
Proof.
  intros nelems ti cells. split; [intros cells'; apply gen_probe_restrict_spec|].
  split; [intros c; apply gen_probe_restrict_outside | apply gen_probe_unrestricted].
Qed.
Print Assumptions C14_restricted_column_map.

(* non-vacuity: two triangles (0,0),(4,0),(0,4) and (4,0),(4,4),(0,4); a useless candidate list; three points — a
   vertex, an edge point, an interior point — are located (the vertex misses the candidate, so ALL points are redone
   exhaustively and the edge point gets cell 0; without the vertex the edge point gets the candidate cell 1); adding the
   outside point (5,5) makes the call raise *)
Definition ex_mesh (c i k : nat) : Q :=
  nth k (nth i (nth c [[[0; 4; 0]; [0; 0; 4]]; [[4; 4; 0]; [0; 4; 4]]] []) []) 0.
Definition pt (a b : Q) (i : nat) : Q := match i with 0%nat => a | _ => b end.
Example C14_instance :
  gen_tri_finder (tri_inside_cell 0 ex_mesh) 2 [1%nat] [pt 0 0; pt 2 2; pt 3 3] = Some [0%nat; 0%nat; 1%nat] /\
  gen_tri_finder (tri_inside_cell 0 ex_mesh) 2 [1%nat] [pt 2 2; pt 3 3] = Some [1%nat; 1%nat] /\
  gen_tri_finder (tri_inside_cell 0 ex_mesh) 2 [1%nat] [pt 0 0; pt 5 5] = None /\
  ~ gen_detA2 (gen_A (ex_mesh 0)) == 0 /\ ~ gen_detA2 (gen_A (ex_mesh 1)) == 0.
Proof.
  split; [vm_compute; reflexivity|]. split; [vm_compute; reflexivity|]. split; [vm_compute; reflexivity|].
  split; intros H; vm_compute in H; discriminate H.
Qed.
Print Assumptions C14_instance.

Example C14_restrict_instance :
  gen_probe_restrict 6 (Some [4; 1; 5]%nat) [5; 4; 4; 1]%nat = Some [2; 0; 0; 1]%nat /\
  gen_probe_restrict 6 (Some [4; 1; 5]%nat) [5; 3]%nat = None.
Proof. vm_compute. split; reflexivity. Qed.
Print Assumptions C14_restrict_instance.

(* non-vacuity of the quadrilateral theorems: a counter-clockwise trapezoid and a clockwise kite satisfy convex_quads; the
   finder over the regenerated split locates a vertex, a point of the diagonal and an interior point, and raises outside *)
Definition ex_quads (c i v : nat) : Q :=
  nth v (nth i (nth c [[[0; 4; 3; 0]; [0; 0; 2; 2]]; [[4; 6; 8; 6]; [0; 3; 0; (-1)]]] []) []) 0.
Definition ex_sign (c : nat) : Q := match c with 0%nat => 1 | _ => -1 end.
Example C14_quad_instance :
  convex_quads ex_sign ex_quads 2 /\
  gen_quad_finder (tri_inside_cell 0 (split_quad ex_quads 2)) 2 [3%nat] [pt 0 0; pt 2 1; pt 6 1; pt 1 1] = Some [0%nat; 0%nat; 1%nat; 0%nat] /\
  gen_quad_finder (tri_inside_cell 0 (split_quad ex_quads 2)) 2 [3%nat] [pt 1 1; pt 9 9] = None.
Proof.
  split; [|split; vm_compute; reflexivity].
  intros c Hc. destruct c as [|[|c]]; [| |lia]; vm_compute; repeat split; reflexivity.
Qed.
Print Assumptions C14_quad_instance.

(* non-vacuity of the 1-D theorem: cells [0,1], [1,3] and, after a gap, [5,7], numbered 2, 0, 1; the vertex 1 goes to the cell
   on its right, the right ends 3 and 7 to the cells they close, 4 (in the gap) and 8 (outside) fail *)
Example C14_line_instance :
  gen_line_finder [0; 1; 5] [1; 3; 7] [2; 0; 1]%nat [0; 1; 2; 3; 7; 1 # 2; 6] = Some [2; 0; 0; 0; 1; 2; 1]%nat /\
  gen_line_finder [0; 1; 5] [1; 3; 7] [2; 0; 1]%nat [2; 4] = None /\
  gen_line_finder [0; 1; 5] [1; 3; 7] [2; 0; 1]%nat [2; 8] = None /\ incr [0; 1; 5].
Proof.
  split; [vm_compute; reflexivity|]. split; [vm_compute; reflexivity|]. split; [vm_compute; reflexivity|].
  simpl; repeat split; reflexivity.
Qed.
Print Assumptions C14_line_instance.
