(* C20 — autodiff Jacobian bookkeeping; integrand helpers equal their definitions.
   Only statements; proofs live in Dyn.C20_Helpers / Dyn.C20_JaxDet (about the terms regenerated
   from skfem/helpers.py and skfem/autodiff/helpers.py on this run).  Every helper theorem
   holds for ALL inputs over ANY commutative ring (resp. field) R; an element of R stands for an array
   over the trailing (cell, quadrature point, ...) axes, on which every accepted construct is pointwise. *)
From Coq Require Import List Arith Ring Field QArith Qcanon.
Import ListNotations.
Require Import Base.C20_Ring Model.C20_Tensor Gen.C20Gen_np Gen.C20Gen_jx Gen.C20Agree Dyn.C20_Helpers.
Local Close Scope Qc_scope.
Local Close Scope Q_scope.

Definition is_ring (R : Type) (ops : FOps R) := ring_theory f0 f1 fadd fmul fsub fopp (@eq R).
Definition is_field (R : Type) (ops : FOps R) := field_theory f0 f1 fadd fmul fsub fopp fdiv finv (@eq R).

(* det (NumPy 2x2 and 3x3, JAX 2x2) is the Leibniz determinant: sum over all permutations, inversion sign *)
Theorem C20_det_is_leibniz : forall R ops, is_ring R ops -> forall A : mat R,
  np_det_2 A = leibniz 2 A /\ np_det_3 A = leibniz 3 A /\ jx_det_2 A = leibniz 2 A.
Proof. intros R ops H A. exact (conj (np_det_2_leibniz H A) (conj (np_det_3_leibniz H A) (jx_det_2_leibniz H A))). Qed.
Print Assumptions C20_det_is_leibniz.

Theorem C20_leibniz_explicit : forall R ops, is_ring R ops -> forall A : mat R,
  (leibniz 2 A = mget A 0 0 * mget A 1 1 - mget A 0 1 * mget A 1 0)%F /\
  (leibniz 3 A = mget A 0 0 * mget A 1 1 * mget A 2 2 + mget A 0 1 * mget A 1 2 * mget A 2 0
                 + mget A 0 2 * mget A 1 0 * mget A 2 1 - mget A 0 2 * mget A 1 1 * mget A 2 0
                 - mget A 0 1 * mget A 1 0 * mget A 2 2 - mget A 0 0 * mget A 1 2 * mget A 2 1)%F.
Proof. intros R ops H A. split; [exact (leibniz2_explicit H A) | exact (leibniz3_explicit H A)]. Qed.
Print Assumptions C20_leibniz_explicit.

(* A inv(A) = I = inv(A) A entrywise, and inv solves linear systems, whenever det A <> 0 (2x2 and 3x3) *)
Theorem C20_inverse : forall R ops, is_field R ops -> forall (A : mat R) (x : vec R),
  (np_det_2 A <> 0%F -> meq 2 (jx_mul_mm 2 A (np_inv_2 A)) delta /\ meq 2 (jx_mul_mm 2 (np_inv_2 A) A) delta /\
                        veq 2 (np_mul 2 (np_inv_2 A) (np_mul 2 A x)) x /\ veq 2 (np_mul 2 A (np_mul 2 (np_inv_2 A) x)) x) /\
  (np_det_3 A <> 0%F -> meq 3 (jx_mul_mm 3 A (np_inv_3 A)) delta /\ meq 3 (jx_mul_mm 3 (np_inv_3 A) A) delta /\
                        veq 3 (np_mul 3 (np_inv_3 A) (np_mul 3 A x)) x /\ veq 3 (np_mul 3 A (np_mul 3 (np_inv_3 A) x)) x).
Proof.
  intros R ops H A x. split; intros Hd.
  - split; [exact (inv2_right H A Hd) | split; [exact (inv2_left H A Hd) | exact (proj1 (inv_solves H A x) Hd)]].
  - split; [exact (inv3_right H A Hd) | split; [exact (inv3_left H A Hd) | exact (proj2 (inv_solves H A x) Hd)]].
Qed.
Print Assumptions C20_inverse.

Theorem C20_det_laws : forall R ops, is_ring R ops -> forall A B : mat R,
  np_det_2 (jx_mul_mm 2 A B) = (np_det_2 A * np_det_2 B)%F /\ np_det_3 (jx_mul_mm 3 A B) = (np_det_3 A * np_det_3 B)%F /\
  np_det_2 (np_transpose 2 A) = np_det_2 A /\ np_det_3 (np_transpose 3 A) = np_det_3 A.
Proof. intros R ops H A B. destruct (det_multiplicative H A B) as [H1 H2]. destruct (det_transpose H A) as [H3 H4].
  exact (conj H1 (conj H2 (conj H3 H4))). Qed.
Print Assumptions C20_det_laws.

(* cross product: orthogonal to both arguments, Lagrange identity, Levi-Civita form, antisymmetry; 2-D = det *)
Theorem C20_cross : forall R ops, is_ring R ops -> forall a b : vec R,
  np_dot 3 (np_cross_3 a b) a = 0%F /\ np_dot 3 (np_cross_3 a b) b = 0%F /\
  np_dot 3 (np_cross_3 a b) (np_cross_3 a b) = (np_dot 3 a a * np_dot 3 b b - np_dot 3 a b * np_dot 3 a b)%F /\
  (forall i, i < 3 -> np_cross_3 a b i = fsum 3 (fun j => fsum 3 (fun k => eps3 i j k * a j * b k))%F) /\
  (forall i, i < 3 -> np_cross_3 a b i = (- np_cross_3 b a i)%F) /\
  np_cross_2 a b = leibniz 2 (fun i j => if Nat.eqb j 0 then a i else b i) /\
  np_cross_2 a b = (- np_cross_2 b a)%F.
Proof.
  intros R ops H a b. destruct (cross3_orthogonal H a b) as [H1 H2].
  exact (conj H1 (conj H2 (conj (cross3_lagrange H a b) (conj (cross3_levi_civita H a b)
         (conj (cross3_antisym H a b) (conj (cross2_is_det H a b) (cross2_antisym H a b))))))).
Qed.
Print Assumptions C20_cross.

(* curl: u_grad i j = d u_i / d x_j;  (curl u)_i = eps_ijk d_j u_k;  2-D rotations *)
Theorem C20_curl : forall R ops, is_ring R ops -> forall (u : vec R) (G : mat R) (s : R) (g : vec R),
  (forall i, i < 3 -> np_curl_v3 u G i = fsum 3 (fun j => fsum 3 (fun k => eps3 i j k * G k j))%F) /\
  ((forall i j, G i j = G j i) -> forall i, i < 3 -> np_curl_v3 u G i = 0%F) /\
  np_curl_v2 u G = (mget G 1 0 - mget G 0 1)%F /\
  vget (np_curl_s2 s g) 0 = vget g 1 /\ vget (np_curl_s2 s g) 1 = (- vget g 0)%F.
Proof.
  intros R ops H u G s g. destruct (curl_s2_def s g) as [H1 H2].
  exact (conj (curl_v3_levi_civita H u G) (conj (curl_v3_of_symmetric H u G) (conj (curl_v2_def u G) (conj H1 H2)))).
Qed.
Print Assumptions C20_curl.

(* sym_grad = (G + G^T)/2, symmetric, identity on symmetric input, trace = divergence *)
Theorem C20_sym_grad : forall R ops, is_field R ops -> (1 + 1 <> 0 :> R)%F -> forall n (u : vec R) (G : mat R),
  (forall i j, np_sym_grad n u G i j = ((G i j + G j i) / (1 + 1))%F) /\
  (forall i j, np_sym_grad n u G i j = np_sym_grad n u G j i) /\
  ((forall i j, G i j = G j i) -> forall i j, np_sym_grad n u G i j = G i j) /\
  np_trace 2 (np_sym_grad 2 u G) = np_div_v 2 u G /\ np_trace 3 (np_sym_grad 3 u G) = np_div_v 3 u G.
Proof.
  intros R ops H H2 n u G. destruct (sym_grad_trace H H2 u G) as [T2 T3].
  exact (conj (sym_grad_def H H2 n u G) (conj (sym_grad_symmetric H H2 n u G)
         (conj (sym_grad_of_symmetric H H2 n u G) (conj T2 T3)))).
Qed.
Print Assumptions C20_sym_grad.

(* the einsum helpers equal their index definitions, for every extent n *)
Theorem C20_index_definitions : forall R ops, is_ring R ops ->
  forall n (u v w : vec R) (A B : mat R) (S T : ten3 R) (c : R) (i j k : nat),
  np_dot n u v = fsum n (fun i => u i * v i)%F /\
  np_ddot n A B = fsum n (fun i => fsum n (fun j => A i j * B i j))%F /\
  np_dddot n S T = fsum n (fun i => fsum n (fun j => fsum n (fun k => S i j k * T i j k)))%F /\
  np_prod2 n u v i j = (u i * v j)%F /\ np_prod3 n u v w i j k = (u i * v j * w k)%F /\
  np_mul n A u i = fsum n (fun j => A i j * u j)%F /\
  jx_mul_mm n A B i k = fsum n (fun j => A i j * B j k)%F /\
  np_trace n A = fsum n (fun i => A i i) /\
  np_transpose n A i j = A j i /\ np_transpose n (np_transpose n A) i j = A i j /\
  np_eye n c i j = (if Nat.eqb i j then c else 0%F) /\
  np_identity_w n A i j = delta i j /\ np_identity_N n c i j = delta i j /\
  np_div_v n u A = np_trace n A.
Proof.
  intros R ops H n u v w A B S T c i j k. destruct (identity_def H n A c i j) as [I1 I2].
  repeat (split; [reflexivity|]).
  split; [exact (eye_def H n c i j)|]. split; [exact I1|]. split; [exact I2 | reflexivity].
Qed.
Print Assumptions C20_index_definitions.

Theorem C20_helper_laws : forall R ops, is_ring R ops -> forall (A B : mat R) (u v x y : vec R) (a b : R),
  np_ddot 3 A B = np_trace 3 (jx_mul_mm 3 (np_transpose 3 A) B) /\
  np_ddot 3 (np_prod2 3 u v) (np_prod2 3 x y) = (np_dot 3 u x * np_dot 3 v y)%F /\
  np_dot 3 u (np_cross_3 v x) = np_det_3 (fun i j => match i with 0%nat => u j | 1%nat => v j | _ => x j end) /\
  np_inner_t 3 u a v b = (np_dot 3 u v + a * b)%F /\
  (forall i, i < 3 -> np_mul 3 (np_identity_w 3 A) x i = x i).
Proof.
  intros R ops H A B u v x y a b.
  exact (conj (proj2 (ddot_is_trace_of_product H A B)) (conj (proj2 (ddot_of_prods H u v x y))
         (conj (triple_product_is_det H u v x) (conj (proj2 (proj2 (proj2 (inner_def H 3 a b u v A B))))
         (fun i Hi => proj1 (mul_identity H A x i Hi)))))).
Qed.
Print Assumptions C20_helper_laws.

(* laws for EVERY extent n (not only 2 and 3): symmetry, A:B = tr(A^T B), associativity of the matrix-vector product,
   (AB)^T = B^T A^T, eye(w, n) acts as w times the identity, tr(u v^T) = u.v, (u v^T) x = (v.x) u *)
Theorem C20_helper_laws_all_extents : forall R ops, is_ring R ops -> forall n (u v x : vec R) (A B : mat R) (w : R),
  np_dot n u v = np_dot n v u /\
  np_ddot n A B = np_trace n (jx_mul_mm n (np_transpose n A) B) /\
  np_ddot n A B = np_ddot n B A /\
  (forall i, np_mul n (jx_mul_mm n A B) x i = np_mul n A (np_mul n B x) i) /\
  (forall i k, np_transpose n (jx_mul_mm n A B) i k = jx_mul_mm n (np_transpose n B) (np_transpose n A) i k) /\
  (forall i, i < n -> np_mul n (np_eye n w) x i = (w * x i)%F) /\
  np_trace n (np_prod2 n u v) = np_dot n u v /\
  (forall i, np_mul n (np_prod2 n u v) x i = (u i * np_dot n v x)%F).
Proof. intros R ops H n u v x A B w. exact (helper_laws_all_n H n u v x A B w). Qed.
Print Assumptions C20_helper_laws_all_extents.

(* trailing axes are pointwise: the helper terms instantiated at arrays over a trailing index set T (pointwise operations)
   are, at every trailing index t, the scalar terms applied to the slices at t - so every theorem above holds slice by slice *)
Theorem C20_trailing_axes_pointwise : forall (T R : Type) (ops : FOps R) n (A B : mat (T -> R)) (u v : vec (T -> R)) (t : T) i j,
  np_det_3 A t = np_det_3 (fun i j => A i j t) /\ jx_det_3 A t = jx_det_3 (fun i j => A i j t) /\
  np_det_2 A t = np_det_2 (fun i j => A i j t) /\
  np_inv_2 A i j t = np_inv_2 (fun i j => A i j t) i j /\ np_inv_3 A i j t = np_inv_3 (fun i j => A i j t) i j /\
  np_cross_3 u v i t = np_cross_3 (fun i => u i t) (fun i => v i t) i /\
  np_dot n u v t = np_dot n (fun i => u i t) (fun i => v i t) /\
  np_mul n A u i t = np_mul n (fun i j => A i j t) (fun i => u i t) i /\
  np_ddot n A B t = np_ddot n (fun i j => A i j t) (fun i j => B i j t) /\
  np_sym_grad n u A i j t = np_sym_grad n (fun i => u i t) (fun i j => A i j t) i j.
Proof.
  intros T R ops n A B u v t i j. destruct (det_pointwise A t) as [D2 [D3 [_ J3]]]. destruct (inv_pointwise A t i j) as [I2 I3].
  destruct (dot_mul_pointwise n u v A t i) as [Hd [Hm _]].
  exact (conj D3 (conj J3 (conj D2 (conj I2 (conj I3 (conj (proj2 (cross_pointwise u v t i)) (conj Hd (conj Hm
        (conj (ddot_pointwise n A B t) (sym_grad_pointwise n u A t i j)))))))))).
Qed.
Print Assumptions C20_trailing_axes_pointwise.

(* jump(w, u, v): (-1)^(w.idx[i]) times argument i (the traces of the two sides of an interior facet); identity without w.idx *)
Theorem C20_jump : forall R ops, is_ring R ops -> forall u v : R,
  (np_jump_none_0 u v = u /\ np_jump_none_1 u v = v) /\ (np_jump_01_0 u v = u /\ np_jump_01_1 u v = (- v)%F) /\
  (np_jump_10_0 u v = (- u)%F /\ np_jump_10_1 u v = v) /\ np_jump_0_0 u v = u /\ np_jump_1_0 u v = (- u)%F.
Proof. intros R ops H u v. exact (jump_def H u v). Qed.
Print Assumptions C20_jump.

(* the NumPy and the JAX variant of each helper present in both modules are the same function
   (per-helper lemmas are generated in Gen.C20Agree from the two translations; 3x3 det below) *)
Theorem C20_numpy_jax_agree : forall R (ops : FOps R) n (u v w : vec R) (A : mat R) (S T : ten3 R) (c : R) i j k,
  np_dot n u v = jx_dot n u v /\ np_ddot n A A = jx_ddot n A A /\ np_dddot n S T = jx_dddot n S T /\
  np_prod2 n u v i j = jx_prod2 n u v i j /\ np_prod3 n u v w i j k = jx_prod3 n u v w i j k /\
  np_mul n A u i = jx_mul n A u i /\ np_trace n A = jx_trace n A /\ np_transpose n A i j = jx_transpose n A i j /\
  np_eye n c i j = jx_eye n c i j /\ np_sym_grad n u A i j = jx_sym_grad n u A i j /\ np_div_v n u A = jx_div_v n u A /\
  np_det_2 A = jx_det_2 A /\ np_det_other A = jx_det_other A.
Proof.
  intros.
  exact (conj (agree_np_dot__jx_dot n u v) (conj (agree_np_ddot__jx_ddot n A A) (conj (agree_np_dddot__jx_dddot n S T)
        (conj (agree_np_prod2__jx_prod2 n u v i j) (conj (agree_np_prod3__jx_prod3 n u v w i j k)
        (conj (agree_np_mul__jx_mul n A u i) (conj (agree_np_trace__jx_trace n A) (conj (agree_np_transpose__jx_transpose n A i j)
        (conj (agree_np_eye__jx_eye n c i j) (conj (agree_np_sym_grad__jx_sym_grad n u A i j)
        (conj (agree_np_div_v__jx_div_v n u A) (conj (agree_np_det_2__jx_det_2 A) (agree_np_det_other__jx_det_other A))))))))))))).
Qed.
Print Assumptions C20_numpy_jax_agree.

(* non-vacuity: the hypotheses are satisfiable (canonical rationals), with a concrete invertible matrix *)
Example C20_instance_Qc :
  let A : mat Qc := mkmat [[Q2Qc 2; Q2Qc 1; Q2Qc 0]; [Q2Qc 1; Q2Qc 3; Q2Qc 1]; [Q2Qc 0; Q2Qc 1; Q2Qc 4]] in
  np_det_3 A <> 0%F /\ meq 3 (jx_mul_mm 3 A (np_inv_3 A)) delta.
Proof.
  intros A. assert (Hd : np_det_3 A <> 0%F) by (intro E; apply (f_equal Qcanon.this) in E; vm_compute in E; discriminate E).
  split; [exact Hd | exact (proj1 (proj2 (C20_inverse Qc QcOps Qc_field A (fun _ => 0%F)) Hd))].
Qed.
Print Assumptions C20_instance_Qc.

(* ================= NonlinearForm._assemble: Jacobian / residual COO bookkeeping =================
   gen_pieces (slice bounds, row/column sources, data slot, test/direction indices, flatten shape, sign) is
   regenerated from skfem/autodiff/__init__.py.  F = per-cell field data, g e U V = integrated integrand on
   cell e, D = what jax.linearize returns (a PARAMETER: JAX is trusted, not modelled — partial). *)
Require Import Model.C20_Nonlin Proofs.C20_NonlinProofs Gen.C20Gen_nl Dyn.C20_NonlinTie.

(* for all sizes, dof tables, integrands and oracles: position nt*(Nb*j+i)+e of the Jacobian triplets holds
   row = dof of TEST function i, column = dof of TRIAL function j, value = D(U |-> g e U phi_i)(X_e)[phi_j];
   position nt*i+e of the residual triplets holds (dof of test i, - g e X_e phi_i) *)
Theorem C20_nonlinear_bookkeeping :
  forall (R : Type) (ops : FOps R) (F : Type) (Nb nt : nat) (edofs : nat -> nat -> nat) (phi : nat -> nat -> F)
         (X : nat -> F) (g : nat -> F -> F -> R) (D : (F -> R) -> F -> F -> R) (j i e : nat),
    j < Nb -> i < Nb -> e < nt ->
    (nt * (Nb * j + i) + e < gen_jac_len Nb nt /\
     jac_rows F gen_pieces Nb nt edofs phi X g D (nt * (Nb * j + i) + e) = edofs i e /\
     jac_cols F gen_pieces Nb nt edofs phi X g D (nt * (Nb * j + i) + e) = edofs j e /\
     jac_data F gen_pieces Nb nt edofs phi X g D (nt * (Nb * j + i) + e) = D (fun U => g e U (phi i e)) (X e) (phi j e)) /\
    (nt * i + e < gen_rhs_len Nb nt /\
     rhs_rows F gen_pieces Nb nt edofs phi X g D (nt * i + e) = edofs i e /\
     rhs_data F gen_pieces Nb nt edofs phi X g D (nt * i + e) = (- g e (X e) (phi i e))%F).
Proof.
  intros R ops F Nb nt edofs phi X g D j i e Hj Hi He. rewrite gen_pieces_is_std.
  split; [exact (nl_jacobian_entries F Nb nt edofs phi X g D j i e Hj Hi He)
         | exact (nl_residual_entries F Nb nt edofs phi X g D i e Hi He)].
Qed.
Print Assumptions C20_nonlinear_bookkeeping.

(* integrand linear in the unknown: g e U V = a e U V - l e V with a additive and homogeneous in U, x interpolated by
   basis.interpolate, every dof < N, and an oracle D that is exact on such functions  ==>  the assembled pair is
   (A, b - A x) with A, b the ordinary assembly of a and l *)
Theorem C20_linear_reduces :
  forall (R : Type) (ops : FOps R), is_ring R ops ->
  forall (F : Type) (fzero : F) (fplus : F -> F -> F) (fscale : R -> F -> F) (Nb nt N : nat)
         (edofs : nat -> nat -> nat) (phi : nat -> nat -> F) (a : nat -> F -> F -> R) (l : nat -> F -> R)
         (x : nat -> R) (D : (F -> R) -> F -> F -> R),
    (forall e U W V, a e (fplus U W) V = (a e U V + a e W V)%F) ->
    (forall e c U V, a e (fscale c U) V = (c * a e U V)%F) ->
    (forall e V, a e fzero V = 0%F) ->
    (forall (h : F -> R) (k : R) (X0 W : F),
        (forall U V, h (fplus U V) = (h U + h V)%F) -> (forall c U, h (fscale c U) = (c * h U)%F) ->
        D (fun U => (h U - k)%F) X0 W = h W) ->
    (forall j e, j < Nb -> e < nt -> edofs j e < N) ->
    let g := fun e U V => (a e U V - l e V)%F in
    let X := interp F fzero fplus fscale Nb edofs phi x in
    (forall r c, dense_mat (gen_jac_len Nb nt) (jac_rows F gen_pieces Nb nt edofs phi X g D)
                           (jac_cols F gen_pieces Nb nt edofs phi X g D) (jac_data F gen_pieces Nb nt edofs phi X g D) r c
                 = asm_mat F Nb nt edofs phi a r c) /\
    (forall r, dense_vec (gen_rhs_len Nb nt) (rhs_rows F gen_pieces Nb nt edofs phi X g D)
                         (rhs_data F gen_pieces Nb nt edofs phi X g D) r
               = (asm_vec F Nb nt edofs phi l r - matvec N (asm_mat F Nb nt edofs phi a) x r)%F).
Proof.
  intros R ops H F fzero fplus fscale Nb nt N edofs phi a l x D Ha Hh Hz HD Hb g X. rewrite gen_pieces_is_std.
  exact (linear_reduces H F fzero fplus fscale Nb nt N edofs phi a l x D Ha Hh Hz HD Hb).
Qed.
Print Assumptions C20_linear_reduces.

(* non-vacuity of C20_linear_reduces: F = Qc, the symmetric difference quotient is an oracle that is exact on affine
   functions, a e U V = (e+2) U V *)
Example C20_linear_reduces_instance :
  let D := fun (h : Qc -> Qc) (X0 W : Qc) => ((h (X0 + W) - h (X0 - W)) / (1 + 1))%F in
  forall (h : Qc -> Qc) (k X0 W : Qc),
    (forall U V, h (U + V)%F = (h U + h V)%F) -> (forall c U, h (c * U)%F = (c * h U)%F) ->
    D (fun U => (h U - k)%F) X0 W = h W.
Proof.
  intros D h k X0 W Hadd Hhom. unfold D.
  assert (E : (X0 + W)%F = ((X0 - W) + (1 + 1) * W)%F) by (simpl; ring).
  rewrite E, Hadd, Hhom. simpl. field. discriminate.
Qed.
Print Assumptions C20_linear_reduces_instance.

(* ---- the arithmetic special methods of JaxDiscreteField (what `u + c`, `c - u`, `c / u`, `u ** 2` ... mean inside an
        integrand of a NonlinearForm), regenerated from skfem/autodiff/__init__.py: each IS the operator it implements,
        for a field or an array / number as the other operand *)
Example C20_requires_Gen_C20Gen_ops : True.
Proof. exact I. Qed.
Print Assumptions C20_requires_Gen_C20Gen_ops.
Require Import Gen.C20Gen_ops.
Theorem C20_field_operators : forall R ops, is_ring R ops -> forall s o : R,
  (jdf_add_f s o = (s + o)%F /\ jdf_add_a s o = (s + o)%F) /\
  (jdf_sub_f s o = (s - o)%F /\ jdf_sub_a s o = (s - o)%F) /\
  (jdf_rsub_f s o = (o - s)%F /\ jdf_rsub_a s o = (o - s)%F) /\
  (jdf_mul_f s o = (s * o)%F /\ jdf_mul_a s o = (s * o)%F) /\
  (jdf_rmul_f s o = (o * s)%F /\ jdf_rmul_a s o = (o * s)%F) /\
  (jdf_truediv_f s o = (s / o)%F /\ jdf_truediv_a s o = (s / o)%F) /\
  (jdf_rtruediv_f s o = (o / s)%F /\ jdf_rtruediv_a s o = (o / s)%F) /\
  (jdf_pow2 s = (s * s)%F /\ jdf_pow3 s = ((s * s) * s)%F) /\
  (jdf_radd_f s o = (o + s)%F /\ jdf_radd_a s o = (o + s)%F) /\ jdf_neg s = (- s)%F /\
  (* u ** k is value ** k and c ** u is c ** value, for ANY power function pw (base first) *)
  (forall pw : R -> R -> R, jdf_pow_sym pw s o = pw s o /\ jdf_rpow_sym pw s o = pw o s).
Proof.
  intros R ops H s o.
  split; [split; [apply jdf_add_f_def | apply jdf_add_a_def]; assumption|].
  split; [split; [apply jdf_sub_f_def | apply jdf_sub_a_def]; assumption|].
  split; [split; [apply jdf_rsub_f_def | apply jdf_rsub_a_def]; assumption|].
  split; [split; [apply jdf_mul_f_def | apply jdf_mul_a_def]; assumption|].
  split; [split; [apply jdf_rmul_f_def | apply jdf_rmul_a_def]; assumption|].
  split; [split; [apply jdf_truediv_f_def | apply jdf_truediv_a_def]; assumption|].
  split; [split; [apply jdf_rtruediv_f_def | apply jdf_rtruediv_a_def]; assumption|].
  split; [split; [apply jdf_pow2_def | apply jdf_pow3_def]; assumption|].
  split; [split; [apply jdf_radd_f_def | apply jdf_radd_a_def]; assumption|].
  split; [apply jdf_neg_def; assumption|].
  intros pw. split; [apply jdf_pow_sym_def | apply jdf_rpow_sym_def].
Qed.
Print Assumptions C20_field_operators.

(* the components of a field travel positionally: JaxDiscreteField( *c.astuple ) in NonlinearForm._assemble.  The order of
   DiscreteField.astuple (value, then _extra_attrs), of DiscreteField.__new__, of JaxDiscreteField.__init__ and of
   JaxDiscreteField.astuple (regenerated from the two class definitions) are one and the same list of names *)
Theorem C20_field_component_order :
  df_astuple_order = jdf_init_order /\ jdf_astuple_order = jdf_init_order /\ df_new_order = df_astuple_order.
Proof. exact field_orders_agree. Qed.
Print Assumptions C20_field_component_order.

(* ---- the JAX 3x3 determinant (own file: the only place defect F5 shows) *)
(* marker: a failure of the next Require (Dyn.C20_JaxDet does not compile) is attributed to this item *)
Example C20_requires_Dyn_C20_JaxDet : True.
Proof. exact I. Qed.
Print Assumptions C20_requires_Dyn_C20_JaxDet.
Require Import Dyn.C20_JaxDet.

Theorem C20_jax_det3_is_leibniz : forall R ops, is_ring R ops -> forall A : mat R,
  jx_det_3 A = leibniz 3 A /\ np_det_3 A = jx_det_3 A.
Proof. intros R ops H A. exact (conj (jx_det_3_leibniz H A) (det3_variants_agree H A)). Qed.
Print Assumptions C20_jax_det3_is_leibniz.

