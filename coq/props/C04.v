(* C04 — DOF numbering: gap-free, shared exactly along shared entities.
   Only statements.  Everything is stated on gen_dofs_init, the function REGENERATED from Dofs.__init__ (dofs.py);
   Dyn.C04Tie proves it equal to the hand model the proofs are about.
   Arguments: dim = element.dim, (nd, ed, fd, id) = nodal/edge/facet/interior DOF counts of the element (vector,
   composite and DG wrappers are just other counts), off = offset, (nv, ne, nf, nt) = numbers of vertices, edges,
   facets, cells, and t, t2e, t2f the topology tables (rows = local slots). *)
From Coq Require Import List Arith Bool Lia.
Import ListNotations.
Require Import Base.C11_Unique Model.C11_Topo Proofs.C11_TopoProofs.
Require Import Model.C04_Dofs Proofs.C04_DofsProofs Gen.C04Gen Dyn.C04Tie.
From Coq Require Import Ring.
Require Import Base.C01_Sums Model.C01_Assembly Proofs.C01_AssemblyProofs Proofs.C04_LocalityProofs.

(* the code (kind, entity, k) <-> number is a bijection onto the contiguous range [off, off + N),
   N = nd*nv + ed*ne + fd*nf + id*nt, computed by div/mod *)
Theorem C04_numbering_is_a_gap_free_bijection :
  forall dim nd ed fd id off nv ne nf nt : nat,
    total dim nd ed fd id nv ne nf nt = nd * nv + eff_ed dim ed * ne + fd * nf + id * nt /\
    (forall kd ent k, valid dim nd ed fd id nv ne nf nt kd ent k ->
       off <= encode dim nd ed fd id off nv ne nf nt kd ent k < off + total dim nd ed fd id nv ne nf nt /\
       decode dim nd ed fd id off nv ne nf nt (encode dim nd ed fd id off nv ne nf nt kd ent k) = (kd, ent, k)) /\
    (forall d, off <= d < off + total dim nd ed fd id nv ne nf nt ->
       let '(kd, ent, k) := decode dim nd ed fd id off nv ne nf nt d in
       valid dim nd ed fd id nv ne nf nt kd ent k /\ encode dim nd ed fd id off nv ne nf nt kd ent k = d) /\
    (forall kd ent k kd' ent' k',
       valid dim nd ed fd id nv ne nf nt kd ent k -> valid dim nd ed fd id nv ne nf nt kd' ent' k' ->
       encode dim nd ed fd id off nv ne nf nt kd ent k = encode dim nd ed fd id off nv ne nf nt kd' ent' k' ->
       kd = kd' /\ ent = ent' /\ k = k').
Proof.
  intros. split; [reflexivity|]. split; [|split].
  - intros kd ent k Hv. split; [now apply encode_bounds | now apply decode_encode].
  - apply encode_decode.
  - apply encode_inj.
Qed.
Print Assumptions C04_numbering_is_a_gap_free_bijection.

(* the per-entity tables are the blocks of that code, and the per-cell table holds, in the row of (kind, slot s, k)
   and the column of cell e, the code of (kind, entity of slot s of cell e, k) *)
Theorem C04_tables_agree_with_connectivity :
  forall dim nd ed fd id off nv ne nf nt t t2e t2f, wf dim fd nv ne nf nt t t2e t2f ->
    let D := gen_dofs_init dim nd ed fd id off nv ne nf nt t t2e t2f in
    (forall kd ent k, valid dim nd ed fd id nv ne nf nt kd ent k ->
       nth ent (nth k (match kd with Nodal => D_nodal D | Edge => D_edge D | Facet => D_facet D | Interior => D_interior D end) []) 0
       = encode dim nd ed fd id off nv ne nf nt kd ent k) /\
    (forall kd s k e, s < nslots t t2e t2f kd -> k < cnt dim nd ed fd id kd -> e < nt ->
       nth e (nth (rowpos dim nd ed fd t t2e t2f kd s k) (D_element D) []) 0
       = encode dim nd ed fd id off nv ne nf nt kd (slot_ent t t2e t2f kd s e) k).
Proof.
  intros dim nd ed fd id off nv ne nf nt t t2e t2f [Hfd [Ht [Ht2e Ht2f]]] D. unfold D. rewrite gen_dofs_init_is_model. split.
  - intros kd ent k [He Hk].
    destruct (blocks_of_model dim nd ed fd id off nv ne nf nt t t2e t2f Hfd) as [B1 [B2 [B3 B4]]].
    destruct kd; simpl in He, Hk; rewrite ?B1, ?B2, ?B3, ?B4; rewrite block_entry by assumption; reflexivity.
  - now apply element_entry.
Qed.
Print Assumptions C04_tables_agree_with_connectivity.

(* rows are grouped vertex, edge, facet, interior — the order AND the sizes of Element._bfun_counts (regenerated from
   element.py) for a reference cell with `length t` vertices, `length t2e` edges (none unless dim = 3) and `length t2f` facets:
   Nbfun = sum of the counts; every row is the row of exactly one (kind, slot, k) *)
Theorem C04_row_order :
  forall dim nd ed fd id off nv ne nf nt t t2e t2f, wf dim fd nv ne nf nt t t2e t2f -> (dim <> 3 -> length t2e = 0) ->
    let D := gen_dofs_init dim nd ed fd id off nv ne nf nt t t2e t2f in
    length (D_element D) = list_sum (gen_bfun_counts nd ed fd id (length t) (length t2e) (length t2f)) /\
    (forall r, r < length (D_element D) ->
       exists kd s k, s < nslots t t2e t2f kd /\ k < cnt dim nd ed fd id kd /\ r = rowpos dim nd ed fd t t2e t2f kd s k) /\
    rowpos dim nd ed fd t t2e t2f Nodal 0 0 = 0 /\
    rowpos dim nd ed fd t t2e t2f Edge 0 0 = nd * length t /\
    rowpos dim nd ed fd t t2e t2f Facet 0 0 = nd * length t + ed * length t2e /\
    rowpos dim nd ed fd t t2e t2f Interior 0 0 = nd * length t + ed * length t2e + fd * length t2f.
Proof.
  intros dim nd ed fd id off nv ne nf nt t t2e t2f [Hfd _] H3 D. unfold D. rewrite gen_dofs_init_is_model.
  rewrite gen_bfun_counts_is_model. pose proof (eff_ed_slots dim ed (length t2e) H3) as He. split; [|split].
  - rewrite element_rows by exact Hfd. simpl. lia.
  - now apply row_decompose.
  - simpl. repeat split; lia.
Qed.
Print Assumptions C04_row_order.

(* two cells reference the same number IFF it is the code of the same (kind, k) on an entity that both contain in the
   respective slots; interior DOFs (slot_ent Interior s e = e) belong to one cell only *)
Theorem C04_shared_iff_same_entity :
  forall dim nd ed fd id off nv ne nf nt t t2e t2f, wf dim fd nv ne nf nt t t2e t2f ->
    let D := gen_dofs_init dim nd ed fd id off nv ne nf nt t t2e t2f in
    forall kd s k e kd' s' k' e',
      s < nslots t t2e t2f kd -> k < cnt dim nd ed fd id kd -> e < nt ->
      s' < nslots t t2e t2f kd' -> k' < cnt dim nd ed fd id kd' -> e' < nt ->
      (nth e (nth (rowpos dim nd ed fd t t2e t2f kd s k) (D_element D) []) 0
       = nth e' (nth (rowpos dim nd ed fd t t2e t2f kd' s' k') (D_element D) []) 0
       <-> kd = kd' /\ k = k' /\ slot_ent t t2e t2f kd s e = slot_ent t t2e t2f kd' s' e').
Proof.
  intros dim nd ed fd id off nv ne nf nt t t2e t2f [Hfd [Ht [Ht2e Ht2f]]] D. unfold D. rewrite gen_dofs_init_is_model.
  now apply shared_iff.
Qed.
Print Assumptions C04_shared_iff_same_entity.

Theorem C04_interior_dofs_one_cell_only :
  forall dim nd ed fd id off nv ne nf nt t t2e t2f, wf dim fd nv ne nf nt t t2e t2f ->
    let D := gen_dofs_init dim nd ed fd id off nv ne nf nt t t2e t2f in
    forall k e kd' s' k' e',
      k < id -> e < nt -> s' < nslots t t2e t2f kd' -> k' < cnt dim nd ed fd id kd' -> e' < nt ->
      nth e (nth (rowpos dim nd ed fd t t2e t2f Interior 0 k) (D_element D) []) 0
       = nth e' (nth (rowpos dim nd ed fd t t2e t2f kd' s' k') (D_element D) []) 0 ->
      kd' = Interior /\ k' = k /\ e' = e.
Proof.
  intros dim nd ed fd id off nv ne nf nt t t2e t2f [Hfd [Ht [Ht2e Ht2f]]] D k e kd' s' k' e' Hk He Hs' Hk' He' Heq.
  unfold D in Heq. rewrite gen_dofs_init_is_model in Heq.
  apply (shared_iff dim nd ed fd id off nv ne nf nt t t2e t2f Hfd Ht Ht2e Ht2f Interior 0 k e kd' s' k' e') in Heq;
    try assumption; [|simpl; auto with arith].
  destruct Heq as [<- [<- Hent]]. simpl in Hent. now repeat split.
Qed.
Print Assumptions C04_interior_dofs_one_cell_only.

(* gap-free: entries lie in [off, off+N), every number of the range occurs, and N = max + 1 (dofs.py: self.N) is off + total *)
Theorem C04_contiguous_none_unused :
  forall dim nd ed fd id off nv ne nf nt t t2e t2f,
    wf dim fd nv ne nf nt t t2e t2f -> onto dim nd ed fd nv ne nf nt t t2e t2f ->
    let D := gen_dofs_init dim nd ed fd id off nv ne nf nt t t2e t2f in
    (forall x, In x (concat (D_element D)) -> off <= x < off + total dim nd ed fd id nv ne nf nt) /\
    (forall d, off <= d < off + total dim nd ed fd id nv ne nf nt ->
       exists r e, r < length (D_element D) /\ e < nt /\ nth e (nth r (D_element D) []) 0 = d) /\
    (0 < total dim nd ed fd id nv ne nf nt -> 0 < nt -> D_N D = off + total dim nd ed fd id nv ne nf nt).
Proof.
  intros dim nd ed fd id off nv ne nf nt t t2e t2f [Hfd [Ht [Ht2e Ht2f]]] [O1 [O2 O3]] D. unfold D.
  rewrite gen_dofs_init_is_model. split; [|split].
  - now apply element_in_range.
  - now apply all_used.
  - now apply N_is_total.
Qed.
Print Assumptions C04_contiguous_none_unused.

(* the DOF location table: IF every cell maps the reference location of a local basis function to one and the same point
   loc(d) for the global number d it carries ("mapped reference locations of a shared entity coincide" — a per-element fact
   checked by the oracle), THEN the scatter loop of AbstractBasis.__init__ leaves loc(d) in the table for EVERY number of the
   contiguous range, whatever the order of the cells (last write wins among equal values) *)
Theorem C04_doflocs_consistent :
  forall (A : Type) (loc : nat -> A) (zero : A) dim nd ed fd id nv ne nf nt t t2e t2f (X : list (list A)) (d : nat),
    wf dim fd nv ne nf nt t t2e t2f -> onto dim nd ed fd nv ne nf nt t t2e t2f ->
    let D := gen_dofs_init dim nd ed fd id 0 nv ne nf nt t t2e t2f in
    length X = length (D_element D) ->
    (forall r, r < length (D_element D) -> length (nth r X []) = length (nth r (D_element D) []) /\
       forall e, e < length (nth r (D_element D) []) -> nth e (nth r X []) zero = loc (nth e (nth r (D_element D) []) 0)) ->
    d < total dim nd ed fd id nv ne nf nt ->
    nth d (scatter_doflocs zero (total dim nd ed fd id nv ne nf nt) (D_element D) X) zero = loc d.
Proof.
  intros A loc zero dim nd ed fd id nv ne nf nt t t2e t2f X d Hwf Hon D HL HX Hd. unfold D in *.
  rewrite gen_dofs_init_is_model in *. destruct Hwf as [Hfd [Ht [Ht2e Ht2f]]]. destruct Hon as [O1 [O2 O3]].
  apply scatter_consistent; [exact HL | |].
  - intros r Hr. destruct (HX r Hr) as [L V]. split; [exact L|]. split; [|exact V].
    intros i Hi.
    assert (Hin : In i (concat (D_element (dofs_init dim nd ed fd id 0 nv ne nf nt t t2e t2f)))).
    { apply in_concat. exists (nth r (D_element (dofs_init dim nd ed fd id 0 nv ne nf nt t t2e t2f)) []).
      split; [now apply nth_In | exact Hi]. }
    apply (element_in_range dim nd ed fd id 0 nv ne nf nt t t2e t2f Hfd Ht Ht2e Ht2f) in Hin. lia.
  - apply (all_used_in dim nd ed fd id 0 nv ne nf nt t t2e t2f Hfd Ht Ht2e Ht2f O1 O2 O3). lia.
Qed.
Print Assumptions C04_doflocs_consistent.

(* matrix locality, on group D's model of BilinearForm._assemble + COO->dense (Model.C01_Assembly): over any commutative ring, for any
   bilinear kernel, trial basis ub and test basis vb on the same cells: the assembled matrix has shape (N_test, N_trial) and its entry
   (r, c) is zero unless some integrated cell e has r among its test DOFs and c among its trial DOFs *)
Theorem C04_matrix_locality :
  forall (R : Type) (rO rI : R) (radd rmul rsub : R -> R -> R) (ropp : R -> R),
    ring_theory rO rI radd rmul rsub ropp (@eq R) ->
  forall (V W : Type) (form : V -> V -> W -> R) (w : nat -> nat -> W) (ub : basis R V) (vb0 : option (basis R V)),
    let vb := match vb0 with None => ub | Some b => b end in
    wf_basis ub -> wf_basis vb -> bnelems vb = bnelems ub -> bnq vb = bnq ub ->
    exists c A,
      bilinear_assemble R rO radd rmul V W form w ub vb0 = Some c /\
      to_dense2 R rO radd c = Some A /\
      c_shape c = [bN vb; bN ub] /\ length A = bN vb /\
      (forall r, r < bN vb -> length (nth r A []) = bN ub) /\
      forall r cc, r < bN vb -> cc < bN ub ->
        (forall j i e, j < bNbfun ub -> i < bNbfun vb -> e < bnelems ub ->
           nth e (element_dofs vb i) 0 = r -> nth e (element_dofs ub j) 0 = cc -> False) ->
        nth cc (nth r A []) rO = rO.
Proof. intros R rO rI radd rmul rsub ropp Rth V W. exact (matrix_locality R rO rI radd rmul rsub ropp Rth V W). Qed.
Print Assumptions C04_matrix_locality.

(* ... and the per-cell table regenerated from Dofs.__init__ IS such a basis table (Nbfun rows of nelems entries, all < N = total),
   for every well-formed topology and count vector, so the theorem above applies to every Basis built on it *)
Theorem C04_element_dofs_is_an_assembler_basis :
  forall (R V : Type) dim nd ed fd id nv ne nf nt t t2e t2f nq (B : nat -> nat -> nat -> V) (dx : nat -> nat -> R),
    wf dim fd nv ne nf nt t t2e t2f ->
    let D := gen_dofs_init dim nd ed fd id 0 nv ne nf nt t t2e t2f in
    wf_basis (mkBasis (total dim nd ed fd id nv ne nf nt) (length (D_element D)) nt nq (D_element D) B dx).
Proof.
  intros R V dim nd ed fd id nv ne nf nt t t2e t2f nq B dx H D. unfold D. rewrite gen_dofs_init_is_model.
  now apply dofs_basis_wf.
Qed.
Print Assumptions C04_element_dofs_is_an_assembler_basis.

(* C11 supplies the hypotheses for the tables the library derives: t2f / t2e of ANY cell list are in range and onto *)
Theorem C04_hypotheses_hold_for_derived_tables :
  forall cells indices : list (list nat),
    table_ok (length cells) (mapping cells indices) (length (entities true cells indices)) /\
    table_onto (length cells) (mapping cells indices) (length (entities true cells indices)).
Proof. exact derived_table_ok. Qed.
Print Assumptions C04_hypotheses_hold_for_derived_tables.

(* non-vacuity: P2-like counts (1 per vertex, 1 per facet, 0 interior) on two triangles sharing an edge, offset 0 *)
Example C04_two_triangles_P2 :
  let D := gen_dofs_init 2 1 0 1 0 0 4 0 5 2 [[0; 3]; [1; 2]; [2; 1]] [] [[0; 4]; [2; 2]; [1; 3]] in
  D_element D = [[0; 3]; [1; 2]; [2; 1]; [4; 8]; [6; 6]; [5; 7]] /\ D_N D = 9 /\
  D_nodal D = [[0; 1; 2; 3]] /\ D_facet D = [[4; 5; 6; 7; 8]] /\ D_edge D = [] /\ D_interior D = [].
Proof. vm_compute. repeat split. Qed.
Print Assumptions C04_two_triangles_P2.

Example C04_hypotheses_satisfiable :
  wf 2 1 4 0 5 2 [[0; 3]; [1; 2]; [2; 1]] [] [[0; 4]; [2; 2]; [1; 3]] /\
  onto 2 1 0 1 4 0 5 2 [[0; 3]; [1; 2]; [2; 1]] [] [[0; 4]; [2; 2]; [1; 3]].
Proof.
  assert (T1 : table_ok 2 [[0; 3]; [1; 2]; [2; 1]] 4).
  { intros s Hs. simpl in Hs. destruct s as [|[|[|s]]]; try lia; (split; [reflexivity|]);
      intros e He; destruct e as [|[|e]]; try lia; simpl; lia. }
  assert (T2 : table_ok 2 [] 0) by (intros s Hs; simpl in Hs; lia).
  assert (T3 : table_ok 2 [[0; 4]; [2; 2]; [1; 3]] 5).
  { intros s Hs. simpl in Hs. destruct s as [|[|[|s]]]; try lia; (split; [reflexivity|]);
      intros e He; destruct e as [|[|e]]; try lia; simpl; lia. }
  split; [split; [lia | split; [exact T1 | split; [exact T2 | exact T3]]]|]. split; [|split].
  - intros _ x Hx. destruct x as [|[|[|[|x]]]]; try lia;
      [exists 0, 0 | exists 1, 0 | exists 2, 0 | exists 0, 1]; simpl; repeat split; lia.
  - unfold eff_ed. simpl. lia.
  - intros _ x Hx. destruct x as [|[|[|[|[|x]]]]]; try lia;
      [exists 0, 0 | exists 2, 0 | exists 1, 0 | exists 2, 1 | exists 0, 1]; simpl; repeat split; lia.
Qed.
Print Assumptions C04_hypotheses_satisfiable.
