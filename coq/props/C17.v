(* C17 — Saving and loading a mesh round-trips geometry, connectivity and tags: the codecs.
   Only statements; proofs live in Proofs.C17_TagCodecProofs, the tie to the source in Dyn.C17_Tie /
   Dyn.C17_TieDecode.  gen_* and HEX_MAPPING / INV_HEX_MAPPING are REGENERATED from skfem/mesh/mesh.py and
   skfem/io/meshio.py on every run.  File formats themselves (meshio) are covered by correspondence only. *)
From Coq Require Import List Arith Bool ZArith NArith Sorted.
From Coq Require String.
Import ListNotations.
Require Import Model.C17_TagCodec Proofs.C17_TagCodecProofs Gen.C17Gen Dyn.C17_Tie Dyn.C17_TieDecode.
(* second-order classes: qualified names only (the list vocabulary of C18_Surgery overlaps with C17_TagCodec) *)
Require Model.C18_Surgery Model.C17_HighOrder Proofs.C17_HighOrderProofs Gen.C17GenHO Dyn.C17_TieHO.

(* bitmask_roundtrip: for EVERY set S of distinct slot numbers, bit r of sum_{s in S} 2^s is set iff r is in S *)
Theorem C17_bitmask_roundtrip :
  forall (S : list nat) (r : nat), NoDup S ->
    (N.testbit (sum_pow2 S) (N.of_nat r) = true <-> In r S).
Proof. exact bitmask_roundtrip_set. Qed.
Print Assumptions C17_bitmask_roundtrip.

(* the same for the bit packing as the code writes it, (1 << arange(n)) @ mask, for every column predicate *)
Theorem C17_bitpack_testbit :
  forall (n : nat) (m : nat -> bool) (r : nat),
    N.testbit (bitpack n m) (N.of_nat r) = (r <? n) && m r.
Proof. exact testbit_bitpack. Qed.
Print Assumptions C17_bitpack_testbit.

(* boundary_roundtrip: for every number of facet slots and cells, every pair of tables (t2f, f2t), every
   duplicate-free facet list b (boundary or interior facets, in any order) and every orientation vector
   ori such that each tagged (facet, flag) is coherent with the tables — the cell f2t[flag][facet] exists
   (so flag 0 on boundary facets), lists the facet in exactly one of its slots, and for flag 0 differs from
   f2t[1][facet] — decoding the encoded cell data returns the facets sorted increasingly, each with the
   flag it was tagged with. *)
Theorem C17_boundary_roundtrip :
  forall (nslots nt : nat) (t2f : mat nat) (f2t : mat Z) (ori : list bool) (b : list nat),
    length ori = length b -> NoDup b ->
    (forall f o, In (f, o) (combine b ori) -> coherent1 nslots nt t2f f2t f o) ->
    gen_decode_boundary nslots nt t2f f2t (gen_encode_boundary nslots nt t2f f2t ori b)
    = (map fst (sort_kv (combine b ori)), map snd (sort_kv (combine b ori))).
Proof.
  intros nslots nt t2f f2t ori b Hlen Hnd Hcoh.
  rewrite gen_decode_boundary_is_model, gen_encode_boundary_is_model.
  exact (boundary_roundtrip_model nslots nt t2f f2t ori b Hlen Hnd Hcoh).
Qed.
Print Assumptions C17_boundary_roundtrip.

(* the same round trip when the DECODER works with another neighbour table f2t' (from_meshio: the table of the mesh as
   loaded, e.g. with sorted cells) but with the SAME slot table t2f as the encoder (from_meshio passes the slot table of the
   connectivity as read; checked by the translator): facets sorted, and the decoded flag keeps the tagged side — whenever
   the owner cell chosen by the encoder is one of the two distinct neighbours in f2t', the flag selects it *)
Theorem C17_boundary_roundtrip_loaded_tables :
  (forall (nslots nt : nat) (t2f : mat nat) (f2t f2t' : mat Z) (ori : list bool) (b : list nat),
     length ori = length b -> NoDup b ->
     (forall f o, In (f, o) (combine b ori) -> coherent1 nslots nt t2f f2t f o) ->
     gen_decode_boundary nslots nt t2f f2t' (gen_encode_boundary nslots nt t2f f2t ori b)
     = (map fst (sort_kv (combine b ori)),
        map (fun fo : nat * bool => Z.eqb (get2 (- 1)%Z f2t' 1 (fst fo)) (side_cell f2t (snd fo) (fst fo)))
            (sort_kv (combine b ori)))) /\
  (forall (f2t' : mat Z) (f : nat) (c : Z),
     get2 (- 1)%Z f2t' 0 f <> get2 (- 1)%Z f2t' 1 f ->
     (c = get2 (- 1)%Z f2t' 0 f \/ c = get2 (- 1)%Z f2t' 1 f) ->
     get2 (- 1)%Z f2t' (if Z.eqb (get2 (- 1)%Z f2t' 1 f) c then 1 else 0) f = c).
Proof.
  split; [|exact decoded_flag_keeps_side].
  intros nslots nt t2f f2t f2t' ori b Hlen Hnd Hcoh.
  rewrite gen_decode_boundary_is_model, gen_encode_boundary_is_model.
  exact (boundary_roundtrip_other_f2t nslots nt t2f f2t f2t' ori b Hlen Hnd Hcoh).
Qed.
Print Assumptions C17_boundary_roundtrip_loaded_tables.

(* what that right-hand side is: the facet column is strictly increasing and has exactly the tagged facets;
   the (facet, flag) pairs are exactly the tagged pairs *)
Theorem C17_roundtrip_result_spec :
  forall (ori : list bool) (b : list nat), length ori = length b -> NoDup b ->
    StronglySorted lt (map fst (sort_kv (combine b ori))) /\
    (forall f, In f (map fst (sort_kv (combine b ori))) <-> In f b) /\
    (forall f o, In (f, o) (sort_kv (combine b ori)) <-> In (f, o) (combine b ori)).
Proof.
  intros ori b Hlen Hnd. destruct (roundtrip_facets_sorted b ori Hlen Hnd) as [He [Hs Hin]].
  rewrite He. split; [exact Hs|]. split; [exact Hin|]. intros f o. apply roundtrip_pairs.
Qed.
Print Assumptions C17_roundtrip_result_spec.

(* the boolean test evaluated on the tables of real meshes in the correspondence run implies the hypotheses *)
Theorem C17_coherence_test_sound :
  forall (nslots nt : nat) (t2f : mat nat) (f2t : mat Z) (ori : list bool) (b : list nat),
    coherent_tagb nslots nt t2f f2t ori b = true ->
    length ori = length b /\ NoDup b /\
    (forall f o, In (f, o) (combine b ori) -> coherent1 nslots nt t2f f2t f o).
Proof. exact coherent_tagb_sound. Qed.
Print Assumptions C17_coherence_test_sound.

(* subdomain_roundtrip: decoding the indicator array gives the tagged cells (those below nt), increasing;
   a strictly increasing subdomain array comes back identically *)
Theorem C17_subdomain_roundtrip :
  forall (nt : nat) (s : list nat),
    StronglySorted lt (gen_decode_subdomain (gen_encode_subdomain nt s)) /\
    (forall c, In c (gen_decode_subdomain (gen_encode_subdomain nt s)) <-> In c s /\ c < nt) /\
    (StronglySorted lt s -> Forall (fun c => c < nt) s -> gen_decode_subdomain (gen_encode_subdomain nt s) = s).
Proof.
  intros nt s. rewrite gen_decode_subdomain_is_model, gen_encode_subdomain_is_model.
  destruct (subdomain_roundtrip_model nt s) as [H1 H2].
  split; [exact H1|]. split; [exact H2|]. exact (subdomain_roundtrip_sorted nt s).
Qed.
Print Assumptions C17_subdomain_roundtrip.

(* hex_perm_inverse: the node-row permutation applied on export is undone by the one applied on import,
   for every 8-row (MeshHex1) and 27-row (MeshHex2) connectivity, in both directions; INV_HEX_MAPPING is the
   index table of HEX_MAPPING and both are permutations (finite, enumerated: 8 and 27 entries) *)
Theorem C17_hex_perm_inverse :
  (forall (A : Type) (d : A) (t : list A), length t = 8 ->
     permute_rows d gen_hex1_in (permute_rows d gen_hex1_out t) = t /\
     permute_rows d gen_hex1_out (permute_rows d gen_hex1_in t) = t) /\
  (forall (A : Type) (d : A) (t : list A), length t = 27 ->
     permute_rows d gen_hex2_in (permute_rows d gen_hex2_out t) = t /\
     permute_rows d gen_hex2_out (permute_rows d gen_hex2_in t) = t) /\
  INV_HEX_MAPPING = inverse_by_index HEX_MAPPING /\
  length HEX_MAPPING = 27 /\ is_perm_of_range HEX_MAPPING = true /\ is_perm_of_range (firstn 8 HEX_MAPPING) = true.
Proof.
  split; [intros A d t Ht; split; [exact (hex1_save_load A d t Ht) | exact (hex1_load_save A d t Ht)]|].
  split; [intros A d t Ht; split; [exact (hex2_save_load A d t Ht) | exact (hex2_load_save A d t Ht)]|].
  split; [exact inv_hex_is_index|].
  destruct hex_mapping_is_permutation as [H1 [H2 [H3 _]]]. split; [exact H1|]. split; [exact H2 | exact H3].
Qed.
Print Assumptions C17_hex_perm_inverse.

(* npz key scheme (with the optional key sort_t): for all tag names and every subset `on` of boundaries that carry orientation flags, the keys
   written by save_npz are read back by load_npz as exactly the boundary names and exactly the subdomain names (the
   fixed keys doflocs / t and the flag arrays are not mistaken for tags), and a boundary finds its flag array iff it
   was written *)
Theorem C17_npz_keys_roundtrip :
  forall (bn sn on : list String.string) (unsorted : bool),
    let keys := gen_npz_fixed_keys ++ map (key_with_prefix gen_npz_save_b) bn
                                   ++ map (key_with_prefix gen_npz_save_s) sn
                                   ++ map (key_with_prefix gen_npz_save_o) on
                                   ++ (if unsorted then [gen_npz_sort_t_key] else []) in
    decode_keys gen_npz_load_b keys = bn /\ decode_keys gen_npz_load_s keys = sn /\
    (forall n, In (key_with_prefix gen_npz_load_o n) keys <-> In n on) /\
    (In gen_npz_sort_t_key keys <-> unsorted = true).
Proof. exact npz_keys_roundtrip. Qed.
Print Assumptions C17_npz_keys_roundtrip.

(* the optional key sort_t of to_dict / save_npz (written only when the flag differs from the class default, read back when
   present, class default otherwise): the flag comes back for every class default and every value, so cells that are not
   in ascending vertex order (oriented()) are not re-sorted on load and f2t, hence the meaning of the flags, is kept *)
Theorem C17_sort_t_roundtrip :
  forall default v : bool, gen_sort_t_load default (gen_sort_t_save default v) = v.
Proof. exact gen_sort_t_roundtrip. Qed.
Print Assumptions C17_sort_t_roundtrip.

(* dict_roundtrip (to_dict / from_dict, hence JSON): for pairwise distinct boundary names every boundary comes back
   with its facet list and with exactly its orientation flags (none for unoriented ones) *)
Theorem C17_dict_roundtrip :
  forall (b : bdict), NoDup (map fst b) ->
    gen_dict_load (gen_dict_boundaries b) (gen_dict_orientations b) = b.
Proof. exact dict_roundtrip_model. Qed.
Print Assumptions C17_dict_roundtrip.

(* non-vacuity: two triangles (0,1,2), (1,2,3); facets 0={0,1} 1={0,2} 2={1,2} 3={1,3} 4={2,3}.  The tag
   [4; 2; 1] with flags [0; 1; 0] (an interior facet owned by its SECOND cell, given unsorted) satisfies the
   hypotheses and round-trips through the regenerated code *)
Example C17_instance :
  let t2f := [[0; 2]; [2; 4]; [1; 3]] in
  let f2t := [[0; 0; 0; 1; 1]; [-1; -1; 1; -1; -1]]%Z in
  let b := [4; 2; 1] in let ori := [false; true; false] in
  (length ori = length b /\ NoDup b /\
   forall f o, In (f, o) (combine b ori) -> coherent1 3 2 t2f f2t f o) /\
  gen_encode_boundary 3 2 t2f f2t ori b = [4%N; 3%N] /\
  gen_decode_boundary 3 2 t2f f2t (gen_encode_boundary 3 2 t2f f2t ori b) = ([1; 2; 4], [false; true; false]).
Proof.
  intros t2f f2t b ori. split; [apply coherent_tagb_sound; vm_compute; reflexivity|].
  split; vm_compute; reflexivity.
Qed.
Print Assumptions C17_instance.

(* high-order node reordering of Mesh.__post_init__ (any external node numbering): (1) every vertex slot keeps its
   coordinates provided the numbers of the higher-order nodes do not collide with vertex numbers; (2) node number idx[k]
   receives the coordinates of external node src[k] provided slots sharing a node number carry equal coordinates *)
Theorem C17_postinit_keeps_coordinates :
  forall (P : Type) (zero : P) (M ncols : nat) (p : list P) (t edofs_hi : C18_Surgery.mat nat),
    (forall r e,
       Forall (fun k => length (C17_HighOrder.hi_uniq M t) <= k) (C17_HighOrder.flattenF ncols edofs_hi) ->
       r < length (firstn M t) -> e < length (nth r (firstn M t) []) ->
       nth (nth e (nth r (C17GenHO.gen_hi_t M t) []) 0) (C17GenHO.gen_hi_doflocs zero M ncols p t edofs_hi) zero
       = nth (nth e (nth r (firstn M t) []) 0) p zero) /\
    (forall k,
       let idx := C17_HighOrder.flattenF ncols edofs_hi in
       let src := C17_HighOrder.flattenF ncols (skipn M t) in
       length src = length idx -> k < length idx -> nth k idx 0 < length (C17_HighOrder.hi_doflocs0 zero M p t) ->
       (forall k', k' < length idx -> nth k' idx 0 = nth k idx 0 ->
                   nth (nth k' src 0) p zero = nth (nth k src 0) p zero) ->
       nth (nth k idx 0) (C17GenHO.gen_hi_doflocs zero M ncols p t edofs_hi) zero = nth (nth k src 0) p zero).
Proof.
  intros P zero M ncols p t edofs_hi. split.
  - intros r e. exact (C17_HighOrderProofs.postinit_vertices zero M ncols p t edofs_hi r e).
  - intros k. exact (C17_HighOrderProofs.postinit_high zero M ncols p t edofs_hi k).
Qed.
Print Assumptions C17_postinit_keeps_coordinates.

(* round trip of the second-order classes through to_meshio / from_meshio: what to_meshio writes is canonical (vertex
   numbers 0..nv-1 first, the rows of t are the element's DOF numbers, all numbers occur) and on such input the
   reordering of __post_init__ is the identity: same t, same doflocs *)
Theorem C17_postinit_roundtrip :
  forall (P : Type) (zero : P) (M ncols : nat) (p : list P) (t : C18_Surgery.mat nat) (nv : nat),
    C17_HighOrder.hi_uniq M t = seq 0 nv -> length p = S (list_max (concat t)) -> nv <= length p ->
    Forall (fun k => nv <= k) (C17_HighOrder.flattenF ncols (skipn M t)) ->
    (forall i, nv <= i < length p -> In i (C17_HighOrder.flattenF ncols (skipn M t))) ->
    C17GenHO.gen_hi_t M t = firstn M t /\ C17GenHO.gen_hi_doflocs zero M ncols p t (skipn M t) = p.
Proof.
  intros P zero M ncols p t nv Hu Hl Hnv Hhi Hcov.
  exact (C17_HighOrderProofs.postinit_identity zero M ncols p t (skipn M t) nv Hu eq_refl Hl Hnv Hhi Hcov).
Qed.
Print Assumptions C17_postinit_roundtrip.

(* node tables of the second-order cell types (finite, enumerated on the regenerated element DOF locations): local DOF k
   of the element of MeshTri2 / MeshQuad2 / MeshTet2 sits at node k of triangle6 / quad9 / tetra10; for MeshHex2 (and the
   first 8 rows for MeshHex1) the rows permuted by HEX_MAPPING are the hexahedron27 nodes up to the cube symmetry
   x -> 1 - x.  Reference: the VTK node numbering written out in Model.C17_HighOrder (coordinates doubled). *)
Theorem C17_second_order_node_order :
  C17GenHO.gen_doflocs2_triangle6 = C17_HighOrder.vtk_triangle6 /\
  C17GenHO.gen_doflocs2_quad9 = C17_HighOrder.vtk_quad9 /\
  C17GenHO.gen_doflocs2_tetra10 = C17_HighOrder.vtk_tetra10 /\
  C18_Surgery.gather [] C17GenHO.gen_doflocs2_hexahedron27 C17GenHO.gen_hex_mapping
  = map C17_HighOrder.reflect2 C17_HighOrder.vtk_hexahedron27 /\
  C17GenHO.gen_hex_mapping = HEX_MAPPING.
Proof.
  destruct C17_TieHO.second_order_node_tables as [H1 [H2 [H3 [H4 _]]]].
  split; [exact H1|]. split; [exact H2|]. split; [exact H3|]. split; [exact H4 | vm_compute; reflexivity].
Qed.
Print Assumptions C17_second_order_node_order.

Import String.   (* string literals; after everything that uses List.length *)
(* cell-data key scheme: the keys written by _encode_cell_data are parsed by name.split(':', 2) into the marker, the
   kind and the tag name, for EVERY tag name (also one that contains ':') *)
Theorem C17_key_scheme_roundtrip :
  forall (name : String.string),
    gen_parse_key (String.append gen_key_subdomain name) = ("skfem"%string, "s"%string, name) /\
    gen_parse_key (String.append gen_key_boundary name) = ("skfem"%string, "b"%string, name).
Proof. rewrite gen_parse_key_is_model. exact key_scheme_roundtrip_all. Qed.
Print Assumptions C17_key_scheme_roundtrip.


(* same mesh class: each of the eight supported classes is written as a meshio cell type that from_meshio maps back to
   the same class (finite, enumerated on the regenerated TYPE_MESH_MAPPING / MESH_TYPE_MAPPING) *)
Theorem C17_class_roundtrip :
  forall c, In c supported_classes ->
    exists ty, lookup c gen_type_of_class = Some ty /\ lookup ty gen_class_of_type = Some c.
Proof.
  intros c Hc. destruct class_type_roundtrip as [H _]. rewrite forallb_forall in H. specialize (H c Hc).
  destruct (lookup c gen_type_of_class) as [ty|]; [|discriminate]. exists ty. split; [reflexivity|].
  destruct (lookup ty gen_class_of_type) as [c'|]; [|discriminate]. apply String.eqb_eq in H. subst. reflexivity.
Qed.
Print Assumptions C17_class_roundtrip.

(* forwarding of Mesh.save -> io.meshio.to_file -> to_meshio (regenerated): every argument reaches the parameter of the same
   name with the documented defaults (point_data = cell_data = None, encode_cell_data = True, encode_point_data = False), and
   for ALL dictionaries of the caller and of the encoder: without the flag the caller's dictionary is passed on as it is; with
   the flag every key the encoder does not produce keeps the caller's value (user data are never lost) and every key of the
   encoder carries the encoder's value *)
Theorem C17_save_forwarding :
  (gen_to_file_passes = gen_to_meshio_params /\ gen_to_file_defaults = gen_to_meshio_defaults /\
   gen_save_passes = ["self"; "filename"; "point_data"; "cell_data"]%string) /\
  forall (V : Type) (ecd epd : bool) (user : option (list (string * V))) (enc : list (string * V)),
    let spec (flag : bool) (res : option (list (string * V))) :=
      (flag = false -> res = user) /\
      (flag = true -> exists d, res = Some d /\
         (forall k, lookup k enc = None -> lookup k d = match user with Some u => lookup k u | None => None end) /\
         (NoDup (map fst enc) -> forall k v, lookup k enc = Some v -> lookup k d = Some v)) in
    spec ecd (gen_cell_data_of_to_meshio ecd epd user enc) /\ spec epd (gen_point_data_of_to_meshio ecd epd user enc).
Proof.
  split.
  - destruct save_forwarding as [H1 [H2 [_ [_ [H5 _]]]]]. split; [exact H1|]. split; [exact H5 | exact H2].
  - intros V ecd epd user enc spec. destruct (gen_data_is_model V ecd epd user enc) as [-> ->].
    split; [exact (data_option_spec ecd user enc) | exact (data_option_spec epd user enc)].
Qed.
Print Assumptions C17_save_forwarding.
