(* C19 — vector, composite and block structures agree with their components.
   Only statements; proofs live in Proofs.C19_BlocksProofs / Proofs.C19_CompositeProofs, the tie to the source in
   Dyn.C19Tie / Dyn.C19Bmat / Dyn.C19CompTie.  Theorems speak about the definitions REGENERATED from coo_data.py,
   element_vector.py, utils.py, assembly/__init__.py, abstract_basis.py, element_composite.py and (for the assembled
   data) bilinear_form.py. *)
From Coq Require Import List Arith Bool ZArith Ring_theory.
Import ListNotations.
Require Import Base.C01_Sums Model.C01_Assembly Proofs.C01_AssemblyProofs Model.C19_Blocks Proofs.C19_BlocksProofs.
Require Import Gen.C01Gen Dyn.C01Tie Gen.C19Gen Dyn.C19Tie Dyn.C19Bmat.

(* ---------- ElementVector: local index i of the vector element <-> (scalar basis function ind, component n) ---------- *)
Theorem C19_vector_decode : forall dim i, 0 < dim ->
  let '(ind, n) := gen_vector_decode dim i in ind = i / dim /\ n = i mod dim /\ n < dim /\ vector_encode dim (ind, n) = i.
Proof. exact gen_vector_decode_spec. Qed.

Theorem C19_vector_decode_bijection : forall dim Nb, 0 < dim ->
  (forall ind n, n < dim -> gen_vector_decode dim (vector_encode dim (ind, n)) = (ind, n)) /\
  (forall i, i < Nb * dim <-> fst (gen_vector_decode dim i) < Nb).
Proof. intros dim Nb Hd. split; [intros; now apply gen_vector_encode_decode | intros; now apply gen_vector_decode_range]. Qed.

(* ---------- skfem.utils.bmat: mat.blocks are the split points of the block columns ---------- *)
Theorem C19_bmat_blocks : forall widths, bmat_domain widths -> gen_bmat_blocks widths = prefix_sums widths.
Proof. exact gen_bmat_blocks_spec. Qed.

Section C19.
  Variable R : Type.
  Variables (rO rI : R) (radd rmul rsub : R -> R -> R) (ropp : R -> R).
  Variable Rth : ring_theory rO rI radd rmul rsub ropp (@eq R).
  Variable V W : Type.
  Notation basis := (basis R V).

  (* to_dense (a + b) = to_dense a + to_dense b *)
  Theorem C19_coo_add_dense : forall (a b : coo R) nr nc A B,
    c_shape a = [nr; nc] -> c_shape b = [nr; nc] -> length (c_indices a) = 2 -> length (c_indices b) = 2 ->
    gen_to_dense2 R rO radd a = Some A -> gen_to_dense2 R rO radd b = Some B ->
    exists C, gen_to_dense2 R rO radd (gen_coo_add R a b) = Some C /\
      forall r c, r < nr -> c < nc -> nth c (nth r C []) rO = radd (nth c (nth r A []) rO) (nth c (nth r B []) rO).
  Proof. exact (gen_coo_add_dense R rO rI radd rmul rsub ropp Rth). Qed.

  (* asm over lists / products of bases: the matrix of the sum of the elemental data is the sum of the matrices,
     for any number of summands *)
  Theorem C19_asm_list_sum : forall nr nc (l : list (coo R)) (c0 : coo R),
    good R rO radd nr nc c0 -> Forall (good R rO radd nr nc) l ->
    exists s, gen_coo_sum R (c0 :: l) = Some s /\ good R rO radd nr nc s /\
      forall r c, r < nr -> c < nc ->
        dentry R rO radd s r c = radd (dentry R rO radd c0 r c) (sum_over rO radd l (fun x => dentry R rO radd x r c)).
  Proof. exact (gen_coo_sum_dense R rO rI radd rmul rsub ropp Rth). Qed.

  (* tolocal_spec: for the data and the local shape that the regenerated BilinearForm._assemble produces, for all
     Nu, Nv (rectangular), all cell counts: local matrix e has entry [i][j] = K j i e — row = test function i,
     column = trial function j, like the global matrix.  (On the pinned tree: refuted, F10.) *)
  Theorem C19_tolocal_spec : forall form w (ub : basis) (vb0 : option basis),
    let vb := match vb0 with None => ub | Some b => b end in
    let Nu := bNbfun ub in let Nv := bNbfun vb in let nt := bnelems ub in
    wf_basis ub -> wf_basis vb -> bnelems vb = bnelems ub -> bnq vb = bnq ub -> 0 < Nu * Nv ->
    exists c L,
      gen_bilinear_assemble R rO radd rmul V W form w ub vb0 = Some c /\
      gen_tolocal R rO (c_data c) (c_local c) = Some L /\ length L = nt /\
      forall e i j, e < nt -> i < Nv -> j < Nu -> loc3 R rO L e i j = Kjie R rO radd rmul V W form w ub vb j i e.
  Proof. exact (gen_tolocal_spec R rO radd rmul V W). Qed.

  (* fromlocal (tolocal c) = c *)
  Theorem C19_fromlocal_tolocal : forall (data : list R) n0 n1 L, 0 < n0 * n1 ->
    gen_tolocal R rO data [n0; n1] = Some L -> gen_fromlocal R rO L (length data / (n0 * n1)) n0 n1 = data.
  Proof. exact (gen_fromlocal_tolocal R rO). Qed.

  (* COOData.dot is the product with the assembled (duplicates summed) matrix *)
  Theorem C19_coo_dot : forall (c : coo R) (x : list R) n A z,
    c_shape c = [n; n] -> length x = n -> gen_to_dense2 R rO radd c = Some A -> gen_coo_dot R rO radd rmul c x [] = Some z ->
    z = matvec R rO radd rmul A x.
  Proof. exact (gen_coo_dot_spec R rO rI radd rmul rsub ropp Rth). Qed.
End C19.

Print Assumptions C19_vector_decode.
Print Assumptions C19_vector_decode_bijection.
Print Assumptions C19_bmat_blocks.
Print Assumptions C19_coo_add_dense.
Print Assumptions C19_asm_list_sum.
Print Assumptions C19_tolocal_spec.
Print Assumptions C19_fromlocal_tolocal.
Print Assumptions C19_coo_dot.

(* ---------- non-vacuity: a rectangular (Nu = 2, Nv = 3), 2-cell, non-symmetric instance over Z ---------- *)
Definition exV := (Z * Z)%type.
Definition ex_form (u v : exV) (w : Z) : Z := (w * (fst u * snd v) + 2 * (snd u * fst v) + 3 * (fst u * fst v))%Z.
Definition ex_ub : basis Z exV :=
  mkBasis 4 2 2 2 [[0; 3]; [1; 0]]
          (fun j e q => (Z.of_nat (1 + j + 2 * e + q), Z.of_nat (2 + 3 * j + e)) : exV) (fun e q => Z.of_nat (1 + e + 2 * q)).
Definition ex_vb : basis Z exV :=
  mkBasis 5 3 2 2 [[4; 1]; [2; 2]; [0; 3]]
          (fun i e q => (Z.of_nat (7 + i * i + e), Z.of_nat (1 + i + 5 * q)) : exV) (fun e q => Z.of_nat (1 + e + 2 * q)).
Definition ex_w (e q : nat) : Z := Z.of_nat (1 + 3 * e + q).

Example C19_instance_tolocal :
  match gen_bilinear_assemble Z 0%Z Z.add Z.mul exV Z ex_form ex_w ex_ub (Some ex_vb) with
  | Some c => gen_tolocal Z 0%Z (c_data c) (c_local c)
  | None => None
  end = Some [[[332; 621]; [382; 714]; [506; 953]]; [[1320; 1880]; [1526; 2168]; [1936; 2768]]]%Z
  /\ wf_basis ex_ub /\ wf_basis ex_vb.
Proof. split; [vm_compute; reflexivity|]. split; apply wf_basisb_sound; reflexivity. Qed.
Print Assumptions C19_instance_tolocal.
